#!/bin/sh
# Offline setup: build the Lean project (model, proofs, driver) and the tools from files on disk.
set -e
cd "$(dirname "$0")"
export GOFLAGS=-mod=mod GOPROXY=off GOSUMDB=off GOTOOLCHAIN=local
mkdir -p bin evidence replays
(cd tools/factgen && go build -o ../../bin/factgen .)
./bin/factgen /repo > lean/Tally/Generated/Facts.lean
(cd lean && lake build)
cp /repo/go.sum harness/go.sum
(cd harness && go build -tags verif -o ../bin/harness.setup . && rm -f ../bin/harness.setup)
echo setup-ok
