import Tally.Generated.Facts
/-! Tie for C01: the atomic-operation sequence of the counter, as the model's actions assume
(`inc` = one atomic add, `swap` = one atomic swap-to-zero inside `value()`, the reporter call
after `value()` returned and only for a non-zero delta), re-checked against the current source. -/
namespace Tally.Tie.C01
open Tally

theorem inc_is_one_atomic_add : Facts.counterIncOps = ["atomic.AddInt64(&c.curr, v)"] := rfl
theorem value_is_one_atomic_swap : Facts.counterValueOps = ["atomic.SwapInt64(&c.curr, 0)"] := rfl
theorem value_returns_swap : Facts.counterValueReturns = ["return atomic.SwapInt64(&c.curr, 0)"] := rfl
theorem report_calls_value_then_reporter :
    Facts.counterReportOps = ["c.value()", "r.ReportCounter(name, tags, delta)"] := rfl
theorem cached_report_calls_value_then_reporter :
    Facts.counterCachedReportOps = ["c.value()", "c.cachedCount.ReportCount(delta)"] := rfl
theorem report_skips_zero : Facts.counterReportGuards = ["delta == 0"] := rfl
theorem histogram_buckets_use_counter_value :
    Facts.histogramReportOps.head? = some "h.samples[i].counter.value()"
    ∧ Facts.histogramCachedReportOps.head? = some "h.samples[i].counter.value()" := ⟨rfl, rfl⟩
theorem snapshot_is_one_load : Facts.counterSnapshotOps = ["atomic.LoadInt64(&c.curr)"] := rfl

end Tally.Tie.C01
