import Tally.Generated.Facts
/-! Frozen bodies for C15 (generated once by tools/gen_tie_frozen.py from the source the model was written
against; re-proved against the facts regenerated from /repo on every run). -/
namespace Tally.Tie.C15Frozen
open Tally

theorem body_m3_reporter_flush_unchanged : Facts.body_m3_reporter_flush = ["func(mets []m3thrift.Metric) []m3thrift.Metric", "if len(mets) == 0 { return mets }", "r.numBatches.Inc()", "err := r.client.EmitMetricBatchV2(m3thrift.MetricBatch{ Metrics: mets, CommonTags: r.commonTags, })", "if err != nil { r.numWriteErrors.Inc() if te, ok := err.(thrift.TTransportException); ok && te.TypeId() == thrift.INVALID_DATA { _ = r.client.Transport.Flush() } }", "for i, _ := range mets", "| mets[i].Tags = nil", "return mets[:0]"] := rfl

theorem body_thriftudp__NewTMultiUDPClientTransport_unchanged : Facts.body_thriftudp__NewTMultiUDPClientTransport = ["func( destHostPorts []string, locHostPort string, ) (*TMultiUDPTransport, error)", "var transports []thrift.TTransport", "for i, _ := range destHostPorts", "| trans, err := NewTUDPClientTransport(destHostPorts[i], locHostPort)", "| if err != nil { return nil, err }", "| transports = append(transports, trans)", "return &TMultiUDPTransport{transports: transports}, nil"] := rfl

theorem body_thriftudp__NewTUDPClientTransport_unchanged : Facts.body_thriftudp__NewTUDPClientTransport = ["func(destHostPort string, locHostPort string) (*TUDPTransport, error)", "destAddr, err := net.ResolveUDPAddr(\"udp\", destHostPort)", "if err != nil { return nil, thrift.NewTTransportException(thrift.NOT_OPEN, err.Error()) }", "var locAddr *net.UDPAddr", "if locHostPort != \"\" { locAddr, err = net.ResolveUDPAddr(\"udp\", locHostPort) if err != nil { return nil, thrift.NewTTransportException(thrift.NOT_OPEN, err.Error()) } }", "conn, err := net.DialUDP(destAddr.Network(), locAddr, destAddr)", "if err != nil { return nil, thrift.NewTTransportException(thrift.NOT_OPEN, err.Error()) }", "return &TUDPTransport{ addr: destAddr, conn: conn, readByteBuf: make([]byte, 1), }, nil"] := rfl

theorem body_thriftudp_TMultiUDPTransport_Close_unchanged : Facts.body_thriftudp_TMultiUDPTransport_Close = ["func() error", "for _, trans := range p.transports", "| if err := trans.Close(); err != nil { return err }", "return nil"] := rfl

theorem body_thriftudp_TMultiUDPTransport_Flush_unchanged : Facts.body_thriftudp_TMultiUDPTransport_Flush = ["func() error", "var firstErr error", "for _, trans := range p.transports", "| if err := trans.Flush(); err != nil && firstErr == nil { firstErr = err }", "return firstErr"] := rfl

theorem body_thriftudp_TMultiUDPTransport_IsOpen_unchanged : Facts.body_thriftudp_TMultiUDPTransport_IsOpen = ["func() bool", "for _, trans := range p.transports", "| if open := trans.IsOpen(); !open { return false }", "return true"] := rfl

theorem body_thriftudp_TMultiUDPTransport_Open_unchanged : Facts.body_thriftudp_TMultiUDPTransport_Open = ["func() error", "for _, trans := range p.transports", "| if err := trans.Open(); err != nil { return err }", "return nil"] := rfl

theorem body_thriftudp_TMultiUDPTransport_Write_unchanged : Facts.body_thriftudp_TMultiUDPTransport_Write = ["func(buff []byte) (int, error)", "var ( n int firstErr error )", "for _, trans := range p.transports", "| written, err := trans.Write(buff)", "| if err != nil { if firstErr == nil { firstErr = err } continue }", "| if firstErr == nil && written > n { n = written }", "return n, firstErr"] := rfl

theorem body_thriftudp_TUDPTransport_Close_unchanged : Facts.body_thriftudp_TUDPTransport_Close = ["func() error", "if closed := p.closed.Swap(true); !closed { return p.conn.Close() }", "return nil"] := rfl

theorem body_thriftudp_TUDPTransport_Conn_unchanged : Facts.body_thriftudp_TUDPTransport_Conn = ["func() *net.UDPConn", "return p.conn"] := rfl

theorem body_thriftudp_TUDPTransport_Flush_unchanged : Facts.body_thriftudp_TUDPTransport_Flush = ["func() error", "if !p.IsOpen() { return thrift.NewTTransportException(thrift.NOT_OPEN, \"Connection not open\") }", "if p.overflow { p.overflow = false p.writeBuf.Reset() return thrift.NewTTransportException(thrift.INVALID_DATA, \"Data does not fit within one UDP packet: message discarded\") }", "_, err := p.conn.Write(p.writeBuf.Bytes())", "p.writeBuf.Reset()", "return err"] := rfl

theorem body_thriftudp_TUDPTransport_IsOpen_unchanged : Facts.body_thriftudp_TUDPTransport_IsOpen = ["func() bool", "return !p.closed.Load()"] := rfl

theorem body_thriftudp_TUDPTransport_Open_unchanged : Facts.body_thriftudp_TUDPTransport_Open = ["func() error", "return nil"] := rfl

theorem body_thriftudp_TUDPTransport_Write_unchanged : Facts.body_thriftudp_TUDPTransport_Write = ["func(buf []byte) (int, error)", "if !p.IsOpen() { return 0, thrift.NewTTransportException(thrift.NOT_OPEN, \"Connection not open\") }", "if p.overflow || p.writeBuf.Len()+len(buf) > MaxLength { p.overflow = true return 0, thrift.NewTTransportException(thrift.INVALID_DATA, \"Data does not fit within one UDP packet\") }", "n, err := p.writeBuf.Write(buf)", "return n, thrift.NewTTransportExceptionFromError(err)"] := rfl

theorem body_thriftudp_TUDPTransport_WriteByte_unchanged : Facts.body_thriftudp_TUDPTransport_WriteByte = ["func(b byte) error", "if !p.IsOpen() { return thrift.NewTTransportException(thrift.NOT_OPEN, \"Connection not open\") }", "if p.overflow || p.writeBuf.Len()+1 > MaxLength { p.overflow = true return thrift.NewTTransportException(thrift.INVALID_DATA, \"Data does not fit within one UDP packet\") }", "err := p.writeBuf.WriteByte(b)", "return thrift.NewTTransportExceptionFromError(err)"] := rfl

theorem body_thriftudp_TUDPTransport_WriteString_unchanged : Facts.body_thriftudp_TUDPTransport_WriteString = ["func(s string) (int, error)", "if !p.IsOpen() { return 0, thrift.NewTTransportException(thrift.NOT_OPEN, \"Connection not open\") }", "if p.overflow || p.writeBuf.Len()+len(s) > MaxLength { p.overflow = true return 0, thrift.NewTTransportException(thrift.INVALID_DATA, \"Data does not fit within one UDP packet\") }", "n, err := p.writeBuf.WriteString(s)", "return n, thrift.NewTTransportExceptionFromError(err)"] := rfl

end Tally.Tie.C15Frozen
