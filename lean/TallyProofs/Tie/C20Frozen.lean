import Tally.Generated.Facts
/-! Frozen bodies for C20 (generated once by tools/gen_tie_frozen.py from the source the model was written
against; re-proved against the facts regenerated from /repo on every run). -/
namespace Tally.Tie.C20Frozen
open Tally

theorem body_tally__BucketPairs_unchanged : Facts.body_tally__BucketPairs = ["func(buckets Buckets) []BucketPair", "htype := valueHistogramType", "if _, ok := buckets.(DurationBuckets); ok { htype = durationHistogramType }", "if buckets == nil || buckets.Len() < 1 { return []BucketPair{_singleBucket} }", "var ( values []float64 durations []time.Duration pairs = make([]BucketPair, 0, buckets.Len()+2) pair bucketPair )", "switch htype { case durationHistogramType: durations = copyAndSortDurations(buckets.AsDurations()) pair.lowerBoundDuration = _singleBucket.lowerBoundDuration pair.upperBoundDuration = durations[0] case valueHistogramType: values = copyAndSortValues(buckets.AsValues()) pair.lowerBoundValue = _singleBucket.lowerBoundValue pair.upperBoundValue = values[0] default: panic(\"unsupported histogram type\") }", "pairs = append(pairs, pair)", "for i := 1; i < buckets.Len(); i++ { pairs = append( pairs, newBucketPair(htype, durations, values, i, pairs[i-1]), ) }", "switch htype { case durationHistogramType: pair.lowerBoundDuration = pairs[len(pairs)-1].UpperBoundDuration() pair.upperBoundDuration = _singleBucket.upperBoundDuration case valueHistogramType: pair.lowerBoundValue = pairs[len(pairs)-1].UpperBoundValue() pair.upperBoundValue = _singleBucket.upperBoundValue }", "pairs = append(pairs, pair)", "return pairs"] := rfl

theorem body_tally__ExponentialDurationBuckets_unchanged : Facts.body_tally__ExponentialDurationBuckets = ["func(start time.Duration, factor float64, n int) (DurationBuckets, error)", "if n <= 0 { return nil, errBucketsCountNeedsGreaterThanZero }", "if start <= 0 { return nil, errBucketsStartNeedsGreaterThanZero }", "if factor <= 1 { return nil, errBucketsFactorNeedsGreaterThanOne }", "buckets := make([]time.Duration, n)", "curr := start", "for i, _ := range buckets", "| buckets[i] = curr", "| curr = time.Duration(float64(curr) * factor)", "return buckets, nil"] := rfl

theorem body_tally__ExponentialValueBuckets_unchanged : Facts.body_tally__ExponentialValueBuckets = ["func(start, factor float64, n int) (ValueBuckets, error)", "if n <= 0 { return nil, errBucketsCountNeedsGreaterThanZero }", "if start <= 0 { return nil, errBucketsStartNeedsGreaterThanZero }", "if factor <= 1 { return nil, errBucketsFactorNeedsGreaterThanOne }", "buckets := make([]float64, n)", "curr := start", "for i, _ := range buckets", "| buckets[i] = curr", "| curr *= factor", "return buckets, nil"] := rfl

theorem body_tally__LinearDurationBuckets_unchanged : Facts.body_tally__LinearDurationBuckets = ["func(start, width time.Duration, n int) (DurationBuckets, error)", "if n <= 0 { return nil, errBucketsCountNeedsGreaterThanZero }", "buckets := make([]time.Duration, n)", "for i, _ := range buckets", "| buckets[i] = start + (time.Duration(i) * width)", "return buckets, nil"] := rfl

theorem body_tally__LinearValueBuckets_unchanged : Facts.body_tally__LinearValueBuckets = ["func(start, width float64, n int) (ValueBuckets, error)", "if n <= 0 { return nil, errBucketsCountNeedsGreaterThanZero }", "buckets := make([]float64, n)", "for i, _ := range buckets", "| buckets[i] = start + (float64(i) * width)", "return buckets, nil"] := rfl

theorem body_tally__MustMakeExponentialDurationBuckets_unchanged : Facts.body_tally__MustMakeExponentialDurationBuckets = ["func(start time.Duration, factor float64, n int) DurationBuckets", "buckets, err := ExponentialDurationBuckets(start, factor, n)", "if err != nil { panic(err) }", "return buckets"] := rfl

theorem body_tally__MustMakeExponentialValueBuckets_unchanged : Facts.body_tally__MustMakeExponentialValueBuckets = ["func(start, factor float64, n int) ValueBuckets", "buckets, err := ExponentialValueBuckets(start, factor, n)", "if err != nil { panic(err) }", "return buckets"] := rfl

theorem body_tally__MustMakeLinearDurationBuckets_unchanged : Facts.body_tally__MustMakeLinearDurationBuckets = ["func(start, width time.Duration, n int) DurationBuckets", "buckets, err := LinearDurationBuckets(start, width, n)", "if err != nil { panic(err) }", "return buckets"] := rfl

theorem body_tally__MustMakeLinearValueBuckets_unchanged : Facts.body_tally__MustMakeLinearValueBuckets = ["func(start, width float64, n int) ValueBuckets", "buckets, err := LinearValueBuckets(start, width, n)", "if err != nil { panic(err) }", "return buckets"] := rfl

theorem body_tally__bucketsEqual_unchanged : Facts.body_tally__bucketsEqual = ["func(x Buckets, y Buckets) bool", "switch b1 := x.(type) { case DurationBuckets: b2, ok := y.(DurationBuckets) if !ok { return false } if len(b1) != len(b2) { return false } for i := 0; i < len(b1); i++ { if b1[i] != b2[i] { return false } } case ValueBuckets: b2, ok := y.(ValueBuckets) if !ok { return false } if len(b1) != len(b2) { return false } for i := 0; i < len(b1); i++ { if b1[i] != b2[i] { return false } } }", "return true"] := rfl

theorem body_tally__getBucketsIdentity_unchanged : Facts.body_tally__getBucketsIdentity = ["func(buckets Buckets) uint64", "switch b := buckets.(type) { case DurationBuckets: return identity.Durations(b.AsDurations()) case ValueBuckets: return identity.Float64s(b.AsValues()) default: panic(fmt.Sprintf(\"unexpected bucket type: %T\", b)) }"] := rfl

theorem body_tally__newBucketCache_unchanged : Facts.body_tally__newBucketCache = ["func() *bucketCache", "return &bucketCache{ cache: make(map[uint64]bucketStorage), }"] := rfl

theorem body_tally__newBucketStorage_unchanged : Facts.body_tally__newBucketStorage = ["func( htype histogramType, buckets Buckets, ) bucketStorage", "switch b := buckets.(type) { case DurationBuckets: buckets = append(DurationBuckets(nil), b...) case ValueBuckets: buckets = append(ValueBuckets(nil), b...) }", "var ( pairs = BucketPairs(buckets) storage = bucketStorage{ buckets: buckets, hbuckets: make([]histogramBucket, 0, len(pairs)), } )", "for _, pair := range pairs", "| storage.hbuckets = append(storage.hbuckets, histogramBucket{ valueUpperBound: pair.UpperBoundValue(), durationUpperBound: pair.UpperBoundDuration(), })", "return storage"] := rfl

theorem body_tally_DurationBuckets_AsDurations_unchanged : Facts.body_tally_DurationBuckets_AsDurations = ["func() []time.Duration", "return v"] := rfl

theorem body_tally_DurationBuckets_AsValues_unchanged : Facts.body_tally_DurationBuckets_AsValues = ["func() []float64", "values := make([]float64, len(v))", "for i, _ := range values", "| values[i] = float64(v[i]) / float64(time.Second)", "return values"] := rfl

theorem body_tally_ValueBuckets_AsDurations_unchanged : Facts.body_tally_ValueBuckets_AsDurations = ["func() []time.Duration", "values := make([]time.Duration, len(v))", "for i, _ := range values", "| values[i] = time.Duration(v[i] * float64(time.Second))", "return values"] := rfl

theorem body_tally_ValueBuckets_AsValues_unchanged : Facts.body_tally_ValueBuckets_AsValues = ["func() []float64", "return v"] := rfl

theorem body_tally_bucketCache_Get_unchanged : Facts.body_tally_bucketCache_Get = ["func( htype histogramType, buckets Buckets, ) bucketStorage", "id := getBucketsIdentity(buckets)", "c.mtx.RLock()", "storage, ok := c.cache[id]", "if !ok { c.mtx.RUnlock() c.mtx.Lock() storage = newBucketStorage(htype, buckets) c.cache[id] = storage c.mtx.Unlock() } else { c.mtx.RUnlock() if !bucketsEqual(buckets, storage.buckets) { storage = newBucketStorage(htype, buckets) } }", "return storage"] := rfl

theorem body_identity__Durations_unchanged : Facts.body_identity__Durations = ["func(durs []time.Duration) uint64", "if len(durs) == 0 { return 0 }", "acc := NewAccumulator()", "for _, d := range durs", "| acc = acc.AddUint64(uint64(d))", "return acc.Value()"] := rfl

theorem body_identity__Float64s_unchanged : Facts.body_identity__Float64s = ["func(f64s []float64) uint64", "if len(f64s) == 0 { return 0 }", "acc := NewAccumulator()", "for _, f := range f64s", "| acc = acc.AddUint64(math.Float64bits(f))", "return acc.Value()"] := rfl

theorem body_identity__NewAccumulator_unchanged : Facts.body_identity__NewAccumulator = ["func() Accumulator", "return Accumulator(_hashSeed)"] := rfl

theorem body_identity_Accumulator_AddUint64_unchanged : Facts.body_identity_Accumulator_AddUint64 = ["func(u64 uint64) Accumulator", "return a + Accumulator(u64*_hashFold)"] := rfl

theorem body_identity_Accumulator_Value_unchanged : Facts.body_identity_Accumulator_Value = ["func() uint64", "return uint64(a)"] := rfl

end Tally.Tie.C20Frozen
