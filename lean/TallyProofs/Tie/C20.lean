import Tally.Generated.Facts
import Tally.Model.BucketCache
/-! Tie for C20: what the models `Tally.BucketCtor`, `Tally.BucketCache` assume about the
constructors, `BucketPairs`, `bucketsEqual`, `bucketCache.Get` and the identity hash, re-checked
against the facts extracted from the current source. -/
namespace Tally.Tie.C20
open Tally

/-! error guards, in source order (model: `n ≤ 0`, `F64.le start 0` / `start ≤ 0`, `F64.le factor 1`) -/
theorem guards_linearValue : Facts.guardsLinearValueBuckets = ["n <= 0"] := rfl
theorem guards_linearDuration : Facts.guardsLinearDurationBuckets = ["n <= 0"] := rfl
theorem guards_exponentialValue :
    Facts.guardsExponentialValueBuckets = ["n <= 0", "start <= 0", "factor <= 1"] := rfl
theorem guards_exponentialDuration :
    Facts.guardsExponentialDurationBuckets = ["n <= 0", "start <= 0", "factor <= 1"] := rfl

/-! loop bodies (model: `List.range n |>.map …` resp. `iter`) -/
theorem loop_linearValue :
    Facts.loopLinearValueBuckets = ["buckets[i] = start + (float64(i) * width)"] := rfl
theorem loop_linearDuration :
    Facts.loopLinearDurationBuckets = ["buckets[i] = start + (time.Duration(i) * width)"] := rfl
theorem loop_exponentialValue :
    Facts.loopExponentialValueBuckets = ["buckets[i] = curr", "curr *= factor"] := rfl
theorem loop_exponentialDuration :
    Facts.loopExponentialDurationBuckets
      = ["buckets[i] = curr", "curr = time.Duration(float64(curr) * factor)"] := rfl

/-! Must variants (model: `must`) -/
theorem must_linearValue :
    Facts.mustLinearValueBuckets = ["err != nil", "LinearValueBuckets(start, width, n)", "panic(err)"] := rfl
theorem must_linearDuration :
    Facts.mustLinearDurationBuckets = ["err != nil", "LinearDurationBuckets(start, width, n)", "panic(err)"] := rfl
theorem must_exponentialValue :
    Facts.mustExponentialValueBuckets
      = ["err != nil", "ExponentialValueBuckets(start, factor, n)", "panic(err)"] := rfl
theorem must_exponentialDuration :
    Facts.mustExponentialDurationBuckets
      = ["err != nil", "ExponentialDurationBuckets(start, factor, n)", "panic(err)"] := rfl

/-! copy before sort (model: `pairsD` / `pairsV` sort `copy`, `callerAfter := caller`) -/
theorem copyAndSortValues_ops :
    Facts.copyAndSortValuesOps
      = ["make([]float64, len(values))", "copy(valuesCopy, values)", "sort.Sort(ValueBuckets(valuesCopy))"] := rfl
theorem copyAndSortDurations_ops :
    Facts.copyAndSortDurationsOps
      = ["make([]time.Duration, len(durations))", "copy(durationsCopy, durations)",
         "sort.Sort(DurationBuckets(durationsCopy))"] := rfl
theorem bucketPairs_sorts_only_copies :
    Facts.bucketPairsSortCalls
      = ["copyAndSortDurations(buckets.AsDurations())", "copyAndSortValues(buckets.AsValues())"] := rfl

/-! the equality re-check (model: `specEq`, `allEq`) -/
theorem bucketsEqual_comparisons :
    Facts.bucketsEqualComparisons
      = ["len(b1) != len(b2)", "i < len(b1)", "b1[i] != b2[i]",
         "len(b1) != len(b2)", "i < len(b1)", "b1[i] != b2[i]"] := rfl

/-! `bucketCache.Get` (model: `get`, `Conc.step`): probe under the read lock; on a miss build and
store under the write lock; on a hit re-check equality and build afresh when it fails -/
theorem bucketCacheGet_ops :
    Facts.bucketCacheGetOps
      = ["getBucketsIdentity(buckets)", "c.mtx.RLock()", "c.mtx.RUnlock()", "c.mtx.Lock()",
         "newBucketStorage(htype, buckets)", "c.mtx.Unlock()", "c.mtx.RUnlock()",
         "bucketsEqual(buckets, storage.buckets)", "newBucketStorage(htype, buckets)"] := rfl
theorem bucketCacheGet_conds :
    Facts.bucketCacheGetConds = ["!ok", "!bucketsEqual(buckets, storage.buckets)"] := rfl
theorem bucketCacheGet_assigns :
    Facts.bucketCacheGetAssigns
      = ["id := getBucketsIdentity(buckets)", "storage, ok := c.cache[id]",
         "storage = newBucketStorage(htype, buckets)", "c.cache[id] = storage",
         "storage = newBucketStorage(htype, buckets)"] := rfl

/-! the identity hash (model: `identity`, `identityU64s`) -/
theorem hashSeed_eq : Facts.hashSeed = some (BucketCache.hashSeed.toNat : Int) := rfl
theorem hashFold_eq : Facts.hashFold = some (BucketCache.hashFold.toNat : Int) := rfl
theorem addUint64_shape : Facts.identityAddUint64Returns = ["return a + Accumulator(u64*_hashFold)"] := rfl
theorem newAccumulator_shape : Facts.identityNewAccumulatorReturns = ["return Accumulator(_hashSeed)"] := rfl
theorem durations_shape :
    Facts.identityDurationsShape
      = ["len(durs) == 0", "acc = acc.AddUint64(uint64(d))", "return 0", "return acc.Value()"] := rfl
theorem float64s_shape :
    Facts.identityFloat64sShape
      = ["len(f64s) == 0", "acc = acc.AddUint64(math.Float64bits(f))", "return 0", "return acc.Value()"] := rfl
theorem getBucketsIdentity_shape :
    Facts.getBucketsIdentityReturns
      = ["return identity.Durations(b.AsDurations())", "return identity.Float64s(b.AsValues())"] := rfl

end Tally.Tie.C20
