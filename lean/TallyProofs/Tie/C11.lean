import Tally.Generated.Facts
/-! Tie for C11: a counter's snapshot is one atomic load of its unreported amount (test scopes have no
reporter, so nothing is ever taken out), and the full name is prefix + separator + name. -/
namespace Tally.Tie.C11
open Tally

theorem counter_snapshot_is_load : Facts.counterSnapshotOps = ["atomic.LoadInt64(&c.curr)"] := rfl
theorem fully_qualified_name :
    Facts.fullyQualifiedNameReturns = ["len(s.prefix) == 0", "return name", "return s.prefix + s.separator + name"] := rfl

end Tally.Tie.C11
