import Tally.Generated.Facts
/-! Tie for C09: the double-checked get-or-create shape of the four metric getters (probe under the read
lock; write lock; re-check; Allocate; create), re-checked against the current source. -/
namespace Tally.Tie.C09
open Tally

theorem counter_probe : Facts.scopeCounterProbeOps = ["s.cm.RLock()", "defer s.cm.RUnlock()"] := rfl
theorem counter_shape :
    Facts.scopeCounterOps = ["s.counter(name)", "s.cm.Lock()", "defer s.cm.Unlock()",
      "s.cachedReporter.AllocateCounter( s.fullyQualifiedName(name), s.tags, )", "newCounter(cachedCounter)"] := rfl
theorem gauge_shape :
    Facts.scopeGaugeOps = ["s.gauge(name)", "s.gm.Lock()", "defer s.gm.Unlock()",
      "s.cachedReporter.AllocateGauge( s.fullyQualifiedName(name), s.tags, )", "newGauge(cachedGauge)"] := rfl
theorem timer_shape : Facts.scopeTimerOps.take 3 = ["s.timer(name)", "s.tm.Lock()", "defer s.tm.Unlock()"] := rfl
theorem histogram_shape : Facts.scopeHistogramOps.take 3 = ["s.histogram(name)", "s.hm.Lock()", "defer s.hm.Unlock()"] := rfl

end Tally.Tie.C09
