import Tally.Generated.Facts
/-! Tie for C09: the double-checked get-or-create shape of the four metric getters (probe under the read
lock; write lock; re-check; Allocate; create), re-checked against the current source. -/
namespace Tally.Tie.C09
open Tally

theorem counter_probe : Facts.scopeCounterProbeOps = ["s.cm.RLock()", "defer s.cm.RUnlock()"] := rfl
theorem counter_shape :
    Facts.scopeCounterOps = ["s.counter(name)", "s.cm.Lock()", "defer s.cm.Unlock()",
      "s.cachedReporter.AllocateCounter( s.fullyQualifiedName(name), s.tags, )", "newCounter(cachedCounter)"] := rfl
theorem gauge_shape :
    Facts.scopeGaugeOps = ["s.gauge(name)", "s.gm.Lock()", "defer s.gm.Unlock()",
      "s.cachedReporter.AllocateGauge( s.fullyQualifiedName(name), s.tags, )", "newGauge(cachedGauge)"] := rfl
theorem timer_shape : Facts.scopeTimerOps.take 3 = ["s.timer(name)", "s.tm.Lock()", "defer s.tm.Unlock()"] := rfl
theorem histogram_shape : Facts.scopeHistogramOps.take 3 = ["s.histogram(name)", "s.hm.Lock()", "defer s.hm.Unlock()"] := rfl

/-- the model's "deferred unlock" (`Tally.GetOrCreateLock.step`, event `allocPanic`, releases the write lock; the
`Legacy` machine does not): in all four getters the statement directly after `s.<x>m.Lock()` is
`defer s.<x>m.Unlock()`, and the reporter's `Allocate*` call comes after it — so the unlock runs on every way out
of the function, a panic out of `Allocate*` included.  Fails if the `defer` is removed, replaced by explicit
unlocks, or moved behind the `Allocate*` call. -/
theorem unlock_is_deferred_before_allocate :
    [Facts.scopeCounterOps, Facts.scopeGaugeOps, Facts.scopeTimerOps, Facts.scopeHistogramOps].map (·.take 4) =
      [["s.counter(name)", "s.cm.Lock()", "defer s.cm.Unlock()",
          "s.cachedReporter.AllocateCounter( s.fullyQualifiedName(name), s.tags, )"],
       ["s.gauge(name)", "s.gm.Lock()", "defer s.gm.Unlock()",
          "s.cachedReporter.AllocateGauge( s.fullyQualifiedName(name), s.tags, )"],
       ["s.timer(name)", "s.tm.Lock()", "defer s.tm.Unlock()",
          "s.cachedReporter.AllocateTimer( s.fullyQualifiedName(name), s.tags, )"],
       ["s.histogram(name)", "s.hm.Lock()", "defer s.hm.Unlock()",
          "s.cachedReporter.AllocateHistogram( s.fullyQualifiedName(name), s.tags, b, )"]] := by decide

/-- … and none of the four getters has an explicit (non-deferred) `Unlock` or a second `Lock` -/
theorem no_explicit_unlock :
    "s.cm.Unlock()" ∉ Facts.scopeCounterOps ∧ "s.gm.Unlock()" ∉ Facts.scopeGaugeOps ∧
    "s.tm.Unlock()" ∉ Facts.scopeTimerOps ∧ "s.hm.Unlock()" ∉ Facts.scopeHistogramOps ∧
    Facts.scopeCounterOps.count "s.cm.Lock()" = 1 ∧ Facts.scopeGaugeOps.count "s.gm.Lock()" = 1 ∧
    Facts.scopeTimerOps.count "s.tm.Lock()" = 1 ∧ Facts.scopeHistogramOps.count "s.hm.Lock()" = 1 := by decide

end Tally.Tie.C09
