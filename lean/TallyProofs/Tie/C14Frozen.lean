import Tally.Generated.Facts
/-! Frozen bodies for C14 (generated once by tools/gen_tie_frozen.py from the source the model was written
against; re-proved against the facts regenerated from /repo on every run). -/
namespace Tally.Tie.C14Frozen
open Tally

theorem body_m3_noopMetric_ReportCount_unchanged : Facts.body_m3_noopMetric_ReportCount = ["func(value int64)"] := rfl

theorem body_m3_noopMetric_ReportGauge_unchanged : Facts.body_m3_noopMetric_ReportGauge = ["func(value float64)"] := rfl

theorem body_m3_noopMetric_ReportSamples_unchanged : Facts.body_m3_noopMetric_ReportSamples = ["func(value int64)"] := rfl

theorem body_m3_noopMetric_ReportTimer_unchanged : Facts.body_m3_noopMetric_ReportTimer = ["func(interval time.Duration)"] := rfl

theorem body_m3_reporter_Close_unchanged : Facts.body_m3_reporter_Close = ["func() (err error)", "if !r.done.CAS(false, true) { return errAlreadyClosed }", "verifhook.Yield(\"m3.close.post-cas\")", "for r.pending.Load() > 0 { runtime.Gosched() }", "verifhook.Yield(\"m3.close.post-spin\")", "close(r.donech)", "verifhook.Yield(\"m3.close.post-donech\")", "close(r.metCh)", "verifhook.Yield(\"m3.close.post-metch\")", "r.wg.Wait()", "return nil"] := rfl

theorem body_m3_reporter_Flush_unchanged : Facts.body_m3_reporter_Flush = ["func()", "r.pending.Inc()", "defer r.pending.Dec()", "verifhook.Yield(\"m3.flush.post-inc\")", "if r.done.Load() { return }", "verifhook.Yield(\"m3.flush.post-done-check\")", "r.reportInternalMetrics()", "r.metCh <- sizedMetric{}"] := rfl

theorem body_m3_reporter_flush_unchanged : Facts.body_m3_reporter_flush = ["func(mets []m3thrift.Metric) []m3thrift.Metric", "if len(mets) == 0 { return mets }", "r.numBatches.Inc()", "err := r.client.EmitMetricBatchV2(m3thrift.MetricBatch{ Metrics: mets, CommonTags: r.commonTags, })", "if err != nil { r.numWriteErrors.Inc() if te, ok := err.(thrift.TTransportException); ok && te.TypeId() == thrift.INVALID_DATA { _ = r.client.Transport.Flush() } }", "for i, _ := range mets", "| mets[i].Tags = nil", "return mets[:0]"] := rfl

theorem body_m3_reporter_process_unchanged : Facts.body_m3_reporter_process = ["func()", "var ( extraTags = sync.Pool{ New: func() interface{} { return make([]m3thrift.MetricTag, 0, 8) }, } borrowedTags = make([][]m3thrift.MetricTag, 0, 128) mets = make([]m3thrift.Metric, 0, r.freeBytes/10) bytes int32 )", "for smet, _ := range r.metCh", "| flush := !smet.set && len(mets) > 0", "| if flush || bytes+smet.size > r.freeBytes { r.numMetrics.Add(int64(len(mets))) verifhook.YieldInt(\"m3.process.flush\", int64(bytes)) mets = r.flush(mets) bytes = 0 if len(borrowedTags) > 0 { for i := range borrowedTags { extraTags.Put(borrowedTags[i][:0]) } borrowedTags = borrowedTags[:0] } }", "| if !smet.set { continue }", "| m := smet.m", "| if len(smet.bucket) > 0 { tags := extraTags.Get().([]m3thrift.MetricTag) tags = append(tags, m.Tags...) tags = append( tags, m3thrift.MetricTag{ Name: r.bucketIDTagName, Value: smet.bucketID, }, m3thrift.MetricTag{ Name: r.bucketTagName, Value: smet.bucket, }, ) borrowedTags = append(borrowedTags, tags) m.Tags = tags }", "| verifhook.YieldInt(\"m3.process.charge\", int64(smet.size))", "| mets = append(mets, m)", "| bytes += smet.size", "verifhook.YieldInt(\"m3.process.flush\", int64(bytes))", "r.flush(mets)"] := rfl

theorem body_m3_reporter_reportCopyMetric_unchanged : Facts.body_m3_reporter_reportCopyMetric = ["func( m m3thrift.Metric, size int32, bucket string, bucketID string, )", "r.pending.Inc()", "defer r.pending.Dec()", "verifhook.Yield(\"m3.report.post-inc\")", "if r.done.Load() { return }", "verifhook.Yield(\"m3.report.post-done-check\")", "m.Timestamp = r.now.Load()", "sm := sizedMetric{ m: m, size: size, set: true, bucket: bucket, bucketID: bucketID, }", "select { case r.metCh <- sm: case <-r.donech: }"] := rfl

theorem body_m3_reporter_timeLoop_unchanged : Facts.body_m3_reporter_timeLoop = ["func()", "t := time.NewTicker(_timeResolution)", "defer t.Stop()", "for !r.done.Load() { r.now.Store(time.Now().UnixNano()) select { case <-t.C: case <-r.donech: return } }"] := rfl

end Tally.Tie.C14Frozen
