import Tally.Generated.Facts
/-! Tie for C19: what `Tally.Model.Multi` assumes about `multi/reporter.go`, re-checked against the
facts extracted from the current source (signature, then every statement of the body; the
statements inside a `for … range` loop are prefixed with `| `).

* every forwarding method is ONE loop over the children (`fan`), calling the same-named method with
  the parameters in declaration order (`fan cs (replicate n x)`: every child is asked the same `x`);
* allocations / bucket creations append what each child returned, in child order (`fan`'s results);
* handle methods loop over the handle's own list of child handles (`perChild` zips it with the children);
* `Flush` / `Capabilities` go through `multiBaseReporters`, which the constructors fill from the
  same arguments in the same order (the model has one list of children);
* `Capabilities` starts from `true, true` and and-s every child in (`Multi.capabilities`). -/
namespace Tally.Tie.C19
open Tally

/-! constructors: `multiBaseReporters` is a copy of the arguments in order; `reporters` is the
argument slice itself (pinned tree — see the finding `ctor-aliases-caller-slice`) or a copy of it -/
theorem new_copies_base : Facts.multiNew.take 4 =
    ["func( r ...tally.StatsReporter, ) tally.StatsReporter", "var baseReporters multiBaseReporters",
     "for _, r := range r", "| baseReporters = append(baseReporters, r)"] := rfl
theorem new_return :
    Facts.multiNew.drop 4 = ["return &multi{ multiBaseReporters: baseReporters, reporters: r, }"] ∨
    Facts.multiNew.drop 4 = ["return &multi{ multiBaseReporters: baseReporters, reporters: append([]tally.StatsReporter(nil), r...), }"] := by
  first | exact Or.inl rfl | exact Or.inr rfl
theorem newCached_copies_base : Facts.multiNewCached.take 4 =
    ["func( r ...tally.CachedStatsReporter, ) tally.CachedStatsReporter", "var baseReporters multiBaseReporters",
     "for _, r := range r", "| baseReporters = append(baseReporters, r)"] := rfl
theorem newCached_return :
    Facts.multiNewCached.drop 4 = ["return &multiCached{ multiBaseReporters: baseReporters, reporters: r, }"] ∨
    Facts.multiNewCached.drop 4 = ["return &multiCached{ multiBaseReporters: baseReporters, reporters: append([]tally.CachedStatsReporter(nil), r...), }"] := by
  first | exact Or.inl rfl | exact Or.inr rfl

theorem type_multi : Facts.multiType_multi = ["multiBaseReporters multiBaseReporters", "reporters []tally.StatsReporter"] := rfl
theorem type_multiCached : Facts.multiType_multiCached = ["multiBaseReporters multiBaseReporters", "reporters []tally.CachedStatsReporter"] := rfl
theorem type_multiMetric : Facts.multiType_multiMetric =
    ["counters []tally.CachedCount", "gauges []tally.CachedGauge", "timers []tally.CachedTimer", "histograms []tally.CachedHistogram"] := rfl
theorem type_multiHistogramBucket : Facts.multiType_multiHistogramBucket = ["multi []tally.CachedHistogramBucket"] := rfl
theorem type_multiBaseReporters : Facts.multiType_multiBaseReporters = ["type []tally.BaseStatsReporter"] := rfl

/-! plain flavour -/
theorem reportCounter : Facts.multiReportCounter =
    ["func( name string, tags map[string]string, value int64, )",
     "for _, r := range r.reporters", "| r.ReportCounter(name, tags, value)"] := rfl
theorem reportGauge : Facts.multiReportGauge =
    ["func( name string, tags map[string]string, value float64, )",
     "for _, r := range r.reporters", "| r.ReportGauge(name, tags, value)"] := rfl
theorem reportTimer : Facts.multiReportTimer =
    ["func( name string, tags map[string]string, interval time.Duration, )",
     "for _, r := range r.reporters", "| r.ReportTimer(name, tags, interval)"] := rfl
theorem reportHistogramValueSamples : Facts.multiReportHistogramValueSamples =
    ["func( name string, tags map[string]string, buckets tally.Buckets, bucketLowerBound, bucketUpperBound float64, samples int64, )",
     "for _, r := range r.reporters",
     "| r.ReportHistogramValueSamples(name, tags, buckets, bucketLowerBound, bucketUpperBound, samples)"] := rfl
theorem reportHistogramDurationSamples : Facts.multiReportHistogramDurationSamples =
    ["func( name string, tags map[string]string, buckets tally.Buckets, bucketLowerBound, bucketUpperBound time.Duration, samples int64, )",
     "for _, r := range r.reporters",
     "| r.ReportHistogramDurationSamples(name, tags, buckets, bucketLowerBound, bucketUpperBound, samples)"] := rfl
theorem capabilities : Facts.multiCapabilities = ["func() tally.Capabilities", "return r.multiBaseReporters.Capabilities()"] := rfl
theorem flush : Facts.multiFlush = ["func()", "r.multiBaseReporters.Flush()"] := rfl

/-! cached flavour -/
theorem allocateCounter : Facts.multiCachedAllocateCounter =
    ["func( name string, tags map[string]string, ) tally.CachedCount",
     "metrics := make([]tally.CachedCount, 0, len(r.reporters))",
     "for _, r := range r.reporters", "| metrics = append(metrics, r.AllocateCounter(name, tags))",
     "return multiMetric{counters: metrics}"] := rfl
theorem allocateGauge : Facts.multiCachedAllocateGauge =
    ["func( name string, tags map[string]string, ) tally.CachedGauge",
     "metrics := make([]tally.CachedGauge, 0, len(r.reporters))",
     "for _, r := range r.reporters", "| metrics = append(metrics, r.AllocateGauge(name, tags))",
     "return multiMetric{gauges: metrics}"] := rfl
theorem allocateTimer : Facts.multiCachedAllocateTimer =
    ["func( name string, tags map[string]string, ) tally.CachedTimer",
     "metrics := make([]tally.CachedTimer, 0, len(r.reporters))",
     "for _, r := range r.reporters", "| metrics = append(metrics, r.AllocateTimer(name, tags))",
     "return multiMetric{timers: metrics}"] := rfl
theorem allocateHistogram : Facts.multiCachedAllocateHistogram =
    ["func( name string, tags map[string]string, buckets tally.Buckets, ) tally.CachedHistogram",
     "metrics := make([]tally.CachedHistogram, 0, len(r.reporters))",
     "for _, r := range r.reporters", "| metrics = append(metrics, r.AllocateHistogram(name, tags, buckets))",
     "return multiMetric{histograms: metrics}"] := rfl
theorem cachedCapabilities : Facts.multiCachedCapabilities = ["func() tally.Capabilities", "return r.multiBaseReporters.Capabilities()"] := rfl
theorem cachedFlush : Facts.multiCachedFlush = ["func()", "r.multiBaseReporters.Flush()"] := rfl

/-! handles -/
theorem metricReportCount : Facts.multiMetricReportCount =
    ["func(value int64)", "for _, m := range m.counters", "| m.ReportCount(value)"] := rfl
theorem metricReportGauge : Facts.multiMetricReportGauge =
    ["func(value float64)", "for _, m := range m.gauges", "| m.ReportGauge(value)"] := rfl
theorem metricReportTimer : Facts.multiMetricReportTimer =
    ["func(interval time.Duration)", "for _, m := range m.timers", "| m.ReportTimer(interval)"] := rfl
theorem metricValueBucket : Facts.multiMetricValueBucket =
    ["func( bucketLowerBound, bucketUpperBound float64, ) tally.CachedHistogramBucket",
     "var multi []tally.CachedHistogramBucket",
     "for _, m := range m.histograms", "| multi = append(multi, m.ValueBucket(bucketLowerBound, bucketUpperBound))",
     "return multiHistogramBucket{multi}"] := rfl
theorem metricDurationBucket : Facts.multiMetricDurationBucket =
    ["func( bucketLowerBound, bucketUpperBound time.Duration, ) tally.CachedHistogramBucket",
     "var multi []tally.CachedHistogramBucket",
     "for _, m := range m.histograms", "| multi = append(multi, m.DurationBucket(bucketLowerBound, bucketUpperBound))",
     "return multiHistogramBucket{multi}"] := rfl
theorem bucketReportSamples : Facts.multiHistogramBucketReportSamples =
    ["func(value int64)", "for _, m := range m.multi", "| m.ReportSamples(value)"] := rfl

/-! the shared base: flush fan-out and capability conjunction -/
theorem baseFlush : Facts.multiBaseFlush = ["func()", "for _, r := range r", "| r.Flush()"] := rfl
theorem baseCapabilities : Facts.multiBaseCapabilities =
    ["func() tally.Capabilities", "c := &capabilities{reporting: true, tagging: true}",
     "for _, r := range r",
     "| c.reporting = c.reporting && r.Capabilities().Reporting()",
     "| c.tagging = c.tagging && r.Capabilities().Tagging()",
     "return c"] := rfl

end Tally.Tie.C19
