import Tally.Generated.Facts
/-! Frozen bodies for C11 (generated once by tools/gen_tie_frozen.py from the source the model was written
against; re-proved against the facts regenerated from /repo on every run). -/
namespace Tally.Tie.C11Frozen
open Tally

theorem body_tally__NewTestScope_unchanged : Facts.body_tally__NewTestScope = ["func( prefix string, tags map[string]string, ) TestScope", "return newRootScope(ScopeOptions{ Prefix: prefix, Tags: tags, testScope: true, }, 0)"] := rfl

theorem body_tally__newSnapshot_unchanged : Facts.body_tally__newSnapshot = ["func() *snapshot", "return &snapshot{ counters: make(map[string]CounterSnapshot), gauges: make(map[string]GaugeSnapshot), timers: make(map[string]TimerSnapshot), histograms: make(map[string]HistogramSnapshot), }"] := rfl

theorem body_tally_counter_snapshot_unchanged : Facts.body_tally_counter_snapshot = ["func() int64", "return atomic.LoadInt64(&c.curr)"] := rfl

theorem body_tally_counterSnapshot_Name_unchanged : Facts.body_tally_counterSnapshot_Name = ["func() string", "return s.name"] := rfl

theorem body_tally_counterSnapshot_Tags_unchanged : Facts.body_tally_counterSnapshot_Tags = ["func() map[string]string", "return s.tags"] := rfl

theorem body_tally_counterSnapshot_Value_unchanged : Facts.body_tally_counterSnapshot_Value = ["func() int64", "return s.value"] := rfl

theorem body_tally_gauge_snapshot_unchanged : Facts.body_tally_gauge_snapshot = ["func() float64", "return math.Float64frombits(atomic.LoadUint64(&g.curr))"] := rfl

theorem body_tally_gaugeSnapshot_Name_unchanged : Facts.body_tally_gaugeSnapshot_Name = ["func() string", "return s.name"] := rfl

theorem body_tally_gaugeSnapshot_Tags_unchanged : Facts.body_tally_gaugeSnapshot_Tags = ["func() map[string]string", "return s.tags"] := rfl

theorem body_tally_gaugeSnapshot_Value_unchanged : Facts.body_tally_gaugeSnapshot_Value = ["func() float64", "return s.value"] := rfl

theorem body_tally_histogram_snapshotDurations_unchanged : Facts.body_tally_histogram_snapshotDurations = ["func() map[time.Duration]int64", "if h.htype != durationHistogramType { return nil }", "durations := make(map[time.Duration]int64, len(h.buckets))", "for i, _ := range h.buckets", "| durations[h.buckets[i].durationUpperBound] += h.samples[i].counter.snapshot()", "return durations"] := rfl

theorem body_tally_histogram_snapshotValues_unchanged : Facts.body_tally_histogram_snapshotValues = ["func() map[float64]int64", "if h.htype != valueHistogramType { return nil }", "vals := make(map[float64]int64, len(h.buckets))", "for i, _ := range h.buckets", "| vals[h.buckets[i].valueUpperBound] += h.samples[i].counter.snapshot()", "return vals"] := rfl

theorem body_tally_histogramSnapshot_Durations_unchanged : Facts.body_tally_histogramSnapshot_Durations = ["func() map[time.Duration]int64", "return s.durations"] := rfl

theorem body_tally_histogramSnapshot_Name_unchanged : Facts.body_tally_histogramSnapshot_Name = ["func() string", "return s.name"] := rfl

theorem body_tally_histogramSnapshot_Tags_unchanged : Facts.body_tally_histogramSnapshot_Tags = ["func() map[string]string", "return s.tags"] := rfl

theorem body_tally_histogramSnapshot_Values_unchanged : Facts.body_tally_histogramSnapshot_Values = ["func() map[float64]int64", "return s.values"] := rfl

theorem body_tally_scope_Snapshot_unchanged : Facts.body_tally_scope_Snapshot = ["func() Snapshot", "snap := newSnapshot()", "s.registry.ForEachScope(func(ss *scope) { tags := make(map[string]string, len(s.tags)) for k, v := range ss.tags { tags[k] = v } ss.cm.RLock() for key, c := range ss.counters { name := ss.fullyQualifiedName(key) id := KeyForPrefixedStringMap(name, tags) snap.counters[id] = &counterSnapshot{ name: name, tags: tags, value: c.snapshot(), } } ss.cm.RUnlock() ss.gm.RLock() for key, g := range ss.gauges { name := ss.fullyQualifiedName(key) id := KeyForPrefixedStringMap(name, tags) snap.gauges[id] = &gaugeSnapshot{ name: name, tags: tags, value: g.snapshot(), } } ss.gm.RUnlock() ss.tm.RLock() for key, t := range ss.timers { name := ss.fullyQualifiedName(key) id := KeyForPrefixedStringMap(name, tags) snap.timers[id] = &timerSnapshot{ name: name, tags: tags, values: t.snapshot(), } } ss.tm.RUnlock() ss.hm.RLock() for key, h := range ss.histograms { name := ss.fullyQualifiedName(key) id := KeyForPrefixedStringMap(name, tags) snap.histograms[id] = &histogramSnapshot{ name: name, tags: tags, values: h.snapshotValues(), durations: h.snapshotDurations(), } } ss.hm.RUnlock() })", "return snap"] := rfl

theorem body_tally_scopeRegistry_ForEachScope_unchanged : Facts.body_tally_scopeRegistry_ForEachScope = ["func(f func(*scope))", "for _, subscopeBucket := range r.subscopes", "| subscopeBucket.mu.RLock()", "| for _, s := range subscopeBucket.s { f(s) }", "| subscopeBucket.mu.RUnlock()"] := rfl

theorem body_tally_snapshot_Counters_unchanged : Facts.body_tally_snapshot_Counters = ["func() map[string]CounterSnapshot", "return s.counters"] := rfl

theorem body_tally_snapshot_Gauges_unchanged : Facts.body_tally_snapshot_Gauges = ["func() map[string]GaugeSnapshot", "return s.gauges"] := rfl

theorem body_tally_snapshot_Histograms_unchanged : Facts.body_tally_snapshot_Histograms = ["func() map[string]HistogramSnapshot", "return s.histograms"] := rfl

theorem body_tally_snapshot_Timers_unchanged : Facts.body_tally_snapshot_Timers = ["func() map[string]TimerSnapshot", "return s.timers"] := rfl

theorem body_tally_timer_snapshot_unchanged : Facts.body_tally_timer_snapshot = ["func() []time.Duration", "t.unreported.RLock()", "snap := make([]time.Duration, len(t.unreported.values))", "copy(snap, t.unreported.values)", "t.unreported.RUnlock()", "return snap"] := rfl

theorem body_tally_timerSnapshot_Name_unchanged : Facts.body_tally_timerSnapshot_Name = ["func() string", "return s.name"] := rfl

theorem body_tally_timerSnapshot_Tags_unchanged : Facts.body_tally_timerSnapshot_Tags = ["func() map[string]string", "return s.tags"] := rfl

theorem body_tally_timerSnapshot_Values_unchanged : Facts.body_tally_timerSnapshot_Values = ["func() []time.Duration", "return s.values"] := rfl

end Tally.Tie.C11Frozen
