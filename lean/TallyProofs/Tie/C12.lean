import Tally.Generated.Facts
import Tally.Model.M3Batch
/-!
Tie for C12: what `Tally.M3` (`M3Size.lean`, `M3Batch.lean`) assumes about m3/reporter.go, re-checked
against the facts extracted from the current source.

Two facts have a pinned and a repaired form (known findings D6a, D6b — reported by the `c12` suite as
`envelope-overhead-undercharged` and `histogram-bucket-tags-undercharged` with concrete datagrams):
the tie accepts exactly these two forms, anything else breaks it.  The model follows the repaired form.
-/
namespace Tally.Tie.C12
open Tally Tally.M3

/-- `numOverheadBytes = _emitMetricBatchOverhead + <size of the empty batch>`,
`freeBytes = MaxPacketSizeBytes - numOverheadBytes`, constructor error iff `freeBytes <= 0`
(model: `overhead`, `freeBytes`, `Config.ok`) -/
theorem newReporter_sizes :
    Facts.m3NewReporterSizes
      = ["numOverheadBytes = _emitMetricBatchOverhead + calc.GetCount()",
         "freeBytes = opts.MaxPacketSizeBytes - numOverheadBytes"] := rfl
theorem newReporter_guard : Facts.m3NewReporterConds = ["freeBytes <= 0"] := rfl

/-- the envelope allowance: the model's `reservedEnvelope` (33), or still the pinned 19 (D6a) -/
theorem envelope_constant :
    Facts.emitMetricBatchOverhead = some (reservedEnvelope : Int) ∨
    Facts.emitMetricBatchOverhead = some (legacyEnvelope : Int) := by
  first | exact Or.inl rfl | exact Or.inr rfl

/-- `calculateSize` = bytes the counting transport saw for `m.Write` (model: `chargeMetric`) -/
theorem calculateSize_shape :
    Facts.m3CalculateSize
      = ["r.calcLock.Lock()", "m.Write(r.calcProto)", "size := r.calc.GetCount()", "r.calc.ResetCount()",
         "r.calcLock.Unlock()", "return size"] := rfl

/-- how `AllocateHistogram` sizes a bucket: the repaired form (`chargeBucket`: the size of the
metric with the two bucket tags appended, `calculateBucketSize`) or the pinned form
(`legacyChargeBucket`: size without them plus four string lengths, D6b) -/
theorem allocateHistogram_sizes :
    (Facts.m3AllocateHistogramSizes
        = ["hbucket.metric.size = r.calculateBucketSize(hbucket)",
           "hbucket.metric.size = r.calculateBucketSize(hbucket)"] ∧
     Facts.m3CalculateBucketSize
        = ["m := b.metric.metric", "tags := make([]m3thrift.MetricTag, 0, len(m.Tags)+2)",
           "tags = append(tags, m.Tags...)",
           "m.Tags = append( tags, m3thrift.MetricTag{Name: r.bucketIDTagName, Value: b.bucketID}, m3thrift.MetricTag{Name: r.bucketTagName, Value: b.bucket}, )",
           "return r.calculateSize(m)"]) ∨
    (Facts.m3AllocateHistogramSizes
        = ["hbucket.metric.size = r.calculateSize(hbucket.metric.metric)",
           "hbucket.metric.size += int32(delta + len(bname))",
           "hbucket.metric.size += int32(delta + len(bname))"] ∧
     Facts.m3CalculateBucketSize = []) := by
  first | exact Or.inl ⟨rfl, rfl⟩ | exact Or.inr ⟨rfl, rfl⟩

/-- the batching loop (model: `step`): flush marker with a non-empty batch, or the next metric does
not fit (`>`); `bytes` is reset after an emit and grows by the metric's size -/
theorem process_comparisons :
    Facts.m3ProcessComparisons
      = ["len(mets) > 0", "bytes+smet.size > r.freeBytes", "len(borrowedTags) > 0", "len(smet.bucket) > 0"] := rfl
theorem process_bytes : Facts.m3ProcessBytesAssigns = ["bytes = 0", "bytes += smet.size"] := rfl

/-- bucket id width (model: `idWidth`) and the transport's maximum (the suite generates limits up to it) -/
theorem bucket_id_min_width : Facts.minMetricBucketIDTagLength = some 4 := rfl
theorem udp_max_length : Facts.udpMaxLength = some 65000 := rfl

end Tally.Tie.C12
