import Tally.Generated.Facts
/-! Frozen bodies for C02 (generated once by tools/gen_tie_frozen.py from the source the model was written
against; re-proved against the facts regenerated from /repo on every run). -/
namespace Tally.Tie.C02Frozen
open Tally

theorem body_tally__newGauge_unchanged : Facts.body_tally__newGauge = ["func(cachedGauge CachedGauge) *gauge", "return &gauge{cachedGauge: cachedGauge}"] := rfl

theorem body_tally_gauge_Update_unchanged : Facts.body_tally_gauge_Update = ["func(v float64)", "verifhook.Yield(\"gauge.update:0\")", "atomic.StoreUint64(&g.curr, math.Float64bits(v))", "verifhook.Yield(\"gauge.update:1\")", "atomic.StoreUint64(&g.updated, 1)"] := rfl

theorem body_tally_gauge_cachedReport_unchanged : Facts.body_tally_gauge_cachedReport = ["func()", "verifhook.Yield(\"gauge.report:0\")", "g.reportMu.Lock()", "defer g.reportMu.Unlock()", "if atomic.SwapUint64(&g.updated, 0) == 1 { verifhook.Yield(\"gauge.report:1\") g.cachedGauge.ReportGauge(g.value()) }"] := rfl

theorem body_tally_gauge_report_unchanged : Facts.body_tally_gauge_report = ["func(name string, tags map[string]string, r StatsReporter)", "verifhook.Yield(\"gauge.report:0\")", "g.reportMu.Lock()", "defer g.reportMu.Unlock()", "if atomic.SwapUint64(&g.updated, 0) == 1 { verifhook.Yield(\"gauge.report:1\") r.ReportGauge(name, tags, g.value()) }"] := rfl

theorem body_tally_gauge_snapshot_unchanged : Facts.body_tally_gauge_snapshot = ["func() float64", "return math.Float64frombits(atomic.LoadUint64(&g.curr))"] := rfl

theorem body_tally_gauge_value_unchanged : Facts.body_tally_gauge_value = ["func() float64", "return math.Float64frombits(atomic.LoadUint64(&g.curr))"] := rfl

theorem body_tally_scope_Gauge_unchanged : Facts.body_tally_scope_Gauge = ["func(name string) Gauge", "name = s.sanitizer.Name(name)", "if g, ok := s.gauge(name); ok { return g }", "verifhook.Yield(\"scope.gauge.pre-lock\")", "s.gm.Lock()", "defer s.gm.Unlock()", "if g, ok := s.gauges[name]; ok { return g }", "var cachedGauge CachedGauge", "if s.cachedReporter != nil { cachedGauge = s.cachedReporter.AllocateGauge( s.fullyQualifiedName(name), s.tags, ) }", "g := newGauge(cachedGauge)", "s.gauges[name] = g", "s.gaugesSlice = append(s.gaugesSlice, g)", "return g"] := rfl

theorem body_tally_scope_gauge_unchanged : Facts.body_tally_scope_gauge = ["func(name string) (Gauge, bool)", "s.gm.RLock()", "defer s.gm.RUnlock()", "g, ok := s.gauges[name]", "return g, ok"] := rfl

end Tally.Tie.C02Frozen
