import Tally.Generated.Facts
/-! Frozen bodies for C17 (generated once by tools/gen_tie_frozen.py from the source the model was written
against; re-proved against the facts regenerated from /repo on every run). -/
namespace Tally.Tie.C17Frozen
open Tally

theorem body_prometheus__DefaultHistogramBuckets_unchanged : Facts.body_prometheus__DefaultHistogramBuckets = ["func() []float64", "return []float64{ ms, 2 * ms, 5 * ms, 10 * ms, 20 * ms, 50 * ms, 100 * ms, 200 * ms, 500 * ms, 1000 * ms, 2000 * ms, 5000 * ms, 10000 * ms, }"] := rfl

theorem body_prometheus__DefaultSummaryObjectives_unchanged : Facts.body_prometheus__DefaultSummaryObjectives = ["func() map[float64]float64", "return map[float64]float64{ 0.5: 0.01, 0.75: 0.001, 0.95: 0.001, 0.99: 0.001, 0.999: 0.0001, }"] := rfl

theorem body_prometheus__NewReporter_unchanged : Facts.body_prometheus__NewReporter = ["func(opts Options) Reporter", "if opts.Registerer == nil { opts.Registerer = prom.DefaultRegisterer } else { if reg, ok := opts.Registerer.(*prom.Registry); ok && opts.Gatherer == nil { opts.Gatherer = reg } }", "if opts.Gatherer == nil { opts.Gatherer = prom.DefaultGatherer }", "if opts.DefaultHistogramBuckets == nil { opts.DefaultHistogramBuckets = DefaultHistogramBuckets() }", "if opts.DefaultSummaryObjectives == nil { opts.DefaultSummaryObjectives = DefaultSummaryObjectives() }", "if opts.OnRegisterError == nil { opts.OnRegisterError = func(err error) { if strings.Contains(err.Error(), \"previously registered\") { err = errors.WithMessagef( err, \"potential tally.Scope() vs Prometheus usage contract mismatch: \"+ \"if this occurs after using Scope.Tagged(), different metric \"+ \"names must be used than were registered with the parent scope\", ) } panic(err) } }", "return &reporter{ registerer: opts.Registerer, gatherer: opts.Gatherer, timerType: opts.DefaultTimerType, buckets: opts.DefaultHistogramBuckets, objectives: opts.DefaultSummaryObjectives, onRegisterError: opts.OnRegisterError, counters: make(map[metricID]*prom.CounterVec), gauges: make(map[metricID]*prom.GaugeVec), timers: make(map[metricID]*promTimerVec), }"] := rfl

theorem body_prometheus__canonicalMetricID_unchanged : Facts.body_prometheus__canonicalMetricID = ["func(name string, tagKeys []string) metricID", "keySet := make(map[string]string, len(tagKeys))", "for _, key := range tagKeys", "| keySet[key] = metricIDKeyValue", "return metricID(tally.KeyForPrefixedStringMap(name, keySet))"] := rfl

theorem body_prometheus__keysFromMap_unchanged : Facts.body_prometheus__keysFromMap = ["func(m map[string]string) []string", "labelKeys := make([]string, len(m))", "i := 0", "for k, _ := range m", "| labelKeys[i] = k", "| i++", "return labelKeys"] := rfl

theorem body_prometheus_Configuration_NewReporter_unchanged : Facts.body_prometheus_Configuration_NewReporter = ["func( configOpts ConfigurationOptions, ) (Reporter, error)", "var opts Options", "if configOpts.Registry != nil { opts.Registerer = configOpts.Registry }", "if configOpts.OnError != nil { opts.OnRegisterError = configOpts.OnError } else { switch c.OnError { case \"stderr\": opts.OnRegisterError = func(err error) { fmt.Fprintf(os.Stderr, \"tally prometheus reporter error: %v\\n\", err) } case \"log\": opts.OnRegisterError = func(err error) { log.Printf(\"tally prometheus reporter error: %v\\n\", err) } case \"none\": opts.OnRegisterError = func(err error) {} default: opts.OnRegisterError = func(err error) { panic(err) } } }", "switch c.TimerType { case \"summary\": opts.DefaultTimerType = SummaryTimerType case \"histogram\": opts.DefaultTimerType = HistogramTimerType }", "if len(c.DefaultHistogramBuckets) > 0 { var values []float64 for _, value := range c.DefaultHistogramBuckets { values = append(values, value.Upper) } opts.DefaultHistogramBuckets = values }", "if len(c.DefaultSummaryObjectives) > 0 { values := make(map[float64]float64) for _, value := range c.DefaultSummaryObjectives { values[value.Percentile] = value.AllowedError } opts.DefaultSummaryObjectives = values }", "reporter := NewReporter(opts)", "path := \"/metrics\"", "if handlerPath := strings.TrimSpace(c.HandlerPath); handlerPath != \"\" { path = handlerPath }", "if addr := strings.TrimSpace(c.ListenAddress); addr == \"\" { http.Handle(path, reporter.HTTPHandler()) } else { mux := http.NewServeMux() mux.Handle(path, reporter.HTTPHandler()) go func() { network := c.ListenNetwork if network == \"\" { network = \"tcp\" } listener, err := net.Listen(network, addr) if err != nil { opts.OnRegisterError(err) return } defer listener.Close() if err = http.Serve(listener, mux); err != nil { opts.OnRegisterError(err) } }() }", "return reporter, nil"] := rfl

theorem body_prometheus_cachedHistogramBucket_ReportSamples_unchanged : Facts.body_prometheus_cachedHistogramBucket_ReportSamples = ["func(value int64)", "for i := int64(0); i < value; i++ { b.metric.histogram.Observe(b.upperBound) }"] := rfl

theorem body_prometheus_cachedMetric_DurationBucket_unchanged : Facts.body_prometheus_cachedMetric_DurationBucket = ["func( bucketLowerBound, bucketUpperBound time.Duration, ) tally.CachedHistogramBucket", "upperBound := float64(bucketUpperBound) / float64(time.Second)", "return cachedHistogramBucket{m, upperBound}"] := rfl

theorem body_prometheus_cachedMetric_ReportCount_unchanged : Facts.body_prometheus_cachedMetric_ReportCount = ["func(value int64)", "m.counter.Add(float64(value))"] := rfl

theorem body_prometheus_cachedMetric_ReportGauge_unchanged : Facts.body_prometheus_cachedMetric_ReportGauge = ["func(value float64)", "m.gauge.Set(value)"] := rfl

theorem body_prometheus_cachedMetric_ReportTimer_unchanged : Facts.body_prometheus_cachedMetric_ReportTimer = ["func(interval time.Duration)", "m.reportTimer(interval)"] := rfl

theorem body_prometheus_cachedMetric_ValueBucket_unchanged : Facts.body_prometheus_cachedMetric_ValueBucket = ["func( bucketLowerBound, bucketUpperBound float64, ) tally.CachedHistogramBucket", "return cachedHistogramBucket{m, bucketUpperBound}"] := rfl

theorem body_prometheus_cachedMetric_reportTimerHistogram_unchanged : Facts.body_prometheus_cachedMetric_reportTimerHistogram = ["func(interval time.Duration)", "m.histogram.Observe(float64(interval) / float64(time.Second))"] := rfl

theorem body_prometheus_cachedMetric_reportTimerSummary_unchanged : Facts.body_prometheus_cachedMetric_reportTimerSummary = ["func(interval time.Duration)", "m.summary.Observe(float64(interval) / float64(time.Second))"] := rfl

theorem body_prometheus_noopMetric_DurationBucket_unchanged : Facts.body_prometheus_noopMetric_DurationBucket = ["func(lower, upper time.Duration) tally.CachedHistogramBucket", "return m"] := rfl

theorem body_prometheus_noopMetric_ReportCount_unchanged : Facts.body_prometheus_noopMetric_ReportCount = ["func(value int64)"] := rfl

theorem body_prometheus_noopMetric_ReportGauge_unchanged : Facts.body_prometheus_noopMetric_ReportGauge = ["func(value float64)"] := rfl

theorem body_prometheus_noopMetric_ReportSamples_unchanged : Facts.body_prometheus_noopMetric_ReportSamples = ["func(value int64)"] := rfl

theorem body_prometheus_noopMetric_ReportTimer_unchanged : Facts.body_prometheus_noopMetric_ReportTimer = ["func(interval time.Duration)"] := rfl

theorem body_prometheus_noopMetric_ValueBucket_unchanged : Facts.body_prometheus_noopMetric_ValueBucket = ["func(lower, upper float64) tally.CachedHistogramBucket", "return m"] := rfl

theorem body_prometheus_reporter_AllocateCounter_unchanged : Facts.body_prometheus_reporter_AllocateCounter = ["func(name string, tags map[string]string) tally.CachedCount", "tagKeys := keysFromMap(tags)", "counterVec, err := r.counterVec(name, tagKeys, name+\" counter\")", "if err != nil { r.onRegisterError(err) return noopMetric{} }", "return &cachedMetric{counter: counterVec.With(tags)}"] := rfl

theorem body_prometheus_reporter_AllocateGauge_unchanged : Facts.body_prometheus_reporter_AllocateGauge = ["func(name string, tags map[string]string) tally.CachedGauge", "tagKeys := keysFromMap(tags)", "gaugeVec, err := r.gaugeVec(name, tagKeys, name+\" gauge\")", "if err != nil { r.onRegisterError(err) return noopMetric{} }", "return &cachedMetric{gauge: gaugeVec.With(tags)}"] := rfl

theorem body_prometheus_reporter_AllocateHistogram_unchanged : Facts.body_prometheus_reporter_AllocateHistogram = ["func( name string, tags map[string]string, buckets tally.Buckets, ) tally.CachedHistogram", "tagKeys := keysFromMap(tags)", "histogramVec, err := r.histogramVec(name, tagKeys, name+\" histogram\", buckets.AsValues())", "if err != nil { r.onRegisterError(err) return noopMetric{} }", "return &cachedMetric{histogram: histogramVec.With(tags)}"] := rfl

theorem body_prometheus_reporter_AllocateTimer_unchanged : Facts.body_prometheus_reporter_AllocateTimer = ["func(name string, tags map[string]string) tally.CachedTimer", "var ( timer tally.CachedTimer err error )", "tagKeys := keysFromMap(tags)", "timerType, buckets, objectives := r.timerConfig(nil)", "switch timerType { case HistogramTimerType: var histogramVec *prom.HistogramVec histogramVec, err = r.histogramVec(name, tagKeys, name+\" histogram\", buckets) if err == nil { t := &cachedMetric{histogram: histogramVec.With(tags)} t.reportTimer = t.reportTimerHistogram timer = t } case SummaryTimerType: var summaryVec *prom.SummaryVec summaryVec, err = r.summaryVec(name, tagKeys, name+\" summary\", objectives) if err == nil { t := &cachedMetric{summary: summaryVec.With(tags)} t.reportTimer = t.reportTimerSummary timer = t } default: err = errUnknownTimerType }", "if err != nil { r.onRegisterError(err) return noopMetric{} }", "return timer"] := rfl

theorem body_prometheus_reporter_Flush_unchanged : Facts.body_prometheus_reporter_Flush = ["func()"] := rfl

theorem body_prometheus_reporter_RegisterCounter_unchanged : Facts.body_prometheus_reporter_RegisterCounter = ["func( name string, tagKeys []string, desc string, ) (*prom.CounterVec, error)", "return r.counterVec(name, tagKeys, desc)"] := rfl

theorem body_prometheus_reporter_RegisterGauge_unchanged : Facts.body_prometheus_reporter_RegisterGauge = ["func( name string, tagKeys []string, desc string, ) (*prom.GaugeVec, error)", "return r.gaugeVec(name, tagKeys, desc)"] := rfl

theorem body_prometheus_reporter_RegisterTimer_unchanged : Facts.body_prometheus_reporter_RegisterTimer = ["func( name string, tagKeys []string, desc string, opts *RegisterTimerOptions, ) (TimerUnion, error)", "timerType, buckets, objectives := r.timerConfig(opts)", "switch timerType { case HistogramTimerType: h, err := r.histogramVec(name, tagKeys, desc, buckets) return TimerUnion{TimerType: timerType, Histogram: h}, err case SummaryTimerType: s, err := r.summaryVec(name, tagKeys, desc, objectives) return TimerUnion{TimerType: timerType, Summary: s}, err }", "return TimerUnion{}, errUnknownTimerType"] := rfl

theorem body_prometheus_reporter_counterVec_unchanged : Facts.body_prometheus_reporter_counterVec = ["func( name string, tagKeys []string, desc string, ) (*prom.CounterVec, error)", "id := canonicalMetricID(name, tagKeys)", "r.Lock()", "defer r.Unlock()", "if ctr, ok := r.counters[id]; ok { return ctr, nil }", "ctr := prom.NewCounterVec( prom.CounterOpts{ Name: name, Help: desc, }, tagKeys, )", "if err := r.registerer.Register(ctr); err != nil { return nil, err }", "r.counters[id] = ctr", "return ctr, nil"] := rfl

theorem body_prometheus_reporter_gaugeVec_unchanged : Facts.body_prometheus_reporter_gaugeVec = ["func( name string, tagKeys []string, desc string, ) (*prom.GaugeVec, error)", "id := canonicalMetricID(name, tagKeys)", "r.Lock()", "defer r.Unlock()", "if g, ok := r.gauges[id]; ok { return g, nil }", "g := prom.NewGaugeVec( prom.GaugeOpts{ Name: name, Help: desc, }, tagKeys, )", "if err := r.registerer.Register(g); err != nil { return nil, err }", "r.gauges[id] = g", "return g, nil"] := rfl

theorem body_prometheus_reporter_histogramVec_unchanged : Facts.body_prometheus_reporter_histogramVec = ["func( name string, tagKeys []string, desc string, buckets []float64, ) (*prom.HistogramVec, error)", "id := canonicalMetricID(name, tagKeys)", "r.Lock()", "defer r.Unlock()", "if h, ok := r.timers[id]; ok { if h.histogram == nil { return nil, errTimerTypeMismatch } return h.histogram, nil }", "h := prom.NewHistogramVec( prom.HistogramOpts{ Name: name, Help: desc, Buckets: buckets, }, tagKeys, )", "if err := r.registerer.Register(h); err != nil { return nil, err }", "r.timers[id] = &promTimerVec{histogram: h}", "return h, nil"] := rfl

theorem body_prometheus_reporter_summaryVec_unchanged : Facts.body_prometheus_reporter_summaryVec = ["func( name string, tagKeys []string, desc string, objectives map[float64]float64, ) (*prom.SummaryVec, error)", "id := canonicalMetricID(name, tagKeys)", "r.Lock()", "defer r.Unlock()", "if s, ok := r.timers[id]; ok { if s.summary == nil { return nil, errTimerTypeMismatch } return s.summary, nil }", "s := prom.NewSummaryVec( prom.SummaryOpts{ Name: name, Help: desc, Objectives: objectives, }, tagKeys, )", "if err := r.registerer.Register(s); err != nil { return nil, err }", "r.timers[id] = &promTimerVec{summary: s}", "return s, nil"] := rfl

theorem body_prometheus_reporter_timerConfig_unchanged : Facts.body_prometheus_reporter_timerConfig = ["func( opts *RegisterTimerOptions, ) ( timerType TimerType, buckets []float64, objectives map[float64]float64, )", "timerType = r.timerType", "objectives = r.objectives", "buckets = r.buckets", "if opts != nil { timerType = opts.TimerType if opts.SummaryObjectives != nil { objectives = opts.SummaryObjectives } if opts.HistogramBuckets != nil { buckets = opts.HistogramBuckets } }", "return"] := rfl

end Tally.Tie.C17Frozen
