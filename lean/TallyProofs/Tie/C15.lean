import Tally.Generated.Facts
import Tally.Model.Udp
/-!
Tie for C15: what `Model.Udp` / `Model.UdpMulti` / `Model.M3Batch` assume about
`m3/thriftudp/transport.go`, `multitransport.go` and `m3/thrift/v2/m3.go`, re-checked against the
facts extracted from the current source.

The model follows repair D9 (poison after a refused write; `Flush` discards a poisoned message).
The theorems marked (D9) state the shape of the *unrepaired* source: when the repair lands they
stop holding, on purpose — whoever lands it restates them for the repaired shape (the expected
one is given next to each) and checks that `Model.Udp.accept` / `flush` still say the same thing.
-/
namespace Tally.Tie.C15
open Tally

/-- `MaxLength` is the limit the model's theorems are instantiated with -/
theorem maxLength_is_fact : (Udp.maxLength : Int) = Facts.udpMaxLength.getD 0 := by decide
theorem maxLength_value : Facts.udpMaxLength = some 65000 := rfl

/-- `accept`: `IsOpen` first, then the strict comparison `len(buffer)+len(chunk) > MaxLength`, then append -/
theorem write_ops : Facts.udpWriteOps = ["p.IsOpen()", "p.writeBuf.Len()", "p.writeBuf.Write(buf)"] := rfl
theorem writeByte_ops : Facts.udpWriteByteOps = ["p.IsOpen()", "p.writeBuf.Len()", "p.writeBuf.WriteByte(b)"] := rfl
theorem writeString_ops : Facts.udpWriteStringOps = ["p.IsOpen()", "p.writeBuf.Len()", "p.writeBuf.WriteString(s)"] := rfl
/-- (D9) expected after the repair: the same comparison preceded by / combined with the poisoned flag -/
theorem write_cmp : Facts.udpWriteComparisons = ["p.writeBuf.Len()+len(buf) > MaxLength"] := rfl
theorem writeByte_cmp : Facts.udpWriteByteComparisons = ["p.writeBuf.Len()+1 > MaxLength"] := rfl
theorem writeString_cmp : Facts.udpWriteStringComparisons = ["p.writeBuf.Len()+len(s) > MaxLength"] := rfl

/-- `flush`: `IsOpen`, one `conn.Write` of the whole buffer, `Reset` unconditionally after it.
(D9) expected after the repair: a poisoned check between `IsOpen` and `conn.Write`, with its own `Reset`. -/
theorem flush_ops : Facts.udpFlushOps = ["p.IsOpen()", "p.conn.Write(p.writeBuf.Bytes())", "p.writeBuf.Reset()"] := rfl
theorem flush_returns : Facts.udpFlushReturns
    = ["return thrift.NewTTransportException(thrift.NOT_OPEN, \"Connection not open\")", "return err"] := rfl

/-- `close`: swap the flag, only the first caller closes the socket -/
theorem close_ops : Facts.udpCloseOps = ["p.closed.Swap(true)", "p.conn.Close()"] := rfl
theorem close_guard : Facts.udpCloseComparisons = ["!closed"] := rfl
theorem isOpen_returns : Facts.udpIsOpenReturns = ["return !p.closed.Load()"] := rfl

/-- `UdpMulti.write`: one `Write` per destination, return on the first error with the count so
far, count = maximum written -/
theorem multi_write_ops : Facts.udpMultiWriteOps = ["trans.Write(buff)"] := rfl
theorem multi_write_cmp : Facts.udpMultiWriteComparisons = ["err != nil", "written > n"] := rfl
theorem multi_write_returns : Facts.udpMultiWriteReturns = ["return n, err", "return n, nil"] := rfl
/-- `UdpMulti.flush` / `close`: one call per destination, return on the first error -/
theorem multi_flush_ops : Facts.udpMultiFlushOps = ["trans.Flush()"] := rfl
theorem multi_flush_cmp : Facts.udpMultiFlushComparisons = ["err != nil"] := rfl
theorem multi_flush_returns : Facts.udpMultiFlushReturns = ["return err", "return nil"] := rfl
theorem multi_close_ops : Facts.udpMultiCloseOps = ["trans.Close()"] := rfl
theorem multi_close_cmp : Facts.udpMultiCloseComparisons = ["err != nil"] := rfl
theorem multi_close_returns : Facts.udpMultiCloseReturns = ["return err", "return nil"] := rfl
/-- `UdpMulti.isOpen`: false at the first closed destination, else true -/
theorem multi_isOpen_ops : Facts.udpMultiIsOpenOps = ["trans.IsOpen()"] := rfl
theorem multi_isOpen_returns : Facts.udpMultiIsOpenReturns = ["return false", "return true"] := rfl

/-- `M3Batch.writesUntilError`: the generated client returns at the first error of begin / body /
end — three bare returns, none of them flushes — and flushes only at the very end -/
theorem send_emit_ops : Facts.m3SendEmitOps
    = ["oprot.WriteMessageBegin(\"emitMetricBatchV2\", thrift.ONEWAY, p.SeqId)", "args.Write(oprot)",
       "oprot.WriteMessageEnd()", "oprot.Flush()"] := rfl
theorem send_emit_returns : Facts.m3SendEmitReturns = ["return", "return", "return", "return oprot.Flush()"] := rfl

end Tally.Tie.C15
