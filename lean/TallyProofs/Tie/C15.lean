import Tally.Generated.Facts
import Tally.Model.Udp
/-!
Tie for C15: what `Model.Udp` / `Model.UdpMulti` / `Model.M3Batch` assume about
`m3/thriftudp/transport.go`, `multitransport.go`, `m3/thrift/v2/m3.go` and `m3/reporter.go`,
re-checked against the facts extracted from the current source (the tree with repair D9: the
transport's `overflow` flag is the model's `poisoned`).
-/
namespace Tally.Tie.C15
open Tally

/-- `MaxLength` is the limit the model's theorems are instantiated with -/
theorem maxLength_is_fact : (Udp.maxLength : Int) = Facts.udpMaxLength.getD 0 := by decide
theorem maxLength_value : Facts.udpMaxLength = some 65000 := rfl

/-- `accept`: `IsOpen` first; then refused if the message is already marked incomplete or the
strict comparison `len(buffer)+len(chunk) > MaxLength` holds, and the refusal marks it; then append -/
theorem write_ops : Facts.udpWriteOps = ["p.IsOpen()", "p.writeBuf.Len()", "p.writeBuf.Write(buf)"] := rfl
theorem writeByte_ops : Facts.udpWriteByteOps = ["p.IsOpen()", "p.writeBuf.Len()", "p.writeBuf.WriteByte(b)"] := rfl
theorem writeString_ops : Facts.udpWriteStringOps = ["p.IsOpen()", "p.writeBuf.Len()", "p.writeBuf.WriteString(s)"] := rfl
theorem write_guards : Facts.udpWriteGuards = ["!p.IsOpen()", "p.overflow || p.writeBuf.Len()+len(buf) > MaxLength"] := rfl
theorem writeByte_guards : Facts.udpWriteByteGuards = ["!p.IsOpen()", "p.overflow || p.writeBuf.Len()+1 > MaxLength"] := rfl
theorem writeString_guards : Facts.udpWriteStringGuards = ["!p.IsOpen()", "p.overflow || p.writeBuf.Len()+len(s) > MaxLength"] := rfl
theorem write_cmp : Facts.udpWriteComparisons = ["p.writeBuf.Len()+len(buf) > MaxLength"] := rfl
theorem writeByte_cmp : Facts.udpWriteByteComparisons = ["p.writeBuf.Len()+1 > MaxLength"] := rfl
theorem writeString_cmp : Facts.udpWriteStringComparisons = ["p.writeBuf.Len()+len(s) > MaxLength"] := rfl
theorem write_assigns : Facts.udpWriteAssigns = ["p.overflow = true"] := rfl
theorem writeByte_assigns : Facts.udpWriteByteAssigns = ["p.overflow = true"] := rfl
theorem writeString_assigns : Facts.udpWriteStringAssigns = ["p.overflow = true"] := rfl

/-- `flush`: `IsOpen`; an incomplete message is dropped (`Reset`, flag cleared, error, no send);
otherwise one `conn.Write` of the whole buffer and `Reset` unconditionally after it -/
theorem flush_guards : Facts.udpFlushGuards = ["!p.IsOpen()", "p.overflow"] := rfl
theorem flush_assigns : Facts.udpFlushAssigns = ["p.overflow = false"] := rfl
theorem flush_ops : Facts.udpFlushOps
    = ["p.IsOpen()", "p.writeBuf.Reset()", "p.conn.Write(p.writeBuf.Bytes())", "p.writeBuf.Reset()"] := rfl
theorem flush_returns : Facts.udpFlushReturns
    = ["return thrift.NewTTransportException(thrift.NOT_OPEN, \"Connection not open\")",
       "return thrift.NewTTransportException(thrift.INVALID_DATA, \"Data does not fit within one UDP packet: message discarded\")",
       "return err"] := rfl

/-- `close`: swap the flag, only the first caller closes the socket -/
theorem close_ops : Facts.udpCloseOps = ["p.closed.Swap(true)", "p.conn.Close()"] := rfl
theorem close_guard : Facts.udpCloseComparisons = ["!closed"] := rfl
theorem isOpen_returns : Facts.udpIsOpenReturns = ["return !p.closed.Load()"] := rfl

/-- `UdpMulti.write`: one `Write` per destination, no early exit (the only branch statement is the
`continue` after recording the first error, the only return is the final one), the count is the
maximum written while no error has been seen -/
theorem multi_write_ops : Facts.udpMultiWriteOps = ["trans.Write(buff)"] := rfl
theorem multi_write_cmp : Facts.udpMultiWriteComparisons = ["err != nil", "firstErr == nil", "firstErr == nil", "written > n"] := rfl
theorem multi_write_returns : Facts.udpMultiWriteReturns = ["return n, firstErr"] := rfl
theorem multi_write_branches : Facts.udpMultiWriteBranches = ["continue"] := rfl
/-- `UdpMulti.flush`: one `Flush` per destination, no early exit, the first error is returned -/
theorem multi_flush_ops : Facts.udpMultiFlushOps = ["trans.Flush()"] := rfl
theorem multi_flush_cmp : Facts.udpMultiFlushComparisons = ["err != nil", "firstErr == nil"] := rfl
theorem multi_flush_returns : Facts.udpMultiFlushReturns = ["return firstErr"] := rfl
theorem multi_flush_branches : Facts.udpMultiFlushBranches = [] := rfl
/-- `UdpMulti.close`: one call per destination, return on the first error -/
theorem multi_close_ops : Facts.udpMultiCloseOps = ["trans.Close()"] := rfl
theorem multi_close_cmp : Facts.udpMultiCloseComparisons = ["err != nil"] := rfl
theorem multi_close_returns : Facts.udpMultiCloseReturns = ["return err", "return nil"] := rfl
/-- `UdpMulti.isOpen`: false at the first closed destination, else true -/
theorem multi_isOpen_ops : Facts.udpMultiIsOpenOps = ["trans.IsOpen()"] := rfl
theorem multi_isOpen_returns : Facts.udpMultiIsOpenReturns = ["return false", "return true"] := rfl

/-- `M3Batch.writesUntilError`: the generated client returns at the first error of begin / body /
end — three bare returns, none of them flushes — and flushes only at the very end -/
theorem send_emit_ops : Facts.m3SendEmitOps
    = ["oprot.WriteMessageBegin(\"emitMetricBatchV2\", thrift.ONEWAY, p.SeqId)", "args.Write(oprot)",
       "oprot.WriteMessageEnd()", "oprot.Flush()"] := rfl
theorem send_emit_returns : Facts.m3SendEmitReturns = ["return", "return", "return", "return oprot.Flush()"] := rfl

/-- `M3Batch.emitOps`: after a failed emit the reporter counts the error and, when the error is the
transport's refusal, calls the transport's `Flush` once, which discards the abandoned message.
(A send error of the client's own final `Flush` is a `*net.OpError`, not a `TTransportException`:
no second flush, as in the model.) -/
theorem reporter_flush_ops : Facts.m3ReporterFlushOps
    = ["r.numBatches.Inc()", "r.client.EmitMetricBatchV2(m3thrift.MetricBatch{ Metrics: mets, CommonTags: r.commonTags, })",
       "r.numWriteErrors.Inc()", "te.TypeId()", "r.client.Transport.Flush()"] := rfl
theorem reporter_flush_cmp : Facts.m3ReporterFlushComparisons
    = ["len(mets) == 0", "err != nil", "te.TypeId() == thrift.INVALID_DATA"] := rfl

end Tally.Tie.C15
