import Tally.Generated.Facts
/-! Tie for C07: the order of operations of a report pass (closed flag read before the visit, removal by
identity, clear after removal), of the removal hand-over (RUnlock, Lock, compare, delete, Unlock, RLock)
and of `Subscope` (probe, re-acquire path, write-locked re-lookup with the closed check), as the steps of
`Tally.Registry` assume them, re-checked against the current source. -/
namespace Tally.Tie.C07
open Tally

theorem pass_reads_closed_before_visit :
    Facts.registryReportOps = ["r.reportInternalMetrics()", "subscopeBucket.mu.RLock()", "s.closed.Load()",
      "s.report(reporter)", "r.removeWithRLock(subscopeBucket, name, s)", "s.clearMetrics()", "subscopeBucket.mu.RUnlock()"] := rfl
theorem cached_pass_reads_closed_before_visit :
    Facts.registryCachedReportOps = ["r.reportInternalMetrics()", "subscopeBucket.mu.RLock()", "s.closed.Load()",
      "s.cachedReport()", "r.removeWithRLock(subscopeBucket, name, s)", "s.clearMetrics()", "subscopeBucket.mu.RUnlock()"] := rfl
theorem removal_hand_over :
    Facts.removeWithRLockOps = ["subscopeBucket.mu.RUnlock()", "defer subscopeBucket.mu.RLock()", "subscopeBucket.mu.Lock()",
      "defer subscopeBucket.mu.Unlock()", "delete(subscopeBucket.s, key)"] := rfl
theorem removal_by_identity : Facts.removeWithRLockComparisons = ["cur == s"] := rfl
theorem subscope_shape :
    Facts.registrySubscopeOps = ["r.root.closed.Load()", "parent.closed.Load()", "subscopeBucket.mu.RLock()",
      "r.lockedLookup(subscopeBucket, unsanitizedKey)", "s.closed.Load()", "subscopeBucket.mu.RUnlock()",
      "s.report(parent.reporter)", "s.cachedReport()", "r.removeWithRLock(subscopeBucket, unsanitizedKey, s)",
      "r.removeWithRLock(subscopeBucket, sanitizedKey, s)", "s.clearMetrics()", "subscopeBucket.mu.RUnlock()",
      "subscopeBucket.mu.Lock()", "defer subscopeBucket.mu.Unlock()", "r.lockedLookup(subscopeBucket, sanitizedKey)",
      "s.closed.Load()", "r.lockedLookup(subscopeBucket, unsanitizedKey)", "s.report(parent.reporter)", "s.cachedReport()",
      "delete(subscopeBucket.s, sanitizedKey)", "r.lockedLookup(subscopeBucket, unsanitizedKey)",
      "delete(subscopeBucket.s, unsanitizedKey)", "s.clearMetrics()", "r.lockedLookup(subscopeBucket, unsanitizedKey)"] := rfl
theorem counter_visit_is_swap : Facts.counterValueOps = ["atomic.SwapInt64(&c.curr, 0)"] := rfl

end Tally.Tie.C07
