import Tally.Generated.Facts
/-! Tie for C10: `Timer.Record` forwards to the cached handle if there is one, else to the reporter
(which is the in-memory sink of a reporter-less test scope), and does nothing else; `Call.Exec` is
start, f, stop, then exactly one of the two counters. -/
namespace Tally.Tie.C10
open Tally

theorem timer_record_forwards :
    Facts.timerRecordOps = ["t.cachedTimer.ReportTimer(interval)", "t.reporter.ReportTimer(t.name, t.tags, interval)"] := rfl
theorem exec_shape : Facts.instrumentExecOps = ["c.timing.Start()", "f()", "sw.Stop()", "c.err.Inc(1)", "c.success.Inc(1)"] := rfl

end Tally.Tie.C10
