import Tally.Generated.Facts
/-! Frozen bodies for C06 (generated once by tools/gen_tie_frozen.py from the source the model was written
against; re-proved against the facts regenerated from /repo on every run). -/
namespace Tally.Tie.C06Frozen
open Tally

theorem body_tally__NewNoOpSanitizer_unchanged : Facts.body_tally__NewNoOpSanitizer = ["func() Sanitizer", "return sanitizer{ nameFn: NoOpSanitizeFn, keyFn: NoOpSanitizeFn, valueFn: NoOpSanitizeFn, }"] := rfl

theorem body_tally__NewSanitizer_unchanged : Facts.body_tally__NewSanitizer = ["func(opts SanitizeOptions) Sanitizer", "return sanitizer{ nameFn: opts.NameCharacters.sanitizeFn(opts.ReplacementCharacter), keyFn: opts.KeyCharacters.sanitizeFn(opts.ReplacementCharacter), valueFn: opts.ValueCharacters.sanitizeFn(opts.ReplacementCharacter), }"] := rfl

theorem body_tally__NoOpSanitizeFn_unchanged : Facts.body_tally__NoOpSanitizeFn = ["func(v string) string", "return v"] := rfl

theorem body_tally__getSanitizeBuffer_unchanged : Facts.body_tally__getSanitizeBuffer = ["func() *bytes.Buffer", "return _sanitizeBuffers.Get().(*bytes.Buffer)"] := rfl

theorem body_tally__putSanitizeBuffer_unchanged : Facts.body_tally__putSanitizeBuffer = ["func(b *bytes.Buffer)", "b.Reset()", "_sanitizeBuffers.Put(b)"] := rfl

theorem body_tally_ValidCharacters_sanitizeFn_unchanged : Facts.body_tally_ValidCharacters_sanitizeFn = ["func(repChar rune) SanitizeFn", "return func(value string) string { var buf *bytes.Buffer for idx, ch := range value { validCurr := false for i := 0; !validCurr && i < len(c.Ranges); i++ { if ch >= c.Ranges[i][0] && ch <= c.Ranges[i][1] { validCurr = true break } } for i := 0; !validCurr && i < len(c.Characters); i++ { if c.Characters[i] == ch { validCurr = true break } } if validCurr && ch == utf8.RuneError { if _, width := utf8.DecodeRuneInString(value[idx:]); width <= 1 { validCurr = false } } if validCurr { if buf == nil { continue } buf.WriteRune(ch) continue } if buf == nil { buf = getSanitizeBuffer() if idx > 0 { buf.WriteString(value[:idx]) } } buf.WriteRune(repChar) } if buf == nil { return value } result := buf.String() putSanitizeBuffer(buf) return result }"] := rfl

theorem body_tally_sanitizer_Key_unchanged : Facts.body_tally_sanitizer_Key = ["func(k string) string", "return s.keyFn(k)"] := rfl

theorem body_tally_sanitizer_Name_unchanged : Facts.body_tally_sanitizer_Name = ["func(n string) string", "return s.nameFn(n)"] := rfl

theorem body_tally_sanitizer_Value_unchanged : Facts.body_tally_sanitizer_Value = ["func(v string) string", "return s.valueFn(v)"] := rfl

end Tally.Tie.C06Frozen
