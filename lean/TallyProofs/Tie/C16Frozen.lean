import Tally.Generated.Facts
/-! Frozen bodies for C16 (generated once by tools/gen_tie_frozen.py from the source the model was written
against; re-proved against the facts regenerated from /repo on every run). -/
namespace Tally.Tie.C16Frozen
open Tally

theorem thriftCompact_WriteMessageBegin_unchanged : Facts.thriftCompact_WriteMessageBegin = ["func(name string, typeId TMessageType, seqid int32) error", "err := p.writeByteDirect(COMPACT_PROTOCOL_ID)", "if err != nil { return NewTProtocolException(err) }", "err = p.writeByteDirect((COMPACT_VERSION & COMPACT_VERSION_MASK) | ((byte(typeId) << COMPACT_TYPE_SHIFT_AMOUNT) & COMPACT_TYPE_MASK))", "if err != nil { return NewTProtocolException(err) }", "_, err = p.writeVarint32(seqid)", "if err != nil { return NewTProtocolException(err) }", "e := p.WriteString(name)", "return e"] := rfl

theorem thriftCompact_WriteMessageEnd_unchanged : Facts.thriftCompact_WriteMessageEnd = ["func() error", "return nil"] := rfl

theorem thriftCompact_WriteStructBegin_unchanged : Facts.thriftCompact_WriteStructBegin = ["func(name string) error", "p.lastField = append(p.lastField, p.lastFieldId)", "p.lastFieldId = 0", "return nil"] := rfl

theorem thriftCompact_WriteStructEnd_unchanged : Facts.thriftCompact_WriteStructEnd = ["func() error", "p.lastFieldId = p.lastField[len(p.lastField)-1]", "p.lastField = p.lastField[:len(p.lastField)-1]", "return nil"] := rfl

theorem thriftCompact_WriteFieldBegin_unchanged : Facts.thriftCompact_WriteFieldBegin = ["func(name string, typeId TType, id int16) error", "if typeId == BOOL { p.booleanFieldName, p.booleanFieldId, p.booleanFieldPending = name, id, true return nil }", "_, err := p.writeFieldBeginInternal(name, typeId, id, 0xFF)", "return NewTProtocolException(err)"] := rfl

theorem thriftCompact_writeFieldBeginInternal_unchanged : Facts.thriftCompact_writeFieldBeginInternal = ["func(name string, typeId TType, id int16, typeOverride byte) (int, error)", "var typeToWrite byte", "if typeOverride == 0xFF { typeToWrite = byte(p.getCompactType(typeId)) } else { typeToWrite = typeOverride }", "fieldId := int(id)", "written := 0", "if fieldId > p.lastFieldId && fieldId-p.lastFieldId <= 15 { err := p.writeByteDirect(byte((fieldId-p.lastFieldId)<<4) | typeToWrite) if err != nil { return 0, err } } else { err := p.writeByteDirect(typeToWrite) if err != nil { return 0, err } err = p.WriteI16(id) written = 1 + 2 if err != nil { return 0, err } }", "p.lastFieldId = fieldId", "return written, nil"] := rfl

theorem thriftCompact_WriteFieldEnd_unchanged : Facts.thriftCompact_WriteFieldEnd = ["func() error", "return nil"] := rfl

theorem thriftCompact_WriteFieldStop_unchanged : Facts.thriftCompact_WriteFieldStop = ["func() error", "err := p.writeByteDirect(STOP)", "return NewTProtocolException(err)"] := rfl

theorem thriftCompact_WriteListBegin_unchanged : Facts.thriftCompact_WriteListBegin = ["func(elemType TType, size int) error", "_, err := p.writeCollectionBegin(elemType, size)", "return NewTProtocolException(err)"] := rfl

theorem thriftCompact_WriteListEnd_unchanged : Facts.thriftCompact_WriteListEnd = ["func() error", "return nil"] := rfl

theorem thriftCompact_WriteBool_unchanged : Facts.thriftCompact_WriteBool = ["func(value bool) error", "v := byte(COMPACT_BOOLEAN_FALSE)", "if value { v = byte(COMPACT_BOOLEAN_TRUE) }", "if p.booleanFieldPending { _, err := p.writeFieldBeginInternal(p.booleanFieldName, BOOL, p.booleanFieldId, v) p.booleanFieldPending = false return NewTProtocolException(err) }", "err := p.writeByteDirect(v)", "return NewTProtocolException(err)"] := rfl

theorem thriftCompact_WriteByte_unchanged : Facts.thriftCompact_WriteByte = ["func(value int8) error", "err := p.writeByteDirect(byte(value))", "return NewTProtocolException(err)"] := rfl

theorem thriftCompact_WriteI16_unchanged : Facts.thriftCompact_WriteI16 = ["func(value int16) error", "_, err := p.writeVarint32(p.int32ToZigzag(int32(value)))", "return NewTProtocolException(err)"] := rfl

theorem thriftCompact_WriteI32_unchanged : Facts.thriftCompact_WriteI32 = ["func(value int32) error", "_, err := p.writeVarint32(p.int32ToZigzag(value))", "return NewTProtocolException(err)"] := rfl

theorem thriftCompact_WriteI64_unchanged : Facts.thriftCompact_WriteI64 = ["func(value int64) error", "_, err := p.writeVarint64(p.int64ToZigzag(value))", "return NewTProtocolException(err)"] := rfl

theorem thriftCompact_WriteDouble_unchanged : Facts.thriftCompact_WriteDouble = ["func(value float64) error", "buf := p.buffer[0:8]", "binary.LittleEndian.PutUint64(buf, math.Float64bits(value))", "_, err := p.trans.Write(buf)", "return NewTProtocolException(err)"] := rfl

theorem thriftCompact_WriteString_unchanged : Facts.thriftCompact_WriteString = ["func(value string) error", "_, e := p.writeVarint32(int32(len(value)))", "if e != nil { return NewTProtocolException(e) }", "if len(value) > 0 { }", "_, e = p.trans.WriteString(value)", "return e"] := rfl

theorem thriftCompact_WriteBinary_unchanged : Facts.thriftCompact_WriteBinary = ["func(bin []byte) error", "_, e := p.writeVarint32(int32(len(bin)))", "if e != nil { return NewTProtocolException(e) }", "if len(bin) > 0 { _, e = p.trans.Write(bin) return NewTProtocolException(e) }", "return nil"] := rfl

theorem thriftCompact_writeCollectionBegin_unchanged : Facts.thriftCompact_writeCollectionBegin = ["func(elemType TType, size int) (int, error)", "if size <= 14 { return 1, p.writeByteDirect(byte(int32(size<<4) | int32(p.getCompactType(elemType)))) }", "err := p.writeByteDirect(0xf0 | byte(p.getCompactType(elemType)))", "if err != nil { return 0, err }", "m, err := p.writeVarint32(int32(size))", "return 1 + m, err"] := rfl

theorem thriftCompact_writeVarint32_unchanged : Facts.thriftCompact_writeVarint32 = ["func(n int32) (int, error)", "i32buf := p.buffer[0:5]", "idx := 0", "for { if (n & ^0x7F) == 0 { i32buf[idx] = byte(n) idx++ break } else { i32buf[idx] = byte((n & 0x7F) | 0x80) idx++ u := uint32(n) n = int32(u >> 7) } }", "return p.trans.Write(i32buf[0:idx])"] := rfl

theorem thriftCompact_writeVarint64_unchanged : Facts.thriftCompact_writeVarint64 = ["func(n int64) (int, error)", "varint64out := p.buffer[0:10]", "idx := 0", "for { if (n & ^0x7F) == 0 { varint64out[idx] = byte(n) idx++ break } else { varint64out[idx] = byte((n & 0x7F) | 0x80) idx++ u := uint64(n) n = int64(u >> 7) } }", "return p.trans.Write(varint64out[0:idx])"] := rfl

theorem thriftCompact_int64ToZigzag_unchanged : Facts.thriftCompact_int64ToZigzag = ["func(l int64) int64", "return (l << 1) ^ (l >> 63)"] := rfl

theorem thriftCompact_int32ToZigzag_unchanged : Facts.thriftCompact_int32ToZigzag = ["func(n int32) int32", "return (n << 1) ^ (n >> 31)"] := rfl

theorem thriftCompact_writeByteDirect_unchanged : Facts.thriftCompact_writeByteDirect = ["func(b byte) error", "return p.trans.WriteByte(b)"] := rfl

theorem thriftCompact_writeIntAsByteDirect_unchanged : Facts.thriftCompact_writeIntAsByteDirect = ["func(n int) (int, error)", "return 1, p.writeByteDirect(byte(n))"] := rfl

theorem thriftCompact_getCompactType_unchanged : Facts.thriftCompact_getCompactType = ["func(t TType) tCompactType", "return ttypeToCompactType[t]"] := rfl

theorem thriftCompact_Flush_unchanged : Facts.thriftCompact_Flush = ["func() (err error)", "return NewTProtocolException(p.trans.Flush())"] := rfl

theorem thriftBinary_WriteMessageBegin_unchanged : Facts.thriftBinary_WriteMessageBegin = ["func(name string, typeId TMessageType, seqId int32) error", "if p.strictWrite { version := uint32(VERSION_1) | uint32(typeId) e := p.WriteI32(int32(version)) if e != nil { return e } e = p.WriteString(name) if e != nil { return e } e = p.WriteI32(seqId) return e } else { e := p.WriteString(name) if e != nil { return e } e = p.WriteByte(int8(typeId)) if e != nil { return e } e = p.WriteI32(seqId) return e }", "return nil"] := rfl

theorem thriftBinary_WriteMessageEnd_unchanged : Facts.thriftBinary_WriteMessageEnd = ["func() error", "return nil"] := rfl

theorem thriftBinary_WriteStructBegin_unchanged : Facts.thriftBinary_WriteStructBegin = ["func(name string) error", "return nil"] := rfl

theorem thriftBinary_WriteStructEnd_unchanged : Facts.thriftBinary_WriteStructEnd = ["func() error", "return nil"] := rfl

theorem thriftBinary_WriteFieldBegin_unchanged : Facts.thriftBinary_WriteFieldBegin = ["func(name string, typeId TType, id int16) error", "e := p.WriteByte(int8(typeId))", "if e != nil { return e }", "e = p.WriteI16(id)", "return e"] := rfl

theorem thriftBinary_WriteFieldEnd_unchanged : Facts.thriftBinary_WriteFieldEnd = ["func() error", "return nil"] := rfl

theorem thriftBinary_WriteFieldStop_unchanged : Facts.thriftBinary_WriteFieldStop = ["func() error", "e := p.WriteByte(STOP)", "return e"] := rfl

theorem thriftBinary_WriteListBegin_unchanged : Facts.thriftBinary_WriteListBegin = ["func(elemType TType, size int) error", "e := p.WriteByte(int8(elemType))", "if e != nil { return e }", "e = p.WriteI32(int32(size))", "return e"] := rfl

theorem thriftBinary_WriteListEnd_unchanged : Facts.thriftBinary_WriteListEnd = ["func() error", "return nil"] := rfl

theorem thriftBinary_WriteBool_unchanged : Facts.thriftBinary_WriteBool = ["func(value bool) error", "if value { return p.WriteByte(1) }", "return p.WriteByte(0)"] := rfl

theorem thriftBinary_WriteByte_unchanged : Facts.thriftBinary_WriteByte = ["func(value int8) error", "e := p.trans.WriteByte(byte(value))", "return NewTProtocolException(e)"] := rfl

theorem thriftBinary_WriteI16_unchanged : Facts.thriftBinary_WriteI16 = ["func(value int16) error", "v := p.buffer[0:2]", "binary.BigEndian.PutUint16(v, uint16(value))", "_, e := p.writer.Write(v)", "return NewTProtocolException(e)"] := rfl

theorem thriftBinary_WriteI32_unchanged : Facts.thriftBinary_WriteI32 = ["func(value int32) error", "v := p.buffer[0:4]", "binary.BigEndian.PutUint32(v, uint32(value))", "_, e := p.writer.Write(v)", "return NewTProtocolException(e)"] := rfl

theorem thriftBinary_WriteI64_unchanged : Facts.thriftBinary_WriteI64 = ["func(value int64) error", "v := p.buffer[0:8]", "binary.BigEndian.PutUint64(v, uint64(value))", "_, err := p.writer.Write(v)", "return NewTProtocolException(err)"] := rfl

theorem thriftBinary_WriteDouble_unchanged : Facts.thriftBinary_WriteDouble = ["func(value float64) error", "return p.WriteI64(int64(math.Float64bits(value)))"] := rfl

theorem thriftBinary_WriteString_unchanged : Facts.thriftBinary_WriteString = ["func(value string) error", "e := p.WriteI32(int32(len(value)))", "if e != nil { return e }", "_, err := p.trans.WriteString(value)", "return NewTProtocolException(err)"] := rfl

theorem thriftBinary_WriteBinary_unchanged : Facts.thriftBinary_WriteBinary = ["func(value []byte) error", "e := p.WriteI32(int32(len(value)))", "if e != nil { return e }", "_, err := p.writer.Write(value)", "return NewTProtocolException(err)"] := rfl

theorem thriftBinary_Flush_unchanged : Facts.thriftBinary_Flush = ["func() (err error)", "return NewTProtocolException(p.trans.Flush())"] := rfl

theorem m3v2_MetricValue_Write_unchanged : Facts.m3v2_MetricValue_Write = ["func(oprot thrift.TProtocol) error", "if err := oprot.WriteStructBegin(\"MetricValue\"); err != nil { return thrift.PrependError(fmt.Sprintf(\"%T write struct begin error: \", p), err) }", "if err := p.writeField1(oprot); err != nil { return err }", "if err := p.writeField2(oprot); err != nil { return err }", "if err := p.writeField3(oprot); err != nil { return err }", "if err := p.writeField4(oprot); err != nil { return err }", "if err := oprot.WriteFieldStop(); err != nil { return thrift.PrependError(\"write field stop error: \", err) }", "if err := oprot.WriteStructEnd(); err != nil { return thrift.PrependError(\"write struct stop error: \", err) }", "return nil"] := rfl

theorem m3v2_MetricValue_writeField1_unchanged : Facts.m3v2_MetricValue_writeField1 = ["func(oprot thrift.TProtocol) (err error)", "if err := oprot.WriteFieldBegin(\"metricType\", thrift.I32, 1); err != nil { return thrift.PrependError(fmt.Sprintf(\"%T write field begin error 1:metricType: \", p), err) }", "if err := oprot.WriteI32(int32(p.MetricType)); err != nil { return thrift.PrependError(fmt.Sprintf(\"%T.metricType (1) field write error: \", p), err) }", "if err := oprot.WriteFieldEnd(); err != nil { return thrift.PrependError(fmt.Sprintf(\"%T write field end error 1:metricType: \", p), err) }", "return err"] := rfl

theorem m3v2_MetricValue_writeField2_unchanged : Facts.m3v2_MetricValue_writeField2 = ["func(oprot thrift.TProtocol) (err error)", "if err := oprot.WriteFieldBegin(\"count\", thrift.I64, 2); err != nil { return thrift.PrependError(fmt.Sprintf(\"%T write field begin error 2:count: \", p), err) }", "if err := oprot.WriteI64(int64(p.Count)); err != nil { return thrift.PrependError(fmt.Sprintf(\"%T.count (2) field write error: \", p), err) }", "if err := oprot.WriteFieldEnd(); err != nil { return thrift.PrependError(fmt.Sprintf(\"%T write field end error 2:count: \", p), err) }", "return err"] := rfl

theorem m3v2_MetricValue_writeField3_unchanged : Facts.m3v2_MetricValue_writeField3 = ["func(oprot thrift.TProtocol) (err error)", "if err := oprot.WriteFieldBegin(\"gauge\", thrift.DOUBLE, 3); err != nil { return thrift.PrependError(fmt.Sprintf(\"%T write field begin error 3:gauge: \", p), err) }", "if err := oprot.WriteDouble(float64(p.Gauge)); err != nil { return thrift.PrependError(fmt.Sprintf(\"%T.gauge (3) field write error: \", p), err) }", "if err := oprot.WriteFieldEnd(); err != nil { return thrift.PrependError(fmt.Sprintf(\"%T write field end error 3:gauge: \", p), err) }", "return err"] := rfl

theorem m3v2_MetricValue_writeField4_unchanged : Facts.m3v2_MetricValue_writeField4 = ["func(oprot thrift.TProtocol) (err error)", "if err := oprot.WriteFieldBegin(\"timer\", thrift.I64, 4); err != nil { return thrift.PrependError(fmt.Sprintf(\"%T write field begin error 4:timer: \", p), err) }", "if err := oprot.WriteI64(int64(p.Timer)); err != nil { return thrift.PrependError(fmt.Sprintf(\"%T.timer (4) field write error: \", p), err) }", "if err := oprot.WriteFieldEnd(); err != nil { return thrift.PrependError(fmt.Sprintf(\"%T write field end error 4:timer: \", p), err) }", "return err"] := rfl

theorem m3v2_MetricTag_Write_unchanged : Facts.m3v2_MetricTag_Write = ["func(oprot thrift.TProtocol) error", "if err := oprot.WriteStructBegin(\"MetricTag\"); err != nil { return thrift.PrependError(fmt.Sprintf(\"%T write struct begin error: \", p), err) }", "if err := p.writeField1(oprot); err != nil { return err }", "if err := p.writeField2(oprot); err != nil { return err }", "if err := oprot.WriteFieldStop(); err != nil { return thrift.PrependError(\"write field stop error: \", err) }", "if err := oprot.WriteStructEnd(); err != nil { return thrift.PrependError(\"write struct stop error: \", err) }", "return nil"] := rfl

theorem m3v2_MetricTag_writeField1_unchanged : Facts.m3v2_MetricTag_writeField1 = ["func(oprot thrift.TProtocol) (err error)", "if err := oprot.WriteFieldBegin(\"name\", thrift.STRING, 1); err != nil { return thrift.PrependError(fmt.Sprintf(\"%T write field begin error 1:name: \", p), err) }", "if err := oprot.WriteString(string(p.Name)); err != nil { return thrift.PrependError(fmt.Sprintf(\"%T.name (1) field write error: \", p), err) }", "if err := oprot.WriteFieldEnd(); err != nil { return thrift.PrependError(fmt.Sprintf(\"%T write field end error 1:name: \", p), err) }", "return err"] := rfl

theorem m3v2_MetricTag_writeField2_unchanged : Facts.m3v2_MetricTag_writeField2 = ["func(oprot thrift.TProtocol) (err error)", "if err := oprot.WriteFieldBegin(\"value\", thrift.STRING, 2); err != nil { return thrift.PrependError(fmt.Sprintf(\"%T write field begin error 2:value: \", p), err) }", "if err := oprot.WriteString(string(p.Value)); err != nil { return thrift.PrependError(fmt.Sprintf(\"%T.value (2) field write error: \", p), err) }", "if err := oprot.WriteFieldEnd(); err != nil { return thrift.PrependError(fmt.Sprintf(\"%T write field end error 2:value: \", p), err) }", "return err"] := rfl

theorem m3v2_Metric_Write_unchanged : Facts.m3v2_Metric_Write = ["func(oprot thrift.TProtocol) error", "if err := oprot.WriteStructBegin(\"Metric\"); err != nil { return thrift.PrependError(fmt.Sprintf(\"%T write struct begin error: \", p), err) }", "if err := p.writeField1(oprot); err != nil { return err }", "if err := p.writeField2(oprot); err != nil { return err }", "if err := p.writeField3(oprot); err != nil { return err }", "if err := p.writeField4(oprot); err != nil { return err }", "if err := oprot.WriteFieldStop(); err != nil { return thrift.PrependError(\"write field stop error: \", err) }", "if err := oprot.WriteStructEnd(); err != nil { return thrift.PrependError(\"write struct stop error: \", err) }", "return nil"] := rfl

theorem m3v2_Metric_writeField1_unchanged : Facts.m3v2_Metric_writeField1 = ["func(oprot thrift.TProtocol) (err error)", "if err := oprot.WriteFieldBegin(\"name\", thrift.STRING, 1); err != nil { return thrift.PrependError(fmt.Sprintf(\"%T write field begin error 1:name: \", p), err) }", "if err := oprot.WriteString(string(p.Name)); err != nil { return thrift.PrependError(fmt.Sprintf(\"%T.name (1) field write error: \", p), err) }", "if err := oprot.WriteFieldEnd(); err != nil { return thrift.PrependError(fmt.Sprintf(\"%T write field end error 1:name: \", p), err) }", "return err"] := rfl

theorem m3v2_Metric_writeField2_unchanged : Facts.m3v2_Metric_writeField2 = ["func(oprot thrift.TProtocol) (err error)", "if err := oprot.WriteFieldBegin(\"value\", thrift.STRUCT, 2); err != nil { return thrift.PrependError(fmt.Sprintf(\"%T write field begin error 2:value: \", p), err) }", "if err := p.Value.Write(oprot); err != nil { return thrift.PrependError(fmt.Sprintf(\"%T error writing struct: \", p.Value), err) }", "if err := oprot.WriteFieldEnd(); err != nil { return thrift.PrependError(fmt.Sprintf(\"%T write field end error 2:value: \", p), err) }", "return err"] := rfl

theorem m3v2_Metric_writeField3_unchanged : Facts.m3v2_Metric_writeField3 = ["func(oprot thrift.TProtocol) (err error)", "if err := oprot.WriteFieldBegin(\"timestamp\", thrift.I64, 3); err != nil { return thrift.PrependError(fmt.Sprintf(\"%T write field begin error 3:timestamp: \", p), err) }", "if err := oprot.WriteI64(int64(p.Timestamp)); err != nil { return thrift.PrependError(fmt.Sprintf(\"%T.timestamp (3) field write error: \", p), err) }", "if err := oprot.WriteFieldEnd(); err != nil { return thrift.PrependError(fmt.Sprintf(\"%T write field end error 3:timestamp: \", p), err) }", "return err"] := rfl

theorem m3v2_Metric_writeField4_unchanged : Facts.m3v2_Metric_writeField4 = ["func(oprot thrift.TProtocol) (err error)", "if p.IsSetTags() { if err := oprot.WriteFieldBegin(\"tags\", thrift.LIST, 4); err != nil { return thrift.PrependError(fmt.Sprintf(\"%T write field begin error 4:tags: \", p), err) } if err := oprot.WriteListBegin(thrift.STRUCT, len(p.Tags)); err != nil { return thrift.PrependError(\"error writing list begin: \", err) } for _, v := range p.Tags { if err := v.Write(oprot); err != nil { return thrift.PrependError(fmt.Sprintf(\"%T error writing struct: \", v), err) } } if err := oprot.WriteListEnd(); err != nil { return thrift.PrependError(\"error writing list end: \", err) } if err := oprot.WriteFieldEnd(); err != nil { return thrift.PrependError(fmt.Sprintf(\"%T write field end error 4:tags: \", p), err) } }", "return err"] := rfl

theorem m3v2_MetricBatch_Write_unchanged : Facts.m3v2_MetricBatch_Write = ["func(oprot thrift.TProtocol) error", "if err := oprot.WriteStructBegin(\"MetricBatch\"); err != nil { return thrift.PrependError(fmt.Sprintf(\"%T write struct begin error: \", p), err) }", "if err := p.writeField1(oprot); err != nil { return err }", "if err := p.writeField2(oprot); err != nil { return err }", "if err := oprot.WriteFieldStop(); err != nil { return thrift.PrependError(\"write field stop error: \", err) }", "if err := oprot.WriteStructEnd(); err != nil { return thrift.PrependError(\"write struct stop error: \", err) }", "return nil"] := rfl

theorem m3v2_MetricBatch_writeField1_unchanged : Facts.m3v2_MetricBatch_writeField1 = ["func(oprot thrift.TProtocol) (err error)", "if err := oprot.WriteFieldBegin(\"metrics\", thrift.LIST, 1); err != nil { return thrift.PrependError(fmt.Sprintf(\"%T write field begin error 1:metrics: \", p), err) }", "if err := oprot.WriteListBegin(thrift.STRUCT, len(p.Metrics)); err != nil { return thrift.PrependError(\"error writing list begin: \", err) }", "for _, v := range p.Metrics", "| if err := v.Write(oprot); err != nil { return thrift.PrependError(fmt.Sprintf(\"%T error writing struct: \", v), err) }", "if err := oprot.WriteListEnd(); err != nil { return thrift.PrependError(\"error writing list end: \", err) }", "if err := oprot.WriteFieldEnd(); err != nil { return thrift.PrependError(fmt.Sprintf(\"%T write field end error 1:metrics: \", p), err) }", "return err"] := rfl

theorem m3v2_MetricBatch_writeField2_unchanged : Facts.m3v2_MetricBatch_writeField2 = ["func(oprot thrift.TProtocol) (err error)", "if p.IsSetCommonTags() { if err := oprot.WriteFieldBegin(\"commonTags\", thrift.LIST, 2); err != nil { return thrift.PrependError(fmt.Sprintf(\"%T write field begin error 2:commonTags: \", p), err) } if err := oprot.WriteListBegin(thrift.STRUCT, len(p.CommonTags)); err != nil { return thrift.PrependError(\"error writing list begin: \", err) } for _, v := range p.CommonTags { if err := v.Write(oprot); err != nil { return thrift.PrependError(fmt.Sprintf(\"%T error writing struct: \", v), err) } } if err := oprot.WriteListEnd(); err != nil { return thrift.PrependError(\"error writing list end: \", err) } if err := oprot.WriteFieldEnd(); err != nil { return thrift.PrependError(fmt.Sprintf(\"%T write field end error 2:commonTags: \", p), err) } }", "return err"] := rfl

theorem m3v2_M3EmitMetricBatchV2Args_Write_unchanged : Facts.m3v2_M3EmitMetricBatchV2Args_Write = ["func(oprot thrift.TProtocol) error", "if err := oprot.WriteStructBegin(\"emitMetricBatchV2_args\"); err != nil { return thrift.PrependError(fmt.Sprintf(\"%T write struct begin error: \", p), err) }", "if err := p.writeField1(oprot); err != nil { return err }", "if err := oprot.WriteFieldStop(); err != nil { return thrift.PrependError(\"write field stop error: \", err) }", "if err := oprot.WriteStructEnd(); err != nil { return thrift.PrependError(\"write struct stop error: \", err) }", "return nil"] := rfl

theorem m3v2_M3EmitMetricBatchV2Args_writeField1_unchanged : Facts.m3v2_M3EmitMetricBatchV2Args_writeField1 = ["func(oprot thrift.TProtocol) (err error)", "if err := oprot.WriteFieldBegin(\"batch\", thrift.STRUCT, 1); err != nil { return thrift.PrependError(fmt.Sprintf(\"%T write field begin error 1:batch: \", p), err) }", "if err := p.Batch.Write(oprot); err != nil { return thrift.PrependError(fmt.Sprintf(\"%T error writing struct: \", p.Batch), err) }", "if err := oprot.WriteFieldEnd(); err != nil { return thrift.PrependError(fmt.Sprintf(\"%T write field end error 1:batch: \", p), err) }", "return err"] := rfl

theorem calcTransport_Close_unchanged : Facts.calcTransport_Close = ["func() error", "return nil"] := rfl

theorem calcTransport_Flush_unchanged : Facts.calcTransport_Flush = ["func() error", "return nil"] := rfl

theorem calcTransport_GetCount_unchanged : Facts.calcTransport_GetCount = ["func() int32", "return p.count"] := rfl

theorem calcTransport_IsOpen_unchanged : Facts.calcTransport_IsOpen = ["func() bool", "return true"] := rfl

theorem calcTransport_Open_unchanged : Facts.calcTransport_Open = ["func() error", "return nil"] := rfl

theorem calcTransport_Read_unchanged : Facts.calcTransport_Read = ["func(buf []byte) (int, error)", "return 0, nil"] := rfl

theorem calcTransport_ReadByte_unchanged : Facts.calcTransport_ReadByte = ["func() (byte, error)", "return 0, nil"] := rfl

theorem calcTransport_RemainingBytes_unchanged : Facts.calcTransport_RemainingBytes = ["func() uint64", "const maxSize = ^uint64(0)", "return maxSize"] := rfl

theorem calcTransport_ResetCount_unchanged : Facts.calcTransport_ResetCount = ["func()", "p.count = 0"] := rfl

theorem calcTransport_Write_unchanged : Facts.calcTransport_Write = ["func(buf []byte) (int, error)", "p.count += int32(len(buf))", "return len(buf), nil"] := rfl

theorem calcTransport_WriteByte_unchanged : Facts.calcTransport_WriteByte = ["func(byte) error", "p.count++", "return nil"] := rfl

theorem calcTransport_WriteString_unchanged : Facts.calcTransport_WriteString = ["func(s string) (int, error)", "p.count += int32(len(s))", "return len(s), nil"] := rfl

theorem m3v2_MetricValue_Read_unchanged : Facts.m3v2_MetricValue_Read = ["func(iprot thrift.TProtocol) error", "if _, err := iprot.ReadStructBegin(); err != nil { return thrift.PrependError(fmt.Sprintf(\"%T read error: \", p), err) }", "var issetMetricType bool = false", "var issetCount bool = false", "var issetGauge bool = false", "var issetTimer bool = false", "for { _, fieldTypeId, fieldId, err := iprot.ReadFieldBegin() if err != nil { return thrift.PrependError(fmt.Sprintf(\"%T field %d read error: \", p, fieldId), err) } if fieldTypeId == thrift.STOP { break } switch fieldId { case 1: if err := p.readField1(iprot); err != nil { return err } issetMetricType = true case 2: if err := p.readField2(iprot); err != nil { return err } issetCount = true case 3: if err := p.readField3(iprot); err != nil { return err } issetGauge = true case 4: if err := p.readField4(iprot); err != nil { return err } issetTimer = true default: if err := iprot.Skip(fieldTypeId); err != nil { return err } } if err := iprot.ReadFieldEnd(); err != nil { return err } }", "if err := iprot.ReadStructEnd(); err != nil { return thrift.PrependError(fmt.Sprintf(\"%T read struct end error: \", p), err) }", "if !issetMetricType { return thrift.NewTProtocolExceptionWithType(thrift.INVALID_DATA, fmt.Errorf(\"Required field MetricType is not set\")) }", "if !issetCount { return thrift.NewTProtocolExceptionWithType(thrift.INVALID_DATA, fmt.Errorf(\"Required field Count is not set\")) }", "if !issetGauge { return thrift.NewTProtocolExceptionWithType(thrift.INVALID_DATA, fmt.Errorf(\"Required field Gauge is not set\")) }", "if !issetTimer { return thrift.NewTProtocolExceptionWithType(thrift.INVALID_DATA, fmt.Errorf(\"Required field Timer is not set\")) }", "return nil"] := rfl

theorem m3v2_MetricValue_readField1_unchanged : Facts.m3v2_MetricValue_readField1 = ["func(iprot thrift.TProtocol) error", "if v, err := iprot.ReadI32(); err != nil { return thrift.PrependError(\"error reading field 1: \", err) } else { temp := MetricType(v) p.MetricType = temp }", "return nil"] := rfl

theorem m3v2_MetricValue_readField2_unchanged : Facts.m3v2_MetricValue_readField2 = ["func(iprot thrift.TProtocol) error", "if v, err := iprot.ReadI64(); err != nil { return thrift.PrependError(\"error reading field 2: \", err) } else { p.Count = v }", "return nil"] := rfl

theorem m3v2_MetricValue_readField3_unchanged : Facts.m3v2_MetricValue_readField3 = ["func(iprot thrift.TProtocol) error", "if v, err := iprot.ReadDouble(); err != nil { return thrift.PrependError(\"error reading field 3: \", err) } else { p.Gauge = v }", "return nil"] := rfl

theorem m3v2_MetricValue_readField4_unchanged : Facts.m3v2_MetricValue_readField4 = ["func(iprot thrift.TProtocol) error", "if v, err := iprot.ReadI64(); err != nil { return thrift.PrependError(\"error reading field 4: \", err) } else { p.Timer = v }", "return nil"] := rfl

theorem m3v2_MetricTag_Read_unchanged : Facts.m3v2_MetricTag_Read = ["func(iprot thrift.TProtocol) error", "if _, err := iprot.ReadStructBegin(); err != nil { return thrift.PrependError(fmt.Sprintf(\"%T read error: \", p), err) }", "var issetName bool = false", "var issetValue bool = false", "for { _, fieldTypeId, fieldId, err := iprot.ReadFieldBegin() if err != nil { return thrift.PrependError(fmt.Sprintf(\"%T field %d read error: \", p, fieldId), err) } if fieldTypeId == thrift.STOP { break } switch fieldId { case 1: if err := p.readField1(iprot); err != nil { return err } issetName = true case 2: if err := p.readField2(iprot); err != nil { return err } issetValue = true default: if err := iprot.Skip(fieldTypeId); err != nil { return err } } if err := iprot.ReadFieldEnd(); err != nil { return err } }", "if err := iprot.ReadStructEnd(); err != nil { return thrift.PrependError(fmt.Sprintf(\"%T read struct end error: \", p), err) }", "if !issetName { return thrift.NewTProtocolExceptionWithType(thrift.INVALID_DATA, fmt.Errorf(\"Required field Name is not set\")) }", "if !issetValue { return thrift.NewTProtocolExceptionWithType(thrift.INVALID_DATA, fmt.Errorf(\"Required field Value is not set\")) }", "return nil"] := rfl

theorem m3v2_MetricTag_readField1_unchanged : Facts.m3v2_MetricTag_readField1 = ["func(iprot thrift.TProtocol) error", "if v, err := iprot.ReadString(); err != nil { return thrift.PrependError(\"error reading field 1: \", err) } else { p.Name = v }", "return nil"] := rfl

theorem m3v2_MetricTag_readField2_unchanged : Facts.m3v2_MetricTag_readField2 = ["func(iprot thrift.TProtocol) error", "if v, err := iprot.ReadString(); err != nil { return thrift.PrependError(\"error reading field 2: \", err) } else { p.Value = v }", "return nil"] := rfl

theorem m3v2_Metric_Read_unchanged : Facts.m3v2_Metric_Read = ["func(iprot thrift.TProtocol) error", "if _, err := iprot.ReadStructBegin(); err != nil { return thrift.PrependError(fmt.Sprintf(\"%T read error: \", p), err) }", "var issetName bool = false", "var issetValue bool = false", "var issetTimestamp bool = false", "for { _, fieldTypeId, fieldId, err := iprot.ReadFieldBegin() if err != nil { return thrift.PrependError(fmt.Sprintf(\"%T field %d read error: \", p, fieldId), err) } if fieldTypeId == thrift.STOP { break } switch fieldId { case 1: if err := p.readField1(iprot); err != nil { return err } issetName = true case 2: if err := p.readField2(iprot); err != nil { return err } issetValue = true case 3: if err := p.readField3(iprot); err != nil { return err } issetTimestamp = true case 4: if err := p.readField4(iprot); err != nil { return err } default: if err := iprot.Skip(fieldTypeId); err != nil { return err } } if err := iprot.ReadFieldEnd(); err != nil { return err } }", "if err := iprot.ReadStructEnd(); err != nil { return thrift.PrependError(fmt.Sprintf(\"%T read struct end error: \", p), err) }", "if !issetName { return thrift.NewTProtocolExceptionWithType(thrift.INVALID_DATA, fmt.Errorf(\"Required field Name is not set\")) }", "if !issetValue { return thrift.NewTProtocolExceptionWithType(thrift.INVALID_DATA, fmt.Errorf(\"Required field Value is not set\")) }", "if !issetTimestamp { return thrift.NewTProtocolExceptionWithType(thrift.INVALID_DATA, fmt.Errorf(\"Required field Timestamp is not set\")) }", "return nil"] := rfl

theorem m3v2_Metric_readField1_unchanged : Facts.m3v2_Metric_readField1 = ["func(iprot thrift.TProtocol) error", "if v, err := iprot.ReadString(); err != nil { return thrift.PrependError(\"error reading field 1: \", err) } else { p.Name = v }", "return nil"] := rfl

theorem m3v2_Metric_readField2_unchanged : Facts.m3v2_Metric_readField2 = ["func(iprot thrift.TProtocol) error", "p.Value = MetricValue{}", "if err := p.Value.Read(iprot); err != nil { return thrift.PrependError(fmt.Sprintf(\"%T error reading struct: \", p.Value), err) }", "return nil"] := rfl

theorem m3v2_Metric_readField3_unchanged : Facts.m3v2_Metric_readField3 = ["func(iprot thrift.TProtocol) error", "if v, err := iprot.ReadI64(); err != nil { return thrift.PrependError(\"error reading field 3: \", err) } else { p.Timestamp = v }", "return nil"] := rfl

theorem m3v2_Metric_readField4_unchanged : Facts.m3v2_Metric_readField4 = ["func(iprot thrift.TProtocol) error", "_, size, err := iprot.ReadListBegin()", "if err != nil { return thrift.PrependError(\"error reading list begin: \", err) }", "tSlice := make([]MetricTag, 0, size)", "p.Tags = tSlice", "for i := 0; i < size; i++ { _elem0 := MetricTag{} if err := _elem0.Read(iprot); err != nil { return thrift.PrependError(fmt.Sprintf(\"%T error reading struct: \", _elem0), err) } p.Tags = append(p.Tags, _elem0) }", "if err := iprot.ReadListEnd(); err != nil { return thrift.PrependError(\"error reading list end: \", err) }", "return nil"] := rfl

theorem m3v2_MetricBatch_Read_unchanged : Facts.m3v2_MetricBatch_Read = ["func(iprot thrift.TProtocol) error", "if _, err := iprot.ReadStructBegin(); err != nil { return thrift.PrependError(fmt.Sprintf(\"%T read error: \", p), err) }", "var issetMetrics bool = false", "for { _, fieldTypeId, fieldId, err := iprot.ReadFieldBegin() if err != nil { return thrift.PrependError(fmt.Sprintf(\"%T field %d read error: \", p, fieldId), err) } if fieldTypeId == thrift.STOP { break } switch fieldId { case 1: if err := p.readField1(iprot); err != nil { return err } issetMetrics = true case 2: if err := p.readField2(iprot); err != nil { return err } default: if err := iprot.Skip(fieldTypeId); err != nil { return err } } if err := iprot.ReadFieldEnd(); err != nil { return err } }", "if err := iprot.ReadStructEnd(); err != nil { return thrift.PrependError(fmt.Sprintf(\"%T read struct end error: \", p), err) }", "if !issetMetrics { return thrift.NewTProtocolExceptionWithType(thrift.INVALID_DATA, fmt.Errorf(\"Required field Metrics is not set\")) }", "return nil"] := rfl

theorem m3v2_MetricBatch_readField1_unchanged : Facts.m3v2_MetricBatch_readField1 = ["func(iprot thrift.TProtocol) error", "_, size, err := iprot.ReadListBegin()", "if err != nil { return thrift.PrependError(\"error reading list begin: \", err) }", "tSlice := make([]Metric, 0, size)", "p.Metrics = tSlice", "for i := 0; i < size; i++ { _elem1 := Metric{} if err := _elem1.Read(iprot); err != nil { return thrift.PrependError(fmt.Sprintf(\"%T error reading struct: \", _elem1), err) } p.Metrics = append(p.Metrics, _elem1) }", "if err := iprot.ReadListEnd(); err != nil { return thrift.PrependError(\"error reading list end: \", err) }", "return nil"] := rfl

theorem m3v2_MetricBatch_readField2_unchanged : Facts.m3v2_MetricBatch_readField2 = ["func(iprot thrift.TProtocol) error", "_, size, err := iprot.ReadListBegin()", "if err != nil { return thrift.PrependError(\"error reading list begin: \", err) }", "tSlice := make([]MetricTag, 0, size)", "p.CommonTags = tSlice", "for i := 0; i < size; i++ { _elem2 := MetricTag{} if err := _elem2.Read(iprot); err != nil { return thrift.PrependError(fmt.Sprintf(\"%T error reading struct: \", _elem2), err) } p.CommonTags = append(p.CommonTags, _elem2) }", "if err := iprot.ReadListEnd(); err != nil { return thrift.PrependError(\"error reading list end: \", err) }", "return nil"] := rfl

theorem m3v2_M3EmitMetricBatchV2Args_Read_unchanged : Facts.m3v2_M3EmitMetricBatchV2Args_Read = ["func(iprot thrift.TProtocol) error", "if _, err := iprot.ReadStructBegin(); err != nil { return thrift.PrependError(fmt.Sprintf(\"%T read error: \", p), err) }", "for { _, fieldTypeId, fieldId, err := iprot.ReadFieldBegin() if err != nil { return thrift.PrependError(fmt.Sprintf(\"%T field %d read error: \", p, fieldId), err) } if fieldTypeId == thrift.STOP { break } switch fieldId { case 1: if err := p.readField1(iprot); err != nil { return err } default: if err := iprot.Skip(fieldTypeId); err != nil { return err } } if err := iprot.ReadFieldEnd(); err != nil { return err } }", "if err := iprot.ReadStructEnd(); err != nil { return thrift.PrependError(fmt.Sprintf(\"%T read struct end error: \", p), err) }", "return nil"] := rfl

theorem m3v2_M3EmitMetricBatchV2Args_readField1_unchanged : Facts.m3v2_M3EmitMetricBatchV2Args_readField1 = ["func(iprot thrift.TProtocol) error", "p.Batch = MetricBatch{}", "if err := p.Batch.Read(iprot); err != nil { return thrift.PrependError(fmt.Sprintf(\"%T error reading struct: \", p.Batch), err) }", "return nil"] := rfl

theorem m3v2_M3Processor_AddToProcessorMap_unchanged : Facts.m3v2_M3Processor_AddToProcessorMap = ["func(key string, processor thrift.TProcessorFunction)", "p.processorMap[key] = processor"] := rfl

theorem m3v2_M3Processor_GetProcessorFunction_unchanged : Facts.m3v2_M3Processor_GetProcessorFunction = ["func(key string) (processor thrift.TProcessorFunction, ok bool)", "processor, ok = p.processorMap[key]", "return processor, ok"] := rfl

theorem m3v2_M3Processor_Process_unchanged : Facts.m3v2_M3Processor_Process = ["func(iprot, oprot thrift.TProtocol) (success bool, err thrift.TException)", "name, _, seqId, err := iprot.ReadMessageBegin()", "if err != nil { return false, err }", "if processor, ok := p.GetProcessorFunction(name); ok { return processor.Process(seqId, iprot, oprot) }", "iprot.Skip(thrift.STRUCT)", "iprot.ReadMessageEnd()", "x4 := thrift.NewTApplicationException(thrift.UNKNOWN_METHOD, \"Unknown function \"+name)", "oprot.WriteMessageBegin(name, thrift.EXCEPTION, seqId)", "x4.Write(oprot)", "oprot.WriteMessageEnd()", "oprot.Flush()", "return false, x4"] := rfl

theorem m3v2_M3Processor_ProcessorMap_unchanged : Facts.m3v2_M3Processor_ProcessorMap = ["func() map[string]thrift.TProcessorFunction", "return p.processorMap"] := rfl

theorem m3v2_m3ProcessorEmitMetricBatchV2_Process_unchanged : Facts.m3v2_m3ProcessorEmitMetricBatchV2_Process = ["func(seqId int32, iprot, oprot thrift.TProtocol) (success bool, err thrift.TException)", "args := M3EmitMetricBatchV2Args{}", "if err = args.Read(iprot); err != nil { iprot.ReadMessageEnd() return false, err }", "iprot.ReadMessageEnd()", "var err2 error", "if err2 = p.handler.EmitMetricBatchV2(args.Batch); err2 != nil { return true, err2 }", "return true, nil"] := rfl

theorem calcTransport_bufferedRead_Close_unchanged : Facts.calcTransport_bufferedRead_Close = ["func() error", "return nil"] := rfl

theorem calcTransport_bufferedRead_Flush_unchanged : Facts.calcTransport_bufferedRead_Flush = ["func() error", "return nil"] := rfl

theorem calcTransport_bufferedRead_IsOpen_unchanged : Facts.calcTransport_bufferedRead_IsOpen = ["func() bool", "return true"] := rfl

theorem calcTransport_bufferedRead_Open_unchanged : Facts.calcTransport_bufferedRead_Open = ["func() error", "return nil"] := rfl

theorem calcTransport_bufferedRead_Read_unchanged : Facts.calcTransport_bufferedRead_Read = ["func(buf []byte) (int, error)", "in, err := p.readBuf.Read(buf)", "return in, thrift.NewTTransportExceptionFromError(err)"] := rfl

theorem calcTransport_bufferedRead_RemainingBytes_unchanged : Facts.calcTransport_bufferedRead_RemainingBytes = ["func() uint64", "return uint64(p.readBuf.Len())"] := rfl

theorem calcTransport_bufferedRead_Write_unchanged : Facts.calcTransport_bufferedRead_Write = ["func(buf []byte) (int, error)", "p.readBuf = bytes.NewBuffer(buf)", "return len(buf), nil"] := rfl

theorem thriftCompact_ReadBinary_unchanged : Facts.thriftCompact_ReadBinary = ["func() (value []byte, err error)", "length, e := p.readVarint32()", "if e != nil { return nil, NewTProtocolException(e) }", "if length == 0 { return []byte{}, nil }", "if length < 0 { return nil, invalidDataLength }", "if uint64(length) > p.trans.RemainingBytes() { return nil, invalidDataLength }", "buf := make([]byte, length)", "_, e = io.ReadFull(p.trans, buf)", "return buf, NewTProtocolException(e)"] := rfl

theorem thriftCompact_ReadBool_unchanged : Facts.thriftCompact_ReadBool = ["func() (value bool, err error)", "if p.boolValueIsNotNull { p.boolValueIsNotNull = false return p.boolValue, nil }", "v, err := p.readByteDirect()", "return v == COMPACT_BOOLEAN_TRUE, err"] := rfl

theorem thriftCompact_ReadByte_unchanged : Facts.thriftCompact_ReadByte = ["func() (int8, error)", "v, err := p.readByteDirect()", "if err != nil { return 0, NewTProtocolException(err) }", "return int8(v), err"] := rfl

theorem thriftCompact_ReadDouble_unchanged : Facts.thriftCompact_ReadDouble = ["func() (value float64, err error)", "longBits := p.buffer[0:8]", "_, e := io.ReadFull(p.trans, longBits)", "if e != nil { return 0.0, NewTProtocolException(e) }", "return math.Float64frombits(p.bytesToUint64(longBits)), nil"] := rfl

theorem thriftCompact_ReadFieldBegin_unchanged : Facts.thriftCompact_ReadFieldBegin = ["func() (name string, typeId TType, id int16, err error)", "t, err := p.readByteDirect()", "if err != nil { return }", "if (t & 0x0f) == STOP { return \"\", STOP, 0, nil }", "modifier := int16((t & 0xf0) >> 4)", "if modifier == 0 { id, err = p.ReadI16() if err != nil { return } } else { id = int16(p.lastFieldId) + modifier }", "typeId, e := p.getTType(tCompactType(t & 0x0f))", "if e != nil { err = NewTProtocolException(e) return }", "if p.isBoolType(t) { p.boolValue = (byte(t)&0x0f == COMPACT_BOOLEAN_TRUE) p.boolValueIsNotNull = true }", "p.lastFieldId = int(id)", "return"] := rfl

theorem thriftCompact_ReadFieldEnd_unchanged : Facts.thriftCompact_ReadFieldEnd = ["func() error", "return nil"] := rfl

theorem thriftCompact_ReadI16_unchanged : Facts.thriftCompact_ReadI16 = ["func() (value int16, err error)", "v, err := p.ReadI32()", "return int16(v), err"] := rfl

theorem thriftCompact_ReadI32_unchanged : Facts.thriftCompact_ReadI32 = ["func() (value int32, err error)", "v, e := p.readVarint32()", "if e != nil { return 0, NewTProtocolException(e) }", "value = p.zigzagToInt32(v)", "return value, nil"] := rfl

theorem thriftCompact_ReadI64_unchanged : Facts.thriftCompact_ReadI64 = ["func() (value int64, err error)", "v, e := p.readVarint64()", "if e != nil { return 0, NewTProtocolException(e) }", "value = p.zigzagToInt64(v)", "return value, nil"] := rfl

theorem thriftCompact_ReadListBegin_unchanged : Facts.thriftCompact_ReadListBegin = ["func() (elemType TType, size int, err error)", "size_and_type, err := p.readByteDirect()", "if err != nil { return }", "size = int((size_and_type >> 4) & 0x0f)", "if size == 15 { size2, e := p.readVarint32() if e != nil { err = NewTProtocolException(e) return } if size2 < 0 { err = invalidDataLength return } size = int(size2) }", "elemType, e := p.getTType(tCompactType(size_and_type))", "if e != nil { err = NewTProtocolException(e) return }", "return"] := rfl

theorem thriftCompact_ReadListEnd_unchanged : Facts.thriftCompact_ReadListEnd = ["func() error", "return nil"] := rfl

theorem thriftCompact_ReadMapBegin_unchanged : Facts.thriftCompact_ReadMapBegin = ["func() (keyType TType, valueType TType, size int, err error)", "size32, e := p.readVarint32()", "if e != nil { err = NewTProtocolException(e) return }", "if size32 < 0 { err = invalidDataLength return }", "size = int(size32)", "keyAndValueType := byte(STOP)", "if size != 0 { keyAndValueType, err = p.readByteDirect() if err != nil { return } }", "keyType, _ = p.getTType(tCompactType(keyAndValueType >> 4))", "valueType, _ = p.getTType(tCompactType(keyAndValueType & 0xf))", "return"] := rfl

theorem thriftCompact_ReadMapEnd_unchanged : Facts.thriftCompact_ReadMapEnd = ["func() error", "return nil"] := rfl

theorem thriftCompact_ReadMessageBegin_unchanged : Facts.thriftCompact_ReadMessageBegin = ["func() (name string, typeId TMessageType, seqId int32, err error)", "protocolId, err := p.readByteDirect()", "if err != nil { return }", "if protocolId != COMPACT_PROTOCOL_ID { e := fmt.Errorf(\"Expected protocol id %02x but got %02x\", COMPACT_PROTOCOL_ID, protocolId) return \"\", typeId, seqId, NewTProtocolExceptionWithType(BAD_VERSION, e) }", "versionAndType, err := p.readByteDirect()", "if err != nil { return }", "version := versionAndType & COMPACT_VERSION_MASK", "typeId = TMessageType((versionAndType >> COMPACT_TYPE_SHIFT_AMOUNT) & COMPACT_TYPE_BITS)", "if version != COMPACT_VERSION { e := fmt.Errorf(\"Expected version %02x but got %02x\", COMPACT_VERSION, version) err = NewTProtocolExceptionWithType(BAD_VERSION, e) return }", "seqId, e := p.readVarint32()", "if e != nil { err = NewTProtocolException(e) return }", "name, err = p.ReadString()", "return"] := rfl

theorem thriftCompact_ReadMessageEnd_unchanged : Facts.thriftCompact_ReadMessageEnd = ["func() error", "return nil"] := rfl

theorem thriftCompact_ReadSetBegin_unchanged : Facts.thriftCompact_ReadSetBegin = ["func() (elemType TType, size int, err error)", "return p.ReadListBegin()"] := rfl

theorem thriftCompact_ReadSetEnd_unchanged : Facts.thriftCompact_ReadSetEnd = ["func() error", "return nil"] := rfl

theorem thriftCompact_ReadString_unchanged : Facts.thriftCompact_ReadString = ["func() (value string, err error)", "length, e := p.readVarint32()", "if e != nil { return \"\", NewTProtocolException(e) }", "if length < 0 { return \"\", invalidDataLength }", "if uint64(length) > p.trans.RemainingBytes() { return \"\", invalidDataLength }", "if length == 0 { return \"\", nil }", "var buf []byte", "if length <= int32(len(p.buffer)) { buf = p.buffer[0:length] } else { buf = make([]byte, length) }", "_, e = io.ReadFull(p.trans, buf)", "return string(buf), NewTProtocolException(e)"] := rfl

theorem thriftCompact_ReadStructBegin_unchanged : Facts.thriftCompact_ReadStructBegin = ["func() (name string, err error)", "p.lastField = append(p.lastField, p.lastFieldId)", "p.lastFieldId = 0", "return"] := rfl

theorem thriftCompact_ReadStructEnd_unchanged : Facts.thriftCompact_ReadStructEnd = ["func() error", "p.lastFieldId = p.lastField[len(p.lastField)-1]", "p.lastField = p.lastField[:len(p.lastField)-1]", "return nil"] := rfl

theorem thriftCompact_readByteDirect_unchanged : Facts.thriftCompact_readByteDirect = ["func() (byte, error)", "return p.trans.ReadByte()"] := rfl

theorem thriftCompact_readVarint32_unchanged : Facts.thriftCompact_readVarint32 = ["func() (int32, error)", "v, err := p.readVarint64()", "return int32(v), err"] := rfl

theorem thriftCompact_readVarint64_unchanged : Facts.thriftCompact_readVarint64 = ["func() (int64, error)", "shift := uint(0)", "result := int64(0)", "for { b, err := p.readByteDirect() if err != nil { return 0, err } result |= int64(b&0x7f) << shift if (b & 0x80) != 0x80 { break } shift += 7 }", "return result, nil"] := rfl

theorem thriftBinary_ReadBinary_unchanged : Facts.thriftBinary_ReadBinary = ["func() ([]byte, error)", "size, e := p.ReadI32()", "if e != nil { return nil, e }", "if size < 0 { return nil, invalidDataLength }", "if uint64(size) > p.trans.RemainingBytes() { return nil, invalidDataLength }", "isize := int(size)", "buf := make([]byte, isize)", "_, err := io.ReadFull(p.trans, buf)", "return buf, NewTProtocolException(err)"] := rfl

theorem thriftBinary_ReadBool_unchanged : Facts.thriftBinary_ReadBool = ["func() (bool, error)", "b, e := p.ReadByte()", "v := true", "if b != 1 { v = false }", "return v, e"] := rfl

theorem thriftBinary_ReadByte_unchanged : Facts.thriftBinary_ReadByte = ["func() (int8, error)", "v, err := p.trans.ReadByte()", "return int8(v), err"] := rfl

theorem thriftBinary_ReadDouble_unchanged : Facts.thriftBinary_ReadDouble = ["func() (value float64, err error)", "buf := p.buffer[0:8]", "err = p.readAll(buf)", "value = math.Float64frombits(binary.BigEndian.Uint64(buf))", "return value, err"] := rfl

theorem thriftBinary_ReadFieldBegin_unchanged : Facts.thriftBinary_ReadFieldBegin = ["func() (name string, typeId TType, seqId int16, err error)", "t, err := p.ReadByte()", "typeId = TType(t)", "if err != nil { return name, typeId, seqId, err }", "if t != STOP { seqId, err = p.ReadI16() }", "return name, typeId, seqId, err"] := rfl

theorem thriftBinary_ReadFieldEnd_unchanged : Facts.thriftBinary_ReadFieldEnd = ["func() error", "return nil"] := rfl

theorem thriftBinary_ReadI16_unchanged : Facts.thriftBinary_ReadI16 = ["func() (value int16, err error)", "buf := p.buffer[0:2]", "err = p.readAll(buf)", "value = int16(binary.BigEndian.Uint16(buf))", "return value, err"] := rfl

theorem thriftBinary_ReadI32_unchanged : Facts.thriftBinary_ReadI32 = ["func() (value int32, err error)", "buf := p.buffer[0:4]", "err = p.readAll(buf)", "value = int32(binary.BigEndian.Uint32(buf))", "return value, err"] := rfl

theorem thriftBinary_ReadI64_unchanged : Facts.thriftBinary_ReadI64 = ["func() (value int64, err error)", "buf := p.buffer[0:8]", "err = p.readAll(buf)", "value = int64(binary.BigEndian.Uint64(buf))", "return value, err"] := rfl

theorem thriftBinary_ReadListBegin_unchanged : Facts.thriftBinary_ReadListBegin = ["func() (elemType TType, size int, err error)", "b, e := p.ReadByte()", "if e != nil { err = NewTProtocolException(e) return }", "elemType = TType(b)", "size32, e := p.ReadI32()", "if e != nil { err = NewTProtocolException(e) return }", "if size32 < 0 { err = invalidDataLength return }", "size = int(size32)", "return"] := rfl

theorem thriftBinary_ReadListEnd_unchanged : Facts.thriftBinary_ReadListEnd = ["func() error", "return nil"] := rfl

theorem thriftBinary_ReadMapBegin_unchanged : Facts.thriftBinary_ReadMapBegin = ["func() (kType, vType TType, size int, err error)", "k, e := p.ReadByte()", "if e != nil { err = NewTProtocolException(e) return }", "kType = TType(k)", "v, e := p.ReadByte()", "if e != nil { err = NewTProtocolException(e) return }", "vType = TType(v)", "size32, e := p.ReadI32()", "if e != nil { err = NewTProtocolException(e) return }", "if size32 < 0 { err = invalidDataLength return }", "size = int(size32)", "return kType, vType, size, nil"] := rfl

theorem thriftBinary_ReadMapEnd_unchanged : Facts.thriftBinary_ReadMapEnd = ["func() error", "return nil"] := rfl

theorem thriftBinary_ReadMessageBegin_unchanged : Facts.thriftBinary_ReadMessageBegin = ["func() (name string, typeId TMessageType, seqId int32, err error)", "size, e := p.ReadI32()", "if e != nil { return \"\", typeId, 0, NewTProtocolException(e) }", "if size < 0 { typeId = TMessageType(size & 0x0ff) version := int64(int64(size) & VERSION_MASK) if version != VERSION_1 { return name, typeId, seqId, NewTProtocolExceptionWithType(BAD_VERSION, fmt.Errorf(\"Bad version in ReadMessageBegin\")) } name, e = p.ReadString() if e != nil { return name, typeId, seqId, NewTProtocolException(e) } seqId, e = p.ReadI32() if e != nil { return name, typeId, seqId, NewTProtocolException(e) } return name, typeId, seqId, nil }", "if p.strictRead { return name, typeId, seqId, NewTProtocolExceptionWithType(BAD_VERSION, fmt.Errorf(\"Missing version in ReadMessageBegin\")) }", "name, e2 := p.readStringBody(size)", "if e2 != nil { return name, typeId, seqId, e2 }", "b, e3 := p.ReadByte()", "if e3 != nil { return name, typeId, seqId, e3 }", "typeId = TMessageType(b)", "seqId, e4 := p.ReadI32()", "if e4 != nil { return name, typeId, seqId, e4 }", "return name, typeId, seqId, nil"] := rfl

theorem thriftBinary_ReadMessageEnd_unchanged : Facts.thriftBinary_ReadMessageEnd = ["func() error", "return nil"] := rfl

theorem thriftBinary_ReadSetBegin_unchanged : Facts.thriftBinary_ReadSetBegin = ["func() (elemType TType, size int, err error)", "b, e := p.ReadByte()", "if e != nil { err = NewTProtocolException(e) return }", "elemType = TType(b)", "size32, e := p.ReadI32()", "if e != nil { err = NewTProtocolException(e) return }", "if size32 < 0 { err = invalidDataLength return }", "size = int(size32)", "return elemType, size, nil"] := rfl

theorem thriftBinary_ReadSetEnd_unchanged : Facts.thriftBinary_ReadSetEnd = ["func() error", "return nil"] := rfl

theorem thriftBinary_ReadString_unchanged : Facts.thriftBinary_ReadString = ["func() (value string, err error)", "size, e := p.ReadI32()", "if e != nil { return \"\", e }", "if size < 0 { err = invalidDataLength return }", "return p.readStringBody(size)"] := rfl

theorem thriftBinary_ReadStructBegin_unchanged : Facts.thriftBinary_ReadStructBegin = ["func() (name string, err error)", "return"] := rfl

theorem thriftBinary_ReadStructEnd_unchanged : Facts.thriftBinary_ReadStructEnd = ["func() error", "return nil"] := rfl

theorem thriftBinary_readAll_unchanged : Facts.thriftBinary_readAll = ["func(buf []byte) error", "_, err := io.ReadFull(p.reader, buf)", "return NewTProtocolException(err)"] := rfl

theorem thriftBinary_readStringBody_unchanged : Facts.thriftBinary_readStringBody = ["func(size int32) (value string, err error)", "if size < 0 { return \"\", nil }", "if uint64(size) > p.trans.RemainingBytes() { return \"\", invalidDataLength }", "var ( buf bytes.Buffer e error b []byte )", "switch { case int(size) <= len(p.buffer): b = p.buffer[:size] case int(size) < readLimit: b = make([]byte, size) default: b = make([]byte, readLimit) }", "for size > 0 { _, e = io.ReadFull(p.trans, b) buf.Write(b) if e != nil { break } size -= readLimit if size < readLimit && size > 0 { b = b[:size] } }", "return buf.String(), NewTProtocolException(e)"] := rfl

theorem body_m3__NewReporter_unchanged : Facts.body_m3__NewReporter = ["func(opts Options) (Reporter, error)", "if opts.MaxQueueSize <= 0 { opts.MaxQueueSize = DefaultMaxQueueSize }", "if opts.MaxPacketSizeBytes <= 0 { opts.MaxPacketSizeBytes = DefaultMaxPacketSize }", "if opts.HistogramBucketIDName == \"\" { opts.HistogramBucketIDName = DefaultHistogramBucketIDName }", "if opts.HistogramBucketName == \"\" { opts.HistogramBucketName = DefaultHistogramBucketName }", "if opts.HistogramBucketTagPrecision == 0 { opts.HistogramBucketTagPrecision = DefaultHistogramBucketTagPrecision }", "var trans thrift.TTransport", "var err error", "if len(opts.HostPorts) == 0 { err = errNoHostPorts } else if len(opts.HostPorts) == 1 { trans, err = thriftudp.NewTUDPClientTransport(opts.HostPorts[0], \"\") } else { trans, err = thriftudp.NewTMultiUDPClientTransport(opts.HostPorts, \"\") }", "if err != nil { return nil, err }", "var protocolFactory thrift.TProtocolFactory", "if opts.Protocol == Compact { protocolFactory = thrift.NewTCompactProtocolFactory() } else { protocolFactory = thrift.NewTBinaryProtocolFactoryDefault() }", "var ( client = m3thrift.NewM3ClientFactory(trans, protocolFactory) resourcePool = newResourcePool(protocolFactory) tagm = make(map[string]string) tags = resourcePool.getMetricTagSlice() )", "for k, v := range opts.CommonTags", "| tagm[k] = v", "if opts.CommonTags[ServiceTag] == \"\" { if opts.Service == \"\" { return nil, fmt.Errorf(\"%s common tag is required\", ServiceTag) } tagm[ServiceTag] = opts.Service }", "if opts.CommonTags[EnvTag] == \"\" { if opts.Env == \"\" { return nil, fmt.Errorf(\"%s common tag is required\", EnvTag) } tagm[EnvTag] = opts.Env }", "if opts.IncludeHost { if opts.CommonTags[HostTag] == \"\" { hostname, err := os.Hostname() if err != nil { return nil, errors.WithMessage(err, \"error resolving host tag\") } tagm[HostTag] = hostname } }", "for k, v := range tagm", "| tags = append(tags, m3thrift.MetricTag{ Name: k, Value: v, })", "var ( batch = m3thrift.MetricBatch{ Metrics: resourcePool.getMetricSlice(), CommonTags: tags, } proto = resourcePool.getProto() )", "if err := batch.Write(proto); err != nil { return nil, errors.WithMessage( err, \"failed to write to proto for size calculation\", ) }", "resourcePool.releaseMetricSlice(batch.Metrics)", "var ( calc = proto.Transport().(*customtransport.TCalcTransport) numOverheadBytes = _emitMetricBatchOverhead + calc.GetCount() freeBytes = opts.MaxPacketSizeBytes - numOverheadBytes )", "calc.ResetCount()", "if freeBytes <= 0 { return nil, errCommonTagSize }", "buckets := tally.ValueBuckets(append( []float64{0.0}, tally.MustMakeExponentialValueBuckets(2.0, 2.0, 11)..., ))", "r := &reporter{ buckets: tally.BucketPairs(buckets), bucketIDTagName: opts.HistogramBucketIDName, bucketTagName: opts.HistogramBucketName, bucketValFmt: \"%.\" + strconv.Itoa(int(opts.HistogramBucketTagPrecision)) + \"f\", calc: calc, calcProto: proto, client: client, commonTags: tags, donech: make(chan struct{}), freeBytes: freeBytes, metCh: make(chan sizedMetric, opts.MaxQueueSize), overheadBytes: numOverheadBytes, resourcePool: resourcePool, stringInterner: cache.NewStringInterner(), tagCache: cache.NewTagCache(), }", "internalTags := map[string]string{ \"version\": tally.Version, \"host\": tally.DefaultTagRedactValue, \"instance\": tally.DefaultTagRedactValue, }", "for k, v := range opts.InternalTags", "| internalTags[k] = v", "r.now.Store(time.Now().UnixNano())", "r.batchSizeHistogram = r.AllocateHistogram(\"tally.internal.batch-size\", internalTags, buckets)", "r.numBatchesCounter = r.AllocateCounter(\"tally.internal.num-batches\", internalTags)", "r.numMetricsCounter = r.AllocateCounter(\"tally.internal.num-metrics\", internalTags)", "r.numWriteErrorsCounter = r.AllocateCounter(\"tally.internal.num-write-errors\", internalTags)", "r.numTagCacheCounter = r.AllocateCounter(\"tally.internal.num-tag-cache\", internalTags)", "r.wg.Add(1)", "go func() { defer r.wg.Done() r.process() }()", "r.wg.Add(1)", "go func() { defer r.wg.Done() r.timeLoop() }()", "return r, nil"] := rfl

theorem body_m3__newResourcePool_unchanged : Facts.body_m3__newResourcePool = ["func(protoFac thrift.TProtocolFactory) *resourcePool", "metricSlicePool := tally.NewObjectPool(batchPoolSize)", "metricSlicePool.Init(func() interface{} { return make([]m3thrift.Metric, 0, batchPoolSize) })", "metricTagSlicePool := tally.NewObjectPool(DefaultMaxQueueSize)", "metricTagSlicePool.Init(func() interface{} { return make([]m3thrift.MetricTag, 0, batchPoolSize) })", "protoPool := tally.NewObjectPool(protoPoolSize)", "protoPool.Init(func() interface{} { return protoFac.GetProtocol(&customtransport.TCalcTransport{}) })", "return &resourcePool{ metricSlicePool: metricSlicePool, metricTagSlicePool: metricTagSlicePool, protoPool: protoPool, }"] := rfl

theorem body_m3_reporter_calculateBucketSize_unchanged : Facts.body_m3_reporter_calculateBucketSize = ["func(b cachedHistogramBucket) int32", "m := b.metric.metric", "tags := make([]m3thrift.MetricTag, 0, len(m.Tags)+2)", "tags = append(tags, m.Tags...)", "m.Tags = append( tags, m3thrift.MetricTag{Name: r.bucketIDTagName, Value: b.bucketID}, m3thrift.MetricTag{Name: r.bucketTagName, Value: b.bucket}, )", "return r.calculateSize(m)"] := rfl

theorem body_m3_reporter_calculateSize_unchanged : Facts.body_m3_reporter_calculateSize = ["func(m m3thrift.Metric) int32", "r.calcLock.Lock()", "m.Write(r.calcProto)", "size := r.calc.GetCount()", "r.calc.ResetCount()", "r.calcLock.Unlock()", "return size"] := rfl

theorem body_m3_resourcePool_getProto_unchanged : Facts.body_m3_resourcePool_getProto = ["func() thrift.TProtocol", "o := r.protoPool.Get()", "return o.(thrift.TProtocol)"] := rfl

end Tally.Tie.C16Frozen
