import Tally.Generated.Facts
/-! Tie for C14: what `Tally.M3Life` assumes about m3/reporter.go, re-checked against the current source.

* program order of a report call (`next` on `.prod _`): `pending.Inc` · deferred `pending.Dec` · hook · `done.Load`
  (return when set) · hook · build · `select { metCh <- sm | <-donech }`
* program order of Flush (`next` on `.f…`): same enter protocol, then `reportInternalMetrics` (five report calls:
  the model parameter `nInternal`, passed as 5 by the harness) and a **plain blocking** `metCh <- marker`
* program order of Close (`next` on `.c…`): CAS (lost → `return errAlreadyClosed`) · hook · spin on `pending.Load() > 0`
  · hook · `close(donech)` · hook · `close(metCh)` · hook · `wg.Wait()` · `return nil`
* the workers: `process` ranges over `metCh` (exits when closed and drained) and `timeLoop` leaves on `done` or `donech`;
  both are registered with the wait group that Close waits for
* the queue capacity is positive (`MaxQueueSize <= 0` is replaced by the default)
The hook positions are part of the facts: the lock-step harness relies on a hook between any two atomic operations
of the enter protocol and of Close. -/
namespace Tally.Tie.C14
open Tally

theorem report_ops : Facts.m3ReportCopyMetricOps =
    ["r.pending.Inc()", "defer r.pending.Dec()", "r.done.Load()", "r.now.Load()", "send r.metCh", "recv r.donech"] := rfl

theorem flush_ops : Facts.m3FlushOps =
    ["r.pending.Inc()", "defer r.pending.Dec()", "r.done.Load()", "r.reportInternalMetrics()", "send r.metCh"] := rfl

theorem close_ops : Facts.m3CloseOps =
    ["r.done.CAS(false, true)", "r.pending.Load()", "close(r.donech)", "close(r.metCh)", "r.wg.Wait()"] := rfl

theorem report_body : Facts.m3LifeReportBody =
    ["r.pending.Inc()", "defer r.pending.Dec()", "verifhook.Yield(\"m3.report.post-inc\")",
     "if r.done.Load() { return }", "verifhook.Yield(\"m3.report.post-done-check\")", "m.Timestamp = r.now.Load()",
     "sm := sizedMetric{ m: m, size: size, set: true, bucket: bucket, bucketID: bucketID, }",
     "select { case r.metCh <- sm: case <-r.donech: }"] := rfl

theorem flush_body : Facts.m3LifeFlushBody =
    ["r.pending.Inc()", "defer r.pending.Dec()", "verifhook.Yield(\"m3.flush.post-inc\")",
     "if r.done.Load() { return }", "verifhook.Yield(\"m3.flush.post-done-check\")",
     "r.reportInternalMetrics()", "r.metCh <- sizedMetric{}"] := rfl

theorem close_body : Facts.m3LifeCloseBody =
    ["if !r.done.CAS(false, true) { return errAlreadyClosed }", "verifhook.Yield(\"m3.close.post-cas\")",
     "for r.pending.Load() > 0 { runtime.Gosched() }", "verifhook.Yield(\"m3.close.post-spin\")",
     "close(r.donech)", "verifhook.Yield(\"m3.close.post-donech\")",
     "close(r.metCh)", "verifhook.Yield(\"m3.close.post-metch\")", "r.wg.Wait()", "return nil"] := rfl

theorem already_closed_error : Facts.m3LifeErrAlreadyClosed = "errors.New(\"reporter already closed\")" := rfl

/-- `reportInternalMetrics` makes exactly five report calls (after three atomic swaps) -/
theorem internal_metrics_calls : Facts.m3LifeInternalMetricsOps =
    ["r.numBatches.Swap(0)", "r.numMetrics.Swap(0)", "r.numWriteErrors.Swap(0)",
     "r.batchSizeHistogram.ValueBucket(0, value).ReportSamples(1)", "r.numBatchesCounter.ReportCount(batches)",
     "r.numMetricsCounter.ReportCount(metrics)", "r.numWriteErrorsCounter.ReportCount(writeErrors)",
     "r.numTagCacheCounter.ReportCount(int64(r.tagCache.Len()))"] := rfl

theorem internal_metrics_five : (Facts.m3LifeInternalMetricsOps.drop 3).length = 5 := rfl

/-- every cached handle reaches the queue only through `reportCopyMetric` -/
theorem cached_reports_go_through_reportCopyMetric :
    Facts.m3LifeCachedReportCount.getLast? = some "c.reporter.reportCopyMetric(c.metric, c.size, \"\", \"\")"
    ∧ Facts.m3LifeCachedReportGauge.getLast? = some "c.reporter.reportCopyMetric(c.metric, c.size, \"\", \"\")"
    ∧ Facts.m3LifeCachedReportTimer.getLast? = some "c.reporter.reportCopyMetric(c.metric, c.size, \"\", \"\")" :=
  ⟨rfl, rfl, rfl⟩

theorem time_loop_body : Facts.m3LifeTimeLoopBody =
    ["t := time.NewTicker(_timeResolution)", "defer t.Stop()",
     "for !r.done.Load() { r.now.Store(time.Now().UnixNano()) select { case <-t.C: case <-r.donech: return } }"] := rfl

/-- the batching goroutine is a `range` over the queue, followed by the final flush -/
theorem process_ranges_over_queue :
    Facts.m3LifeProcessShape[2]? = some "for smet, _ := range r.metCh"
    ∧ Facts.m3LifeProcessShape.getLast? = some "r.flush(mets)" := ⟨rfl, rfl⟩

/-- both workers are registered with the wait group Close waits for, and deregister when they return -/
theorem workers_in_wait_group : Facts.m3LifeNewReporterOps =
    ["r.now.Store(time.Now().UnixNano())", "r.wg.Add(1)", "defer r.wg.Done()", "r.process()", "r.wg.Add(1)",
     "defer r.wg.Done()", "r.timeLoop()"] := rfl

/-- capacity ≥ 1: a non-positive `MaxQueueSize` is replaced by the default before the channel is made -/
theorem queue_capacity_positive :
    Facts.m3LifeNewReporterComparisons.head? = some "opts.MaxQueueSize <= 0"
    ∧ Facts.m3LifeNewReporterMakes = ["make(chan struct{})", "make(chan sizedMetric, opts.MaxQueueSize)"]
    ∧ Facts.defaultMaxQueueSize = some 4096 := ⟨rfl, rfl, rfl⟩

end Tally.Tie.C14
