import Tally.Generated.Facts
/-! Tie for C02: order of the two stores of `Update` (value first, flag second); both report variants take
the gauge's report mutex first and release it only on return (so the visits of one gauge are mutually
exclusive, which `Model.Gauge.step (.swap t)` relies on), then swap, then read the value as the argument of
the reporter call; re-checked against the current source. -/
namespace Tally.Tie.C02
open Tally

theorem update_stores_value_then_flag :
    Facts.gaugeUpdateOps = ["atomic.StoreUint64(&g.curr, math.Float64bits(v))", "atomic.StoreUint64(&g.updated, 1)"] := rfl
theorem value_is_one_load : Facts.gaugeValueOps = ["atomic.LoadUint64(&g.curr)"] := rfl
theorem report_swaps_then_loads :
    Facts.gaugeReportOps = ["g.reportMu.Lock()", "defer g.reportMu.Unlock()", "atomic.SwapUint64(&g.updated, 0)",
      "r.ReportGauge(name, tags, g.value())", "g.value()"] := rfl
theorem cached_report_swaps_then_loads :
    Facts.gaugeCachedReportOps = ["g.reportMu.Lock()", "defer g.reportMu.Unlock()", "atomic.SwapUint64(&g.updated, 0)",
      "g.cachedGauge.ReportGauge(g.value())", "g.value()"] := rfl
theorem report_only_when_swap_returned_one :
    Facts.gaugeReportGuards = ["atomic.SwapUint64(&g.updated, 0) == 1"] := rfl

end Tally.Tie.C02
