import Tally.Generated.Facts
/-! Tie for C08: the order of operations of the root's `Close` (CAS; a call that loses it receives from
`s.closeDone`, i.e. waits for the winning call to return — repair D17; the winner: close(done), the deferred
`close(s.closeDone)` (runs as the winning call returns, after the reporter's Close), wait for the loop
goroutine, final pass, purge, Flush, reporter close — the flush comes AFTER the purge since repair D14), of the
loop's closed check and of a periodic report-and-flush,
re-checked against the current source. -/
namespace Tally.Tie.C08
open Tally

theorem close_order :
    Facts.scopeCloseOps = ["s.closed.CAS(false, true)", "recv s.closeDone", "close(s.done)", "defer close(s.closeDone)",
      "s.wg.Wait()", "s.registry.Report(s.reporter)", "s.registry.CachedReport()", "s.registry.purge()",
      "s.baseReporter.Flush()", "closer.Close()"] := rfl
theorem close_guards : Facts.scopeCloseGuards = ["!s.closed.CAS(false, true)", "s.root"] := rfl
theorem loop_checks_closed_first : Facts.reportLoopRunOps = ["s.closed.Load()", "s.reportRegistry()"] := rfl
theorem report_then_flush :
    Facts.reportRegistryOps = ["s.registry.Report(s.reporter)", "s.reporter.Flush()", "s.registry.CachedReport()",
      "s.cachedReporter.Flush()"] := rfl
theorem pass_does_not_purge : Facts.registryReportOps.all (fun o => o != "defer r.purgeIfRootClosed()") = true := by decide
theorem purge_shape :
    Facts.registryPurgeOps = ["subscopeBucket.mu.Lock()", "s.Close()", "s.clearMetrics()", "delete(subscopeBucket.s, k)",
      "subscopeBucket.mu.Unlock()"] := rfl

end Tally.Tie.C08
