import Tally.Generated.Facts
import Tally.Model.KeyGen
/-! Tie for C05: the delimiter bytes, the escape set, the de-duplication test and the comparison of
`insertionSort`, as the key model (`Tally.KeyGen`) assumes them, re-checked against the current
source.  The model's byte constants are compared with the extracted ones. -/
namespace Tally.Tie.C05
open Tally Tally.KeyGen

theorem prefix_splitter : Facts.prefixSplitter = some plus.toNat := rfl
theorem pair_splitter : Facts.keyPairSplitter = some comma.toNat := rfl
theorem name_splitter : Facts.keyNameSplitter = some eqSign.toNat := rfl
theorem escape_byte : Facts.keyEscape = some bslash.toNat := rfl
theorem escaped_set : Facts.appendKeyEscapedCases = ["prefixSplitter, keyPairSplitter, keyNameSplitter, keyEscape"] := rfl
theorem writer_comparisons : Facts.keyWriterComparisons = ["prefix != nilString", "k == lastKey", "j >= 0"] := rfl
theorem writer_escapes_prefix_key_value :
    Facts.keyWriterCalls = ["make(3)", "append(2)", "insertionSort(1)", "appendKeyEscaped(2)", "append(2)", "append(2)",
      "appendKeyEscaped(2)", "append(2)", "len(1)", "appendKeyEscaped(2)"] := rfl
theorem sort_comparisons : Facts.insertionSortComparisons = ["i < n", "j > 0", "keys[j] < keys[j-1]"] := rfl

end Tally.Tie.C05
