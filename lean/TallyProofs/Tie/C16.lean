import Tally.Generated.Facts
/-! Tie for C16: the thrift encoders are tied by the byte-for-byte differential; the one constant the
size reasoning shares with the transport is re-checked here. -/
namespace Tally.Tie.C16
open Tally

theorem udp_max_length : Facts.udpMaxLength = some 65000 := rfl

end Tally.Tie.C16
