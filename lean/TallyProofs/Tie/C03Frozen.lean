import Tally.Generated.Facts
/-! Frozen bodies for C03 (generated once by tools/gen_tie_frozen.py from the source the model was written
against; re-proved against the facts regenerated from /repo on every run). -/
namespace Tally.Tie.C03Frozen
open Tally

theorem body_tally__BucketPairs_unchanged : Facts.body_tally__BucketPairs = ["func(buckets Buckets) []BucketPair", "htype := valueHistogramType", "if _, ok := buckets.(DurationBuckets); ok { htype = durationHistogramType }", "if buckets == nil || buckets.Len() < 1 { return []BucketPair{_singleBucket} }", "var ( values []float64 durations []time.Duration pairs = make([]BucketPair, 0, buckets.Len()+2) pair bucketPair )", "switch htype { case durationHistogramType: durations = copyAndSortDurations(buckets.AsDurations()) pair.lowerBoundDuration = _singleBucket.lowerBoundDuration pair.upperBoundDuration = durations[0] case valueHistogramType: values = copyAndSortValues(buckets.AsValues()) pair.lowerBoundValue = _singleBucket.lowerBoundValue pair.upperBoundValue = values[0] default: panic(\"unsupported histogram type\") }", "pairs = append(pairs, pair)", "for i := 1; i < buckets.Len(); i++ { pairs = append( pairs, newBucketPair(htype, durations, values, i, pairs[i-1]), ) }", "switch htype { case durationHistogramType: pair.lowerBoundDuration = pairs[len(pairs)-1].UpperBoundDuration() pair.upperBoundDuration = _singleBucket.upperBoundDuration case valueHistogramType: pair.lowerBoundValue = pairs[len(pairs)-1].UpperBoundValue() pair.upperBoundValue = _singleBucket.upperBoundValue }", "pairs = append(pairs, pair)", "return pairs"] := rfl

theorem body_tally__bucketsEqual_unchanged : Facts.body_tally__bucketsEqual = ["func(x Buckets, y Buckets) bool", "switch b1 := x.(type) { case DurationBuckets: b2, ok := y.(DurationBuckets) if !ok { return false } if len(b1) != len(b2) { return false } for i := 0; i < len(b1); i++ { if b1[i] != b2[i] { return false } } case ValueBuckets: b2, ok := y.(ValueBuckets) if !ok { return false } if len(b1) != len(b2) { return false } for i := 0; i < len(b1); i++ { if b1[i] != b2[i] { return false } } }", "return true"] := rfl

theorem body_tally__copyAndSortDurations_unchanged : Facts.body_tally__copyAndSortDurations = ["func(durations []time.Duration) []time.Duration", "durationsCopy := make([]time.Duration, len(durations))", "copy(durationsCopy, durations)", "sort.Sort(DurationBuckets(durationsCopy))", "return durationsCopy"] := rfl

theorem body_tally__copyAndSortValues_unchanged : Facts.body_tally__copyAndSortValues = ["func(values []float64) []float64", "valuesCopy := make([]float64, len(values))", "copy(valuesCopy, values)", "sort.Sort(ValueBuckets(valuesCopy))", "return valuesCopy"] := rfl

theorem body_tally__durationLowerBound_unchanged : Facts.body_tally__durationLowerBound = ["func(buckets []histogramBucket, i int) time.Duration", "if i <= 0 { return time.Duration(math.MinInt64) }", "return buckets[i-1].durationUpperBound"] := rfl

theorem body_tally__getBucketsIdentity_unchanged : Facts.body_tally__getBucketsIdentity = ["func(buckets Buckets) uint64", "switch b := buckets.(type) { case DurationBuckets: return identity.Durations(b.AsDurations()) case ValueBuckets: return identity.Float64s(b.AsValues()) default: panic(fmt.Sprintf(\"unexpected bucket type: %T\", b)) }"] := rfl

theorem body_tally__newBucketPair_unchanged : Facts.body_tally__newBucketPair = ["func( htype histogramType, durations []time.Duration, values []float64, upperBoundIndex int, prev BucketPair, ) bucketPair", "var pair bucketPair", "switch htype { case durationHistogramType: pair = bucketPair{ lowerBoundDuration: prev.UpperBoundDuration(), upperBoundDuration: durations[upperBoundIndex], } case valueHistogramType: pair = bucketPair{ lowerBoundValue: prev.UpperBoundValue(), upperBoundValue: values[upperBoundIndex], } default: }", "return pair"] := rfl

theorem body_tally__newBucketStorage_unchanged : Facts.body_tally__newBucketStorage = ["func( htype histogramType, buckets Buckets, ) bucketStorage", "switch b := buckets.(type) { case DurationBuckets: buckets = append(DurationBuckets(nil), b...) case ValueBuckets: buckets = append(ValueBuckets(nil), b...) }", "var ( pairs = BucketPairs(buckets) storage = bucketStorage{ buckets: buckets, hbuckets: make([]histogramBucket, 0, len(pairs)), } )", "for _, pair := range pairs", "| storage.hbuckets = append(storage.hbuckets, histogramBucket{ valueUpperBound: pair.UpperBoundValue(), durationUpperBound: pair.UpperBoundDuration(), })", "return storage"] := rfl

theorem body_tally__newHistogram_unchanged : Facts.body_tally__newHistogram = ["func( htype histogramType, name string, tags map[string]string, reporter StatsReporter, storage bucketStorage, cachedHistogram CachedHistogram, ) *histogram", "h := &histogram{ htype: htype, name: name, tags: tags, reporter: reporter, specification: storage.buckets, buckets: storage.hbuckets, samples: make([]sampleCounter, len(storage.hbuckets)), }", "for i, _ := range h.samples", "| h.samples[i].counter = newCounter(nil)", "| if cachedHistogram != nil { switch htype { case durationHistogramType: h.samples[i].cachedBucket = cachedHistogram.DurationBucket( durationLowerBound(storage.hbuckets, i), storage.hbuckets[i].durationUpperBound, ) case valueHistogramType: h.samples[i].cachedBucket = cachedHistogram.ValueBucket( valueLowerBound(storage.hbuckets, i), storage.hbuckets[i].valueUpperBound, ) } }", "return h"] := rfl

theorem body_tally__valueLowerBound_unchanged : Facts.body_tally__valueLowerBound = ["func(buckets []histogramBucket, i int) float64", "if i <= 0 { return -math.MaxFloat64 }", "return buckets[i-1].valueUpperBound"] := rfl

theorem body_tally_DurationBuckets_AsDurations_unchanged : Facts.body_tally_DurationBuckets_AsDurations = ["func() []time.Duration", "return v"] := rfl

theorem body_tally_DurationBuckets_AsValues_unchanged : Facts.body_tally_DurationBuckets_AsValues = ["func() []float64", "values := make([]float64, len(v))", "for i, _ := range values", "| values[i] = float64(v[i]) / float64(time.Second)", "return values"] := rfl

theorem body_tally_DurationBuckets_Len_unchanged : Facts.body_tally_DurationBuckets_Len = ["func() int", "return len(v)"] := rfl

theorem body_tally_DurationBuckets_Less_unchanged : Facts.body_tally_DurationBuckets_Less = ["func(i, j int) bool", "return v[i] < v[j]"] := rfl

theorem body_tally_DurationBuckets_Swap_unchanged : Facts.body_tally_DurationBuckets_Swap = ["func(i, j int)", "v[i], v[j] = v[j], v[i]"] := rfl

theorem body_tally_ValueBuckets_AsDurations_unchanged : Facts.body_tally_ValueBuckets_AsDurations = ["func() []time.Duration", "values := make([]time.Duration, len(v))", "for i, _ := range values", "| values[i] = time.Duration(v[i] * float64(time.Second))", "return values"] := rfl

theorem body_tally_ValueBuckets_AsValues_unchanged : Facts.body_tally_ValueBuckets_AsValues = ["func() []float64", "return v"] := rfl

theorem body_tally_ValueBuckets_Len_unchanged : Facts.body_tally_ValueBuckets_Len = ["func() int", "return len(v)"] := rfl

theorem body_tally_ValueBuckets_Less_unchanged : Facts.body_tally_ValueBuckets_Less = ["func(i, j int) bool", "return v[i] < v[j]"] := rfl

theorem body_tally_ValueBuckets_Swap_unchanged : Facts.body_tally_ValueBuckets_Swap = ["func(i, j int)", "v[i], v[j] = v[j], v[i]"] := rfl

theorem body_tally_bucketCache_Get_unchanged : Facts.body_tally_bucketCache_Get = ["func( htype histogramType, buckets Buckets, ) bucketStorage", "id := getBucketsIdentity(buckets)", "c.mtx.RLock()", "storage, ok := c.cache[id]", "if !ok { c.mtx.RUnlock() c.mtx.Lock() storage = newBucketStorage(htype, buckets) c.cache[id] = storage c.mtx.Unlock() } else { c.mtx.RUnlock() if !bucketsEqual(buckets, storage.buckets) { storage = newBucketStorage(htype, buckets) } }", "return storage"] := rfl

theorem body_tally_bucketPair_LowerBoundDuration_unchanged : Facts.body_tally_bucketPair_LowerBoundDuration = ["func() time.Duration", "return p.lowerBoundDuration"] := rfl

theorem body_tally_bucketPair_LowerBoundValue_unchanged : Facts.body_tally_bucketPair_LowerBoundValue = ["func() float64", "return p.lowerBoundValue"] := rfl

theorem body_tally_bucketPair_UpperBoundDuration_unchanged : Facts.body_tally_bucketPair_UpperBoundDuration = ["func() time.Duration", "return p.upperBoundDuration"] := rfl

theorem body_tally_bucketPair_UpperBoundValue_unchanged : Facts.body_tally_bucketPair_UpperBoundValue = ["func() float64", "return p.upperBoundValue"] := rfl

theorem body_tally_histogram_RecordDuration_unchanged : Facts.body_tally_histogram_RecordDuration = ["func(value time.Duration)", "if h.htype != durationHistogramType { return }", "idx := sort.Search(len(h.buckets), func(i int) bool { return h.buckets[i].durationUpperBound >= value })", "h.samples[idx].counter.Inc(1)"] := rfl

theorem body_tally_histogram_RecordStopwatch_unchanged : Facts.body_tally_histogram_RecordStopwatch = ["func(stopwatchStart time.Time)", "d := globalNow().Sub(stopwatchStart)", "h.RecordDuration(d)"] := rfl

theorem body_tally_histogram_RecordValue_unchanged : Facts.body_tally_histogram_RecordValue = ["func(value float64)", "if h.htype != valueHistogramType { return }", "idx := sort.Search(len(h.buckets), func(i int) bool { return h.buckets[i].valueUpperBound >= value })", "if idx >= len(h.samples) { idx = len(h.samples) - 1 }", "h.samples[idx].counter.Inc(1)"] := rfl

theorem body_tally_scope_Histogram_unchanged : Facts.body_tally_scope_Histogram = ["func(name string, b Buckets) Histogram", "name = s.sanitizer.Name(name)", "if h, ok := s.histogram(name); ok { return h }", "if b == nil { b = s.defaultBuckets }", "htype := valueHistogramType", "if _, ok := b.(DurationBuckets); ok { htype = durationHistogramType }", "verifhook.Yield(\"scope.histogram.pre-lock\")", "s.hm.Lock()", "defer s.hm.Unlock()", "if h, ok := s.histograms[name]; ok { return h }", "var cachedHistogram CachedHistogram", "if s.cachedReporter != nil { cachedHistogram = s.cachedReporter.AllocateHistogram( s.fullyQualifiedName(name), s.tags, b, ) }", "h := newHistogram( htype, s.fullyQualifiedName(name), s.tags, s.reporter, s.bucketCache.Get(htype, b), cachedHistogram, )", "s.histograms[name] = h", "s.histogramsSlice = append(s.histogramsSlice, h)", "return h"] := rfl

theorem body_tally_scope_histogram_unchanged : Facts.body_tally_scope_histogram = ["func(sanitizedName string) (Histogram, bool)", "s.hm.RLock()", "defer s.hm.RUnlock()", "h, ok := s.histograms[sanitizedName]", "return h, ok"] := rfl

end Tally.Tie.C03Frozen
