import Tally.Generated.Facts
/-! Frozen bodies for C01 (generated once by tools/gen_tie_frozen.py from the source the model was written
against; re-proved against the facts regenerated from /repo on every run). -/
namespace Tally.Tie.C01Frozen
open Tally

theorem body_tally__newCounter_unchanged : Facts.body_tally__newCounter = ["func(cachedCount CachedCount) *counter", "return &counter{cachedCount: cachedCount}"] := rfl

theorem body_tally_counter_Inc_unchanged : Facts.body_tally_counter_Inc = ["func(v int64)", "atomic.AddInt64(&c.curr, v)"] := rfl

theorem body_tally_counter_cachedReport_unchanged : Facts.body_tally_counter_cachedReport = ["func()", "delta := c.value()", "if delta == 0 { return }", "verifhook.Yield(\"counter.deliver\")", "c.cachedCount.ReportCount(delta)"] := rfl

theorem body_tally_counter_report_unchanged : Facts.body_tally_counter_report = ["func(name string, tags map[string]string, r StatsReporter)", "delta := c.value()", "if delta == 0 { return }", "verifhook.Yield(\"counter.deliver\")", "r.ReportCounter(name, tags, delta)"] := rfl

theorem body_tally_counter_snapshot_unchanged : Facts.body_tally_counter_snapshot = ["func() int64", "return atomic.LoadInt64(&c.curr)"] := rfl

theorem body_tally_counter_value_unchanged : Facts.body_tally_counter_value = ["func() int64", "verifhook.Yield(\"counter.value:0\")", "return atomic.SwapInt64(&c.curr, 0)"] := rfl

theorem body_tally_histogram_cachedReport_unchanged : Facts.body_tally_histogram_cachedReport = ["func()", "for i, _ := range h.buckets", "| samples := h.samples[i].counter.value()", "| if samples == 0 { continue }", "| verifhook.Yield(\"histogram.deliver\")", "| switch h.htype { case valueHistogramType: h.samples[i].cachedBucket.ReportSamples(samples) case durationHistogramType: h.samples[i].cachedBucket.ReportSamples(samples) }"] := rfl

theorem body_tally_histogram_report_unchanged : Facts.body_tally_histogram_report = ["func(name string, tags map[string]string, r StatsReporter)", "for i, _ := range h.buckets", "| samples := h.samples[i].counter.value()", "| if samples == 0 { continue }", "| verifhook.Yield(\"histogram.deliver\")", "| switch h.htype { case valueHistogramType: r.ReportHistogramValueSamples( name, tags, h.specification, valueLowerBound(h.buckets, i), h.buckets[i].valueUpperBound, samples, ) case durationHistogramType: r.ReportHistogramDurationSamples( name, tags, h.specification, durationLowerBound(h.buckets, i), h.buckets[i].durationUpperBound, samples, ) }"] := rfl

theorem body_tally_scope_Counter_unchanged : Facts.body_tally_scope_Counter = ["func(name string) Counter", "name = s.sanitizer.Name(name)", "if c, ok := s.counter(name); ok { return c }", "verifhook.Yield(\"scope.counter.pre-lock\")", "s.cm.Lock()", "defer s.cm.Unlock()", "if c, ok := s.counters[name]; ok { return c }", "var cachedCounter CachedCount", "if s.cachedReporter != nil { cachedCounter = s.cachedReporter.AllocateCounter( s.fullyQualifiedName(name), s.tags, ) }", "c := newCounter(cachedCounter)", "s.counters[name] = c", "s.countersSlice = append(s.countersSlice, c)", "return c"] := rfl

theorem body_tally_scope_cachedReport_unchanged : Facts.body_tally_scope_cachedReport = ["func()", "s.cm.RLock()", "for _, counter := range s.countersSlice", "| counter.cachedReport()", "s.cm.RUnlock()", "s.gm.RLock()", "for _, gauge := range s.gaugesSlice", "| gauge.cachedReport()", "s.gm.RUnlock()", "s.hm.RLock()", "for _, histogram := range s.histogramsSlice", "| histogram.cachedReport()", "s.hm.RUnlock()"] := rfl

theorem body_tally_scope_counter_unchanged : Facts.body_tally_scope_counter = ["func(sanitizedName string) (Counter, bool)", "s.cm.RLock()", "defer s.cm.RUnlock()", "c, ok := s.counters[sanitizedName]", "return c, ok"] := rfl

theorem body_tally_scope_report_unchanged : Facts.body_tally_scope_report = ["func(r StatsReporter)", "s.cm.RLock()", "for name, counter := range s.counters", "| counter.report(s.fullyQualifiedName(name), s.tags, r)", "s.cm.RUnlock()", "s.gm.RLock()", "for name, gauge := range s.gauges", "| gauge.report(s.fullyQualifiedName(name), s.tags, r)", "s.gm.RUnlock()", "s.hm.RLock()", "for name, histogram := range s.histograms", "| histogram.report(s.fullyQualifiedName(name), s.tags, r)", "s.hm.RUnlock()"] := rfl

end Tally.Tie.C01Frozen
