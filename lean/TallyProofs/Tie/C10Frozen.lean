import Tally.Generated.Facts
/-! Frozen bodies for C10 (generated once by tools/gen_tie_frozen.py from the source the model was written
against; re-proved against the facts regenerated from /repo on every run). -/
namespace Tally.Tie.C10Frozen
open Tally

theorem body_tally__NewStopwatch_unchanged : Facts.body_tally__NewStopwatch = ["func(start time.Time, r StopwatchRecorder) Stopwatch", "return Stopwatch{start: start, recorder: r}"] := rfl

theorem body_tally__newTimer_unchanged : Facts.body_tally__newTimer = ["func( name string, tags map[string]string, r StatsReporter, cachedTimer CachedTimer, ) *timer", "t := &timer{ name: name, tags: tags, reporter: r, cachedTimer: cachedTimer, }", "if r == nil { t.reporter = &timerNoReporterSink{timer: t} }", "return t"] := rfl

theorem body_tally_Stopwatch_Stop_unchanged : Facts.body_tally_Stopwatch_Stop = ["func()", "sw.recorder.RecordStopwatch(sw.start)"] := rfl

theorem body_tally_histogram_RecordStopwatch_unchanged : Facts.body_tally_histogram_RecordStopwatch = ["func(stopwatchStart time.Time)", "d := globalNow().Sub(stopwatchStart)", "h.RecordDuration(d)"] := rfl

theorem body_tally_histogram_Start_unchanged : Facts.body_tally_histogram_Start = ["func() Stopwatch", "return NewStopwatch(globalNow(), h)"] := rfl

theorem body_tally_scope_Timer_unchanged : Facts.body_tally_scope_Timer = ["func(name string) Timer", "name = s.sanitizer.Name(name)", "if t, ok := s.timer(name); ok { return t }", "verifhook.Yield(\"scope.timer.pre-lock\")", "s.tm.Lock()", "defer s.tm.Unlock()", "if t, ok := s.timers[name]; ok { return t }", "var cachedTimer CachedTimer", "if s.cachedReporter != nil { cachedTimer = s.cachedReporter.AllocateTimer( s.fullyQualifiedName(name), s.tags, ) }", "t := newTimer( s.fullyQualifiedName(name), s.tags, s.reporter, cachedTimer, )", "s.timers[name] = t", "return t"] := rfl

theorem body_tally_scope_timer_unchanged : Facts.body_tally_scope_timer = ["func(sanitizedName string) (Timer, bool)", "s.tm.RLock()", "defer s.tm.RUnlock()", "t, ok := s.timers[sanitizedName]", "return t, ok"] := rfl

theorem body_tally_timer_Record_unchanged : Facts.body_tally_timer_Record = ["func(interval time.Duration)", "if t.cachedTimer != nil { t.cachedTimer.ReportTimer(interval) } else { t.reporter.ReportTimer(t.name, t.tags, interval) }"] := rfl

theorem body_tally_timer_RecordStopwatch_unchanged : Facts.body_tally_timer_RecordStopwatch = ["func(stopwatchStart time.Time)", "d := globalNow().Sub(stopwatchStart)", "t.Record(d)"] := rfl

theorem body_tally_timer_Start_unchanged : Facts.body_tally_timer_Start = ["func() Stopwatch", "return NewStopwatch(globalNow(), t)"] := rfl

theorem body_tally_timer_snapshot_unchanged : Facts.body_tally_timer_snapshot = ["func() []time.Duration", "t.unreported.RLock()", "snap := make([]time.Duration, len(t.unreported.values))", "copy(snap, t.unreported.values)", "t.unreported.RUnlock()", "return snap"] := rfl

theorem body_tally_timerNoReporterSink_Capabilities_unchanged : Facts.body_tally_timerNoReporterSink_Capabilities = ["func() Capabilities", "return capabilitiesReportingTagging"] := rfl

theorem body_tally_timerNoReporterSink_Flush_unchanged : Facts.body_tally_timerNoReporterSink_Flush = ["func()"] := rfl

theorem body_tally_timerNoReporterSink_ReportCounter_unchanged : Facts.body_tally_timerNoReporterSink_ReportCounter = ["func( name string, tags map[string]string, value int64, )"] := rfl

theorem body_tally_timerNoReporterSink_ReportGauge_unchanged : Facts.body_tally_timerNoReporterSink_ReportGauge = ["func( name string, tags map[string]string, value float64, )"] := rfl

theorem body_tally_timerNoReporterSink_ReportTimer_unchanged : Facts.body_tally_timerNoReporterSink_ReportTimer = ["func( name string, tags map[string]string, interval time.Duration, )", "r.timer.unreported.Lock()", "r.timer.unreported.values = append(r.timer.unreported.values, interval)", "r.timer.unreported.Unlock()"] := rfl

theorem body_instrument__NewCall_unchanged : Facts.body_instrument__NewCall = ["func(scope tally.Scope, name string) Call", "return &call{ err: scope.Tagged(map[string]string{resultType: resultTypeError}).Counter(name), success: scope.Tagged(map[string]string{resultType: resultTypeSuccess}).Counter(name), timing: scope.SubScope(name).Timer(timingSuffix), }"] := rfl

theorem body_instrument_call_Exec_unchanged : Facts.body_instrument_call_Exec = ["func(f ExecFn) error", "sw := c.timing.Start()", "err := f()", "sw.Stop()", "if err != nil { c.err.Inc(1) return err }", "c.success.Inc(1)", "return nil"] := rfl

end Tally.Tie.C10Frozen
