import Tally.Generated.Facts
import Tally.Model.Statsd
/-! Tie for C18: what the StatsD model assumes about `statsd/reporter.go`, re-checked against the
facts extracted from the current source: the defaulting in `NewReporter` (rate compared with the
zero float32, precision with 0, the default constant), the `"%." + N + "f"` bucket format, the single
client call each `Report*` method makes with its arguments, the `"%s.%s-%s"` name format with lower
then upper bound, the two extreme tests of each bound renderer and what they return, and the
capabilities. -/
namespace Tally.Tie.C18
open Tally

theorem default_precision : Facts.statsdDefaultPrecision = some (Statsd.defaultPrecision : Int) := rfl

theorem newReporter_shape : Facts.statsdNewReporter =
    ["var nilSampleRate float32",
     "if opts.SampleRate == nilSampleRate { opts.SampleRate = 1.0 }",
     "if opts.HistogramBucketNamePrecision == 0 { opts.HistogramBucketNamePrecision = DefaultHistogramBucketNamePrecision }",
     "return &cactusStatsReporter{ statter: statsd, sampleRate: opts.SampleRate, bucketFmt: \"%.\" + strconv.Itoa(int(opts.HistogramBucketNamePrecision)) + \"f\", }"] := rfl

theorem reportCounter_call : Facts.statsdReportCounter = ["r.statter.Inc(name, value, r.sampleRate)"] := rfl
theorem reportGauge_call : Facts.statsdReportGauge = ["r.statter.Gauge(name, int64(value), r.sampleRate)"] := rfl
theorem reportTimer_call : Facts.statsdReportTimer = ["r.statter.TimingDuration(name, interval, r.sampleRate)"] := rfl

theorem reportHistogramValueSamples_call : Facts.statsdReportHistogramValueSamples =
    ["r.statter.Inc( fmt.Sprintf(\"%s.%s-%s\", name, r.valueBucketString(bucketLowerBound), r.valueBucketString(bucketUpperBound)), samples, r.sampleRate)"] := rfl

theorem reportHistogramDurationSamples_call : Facts.statsdReportHistogramDurationSamples =
    ["r.statter.Inc( fmt.Sprintf(\"%s.%s-%s\", name, r.durationBucketString(bucketLowerBound), r.durationBucketString(bucketUpperBound)), samples, r.sampleRate)"] := rfl

theorem valueBucketString_shape : Facts.statsdValueBucketString =
    ["if upperBound == math.MaxFloat64 { return \"infinity\" }",
     "if upperBound == -math.MaxFloat64 { return \"-infinity\" }",
     "return fmt.Sprintf(r.bucketFmt, upperBound)"] := rfl

theorem durationBucketString_shape : Facts.statsdDurationBucketString =
    ["if upperBound == time.Duration(math.MaxInt64) { return \"infinity\" }",
     "if upperBound == time.Duration(math.MinInt64) { return \"-infinity\" }",
     "return upperBound.String()"] := rfl

theorem capabilities_self : Facts.statsdCapabilities = ["return r"] := rfl
theorem reporting_true : Facts.statsdReporting = ["return true"] := rfl
theorem tagging_false : Facts.statsdTagging = ["return false"] := rfl

/-- the model's (and the spec's) fixed byte strings are the ASCII of the texts returned in the source -/
theorem infinity_bytes :
    Statsd.sInfinity.map (fun b => Char.ofNat b.toNat) = "infinity".toList
    ∧ Statsd.sNegInfinity.map (fun b => Char.ofNat b.toNat) = "-infinity".toList := by
  decide

/-- `"%s.%s-%s"`: the separators the model puts between name, lower and upper bound -/
theorem separators : Char.ofNat Statsd.bDot.toNat = '.' ∧ Char.ofNat Statsd.bDash.toNat = '-' := by decide

end Tally.Tie.C18
