import Tally.Generated.Facts
/-! Frozen bodies for C08 (generated once by tools/gen_tie_frozen.py from the source the model was written
against; re-proved against the facts regenerated from /repo on every run). -/
namespace Tally.Tie.C08Frozen
open Tally

theorem body_tally__NewRootScope_unchanged : Facts.body_tally__NewRootScope = ["func(opts ScopeOptions, interval time.Duration) (Scope, io.Closer)", "s := newRootScope(opts, interval)", "return s, s"] := rfl

theorem body_tally__NewRootScopeWithDefaultInterval_unchanged : Facts.body_tally__NewRootScopeWithDefaultInterval = ["func(opts ScopeOptions) (Scope, io.Closer)", "return NewRootScope(opts, _defaultReportingInterval)"] := rfl

theorem body_tally__newRootScope_unchanged : Facts.body_tally__newRootScope = ["func(opts ScopeOptions, interval time.Duration) *scope", "sanitizer := NewNoOpSanitizer()", "if o := opts.SanitizeOptions; o != nil { sanitizer = NewSanitizer(*o) }", "if opts.Tags == nil { opts.Tags = make(map[string]string) }", "if opts.Separator == \"\" { opts.Separator = DefaultSeparator }", "var baseReporter BaseStatsReporter", "if opts.Reporter != nil { baseReporter = opts.Reporter } else if opts.CachedReporter != nil { baseReporter = opts.CachedReporter }", "if opts.DefaultBuckets == nil || opts.DefaultBuckets.Len() < 1 { opts.DefaultBuckets = defaultScopeBuckets }", "s := &scope{ baseReporter: baseReporter, bucketCache: newBucketCache(), cachedReporter: opts.CachedReporter, counters: make(map[string]*counter), countersSlice: make([]*counter, 0, _defaultInitialSliceSize), defaultBuckets: opts.DefaultBuckets, done: make(chan struct{}), closeDone: make(chan struct{}), gauges: make(map[string]*gauge), gaugesSlice: make([]*gauge, 0, _defaultInitialSliceSize), histograms: make(map[string]*histogram), histogramsSlice: make([]*histogram, 0, _defaultInitialSliceSize), prefix: sanitizer.Name(opts.Prefix), reporter: opts.Reporter, sanitizer: sanitizer, separator: sanitizer.Name(opts.Separator), timers: make(map[string]*timer), root: true, testScope: opts.testScope, }", "s.tags = s.copyAndSanitizeMap(opts.Tags)", "s.registry = newScopeRegistryWithShardCount(s, opts.registryShardCount, opts.OmitCardinalityMetrics, opts.CardinalityMetricsTags)", "if interval > 0 { s.wg.Add(1) go func() { defer s.wg.Done() s.reportLoop(interval) }() }", "return s"] := rfl

theorem body_tally_scope_Close_unchanged : Facts.body_tally_scope_Close = ["func() error", "if !s.closed.CAS(false, true) { if s.root { verifhook.Yield(\"close.wait-for-winner\") <-s.closeDone } return nil }", "verifhook.Yield(\"close.post-cas\")", "close(s.done)", "verifhook.Yield(\"close.post-done\")", "if s.root { defer close(s.closeDone) s.wg.Wait() if s.reporter != nil { s.registry.Report(s.reporter) } else if s.cachedReporter != nil { s.registry.CachedReport() } if s.baseReporter != nil { s.registry.purge() s.baseReporter.Flush() } verifhook.Yield(\"close.pre-reporter-close\") if closer, ok := s.baseReporter.(io.Closer); ok { return closer.Close() } }", "return nil"] := rfl

theorem body_tally_scope_SubScope_unchanged : Facts.body_tally_scope_SubScope = ["func(prefix string) Scope", "prefix = s.sanitizer.Name(prefix)", "return s.subscope(s.fullyQualifiedName(prefix), nil)"] := rfl

theorem body_tally_scope_Tagged_unchanged : Facts.body_tally_scope_Tagged = ["func(tags map[string]string) Scope", "return s.subscope(s.prefix, tags)"] := rfl

theorem body_tally_scope_reportLoop_unchanged : Facts.body_tally_scope_reportLoop = ["func(interval time.Duration)", "verifhook.Yield(\"loop.start\")", "ticker := time.NewTicker(interval)", "defer ticker.Stop()", "for { select { case <-ticker.C: verifhook.Yield(\"loop.tick\") s.reportLoopRun() case <-s.done: verifhook.Yield(\"loop.exit\") return } }"] := rfl

theorem body_tally_scope_reportLoopRun_unchanged : Facts.body_tally_scope_reportLoopRun = ["func()", "if s.closed.Load() { return }", "verifhook.Yield(\"loop.run.post-closed-check\")", "s.reportRegistry()"] := rfl

theorem body_tally_scope_reportRegistry_unchanged : Facts.body_tally_scope_reportRegistry = ["func()", "if s.reporter != nil { s.registry.Report(s.reporter) s.reporter.Flush() } else if s.cachedReporter != nil { s.registry.CachedReport() s.cachedReporter.Flush() }"] := rfl

theorem body_tally_scope_subscope_unchanged : Facts.body_tally_scope_subscope = ["func(prefix string, tags map[string]string) Scope", "return s.registry.Subscope(s, prefix, tags)"] := rfl

theorem body_tally_scopeRegistry_CachedReport_unchanged : Facts.body_tally_scopeRegistry_CachedReport = ["func()", "verifhook.Yield(\"registry.pass.begin\")", "r.reportInternalMetrics()", "for _, subscopeBucket := range r.subscopes", "| subscopeBucket.mu.RLock()", "| for name, s := range subscopeBucket.s { verifhook.YieldStr(\"registry.visit\", name) closed := s.closed.Load() verifhook.Yield(\"registry.pre-closed-read\") s.cachedReport() if closed { r.removeWithRLock(subscopeBucket, name, s) s.clearMetrics() } }", "| subscopeBucket.mu.RUnlock()"] := rfl

theorem body_tally_scopeRegistry_Report_unchanged : Facts.body_tally_scopeRegistry_Report = ["func(reporter StatsReporter)", "verifhook.Yield(\"registry.pass.begin\")", "r.reportInternalMetrics()", "for _, subscopeBucket := range r.subscopes", "| subscopeBucket.mu.RLock()", "| for name, s := range subscopeBucket.s { verifhook.YieldStr(\"registry.visit\", name) closed := s.closed.Load() verifhook.Yield(\"registry.pre-closed-read\") s.report(reporter) if closed { r.removeWithRLock(subscopeBucket, name, s) s.clearMetrics() } }", "| subscopeBucket.mu.RUnlock()"] := rfl

theorem body_tally_scopeRegistry_purge_unchanged : Facts.body_tally_scopeRegistry_purge = ["func()", "verifhook.Yield(\"registry.purge-check\")", "for _, subscopeBucket := range r.subscopes", "| subscopeBucket.mu.Lock()", "| for k, s := range subscopeBucket.s { if !s.root { _ = s.Close() } s.clearMetrics() delete(subscopeBucket.s, k) }", "| subscopeBucket.mu.Unlock()"] := rfl

end Tally.Tie.C08Frozen
