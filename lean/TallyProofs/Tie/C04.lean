import Tally.Generated.Facts
/-! Tie for C04: the join of prefix and name (`fullyQualifiedName`), the default separator, and that a
report hands the scope's own name/tags to the reporter. -/
namespace Tally.Tie.C04
open Tally

theorem fully_qualified_name :
    Facts.fullyQualifiedNameReturns = ["len(s.prefix) == 0", "return name", "return s.prefix + s.separator + name"] := rfl
theorem default_separator : Facts.defaultSeparator = "." := rfl
theorem counter_report_passes_name_and_tags :
    Facts.counterReportOps = ["c.value()", "r.ReportCounter(name, tags, delta)"] := rfl

end Tally.Tie.C04
