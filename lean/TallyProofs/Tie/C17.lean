import Tally.Generated.Facts
import Tally.Model.Prom
/-! Tie for C17: what the model of the Prometheus reporter assumes about prometheus/reporter.go
(and the two `AsValues` conversions and the histogram's cached report loop), re-checked against the
facts extracted from the current source.

The cache-hit behaviour of `summaryVec` / `histogramVec` is the one place where the model has two
variants: the shape of the source decides which one is the source's (`sourceVariant`); the property
theorems are about `Variant.repaired`, the counter-example theorem about `Variant.legacy`. -/
namespace Tally.Tie.C17
open Tally Tally.Prom

/-- on a cache hit the getters either hand back the entry's field as it is (pinned code: a nil
field of the other flavour comes back with a nil error — `hitResult .legacy`) or check it for nil
and return an error (`hitResult .repaired`); nothing else is understood by the model -/
theorem summaryVec_hit_shape :
    Facts.promSummaryVecHitShape = "returns-field" ∨ Facts.promSummaryVecHitShape = "nil-check-then-error" := by
  first | exact Or.inl rfl | exact Or.inr rfl

theorem histogramVec_hit_shape :
    Facts.promHistogramVecHitShape = "returns-field" ∨ Facts.promHistogramVecHitShape = "nil-check-then-error" := by
  first | exact Or.inl rfl | exact Or.inr rfl

/-- both getters have the same shape (the model has one `Variant` for the two) -/
theorem hit_shapes_agree : Facts.promSummaryVecHitShape = Facts.promHistogramVecHitShape := rfl

/-- `counterVec` / `gaugeVec`: id from `canonicalMetricID`, cache hit returns the cached vector,
otherwise register; an error is returned without caching; success caches under the id -/
theorem counterVec_shape : Facts.promCounterVecStmts =
    ["id := canonicalMetricID(name, tagKeys)", "r.Lock()", "defer r.Unlock()", "if ctr, ok := r.counters[id]; ok",
     "return ctr, nil", "ctr := prom.NewCounterVec( prom.CounterOpts{ Name: name, Help: desc, }, tagKeys, )",
     "if err := r.registerer.Register(ctr); err != nil", "return nil, err", "r.counters[id] = ctr", "return ctr, nil"] := rfl

theorem gaugeVec_shape : Facts.promGaugeVecStmts =
    ["id := canonicalMetricID(name, tagKeys)", "r.Lock()", "defer r.Unlock()", "if g, ok := r.gauges[id]; ok",
     "return g, nil", "g := prom.NewGaugeVec( prom.GaugeOpts{ Name: name, Help: desc, }, tagKeys, )",
     "if err := r.registerer.Register(g); err != nil", "return nil, err", "r.gauges[id] = g", "return g, nil"] := rfl

/-- the help strings are `name + suffix` with exactly the model's suffixes, so the kind takes part
in the client's dimension hash through the help string; a timer's histogram and a histogram share
the suffix (and the `timers` cache) -/
theorem help_suffixes : Facts.promHelpSuffixes =
    [("AllocateCounter:counterVec", helpSuffix .counter), ("AllocateGauge:gaugeVec", helpSuffix .gauge),
     ("AllocateTimer:histogramVec", helpSuffix .histogram), ("AllocateTimer:summaryVec", helpSuffix .summary),
     ("AllocateHistogram:histogramVec", helpSuffix .histogram)] := rfl

/-- the cache id is `KeyForPrefixedStringMap(name, {key ↦ constant})`: a function of the name and
the *set* of tag keys (the model's `MetricKey`; injectivity on delimiter-free input is C05) -/
theorem canonicalMetricID_shape : Facts.promCanonicalMetricIDStmts =
    ["keySet := make(map[string]string, len(tagKeys))", "range tagKeys", "keySet[key] = metricIDKeyValue",
     "return metricID(tally.KeyForPrefixedStringMap(name, keySet))"] := rfl

/-- every `Allocate*`: error → callback, and if it returns, the no-op metric (`finishAlloc`) -/
theorem error_branches :
    [Facts.promErrBranchAllocateCounter, Facts.promErrBranchAllocateGauge, Facts.promErrBranchAllocateTimer,
     Facts.promErrBranchAllocateHistogram] = List.replicate 4 ["r.onRegisterError(err)", "return noopMetric{}"] := rfl

/-- `ReportSamples(n)` observes the bucket's upper bound `n` times (`Val.observeN`) -/
theorem reportSamples_shape : Facts.promReportSamplesStmts =
    ["for i := int64(0); i < value; i++", "b.metric.histogram.Observe(b.upperBound)"] := rfl

/-- the float kept per bucket is the upper bound, for durations divided by `time.Second` by the
same expression as `DurationBuckets.AsValues` and `ReportTimer` use (`HSpec.obs`, `HSpec.promBounds`) -/
theorem valueBucket_shape : Facts.promValueBucketStmts = ["return cachedHistogramBucket{m, bucketUpperBound}"] := rfl
theorem durationBucket_shape : Facts.promDurationBucketStmts =
    ["upperBound := float64(bucketUpperBound) / float64(time.Second)", "return cachedHistogramBucket{m, upperBound}"] := rfl
theorem durationAsValues_shape : Facts.durationBucketsAsValuesStmts =
    ["values := make([]float64, len(v))", "range values", "values[i] = float64(v[i]) / float64(time.Second)", "return values"] := rfl
theorem valueAsValues_shape : Facts.valueBucketsAsValuesStmts = ["return v"] := rfl
theorem reportTimerHistogram_shape : Facts.promReportTimerHistogramStmts =
    ["m.histogram.Observe(float64(interval) / float64(time.Second))"] := rfl
theorem reportTimerSummary_shape : Facts.promReportTimerSummaryStmts =
    ["m.summary.Observe(float64(interval) / float64(time.Second))"] := rfl

/-- counters add the delta as a float, gauges set the value (`Val.add`, `Val.set`) -/
theorem reportCount_shape : Facts.promReportCountStmts = ["m.counter.Add(float64(value))"] := rfl
theorem reportGauge_shape : Facts.promReportGaugeStmts = ["m.gauge.Set(value)"] := rfl

/-- a report pass delivers every non-empty tally bucket through its cached bucket handle
(`localStep … .pass` on a histogram) -/
theorem histogram_cachedReport_shape : Facts.histogramCachedReportStmts =
    ["range h.buckets", "samples := h.samples[i].counter.value()", "if samples == 0", "continue", "switch h.htype",
     "case valueHistogramType", "h.samples[i].cachedBucket.ReportSamples(samples)", "case durationHistogramType",
     "h.samples[i].cachedBucket.ReportSamples(samples)"] := rfl

end Tally.Tie.C17
