import Tally.Generated.Facts
import Tally.Model.M3Report
/-!
Tie for C13: what `Tally.M3` (`M3Report.lean`) assumes about m3/reporter.go and the identity hash,
re-checked against the facts extracted from the current source.

Two facts have a pinned and a repaired form (known findings D7a, D7b — reported by the `c13` suite as
`tag-cache-hash-collision` and `timestamp-zero-before-clock-start`): the tie accepts exactly these two
forms.  The model follows the repaired form.
-/
namespace Tally.Tie.C13
open Tally Tally.M3

/-- `reportCopyMetric`: enter, check `done`, read the clock cell, send (or give up on `donech`)
(model: `enq` stamps `s.cell`; nothing is sent once closed) -/
theorem reportCopyMetric_ops :
    Facts.m3ReportCopyMetricOps
      = ["r.pending.Inc()", "defer r.pending.Dec()", "r.done.Load()", "r.now.Load()", "send r.metCh", "recv r.donech"] := rfl

/-- `Flush`: the internal telemetry, then the marker (model: `Op.flush`) -/
theorem flush_ops :
    Facts.m3FlushOps
      = ["r.pending.Inc()", "defer r.pending.Dec()", "r.done.Load()", "r.reportInternalMetrics()", "send r.metCh"] := rfl

/-- `Close`: mark done, wait for producers inside a call, close the queue, wait for `process` and the
clock thread (model: `Op.close` drains the queue and emits the last batch) -/
theorem close_ops :
    Facts.m3CloseOps
      = ["r.done.CAS(false, true)", "r.pending.Load()", "close(r.donech)", "close(r.metCh)", "r.wg.Wait()"] := rfl

/-- `convertTags`: repaired (`convertTags`: a hit is used only if `tagsMatch`, also for what `Set`
returns) or pinned (`legacyConvertTags`: any hit is used, D7a) -/
theorem convertTags_shape :
    (Facts.m3ConvertTagsCalls
        = ["cache.TagMapKey(tags)", "r.tagCache.Get(key)", "tagsMatch(mtags, tags)",
           "r.resourcePool.getMetricTagSlice()",
           "append(mtags, m3thrift.MetricTag{ Name: r.stringInterner.Intern(k), Value: r.stringInterner.Intern(v), })",
           "r.stringInterner.Intern(k)", "r.stringInterner.Intern(v)", "r.tagCache.Set(key, mtags)",
           "tagsMatch(cached, tags)"] ∧
     Facts.m3ConvertTagsConds = ["ok && tagsMatch(mtags, tags)", "tagsMatch(cached, tags)"] ∧
     Facts.m3TagsMatch
        = ["if len(mtags) != len(tags) { return false }",
           "for _, t := range mtags { if v, ok := tags[t.Name]; !ok || v != t.Value { return false } }",
           "return true"]) ∨
    (Facts.m3ConvertTagsCalls
        = ["cache.TagMapKey(tags)", "r.tagCache.Get(key)", "r.resourcePool.getMetricTagSlice()",
           "append(mtags, m3thrift.MetricTag{ Name: r.stringInterner.Intern(k), Value: r.stringInterner.Intern(v), })",
           "r.stringInterner.Intern(k)", "r.stringInterner.Intern(v)", "r.tagCache.Set(key, mtags)"] ∧
     Facts.m3ConvertTagsConds = ["!ok"] ∧ Facts.m3TagsMatch = []) := by
  first | exact Or.inl ⟨rfl, rfl, rfl⟩ | exact Or.inr ⟨rfl, rfl, rfl⟩

/-- the clock cell: refreshed by `timeLoop`, and initialised by the constructor (model: `init … t0`)
or not at all before `timeLoop` first runs (pinned, `legacyInitCell`, D7b) -/
theorem timeLoop_stores : Facts.m3TimeLoopCalls = ["r.now.Store(time.Now().UnixNano())"] := rfl
theorem constructor_clock :
    Facts.m3NewReporterClockStores = ["r.now.Store(time.Now().UnixNano())"] ∨
    Facts.m3NewReporterClockStores = [] := by
  first | exact Or.inl rfl | exact Or.inr rfl

/-- the tag-map hash is additive over the entries with these constants (so it cannot depend on the
enumeration order, and `{a:"b=c"}` / `{"a=b":"c"}` collide): the theorems hold for every hash, the
constants only justify the colliding inputs of the suite -/
theorem hash_constants : Facts.hashSeed = some 23 ∧ Facts.hashFold = some 31 := ⟨rfl, rfl⟩
theorem hash_shape :
    Facts.identityAddUint64Returns = ["return a + Accumulator(u64*_hashFold)"] ∧
    Facts.identityNewAccumulatorReturns = ["return Accumulator(_hashSeed)"] := ⟨rfl, rfl⟩

/-- bucket id width (model: `idWidth`) -/
theorem bucket_id_min_width : Facts.minMetricBucketIDTagLength = some 4 := rfl

end Tally.Tie.C13
