import Tally.Generated.Facts
/-! Tie for C03: what the model assumes about `RecordValue`, `RecordDuration` and the lower-bound
helpers, re-checked against the facts extracted from the current source. -/
namespace Tally.Tie.C03
open Tally

theorem recordValue_cmp : Facts.recordValueCmp = [">=", "h.buckets[i].valueUpperBound", "value"] := rfl
theorem recordDuration_cmp : Facts.recordDurationCmp = [">=", "h.buckets[i].durationUpperBound", "value"] := rfl
theorem recordValue_guards : Facts.recordValueGuards = ["h.htype != valueHistogramType", "idx >= len(h.samples)"] := rfl
theorem recordDuration_guards : Facts.recordDurationGuards = ["h.htype != durationHistogramType"] := rfl
theorem valueLowerBound_shape :
    Facts.valueLowerBoundReturns = ["i <= 0", "return -math.MaxFloat64", "return buckets[i-1].valueUpperBound"] := rfl
theorem durationLowerBound_shape :
    Facts.durationLowerBoundReturns = ["i <= 0", "return time.Duration(math.MinInt64)", "return buckets[i-1].durationUpperBound"] := rfl
theorem valueBuckets_less : Facts.valueBucketsLess = ["return v[i] < v[j]"] := rfl
theorem durationBuckets_less : Facts.durationBucketsLess = ["return v[i] < v[j]"] := rfl

end Tally.Tie.C03
