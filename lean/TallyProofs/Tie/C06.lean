import Tally.Generated.Facts
import Tally.Model.ScopeCard
/-! Tie for C06: the comparisons of `sanitizeFn` the model mirrors (range test `>=`/`<=`, character
equality, the width-1 decoding-error test of repair D11). -/
namespace Tally.Tie.C06
open Tally

theorem sanitize_comparisons : Facts.sanitizeComparisons =
    ["i < len(c.Ranges)", "ch >= c.Ranges[i][0]", "ch <= c.Ranges[i][1]", "i < len(c.Characters)",
     "c.Characters[i] == ch", "ch == utf8.RuneError", "width <= 1", "buf == nil", "buf == nil", "idx > 0",
     "buf == nil"] := rfl

/-! the library's own cardinality gauges (`Tally.ScopeCard`): names, default tag values and the reporter calls
of `reportInternalMetrics` (the bodies of the registry's constructor and of `reportInternalMetrics` are frozen in
`Tie/C06Frozen.lean`) -/
open Tally.ScopeCard in
theorem card_constants :
    version = asc Facts.tallyVersion ∧ redact = asc Facts.defaultTagRedactValue ∧
    counterCardinalityName = asc Facts.counterCardinalityName ∧
    gaugeCardinalityName = asc Facts.gaugeCardinalityName ∧
    histogramCardinalityName = asc Facts.histogramCardinalityName ∧
    scopeCardinalityName = asc Facts.scopeCardinalityName := by decide

theorem card_reporter_calls : Facts.reportInternalMetricsCalls =
    ["r.root.reporter.ReportGauge(r.sanitizedCounterCardinalityName, r.cardinalityMetricsTags, float64(counters))",
     "r.root.reporter.ReportGauge(r.sanitizedGaugeCardinalityName, r.cardinalityMetricsTags, float64(gauges))",
     "r.root.reporter.ReportGauge(r.sanitizedHistogramCardinalityName, r.cardinalityMetricsTags, float64(histograms))",
     "r.root.reporter.ReportGauge(r.sanitizedScopeCardinalityName, r.cardinalityMetricsTags, float64(scopes))",
     "r.cachedCounterCardinalityGauge.ReportGauge(float64(counters))",
     "r.cachedGaugeCardinalityGauge.ReportGauge(float64(gauges))",
     "r.cachedHistogramCardinalityGauge.ReportGauge(float64(histograms))",
     "r.cachedScopeCardinalityGauge.ReportGauge(float64(scopes))"] := rfl

end Tally.Tie.C06
