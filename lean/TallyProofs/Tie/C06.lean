import Tally.Generated.Facts
/-! Tie for C06: the comparisons of `sanitizeFn` the model mirrors (range test `>=`/`<=`, character
equality, the width-1 decoding-error test of repair D11). -/
namespace Tally.Tie.C06
open Tally

theorem sanitize_comparisons : Facts.sanitizeComparisons =
    ["i < len(c.Ranges)", "ch >= c.Ranges[i][0]", "ch <= c.Ranges[i][1]", "i < len(c.Characters)",
     "c.Characters[i] == ch", "ch == utf8.RuneError", "width <= 1", "buf == nil", "buf == nil", "idx > 0",
     "buf == nil"] := rfl

end Tally.Tie.C06
