import TallyProofs.Lemmas.ScopeLifePurge
/-!
# Control invariant of the combined model `Tally.ScopeLife`

Who is the winner, which phase it is in, what that says about the flags, the loop, the log, and at which kind of pc
each Registry thread of the shard is: the loop thread is inside a pass iff the loop's pc says so, the thread of
`Close` call `c` is inside a pass iff the call's pc says so, application threads are never inside a pass.
-/
namespace Tally.ScopeLife
open Tally.Registry (Token ScopeS Pc pcOf scopeOf lookup isPassPc step_pcOf_ne actor)

variable {san : Nat → Nat}

/-- phase of a `Close` call -/
def ph : CPc → Nat
  | .start => 0
  | .returnedNil => 0
  | .waitWinner => 0
  | .won => 1
  | .doneClosedPc => 2
  | .waited => 3
  | .pass => 4
  | .purgePc => 5
  | .flushPc => 6
  | .reporterClose => 7
  | .returned _ => 8

/-- the winner's pc (`start` while there is no winner) -/
def wpc (s : State) : CPc :=
  match s.winner with
  | none => .start
  | some w => s.closers w

def countRC : List LogEv → Nat
  | [] => 0
  | .reporterClose _ :: l => countRC l + 1
  | _ :: l => countRC l

/-- at which kind of pc every thread of the shard is -/
structure ThreadsOk (loop : LoopPc) (closers : Nat → CPc) (r : Registry.State) : Prop where
  loopThread : (loop = .pass ∧ isPassPc (pcOf r loopTid) = true) ∨ (loop ≠ .pass ∧ pcOf r loopTid = .idle)
  closerThread : ∀ c, (closers c = .pass ∧ isPassPc (pcOf r (closerTid c)) = true)
    ∨ (closers c ≠ .pass ∧ pcOf r (closerTid c) = .idle)
  appThread : ∀ t, isApp t = true → isPassPc (pcOf r t) = false

structure Ctl (s : State) : Prop where
  others : ∀ t, s.winner ≠ some t → s.closers t = .start ∨ s.closers t = .returnedNil ∨ s.closers t = .waitWinner
  wph : ∀ w, s.winner = some w → 1 ≤ ph (s.closers w)
  closed_iff : s.rootClosed = s.winner.isSome
  loopEx : 3 ≤ ph (wpc s) → s.loop = .exited
  purged_iff : s.purged = decide (6 ≤ ph (wpc s))
  threads : ThreadsOk s.loop s.closers s.reg
  logFlush : 7 ≤ ph (wpc s) → ph (wpc s) ≤ 7 → ∃ m rest, s.log = .flush m :: rest
  logRet : ph (wpc s) = 8 → ∃ n m rest,
    s.log = if s.closable then .reporterClose n :: .flush m :: rest else .flush m :: rest
  rc : countRC s.log = if ph (wpc s) = 8 ∧ s.closable = true then 1 else 0
  /-- `closeDone` is closed exactly when the winning call has returned (D17) … -/
  cd_iff : s.closeDone = decide (8 ≤ ph (wpc s))
  /-- … and a call that lost the CAS has returned only after that -/
  nil_cd : ∀ t, s.closers t = .returnedNil → s.closeDone = true

theorem wpc_of_winner {s : State} {w : Nat} (h : s.winner = some w) : wpc s = s.closers w := by
  simp [wpc, h]

theorem Ctl.winner_of {s : State} (h : Ctl s) (t : Nat) (hp : 1 ≤ ph (s.closers t)) : s.winner = some t := by
  cases hw : s.winner with
  | none =>
    rcases h.others t (by rw [hw]; simp) with h1 | h1 | h1 <;> rw [h1] at hp <;> simp [ph] at hp
  | some w =>
    by_cases he : w = t
    · rw [he]
    · rcases h.others t (by rw [hw]; simpa using he) with h1 | h1 | h1 <;> rw [h1] at hp <;> simp [ph] at hp

theorem Ctl.no_winner {s : State} (h : Ctl s) (hc : s.rootClosed = false) : s.winner = none := by
  have := h.closed_iff
  rw [hc] at this
  cases hw : s.winner with
  | none => rfl
  | some w => rw [hw] at this; cases this

theorem closerTid_inj {a b : Nat} (h : closerTid a = closerTid b) : a = b := by
  simp only [closerTid] at h; omega

theorem closerTid_ne_loop (c : Nat) : closerTid c ≠ loopTid := by simp [closerTid, loopTid]

theorem isApp_ne_loop {t : Nat} (h : isApp t = true) : t ≠ loopTid := by
  simp only [isApp, Bool.and_eq_true, decide_eq_true_eq] at h
  simp only [loopTid]; omega

theorem isApp_ne_closer {t : Nat} (h : isApp t = true) (c : Nat) : t ≠ closerTid c := by
  simp only [isApp, Bool.and_eq_true, decide_eq_true_eq] at h
  simp only [closerTid]; omega

theorem not_isApp_loop : isApp loopTid = false := by decide
theorem not_isApp_closer (c : Nat) : isApp (closerTid c) = false := by
  have : ¬ (1000 + c < 1000) := by omega
  simp [isApp, closerTid, this]

theorem ctl_init (san : Nat → Nat) (hl cl : Bool) (er : Option Nat) : Ctl (init san hl cl er) := by
  have hidle : ∀ t, pcOf (Registry.initRoot san) t = .idle := fun t => rfl
  have hw : wpc (init san hl cl er) = .start := rfl
  refine ⟨fun _ _ => Or.inl rfl, fun w h => (by cases h), rfl, ?_, rfl, ?_, ?_, ?_, ?_, rfl, ?_⟩
  · intro h; rw [hw] at h; simp [ph] at h
  · refine ⟨Or.inr ⟨?_, hidle _⟩, fun c => Or.inr ⟨by simp [init], hidle _⟩, fun t _ => ?_⟩
    · simp only [init]; split <;> simp
    · rw [show (init san hl cl er).reg = Registry.initRoot san from rfl, hidle]; rfl
  · intro h; rw [hw] at h; simp [ph] at h
  · intro h; rw [hw] at h; simp [ph] at h
  · rw [hw]; simp [ph, init, countRC]
  · intro t ht; simp [init] at ht

/-! ## the thread part under the steps of the shard -/

/-- a Registry step whose actor (if any) is the application thread `a`, or nobody -/
theorem ThreadsOk.app {loop : LoopPc} {closers : Nat → CPc} {r r' : Registry.State} {e : Registry.Ev}
    (h : ThreadsOk loop closers r) (hs : Registry.step san r e = some r')
    (hact : ∀ t, actor e = some t → isApp t = true ∧ isPassPc (pcOf r' t) = false) :
    ThreadsOk loop closers r' := by
  have keep : ∀ t, isApp t = false → pcOf r' t = pcOf r t := by
    intro t ht
    apply step_pcOf_ne hs
    intro ha
    rw [(hact t ha).1] at ht; cases ht
  refine ⟨?_, ?_, ?_⟩
  · rw [keep _ not_isApp_loop]; exact h.loopThread
  · intro c; rw [keep _ (not_isApp_closer c)]; exact h.closerThread c
  · intro t ht
    by_cases ha : actor e = some t
    · exact (hact t ha).2
    · rw [step_pcOf_ne hs ha]; exact h.appThread t ht

/-- a Registry step of the loop thread, with the loop's new pc -/
theorem ThreadsOk.loopStep {loop loop' : LoopPc} {closers : Nat → CPc} {r r' : Registry.State} {e : Registry.Ev}
    (h : ThreadsOk loop closers r) (hs : Registry.step san r e = some r') (hact : actor e = some loopTid)
    (hnew : (loop' = .pass ∧ isPassPc (pcOf r' loopTid) = true) ∨ (loop' ≠ .pass ∧ pcOf r' loopTid = .idle)) :
    ThreadsOk loop' closers r' := by
  have keep : ∀ t, t ≠ loopTid → pcOf r' t = pcOf r t := by
    intro t ht
    apply step_pcOf_ne hs
    rw [hact]; intro he; exact ht (Option.some.inj he).symm
  refine ⟨hnew, ?_, ?_⟩
  · intro c; rw [keep _ (closerTid_ne_loop c)]; exact h.closerThread c
  · intro t ht; rw [keep _ (isApp_ne_loop ht)]; exact h.appThread t ht

/-- a Registry step of the thread of `Close` call `c`, with the call's new pc -/
theorem ThreadsOk.closerStep {loop : LoopPc} {closers : Nat → CPc} {r r' : Registry.State} {e : Registry.Ev}
    (h : ThreadsOk loop closers r) (hs : Registry.step san r e = some r') (c : Nat) (p' : CPc)
    (hact : actor e = some (closerTid c))
    (hnew : (p' = .pass ∧ isPassPc (pcOf r' (closerTid c)) = true) ∨ (p' ≠ .pass ∧ pcOf r' (closerTid c) = .idle)) :
    ThreadsOk loop (fun u => if u = c then p' else closers u) r' := by
  have keep : ∀ t, t ≠ closerTid c → pcOf r' t = pcOf r t := by
    intro t ht
    apply step_pcOf_ne hs
    rw [hact]; intro he; exact ht (Option.some.inj he).symm
  refine ⟨?_, ?_, ?_⟩
  · rw [keep _ (closerTid_ne_loop c).symm]; exact h.loopThread
  · intro c'
    by_cases he : c' = c
    · subst he; simpa using hnew
    · rw [keep _ (fun e => he (closerTid_inj e))]; simp only [he, if_false]; exact h.closerThread c'
  · intro t ht; rw [keep _ (isApp_ne_closer ht c)]; exact h.appThread t ht

/-- a control move of call `c` away from / not into the pass, the shard untouched (or touched without changing any pc) -/
theorem ThreadsOk.setC {loop : LoopPc} {closers : Nat → CPc} {r r' : Registry.State}
    (h : ThreadsOk loop closers r) (hpcs : ∀ t, pcOf r' t = pcOf r t) (c : Nat) (p' : CPc)
    (hold : closers c ≠ .pass) (hnew : p' ≠ .pass) :
    ThreadsOk loop (fun u => if u = c then p' else closers u) r' := by
  refine ⟨by rw [hpcs]; exact h.loopThread, ?_, fun t ht => by rw [hpcs]; exact h.appThread t ht⟩
  intro c'
  rw [hpcs]
  by_cases he : c' = c
  · subst he
    rcases h.closerThread c' with ⟨h1, _⟩ | ⟨_, h2⟩
    · exact absurd h1 hold
    · right; simpa using ⟨hnew, h2⟩
  · simp only [he, if_false]; exact h.closerThread c'

theorem ThreadsOk.setLoop {loop loop' : LoopPc} {closers : Nat → CPc} {r : Registry.State}
    (h : ThreadsOk loop closers r) (hold : loop ≠ .pass) (hnew : loop' ≠ .pass) : ThreadsOk loop' closers r := by
  refine ⟨?_, h.closerThread, h.appThread⟩
  rcases h.loopThread with ⟨h1, _⟩ | ⟨_, h2⟩
  · exact absurd h1 hold
  · exact Or.inr ⟨hnew, h2⟩


/-! ## what the entry / exit events of the shard do to the actor's pc -/

theorem passBegin_pc {r r' : Registry.State} {t : Nat} (hs : Registry.step san r (.passBegin t) = some r') :
    pcOf r' t = .passIter [] := by
  simp only [Registry.step] at hs
  split at hs <;> cases hs
  simp

theorem passEnd_pc {r r' : Registry.State} {t : Nat} (hs : Registry.step san r (.passEndHint t) = some r') :
    pcOf r' t = .idle := by
  simp only [Registry.step] at hs
  split at hs <;> cases hs
  simp

theorem obtain_pc {r r' : Registry.State} {t k : Nat} (hs : Registry.step san r (.obtain t k) = some r') :
    pcOf r' t = .obtProbe k := by
  simp only [Registry.step] at hs
  split at hs <;> cases hs
  simp

/-- the control part is unchanged and the thread part is re-established -/
theorem Ctl.frame {s s' : State} (h : Ctl s) (hw : s'.winner = s.winner) (hc : s'.closers = s.closers)
    (hrc : s'.rootClosed = s.rootClosed) (hl : s'.loop = s.loop) (hp : s'.purged = s.purged) (hlog : s'.log = s.log)
    (hcl : s'.closable = s.closable) (hcd : s'.closeDone = s.closeDone)
    (ht : ThreadsOk s.loop s.closers s'.reg) : Ctl s' := by
  have hwpc : wpc s' = wpc s := by simp [wpc, hw, hc]
  exact ⟨by rw [hw, hc]; exact h.others, by rw [hw, hc]; exact h.wph, by rw [hrc, hw]; exact h.closed_iff,
    by rw [hwpc, hl]; exact h.loopEx, by rw [hwpc, hp]; exact h.purged_iff, by rw [hl, hc]; exact ht,
    by rw [hwpc, hlog]; exact h.logFlush, by rw [hwpc, hlog, hcl]; exact h.logRet, by rw [hwpc, hlog, hcl]; exact h.rc,
    by rw [hwpc, hcd]; exact h.cd_iff, by rw [hc, hcd]; exact h.nil_cd⟩

/-- a move of the loop alone (it has not exited, so the winner is still before its wait) -/
theorem Ctl.loopMove {s s' : State} (h : Ctl s) (hne : s.loop ≠ .exited) (hw : s'.winner = s.winner)
    (hc : s'.closers = s.closers) (hrc : s'.rootClosed = s.rootClosed) (hp : s'.purged = s.purged)
    (hcl : s'.closable = s.closable) (hcd : s'.closeDone = s.closeDone) (hrcnt : countRC s'.log = countRC s.log)
    (ht : ThreadsOk s'.loop s.closers s'.reg) : Ctl s' := by
  have hwpc : wpc s' = wpc s := by simp [wpc, hw, hc]
  have hlt : ¬ 3 ≤ ph (wpc s) := fun h3 => hne (h.loopEx h3)
  refine ⟨by rw [hw, hc]; exact h.others, by rw [hw, hc]; exact h.wph, by rw [hrc, hw]; exact h.closed_iff,
    ?_, by rw [hwpc, hp]; exact h.purged_iff, by rw [hc]; exact ht, ?_, ?_, ?_,
    by rw [hwpc, hcd]; exact h.cd_iff, by rw [hc, hcd]; exact h.nil_cd⟩
  · rw [hwpc]; intro h3; exact absurd h3 hlt
  · rw [hwpc]; intro h6; omega
  · rw [hwpc]; intro h8; omega
  · rw [hwpc, hrcnt, hcl]; exact h.rc

theorem wpc_setC_winner {s : State} {t : Nat} {p : CPc} (hw : s.winner = some t) : wpc (setC s t p) = p := by
  simp [wpc, setC, hw]

theorem wpc_setC_other {s : State} {t : Nat} {p : CPc} (hw : s.winner ≠ some t) : wpc (setC s t p) = wpc s := by
  unfold wpc
  show (match s.winner with | none => CPc.start | some w => if w = t then p else s.closers w) = _
  cases hh : s.winner with
  | none => rfl
  | some w =>
    have : w ≠ t := by intro e; rw [hh, e] at hw; exact hw rfl
    simp [this]

/-- a move of the winning call `t` to the pc `p'` (`ph p' ≥ 1`), given the phase-dependent parts for the new state -/
theorem Ctl.wmove {s s' : State} (h : Ctl s) {t : Nat} (hw : ∀ u, u ≠ t → s.winner ≠ some u) (p' : CPc)
    (hw' : s'.winner = some t) (hc : s'.closers = fun u => if u = t then p' else s.closers u)
    (hph : 1 ≤ ph p') (hrc : s'.rootClosed = true)
    (hl : 3 ≤ ph p' → s'.loop = .exited) (hp : s'.purged = decide (6 ≤ ph p'))
    (ht : ThreadsOk s'.loop s'.closers s'.reg)
    (hlf : 7 ≤ ph p' → ph p' ≤ 7 → ∃ m rest, s'.log = .flush m :: rest)
    (hlr : ph p' = 8 → ∃ n m rest, s'.log = if s'.closable then .reporterClose n :: .flush m :: rest else .flush m :: rest)
    (hrcnt : countRC s'.log = if ph p' = 8 ∧ s'.closable = true then 1 else 0)
    (hold : s.closeDone = false) (hcd : s'.closeDone = decide (8 ≤ ph p')) : Ctl s' := by
  have hwpc : wpc s' = p' := by simp [wpc, hw', hc]
  refine ⟨?_, ?_, by rw [hrc, hw']; rfl, by rw [hwpc]; exact hl, by rw [hwpc]; exact hp, ht,
    by rw [hwpc]; exact hlf, by rw [hwpc]; exact hlr, by rw [hwpc]; exact hrcnt, by rw [hwpc]; exact hcd, ?_⟩
  · intro u hu
    have hne : u ≠ t := by intro e; rw [hw', e] at hu; exact hu rfl
    rw [hc]; simp only [hne, if_false]
    exact h.others u (hw u hne)
  · intro w hw2
    rw [hw'] at hw2; cases hw2
    rw [hc]; simpa using hph
  · intro u hu
    rw [hc] at hu
    by_cases he : u = t
    · simp only [he, if_true] at hu; rw [hu] at hph; simp [ph] at hph
    · simp only [he, if_false] at hu
      have := h.nil_cd u hu; rw [hold] at this; cases this

/-- while the winning call has not returned, `closeDone` is still open -/
theorem Ctl.cd_false {s : State} (h : Ctl s) (hlt : ph (wpc s) < 8) : s.closeDone = false := by
  rw [h.cd_iff]; exact decide_eq_false (by omega)


@[simp] theorem setC_reg (s : State) (t : Nat) (p : CPc) : (setC s t p).reg = s.reg := rfl
@[simp] theorem setC_rootClosed (s : State) (t : Nat) (p : CPc) : (setC s t p).rootClosed = s.rootClosed := rfl
@[simp] theorem setC_doneClosed (s : State) (t : Nat) (p : CPc) : (setC s t p).doneClosed = s.doneClosed := rfl
@[simp] theorem setC_purged (s : State) (t : Nat) (p : CPc) : (setC s t p).purged = s.purged := rfl
@[simp] theorem setC_closable (s : State) (t : Nat) (p : CPc) : (setC s t p).closable = s.closable := rfl
@[simp] theorem setC_err (s : State) (t : Nat) (p : CPc) : (setC s t p).err = s.err := rfl
@[simp] theorem setC_loop (s : State) (t : Nat) (p : CPc) : (setC s t p).loop = s.loop := rfl
@[simp] theorem setC_log (s : State) (t : Nat) (p : CPc) : (setC s t p).log = s.log := rfl
@[simp] theorem setC_preRoot (s : State) (t : Nat) (p : CPc) : (setC s t p).preRoot = s.preRoot := rfl
@[simp] theorem setC_snap (s : State) (t : Nat) (p : CPc) : (setC s t p).snap = s.snap := rfl
@[simp] theorem setC_winner (s : State) (t : Nat) (p : CPc) : (setC s t p).winner = s.winner := rfl
@[simp] theorem setC_closeDone (s : State) (t : Nat) (p : CPc) : (setC s t p).closeDone = s.closeDone := rfl
theorem setC_closers (s : State) (t : Nat) (p : CPc) :
    (setC s t p).closers = fun u => if u = t then p else s.closers u := rfl

theorem winner_only {s : State} {t : Nat} (hw : s.winner = some t) : ∀ u, u ≠ t → s.winner ≠ some u := by
  intro u hu e; rw [hw] at e; exact hu (Option.some.inj e).symm

theorem pcOf_purgeReg (r : Registry.State) (t : Nat) : pcOf (purgeReg r) t = pcOf r t := rfl

theorem ctl_step {s s' : State} {e : Ev} (h : Ctl s) (hs : step san s e = some s') : Ctl s' := by
  cases e with
  | record sid =>
    simp only [step] at hs
    split at hs
    · cases hs
    · next r hr =>
      cases hs
      exact h.frame rfl rfl rfl rfl rfl rfl rfl rfl (h.threads.app hr (fun t ha => by cases ha))
  | close sid =>
    simp only [step, regStep] at hs
    split at hs
    · cases hs
    · split at hs
      · cases hs
      · next r hr =>
        cases hs
        exact h.frame rfl rfl rfl rfl rfl rfl rfl rfl (h.threads.app hr (fun t ha => by cases ha))
  | obtain t k =>
    simp only [step, regStep] at hs
    split at hs
    · next hc =>
      split at hs
      · cases hs
      · next r hr =>
        cases hs
        simp only [Bool.and_eq_true] at hc
        refine h.frame rfl rfl rfl rfl rfl rfl rfl rfl (h.threads.app hr ?_)
        intro t' ha; cases ha
        exact ⟨hc.1, by rw [obtain_pc hr]; rfl⟩
    · cases hs
  | step t c =>
    simp only [step, regStep] at hs
    split at hs
    · next hc =>
      split at hs
      · cases hs
      · next r hr =>
        cases hs
        refine h.frame rfl rfl rfl rfl rfl rfl rfl rfl (h.threads.app hr ?_)
        intro t' ha; cases ha
        exact ⟨hc, Registry.step_obt_kind hr (h.threads.appThread t hc)⟩
    · cases hs
  | tick =>
    simp only [step] at hs
    split at hs
    · next hl =>
      cases hs
      exact h.loopMove (by rw [hl]; simp) rfl rfl rfl rfl rfl rfl rfl (h.threads.setLoop (by rw [hl]; simp) (by simp))
    · cases hs
  | exit =>
    simp only [step] at hs
    split at hs
    · next hl =>
      split at hs
      · cases hs
        exact h.loopMove (by rw [hl]; simp) rfl rfl rfl rfl rfl rfl rfl (h.threads.setLoop (by rw [hl]; simp) (by simp))
      · cases hs
    · cases hs
  | loop c =>
    simp only [step] at hs
    split at hs
    · next hl =>
      split at hs <;> cases hs <;>
        exact h.loopMove (by rw [hl]; simp) rfl rfl rfl rfl rfl rfl rfl (h.threads.setLoop (by rw [hl]; simp) (by simp))
    · next hl =>
      split at hs
      · cases hs
      · next r hr =>
        cases hs
        exact h.loopMove (by rw [hl]; simp) rfl rfl rfl rfl rfl rfl rfl
          (h.threads.loopStep hr rfl (Or.inl ⟨rfl, by rw [passBegin_pc hr]; rfl⟩))
    · next hl =>
      simp only [regStep] at hs
      split at hs
      · cases hs
      · next r hr =>
        cases hs
        have hp : isPassPc (pcOf s.reg loopTid) = true := by
          rcases h.threads.loopThread with ⟨_, h2⟩ | ⟨h1, _⟩
          · exact h2
          · exact absurd hl h1
        refine h.loopMove (by rw [hl]; simp) rfl rfl rfl rfl rfl rfl rfl ?_
        show ThreadsOk s.loop s.closers r
        exact h.threads.loopStep hr rfl (Or.inl ⟨hl, (Registry.step_pass_kind hr hp).1⟩)
    · next hl =>
      cases hs
      exact h.loopMove (by rw [hl]; simp) rfl rfl rfl rfl rfl rfl rfl (h.threads.setLoop (by rw [hl]; simp) (by simp))
    · cases hs
  | loopEnd =>
    simp only [step] at hs
    split at hs
    · next hl =>
      split at hs
      · cases hs
      · next r hr =>
        cases hs
        exact h.loopMove (by rw [hl]; simp) rfl rfl rfl rfl rfl rfl rfl
          (h.threads.loopStep hr rfl (Or.inr ⟨by simp, passEnd_pc hr⟩))
    · cases hs
  | closer t c =>
    simp only [step] at hs
    split at hs
    · next hpc =>
      -- CAS
      split at hs
      · next hclosed =>
        cases hs
        have hnw : s.winner ≠ some t := by
          intro e; have := h.wph t e; rw [hpc] at this; simp [ph] at this
        have hwpc : wpc (setC s t .waitWinner) = wpc s := wpc_setC_other hnw
        refine ⟨?_, ?_, h.closed_iff, by rw [hwpc]; exact h.loopEx, by rw [hwpc]; exact h.purged_iff,
          h.threads.setC (fun _ => rfl) t _ (by rw [hpc]; simp) (by simp),
          by rw [hwpc]; exact h.logFlush, by rw [hwpc]; exact h.logRet, by rw [hwpc]; exact h.rc,
          by rw [hwpc]; exact h.cd_iff, ?_⟩
        · intro u hu
          by_cases he : u = t
          · subst he; right; right; simp [setC]
          · simp only [setC, he, if_false]; exact h.others u hu
        · intro w hw
          have : w ≠ t := by intro e; rw [e] at hw; exact hnw hw
          simp only [setC, this, if_false]; exact h.wph w hw
        · intro u hu
          by_cases he : u = t
          · subst he; simp [setC] at hu
          · simp only [setC, he, if_false] at hu; exact h.nil_cd u hu
      · next hclosed =>
        split at hs
        · cases hs
        · next r hr =>
          cases hs
          have hno : s.winner = none := h.no_winner (by simpa using hclosed)
          have hw0 : wpc s = .start := by simp [wpc, hno]
          have hrc0 := h.rc
          rw [hw0] at hrc0
          have hcdf : s.closeDone = false := h.cd_false (by rw [hw0]; simp [ph])
          refine h.wmove (t := t) (fun u _ => by rw [hno]; simp) .won rfl rfl (by simp [ph]) rfl
            (by simp [ph]) ?_ ?_ (by simp [ph]) (by simp [ph]) (by simpa [ph] using hrc0) hcdf
            (by simpa [ph] using hcdf)
          · have := h.purged_iff; rw [hw0] at this; simpa [ph] using this
          · exact (h.threads.app hr (fun t ha => by cases ha)).setC (fun _ => rfl) t _ (by rw [hpc]; simp) (by simp)
    · next hpc =>
      cases hs
      have hw := h.winner_of t (by rw [hpc]; simp [ph])
      have hcdf : s.closeDone = false := h.cd_false (by rw [wpc_of_winner hw, hpc]; simp [ph])
      have hrcl : s.rootClosed = true := by rw [h.closed_iff, hw]; rfl
      have hrc0 := h.rc
      rw [wpc_of_winner hw, hpc] at hrc0
      have hpu := h.purged_iff
      rw [wpc_of_winner hw, hpc] at hpu
      refine h.wmove (winner_only hw) .doneClosedPc hw rfl (by simp [ph]) hrcl (by simp [ph]) (by simpa [ph] using hpu)
        (h.threads.setC (fun _ => rfl) t _ (by rw [hpc]; simp) (by simp)) (by simp [ph]) (by simp [ph])
        (by simpa [ph] using hrc0)
        hcdf (by simpa [ph] using hcdf)
    · next hpc =>
      split at hs
      · next hex =>
        cases hs
        have hw := h.winner_of t (by rw [hpc]; simp [ph])
        have hcdf : s.closeDone = false := h.cd_false (by rw [wpc_of_winner hw, hpc]; simp [ph])
        have hrcl : s.rootClosed = true := by rw [h.closed_iff, hw]; rfl
        have hrc0 := h.rc
        rw [wpc_of_winner hw, hpc] at hrc0
        have hpu := h.purged_iff
        rw [wpc_of_winner hw, hpc] at hpu
        refine h.wmove (winner_only hw) .waited hw rfl (by simp [ph]) hrcl (fun _ => hex) (by simpa [ph] using hpu)
          (h.threads.setC (fun _ => rfl) t _ (by rw [hpc]; simp) (by simp)) (by simp [ph]) (by simp [ph])
          (by simpa [ph] using hrc0)
          hcdf (by simpa [ph] using hcdf)
      · cases hs
    · next hpc =>
      split at hs
      · cases hs
      · next r hr =>
        cases hs
        have hw := h.winner_of t (by rw [hpc]; simp [ph])
        have hcdf : s.closeDone = false := h.cd_false (by rw [wpc_of_winner hw, hpc]; simp [ph])
        have hrcl : s.rootClosed = true := by rw [h.closed_iff, hw]; rfl
        have hrc0 := h.rc
        rw [wpc_of_winner hw, hpc] at hrc0
        have hpu := h.purged_iff
        rw [wpc_of_winner hw, hpc] at hpu
        have hex := h.loopEx (by rw [wpc_of_winner hw, hpc]; simp [ph])
        refine h.wmove (winner_only hw) .pass hw rfl (by simp [ph]) hrcl (fun _ => hex) (by simpa [ph] using hpu)
          (h.threads.closerStep hr t .pass rfl (Or.inl ⟨rfl, by rw [passBegin_pc hr]; rfl⟩)) (by simp [ph]) (by simp [ph])
          (by simpa [ph] using hrc0)
          hcdf (by simpa [ph] using hcdf)
    · next hpc =>
      simp only [regStep] at hs
      split at hs
      · cases hs
      · next r hr =>
        cases hs
        have hp : isPassPc (pcOf s.reg (closerTid t)) = true := by
          rcases h.threads.closerThread t with ⟨_, h2⟩ | ⟨h1, _⟩
          · exact h2
          · exact absurd hpc h1
        have hfun : (fun u => if u = t then CPc.pass else s.closers u) = s.closers := by
          funext u; by_cases he : u = t
          · subst he; simp [hpc]
          · simp [he]
        refine h.frame rfl rfl rfl rfl rfl rfl rfl rfl ?_
        show ThreadsOk s.loop s.closers r
        rw [← hfun]
        exact h.threads.closerStep hr t .pass rfl (Or.inl ⟨rfl, (Registry.step_pass_kind hr hp).1⟩)
    · next hpc =>
      -- the purge (before the final flush)
      split at hs
      · cases hs
        have hw := h.winner_of t (by rw [hpc]; simp [ph])
        have hcdf : s.closeDone = false := h.cd_false (by rw [wpc_of_winner hw, hpc]; simp [ph])
        have hrcl : s.rootClosed = true := by rw [h.closed_iff, hw]; rfl
        have hrc0 := h.rc
        rw [wpc_of_winner hw, hpc] at hrc0
        have hex := h.loopEx (by rw [wpc_of_winner hw, hpc]; simp [ph])
        refine h.wmove (winner_only hw) .flushPc hw rfl (by simp [ph]) hrcl (fun _ => hex) (by simp [ph])
          (ThreadsOk.setC (r' := purgeReg s.reg) h.threads (fun _ => rfl) t .flushPc (by rw [hpc]; simp) (by simp))
          (by simp [ph]) (by simp [ph]) (by simpa [ph] using hrc0)
          hcdf (by simpa [ph] using hcdf)
      · cases hs
    · next hpc =>
      -- the final flush (after the purge)
      cases hs
      have hw := h.winner_of t (by rw [hpc]; simp [ph])
      have hcdf : s.closeDone = false := h.cd_false (by rw [wpc_of_winner hw, hpc]; simp [ph])
      have hrcl : s.rootClosed = true := by rw [h.closed_iff, hw]; rfl
      have hrc0 := h.rc
      rw [wpc_of_winner hw, hpc] at hrc0
      have hpu := h.purged_iff
      rw [wpc_of_winner hw, hpc] at hpu
      have hex := h.loopEx (by rw [wpc_of_winner hw, hpc]; simp [ph])
      refine h.wmove (winner_only hw) .reporterClose hw rfl (by simp [ph]) hrcl (fun _ => hex) (by simpa [ph] using hpu)
        (h.threads.setC (fun _ => rfl) t _ (by rw [hpc]; simp) (by simp)) (fun _ _ => ⟨_, _, rfl⟩) (by simp [ph])
        (by simpa [ph, countRC] using hrc0)
        hcdf (by simpa [ph] using hcdf)
    · next hpc =>
      have hw := h.winner_of t (by rw [hpc]; simp [ph])
      have hcdf : s.closeDone = false := h.cd_false (by rw [wpc_of_winner hw, hpc]; simp [ph])
      have hrcl : s.rootClosed = true := by rw [h.closed_iff, hw]; rfl
      have hrc0 := h.rc
      rw [wpc_of_winner hw, hpc] at hrc0
      have hpu := h.purged_iff
      rw [wpc_of_winner hw, hpc] at hpu
      have hex := h.loopEx (by rw [wpc_of_winner hw, hpc]; simp [ph])
      obtain ⟨m, rest, hlf⟩ := h.logFlush (by rw [wpc_of_winner hw, hpc]; simp [ph]) (by rw [wpc_of_winner hw, hpc]; simp [ph])
      split at hs
      · next hcl =>
        cases hs
        refine h.wmove (winner_only hw) (.returned s.err) hw rfl (by simp [ph]) hrcl (fun _ => hex)
          (by simpa [ph] using hpu) (h.threads.setC (fun _ => rfl) t _ (by rw [hpc]; simp) (by simp)) (by simp [ph]) ?_ ?_
          hcdf (by simp [ph])
        · intro _
          refine ⟨s.reg.delivered.length, m, rest, ?_⟩
          show LogEv.reporterClose s.reg.delivered.length :: s.log = if s.closable then _ else _
          rw [hcl, hlf]; rfl
        · show countRC (LogEv.reporterClose s.reg.delivered.length :: s.log) = if _ ∧ s.closable = true then 1 else 0
          have h0 : countRC s.log = 0 := by simpa [ph] using hrc0
          simp [ph, countRC, hcl, h0]
      · next hcl =>
        cases hs
        refine h.wmove (winner_only hw) (.returned none) hw rfl (by simp [ph]) hrcl (fun _ => hex)
          (by simpa [ph] using hpu) (h.threads.setC (fun _ => rfl) t _ (by rw [hpc]; simp) (by simp)) (by simp [ph]) ?_ ?_
          hcdf (by simp [ph])
        · intro _
          refine ⟨0, m, rest, ?_⟩
          show s.log = if s.closable then _ else _
          have hcl' : s.closable = false := by simpa using hcl
          rw [hcl', hlf]; rfl
        · show countRC s.log = if _ ∧ s.closable = true then 1 else 0
          have h0 : countRC s.log = 0 := by simpa [ph] using hrc0
          have hcl' : s.closable = false := by simpa using hcl
          simp [h0, hcl']
    · cases hs
    · cases hs
    · next hpc =>
      -- `<-s.closeDone`: enabled once the winning call has returned; the losing call returns nil
      split at hs
      · next hcd =>
        cases hs
        have hnw : s.winner ≠ some t := by
          intro e; have := h.wph t e; rw [hpc] at this; simp [ph] at this
        have hwpc : wpc (setC s t .returnedNil) = wpc s := wpc_setC_other hnw
        refine ⟨?_, ?_, h.closed_iff, by rw [hwpc]; exact h.loopEx, by rw [hwpc]; exact h.purged_iff,
          h.threads.setC (fun _ => rfl) t _ (by rw [hpc]; simp) (by simp),
          by rw [hwpc]; exact h.logFlush, by rw [hwpc]; exact h.logRet, by rw [hwpc]; exact h.rc,
          by rw [hwpc]; exact h.cd_iff, fun _ _ => hcd⟩
        · intro u hu
          by_cases he : u = t
          · subst he; right; left; simp [setC]
          · simp only [setC, he, if_false]; exact h.others u hu
        · intro w hw
          have : w ≠ t := by intro e; rw [e] at hw; exact hnw hw
          simp only [setC, this, if_false]; exact h.wph w hw
      · cases hs
  | closerEnd t =>
    simp only [step] at hs
    split at hs
    · next hpc =>
      split at hs
      · split at hs
        · cases hs
        · next r hr =>
          cases hs
          have hw := h.winner_of t (by rw [hpc]; simp [ph])
          have hcdf : s.closeDone = false := h.cd_false (by rw [wpc_of_winner hw, hpc]; simp [ph])
          have hrcl : s.rootClosed = true := by rw [h.closed_iff, hw]; rfl
          have hrc0 := h.rc
          rw [wpc_of_winner hw, hpc] at hrc0
          have hpu := h.purged_iff
          rw [wpc_of_winner hw, hpc] at hpu
          have hex := h.loopEx (by rw [wpc_of_winner hw, hpc]; simp [ph])
          refine h.wmove (winner_only hw) .purgePc hw rfl (by simp [ph]) hrcl (fun _ => hex) (by simpa [ph] using hpu)
            (h.threads.closerStep hr t .purgePc rfl (Or.inr ⟨by simp, passEnd_pc hr⟩)) (by simp [ph]) (by simp [ph])
            (by simpa [ph] using hrc0)
            hcdf (by simpa [ph] using hcdf)
      · cases hs
    · cases hs

end Tally.ScopeLife
