import Tally.Model.Buckets
import Tally.Model.BucketCtor
import Tally.Model.BucketCache
import Tally.Spec.C20
/-! Helper lemmas for C20: the `iter` loop, sorting by key, the element-wise equality check. -/
namespace Tally.C20Aux
open Tally Tally.Buckets Tally.BucketCtor Tally.BucketCache

/-! ### `iter` -/

theorem length_iter (f : α → α) (c : α) (k : Nat) : (iter f c k).length = k := by
  induction k generalizing c with
  | zero => rfl
  | succ k ih => simp [iter, ih]

theorem head?_iter (f : α → α) (c : α) (k : Nat) (hk : 0 < k) : (iter f c k).head? = some c := by
  cases k with
  | zero => omega
  | succ k => rfl

theorem getD_iter_zero (f : α → α) (c d : α) (k : Nat) (hk : 0 < k) : (iter f c k).getD 0 d = c := by
  cases k with
  | zero => omega
  | succ k => rfl

theorem getD_iter_succ (f : α → α) (c d : α) (k i : Nat) (hi : i + 1 < k) :
    (iter f c k).getD (i + 1) d = f ((iter f c k).getD i d) := by
  induction i generalizing c k with
  | zero =>
    match k, hi with
    | k + 2, _ => rfl
  | succ i ih =>
    match k, hi with
    | k + 1, hi =>
      have := ih (f c) k (by omega)
      simpa [iter] using this

theorem chain_iter (eq : α → α → Bool) (hrefl : ∀ a, eq a a = true) (f : α → α) (c : α) (k : Nat) :
    Spec.C20.chain eq f (iter f c k) = true := by
  induction k generalizing c with
  | zero => rfl
  | succ k ih =>
    cases k with
    | zero => rfl
    | succ k =>
      have := ih (f c)
      simp only [iter] at this ⊢
      simp [Spec.C20.chain, hrefl, this]

/-! ### lists -/

theorem range_map_getD (l : List α) (d : α) : (List.range l.length).map (fun i => l.getD i d) = l := by
  apply List.ext_getElem
  · simp
  · intro i h1 h2
    simp at h1
    simp [List.getD_eq_getElem?_getD, h1]

theorem getD_range_map (f : Nat → α) (n i : Nat) (d : α) (hi : i < n) :
    ((List.range n).map f).getD i d = f i := by
  simp [List.getD_eq_getElem?_getD, hi]

/-! ### sorting by key -/

theorem sortByKey_perm (key : α → Int) (l : List α) : (sortByKey key l).Perm l :=
  List.mergeSort_perm _ _

theorem sortByKey_sorted (key : α → Int) (l : List α) :
    (sortByKey key l).Pairwise (fun a b => key a ≤ key b) := by
  have := List.pairwise_mergeSort (le := fun a b => decide (key a ≤ key b))
    (by intro a b c; simp only [decide_eq_true_eq]; omega)
    (by intro a b; simp only [Bool.or_eq_true, decide_eq_true_eq]; omega) l
  simpa [sortByKey] using this

/-- sorting by key commutes with taking keys -/
theorem map_sortByKey (key : α → Int) (l : List α) :
    (sortByKey key l).map key = sortByKey id (l.map key) := by
  unfold sortByKey
  exact List.map_mergeSort (by intro a _ b _; rfl)

/-- the keys of the sorted list depend only on the keys of the list -/
theorem sortByKey_keys_congr (key : α → Int) (l₁ l₂ : List α) (h : l₁.map key = l₂.map key) :
    (sortByKey key l₁).map key = (sortByKey key l₂).map key := by
  rw [map_sortByKey, map_sortByKey, h]

/-! ### the equality re-check -/

theorem allEq_int (a b : List Int) (h : allEq (fun x y => x == y) a b = true) : a = b := by
  induction a generalizing b with
  | nil => cases b <;> simp_all [allEq]
  | cons x xs ih =>
    cases b with
    | nil => simp [allEq] at h
    | cons y ys =>
      simp only [allEq, Bool.and_eq_true, beq_iff_eq] at h
      rw [h.1, ih ys h.2]

theorem key_eq_of_eq (x y : F64) (h : F64.eq x y = true) : F64.key x = F64.key y := by
  simp only [F64.eq, Bool.and_eq_true, decide_eq_true_eq] at h
  exact h.2

theorem allEq_f64 (a b : List F64) (h : allEq F64.eq a b = true) : a.map F64.key = b.map F64.key := by
  induction a generalizing b with
  | nil => cases b <;> simp_all [allEq]
  | cons x xs ih =>
    cases b with
    | nil => simp [allEq] at h
    | cons y ys =>
      simp only [allEq, Bool.and_eq_true] at h
      simp [key_eq_of_eq x y h.1, ih ys h.2]

/-- an IEEE-equal pair whose second component is not a zero has equal bit patterns -/
theorem bits_eq_of_eq_nonzero (x y : F64) (h : F64.eq x y = true) (hz : F64.key y ≠ 0) : x = y := by
  have hk := key_eq_of_eq x y h
  apply UInt64.toNat_inj.mp
  have hx := x.toNat_lt
  have hy := y.toNat_lt
  unfold F64.key F64.signBit F64.mag at hk hz
  simp only [decide_eq_true_eq] at hk hz
  split at hk <;> split at hk <;> simp_all <;> omega

theorem allEq_f64_exact (a b : List F64) (h : allEq F64.eq a b = true) (hz : ∀ y ∈ b, F64.key y ≠ 0) :
    a = b := by
  induction a generalizing b with
  | nil => cases b <;> simp_all [allEq]
  | cons x xs ih =>
    cases b with
    | nil => simp [allEq] at h
    | cons y ys =>
      simp only [allEq, Bool.and_eq_true] at h
      rw [bits_eq_of_eq_nonzero x y h.1 (hz y (by simp)), ih ys h.2 (fun z hz' => hz z (by simp [hz']))]

/-! ### the oracle `boundsKept` from "sorted permutation of the spec, then `hi`" -/

theorem boundsKept_of_sorted (hi : Int) (spec body : List Int)
    (hp : body.Perm spec) (hs : body.Pairwise (· ≤ ·)) :
    Spec.C20.boundsKept hi spec (body ++ [hi]) = true := by
  unfold Spec.C20.boundsKept
  simp only [List.dropLast_concat, Bool.and_eq_true, List.all_eq_true, decide_eq_true_eq, beq_iff_eq]
  refine ⟨⟨⟨?_, ?_⟩, ?_⟩, ?_⟩
  · simp [hp.length_eq]
  · simp
  · intro ⟨a, b⟩ hab
    -- consecutive elements of a pairwise-sorted list
    induction body generalizing spec with
    | nil => simp at hab
    | cons x xs ih =>
      cases xs with
      | nil => simp at hab
      | cons y ys =>
        simp only [List.tail_cons, List.zip_cons_cons, List.mem_cons, Prod.mk.injEq] at hab
        rcases hab with ⟨rfl, rfl⟩ | hab
        · exact List.rel_of_pairwise_cons hs (by simp)
        · exact ih (y :: ys) (List.Perm.refl _) (List.Pairwise.of_cons hs) (by simpa using hab)
  · intro s _
    exact hp.count_eq s

/-! ### int64 wrap-around, NaN-insensitive equality -/

/-- two's-complement arithmetic: wrapping the product first changes nothing -/
theorem wrap64_add_wrap64 (a b : Int) : wrap64 (a + wrap64 b) = wrap64 (a + b) := by
  unfold wrap64 two64 two63
  simp only
  split <;> split <;> split <;> omega

theorem wrap64_of_inRange (a : Int) (h : inInt64 a = true) : wrap64 a = a := by
  unfold inInt64 minInt64 maxInt64 two63 at h
  unfold wrap64 two64 two63
  simp only [Bool.and_eq_true, decide_eq_true_eq] at h ⊢
  split <;> omega


theorem same_refl (a : F64) : F64.same a a = true := by simp [F64.same]

theorem sameBounds_refl (b : Bounds) : Spec.C20.sameBounds b b = true := by
  cases b with
  | durs l => simp [Spec.C20.sameBounds]
  | vals l =>
    simp only [Spec.C20.sameBounds, beq_self_eq_true, Bool.true_and, List.all_eq_true]
    intro ⟨x, y⟩ hxy
    have : x = y := by
      induction l with
      | nil => simp at hxy
      | cons a as ih =>
        simp only [List.zip_cons_cons, List.mem_cons, Prod.mk.injEq] at hxy
        rcases hxy with ⟨rfl, rfl⟩ | h
        · rfl
        · exact ih h
    subst this; exact same_refl x

end Tally.C20Aux
