import Tally.Model.M3Report
import TallyProofs.Lemmas.M3Batch
/-!
# Lemmas about the tag cache, the queue and the clock of the M3 reporter model
-/
namespace Tally.M3
open Tally Tally.Thrift

/-! ### a counting lemma: a duplicate-free list inside a list of the same length is a permutation of it -/

theorem perm_of_nodup_subset_length {α : Type} [DecidableEq α] : ∀ (l₁ l₂ : List α),
    l₁.Nodup → l₁ ⊆ l₂ → l₁.length = l₂.length → l₁.Perm l₂ := by
  intro l₁
  induction l₁ with
  | nil =>
    intro l₂ _ _ hlen
    have : l₂ = [] := List.eq_nil_of_length_eq_zero (by simpa using hlen.symm)
    subst this
    exact List.Perm.refl _
  | cons a t ih =>
    intro l₂ hnd hsub hlen
    rw [List.nodup_cons] at hnd
    have ha : a ∈ l₂ := hsub (List.mem_cons_self ..)
    have htsub : t ⊆ l₂.erase a := by
      intro x hx
      have hxa : x ≠ a := fun h => hnd.1 (h ▸ hx)
      exact (List.mem_erase_of_ne hxa).2 (hsub (List.mem_cons_of_mem _ hx))
    have hlen' : t.length = (l₂.erase a).length := by
      rw [List.length_erase]
      simp only [ha, if_true]
      simp only [List.length_cons] at hlen
      omega
    have hp := ih (l₂.erase a) hnd.2 htsub hlen'
    exact (hp.cons a).trans (List.perm_cons_erase ha).symm

theorem lookup_mem {α β : Type} [BEq α] [LawfulBEq α] : ∀ (l : List (α × β)) (k : α) (v : β),
    l.lookup k = some v → (k, v) ∈ l := by
  intro l
  induction l with
  | nil => intro k v h; simp [List.lookup] at h
  | cons p rest ih =>
    intro k v h
    obtain ⟨pk, pv⟩ := p
    simp only [List.lookup] at h
    by_cases hk : k == pk
    · simp only [hk] at h
      have : k = pk := by simpa using hk
      cases h
      subst this
      simp
    · simp only [hk] at h
      exact List.mem_cons_of_mem _ (ih k v h)

/-! ### tag cache -/

/-- every cache entry was built from a map: its tag names are pairwise different -/
def CacheInv (c : Cache) : Prop := ∀ e ∈ c, (e.2.map (·.name)).Nodup

theorem pairOf_tagOf (kv : Bytes × Bytes) : pairOf (tagOf kv) = kv := rfl

theorem fresh_pairs (m : TagMap) : (fresh m).map pairOf = m := by
  simp [fresh, List.map_map, Function.comp_def, pairOf_tagOf]

theorem fresh_names (m : TagMap) : (fresh m).map (·.name) = m.map (·.1) := by
  simp [fresh, List.map_map, Function.comp_def, tagOf]

/-- a matching cache entry holds exactly the requested pairs -/
theorem tagsMatch_perm (ts : List MetricTag) (m : TagMap) (hnd : (ts.map (·.name)).Nodup)
    (h : tagsMatch ts m = true) : (ts.map pairOf).Perm m := by
  simp only [tagsMatch, Bool.and_eq_true, beq_iff_eq, List.all_eq_true] at h
  obtain ⟨hlen, hall⟩ := h
  apply perm_of_nodup_subset_length
  · have : (ts.map pairOf).map (·.1) = ts.map (·.name) := by
      simp [List.map_map, Function.comp_def, pairOf]
    have hnd' : ((ts.map pairOf).map (·.1)).Nodup := this ▸ hnd
    exact List.Pairwise.of_map (·.1) (fun a b hab h => hab (by rw [h])) hnd'
  · intro kv hkv
    obtain ⟨t, ht, rfl⟩ := List.mem_map.1 hkv
    exact lookup_mem m t.name t.value (hall t ht)
  · simpa using hlen

theorem convertTags_spec (hash : TagMap → UInt64) (c : Cache) (m : TagMap) (hc : CacheInv c)
    (hm : (m.map (·.1)).Nodup) :
    ((convertTags hash c m).1.map pairOf).Perm m ∧ CacheInv (convertTags hash c m).2 := by
  unfold convertTags
  cases hl : c.lookup (hash m) with
  | none =>
    refine ⟨by simp [fresh_pairs], ?_⟩
    intro e he
    simp only [List.mem_cons] at he
    rcases he with he | he
    · subst he; simpa [fresh_names] using hm
    · exact hc e he
  | some ts =>
    have hmem := lookup_mem c (hash m) ts hl
    by_cases ht : tagsMatch ts m = true
    · simp only [ht, if_true]
      exact ⟨tagsMatch_perm ts m (hc _ hmem) ht, hc⟩
    · simp only [ht]
      exact ⟨by simp [fresh_pairs], hc⟩

/-! ### the queue -/

theorem opStep_cfg (hash : TagMap → UInt64) (s : State) (op : Op) : (opStep hash s op).cfg = s.cfg := by
  unfold opStep
  cases op <;> simp only []
  · split <;> rfl
  · split <;> rfl

theorem opStep_sent (hash : TagMap → UInt64) (s : State) (op : Op) :
    (opStep hash s op).sent = s.sent ++ enq s op := by
  unfold opStep
  cases op <;> simp only []
  · split <;> rfl
  · split <;> rfl

theorem opStep_closed_enq (s : State) (op : Op) (h : s.closed = true) : enq s op = [] := by
  cases op <;> simp [enq, h]

/-- the queue invariant: while open, what was sent is what `process()` has consumed followed by
what is still pending; once closed, everything has been consumed and the last batch emitted -/
def QInv (s : State) : Prop :=
  if s.closed = true then s.pending = [] ∧ s.bs = emitCur (consume s.cfg.free BState.init s.sent)
  else ∃ done, s.sent = done ++ s.pending ∧ s.bs = consume s.cfg.free BState.init done

theorem consume_snoc (free : Nat) (s : BState) (l : List Item) (it : Item) :
    consume free s (l ++ [it]) = step free (consume free s l) it := by
  simp [consume, List.foldl_append]

theorem QInv.opStep (hash : TagMap → UInt64) {s : State} (h : QInv s) (op : Op) :
    QInv (opStep hash s op) := by
  by_cases hc : s.closed = true
  · -- closed: nothing is sent, nothing is pending, nothing changes
    have he := opStep_closed_enq s op hc
    simp only [QInv, hc, if_true] at h
    unfold M3.opStep
    rw [he]
    cases op <;> simp only [List.append_nil]
    all_goals simp [QInv, hc, h]
  · simp only [QInv, hc] at h
    obtain ⟨done, hs, hb⟩ := h
    have hc' : s.closed = false := by simpa using hc
    unfold M3.opStep
    cases op with
    | allocMetric k name tags =>
      simp only [QInv, hc', Bool.false_eq_true, if_false]
      exact ⟨done, by simp [hs, enq], by simpa [enq] using hb⟩
    | allocHist name tags spec =>
      simp only [QInv, hc', Bool.false_eq_true, if_false]
      exact ⟨done, by simp [hs, enq], by simpa [enq] using hb⟩
    | report hd v =>
      simp only [QInv, hc', Bool.false_eq_true, if_false]
      exact ⟨done, by simp [hs], hb⟩
    | reportBucket hd u n =>
      simp only [QInv, hc', Bool.false_eq_true, if_false]
      exact ⟨done, by simp [hs], hb⟩
    | flush up a b c d =>
      simp only [QInv, hc', Bool.false_eq_true, if_false]
      exact ⟨done, by simp [hs], hb⟩
    | tick t =>
      simp only [QInv, hc', Bool.false_eq_true, if_false]
      exact ⟨done, by simp [hs, enq], by simpa [enq] using hb⟩
    | consume =>
      simp only [enq, List.append_nil]
      cases hp : s.pending with
      | nil =>
        simp only [QInv, hc', Bool.false_eq_true, if_false]
        exact ⟨done, by simp [hs, hp], hb⟩
      | cons it rest =>
        simp only [QInv, hc', Bool.false_eq_true, if_false]
        refine ⟨done ++ [it], by simp [hs, hp], ?_⟩
        rw [consume_snoc, ← hb]
    | close =>
      simp only [enq, List.append_nil, hc', Bool.false_eq_true, if_false]
      simp only [QInv, if_true]
      refine ⟨trivial, ?_⟩
      rw [hs, consume_append, ← hb]

theorem run_cons (hash : TagMap → UInt64) (s : State) (op : Op) (ops : List Op) :
    run hash s (op :: ops) = run hash (opStep hash s op) ops := rfl

theorem run_append (hash : TagMap → UInt64) (s : State) (a b : List Op) :
    run hash s (a ++ b) = run hash (run hash s a) b := by
  simp [run, List.foldl_append]

theorem QInv.run (hash : TagMap → UInt64) (ops : List Op) : ∀ {s : State}, QInv s → QInv (run hash s ops) := by
  induction ops with
  | nil => intro s h; exact h
  | cons op rest ih => intro s h; exact ih (h.opStep hash op)

theorem run_cfg (hash : TagMap → UInt64) (ops : List Op) : ∀ s : State, (run hash s ops).cfg = s.cfg := by
  induction ops with
  | nil => intro s; rfl
  | cons op rest ih => intro s; rw [run_cons, ih, opStep_cfg]

/-- what a history sends: operation by operation, in the state it is executed in -/
def sentOf (hash : TagMap → UInt64) : State → List Op → List Item
  | _, [] => []
  | s, op :: ops => enq s op ++ sentOf hash (opStep hash s op) ops

theorem run_sent (hash : TagMap → UInt64) (ops : List Op) : ∀ s : State,
    (run hash s ops).sent = s.sent ++ sentOf hash s ops := by
  induction ops with
  | nil => intro s; simp [run, sentOf]
  | cons op rest ih =>
    intro s
    rw [run_cons, ih, opStep_sent, sentOf, List.append_assoc]

theorem opStep_closed (hash : TagMap → UInt64) (s : State) (op : Op) (h : s.closed = true) :
    (opStep hash s op).closed = true := by
  unfold M3.opStep
  cases op <;> simp only []
  · exact h
  · exact h
  · exact h
  · exact h
  · exact h
  · exact h
  · split <;> exact h
  · simp [h]

theorem run_closed (hash : TagMap → UInt64) (ops : List Op) : ∀ s : State, s.closed = true →
    (run hash s ops).closed = true := by
  induction ops with
  | nil => intro s h; exact h
  | cons op rest ih => intro s h; exact ih _ (opStep_closed hash s op h)

/-! ### the clock -/

theorem withValue_timestamp (t : Metric) (v : Val) (now : Int) : (withValue t v now).timestamp = now := by
  cases v <;> rfl

theorem reportItems_ts (s : State) (h : Nat) (v : Val) :
    ∀ x, Item.met x ∈ reportItems s h v → x.m.timestamp = s.cell := by
  intro x hx
  unfold reportItems at hx
  split at hx
  · split at hx
    · simp only [List.mem_singleton, Item.met.injEq] at hx
      subst hx
      exact withValue_timestamp _ _ _
    · simp at hx
  · simp at hx

theorem bucketItem_ts (b : BucketH) (n now : Int) :
    ∀ x, Item.met x = bucketItem b n now → x.m.timestamp = now := by
  intro x hx
  simp only [bucketItem, Item.met.injEq] at hx
  subst hx
  simp [withBucketTags, withValue_timestamp]

theorem bucketItems_ts (s : State) (h : Nat) (u : Bound) (n : Int) :
    ∀ x, Item.met x ∈ bucketItems s h u n → x.m.timestamp = s.cell := by
  intro x hx
  unfold bucketItems at hx
  split at hx
  · cases hf : findValueBucket ‹List BucketH› ‹F64› with
    | none => simp [hf] at hx
    | some b => simp [hf] at hx; exact bucketItem_ts b n s.cell x hx
  · cases hf : findDurationBucket ‹List BucketH› ‹Int› with
    | none => simp [hf] at hx
    | some b => simp [hf] at hx; exact bucketItem_ts b n s.cell x hx
  · simp at hx

/-- every metric an operation sends carries the value the clock cell holds at that step -/
theorem enq_ts (s : State) (op : Op) : ∀ x, Item.met x ∈ enq s op → x.m.timestamp = s.cell := by
  intro x hx
  cases op with
  | report h v =>
    simp only [enq] at hx
    split at hx
    · simp at hx
    · exact reportItems_ts s h v x hx
  | reportBucket h u n =>
    simp only [enq] at hx
    split at hx
    · simp at hx
    · exact bucketItems_ts s h u n x hx
  | flush up a b c d =>
    simp only [enq] at hx
    split at hx
    · simp at hx
    · simp only [List.mem_append, List.mem_singleton] at hx
      rcases hx with ((((hx | hx) | hx) | hx) | hx) | hx
      · exact bucketItems_ts s 0 _ _ x hx
      · exact reportItems_ts s 1 _ x hx
      · exact reportItems_ts s 2 _ x hx
      · exact reportItems_ts s 3 _ x hx
      · exact reportItems_ts s 4 _ x hx
      · cases hx
  | _ => simp [enq] at hx

theorem opStep_cell (hash : TagMap → UInt64) (s : State) (op : Op) :
    (opStep hash s op).cell = match op with | .tick t => t | _ => s.cell := by
  unfold M3.opStep
  cases op <;> simp only []
  · split <;> rfl
  · split <;> rfl

/-- the ticks of a history never go back (and start at or after `cell`) -/
def ticksMono : Int → List Op → Prop
  | _, [] => True
  | c, .tick t :: ops => c ≤ t ∧ ticksMono t ops
  | c, _ :: ops => ticksMono c ops

/-- clock invariant: every timestamp sent so far lies between the construction time and the
current cell, and timestamps never decrease along the queue -/
structure TInv (t0 : Int) (s : State) : Prop where
  base : t0 ≤ s.cell
  bracket : ∀ x ∈ queued s.sent, t0 ≤ x.m.timestamp ∧ x.m.timestamp ≤ s.cell
  mono : (queued s.sent).Pairwise fun a b => a.m.timestamp ≤ b.m.timestamp

theorem queued_append (a b : List Item) : queued (a ++ b) = queued a ++ queued b := by
  simp [queued, List.filterMap_append]

theorem mem_queued {x : Sized} {l : List Item} : x ∈ queued l ↔ Item.met x ∈ l := by
  simp only [queued, List.mem_filterMap]
  constructor
  · rintro ⟨it, hit, hm⟩
    cases it with
    | met y => simp [Item.metric?] at hm; subst hm; exact hit
    | flush => simp [Item.metric?] at hm
  · intro h; exact ⟨_, h, rfl⟩

theorem pairwise_const {α : Type} (f : α → Int) (c : Int) : ∀ l : List α, (∀ x ∈ l, f x = c) →
    l.Pairwise fun a b => f a ≤ f b := by
  intro l
  induction l with
  | nil => intro _; exact List.Pairwise.nil
  | cons a t ih =>
    intro h
    refine List.Pairwise.cons ?_ (ih fun x hx => h x (by simp [hx]))
    intro b hb
    rw [h a (by simp), h b (by simp [hb])]
    exact Int.le_refl _

theorem TInv.opStep (hash : TagMap → UInt64) {t0 : Int} {s : State} (h : TInv t0 s) (op : Op)
    (hop : match op with | .tick t => s.cell ≤ t | _ => True) : TInv t0 (M3.opStep hash s op) := by
  have hnew := enq_ts s op
  have hcell : s.cell ≤ (M3.opStep hash s op).cell := by
    rw [opStep_cell]; cases op <;> first | exact Int.le_refl _ | exact hop
  refine ⟨Int.le_trans h.base hcell, ?_, ?_⟩
  · intro x hx
    rw [opStep_sent, queued_append, List.mem_append] at hx
    rcases hx with hx | hx
    · exact ⟨(h.bracket x hx).1, Int.le_trans (h.bracket x hx).2 hcell⟩
    · have := hnew x (mem_queued.1 hx)
      rw [this]; exact ⟨h.base, hcell⟩
  · rw [opStep_sent, queued_append, List.pairwise_append]
    refine ⟨h.mono, pairwise_const _ s.cell _ (fun x hx => hnew x (mem_queued.1 hx)), ?_⟩
    intro a ha b hb
    rw [hnew b (mem_queued.1 hb)]
    exact (h.bracket a ha).2

theorem TInv.run (hash : TagMap → UInt64) {t0 : Int} (ops : List Op) : ∀ {s : State}, TInv t0 s →
    ticksMono s.cell ops → TInv t0 (run hash s ops) := by
  induction ops with
  | nil => intro s h _; exact h
  | cons op rest ih =>
    intro s h hm
    rw [run_cons]
    cases op with
    | tick t =>
      simp only [ticksMono] at hm
      refine ih (h.opStep hash (.tick t) hm.1) ?_
      rw [opStep_cell]; exact hm.2
    | allocMetric k n tg => exact ih (h.opStep hash _ trivial) (by rw [opStep_cell]; exact hm)
    | allocHist n tg sp => exact ih (h.opStep hash _ trivial) (by rw [opStep_cell]; exact hm)
    | report hd v => exact ih (h.opStep hash _ trivial) (by rw [opStep_cell]; exact hm)
    | reportBucket hd u n => exact ih (h.opStep hash _ trivial) (by rw [opStep_cell]; exact hm)
    | flush u a b c d => exact ih (h.opStep hash _ trivial) (by rw [opStep_cell]; exact hm)
    | consume => exact ih (h.opStep hash _ trivial) (by rw [opStep_cell]; exact hm)
    | close => exact ih (h.opStep hash _ trivial) (by rw [opStep_cell]; exact hm)

theorem opStep_close_closed (hash : TagMap → UInt64) (s : State) : (opStep hash s .close).closed = true := by
  unfold M3.opStep
  by_cases h : s.closed = true <;> simp [h]

/-! ### histories: well-formed allocations, the constructor -/

/-- the alloc operations of a history name maps (distinct keys) -/
def opWf : Op → Prop
  | .allocMetric _ _ tags => (tags.map (·.1)).Nodup
  | .allocHist _ tags _ => (tags.map (·.1)).Nodup
  | _ => True

theorem cache_invariant_step (hash : TagMap → UInt64) (s : State) (op : Op) (h : CacheInv s.cache)
    (hw : opWf op) : CacheInv (opStep hash s op).cache := by
  unfold opStep
  cases op with
  | allocMetric k name tags =>
    simp only [allocMetricH]
    by_cases he : tags.isEmpty = true
    · simpa [he] using h
    · simp only [he]
      exact (convertTags_spec hash s.cache tags h hw).2
  | allocHist name tags spec =>
    simp only [allocHistH]
    exact (convertTags_spec hash s.cache tags h hw).2
  | consume => simp only []; split <;> exact h
  | close => simp only []; split <;> exact h
  | _ => exact h

def base (cfg : Config) (t0 : Int) : State :=
  { cfg := cfg, cache := [], handles := [], cell := t0, cellHist := [t0], sent := [], pending := [],
    bs := BState.init, closed := false }

theorem init_eq (hash : TagMap → UInt64) (cfg : Config) (t0 : Int) :
    init hash cfg t0 = run hash (base cfg t0) (internalOps cfg) := rfl

theorem init_sent (hash : TagMap → UInt64) (cfg : Config) (t0 : Int) : (init hash cfg t0).sent = [] := by
  rw [init_eq, run_sent]
  simp [base, internalOps, sentOf, enq]

theorem init_cfg (hash : TagMap → UInt64) (cfg : Config) (t0 : Int) : (init hash cfg t0).cfg = cfg := by
  rw [init_eq, run_cfg]; rfl

theorem init_qinv (hash : TagMap → UInt64) (cfg : Config) (t0 : Int) : QInv (init hash cfg t0) := by
  rw [init_eq]
  apply QInv.run
  simp only [QInv, base, Bool.false_eq_true, if_false]
  exact ⟨[], rfl, rfl⟩

theorem init_tinv (hash : TagMap → UInt64) (cfg : Config) (t0 : Int) : TInv t0 (init hash cfg t0) := by
  rw [init_eq]
  apply TInv.run
  · exact ⟨Int.le_refl _, by simp [base, queued], by simp [base, queued]⟩
  · simp [internalOps, ticksMono]

theorem init_cell (hash : TagMap → UInt64) (cfg : Config) (t0 : Int) : (init hash cfg t0).cell = t0 := by
  have h : ∀ (ops : List Op) (s : State), (∀ op ∈ ops, ∀ t, op ≠ .tick t) → (run hash s ops).cell = s.cell := by
    intro ops
    induction ops with
    | nil => intro s _; rfl
    | cons op rest ih =>
      intro s hno
      rw [run_cons, ih _ (fun o ho => hno o (by simp [ho])), opStep_cell]
      cases op with
      | tick t => exact absurd rfl (hno (.tick t) (by simp) t)
      | _ => rfl
  rw [init_eq, h]
  · rfl
  · intro op hop t
    simp only [internalOps, List.mem_cons, List.mem_nil_iff, or_false] at hop
    rcases hop with h | h | h | h | h <;> subst h <;> simp

end Tally.M3
