import TallyProofs.Lemmas.Prom
import TallyProofs.Lemmas.Search
/-! Lemmas for the histogram clause of C17: what `ReportSamples` does to a Prometheus histogram
series, the pending/observed accounting of one histogram object, cumulative counts. -/
namespace Tally.Prom
open Tally Tally.ListAux

/-! ### bucket vectors -/

theorem bump_length (l : List Nat) (i : Nat) : (bump l i).length = l.length := by
  induction l generalizing i with
  | nil => rfl
  | cons x t ih => cases i <;> simp [bump, ih]

theorem bump_getD (l : List Nat) (i j : Nat) :
    (bump l i).getD j 0 = l.getD j 0 + (if j = i ∧ i < l.length then 1 else 0) := by
  induction l generalizing i j with
  | nil => simp [bump]
  | cons x t ih =>
    cases i with
    | zero => cases j <;> simp [bump]
    | succ i =>
      cases j with
      | zero => simp [bump]
      | succ j => simp only [bump, List.getD_cons_succ, ih, List.length_cons]; simp

theorem bump_sum (l : List Nat) (i : Nat) : (bump l i).sum = l.sum + (if i < l.length then 1 else 0) := by
  induction l generalizing i with
  | nil => simp [bump]
  | cons x t ih =>
    cases i with
    | zero => simp [bump]; omega
    | succ i => simp only [bump, List.sum_cons, ih, List.length_cons]; split <;> split <;> omega

theorem zeros_getD (l : List α) (j : Nat) : (l.map fun _ => (0 : Nat)).getD j 0 = 0 := by
  induction l generalizing j with
  | nil => rfl
  | cons x t ih =>
    cases j with
    | zero => rfl
    | succ j => simp only [List.map_cons, List.getD_cons_succ]; exact ih j

theorem zeros_sum (l : List α) : (l.map fun _ => (0 : Nat)).sum = 0 := by
  induction l with
  | nil => rfl
  | cons x t ih => simp [ih]

/-! ### observing -/

theorem observeN_hist (bs : List F64) (x : F64) (n : Nat) : ∀ (bk : List Nat) (c : Nat), ∃ bk',
    (Val.histogram bs bk c).observeN x n = .histogram bs bk' (c + n) ∧ bk'.length = bk.length
      ∧ ∀ j, bk'.getD j 0 = bk.getD j 0
          + (if j = Buckets.rawPlaceValue bs x ∧ j < bs.length ∧ j < bk.length then n else 0) := by
  induction n with
  | zero => intro bk c; exact ⟨bk, rfl, rfl, by intro j; simp⟩
  | succ n ih =>
    intro bk c
    simp only [Val.observeN, Val.observe]
    by_cases hi : Buckets.rawPlaceValue bs x < bs.length
    · simp only [hi, if_true]
      obtain ⟨bk', h1, h2, h3⟩ := ih (bump bk (Buckets.rawPlaceValue bs x)) (c + 1)
      refine ⟨bk', by rw [h1]; congr 1; omega, by rw [h2, bump_length], ?_⟩
      intro j
      rw [h3, bump_getD, bump_length]
      by_cases hj : j = Buckets.rawPlaceValue bs x
      · subst hj
        by_cases hb : Buckets.rawPlaceValue bs x < bk.length <;> simp [hi, hb] <;> omega
      · simp [hj]
    · simp only [hi, if_false]
      obtain ⟨bk', h1, h2, h3⟩ := ih bk (c + 1)
      refine ⟨bk', by rw [h1]; congr 1; omega, h2, ?_⟩
      intro j
      rw [h3]
      by_cases hj : j = Buckets.rawPlaceValue bs x
      · subst hj; simp [hi]
      · simp [hj]

/-- a pass over the tally buckets from offset `o`: bucket `o + t` observes a float that the
Prometheus search puts into finite bucket `o + t`, or — beyond the finite bounds — into `+Inf` -/
theorem flush_hist (bs : List F64) : ∀ (xs : List F64) (ns : List Nat) (o : Nat) (bk : List Nat) (c : Nat),
    ns.length = xs.length → bk.length = bs.length →
    (∀ t (ht : t < xs.length),
      if o + t < bs.length then Buckets.rawPlaceValue bs xs[t] = o + t else bs.length ≤ Buckets.rawPlaceValue bs xs[t]) →
    ∃ bk', flushBuckets (.histogram bs bk c) xs ns = .histogram bs bk' (c + ns.sum) ∧ bk'.length = bk.length
      ∧ ∀ j, bk'.getD j 0 = bk.getD j 0 + (if o ≤ j ∧ j < bs.length then ns.getD (j - o) 0 else 0) := by
  intro xs
  induction xs with
  | nil =>
    intro ns o bk c hl _ _
    have : ns = [] := List.length_eq_zero_iff.mp hl
    subst this
    exact ⟨bk, rfl, rfl, by intro j; simp⟩
  | cons x xs ih =>
    intro ns o bk c hl hbk hx
    cases ns with
    | nil => simp at hl
    | cons n ns =>
      simp only [flushBuckets]
      obtain ⟨bk1, h1, h2, h3⟩ := observeN_hist bs x n bk c
      rw [h1]
      have hl' : ns.length = xs.length := by simpa using hl
      have hx' : ∀ t (ht : t < xs.length),
          if o + 1 + t < bs.length then Buckets.rawPlaceValue bs xs[t] = o + 1 + t
          else bs.length ≤ Buckets.rawPlaceValue bs xs[t] := by
        intro t ht
        have := hx (t + 1) (by simp; omega)
        simp only [List.getElem_cons_succ] at this
        have e : o + (t + 1) = o + 1 + t := by omega
        rw [e] at this
        exact this
      obtain ⟨bk', g1, g2, g3⟩ := ih ns (o + 1) bk1 (c + n) hl' (by rw [h2]; exact hbk) hx'
      refine ⟨bk', by rw [g1]; simp only [List.sum_cons]; congr 1; omega, by rw [g2, h2], ?_⟩
      intro j
      rw [g3, h3]
      have hx0 := hx 0 (by simp)
      simp only [List.getElem_cons_zero, Nat.add_zero] at hx0
      by_cases hjo : j = o
      · subst hjo
        by_cases hjl : j < bs.length
        · simp only [hjl, if_true] at hx0
          have hjb : j < bk.length := by rw [hbk]; exact hjl
          have hno : ¬ (j + 1 ≤ j) := by omega
          simp [hx0, hjl, hjb, hno]
        · simp only [hjl, if_false] at hx0
          simp [hjl]
      · by_cases hjl : j < bs.length
        · by_cases hlt : o < j
          · have h4 : ¬ j = Buckets.rawPlaceValue bs x := by
              intro e
              by_cases hol : o < bs.length
              · simp only [hol, if_true] at hx0; omega
              · simp only [hol, if_false] at hx0; omega
            have e2 : j - o = (j - (o + 1)) + 1 := by omega
            have h5 : o + 1 ≤ j := by omega
            have h6 : o ≤ j := by omega
            simp only [h4, false_and, if_false, h5, hjl, and_self, if_true, h6, e2, List.getD_cons_succ]
            omega
          · have h5 : ¬ o + 1 ≤ j := by omega
            have h6 : ¬ o ≤ j := by omega
            have h4 : ¬ j = Buckets.rawPlaceValue bs x := by
              intro e
              by_cases hol : o < bs.length
              · simp only [hol, if_true] at hx0; omega
              · simp only [hol, if_false] at hx0; omega
            simp [h4, h5, h6]
        · simp [hjl]

/-! ### cumulative counts -/

theorem cumulate_length (acc : Nat) (l : List Nat) : (cumulate acc l).length = l.length := by
  induction l generalizing acc with
  | nil => rfl
  | cons x t ih => simp [cumulate, ih]

/-- the index window `[o, o + j]` -/
def win (o j x : Nat) : Bool := decide (o ≤ x) && decide (x ≤ o + j)

theorem win_true (o j x : Nat) : win o j x = true ↔ (o ≤ x ∧ x ≤ o + j) := by simp [win]

theorem win_false (o j x : Nat) : win o j x = false ↔ ¬ (o ≤ x ∧ x ≤ o + j) := by
  rw [← win_true]; cases win o j x <;> simp

theorem filter_window (idxs : List Nat) (o j : Nat) :
    (idxs.filter (win o (j + 1))).length = idxs.count o + (idxs.filter (win (o + 1) j)).length := by
  induction idxs with
  | nil => rfl
  | cons a t ih =>
    simp only [List.filter_cons, List.count_cons]
    by_cases h1 : a = o
    · subst h1
      have e1 : win a (j + 1) a = true := (win_true _ _ _).mpr (by omega)
      have e2 : win (a + 1) j a = false := (win_false _ _ _).mpr (by omega)
      simp only [e1, e2, if_true, List.length_cons, ih, beq_self_eq_true]
      simp; omega
    · have e3 : (a == o) = false := by simp [h1]
      by_cases h2 : o + 1 ≤ a ∧ a ≤ o + 1 + j
      · have e1 : win o (j + 1) a = true := (win_true _ _ _).mpr (by omega)
        have e2 : win (o + 1) j a = true := (win_true _ _ _).mpr h2
        simp only [e1, e2, if_true, List.length_cons, ih, e3]
        simp; omega
      · have e1 : win o (j + 1) a = false := (win_false _ _ _).mpr (by omega)
        have e2 : win (o + 1) j a = false := (win_false _ _ _).mpr h2
        simp only [e1, e2, e3]
        simpa using ih

theorem filter_window_zero (idxs : List Nat) (o : Nat) : (idxs.filter (win o 0)).length = idxs.count o := by
  induction idxs with
  | nil => rfl
  | cons a t ih =>
    simp only [List.filter_cons, List.count_cons]
    by_cases h1 : a = o
    · subst h1
      have e1 : win a 0 a = true := (win_true _ _ _).mpr (by omega)
      simp [e1, ih]
    · have e1 : win o 0 a = false := (win_false _ _ _).mpr (by omega)
      have e3 : (a == o) = false := by simp [h1]
      simp only [e1, e3]
      simpa using ih

/-- if bucket `o + t` holds the number of indices equal to `o + t`, the running sum at `j` is the
number of indices in the window `[o, o + j]` -/
theorem cumulate_counts (idxs : List Nat) : ∀ (l : List Nat) (acc o : Nat),
    (∀ t, t < l.length → l.getD t 0 = idxs.count (o + t)) →
    ∀ j, j < l.length → (cumulate acc l).getD j 0 = acc + (idxs.filter (win o j)).length := by
  intro l
  induction l with
  | nil => intro acc o _ j hj; simp at hj
  | cons x t ih =>
    intro acc o hl j hj
    have hx : x = idxs.count o := by simpa using hl 0 (by simp)
    cases j with
    | zero =>
      simp only [cumulate, List.getD_cons_zero]
      rw [filter_window_zero, hx]
    | succ j =>
      simp only [cumulate, List.getD_cons_succ]
      have hl' : ∀ t', t' < t.length → t.getD t' 0 = idxs.count (o + 1 + t') := by
        intro t' ht'
        have := hl (t' + 1) (by simp; omega)
        simp only [List.getD_cons_succ] at this
        rw [this]; congr 1; omega
      rw [ih (acc + x) (o + 1) hl' j (by simpa using hj), filter_window, hx]
      omega


/-! ### one histogram object -/

/-- tally bucket indices of the recorded samples (samples of the other type are ignored) -/
def idxsOf (spec : HSpec) (levs : List LEv) : List Nat := (Spec.C17.samplesIn levs).filterMap spec.place

/-- what the histogram clause needs to know about a bucket spec -/
structure SpecFacts (spec : HSpec) : Prop where
  obs_len : spec.obs.length = spec.promBounds.length + 1
  /-- tally bucket `t` keeps a float that Prometheus files under its own bound `t`; the last
  tally bucket's float lies beyond every bound -/
  target : ∀ t (ht : t < spec.obs.length),
    if 0 + t < spec.promBounds.length then Buckets.rawPlaceValue spec.promBounds spec.obs[t] = 0 + t
    else spec.promBounds.length ≤ Buckets.rawPlaceValue spec.promBounds spec.obs[t]
  place_range : ∀ s idx, spec.place s = some idx → idx < spec.obs.length

theorem idxsOf_cons_sample (spec : HSpec) (s : Sample) (t : List LEv) :
    idxsOf spec (.sample s :: t) = (match spec.place s with | some idx => idx :: idxsOf spec t | none => idxsOf spec t) := by
  simp only [idxsOf, Spec.C17.samplesIn, List.filterMap_cons]
  cases spec.place s <;> rfl

theorem hist_local (h : Handle) (spec : HSpec) (hf : SpecFacts spec) (levs : List LEv) :
    ∀ (pend bk : List Nat) (c : Nat), pend.length = spec.obs.length → bk.length = spec.promBounds.length →
    ∃ pend' bk' c',
      localRun (.histogram h spec pend) (.histogram spec.promBounds bk c) levs
        = (.histogram h spec pend', .histogram spec.promBounds bk' c')
      ∧ pend'.length = spec.obs.length ∧ bk'.length = spec.promBounds.length
      ∧ (∀ j, j < spec.promBounds.length →
          bk'.getD j 0 + pend'.getD j 0 = bk.getD j 0 + pend.getD j 0 + (idxsOf spec levs).count j)
      ∧ c' + pend'.sum = c + pend.sum + (idxsOf spec levs).length := by
  induction levs with
  | nil =>
    intro pend bk c hp hb
    exact ⟨pend, bk, c, rfl, hp, hb, by intro j _; simp [idxsOf, Spec.C17.samplesIn], by simp [idxsOf, Spec.C17.samplesIn]⟩
  | cons e t ih =>
    intro pend bk c hp hb
    cases e with
    | inc n =>
      obtain ⟨p', b', c', h1, h2, h3, h4, h5⟩ := ih pend bk c hp hb
      exact ⟨p', b', c', by simpa [localRun, localStep] using h1, h2, h3,
        by simpa [idxsOf, Spec.C17.samplesIn] using h4, by simpa [idxsOf, Spec.C17.samplesIn] using h5⟩
    | update n =>
      obtain ⟨p', b', c', h1, h2, h3, h4, h5⟩ := ih pend bk c hp hb
      exact ⟨p', b', c', by simpa [localRun, localStep] using h1, h2, h3,
        by simpa [idxsOf, Spec.C17.samplesIn] using h4, by simpa [idxsOf, Spec.C17.samplesIn] using h5⟩
    | record n =>
      obtain ⟨p', b', c', h1, h2, h3, h4, h5⟩ := ih pend bk c hp hb
      exact ⟨p', b', c', by simpa [localRun, localStep] using h1, h2, h3,
        by simpa [idxsOf, Spec.C17.samplesIn] using h4, by simpa [idxsOf, Spec.C17.samplesIn] using h5⟩
    | sample s =>
      rw [idxsOf_cons_sample]
      cases hpl : spec.place s with
      | none =>
        obtain ⟨p', b', c', h1, h2, h3, h4, h5⟩ := ih pend bk c hp hb
        exact ⟨p', b', c', by simpa [localRun, localStep, hpl] using h1, h2, h3, h4, h5⟩
      | some idx =>
        have hidx : idx < pend.length := by rw [hp]; exact hf.place_range s idx hpl
        obtain ⟨p', b', c', h1, h2, h3, h4, h5⟩ := ih (bump pend idx) bk c (by rw [bump_length]; exact hp) hb
        refine ⟨p', b', c', by simpa [localRun, localStep, hpl] using h1, h2, h3, ?_, ?_⟩
        · intro j hj
          rw [h4 j hj, bump_getD]
          simp only [List.count_cons]
          by_cases hji : j = idx
          · subst hji; simp [hidx]; omega
          · have : (idx == j) = false := by simp; exact fun e => hji e.symm
            simp [hji, this]
        · rw [h5, bump_sum]
          simp [hidx]; omega
    | pass =>
      obtain ⟨bk1, f1, f2, f3⟩ := flush_hist spec.promBounds spec.obs pend 0 bk c hp hb hf.target
      obtain ⟨p', b', c', h1, h2, h3, h4, h5⟩ := ih (pend.map fun _ => 0) bk1 (c + pend.sum) (by simpa using hp) (by rw [f2]; exact hb)
      refine ⟨p', b', c', ?_, h2, h3, ?_, ?_⟩
      · simp only [localRun, localStep]
        rw [f1]; exact h1
      · intro j hj
        have := h4 j hj
        rw [f3, zeros_getD] at this
        simp only [Nat.zero_le, hj, and_self, if_true, Nat.sub_zero] at this
        simpa [idxsOf, Spec.C17.samplesIn] using this
      · rw [zeros_sum] at h5
        simpa [idxsOf, Spec.C17.samplesIn] using h5


theorem sampleFits_place (spec : HSpec) (s : Sample) : Spec.C17.sampleFits spec s = (spec.place s).isSome := by
  cases spec <;> cases s <;> rfl

theorem boundsOf_eq (spec : HSpec) : Spec.C17.boundsOf spec = spec.promBounds := by
  cases spec <;> rfl

theorem filterMap_filter_length (l : List α) (f : α → Option Nat) (p : Nat → Bool) (q fit : α → Bool)
    (h1 : ∀ a ∈ l, fit a = (f a).isSome) (h2 : ∀ a ∈ l, ∀ i, f a = some i → p i = q a) :
    ((l.filterMap f).filter p).length = ((l.filter fit).filter q).length
      ∧ (l.filterMap f).length = (l.filter fit).length := by
  induction l with
  | nil => exact ⟨rfl, rfl⟩
  | cons a t ih =>
    obtain ⟨i1, i2⟩ := ih (fun a ha => h1 a (List.mem_cons_of_mem _ ha)) (fun a ha => h2 a (List.mem_cons_of_mem _ ha))
    have ha1 := h1 a (List.mem_cons_self ..)
    have ha2 := h2 a (List.mem_cons_self ..)
    cases hfa : f a with
    | none =>
      rw [hfa] at ha1
      simp only [List.filterMap_cons, hfa, List.filter_cons, ha1, Option.isSome_none]
      exact ⟨i1, i2⟩
    | some i =>
      rw [hfa] at ha1
      have := ha2 i hfa
      simp only [List.filterMap_cons, hfa, List.filter_cons, ha1, Option.isSome_some, if_true, this]
      constructor
      · split
        · simp [i1]
        · exact i1
      · simp [i2]

theorem samplesIn_append (a b : List LEv) :
    Spec.C17.samplesIn (a ++ b) = Spec.C17.samplesIn a ++ Spec.C17.samplesIn b := by
  induction a with
  | nil => rfl
  | cons e t ih => cases e <;> simp [Spec.C17.samplesIn, ih]

/-- **the histogram clause for one object**: after a final pass the series exports exactly the
oracle's expected histogram -/
theorem hist_final (h : Handle) (spec : HSpec) (hf : SpecFacts spec) (levs : List LEv)
    (hl : ∀ s ∈ Spec.C17.samplesIn levs, ∀ idx j, spec.place s = some idx → j < spec.promBounds.length →
      win 0 j idx = Spec.C17.sampleLe spec j s) :
    (localRun (.histogram h spec (spec.obs.map fun _ => 0))
        (.histogram spec.promBounds (spec.promBounds.map fun _ => 0) 0) (levs ++ [.pass])).2.export
      = Spec.C17.expectedHistogram spec (Spec.C17.samplesIn levs) := by
  rw [localRun_append]
  obtain ⟨p1, b1, c1, h1, h2, h3, h4, h5⟩ :=
    hist_local h spec hf levs (spec.obs.map fun _ => 0) (spec.promBounds.map fun _ => 0) 0 (by simp) (by simp)
  rw [h1]
  obtain ⟨b2, f1, f2, f3⟩ := flush_hist spec.promBounds spec.obs p1 0 b1 c1 h2 h3 hf.target
  simp only [localRun, localStep, f1, Val.export]
  rw [zeros_sum] at h5
  have hcount : ∀ j, j < b2.length → b2.getD j 0 = (idxsOf spec levs).count (0 + j) := by
    intro j hj
    have hj' : j < spec.promBounds.length := by rw [f2, h3] at hj; exact hj
    have := h4 j hj'
    simp only [zeros_getD] at this
    rw [f3]
    simp only [Nat.zero_le, hj', and_self, if_true, Nat.sub_zero, Nat.zero_add]
    omega
  unfold Spec.C17.expectedHistogram
  simp only [boundsOf_eq]
  have hlen : (idxsOf spec levs).length = ((Spec.C17.samplesIn levs).filter (Spec.C17.sampleFits spec)).length :=
    (filterMap_filter_length (Spec.C17.samplesIn levs) spec.place (fun _ => true) (fun _ => true)
      (Spec.C17.sampleFits spec) (fun a _ => sampleFits_place spec a) (fun _ _ _ _ => rfl)).2
  congr 1
  · apply List.ext_getElem
    · simp [cumulate_length, f2, h3]
    · intro j hj1 hj2
      have hj : j < spec.promBounds.length := by simpa using hj2
      simp only [List.getElem_zip, List.getElem_map, List.getElem_range]
      have hjb : j < b2.length := by rw [f2, h3]; exact hj
      have hc := cumulate_counts (idxsOf spec levs) b2 0 0 hcount j hjb
      have e1 : (cumulate 0 b2)[j]'(by rw [cumulate_length]; exact hjb) = (cumulate 0 b2).getD j 0 :=
        (getD_eq_getElem _ _ (by rw [cumulate_length]; exact hjb)).symm
      have e2 : spec.promBounds[j] = spec.promBounds.getD j 0 := (getD_eq_getElem _ _ hj).symm
      rw [e1, hc, e2]
      congr 1
      simp only [Nat.zero_add]
      exact (filterMap_filter_length (Spec.C17.samplesIn levs) spec.place (win 0 j) (Spec.C17.sampleLe spec j)
        (Spec.C17.sampleFits spec) (fun a _ => sampleFits_place spec a)
        (fun a ha i hi => hl a ha i j hi hj)).1
  · omega

end Tally.Prom
