import Tally.Model.GetOrCreateLock
/-!
# Lemmas for the lock-level get-or-create model (C09): the thread map, the invariant, one-step facts
-/
namespace Tally.GetOrCreateLock

/-! ## the thread map -/

theorem lookupPc_upd_same (pcs : List (Nat × Pc)) (t : Nat) (p : Pc) : lookupPc (updPcs pcs t p) t = p := by
  simp [lookupPc, updPcs]

theorem lookup_filter_other (pcs : List (Nat × Pc)) (t u : Nat) (h : u ≠ t) :
    (pcs.filter (·.1 != t)).lookup u = pcs.lookup u := by
  induction pcs with
  | nil => rfl
  | cons a l ih =>
    obtain ⟨k, v⟩ := a
    by_cases hk : k = t
    · subst hk
      have h1 : ((k, v).1 != k) = false := by simp
      have h2 : (u == k) = false := by simp [h]
      simp only [List.filter, h1, List.lookup, h2, ih]
    · have h1 : ((k, v).1 != t) = true := by simp [hk]
      simp only [List.filter, h1, List.lookup]
      split
      · rfl
      · exact ih

theorem lookupPc_upd_other (pcs : List (Nat × Pc)) (t u : Nat) (p : Pc) (h : u ≠ t) :
    lookupPc (updPcs pcs t p) u = lookupPc pcs u := by
  have hne : (u == t) = false := by simp [h]
  simp only [lookupPc, updPcs, List.lookup, hne, lookup_filter_other pcs t u h]

theorem keys_upd (pcs : List (Nat × Pc)) (t : Nat) (p : Pc) (h : (pcs.map (·.1)).Nodup) :
    ((updPcs pcs t p).map (·.1)).Nodup := by
  simp only [updPcs, List.map_cons, List.nodup_cons]
  refine ⟨?_, ?_⟩
  · intro hm
    obtain ⟨x, hx, hxt⟩ := List.mem_map.mp hm
    have := (List.mem_filter.mp hx).2
    simp at this
    exact this hxt
  · exact h.sublist ((List.filter_sublist).map _)

/-- a clause of the form "`A u` iff the pc of `u` satisfies `P`" survives the update of one thread's pc -/
theorem upd_iff {pcs : List (Nat × Pc)} {t : Nat} {p : Pc} {A A' : Nat → Prop} {P : Pc → Prop}
    (h : ∀ u, A u ↔ P (lookupPc pcs u)) (ht : A' t ↔ P p) (ho : ∀ u, u ≠ t → (A' u ↔ A u)) :
    ∀ u, A' u ↔ P (lookupPc (updPcs pcs t p) u) := by
  intro u
  by_cases hu : u = t
  · subst hu; rw [lookupPc_upd_same]; exact ht
  · rw [lookupPc_upd_other _ _ _ _ hu]; exact (ho u hu).trans (h u)

theorem upd_writer {pcs : List (Nat × Pc)} {t : Nat} {p : Pc} {w w' : Option Nat}
    (h : ∀ u, w = some u ↔ (lookupPc pcs u = .locked ∨ lookupPc pcs u = .allocating))
    (ht : w' = some t ↔ (p = .locked ∨ p = .allocating)) (ho : ∀ u, u ≠ t → (w' = some u ↔ w = some u)) :
    ∀ u, w' = some u ↔ (lookupPc (updPcs pcs t p) u = .locked ∨ lookupPc (updPcs pcs t p) u = .allocating) :=
  upd_iff (A := fun u => w = some u) (A' := fun u => w' = some u) (P := fun q => q = .locked ∨ q = .allocating) h ht ho

theorem upd_readers {pcs : List (Nat × Pc)} {t : Nat} {p : Pc} {r r' : List Nat}
    (h : ∀ u, u ∈ r ↔ (lookupPc pcs u = .probing ∨ lookupPc pcs u = .passReading))
    (ht : t ∈ r' ↔ (p = .probing ∨ p = .passReading)) (ho : ∀ u, u ≠ t → (u ∈ r' ↔ u ∈ r)) :
    ∀ u, u ∈ r' ↔ (lookupPc (updPcs pcs t p) u = .probing ∨ lookupPc (updPcs pcs t p) u = .passReading) :=
  upd_iff (A := fun u => u ∈ r) (A' := fun u => u ∈ r') (P := fun q => q = .probing ∨ q = .passReading) h ht ho

/-- a clause of the form "every thread's pc satisfies `R`" survives the update of one thread's pc -/
theorem upd_all {pcs : List (Nat × Pc)} {t : Nat} {p : Pc} {R : Pc → Prop}
    (h : ∀ u, R (lookupPc pcs u)) (hp : R p) : ∀ u, R (lookupPc (updPcs pcs t p) u) := by
  intro u
  by_cases hu : u = t
  · subst hu; rw [lookupPc_upd_same]; exact hp
  · rw [lookupPc_upd_other _ _ _ _ hu]; exact h u

theorem upd_all' {pcs : List (Nat × Pc)} {t : Nat} {p : Pc} {R : Pc → Prop}
    (h : ∀ u, u ≠ t → R (lookupPc pcs u)) (hp : R p) : ∀ u, R (lookupPc (updPcs pcs t p) u) := by
  intro u
  by_cases hu : u = t
  · subst hu; rw [lookupPc_upd_same]; exact hp
  · rw [lookupPc_upd_other _ _ _ _ hu]; exact h u hu

/-! ## counting the threads inside Allocate -/

def cntA (pcs : List (Nat × Pc)) : Nat := (pcs.filter (fun x => x.2 == Pc.allocating)).length

theorem allocating_eq (s : State) : allocating s = cntA s.pcs := rfl

theorem cntA_cons (k : Nat) (v : Pc) (l : List (Nat × Pc)) :
    cntA ((k, v) :: l) = (if v = .allocating then 1 else 0) + cntA l := by
  by_cases hv : v = .allocating
  · subst hv; simp [cntA]; omega
  · simp [cntA, hv]

theorem cntA_filter (pcs : List (Nat × Pc)) (t : Nat) (h : (pcs.map (·.1)).Nodup) :
    cntA (pcs.filter (·.1 != t)) + (if lookupPc pcs t = .allocating then 1 else 0) = cntA pcs := by
  induction pcs with
  | nil => simp [cntA, lookupPc]
  | cons a l ih =>
    obtain ⟨k, v⟩ := a
    simp only [List.map_cons, List.nodup_cons] at h
    by_cases hk : k = t
    · subst hk
      have hself : l.filter (·.1 != k) = l := by
        rw [List.filter_eq_self]
        intro x hx
        have : x.1 ≠ k := fun he => h.1 (he ▸ List.mem_map_of_mem hx)
        simp [this]
      have h1 : ((k, v).1 != k) = false := by simp
      have hl : lookupPc ((k, v) :: l) k = v := by simp [lookupPc, List.lookup]
      simp only [List.filter, h1, hself, hl, cntA_cons]
      omega
    · have h1 : ((k, v).1 != t) = true := by simp [hk]
      have h2 : (t == k) = false := by simp [Ne.symm hk]
      have hl : lookupPc ((k, v) :: l) t = lookupPc l t := by simp [lookupPc, List.lookup, h2]
      simp only [List.filter, h1, hl, cntA_cons]
      have := ih h.2
      omega

theorem cntA_upd (pcs : List (Nat × Pc)) (t : Nat) (p : Pc) (h : (pcs.map (·.1)).Nodup) :
    cntA (updPcs pcs t p) + (if lookupPc pcs t = .allocating then 1 else 0)
      = cntA pcs + (if p = .allocating then 1 else 0) := by
  have := cntA_filter pcs t h
  simp only [updPcs, cntA_cons]
  omega

/-! ## the invariant -/

structure Inv (s : State) : Prop where
  keys_nodup : (s.pcs.map (·.1)).Nodup
  writer_iff : ∀ t, s.writer = some t ↔ (lookupPc s.pcs t = .locked ∨ lookupPc s.pcs t = .allocating)
  readers_iff : ∀ t, t ∈ s.readers ↔ (lookupPc s.pcs t = .probing ∨ lookupPc s.pcs t = .passReading)
  readers_nodup : s.readers.Nodup
  excl : s.writer ≠ none → s.readers = []
  results_slot : ∀ r ∈ s.results, s.slot = some r.2
  returned_slot : ∀ t, ∀ id, lookupPc s.pcs t = .returned id → s.slot = some id
  slot_lt : ∀ id, s.slot = some id → id < s.nextId
  accounting : s.allocs = s.allocsDone + s.panics.length + cntA s.pcs
  done_zero : s.slot = none → s.allocsDone = 0
  done_one : s.slot ≠ none → s.allocsDone = 1
  alloc_slot : ∀ t, lookupPc s.pcs t = .allocating → s.slot = none
  seen_slot : ∀ x ∈ s.seen, ∀ id, x.2 = some id → s.slot = some id

theorem inv_init : Inv init := by
  constructor <;> simp [init, lookupPc, cntA]

theorem inv_step {s s' : State} {e : Ev} (h : Inv s) (hs : step s e = some s') : Inv s' := by
  obtain ⟨slot, writer, readers, allocs, allocsDone, nextId, pcs, results, panics, seen⟩ := s
  obtain ⟨hk, hw, hr, hn, hx, hrs, hret, hlt, hacc, hd0, hd1, has, hseen⟩ := h
  simp only at hk hw hr hn hx hrs hret hlt hacc hd0 hd1 has hseen
  cases e with
  | probeLock t =>
    simp only [step] at hs
    split at hs
    · rename_i hc; simp only [pcOf] at hc; obtain ⟨hpc, hwn⟩ := hc
      simp only [Option.some.injEq] at hs; subst hs
      subst hwn
      have hcnt := cntA_upd pcs t .probing hk
      simp [hpc] at hcnt
      refine ⟨keys_upd _ _ _ hk, ?_, ?_, ?_, ?_, hrs, ?_, hlt, ?_, hd0, hd1, ?_, hseen⟩
      · exact upd_writer hw (by simp) (fun u _ => Iff.rfl)
      · exact upd_readers hr (by simp) (fun u hu => by simp [hu])
      · refine List.nodup_cons.mpr ⟨?_, hn⟩
        intro hm; have := (hr t).mp hm; simp [hpc] at this
      · intro hc; exact absurd rfl hc
      · exact upd_all (R := fun q => ∀ id, q = Pc.returned id → slot = some id) hret (by simp)
      · simp only; omega
      · exact upd_all (R := fun q => q = Pc.allocating → slot = none) has (by simp)
    · cases hs
  | probeUnlock t =>
    simp only [step] at hs
    split at hs
    · rename_i hpc; simp only [pcOf] at hpc
      have hcnt := cntA_upd pcs t
      simp [hpc] at hcnt
      have hwn : writer = none := by
        cases hwr : writer with
        | none => rfl
        | some w =>
          have h1 := hx (by simp [hwr])
          have h2 := (hr t).mpr (Or.inl hpc)
          rw [h1] at h2; cases h2
      subst hwn
      have hrd : ∀ u, u ≠ t → (u ∈ readers.erase t ↔ u ∈ readers) := fun u hu => List.mem_erase_of_ne hu
      have hnt : t ∉ readers.erase t := fun hm => (List.Nodup.mem_erase_iff hn).mp hm |>.1 rfl
      cases slot with
      | some id =>
        simp only [Option.some.injEq] at hs; subst hs
        have hcnt := hcnt (.returned id) hk; simp at hcnt
        refine ⟨keys_upd _ _ _ hk, ?_, ?_, hn.erase _, ?_, ?_, ?_, hlt, ?_, hd0, hd1, ?_, hseen⟩
        · exact upd_writer hw (by simp) (fun u _ => Iff.rfl)
        · exact upd_readers hr (by simp [hnt]) hrd
        · intro hc; exact absurd rfl hc
        · intro r hr'
          rcases List.mem_cons.mp hr' with rfl | hr'
          · rfl
          · exact hrs r hr'
        · exact upd_all (R := fun q => ∀ id', q = Pc.returned id' → some id = some id') hret
            (by intro id' he; injection he with he; subst he; rfl)
        · simp only; omega
        · exact upd_all (R := fun q => q = Pc.allocating → some id = none) has (by simp)
      | none =>
        simp only [Option.some.injEq] at hs; subst hs
        have hcnt := hcnt .missed hk; simp at hcnt
        refine ⟨keys_upd _ _ _ hk, ?_, ?_, hn.erase _, ?_, hrs, ?_, hlt, ?_, hd0, hd1, ?_, hseen⟩
        · exact upd_writer hw (by simp) (fun u _ => Iff.rfl)
        · exact upd_readers hr (by simp [hnt]) hrd
        · intro hc; exact absurd rfl hc
        · exact upd_all (R := fun q => ∀ id', q = Pc.returned id' → none = some id') hret (by simp)
        · simp only; omega
        · exact upd_all (R := fun q => q = Pc.allocating → (none : Option Nat) = none) has (by simp)
    · cases hs
  | lock t =>
    simp only [step] at hs
    split at hs
    · rename_i hc; simp only [pcOf] at hc; obtain ⟨hpc, hwn, hrn⟩ := hc
      simp only [Option.some.injEq] at hs; subst hs
      subst hwn; subst hrn
      have hcnt := cntA_upd pcs t .locked hk
      simp [hpc] at hcnt
      refine ⟨keys_upd _ _ _ hk, ?_, ?_, hn, ?_, hrs, ?_, hlt, ?_, hd0, hd1, ?_, hseen⟩
      · refine upd_writer hw (by simp) (fun u hu => ?_)
        simp [Ne.symm hu]
      · exact upd_readers hr (by simp) (fun u _ => Iff.rfl)
      · intro _; rfl
      · exact upd_all (R := fun q => ∀ id, q = Pc.returned id → slot = some id) hret (by simp)
      · simp only; omega
      · exact upd_all (R := fun q => q = Pc.allocating → slot = none) has (by simp)
    · cases hs
  | recheck t =>
    simp only [step] at hs
    split at hs
    · rename_i hpc; simp only [pcOf] at hpc
      have hcnt := cntA_upd pcs t
      simp [hpc] at hcnt
      have hwt : writer = some t := (hw t).mpr (Or.inl hpc)
      subst hwt
      have hrn : readers = [] := hx (by simp)
      subst hrn
      cases slot with
      | some id =>
        simp only [Option.some.injEq] at hs; subst hs
        have hcnt := hcnt (.returned id) hk; simp at hcnt
        refine ⟨keys_upd _ _ _ hk, ?_, ?_, hn, ?_, ?_, ?_, hlt, ?_, hd0, hd1, ?_, hseen⟩
        · refine upd_writer hw (by simp) (fun u hu => ?_)
          simp [Ne.symm hu]
        · exact upd_readers hr (by simp) (fun u _ => Iff.rfl)
        · intro _; rfl
        · intro r hr'
          rcases List.mem_cons.mp hr' with rfl | hr'
          · rfl
          · exact hrs r hr'
        · exact upd_all (R := fun q => ∀ id', q = Pc.returned id' → some id = some id') hret
            (by intro id' he; injection he with he; subst he; rfl)
        · simp only; omega
        · exact upd_all (R := fun q => q = Pc.allocating → some id = none) has (by simp)
      | none =>
        simp only [Option.some.injEq] at hs; subst hs
        have hcnt := hcnt .allocating hk; simp at hcnt
        refine ⟨keys_upd _ _ _ hk, ?_, ?_, hn, hx, hrs, ?_, hlt, ?_, hd0, hd1, ?_, hseen⟩
        · exact upd_writer hw (by simp) (fun u _ => Iff.rfl)
        · exact upd_readers hr (by simp) (fun u _ => Iff.rfl)
        · exact upd_all (R := fun q => ∀ id', q = Pc.returned id' → none = some id') hret (by simp)
        · simp only; omega
        · exact upd_all (R := fun q => q = Pc.allocating → (none : Option Nat) = none) has (by simp)
    · cases hs
  | allocReturn t =>
    simp only [step] at hs
    split at hs
    · rename_i hpc; simp only [pcOf] at hpc
      simp only [Option.some.injEq] at hs; subst hs
      have hcnt := cntA_upd pcs t (.returned nextId) hk
      simp [hpc] at hcnt
      have hwt : writer = some t := (hw t).mpr (Or.inr hpc)
      subst hwt
      have hrn : readers = [] := hx (by simp)
      subst hrn
      have hsl : slot = none := has t hpc
      subst hsl
      have hz := hd0 rfl
      refine ⟨keys_upd _ _ _ hk, ?_, ?_, hn, ?_, ?_, ?_, ?_, ?_, ?_, ?_, ?_, ?_⟩
      · refine upd_writer hw (by simp) (fun u hu => ?_)
        simp [Ne.symm hu]
      · exact upd_readers hr (by simp) (fun u _ => Iff.rfl)
      · intro _; rfl
      · intro r hr'
        rcases List.mem_cons.mp hr' with rfl | hr'
        · rfl
        · have := hrs r hr'; cases this
      · refine upd_all (R := fun q => ∀ id', q = Pc.returned id' → some nextId = some id') ?_
          (by intro id' he; injection he with he; subst he; rfl)
        intro u id' hu; have := hret u id' hu; cases this
      · intro id hid; simp only [Option.some.injEq] at hid; subst hid; simp only; omega
      · simp only; omega
      · intro hc; cases hc
      · intro _; simp only; omega
      · refine upd_all' (R := fun q => q = Pc.allocating → some nextId = none) ?_ (by simp)
        intro u hut hu
        have h1 := (hw u).mpr (Or.inr hu)
        simp only [Option.some.injEq] at h1
        exact absurd h1.symm hut
      · intro x hx' id hid
        have := hseen x hx' id hid; cases this
    · cases hs
  | allocPanic t =>
    simp only [step] at hs
    split at hs
    · rename_i hpc; simp only [pcOf] at hpc
      simp only [Option.some.injEq] at hs; subst hs
      have hcnt := cntA_upd pcs t .panicked hk
      simp [hpc] at hcnt
      have hwt : writer = some t := (hw t).mpr (Or.inr hpc)
      subst hwt
      have hrn : readers = [] := hx (by simp)
      subst hrn
      refine ⟨keys_upd _ _ _ hk, ?_, ?_, hn, ?_, hrs, ?_, hlt, ?_, hd0, hd1, ?_, hseen⟩
      · refine upd_writer hw (by simp) (fun u hu => ?_)
        simp [Ne.symm hu]
      · exact upd_readers hr (by simp) (fun u _ => Iff.rfl)
      · intro _; rfl
      · exact upd_all (R := fun q => ∀ id, q = Pc.returned id → slot = some id) hret (by simp)
      · simp only [List.length_append, List.length_cons, List.length_nil]; omega
      · exact upd_all (R := fun q => q = Pc.allocating → slot = none) has (by simp)
    · cases hs
  | finish t =>
    simp only [step] at hs
    have hcnt := cntA_upd pcs t .idle hk
    split at hs
    · rename_i id hpc; simp only [pcOf] at hpc
      simp only [Option.some.injEq] at hs; subst hs
      simp [hpc] at hcnt
      refine ⟨keys_upd _ _ _ hk, ?_, ?_, hn, hx, hrs, ?_, hlt, ?_, hd0, hd1, ?_, hseen⟩
      · exact upd_writer hw (by rw [hw t, hpc]; simp) (fun u _ => Iff.rfl)
      · exact upd_readers hr (by rw [hr t, hpc]; simp) (fun u _ => Iff.rfl)
      · exact upd_all (R := fun q => ∀ id, q = Pc.returned id → slot = some id) hret (by simp)
      · simp only; omega
      · exact upd_all (R := fun q => q = Pc.allocating → slot = none) has (by simp)
    · rename_i hpc; simp only [pcOf] at hpc
      simp only [Option.some.injEq] at hs; subst hs
      simp [hpc] at hcnt
      refine ⟨keys_upd _ _ _ hk, ?_, ?_, hn, hx, hrs, ?_, hlt, ?_, hd0, hd1, ?_, hseen⟩
      · exact upd_writer hw (by rw [hw t, hpc]; simp) (fun u _ => Iff.rfl)
      · exact upd_readers hr (by rw [hr t, hpc]; simp) (fun u _ => Iff.rfl)
      · exact upd_all (R := fun q => ∀ id, q = Pc.returned id → slot = some id) hret (by simp)
      · simp only; omega
      · exact upd_all (R := fun q => q = Pc.allocating → slot = none) has (by simp)
    · cases hs
  | passLock p =>
    simp only [step] at hs
    split at hs
    · rename_i hc; simp only [pcOf] at hc; obtain ⟨hpc, hwn⟩ := hc
      simp only [Option.some.injEq] at hs; subst hs
      subst hwn
      have hcnt := cntA_upd pcs p .passReading hk
      have hna : lookupPc pcs p ≠ .allocating := by rcases hpc with h | h <;> simp [h]
      simp [hna] at hcnt
      refine ⟨keys_upd _ _ _ hk, ?_, ?_, ?_, ?_, hrs, ?_, hlt, ?_, hd0, hd1, ?_, hseen⟩
      · exact upd_writer hw (by simp) (fun u _ => Iff.rfl)
      · exact upd_readers hr (by simp) (fun u hu => by simp [hu])
      · refine List.nodup_cons.mpr ⟨?_, hn⟩
        intro hm; have := (hr p).mp hm
        rcases hpc with h | h <;> simp [h] at this
      · intro hc; exact absurd rfl hc
      · exact upd_all (R := fun q => ∀ id, q = Pc.returned id → slot = some id) hret (by simp)
      · simp only; omega
      · exact upd_all (R := fun q => q = Pc.allocating → slot = none) has (by simp)
    · cases hs
  | passUnlock p =>
    simp only [step] at hs
    split at hs
    · rename_i hpc; simp only [pcOf] at hpc
      simp only [Option.some.injEq] at hs; subst hs
      have hcnt := cntA_upd pcs p .passIdle hk
      simp [hpc] at hcnt
      have hwn : writer = none := by
        cases hwr : writer with
        | none => rfl
        | some w =>
          have h1 := hx (by simp [hwr])
          have h2 := (hr p).mpr (Or.inr hpc)
          rw [h1] at h2; cases h2
      subst hwn
      have hrd : ∀ u, u ≠ p → (u ∈ readers.erase p ↔ u ∈ readers) := fun u hu => List.mem_erase_of_ne hu
      have hnt : p ∉ readers.erase p := fun hm => (List.Nodup.mem_erase_iff hn).mp hm |>.1 rfl
      refine ⟨keys_upd _ _ _ hk, ?_, ?_, hn.erase _, ?_, hrs, ?_, hlt, ?_, hd0, hd1, ?_, ?_⟩
      · exact upd_writer hw (by simp) (fun u _ => Iff.rfl)
      · exact upd_readers hr (by simp [hnt]) hrd
      · intro hc; exact absurd rfl hc
      · exact upd_all (R := fun q => ∀ id, q = Pc.returned id → slot = some id) hret (by simp)
      · simp only; omega
      · exact upd_all (R := fun q => q = Pc.allocating → slot = none) has (by simp)
      · intro x hx' id hid
        rcases List.mem_append.mp hx' with hx' | hx'
        · exact hseen x hx' id hid
        · simp only [List.mem_singleton] at hx'; subst hx'; exact hid
    · cases hs

theorem inv_run {s s' : State} {es : List Ev} (h : Inv s) (hr : run s es = some s') : Inv s' := by
  induction es generalizing s with
  | nil => simp only [run, Option.some.injEq] at hr; subst hr; exact h
  | cons e es ih =>
    simp only [run] at hr
    cases h1 : step s e with
    | none => simp [h1] at hr
    | some s1 => simp only [h1] at hr; exact ih (inv_step h h1) hr

theorem run_append {s s1 s2 : State} {es1 es2 : List Ev} (h1 : run s es1 = some s1) (h2 : run s1 es2 = some s2) :
    run s (es1 ++ es2) = some s2 := by
  induction es1 generalizing s with
  | nil => simp only [run, Option.some.injEq] at h1; subst h1; exact h2
  | cons e es ih =>
    simp only [run, List.cons_append] at h1 ⊢
    cases hs : step s e with
    | none => simp [hs] at h1
    | some s' => simp only [hs] at h1 ⊢; exact ih h1

theorem run_cons {s s1 s2 : State} {e : Ev} {es : List Ev} (h1 : step s e = some s1) (h2 : run s1 es = some s2) :
    run s (e :: es) = some s2 := by
  simp only [run, h1, h2]

/-! ## at most one thread is inside Allocate -/

theorem lookupPc_of_mem {pcs : List (Nat × Pc)} (h : (pcs.map (·.1)).Nodup) {k : Nat} {v : Pc} (hm : (k, v) ∈ pcs) :
    lookupPc pcs k = v := by
  induction pcs with
  | nil => cases hm
  | cons a l ih =>
    obtain ⟨k', v'⟩ := a
    simp only [List.map_cons, List.nodup_cons] at h
    rcases List.mem_cons.mp hm with he | hm'
    · injection he with h1 h2; subst h1; subst h2
      simp [lookupPc, List.lookup]
    · have hne : k ≠ k' := fun he => h.1 (he ▸ List.mem_map_of_mem hm')
      have h2 : (k == k') = false := by simp [hne]
      have := ih h.2 hm'
      simpa [lookupPc, List.lookup, h2] using this

theorem mem_keys_of_lookupPc_ne_idle {pcs : List (Nat × Pc)} {k : Nat} (h : lookupPc pcs k ≠ .idle) :
    k ∈ pcs.map (·.1) := by
  induction pcs with
  | nil => simp [lookupPc] at h
  | cons a l ih =>
    obtain ⟨k', v'⟩ := a
    by_cases hk : k = k'
    · subst hk; simp
    · have h2 : (k == k') = false := by simp [hk]
      have : lookupPc l k ≠ .idle := by simpa [lookupPc, List.lookup, h2] using h
      simp only [List.map_cons, List.mem_cons]
      exact Or.inr (ih this)

theorem cntA_pos_mem {pcs : List (Nat × Pc)} (h : 0 < cntA pcs) : ∃ k, (k, Pc.allocating) ∈ pcs := by
  unfold cntA at h
  obtain ⟨x, hx⟩ := List.exists_mem_of_length_pos h
  obtain ⟨hx1, hx2⟩ := List.mem_filter.mp hx
  obtain ⟨k, v⟩ := x
  simp only [beq_iff_eq] at hx2
  subst hx2
  exact ⟨k, hx1⟩

theorem cntA_le_one {pcs : List (Nat × Pc)} (h : (pcs.map (·.1)).Nodup)
    (hu : ∀ u v, lookupPc pcs u = .allocating → lookupPc pcs v = .allocating → u = v) : cntA pcs ≤ 1 := by
  induction pcs with
  | nil => simp [cntA]
  | cons a l ih =>
    obtain ⟨k, v⟩ := a
    simp only [List.map_cons, List.nodup_cons] at h
    have hlift : ∀ u, lookupPc l u = .allocating → lookupPc ((k, v) :: l) u = .allocating := by
      intro u hu'
      have hm : u ∈ l.map (·.1) := mem_keys_of_lookupPc_ne_idle (by rw [hu']; simp)
      have hne : u ≠ k := fun he => h.1 (he ▸ hm)
      have h2 : (u == k) = false := by simp [hne]
      simpa [lookupPc, List.lookup, h2] using hu'
    have ihl := ih h.2 (fun u w h1 h2 => hu u w (hlift u h1) (hlift w h2))
    rw [cntA_cons]
    by_cases hv : v = .allocating
    · subst hv
      have hz : cntA l = 0 := by
        apply Nat.eq_zero_of_not_pos
        intro hpos
        obtain ⟨k', hk'⟩ := cntA_pos_mem hpos
        have h1 := hlift k' (lookupPc_of_mem h.2 hk')
        have h2 : lookupPc ((k, Pc.allocating) :: l) k = .allocating := by simp [lookupPc, List.lookup]
        have := hu k' k h1 h2
        subst this
        exact h.1 (List.mem_map_of_mem hk')
      simp [hz]
    · simp [hv]; exact ihl

theorem Inv.allocating_le_one {s : State} (h : Inv s) : allocating s ≤ 1 := by
  rw [allocating_eq]
  refine cntA_le_one h.keys_nodup ?_
  intro u v hu hv
  have h1 := (h.writer_iff u).mpr (Or.inr hu)
  have h2 := (h.writer_iff v).mpr (Or.inr hv)
  rw [h1] at h2; injection h2

/-! ## what one step does to the histories -/

theorem step_seen {s s' : State} {e : Ev} (hs : step s e = some s') :
    s'.seen = s.seen ∨ ∃ p, e = .passUnlock p ∧ pcOf s p = .passReading ∧ s'.seen = s.seen ++ [(p, s.slot)] := by
  cases e <;> simp only [step] at hs <;> (repeat' split at hs) <;>
    first
    | (simp only [Option.some.injEq] at hs; subst hs; exact Or.inl rfl)
    | (rename_i hpc; simp only [Option.some.injEq] at hs; subst hs; exact Or.inr ⟨_, rfl, hpc, rfl⟩)
    | cases hs

theorem step_results {s s' : State} {e : Ev} (hs : step s e = some s') :
    s'.results = s.results ∨
    ∃ t id, s'.results = (t, id) :: s.results ∧ s'.slot = some id ∧
      (e = .probeUnlock t ∨ e = .recheck t ∨ e = .allocReturn t) := by
  cases e <;> simp only [step] at hs <;> (repeat' split at hs) <;>
    first
    | (simp only [Option.some.injEq] at hs; subst hs; exact Or.inl rfl)
    | (simp only [Option.some.injEq] at hs; subst hs; refine Or.inr ⟨_, _, rfl, ?_, ?_⟩ <;> simp [*]; done)
    | cases hs

/-! ## enabled steps and their frames -/

theorem probeLock_ok {s : State} {t : Nat} (h : pcOf s t = .idle) (hw : s.writer = none) :
    ∃ s', step s (.probeLock t) = some s' ∧ s'.writer = none ∧ s'.readers = t :: s.readers ∧ s'.slot = s.slot ∧
      pcOf s' t = .probing ∧ ∀ u, u ≠ t → pcOf s' u = pcOf s u :=
  ⟨{ s with readers := t :: s.readers, pcs := updPcs s.pcs t .probing }, by simp [step, h, hw], hw, rfl, rfl,
    lookupPc_upd_same _ _ _, fun u hu => lookupPc_upd_other _ _ _ _ hu⟩

theorem probeUnlock_ok {s : State} {t : Nat} (h : pcOf s t = .probing) :
    ∃ s', step s (.probeUnlock t) = some s' ∧ s'.writer = s.writer ∧ s'.readers = s.readers.erase t ∧ s'.slot = s.slot ∧
      (pcOf s' t = match s.slot with | some id => .returned id | none => .missed) ∧
      (∀ id, s.slot = some id → s'.results = (t, id) :: s.results) ∧
      ∀ u, u ≠ t → pcOf s' u = pcOf s u := by
  cases hsl : s.slot with
  | some id =>
    exact ⟨{ s with readers := s.readers.erase t, pcs := updPcs s.pcs t (.returned id), results := (t, id) :: s.results },
      by simp [step, h, hsl], rfl, rfl, hsl, lookupPc_upd_same _ _ _,
      (fun id' he => by injection he with he; subst he; rfl), fun u hu => lookupPc_upd_other _ _ _ _ hu⟩
  | none =>
    exact ⟨{ s with readers := s.readers.erase t, pcs := updPcs s.pcs t .missed },
      by simp [step, h, hsl], rfl, rfl, hsl, lookupPc_upd_same _ _ _,
      (fun id' he => by cases he), fun u hu => lookupPc_upd_other _ _ _ _ hu⟩

theorem lock_ok {s : State} {t : Nat} (h : pcOf s t = .missed) (hw : s.writer = none) (hr : s.readers = []) :
    ∃ s', step s (.lock t) = some s' ∧ s'.writer = some t ∧ s'.readers = [] ∧ s'.slot = s.slot ∧
      pcOf s' t = .locked ∧ ∀ u, u ≠ t → pcOf s' u = pcOf s u :=
  ⟨{ s with writer := some t, pcs := updPcs s.pcs t .locked }, by simp [step, h, hw, hr], rfl, hr, rfl,
    lookupPc_upd_same _ _ _, fun u hu => lookupPc_upd_other _ _ _ _ hu⟩

theorem recheck_hit_ok {s : State} {t id : Nat} (h : pcOf s t = .locked) (hsl : s.slot = some id) :
    ∃ s', step s (.recheck t) = some s' ∧ s'.writer = none ∧ s'.readers = s.readers ∧ s'.slot = some id ∧
      pcOf s' t = .returned id ∧ s'.results = (t, id) :: s.results ∧ ∀ u, u ≠ t → pcOf s' u = pcOf s u :=
  ⟨{ s with writer := none, pcs := updPcs s.pcs t (.returned id), results := (t, id) :: s.results },
    by simp [step, h, hsl], rfl, rfl, hsl, lookupPc_upd_same _ _ _, rfl, fun u hu => lookupPc_upd_other _ _ _ _ hu⟩

theorem recheck_miss_ok {s : State} {t : Nat} (h : pcOf s t = .locked) (hsl : s.slot = none) :
    ∃ s', step s (.recheck t) = some s' ∧ s'.writer = s.writer ∧ s'.readers = s.readers ∧ s'.slot = none ∧
      pcOf s' t = .allocating ∧ ∀ u, u ≠ t → pcOf s' u = pcOf s u :=
  ⟨{ s with allocs := s.allocs + 1, pcs := updPcs s.pcs t .allocating },
    by simp [step, h, hsl], rfl, rfl, hsl, lookupPc_upd_same _ _ _, fun u hu => lookupPc_upd_other _ _ _ _ hu⟩

theorem allocReturn_ok {s : State} {t : Nat} (h : pcOf s t = .allocating) :
    ∃ s', step s (.allocReturn t) = some s' ∧ s'.writer = none ∧ s'.readers = s.readers ∧ s'.slot = some s.nextId ∧
      pcOf s' t = .returned s.nextId ∧ s'.results = (t, s.nextId) :: s.results ∧ ∀ u, u ≠ t → pcOf s' u = pcOf s u :=
  ⟨{ s with slot := some s.nextId, nextId := s.nextId + 1, allocsDone := s.allocsDone + 1, writer := none,
            pcs := updPcs s.pcs t (.returned s.nextId), results := (t, s.nextId) :: s.results },
    by simp [step, h], rfl, rfl, rfl, lookupPc_upd_same _ _ _, rfl, fun u hu => lookupPc_upd_other _ _ _ _ hu⟩

theorem allocPanic_ok {s : State} {t : Nat} (h : pcOf s t = .allocating) : ∃ s', step s (.allocPanic t) = some s' :=
  ⟨{ s with writer := none, pcs := updPcs s.pcs t .panicked, panics := s.panics ++ [t] }, by simp [step, h]⟩

theorem finish_ok {s : State} {t : Nat} (h : (∃ id, pcOf s t = .returned id) ∨ pcOf s t = .panicked) :
    ∃ s', step s (.finish t) = some s' := by
  rcases h with ⟨id, h⟩ | h <;> exact ⟨{ s with pcs := updPcs s.pcs t .idle }, by simp [step, h]⟩

theorem passUnlock_ok {s : State} {p : Nat} (h : pcOf s p = .passReading) :
    ∃ s', step s (.passUnlock p) = some s' ∧ s'.writer = s.writer ∧ s'.readers = s.readers.erase p ∧ s'.slot = s.slot ∧
      pcOf s' p = .passIdle ∧ ∀ u, u ≠ p → pcOf s' u = pcOf s u :=
  ⟨{ s with readers := s.readers.erase p, pcs := updPcs s.pcs p .passIdle, seen := s.seen ++ [(p, s.slot)] },
    by simp [step, h], rfl, rfl, rfl, lookupPc_upd_same _ _ _, fun u hu => lookupPc_upd_other _ _ _ _ hu⟩

/-! ## draining the lock: every holder finishes its critical section -/

/-- all read-lock holders release (probes by `probeUnlock`, passes by `passUnlock`) -/
theorem drain_readers (n : Nat) : ∀ {s : State}, Inv s → s.writer = none → s.readers.length = n →
    ∃ es s', run s es = some s' ∧ s'.writer = none ∧ s'.readers = [] ∧ s'.slot = s.slot ∧
      ∀ u, pcOf s u = .idle → pcOf s' u = .idle := by
  induction n with
  | zero =>
    intro s _ hw hl
    exact ⟨[], s, rfl, hw, List.length_eq_zero_iff.mp hl, rfl, fun _ h => h⟩
  | succ n ih =>
    intro s hinv hw hl
    cases hrd : s.readers with
    | nil => rw [hrd] at hl; cases hl
    | cons r rs =>
      have hlen : rs.length = n := by rw [hrd] at hl; simpa using hl
      have hpc := (hinv.readers_iff r).mp (by rw [hrd]; simp)
      rcases hpc with hpc | hpc
      · obtain ⟨s1, h1, hw1, hr1, hs1, _, _, ho1⟩ := probeUnlock_ok (s := s) (t := r) hpc
        rw [hrd, List.erase_cons_head] at hr1
        obtain ⟨es, s', h2, hw2, hr2, hs2, hi2⟩ := ih (inv_step hinv h1) (hw1.trans hw) (hr1 ▸ hlen)
        refine ⟨_ :: es, s', run_cons h1 h2, hw2, hr2, hs2.trans hs1, ?_⟩
        intro u hu
        have hne : u ≠ r := by intro he; subst he; simp [pcOf] at hu hpc; rw [hu] at hpc; cases hpc
        exact hi2 u ((ho1 u hne).trans hu)
      · obtain ⟨s1, h1, hw1, hr1, hs1, _, ho1⟩ := passUnlock_ok (s := s) (p := r) hpc
        rw [hrd, List.erase_cons_head] at hr1
        obtain ⟨es, s', h2, hw2, hr2, hs2, hi2⟩ := ih (inv_step hinv h1) (hw1.trans hw) (hr1 ▸ hlen)
        refine ⟨_ :: es, s', run_cons h1 h2, hw2, hr2, hs2.trans hs1, ?_⟩
        intro u hu
        have hne : u ≠ r := by intro he; subst he; simp [pcOf] at hu hpc; rw [hu] at hpc; cases hpc
        exact hi2 u ((ho1 u hne).trans hu)

/-- the write-lock holder finishes: re-check, and if it has to allocate, `Allocate` returns -/
theorem drain_writer {s : State} (hinv : Inv s) {w : Nat} (hw : s.writer = some w) :
    ∃ es s', run s es = some s' ∧ s'.writer = none ∧ s'.readers = [] ∧ ∀ u, pcOf s u = .idle → pcOf s' u = .idle := by
  have hrd : s.readers = [] := hinv.excl (by rw [hw]; simp)
  have hne : ∀ u, pcOf s u = .idle → u ≠ w := by
    intro u hu he; subst he
    rcases (hinv.writer_iff u).mp hw with h | h <;> (simp only [pcOf] at hu; rw [hu] at h; cases h)
  rcases (hinv.writer_iff w).mp hw with hpc | hpc
  · cases hsl : s.slot with
    | some id =>
      obtain ⟨s1, h1, hw1, hr1, _, _, _, ho1⟩ := recheck_hit_ok (s := s) (t := w) hpc hsl
      exact ⟨[_], s1, run_cons h1 rfl, hw1, hr1.trans hrd, fun u hu => (ho1 u (hne u hu)).trans hu⟩
    | none =>
      obtain ⟨s1, h1, _, hr1, _, hpc1, ho1⟩ := recheck_miss_ok (s := s) (t := w) hpc hsl
      obtain ⟨s2, h2, hw2, hr2, _, _, _, ho2⟩ := allocReturn_ok (s := s1) (t := w) hpc1
      exact ⟨[_, _], s2, run_cons h1 (run_cons h2 rfl), hw2, hr2.trans (hr1.trans hrd),
        fun u hu => (ho2 u (hne u hu)).trans ((ho1 u (hne u hu)).trans hu)⟩
  · obtain ⟨s1, h1, hw1, hr1, _, _, _, ho1⟩ := allocReturn_ok (s := s) (t := w) hpc
    exact ⟨[_], s1, run_cons h1 rfl, hw1, hr1.trans hrd, fun u hu => (ho1 u (hne u hu)).trans hu⟩

theorem drain {s : State} (hinv : Inv s) :
    ∃ es s', run s es = some s' ∧ s'.writer = none ∧ s'.readers = [] ∧ ∀ u, pcOf s u = .idle → pcOf s' u = .idle := by
  cases hw : s.writer with
  | none =>
    obtain ⟨es, s', h1, h2, h3, _, h5⟩ := drain_readers s.readers.length hinv hw rfl
    exact ⟨es, s', h1, h2, h3, h5⟩
  | some w => exact drain_writer hinv hw

/-- with the lock free, a call of an idle thread runs alone to its return -/
theorem solo_call {s : State} {t : Nat} (hw : s.writer = none) (hr : s.readers = []) (ht : pcOf s t = .idle) :
    ∃ es s' id, run s es = some s' ∧ pcOf s' t = .returned id ∧ s'.slot = some id ∧
      s'.results.head? = some (t, id) ∧ s'.writer = none ∧ s'.readers = [] := by
  obtain ⟨s1, h1, hw1, hr1, hs1, hp1, _⟩ := probeLock_ok ht hw
  obtain ⟨s2, h2, hw2, hr2, hs2, hp2, hres2, _⟩ := probeUnlock_ok (s := s1) (t := t) hp1
  have hr2' : s2.readers = [] := by rw [hr2, hr1, hr]; simp
  cases hsl : s1.slot with
  | some id =>
    rw [hsl] at hp2
    exact ⟨[_, _], s2, id, run_cons h1 (run_cons h2 rfl), hp2, hs2.trans hsl, by rw [hres2 id hsl]; rfl,
      hw2.trans hw1, hr2'⟩
  | none =>
    rw [hsl] at hp2
    obtain ⟨s3, h3, _, hr3, hs3, hp3, _⟩ := lock_ok (s := s2) (t := t) hp2 (hw2.trans hw1) hr2'
    obtain ⟨s4, h4, _, hr4, _, hp4, _⟩ := recheck_miss_ok (s := s3) (t := t) hp3 (hs3.trans (hs2.trans hsl))
    obtain ⟨s5, h5, hw5, hr5, hs5, hp5, hres5, _⟩ := allocReturn_ok (s := s4) (t := t) hp4
    refine ⟨[_, _, _, _, _], s5, s4.nextId, run_cons h1 (run_cons h2 (run_cons h3 (run_cons h4 (run_cons h5 rfl)))),
      hp5, hs5, by rw [hres5]; rfl, hw5, ?_⟩
    rw [hr5, hr4, hr3]

end Tally.GetOrCreateLock
