import TallyProofs.Lemmas.M3LifeInv
/-!
Every step of the M3 life-cycle model preserves `Inv`, and no step from a state satisfying `Inv`
panics (send on a closed channel / second close).
-/
set_option linter.unusedSimpArgs false
set_option linter.unusedVariables false
namespace Tally.M3Life

/-- one action `a` of thread `t` (weights changing as `Local` says): never a panic, and `Inv` is kept -/
theorem inv_act (s : State) (hI : Inv s) (t : Nat) (pc pc' : Pc) (a : Act)
    (ht : s.thr[t]? = some pc) (hl : Local s.done pc pc' a) :
    (∀ w, applyAct s a ≠ .panic w) ∧
    ∀ s1, applyAct s a = .ok s1 → Inv { s1 with thr := s1.thr.set t pc' } := by
  obtain ⟨A, B, C⟩ := mkCtx s hI t pc pc' ht
  obtain ⟨hthr, hset, pend, win, dcl, mcl, quiet, waited, a1, a2, a3, a4, a5, b1, b2, b3, b4, b5,
    p1, p2, p3, p4, p5, q1, q2, q3, q4, q5, d1, d2, d3⟩ := C
  have hbf : b2n false = 0 := rfl
  have hbt : b2n true = 1 := rfl
  cases a with
  | inc =>
    obtain ⟨l1, l2, l3, l4, l5, l6, l7, l8⟩ := hl
    refine ⟨by simp [applyAct], ?_⟩
    intro s1 h1
    simp only [applyAct, Outcome.ok.injEq] at h1
    subst h1
    exact {
      pend := by dsimp only; rw [hset]; simp only [sumOf_append, sumOf_cons]; omega
      win := by dsimp only; rw [hset]; simp only [sumOf_append, sumOf_cons]; omega
      dcl := by dsimp only; rw [hset]; simp only [sumOf_append, sumOf_cons]; omega
      mcl := by dsimp only; rw [hset]; simp only [sumOf_append, sumOf_cons]; omega
      quiet := by dsimp only; rw [hset]; simp only [sumOf_append, sumOf_cons]; omega
      conserv := hI.conserv, late := hI.late, consEx := hI.consEx, clockEx := hI.clockEx
      waited := by
        dsimp only; rw [hset]; simp only [sumOf_append, sumOf_cons]
        intro h; apply waited; omega
      bound := hI.bound }
  | load =>
    obtain ⟨l1, l2, l2', l3, l4, l5, l6, l7, l8⟩ := hl
    refine ⟨by simp [applyAct], ?_⟩
    intro s1 h1
    simp only [applyAct, Outcome.ok.injEq] at h1
    subst h1
    exact {
      pend := by dsimp only; rw [hset]; simp only [sumOf_append, sumOf_cons]; omega
      win := by dsimp only; rw [hset]; simp only [sumOf_append, sumOf_cons]; omega
      dcl := by dsimp only; rw [hset]; simp only [sumOf_append, sumOf_cons]; omega
      mcl := by dsimp only; rw [hset]; simp only [sumOf_append, sumOf_cons]; omega
      quiet := by dsimp only; rw [hset]; simp only [sumOf_append, sumOf_cons]; omega
      conserv := hI.conserv, late := hI.late, consEx := hI.consEx, clockEx := hI.clockEx
      waited := by
        dsimp only; rw [hset]; simp only [sumOf_append, sumOf_cons]
        intro h; apply waited; omega
      bound := hI.bound }
  | dec =>
    obtain ⟨l1, l2, l3, l4, l5, l6, l7, l8⟩ := hl
    refine ⟨by simp [applyAct], ?_⟩
    intro s1 h1
    simp only [applyAct, Outcome.ok.injEq] at h1
    subst h1
    exact {
      pend := by dsimp only; rw [hset]; simp only [sumOf_append, sumOf_cons]; omega
      win := by dsimp only; rw [hset]; simp only [sumOf_append, sumOf_cons]; omega
      dcl := by dsimp only; rw [hset]; simp only [sumOf_append, sumOf_cons]; omega
      mcl := by dsimp only; rw [hset]; simp only [sumOf_append, sumOf_cons]; omega
      quiet := by dsimp only; rw [hset]; simp only [sumOf_append, sumOf_cons]; omega
      conserv := hI.conserv, late := hI.late, consEx := hI.consEx, clockEx := hI.clockEx
      waited := by
        dsimp only; rw [hset]; simp only [sumOf_append, sumOf_cons]
        intro h; apply waited; omega
      bound := hI.bound }
  | bail => exact absurd hl (by simp [Local])
  | send it =>
    obtain ⟨l1, l2, l2', l3, l4, l5, l6, l7, l8⟩ := hl
    have hopen : s.metChClosed = false := by
      cases hm : s.metChClosed with
      | false => rfl
      | true => have := b2n_true hm; omega
    have hnotret : closeReturned s = false := by
      unfold closeReturned
      rw [hthr]; simp only [sumOf_append, sumOf_cons, decide_eq_false_iff_not]
      have e : ((A ++ pc :: B).map retOk).sum = sumOf retOk A + (retOk pc + sumOf retOk B) := by
        simp [sumOf]
      rw [e]; omega
    refine ⟨by intro w; simp only [applyAct, hopen, Bool.false_eq_true, if_false]; split <;> simp, ?_⟩
    intro s1 h1
    simp only [applyAct, hopen, Bool.false_eq_true, if_false] at h1
    split at h1
    · next hroom =>
      simp only [Outcome.ok.injEq] at h1
      subst h1
      exact {
        pend := by dsimp only; rw [hset]; simp only [sumOf_append, sumOf_cons]; omega
        win := by dsimp only; rw [hset]; simp only [sumOf_append, sumOf_cons]; omega
        dcl := by dsimp only; rw [hset]; simp only [sumOf_append, sumOf_cons]; omega
        mcl := by dsimp only; rw [hset]; simp only [sumOf_append, sumOf_cons]; omega
        quiet := by dsimp only; rw [hset]; simp only [sumOf_append, sumOf_cons]; omega
        conserv := by dsimp only; rw [hI.conserv, List.append_assoc]
        late := by dsimp only; rw [hnotret]; simpa using hI.late
        consEx := by
          dsimp only; intro hc
          have := (hI.consEx hc).1; rw [hopen] at this; cases this
        clockEx := hI.clockEx
        waited := by
          dsimp only; rw [hset]; simp only [sumOf_append, sumOf_cons]
          intro h; apply waited; omega
        bound := by dsimp only; simp only [List.length_append, List.length_cons, List.length_nil]; omega }
    · cases h1
  | cas =>
    obtain ⟨⟨h1', h2', h3', h4'⟩, l1, l2, l3, l4, l5, l6, l7, l8, l9, l10⟩ := hl
    refine ⟨by simp [applyAct], ?_⟩
    intro s1 h1
    simp only [applyAct, Outcome.ok.injEq] at h1
    subst h1
    exact {
      pend := by dsimp only; rw [hset]; simp only [sumOf_append, sumOf_cons]; omega
      win := by dsimp only; rw [hset]; simp only [sumOf_append, sumOf_cons, b2n_lit_true]; omega
      dcl := by dsimp only; rw [hset]; simp only [sumOf_append, sumOf_cons]; omega
      mcl := by dsimp only; rw [hset]; simp only [sumOf_append, sumOf_cons]; omega
      quiet := by dsimp only; rw [hset]; simp only [sumOf_append, sumOf_cons]; omega
      conserv := hI.conserv, late := hI.late, consEx := hI.consEx
      clockEx := by dsimp only; intro _; rfl
      waited := by
        dsimp only; rw [hset]; simp only [sumOf_append, sumOf_cons]
        intro h; apply waited; omega
      bound := hI.bound }
  | spin =>
    obtain ⟨⟨h1', h2', h3', h4'⟩, l1, l2, l3, l4, l5, l6, l7, l8, l9, l10⟩ := hl
    refine ⟨by simp only [applyAct]; intro w; split <;> simp, ?_⟩
    intro s1 h1
    simp only [applyAct] at h1
    split at h1
    · next hz =>
      simp only [Outcome.ok.injEq] at h1
      subst h1
      exact {
        pend := by rw [hset]; simp only [sumOf_append, sumOf_cons]; omega
        win := by rw [hset]; simp only [sumOf_append, sumOf_cons]; omega
        dcl := by rw [hset]; simp only [sumOf_append, sumOf_cons]; omega
        mcl := by rw [hset]; simp only [sumOf_append, sumOf_cons]; omega
        quiet := by rw [hset]; simp only [sumOf_append, sumOf_cons]; omega
        conserv := hI.conserv, late := hI.late, consEx := hI.consEx, clockEx := hI.clockEx
        waited := by
          rw [hset]; simp only [sumOf_append, sumOf_cons]
          intro h; apply waited; omega
        bound := hI.bound }
    · cases h1
  | closeDonech =>
    obtain ⟨⟨h1', h2', h3', h4'⟩, l1, l2, l3, l4, l5, l6, l7, l8, l9, l10⟩ := hl
    have hopen : s.donechClosed = false := by
      cases hm : s.donechClosed with
      | false => rfl
      | true => have := b2n_true hm; omega
    have hd0 := b2n_false hopen
    refine ⟨by simp [applyAct, hopen], ?_⟩
    intro s1 h1
    simp only [applyAct, hopen, Bool.false_eq_true, if_false, Outcome.ok.injEq] at h1
    subst h1
    exact {
      pend := by dsimp only; rw [hset]; simp only [sumOf_append, sumOf_cons]; omega
      win := by dsimp only; rw [hset]; simp only [sumOf_append, sumOf_cons]; omega
      dcl := by dsimp only; rw [hset]; simp only [sumOf_append, sumOf_cons, b2n_lit_true]; omega
      mcl := by dsimp only; rw [hset]; simp only [sumOf_append, sumOf_cons]; omega
      quiet := by dsimp only; rw [hset]; simp only [sumOf_append, sumOf_cons]; omega
      conserv := hI.conserv, late := hI.late, consEx := hI.consEx, clockEx := hI.clockEx
      waited := by
        dsimp only; rw [hset]; simp only [sumOf_append, sumOf_cons]
        intro h; apply waited; omega
      bound := hI.bound }
  | closeMetch =>
    obtain ⟨⟨h1', h2', h3', h4'⟩, l1, l2, l3, l4, l5, l6, l7, l8, l9, l10⟩ := hl
    have hopen : s.metChClosed = false := by
      cases hm : s.metChClosed with
      | false => rfl
      | true => have := b2n_true hm; omega
    have hd0 := b2n_false hopen
    refine ⟨by simp [applyAct, hopen], ?_⟩
    intro s1 h1
    simp only [applyAct, hopen, Bool.false_eq_true, if_false, Outcome.ok.injEq] at h1
    subst h1
    exact {
      pend := by dsimp only; rw [hset]; simp only [sumOf_append, sumOf_cons]; omega
      win := by dsimp only; rw [hset]; simp only [sumOf_append, sumOf_cons]; omega
      dcl := by dsimp only; rw [hset]; simp only [sumOf_append, sumOf_cons]; omega
      mcl := by dsimp only; rw [hset]; simp only [sumOf_append, sumOf_cons, b2n_lit_true]; omega
      quiet := by dsimp only; rw [hset]; simp only [sumOf_append, sumOf_cons]; omega
      conserv := hI.conserv, late := hI.late
      consEx := by
        dsimp only; intro hc
        have := (hI.consEx hc).1; rw [hopen] at this; cases this
      clockEx := hI.clockEx
      waited := by
        dsimp only; rw [hset]; simp only [sumOf_append, sumOf_cons]
        intro h; apply waited; omega
      bound := hI.bound }
  | wait =>
    obtain ⟨⟨h1', h2', h3', h4'⟩, l1, l2, l3, l4, l5, l6, l7, l8, l9, l10⟩ := hl
    refine ⟨by simp only [applyAct]; intro w; split <;> simp, ?_⟩
    intro s1 h1
    simp only [applyAct] at h1
    split at h1
    · next hz =>
      simp only [Outcome.ok.injEq] at h1
      subst h1
      exact {
        pend := by rw [hset]; simp only [sumOf_append, sumOf_cons]; omega
        win := by rw [hset]; simp only [sumOf_append, sumOf_cons]; omega
        dcl := by rw [hset]; simp only [sumOf_append, sumOf_cons]; omega
        mcl := by rw [hset]; simp only [sumOf_append, sumOf_cons]; omega
        quiet := by rw [hset]; simp only [sumOf_append, sumOf_cons]; omega
        conserv := hI.conserv, late := hI.late, consEx := hI.consEx, clockEx := hI.clockEx
        waited := fun _ => hz
        bound := hI.bound }
    · cases h1

/-- the `<-donech` branch of a select -/
theorem inv_bail (s : State) (hI : Inv s) (t : Nat) (pc pc' : Pc)
    (ht : s.thr[t]? = some pc) (hb : nextBail pc = some pc') :
    (∀ w, applyAct s .bail ≠ .panic w) ∧
    ∀ s1, applyAct s .bail = .ok s1 → Inv { s1 with thr := s1.thr.set t pc' } := by
  obtain ⟨A, B, C⟩ := mkCtx s hI t pc pc' ht
  obtain ⟨hthr, hset, pend, win, dcl, mcl, quiet, waited, a1, a2, a3, a4, a5, b1, b2, b3, b4, b5,
    p1, p2, p3, p4, p5, q1, q2, q3, q4, q5, d1, d2, d3⟩ := C
  obtain ⟨l1, l2, l2', l3, l4, l5, l6, l7, l8⟩ := nextBail_local pc pc' hb
  refine ⟨by simp only [applyAct]; intro w; split <;> simp, ?_⟩
  intro s1 h1
  simp only [applyAct] at h1
  split at h1
  · simp only [Outcome.ok.injEq] at h1
    subst h1
    exact {
      pend := by rw [hset]; simp only [sumOf_append, sumOf_cons]; omega
      win := by rw [hset]; simp only [sumOf_append, sumOf_cons]; omega
      dcl := by rw [hset]; simp only [sumOf_append, sumOf_cons]; omega
      mcl := by rw [hset]; simp only [sumOf_append, sumOf_cons]; omega
      quiet := by rw [hset]; simp only [sumOf_append, sumOf_cons]; omega
      conserv := hI.conserv, late := hI.late, consEx := hI.consEx, clockEx := hI.clockEx
      waited := by
        rw [hset]; simp only [sumOf_append, sumOf_cons]
        intro h; apply waited; omega
      bound := hI.bound }
  · cases h1

theorem step_act_cases (s : State) (t : Nat) :
    (step s (.act t) = .disabled) ∨
    ∃ pc a pc', s.thr[t]? = some pc ∧ next s.done s.nInternal t pc = some (a, pc') ∧
      step s (.act t) = (match applyAct s a with
        | .ok s' => .ok { s' with thr := s'.thr.set t pc' }
        | o => o) := by
  simp only [step]
  split
  · left; rfl
  · next pc h =>
    split
    · left; rfl
    · next a pc' h2 => right; exact ⟨pc, a, pc', h, h2, rfl⟩

theorem step_bail_cases (s : State) (t : Nat) :
    (step s (.bail t) = .disabled) ∨
    ∃ pc pc', s.thr[t]? = some pc ∧ nextBail pc = some pc' ∧
      step s (.bail t) = (match applyAct s .bail with
        | .ok s' => .ok { s' with thr := s'.thr.set t pc' }
        | o => o) := by
  simp only [step]
  split
  · left; rfl
  · next pc h =>
    split
    · left; rfl
    · next pc' h2 => right; exact ⟨pc, pc', h, h2, rfl⟩

theorem winner_le_done (s : State) (hI : Inv s) (h : sumOf dCl s.thr ≥ 1) : s.done = true := by
  have h1 := sumOf_le _ _ dCl_le_past s.thr
  have h2 := sumOf_le _ _ past_le_winner s.thr
  have := hI.win
  apply b2n_eq_one
  have := b2n_le s.done
  omega

/-- **every step preserves the invariant and none panics** -/
theorem inv_step (s : State) (hI : Inv s) (e : Ev) :
    (∀ w, step s e ≠ .panic w) ∧ ∀ s', step s e = .ok s' → Inv s' := by
  cases e with
  | spawn k =>
    obtain ⟨w1, w2, w3, w4, w5, w6, w7⟩ := start_weights k
    refine ⟨by simp [step], ?_⟩
    intro s' h
    simp only [step, Outcome.ok.injEq] at h
    subst h
    exact {
      pend := by simp only [sumOf_append, sumOf_cons, sumOf_nil, w1]; exact hI.pend
      win := by simp only [sumOf_append, sumOf_cons, sumOf_nil, w3]; exact hI.win
      dcl := by simp only [sumOf_append, sumOf_cons, sumOf_nil, w5]; exact hI.dcl
      mcl := by simp only [sumOf_append, sumOf_cons, sumOf_nil, w6]; exact hI.mcl
      quiet := by simp only [sumOf_append, sumOf_cons, sumOf_nil, w2, w4]; exact hI.quiet
      conserv := hI.conserv, late := hI.late, consEx := hI.consEx, clockEx := hI.clockEx
      waited := by simp only [sumOf_append, sumOf_cons, sumOf_nil, w7]; exact hI.waited
      bound := hI.bound }
  | act t =>
    rcases step_act_cases s t with h | ⟨pc, a, pc', ht, hn, hs⟩
    · rw [h]; exact ⟨by simp, by intro s' h'; cases h'⟩
    · obtain ⟨np, pres⟩ := inv_act s hI t pc pc' a ht (next_local _ _ _ _ _ _ hn)
      rw [hs]
      cases ha : applyAct s a with
      | ok s1 =>
        refine ⟨by simp, ?_⟩
        intro s' h'
        simp only [Outcome.ok.injEq] at h'
        subst h'
        exact pres s1 ha
      | disabled => exact ⟨by simp, by intro s' h'; cases h'⟩
      | panic w => exact absurd ha (np w)
  | bail t =>
    rcases step_bail_cases s t with h | ⟨pc, pc', ht, hn, hs⟩
    · rw [h]; exact ⟨by simp, by intro s' h'; cases h'⟩
    · obtain ⟨np, pres⟩ := inv_bail s hI t pc pc' ht hn
      rw [hs]
      cases ha : applyAct s .bail with
      | ok s1 =>
        refine ⟨by simp, ?_⟩
        intro s' h'
        simp only [Outcome.ok.injEq] at h'
        subst h'
        exact pres s1 ha
      | disabled => exact ⟨by simp, by intro s' h'; cases h'⟩
      | panic w => exact absurd ha (np w)
  | consume =>
    simp only [step]
    split
    · next it q hc hq =>
      refine ⟨by simp, ?_⟩
      intro s' h
      simp only [Outcome.ok.injEq] at h
      subst h
      exact {
        pend := hI.pend, win := hI.win, dcl := hI.dcl, mcl := hI.mcl, quiet := hI.quiet
        conserv := by dsimp only; rw [hI.conserv, hq]; simp
        late := hI.late
        consEx := by dsimp only; intro h; rw [hc] at h; cases h
        clockEx := hI.clockEx
        waited := hI.waited
        bound := by dsimp only; have := hI.bound; rw [hq] at this; simp at this; omega }
    · exact ⟨by simp, by intro s' h'; cases h'⟩
  | consExit =>
    simp only [step]
    split
    · next hc =>
      refine ⟨by simp, ?_⟩
      intro s' h
      simp only [Outcome.ok.injEq] at h
      subst h
      exact {
        pend := hI.pend, win := hI.win, dcl := hI.dcl, mcl := hI.mcl, quiet := hI.quiet
        conserv := hI.conserv, late := hI.late
        consEx := fun _ => ⟨hc.2.1, hc.2.2⟩
        clockEx := hI.clockEx
        waited := fun h => ⟨rfl, (hI.waited h).2⟩
        bound := hI.bound }
    · exact ⟨by simp, by intro s' h'; cases h'⟩
  | clockExit =>
    simp only [step]
    split
    · next hc =>
      refine ⟨by simp, ?_⟩
      intro s' h
      simp only [Outcome.ok.injEq] at h
      subst h
      exact {
        pend := hI.pend, win := hI.win, dcl := hI.dcl, mcl := hI.mcl, quiet := hI.quiet
        conserv := hI.conserv, late := hI.late, consEx := hI.consEx
        clockEx := by
          dsimp only; intro _
          rcases hc.2 with h | h
          · exact h
          · apply winner_le_done s hI
            have := hI.dcl; rw [b2n_true h] at this; omega
        waited := fun h => ⟨(hI.waited h).1, rfl⟩
        bound := hI.bound }
    · exact ⟨by simp, by intro s' h'; cases h'⟩

/-- reachability from an initial state by any interleaving -/
theorem inv_run (s s' : State) (es : List Ev) (hI : Inv s) (hr : run s es = .ok s') : Inv s' := by
  induction es generalizing s with
  | nil => simp only [run, Outcome.ok.injEq] at hr; subst hr; exact hI
  | cons e es ih =>
    simp only [run] at hr
    cases hs : step s e with
    | ok s1 => rw [hs] at hr; exact ih s1 ((inv_step s hI e).2 s1 hs) hr
    | disabled => rw [hs] at hr; cases hr
    | panic w => rw [hs] at hr; cases hr

theorem run_no_panic (s : State) (es : List Ev) (hI : Inv s) (w : String) : run s es ≠ .panic w := by
  induction es generalizing s with
  | nil => simp [run]
  | cons e es ih =>
    simp only [run]
    cases hs : step s e with
    | ok s1 => exact ih s1 ((inv_step s hI e).2 s1 hs)
    | disabled => simp
    | panic w' => exact absurd hs ((inv_step s hI e).1 w')

end Tally.M3Life
