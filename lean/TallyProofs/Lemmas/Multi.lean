import Tally.Model.Multi
import Tally.Spec.C19
/-!
Helper lemmas for C19: the state of the multi-reporter model after a well-formed history has a
closed form (`closed`), and `run` computes exactly that (`run_eq_closed`).
-/
namespace Tally.Lemmas.Multi
open Tally Tally.Multi

/-! ### what the history determines -/

/-- kinds of the metric handles allocated by a history, in allocation order -/
def allocKinds (hist : List Call) : List Kind := hist.filterMap Call.allocKind

/-- number of bucket handles created by a history -/
def numBuckets (hist : List Call) : Nat := hist.countP Call.makesBucket

/-- child `i` of `n` after `hist`: it has seen every call, the `j`-th at time `j * n + i` -/
def childAfter (n : Nat) (hist : List Call) (cap : Caps) (i : Nat) : Child :=
  { caps := cap
    log := hist.zipIdx.map fun q => (q.2 * n + i, q.1)
    nextMetric := (allocKinds hist).length
    nextBucket := numBuckets hist }

/-- the multi reporter after `hist`: handle `k` is the list of every child's handle `k` -/
def closed (fl : Flavour) (caps : List Caps) (hist : List Call) : State :=
  { flavour := fl
    children := caps.zipIdx.map fun p => childAfter caps.length hist p.1 p.2
    seq := hist.length * caps.length
    metrics := (allocKinds hist).zipIdx.map fun p => (p.1, List.replicate caps.length p.2)
    buckets := (List.range (numBuckets hist)).map fun k => List.replicate caps.length k }

/-- what the harness would observe of the model -/
def observe (caps : List Caps) (hist : List Call) (st : State) : Spec.C19.Obs :=
  { caps := caps, calls := hist, returned := hist.map fun _ => true,
    logs := logs st, reported := [capabilities st] }

/-! ### facts about single calls -/

theorem alloc_not_bucket {x : Call} {k : Kind} (h : x.allocKind = some k) : x.makesBucket = false := by
  cases x <;> simp_all [Call.allocKind, Call.makesBucket]

theorem withHandle_metricRef {x : Call} {h : Nat} {k : Kind} (hr : x.metricRef = some (h, k)) :
    x.withHandle h = x := by
  cases x <;> simp_all [Call.metricRef, Call.withHandle]

theorem withHandle_bucketRef {x : Call} {b : Nat} (hr : x.bucketRef = some b) : x.withHandle b = x := by
  cases x <;> simp_all [Call.bucketRef, Call.withHandle]

theorem allocKinds_snoc (hist : List Call) (x : Call) :
    allocKinds (hist ++ [x]) = match x.allocKind with
      | some k => allocKinds hist ++ [k]
      | none => allocKinds hist := by
  unfold allocKinds
  rw [List.filterMap_append]
  cases h : x.allocKind <;> simp [List.filterMap, h]

theorem numBuckets_snoc (hist : List Call) (x : Call) :
    numBuckets (hist ++ [x]) = if x.makesBucket then numBuckets hist + 1 else numBuckets hist := by
  unfold numBuckets
  rw [List.countP_append]
  cases h : x.makesBucket <;> simp [h]

/-! ### the fan-out loop when every child is asked the same thing -/

theorem fan_replicate (cs : List Child) (x : Call) (s : Nat) :
    fan cs (List.replicate cs.length x) s =
      ((cs.zipIdx s).map (fun p => (p.1.call p.2 x).1), cs.map (fun c => (c.call 0 x).2), s + cs.length) := by
  induction cs generalizing s with
  | nil => simp [fan]
  | cons c cs ih =>
    simp only [List.length_cons, List.replicate_succ, fan, ih, List.zipIdx_cons, List.map_cons]
    refine Prod.ext rfl (Prod.ext ?_ ?_)
    · simp only [Child.call]
      cases x.allocKind <;> simp <;> split <;> rfl
    · simp only; omega

theorem call_childAfter (n : Nat) (hist : List Call) (cap : Caps) (i : Nat) (x : Call) :
    ((childAfter n hist cap i).call (hist.length * n + i) x).1 = childAfter n (hist ++ [x]) cap i := by
  have hlog : (hist.zipIdx.map fun q => (q.2 * n + i, q.1)) ++ [(hist.length * n + i, x)]
      = (hist ++ [x]).zipIdx.map fun q => (q.2 * n + i, q.1) := by
    simp [List.zipIdx_append]
  simp only [Child.call, childAfter, allocKinds_snoc, numBuckets_snoc]
  cases hk : x.allocKind with
  | some k => simp [hlog, alloc_not_bucket hk]
  | none => cases hb : x.makesBucket <;> simp [hlog]

theorem ret_childAfter (n : Nat) (hist : List Call) (cap : Caps) (i s : Nat) (x : Call) :
    ((childAfter n hist cap i).call s x).2 =
      match x.allocKind with
      | some _ => (allocKinds hist).length
      | none => if x.makesBucket then numBuckets hist else 0 := by
  simp only [Child.call, childAfter]
  cases x.allocKind <;> simp <;> split <;> rfl

/-! ### one step from the closed form -/

/-- the condition `Spec.C19.wellFormedFrom` puts on one call, given what the history before it allocated -/
def callOk (fl : Flavour) (hist : List Call) (x : Call) : Bool :=
  x.flavourOk fl
  && (match x.metricRef with
      | some (h, k) => (allocKinds hist)[h]? == some k
      | none => true)
  && (match x.bucketRef with
      | some b => decide (b < numBuckets hist)
      | none => true)

theorem metricRef_bucketRef {x : Call} {r : Nat × Kind} (h : x.metricRef = some r) : x.bucketRef = none := by
  cases x <;> simp_all [Call.metricRef, Call.bucketRef]

theorem perChild_closed (fl : Flavour) (caps : List Caps) (hist : List Call) (x : Call)
    (hok : callOk fl hist x = true) :
    perChild (closed fl caps hist) x = some (List.replicate caps.length x) := by
  simp only [callOk, Bool.and_eq_true] at hok
  obtain ⟨⟨_, hm⟩, hb⟩ := hok
  unfold perChild
  cases hmr : x.metricRef with
  | some r =>
    obtain ⟨h, k⟩ := r
    simp only [hmr, beq_iff_eq] at hm
    simp only [closed, List.getElem?_map, List.getElem?_zipIdx, hm, Option.map_some, Nat.zero_add,
      if_true, List.map_replicate, withHandle_metricRef hmr]
  | none =>
    cases hbr : x.bucketRef with
    | some b =>
      simp only [hbr, decide_eq_true_eq] at hb
      simp only [closed, List.getElem?_map, List.getElem?_range hb, Option.map_some,
        List.map_replicate, withHandle_bucketRef hbr]
    | none => simp [closed]

theorem step_closed (fl : Flavour) (caps : List Caps) (hist : List Call) (x : Call)
    (hok : callOk fl hist x = true) :
    step (closed fl caps hist) x = some (closed fl caps (hist ++ [x])) := by
  have hfl : x.flavourOk fl = true := by
    simp only [callOk, Bool.and_eq_true] at hok; exact hok.1.1
  have hlen : (closed fl caps hist).children.length = caps.length := by simp [closed]
  have hfan := fan_replicate (closed fl caps hist).children x (closed fl caps hist).seq
  rw [hlen] at hfan
  -- the children after the call
  have hch : ((closed fl caps hist).children.zipIdx (closed fl caps hist).seq).map
        (fun p => (p.1.call p.2 x).1) = (closed fl caps (hist ++ [x])).children := by
    apply List.ext_getElem?
    intro i
    simp only [closed, List.getElem?_map, List.getElem?_zipIdx, Option.map_map]
    cases caps[i]? with
    | none => rfl
    | some cap => simp [call_childAfter]
  -- what the children returned
  have hret : (closed fl caps hist).children.map (fun c => (c.call 0 x).2) =
      List.replicate caps.length (match x.allocKind with
        | some _ => (allocKinds hist).length
        | none => if x.makesBucket then numBuckets hist else 0) := by
    simp only [closed, List.map_map]
    rw [← List.length_zipIdx (l := caps) (i := 0), ← List.map_const']
    apply List.map_congr_left
    intro p _
    simp [ret_childAfter]
  have hseq : (closed fl caps hist).seq + caps.length = (closed fl caps (hist ++ [x])).seq := by
    simp [closed, Nat.add_mul]
  have hfl' : x.flavourOk (closed fl caps hist).flavour = true := hfl
  simp only [step, perChild_closed fl caps hist x hok, hfan, hch, hret, hseq, hfl', Bool.not_true,
    Bool.false_eq_true, if_false]
  simp only [closed]
  cases hk : x.allocKind with
  | some k =>
    simp [allocKinds_snoc, numBuckets_snoc, hk, alloc_not_bucket hk, List.zipIdx_append]
  | none =>
    cases hb : x.makesBucket with
    | true => simp [allocKinds_snoc, numBuckets_snoc, hk, hb, List.range_succ]
    | false => simp [allocKinds_snoc, numBuckets_snoc, hk, hb]

/-! ### the whole history -/

theorem init_eq_closed (fl : Flavour) (caps : List Caps) : init fl caps = closed fl caps [] := by
  have h : (caps.zipIdx.map fun p => childAfter caps.length [] p.1 p.2)
      = caps.map fun c => ({ caps := c } : Child) := by
    have : (fun p : Caps × Nat => childAfter caps.length [] p.1 p.2)
        = (fun c => ({ caps := c } : Child)) ∘ Prod.fst := by
      funext p; simp [childAfter, allocKinds, numBuckets]
    rw [this, ← List.map_map, List.zipIdx_map_fst]
  simp [init, closed, h, allocKinds, numBuckets]

theorem runFrom_closed (fl : Flavour) (caps : List Caps) (pre rest : List Call)
    (hwf : Spec.C19.wellFormedFrom fl (allocKinds pre) (numBuckets pre) rest = true) :
    runFrom (closed fl caps pre) rest = some (closed fl caps (pre ++ rest)) := by
  induction rest generalizing pre with
  | nil => simp [runFrom]
  | cons x xs ih =>
    simp only [Spec.C19.wellFormedFrom, Bool.and_eq_true] at hwf
    obtain ⟨⟨⟨h1, h2⟩, h3⟩, h4⟩ := hwf
    have hok : callOk fl pre x = true := by
      simp only [callOk, Bool.and_eq_true]; exact ⟨⟨h1, h2⟩, h3⟩
    have hwf' : Spec.C19.wellFormedFrom fl (allocKinds (pre ++ [x])) (numBuckets (pre ++ [x])) xs = true := by
      rw [allocKinds_snoc, numBuckets_snoc]; exact h4
    simp only [runFrom, step_closed fl caps pre x hok]
    rw [ih (pre ++ [x]) hwf', List.append_assoc]; rfl

/-- **the model after a well-formed history is the closed form** -/
theorem run_eq_closed (fl : Flavour) (caps : List Caps) (hist : List Call)
    (hwf : Spec.C19.wellFormed fl hist = true) :
    run fl caps hist = some (closed fl caps hist) := by
  unfold run
  rw [init_eq_closed]
  have := runFrom_closed fl caps [] hist (by simpa [allocKinds, numBuckets, Spec.C19.wellFormed] using hwf)
  simpa using this

/-! ### the closed form against the clauses of the spec -/

theorem logs_closed (fl : Flavour) (caps : List Caps) (hist : List Call) :
    logs (closed fl caps hist) =
      caps.zipIdx.map fun p => hist.zipIdx.map fun q => (q.2 * caps.length + p.2, q.1) := by
  simp [logs, closed, childAfter, List.map_map, Function.comp_def]

theorem map_snd_log (n i : Nat) (hist : List Call) :
    (hist.zipIdx.map fun q => (q.2 * n + i, q.1)).map Prod.snd = hist := by
  rw [List.map_map]
  exact List.zipIdx_map_fst 0 hist

theorem range_flatMap_mul (m n : Nat) :
    ((List.range m).flatMap fun j => (List.range n).map fun i => j * n + i) = List.range (m * n) := by
  induction m with
  | zero => simp
  | succ m ih =>
    rw [List.range_succ, List.flatMap_append, ih, List.flatMap_singleton, Nat.succ_mul, List.range_add]

theorem strictlyIncreasing_range' (s k : Nat) : Spec.C19.strictlyIncreasing (List.range' s k) = true := by
  induction k generalizing s with
  | zero => rfl
  | succ k ih =>
    cases k with
    | zero => rfl
    | succ k =>
      have := ih (s + 1)
      rw [List.range'_succ] at this
      rw [List.range'_succ, List.range'_succ]
      simp only [Spec.C19.strictlyIncreasing, Bool.and_eq_true, decide_eq_true_eq]
      exact ⟨by omega, this⟩

theorem seqMatrix_closed (fl : Flavour) (caps : List Caps) (hist : List Call) :
    Spec.C19.seqMatrix hist.length (logs (closed fl caps hist)) = List.range (hist.length * caps.length) := by
  rw [← range_flatMap_mul, logs_closed]
  unfold Spec.C19.seqMatrix
  -- row `j`
  have row : ∀ j ∈ List.range hist.length,
      (caps.zipIdx.map fun p => hist.zipIdx.map fun q => (q.2 * caps.length + p.2, q.1)).filterMap
          (fun l => l[j]?.map Prod.fst)
        = (List.range caps.length).map fun i => j * caps.length + i := by
    intro j hj
    have hj' : j < hist.length := List.mem_range.mp hj
    rw [List.filterMap_map]
    have : ((fun l : List (Nat × Call) => l[j]?.map Prod.fst) ∘
        fun p : Caps × Nat => hist.zipIdx.map fun q => (q.2 * caps.length + p.2, q.1))
        = fun p => some (j * caps.length + p.2) := by
      funext p
      simp [List.getElem?_zipIdx, List.getElem?_eq_getElem hj']
    rw [this, List.filterMap_eq_map', List.range_eq_range', ← List.zipIdx_map_snd 0 caps, List.map_map]
    rfl
  -- all rows
  have hflat : ∀ (l : List Nat) (f g : Nat → List Nat), (∀ j ∈ l, f j = g j) → l.flatMap f = l.flatMap g := by
    intro l f g h
    induction l with
    | nil => rfl
    | cons a t ih =>
      simp only [List.flatMap_cons]
      rw [h a (by simp), ih (fun j hj => h j (by simp [hj]))]
  exact hflat _ _ _ row

theorem capabilities_fold (cs : List Child) (acc : Caps) :
    cs.foldl (fun acc c => ({ reporting := acc.reporting && c.caps.reporting,
                              tagging := acc.tagging && c.caps.tagging } : Caps)) acc
      = { reporting := acc.reporting && cs.all (·.caps.reporting),
          tagging := acc.tagging && cs.all (·.caps.tagging) } := by
  induction cs generalizing acc with
  | nil => simp
  | cons c cs ih => simp [List.foldl_cons, ih, Bool.and_assoc]

/-- `Capabilities()` of any state is the conjunction over its children -/
theorem capabilities_eq_conj (st : State) :
    capabilities st = Spec.C19.conj (st.children.map (·.caps)) := by
  simp [capabilities, capabilities_fold, Spec.C19.conj, List.all_map, Function.comp_def]

theorem caps_closed (fl : Flavour) (caps : List Caps) (hist : List Call) :
    (closed fl caps hist).children.map (·.caps) = caps := by
  simp only [closed, List.map_map]
  have : ((fun c : Child => c.caps) ∘ fun p : Caps × Nat => childAfter caps.length hist p.1 p.2) = Prod.fst := by
    funext p; rfl
  rw [this, List.zipIdx_map_fst]

end Tally.Lemmas.Multi
