import Tally.Model.KeyGen
import TallyProofs.Lemmas.KeyLemmas
/-!
# Algebra of `canon` (overlay of tag maps) used by C04 / C05.  Core Lean only.

`canon maps` only depends on the function `lookupRight maps`; every identity between overlays
is therefore proved by comparing look-ups (`canon_ext`).
-/
namespace Tally.KeyGen
open Tally

/-! ## look-ups -/

theorem lookup_eq_none_iff_not_mem (m : TagMap) (k : Bytes) :
    m.lookup k = none ↔ k ∉ m.map (·.1) := by
  rw [List.lookup_eq_none_iff]
  constructor
  · intro h hk
    obtain ⟨p, hp, e⟩ := List.mem_map.mp hk
    have := h p hp
    simp [e] at this
  · intro h p hp
    have : k ≠ p.1 := fun e => h (List.mem_map.mpr ⟨p, hp, e.symm⟩)
    simpa using this

theorem lookupRight_nil (k : Bytes) : lookupRight [] k = none := rfl

theorem lookupRight_single (m : TagMap) (k : Bytes) : lookupRight [m] k = m.lookup k := by
  rw [lookupRight_cons, lookupRight_nil]; rfl

theorem lookupRight_pair (a b : TagMap) (k : Bytes) :
    lookupRight [a, b] k = (b.lookup k).or (a.lookup k) := by
  rw [lookupRight_cons, lookupRight_single]

theorem lookupRight_eq_none_iff : ∀ (maps : List TagMap) (k : Bytes),
    lookupRight maps k = none ↔ k ∉ allKeys maps
  | [], k => by simp [lookupRight_nil, allKeys]
  | m :: ms, k => by
    rw [lookupRight_cons, allKeys_cons, List.mem_append, Option.or_eq_none_iff,
      lookupRight_eq_none_iff ms k, lookup_eq_none_iff_not_mem]
    constructor
    · rintro ⟨h1, h2⟩ (h | h)
      · exact h2 h
      · exact h1 h
    · intro h
      exact ⟨fun x => h (.inr x), fun x => h (.inl x)⟩

theorem mem_canonKeys (maps : List TagMap) (k : Bytes) : k ∈ canonKeys maps ↔ k ∈ allKeys maps := by
  rw [canonKeys, List.mem_eraseDups]
  exact (insertionSort_perm _).mem_iff

theorem canon_keys (maps : List TagMap) : (canon maps).map (·.1) = canonKeys maps := by
  simp [canon_eq_map, kvOf, Function.comp_def]

/-- looking a key up in the overlay is looking it up in the maps, rightmost first -/
theorem lookup_canon (maps : List TagMap) (k : Bytes) : (canon maps).lookup k = lookupRight maps k := by
  by_cases hk : k ∈ canonKeys maps
  · rw [show canon maps = (canonKeys maps).map fun x => (x, (lookupRight maps x).getD []) from rfl,
      lookup_map_self _ k _ hk]
    cases h : lookupRight maps k with
    | none =>
      exact absurd ((mem_canonKeys maps k).mp hk) ((lookupRight_eq_none_iff maps k).mp h)
    | some v => rfl
  · have h1 : (canon maps).lookup k = none := by
      rw [lookup_eq_none_iff_not_mem, canon_keys]; exact hk
    have h2 : lookupRight maps k = none := by
      rw [lookupRight_eq_none_iff, ← mem_canonKeys]; exact hk
    rw [h1, h2]

/-! ## `eraseDups` has no duplicates -/

theorem eraseDups_nodup : ∀ (l : List Bytes), l.eraseDups.Nodup
  | [] => by simp
  | a :: as => by
    have : (as.filter fun b => !b == a).length < as.length + 1 :=
      Nat.lt_add_one_of_le (List.length_filter_le _ as)
    rw [List.eraseDups_cons]
    refine List.nodup_cons.mpr ⟨?_, eraseDups_nodup _⟩
    intro h
    have := (List.mem_filter.mp (List.mem_eraseDups.mp h)).2
    simp at this
termination_by l => l.length

theorem canonKeys_nodup (maps : List TagMap) : (canonKeys maps).Nodup := eraseDups_nodup _

/-- the canonical key list is determined by the set of keys -/
theorem canonKeys_ext {maps maps' : List TagMap}
    (h : ∀ k, k ∈ allKeys maps ↔ k ∈ allKeys maps') : canonKeys maps = canonKeys maps' := by
  apply sorted_perm_eq (canonKeys_sorted maps) (canonKeys_sorted maps')
  rw [List.perm_ext_iff_of_nodup (canonKeys_nodup maps) (canonKeys_nodup maps')]
  intro k
  rw [mem_canonKeys, mem_canonKeys]
  exact h k

/-- the overlay is determined by the look-up function -/
theorem canon_ext {maps maps' : List TagMap}
    (h : ∀ k, lookupRight maps k = lookupRight maps' k) : canon maps = canon maps' := by
  have hk : canonKeys maps = canonKeys maps' := by
    apply canonKeys_ext
    intro k
    have := lookupRight_eq_none_iff maps k
    have := lookupRight_eq_none_iff maps' k
    rw [h k] at *
    constructor
    · intro h1
      apply Classical.byContradiction
      intro h2
      simp_all
    · intro h1
      apply Classical.byContradiction
      intro h2
      simp_all
  rw [canon_eq_map, canon_eq_map, hk]
  apply List.map_congr_left
  intro k _
  simp only [kvOf, h k]

/-- converse: equal overlays have equal look-ups -/
theorem lookupRight_of_canon_eq {maps maps' : List TagMap} (h : canon maps = canon maps') (k : Bytes) :
    lookupRight maps k = lookupRight maps' k := by
  rw [← lookup_canon, ← lookup_canon, h]

/-! ## overlay identities -/

theorem canon_nil_single : canon [([] : TagMap)] = [] := by
  simp [canon, insertionSort]

theorem canon_nil : canon ([] : List TagMap) = [] := by
  simp [canon, insertionSort]

/-- an inner overlay can be flattened (right) -/
theorem canon_pair_canon_right (a b : TagMap) : canon [a, canon [b]] = canon [a, b] := by
  apply canon_ext
  intro k
  rw [lookupRight_pair, lookupRight_pair, lookup_canon, lookupRight_single]

/-- an inner overlay can be flattened (left) -/
theorem canon_pair_canon_left (a b : TagMap) : canon [canon [a], b] = canon [a, b] := by
  apply canon_ext
  intro k
  rw [lookupRight_pair, lookupRight_pair, lookup_canon, lookupRight_single]

theorem canon_pair_nil (a : TagMap) : canon [a, []] = canon [a] := by
  apply canon_ext
  intro k
  rw [lookupRight_pair, lookupRight_single]
  rfl

theorem canon_nil_pair (a : TagMap) : canon [[], a] = canon [a] := by
  apply canon_ext
  intro k
  rw [lookupRight_pair, lookupRight_single]
  cases a.lookup k <;> rfl

/-- overlaying on an overlay is the overlay of all three -/
theorem canon_canon_pair (a b c : TagMap) : canon [canon [a, b], c] = canon [a, b, c] := by
  apply canon_ext
  intro k
  rw [lookupRight_pair, lookup_canon, lookupRight_pair, lookupRight_cons (m := a), lookupRight_pair,
    Option.or_assoc]

/-- overlaying the same map twice is overlaying it once -/
theorem canon_overlay_idem (a m : TagMap) : canon [canon [a, m], m] = canon [a, m] := by
  apply canon_ext
  intro k
  rw [lookupRight_pair, lookup_canon, lookupRight_pair]
  cases m.lookup k <;> simp

/-- two overlays are one overlay with the concatenated map when the first has distinct
keys from the second, or in general when look-ups in `m1 ++ m2` prefer `m2`: stated with
`m2 ++ m1` (first occurrence wins in an association list) -/
theorem canon_overlay_append (a m1 m2 : TagMap) :
    canon [canon [a, m1], m2] = canon [a, m2 ++ m1] := by
  apply canon_ext
  intro k
  rw [lookupRight_pair, lookup_canon, lookupRight_pair, lookupRight_pair, List.lookup_append]
  cases m2.lookup k <;> cases m1.lookup k <;> simp

/-- maps with disjoint key sets can be overlaid in either order -/
theorem canon_overlay_comm (a m1 m2 : TagMap)
    (hd : ∀ k, k ∈ m1.map (·.1) → k ∉ m2.map (·.1)) :
    canon [canon [a, m1], m2] = canon [canon [a, m2], m1] := by
  apply canon_ext
  intro k
  rw [lookupRight_pair, lookup_canon, lookupRight_pair, lookupRight_pair, lookup_canon,
    lookupRight_pair]
  by_cases h1 : k ∈ m1.map (·.1)
  · have h2 : m2.lookup k = none := (lookup_eq_none_iff_not_mem m2 k).mpr (hd k h1)
    rw [h2]
    cases m1.lookup k <;> simp
  · have h1' : m1.lookup k = none := (lookup_eq_none_iff_not_mem m1 k).mpr h1
    rw [h1']
    cases m2.lookup k <;> simp

/-- with disjoint keys the concatenation order is irrelevant as well -/
theorem canon_append_comm (a m1 m2 : TagMap)
    (hd : ∀ k, k ∈ m1.map (·.1) → k ∉ m2.map (·.1)) :
    canon [a, m1 ++ m2] = canon [a, m2 ++ m1] := by
  apply canon_ext
  intro k
  rw [lookupRight_pair, lookupRight_pair, List.lookup_append, List.lookup_append]
  by_cases h1 : k ∈ m1.map (·.1)
  · have h2 : m2.lookup k = none := (lookup_eq_none_iff_not_mem m2 k).mpr (hd k h1)
    rw [h2]
    cases m1.lookup k <;> simp
  · have h1' : m1.lookup k = none := (lookup_eq_none_iff_not_mem m1 k).mpr h1
    rw [h1']
    cases m2.lookup k <;> simp

/-- a canonical map is a fixed point of `canon` -/
def Canonical (t : TagMap) : Prop := canon [t] = t

theorem canonical_canon (maps : List TagMap) : Canonical (canon maps) := canon_canon maps

/-- the key of a parent's canonical tags overlaid by a map is the key of the overlay -/
theorem key_pair_eq (p : Bytes) (a b : TagMap) : key p [a, b] = key p [canon [a, b]] := by
  rw [key_eq_render' p [a, b], key_eq_render' p [canon [a, b]], canon_canon]

/-- the key only depends on the overlay -/
theorem key_congr (p : Bytes) {maps maps' : List TagMap} (h : canon maps = canon maps') :
    key p maps = key p maps' := by
  rw [key_eq_render' p maps, key_eq_render' p maps', h]

/-- equal keys: equal prefix and equal overlay -/
theorem key_inj' {p p' : Bytes} {maps maps' : List TagMap} (h : key p maps = key p' maps') :
    p = p' ∧ canon maps = canon maps' := by
  rw [key_eq_render' p maps, key_eq_render' p' maps'] at h
  exact render_injective' p p' _ _ h

end Tally.KeyGen
