import Tally.Model.M3Pool
import TallyProofs.Lemmas.M3Batch
/-!
# The recycled tag slices of `process()`: the heap invariant and the simulation of the batching fold

`Inv s` — what is true of the memory between two iterations of the loop:
* the pool and the borrowed list hold valid array ids, neither holds one twice, no array is in both;
* every view `ref id len` in the open batch points at a BORROWED array, and the first `len` cells of
  that array are exactly the tags the entry is to be sent with (`own ++ [bucket-id tag, bucket tag]`);
  an entry of a plain metric points at the metric's own slice;
* no two entries of the open batch point at the same array.

Every item and every choice of the pool preserves it (`Inv.step`), and under it one iteration of the
heap model is one iteration of the abstract fold of `M3Batch.lean` on `absState` (`step_abs`).
-/
namespace Tally.M3.Pool
open Tally Tally.Thrift Tally.M3

/-! ### arrays -/

theorem arr_set_self (heap : Heap) (id : Nat) (v : List MetricTag) (h : id < heap.length) :
    arr (heap.set id v) id = v := by
  simp [arr, List.getD_eq_getElem?_getD, h]

theorem arr_set_ne (heap : Heap) (id j : Nat) (v : List MetricTag) (h : j ≠ id) :
    arr (heap.set id v) j = arr heap j := by
  simp [arr, List.getD_eq_getElem?_getD, Ne.symm h]

/-- a fresh (empty) array changes nothing that could be read before -/
theorem arr_alloc (heap : Heap) (j : Nat) : arr (heap ++ [[]]) j = arr heap j := by
  simp only [arr, List.getD_eq_getElem?_getD]
  by_cases h : j < heap.length
  · rw [List.getElem?_append_left h]
  · rw [List.getElem?_append_right (by omega), List.getElem?_eq_none (l := heap) (by omega)]
    cases j - heap.length <;> simp

/-- reading back what was just written -/
theorem take_overwrite (old new : List MetricTag) : (overwrite old new).take new.length = new := by
  simp [overwrite]

/-! ### the invariant -/

/-- the array an entry points at -/
def Entry.ref? (e : Entry) : Option Nat :=
  match e.tags with
  | .own _ => none
  | .ref id _ => some id

/-- the metric an entry must be sent as -/
def Entry.intended (e : Entry) : Sized :=
  { m := { e.hdr with tags := match e.bucket with
                               | none => e.hdr.tags
                               | some b => some (bucketTags e.hdr.tags b) },
    size := e.size }

/-- a plain metric points at its own tags; a bucket sample points at a borrowed array whose first
`len` cells are the own tags followed by the two bucket tags -/
def Entry.Ok (heap : Heap) (borrowed : List Nat) (e : Entry) : Prop :=
  (e.tags = .own e.hdr.tags ∧ e.bucket = none) ∨
  (∃ id len b, e.tags = .ref id len ∧ e.bucket = some b ∧ id ∈ borrowed ∧
      (arr heap id).take len = bucketTags e.hdr.tags b)

structure Inv (s : PState) : Prop where
  pool_nodup : s.pool.Nodup
  borrowed_nodup : s.borrowed.Nodup
  disjoint : ∀ id ∈ s.borrowed, id ∉ s.pool
  pool_lt : ∀ id ∈ s.pool, id < s.heap.length
  borrowed_lt : ∀ id ∈ s.borrowed, id < s.heap.length
  entries : ∀ e ∈ s.cur, e.Ok s.heap s.borrowed
  unshared : (s.cur.filterMap Entry.ref?).Nodup

theorem Inv.init : Inv PState.init :=
  ⟨by simp [PState.init], by simp [PState.init], by simp [PState.init], by simp [PState.init],
   by simp [PState.init], by simp [PState.init], by simp [PState.init]⟩

/-- under the invariant, what a reader sees is what was intended -/
theorem Entry.Ok.resolve {heap : Heap} {borrowed : List Nat} {e : Entry} (h : e.Ok heap borrowed) :
    resolve heap e = e.intended := by
  rcases h with ⟨ht, hb⟩ | ⟨id, len, b, ht, hb, _, hc⟩
  · simp [Pool.resolve, Entry.intended, ht, hb, readTags]
  · simp [Pool.resolve, Entry.intended, ht, hb, readTags, hc]

theorem Entry.Ok.ref_mem {heap : Heap} {borrowed : List Nat} {e : Entry} (h : e.Ok heap borrowed)
    {id : Nat} (hr : e.ref? = some id) : id ∈ borrowed := by
  rcases h with ⟨ht, _⟩ | ⟨id', len, b, ht, _, hm, _⟩
  · simp [Entry.ref?, ht] at hr
  · simp [Entry.ref?, ht] at hr
    exact hr ▸ hm

/-- an entry stays fine when the arrays it can see are not touched and nothing it needs leaves the
borrowed list -/
theorem Entry.Ok.mono {heap heap' : Heap} {borrowed borrowed' : List Nat} {e : Entry}
    (h : e.Ok heap borrowed) (hb : ∀ id ∈ borrowed, id ∈ borrowed')
    (ha : ∀ id ∈ borrowed, arr heap' id = arr heap id) : e.Ok heap' borrowed' := by
  rcases h with h | ⟨id, len, b, ht, hbk, hm, hc⟩
  · exact Or.inl h
  · exact Or.inr ⟨id, len, b, ht, hbk, hb id hm, by rw [ha id hm]; exact hc⟩

/-! ### flush -/

theorem emit_cur (s : PState) : (emit s).cur = [] := by
  unfold emit
  cases h : s.cur <;> simp

theorem emit_bytes (s : PState) : (emit s).bytes = 0 := by
  unfold emit
  split <;> rfl

theorem emit_heap (s : PState) : (emit s).heap = s.heap := by
  unfold emit
  split <;> rfl

theorem emit_pool (s : PState) : (emit s).pool = s.pool := by
  unfold emit
  split <;> rfl

theorem emit_borrowed (s : PState) : (emit s).borrowed = s.borrowed := by
  unfold emit
  split <;> rfl

theorem emit_out (s : PState) :
    (emit s).out = if s.cur = [] then s.out else s.out ++ [s.cur.map (resolve s.heap)] := by
  unfold emit
  cases h : s.cur <;> simp

theorem Inv.emit {s : PState} (h : Inv s) : Inv (emit s) :=
  ⟨by rw [emit_pool]; exact h.pool_nodup, by rw [emit_borrowed]; exact h.borrowed_nodup,
   by rw [emit_pool, emit_borrowed]; exact h.disjoint, by rw [emit_pool, emit_heap]; exact h.pool_lt,
   by rw [emit_borrowed, emit_heap]; exact h.borrowed_lt, by simp [emit_cur], by simp [emit_cur]⟩

/-- with an empty open batch every borrowed array may go back -/
theorem Inv.recycle {s : PState} (h : Inv s) (hc : s.cur = []) : Inv (recycle s) := by
  refine ⟨?_, by simp [Pool.recycle], by simp [Pool.recycle], ?_, by simp [Pool.recycle],
    by simp [Pool.recycle, hc], by simp [Pool.recycle, hc]⟩
  · show (s.pool ++ s.borrowed).Nodup
    rw [List.nodup_append]
    refine ⟨h.pool_nodup, h.borrowed_nodup, ?_⟩
    intro a ha b hb hab
    exact h.disjoint b hb (hab ▸ ha)
  · intro id hid
    have hid' : id ∈ s.pool ++ s.borrowed := hid
    rcases List.mem_append.1 hid' with h' | h'
    · exact h.pool_lt id h'
    · exact h.borrowed_lt id h'

theorem Inv.flushBlock {s : PState} (h : Inv s) : Inv (flushBlock s) :=
  h.emit.recycle (emit_cur s)

theorem flushBlock_cur (s : PState) : (flushBlock s).cur = [] := emit_cur s
theorem flushBlock_bytes (s : PState) : (flushBlock s).bytes = 0 := emit_bytes s
theorem flushBlock_out (s : PState) : (flushBlock s).out = (emit s).out := rfl
theorem flushBlock_heap (s : PState) : (flushBlock s).heap = s.heap := emit_heap s

/-! ### `Get` -/

/-- whatever the pool decides: the array handed out is valid, is neither borrowed nor still pooled,
and no array changed -/
structure GetOk (s : PState) (r : Nat × PState) : Prop where
  borrowed_eq : r.2.borrowed = s.borrowed
  cur_eq : r.2.cur = s.cur
  bytes_eq : r.2.bytes = s.bytes
  out_eq : r.2.out = s.out
  pool_nodup : r.2.pool.Nodup
  not_pooled : r.1 ∉ r.2.pool
  not_borrowed : r.1 ∉ s.borrowed
  pool_sub : ∀ j ∈ r.2.pool, j ∈ s.pool
  lt : r.1 < r.2.heap.length
  heap_le : s.heap.length ≤ r.2.heap.length
  arr_eq : ∀ j, arr r.2.heap j = arr s.heap j

theorem alloc_ok (s : PState) (h : Inv s) : GetOk s (alloc s) := by
  refine ⟨rfl, rfl, rfl, rfl, h.pool_nodup, ?_, ?_, fun _ hj => hj, by simp [alloc], by simp [alloc],
    arr_alloc s.heap⟩
  · intro hm
    exact Nat.lt_irrefl _ (h.pool_lt _ hm)
  · intro hm
    exact Nat.lt_irrefl _ (h.borrowed_lt _ hm)

theorem get_ok (s : PState) (c : Choice) (h : Inv s) : GetOk s (get s c) := by
  cases c with
  | none => exact alloc_ok s h
  | some k =>
    cases hk : s.pool[k]? with
    | none => simp only [get, hk]; exact alloc_ok s h
    | some id =>
      simp only [get, hk]
      have hklt : k < s.pool.length := (List.getElem?_eq_some_iff.1 hk).1
      have hkid : s.pool[k] = id := (List.getElem?_eq_some_iff.1 hk).2
      have hidp : id ∈ s.pool := hkid ▸ List.getElem_mem hklt
      refine ⟨rfl, rfl, rfl, rfl, h.pool_nodup.sublist (List.eraseIdx_sublist _ _), ?_, ?_, ?_,
        h.pool_lt id hidp, Nat.le_refl _, fun _ => rfl⟩
      · intro hm
        obtain ⟨i, hi, hne, hx⟩ := List.mem_eraseIdx_iff_getElem.1 hm
        have := (List.getElem_inj (h₀ := hi) (h₁ := hklt) h.pool_nodup).1 (hx.trans hkid.symm)
        exact hne this
      · intro hm
        exact h.disjoint id hm hidp
      · intro j hj
        exact (List.eraseIdx_sublist _ _).subset hj

/-! ### the borrow -/

/-- the metric a queue item is to be sent as: a bucket sample carries its own tags, then the
bucket-id tag, then the bucket tag -/
def sent (m : Metric) (size : Nat) (bucket : Option (MetricTag × MetricTag)) : Sized :=
  { m := { m with tags := match bucket with
                          | none => m.tags
                          | some b => some (bucketTags m.tags b) },
    size := size }

theorem abs_met (m : Metric) (size : Nat) (bucket : Option (MetricTag × MetricTag)) :
    abs (.met m size bucket) = .met (sent m size bucket) := by
  cases bucket <;> rfl

/-- building the entry of a sample and appending it to the open batch, for every choice of the pool:
the invariant survives, the entries already there are not disturbed, and the new entry is the
sample -/
theorem mkEntry_push (s : PState) (m : Metric) (size : Nat) (bucket : Option (MetricTag × MetricTag))
    (c : Choice) (h : Inv s) :
    Inv (push (mkEntry s m size bucket c).2 (mkEntry s m size bucket c).1) ∧
    (mkEntry s m size bucket c).2.cur = s.cur ∧ (mkEntry s m size bucket c).2.bytes = s.bytes ∧
    (mkEntry s m size bucket c).2.out = s.out ∧
    (mkEntry s m size bucket c).1.intended = sent m size bucket ∧
    (mkEntry s m size bucket c).1.size = size := by
  cases bucket with
  | none =>
    refine ⟨⟨h.pool_nodup, h.borrowed_nodup, h.disjoint, h.pool_lt, h.borrowed_lt, ?_, ?_⟩,
      rfl, rfl, rfl, rfl, rfl⟩
    · intro e he
      rcases List.mem_append.1 (show e ∈ s.cur ++ [_] from he) with he | he
      · exact h.entries e he
      · rw [List.mem_singleton.1 he]
        exact Or.inl ⟨rfl, rfl⟩
    · show ((s.cur ++ [_]).filterMap Entry.ref?).Nodup
      rw [List.filterMap_append, List.filterMap_cons_none (by rfl), List.filterMap_nil,
        List.append_nil]
      exact h.unshared
  | some b =>
    have hg := get_ok s c h
    refine ⟨⟨hg.pool_nodup, ?_, ?_, ?_, ?_, ?_, ?_⟩, hg.cur_eq, hg.bytes_eq, hg.out_eq, rfl, rfl⟩
    · show ((get s c).2.borrowed ++ [(get s c).1]).Nodup
      rw [hg.borrowed_eq, List.nodup_append]
      refine ⟨h.borrowed_nodup, by simp, ?_⟩
      intro a ha b' hb' hab
      rw [List.mem_singleton.1 hb'] at hab
      exact hg.not_borrowed (hab ▸ ha)
    · intro id hid
      rcases List.mem_append.1 (show id ∈ (get s c).2.borrowed ++ [(get s c).1] from hid) with hid | hid
      · intro hp
        exact h.disjoint id (hg.borrowed_eq ▸ hid) (hg.pool_sub id hp)
      · rw [List.mem_singleton.1 hid]
        exact hg.not_pooled
    · intro id hid
      show id < ((get s c).2.heap.set _ _).length
      rw [List.length_set]
      exact Nat.lt_of_lt_of_le (h.pool_lt id (hg.pool_sub id hid)) hg.heap_le
    · intro id hid
      show id < ((get s c).2.heap.set _ _).length
      rw [List.length_set]
      rcases List.mem_append.1 (show id ∈ (get s c).2.borrowed ++ [(get s c).1] from hid) with hid | hid
      · exact Nat.lt_of_lt_of_le (h.borrowed_lt id (hg.borrowed_eq ▸ hid)) hg.heap_le
      · rw [List.mem_singleton.1 hid]
        exact hg.lt
    · intro e he
      rcases List.mem_append.1 (show e ∈ (get s c).2.cur ++ [_] from he) with he | he
      · refine (h.entries e (hg.cur_eq ▸ he)).mono ?_ ?_
        · intro id hid
          exact List.mem_append_left _ (hg.borrowed_eq ▸ hid)
        · intro id hid
          have hne : id ≠ (get s c).1 := fun heq => hg.not_borrowed (heq ▸ hid)
          show arr ((get s c).2.heap.set _ _) id = _
          rw [arr_set_ne _ _ _ _ hne, hg.arr_eq]
      · rw [List.mem_singleton.1 he]
        refine Or.inr ⟨(get s c).1, (bucketTags m.tags b).length, b, rfl, rfl,
          List.mem_append_right _ (List.mem_singleton.2 rfl), ?_⟩
        show (arr ((get s c).2.heap.set _ _) _).take _ = _
        rw [arr_set_self _ _ _ hg.lt, take_overwrite]
        rfl
    · show (((get s c).2.cur ++ [_]).filterMap Entry.ref?).Nodup
      rw [List.filterMap_append, hg.cur_eq, List.nodup_append]
      refine ⟨h.unshared, ?_, ?_⟩
      · simp [mkEntry, Entry.ref?]
      · intro a ha b' hb' hab
        obtain ⟨e, he, hr⟩ := List.mem_filterMap.1 ha
        have hab' : a = (get s c).1 := by
          simp [mkEntry, Entry.ref?] at hb'
          rw [hab, hb']
        exact hg.not_borrowed (hab' ▸ (h.entries e he).ref_mem hr)

/-! ### one iteration -/

/-- every item and every choice of the pool preserves the invariant -/
theorem Inv.step {free : Nat} {s : PState} (h : Inv s) (it : PItem) (c : Choice) :
    Inv (step free s it c) := by
  cases it with
  | flush =>
    simp only [Pool.step]
    split
    · exact h.flushBlock
    · exact h
  | met m size bucket =>
    simp only [Pool.step]
    split
    · exact (mkEntry_push _ m size bucket c h.flushBlock).1
    · exact (mkEntry_push _ m size bucket c h).1

theorem Inv.consume {free : Nat} (items : List PItem) : ∀ {s : PState} (cs : List Choice), Inv s →
    Inv (consume free s items cs) := by
  induction items with
  | nil => intro s cs h; exact h
  | cons it rest ih => intro s cs h; exact ih cs.tail (h.step it (nextChoice cs))

/-! ### the abstraction -/

/-- the state of the abstract fold: the open batch as it is to be sent -/
def absState (s : PState) : BState :=
  { cur := s.cur.map Entry.intended, bytes := s.bytes, out := s.out }

theorem absState_init : absState PState.init = BState.init := rfl

/-- under the invariant a flush reads exactly the intended batch -/
theorem Inv.read {s : PState} (h : Inv s) : s.cur.map (resolve s.heap) = s.cur.map Entry.intended :=
  List.map_congr_left fun e he => (h.entries e he).resolve

theorem emit_abs {s : PState} (h : Inv s) : absState (emit s) = emitCur (absState s) := by
  unfold emit emitCur absState
  rw [h.read]
  cases hc : s.cur <;> simp

theorem flushBlock_abs {s : PState} (h : Inv s) : absState (flushBlock s) = emitCur (absState s) :=
  emit_abs h

theorem push_mkEntry_abs (s : PState) (m : Metric) (size : Nat) (bucket : Option (MetricTag × MetricTag))
    (c : Choice) (h : Inv s) :
    absState (push (mkEntry s m size bucket c).2 (mkEntry s m size bucket c).1) =
      { absState s with cur := (absState s).cur ++ [sent m size bucket],
                        bytes := (absState s).bytes + size } := by
  obtain ⟨_, hc, hb, ho, hi, hs⟩ := mkEntry_push s m size bucket c h
  simp [absState, push, hc, hb, ho, hi, hs]

/-- one iteration of the heap model is one iteration of the abstract fold -/
theorem step_abs (free : Nat) (s : PState) (it : PItem) (c : Choice) (h : Inv s) :
    absState (step free s it c) = M3.step free (absState s) (abs it) := by
  cases it with
  | flush =>
    simp only [Pool.step, abs, M3.step]
    have hce : (absState s).cur.isEmpty = s.cur.isEmpty := by simp [absState]
    have hbe : (absState s).bytes = s.bytes := rfl
    rw [hce, hbe]
    split
    · exact flushBlock_abs h
    · rfl
  | met m size bucket =>
    rw [abs_met]
    simp only [Pool.step, M3.step]
    have hbe : (absState s).bytes = s.bytes := rfl
    have hse : (sent m size bucket).size = size := rfl
    rw [hbe, hse]
    split
    · rw [push_mkEntry_abs _ m size bucket c h.flushBlock, flushBlock_abs h]
    · rw [push_mkEntry_abs _ m size bucket c h]

theorem consume_abs (free : Nat) (items : List PItem) : ∀ (s : PState) (cs : List Choice), Inv s →
    absState (consume free s items cs) = M3.consume free (absState s) (items.map abs) := by
  induction items with
  | nil => intro s cs _; rfl
  | cons it rest ih =>
    intro s cs h
    show absState (consume free (step free s it (nextChoice cs)) rest cs.tail) = _
    rw [ih _ _ (h.step it (nextChoice cs)), step_abs free s it _ h]
    rfl

end Tally.M3.Pool
