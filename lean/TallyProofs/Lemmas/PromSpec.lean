import TallyProofs.Lemmas.PromHist
import TallyProofs.Props.C03
/-! The facts about a strictly increasing finite bucket spec that the histogram clause of C17
needs: composition of C03's placement theorems with Prometheus' own least-bound search. -/
namespace Tally.Prom
open Tally Tally.Buckets Tally.ListAux Tally.Props.C03

/-- strictly increasing (in IEEE order) floats none of which is NaN -/
def StrictF (l : List F64) : Prop := (l.map F64.key).Pairwise (· < ·) ∧ ∀ x ∈ l, F64.isNaN x = false

theorem StrictF.getD_nan {l : List F64} (h : StrictF l) (i : Nat) : F64.isNaN (l.getD i 0) = false := by
  rcases Nat.lt_or_ge i l.length with hi | hi
  · rw [getD_eq_getElem _ _ hi]; exact h.2 _ (List.getElem_mem hi)
  · rw [getD_eq_default _ _ hi]; decide

theorem StrictF.key_lt {l : List F64} (h : StrictF l) {a b : Nat} (hab : a < b) (hb : b < l.length) :
    F64.key (l.getD a 0) < F64.key (l.getD b 0) := by
  have ha : a < l.length := by omega
  rw [getD_eq_getElem _ _ ha, getD_eq_getElem _ _ hb]
  have := (List.pairwise_iff_getElem.mp h.1) a b (by simpa using ha) (by simpa using hb) hab
  simpa using this

theorem mono_ge (l : List F64) (h : StrictF l) (v : F64) (hv : F64.isNaN v = false) :
    MonoOn l.length (fun i => F64.ge (l.getD i 0) v) := by
  intro a b hab hb ha
  replace ha : F64.ge (l.getD a 0) v = true := ha
  show F64.ge (l.getD b 0) v = true
  rw [ge_iff_key _ _ (h.getD_nan a) hv] at ha
  rw [ge_iff_key _ _ (h.getD_nan b) hv]
  simp only [decide_eq_true_eq] at ha ⊢
  rcases Nat.lt_or_ge a b with hlt | hge
  · have := h.key_lt hlt hb; omega
  · have : a = b := by omega
    subst this; exact ha

/-- Prometheus files its own `j`-th bound under bucket `j` -/
theorem rawPlace_self (l : List F64) (h : StrictF l) (j : Nat) (hj : j < l.length) :
    rawPlaceValue l (l.getD j 0) = j := by
  have hv := h.getD_nan j
  obtain ⟨h1, h2, h3⟩ := search_least l.length _ (mono_ge l h (l.getD j 0) hv)
  unfold rawPlaceValue
  generalize search l.length (fun i => F64.ge (l.getD i 0) (l.getD j 0)) = s at h1 h2 h3
  have hfj : F64.ge (l.getD j 0) (l.getD j 0) = true := by
    rw [ge_iff_key _ _ hv hv]; simp
  have hle : s ≤ j := by
    rcases Nat.lt_or_ge j s with hlt | hge
    · have := h2 j hlt
      replace this : F64.ge (l.getD j 0) (l.getD j 0) = false := this
      rw [hfj] at this; cases this
    · exact hge
  rcases Nat.lt_or_ge s j with hlt | hge
  · have := h3 s (Nat.le_refl _) (by omega)
    replace this : F64.ge (l.getD s 0) (l.getD j 0) = true := this
    rw [ge_iff_key _ _ (h.getD_nan s) hv] at this
    simp only [decide_eq_true_eq] at this
    have := h.key_lt hlt hj
    omega
  · omega

/-- a float beyond every bound goes to the implicit `+Inf` bucket -/
theorem rawPlace_top (l : List F64) (top : F64) (hfalse : ∀ i, i < l.length → F64.ge (l.getD i 0) top = false) :
    l.length ≤ rawPlaceValue l top := by
  have hm : MonoOn l.length (fun i => F64.ge (l.getD i 0) top) := by
    intro a b hab hb ha
    replace ha : F64.ge (l.getD a 0) top = true := ha
    rw [hfalse a (by omega)] at ha; cases ha
  obtain ⟨h1, h2, h3⟩ := search_least l.length _ hm
  unfold rawPlaceValue
  rcases Nat.lt_or_ge (search l.length (fun i => F64.ge (l.getD i 0) top)) l.length with hlt | hge
  · have := h3 _ (Nat.le_refl _) hlt
    replace this : F64.ge (l.getD (search l.length (fun i => F64.ge (l.getD i 0) top)) 0) top = true := this
    rw [hfalse _ hlt] at this; cases this
  · exact hge

theorem target_of_strict (l : List F64) (top : F64) (h : StrictF l) (htn : F64.isNaN top = false)
    (ht : ∀ x ∈ l, F64.key x < F64.key top) :
    ∀ t (ht' : t < (l ++ [top]).length),
      if 0 + t < l.length then rawPlaceValue l (l ++ [top])[t] = 0 + t
      else l.length ≤ rawPlaceValue l (l ++ [top])[t] := by
  intro t ht'
  simp only [Nat.zero_add]
  split
  · next hlt =>
    rw [List.getElem_append_left hlt, ← getD_eq_getElem l 0 hlt]
    exact rawPlace_self l h t hlt
  · next hge =>
    have : t = l.length := by simp at ht'; omega
    subst this
    simp only [List.getElem_append_right (Nat.le_refl _), Nat.sub_self, List.getElem_cons_zero]
    apply rawPlace_top
    intro i hi
    rw [ge_iff_key _ _ (h.getD_nan i) htn]
    simp only [decide_eq_false_iff_not, ge_iff_le, Int.not_le]
    rw [getD_eq_getElem _ _ hi]
    exact ht _ (List.getElem_mem hi)

/-! ### value specs -/

/-- the domain of the histogram clause for `ValueBuckets`: finite, strictly increasing, below `MaxFloat64` -/
def ValueSpecOk (sp : List F64) : Prop := StrictF sp ∧ ∀ x ∈ sp, F64.key x < F64.key F64.maxFloat

theorem valueUppers_of_ok (sp : List F64) (h : ValueSpecOk sp) : valueUppers sp = sp ++ [F64.maxFloat] := by
  unfold valueUppers sortByKey
  rw [List.mergeSort_of_pairwise]
  have := List.pairwise_map.mp h.1.1
  exact this.imp (fun hab => by simp only [decide_eq_true_eq]; omega)

theorem valueSpecFacts (sp : List F64) (h : ValueSpecOk sp) : SpecFacts (.values sp) := by
  have hu := valueUppers_of_ok sp h
  refine ⟨?_, ?_, ?_⟩
  · simp [HSpec.obs, HSpec.promBounds, hu]
  · simp only [HSpec.obs, HSpec.promBounds, hu]
    exact target_of_strict sp F64.maxFloat h.1 (by decide) h.2
  · intro s idx hp
    cases s with
    | value v =>
      simp only [HSpec.place, Option.some.injEq] at hp
      subst hp
      simp only [HSpec.obs]
      exact placeValue_in_range _ (by rw [hu]; simp) v
    | duration d => simp [HSpec.place] at hp

/-- a sample that compares below no upper bound lands in the last tally bucket -/
theorem placeValue_last (us : List F64) (v : F64) (hfalse : ∀ i, i < us.length → F64.ge (us.getD i 0) v = false) :
    placeValue us v = us.length - 1 := by
  have := rawPlace_top us v hfalse
  unfold rawPlaceValue at this
  unfold placeValue
  simp only
  split
  · rfl
  · omega

/-- **placement against a bound (values)**: the tally bucket of `v` is at or below `j` exactly when
`v ≤` the `j`-th bound in IEEE order — for every float, NaN and the infinities included -/
theorem value_link (sp : List F64) (h : ValueSpecOk sp) (v : F64) (j : Nat) (hj : j < sp.length) :
    win 0 j (placeValue (valueUppers sp) v) = F64.le v (sp.getD j 0) := by
  rw [valueUppers_of_ok sp h]
  have hjn : F64.isNaN (sp.getD j 0) = false := h.1.getD_nan j
  have hjmax : F64.key (sp.getD j 0) < F64.key F64.maxFloat := by
    rw [getD_eq_getElem _ _ hj]; exact h.2 _ (List.getElem_mem hj)
  have hus : ∀ x ∈ sp ++ [F64.maxFloat], F64.isNaN x = false := by
    intro x hx
    rcases List.mem_append.mp hx with hx | hx
    · exact h.1.2 x hx
    · simp at hx; subst hx; decide
  have hkeys : ∀ i, i < (sp ++ [F64.maxFloat]).length → F64.key ((sp ++ [F64.maxFloat]).getD i 0) ≤ F64.key F64.maxFloat := by
    intro i hi
    rw [getD_eq_getElem _ _ hi]
    have hm := List.getElem_mem hi
    rcases List.mem_append.mp hm with hx | hx
    · exact Int.le_of_lt (h.2 _ hx)
    · simp at hx; rw [hx]; exact Int.le_refl _
  by_cases hlast : F64.isNaN v = true ∨ F64.key F64.maxFloat < F64.key v
  · -- NaN or beyond MaxFloat64 (+Inf): last bucket, and `≤` no bound
    have hfalse : ∀ i, i < (sp ++ [F64.maxFloat]).length → F64.ge ((sp ++ [F64.maxFloat]).getD i 0) v = false := by
      intro i hi
      rcases hlast with hn | hk
      · simp [F64.ge, F64.le, hn]
      · by_cases hn : F64.isNaN v = true
        · simp [F64.ge, F64.le, hn]
        · have hn' : F64.isNaN v = false := by simpa using hn
          rw [ge_iff_key _ _ (by rw [getD_eq_getElem _ _ hi]; exact hus _ (List.getElem_mem hi)) hn']
          have := hkeys i hi
          simp only [decide_eq_false_iff_not, ge_iff_le, Int.not_le]; omega
    rw [placeValue_last _ v hfalse]
    have hw : win 0 j ((sp ++ [F64.maxFloat]).length - 1) = false := by
      rw [win_false]; simp; omega
    rw [hw]
    rcases hlast with hn | hk
    · simp [F64.le, hn]
    · by_cases hn : F64.isNaN v = true
      · simp [F64.le, hn]
      · have hn' : F64.isNaN v = false := by simpa using hn
        simp only [F64.le, hn', hjn, Bool.not_false, Bool.true_and]
        symm
        simp only [decide_eq_false_iff_not, Int.not_le]; omega
  · have hn : F64.isNaN v = false := by
      cases hnv : F64.isNaN v with
      | false => rfl
      | true => exact absurd (Or.inl hnv) hlast
    have hk : F64.key v ≤ F64.key F64.maxFloat := by
      by_cases hlt : F64.key F64.maxFloat < F64.key v
      · exact absurd (Or.inr hlt) hlast
      · omega
    rw [placeValue_eq_placeKey _ _ hus hn]
    have hsorted : ((sp ++ [F64.maxFloat]).map F64.key).Pairwise (· ≤ ·) := by
      rw [List.map_append, List.pairwise_append]
      refine ⟨h.1.1.imp (fun hab => Int.le_of_lt hab), by simp, ?_⟩
      intro a ha b hb
      simp at hb; subst hb
      obtain ⟨x, hx, rfl⟩ := List.mem_map.mp ha
      exact Int.le_of_lt (h.2 x hx)
    have hpl := placeKey_placed _ hsorted (F64.key v) ⟨F64.key F64.maxFloat, by simp, hk⟩
    generalize placeKey ((sp ++ [F64.maxFloat]).map F64.key) (F64.key v) = idx at hpl
    unfold Spec.C03.placed at hpl
    simp only [Bool.and_eq_true, decide_eq_true_eq, List.all_eq_true, List.mem_range] at hpl
    obtain ⟨⟨hlen, hge⟩, hlow⟩ := hpl
    have hkj : ((sp ++ [F64.maxFloat]).map F64.key).getD j 0 = F64.key (sp.getD j 0) := by
      rw [getD_eq_getElem _ _ (by simp; omega), getD_eq_getElem _ _ hj]
      simp only [List.map_append, List.map_cons, List.map_nil]
      rw [List.getElem_append_left (by simpa using hj)]
      simp
    simp only [F64.le, hn, hjn, Bool.not_false, Bool.true_and]
    by_cases hij : idx ≤ j
    · have hw : win 0 j idx = true := (win_true _ _ _).mpr (by omega)
      rw [hw]; symm
      simp only [decide_eq_true_eq]
      rcases Nat.lt_or_ge idx j with hlt | hge'
      · have := (List.pairwise_iff_getElem.mp hsorted) idx j (by simpa using hlen) (by simp; omega) hlt
        rw [getD_eq_getElem _ _ hlen] at hge
        rw [← hkj, getD_eq_getElem _ _ (by simp; omega)]
        omega
      · have : idx = j := by omega
        subst this
        rw [← hkj]; omega
    · have hw : win 0 j idx = false := (win_false _ _ _).mpr (by omega)
      rw [hw]; symm
      simp only [decide_eq_false_iff_not, Int.not_le]
      have := hlow j (by omega)
      rw [hkj] at this
      exact this

/-! ### duration specs -/

/-- the domain of the histogram clause for `DurationBuckets`: strictly increasing int64 nanoseconds
whose conversions to seconds (as computed by Go) are strictly increasing too and stay below the
conversion of `MaxInt64` -/
def DurationSpecOk (sp : List (Int × F64)) (m : F64) : Prop :=
  (sp.map (·.1) ++ [maxInt64]).Pairwise (· < ·) ∧ StrictF (sp.map (·.2)) ∧ F64.isNaN m = false
    ∧ ∀ x ∈ sp.map (·.2), F64.key x < F64.key m

theorem durationUppers_of_ok (sp : List (Int × F64)) (m : F64) (h : DurationSpecOk sp m) :
    durationUppers (sp.map (·.1)) = sp.map (·.1) ++ [maxInt64] := by
  unfold durationUppers sortByKey
  rw [List.mergeSort_of_pairwise]
  have := (List.pairwise_append.mp h.1).1
  exact this.imp (fun hab => by simp only [id, decide_eq_true_eq]; omega)

theorem durationObs_of_ok (sp : List (Int × F64)) (m : F64) (h : DurationSpecOk sp m) :
    (HSpec.durations sp m).obs = sp.map (·.2) ++ [m] := by
  simp only [HSpec.obs, sortByKey]
  rw [List.mergeSort_of_pairwise]
  have := List.pairwise_map.mp (List.pairwise_append.mp h.1).1
  exact this.imp (fun hab => by simp only [decide_eq_true_eq]; omega)

theorem durationSpecFacts (sp : List (Int × F64)) (m : F64) (h : DurationSpecOk sp m) : SpecFacts (.durations sp m) := by
  have ho := durationObs_of_ok sp m h
  refine ⟨?_, ?_, ?_⟩
  · simp [ho, HSpec.promBounds]
  · simp only [ho, HSpec.promBounds]
    exact target_of_strict _ m h.2.1 h.2.2.1 h.2.2.2
  · intro s idx hp
    cases s with
    | value v => simp [HSpec.place] at hp
    | duration d =>
      simp only [HSpec.place, Option.some.injEq] at hp
      subst hp
      rw [ho]
      have := placeKey_in_range (durationUppers (sp.map (·.1))) (by rw [durationUppers_of_ok sp m h]; simp) d
      rw [durationUppers_of_ok sp m h] at this ⊢
      simpa using this

/-- **placement against a bound (durations)** for every int64 sample -/
theorem duration_link (sp : List (Int × F64)) (m : F64) (h : DurationSpecOk sp m) (d : Int) (hd : d ≤ maxInt64)
    (j : Nat) (hj : j < sp.length) :
    win 0 j (placeKey (durationUppers (sp.map (·.1))) d) = decide (d ≤ (sp.getD j (0, 0)).1) := by
  rw [durationUppers_of_ok sp m h]
  have hsorted : (sp.map (·.1) ++ [maxInt64]).Pairwise (· ≤ ·) := h.1.imp (fun hab => Int.le_of_lt hab)
  have hpl := placeKey_placed _ hsorted d ⟨maxInt64, by simp, hd⟩
  generalize placeKey (sp.map (·.1) ++ [maxInt64]) d = idx at hpl
  unfold Spec.C03.placed at hpl
  simp only [Bool.and_eq_true, decide_eq_true_eq, List.all_eq_true, List.mem_range] at hpl
  obtain ⟨⟨hlen, hge⟩, hlow⟩ := hpl
  have hkj : (sp.map (·.1) ++ [maxInt64]).getD j 0 = (sp.getD j (0, 0)).1 := by
    rw [getD_eq_getElem _ _ (by simp; omega), getD_eq_getElem _ _ hj]
    rw [List.getElem_append_left (by simpa using hj)]
    simp
  by_cases hij : idx ≤ j
  · have hw : win 0 j idx = true := (win_true _ _ _).mpr (by omega)
    rw [hw]; symm
    simp only [decide_eq_true_eq]
    rcases Nat.lt_or_ge idx j with hlt | hge'
    · have := (List.pairwise_iff_getElem.mp hsorted) idx j hlen (by simp; omega) hlt
      rw [getD_eq_getElem _ _ hlen] at hge
      rw [← hkj, getD_eq_getElem _ _ (by simp; omega)]
      omega
    · have : idx = j := by omega
      subst this
      rw [← hkj]; omega
  · have hw : win 0 j idx = false := (win_false _ _ _).mpr (by omega)
    rw [hw]; symm
    simp only [decide_eq_false_iff_not, Int.not_le]
    have := hlow j (by omega)
    rw [hkj] at this
    exact this

end Tally.Prom
