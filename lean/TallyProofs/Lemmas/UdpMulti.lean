import Tally.Model.Udp
import Tally.Spec.C15
import TallyProofs.Lemmas.Udp
/-! Helper lemmas for the fan-out theorem of C15: on `k` identical destinations a fault-free call
that succeeds on one destination does the same thing on all of them. -/
namespace Tally.UdpMultiLemmas
open Tally Tally.UdpObs Tally.Udp Tally.UdpMulti Tally.UdpLemmas Tally.Spec.C15

theorem write_rep (max : Nat) (s s' : T) (b : Bytes) (r : Res) (h : accept max s b = (s', r)) (he : r.err = .nil) :
    ∀ (j n : Nat), UdpMulti.write max (List.replicate j s) b n
      = (List.replicate j s', (if j = 0 then n else if r.n > n then r.n else n), .nil)
  | 0, n => by simp [UdpMulti.write]
  | j + 1, n => by
    simp only [List.replicate_succ, UdpMulti.write, h, he]
    rw [write_rep max s s' b r h he j]
    simp only [ne_eq, not_true_eq_false, if_false]
    by_cases hj : j = 0 <;> simp [hj] <;> split <;> (try split) <;> omega

theorem headD_ok (socks : List Sock) (h : socks.all (· = .ok) = true) : socks.headD .ok = .ok := by
  cases socks with
  | nil => rfl
  | cons x xs => simp at h; simp [h.1]

theorem tail_ok (socks : List Sock) (h : socks.all (· = .ok) = true) : socks.tail.all (· = .ok) = true := by
  cases socks with
  | nil => rfl
  | cons x xs => simp at h; simp; exact h.2

theorem flush_rep (s s' : T) (r : Res) (h : Udp.flush s .ok = (s', r)) (he : r.err = .nil) :
    ∀ (j : Nat) (socks : List Sock), socks.all (· = .ok) = true →
      UdpMulti.flush (List.replicate j s) socks = (List.replicate j s', .nil, List.replicate j r.recv)
  | 0, _, _ => by simp [UdpMulti.flush]
  | j + 1, socks, hs => by
    simp only [List.replicate_succ, UdpMulti.flush, headD_ok socks hs, h, he]
    rw [flush_rep s s' r h he j socks.tail (tail_ok socks hs)]
    simp

theorem headD_true (oks : List Bool) (h : oks.all (· = true) = true) : oks.headD true = true := by
  cases oks with
  | nil => rfl
  | cons x xs => simp at h; simp [h.1]

theorem tail_true (oks : List Bool) (h : oks.all (· = true) = true) : oks.tail.all (· = true) = true := by
  cases oks with
  | nil => rfl
  | cons x xs => simp at h; simp; exact h.2

theorem close_rep (s s' : T) (r : Res) (h : Udp.close s true = (s', r)) (he : r.err = .nil) :
    ∀ (j : Nat) (oks : List Bool), oks.all (· = true) = true →
      UdpMulti.close (List.replicate j s) oks = (List.replicate j s', .nil)
  | 0, _, _ => by simp [UdpMulti.close]
  | j + 1, oks, hs => by
    simp only [List.replicate_succ, UdpMulti.close, headD_true oks hs, h, he]
    rw [close_rep s s' r h he j oks.tail (tail_true oks hs)]
    simp

/-- a quiet call that succeeds on one destination: every one of `k ≥ 1` identical destinations
performs it, with the same result -/
theorem step_rep (max k : Nat) (hk : 0 < k) (s : T) (op : MOp) (hq : op.quiet = true)
    (he : (Udp.step max s op.single).2.err = .nil) :
    UdpMulti.step max (List.replicate k s) op
      = (List.replicate k (Udp.step max s op.single).1,
         { n := (Udp.step max s op.single).2.n, err := .nil, recv := List.replicate k (Udp.step max s op.single).2.recv }) := by
  cases op with
  | write b =>
    simp only [MOp.single, Udp.step] at he ⊢
    have := write_rep max s (accept max s b).1 b (accept max s b).2 rfl he k 0
    simp only [UdpMulti.step, this]
    have hk' : k ≠ 0 := by omega
    have hrecv : (accept max s b).2.recv = [] := by
      unfold accept; split <;> (try split) <;> rfl
    simp [hk', hrecv]
    omega
  | flush socks =>
    simp only [MOp.single, Udp.step] at he ⊢
    have := flush_rep s (Udp.flush s .ok).1 (Udp.flush s .ok).2 rfl he k socks (by simpa [MOp.quiet] using hq)
    simp only [UdpMulti.step, this]
    have hn : (Udp.flush s .ok).2.n = 0 := by
      unfold Udp.flush; split <;> (try split) <;> rfl
    simp [hn]
  | close oks =>
    simp only [MOp.single, Udp.step] at he ⊢
    have := close_rep s (Udp.close s true).1 (Udp.close s true).2 rfl he k oks (by simpa [MOp.quiet] using hq)
    simp only [UdpMulti.step, this]
    have hn : (Udp.close s true).2.n = 0 ∧ (Udp.close s true).2.recv = [] := by
      unfold Udp.close; split <;> simp
    simp [hn.1, hn.2]
  | isOpen =>
    simp only [MOp.single, Udp.step, UdpMulti.step, UdpMulti.isOpen]
    have hk' : k ≠ 0 := by omega
    cases hc : s.closed <;> simp [hk', hc]

theorem envs_quiet (k : Nat) (op : MOp) (hq : op.quiet = true) : ∀ x ∈ op.envs k, x = Env.ok := by
  intro x hx
  cases op with
  | write b => simp [MOp.envs] at hx; exact hx.2
  | isOpen => simp [MOp.envs] at hx; exact hx.2
  | flush socks =>
    simp only [MOp.envs, List.mem_map, List.mem_range] at hx
    obtain ⟨d, _, rfl⟩ := hx
    simp only [MOp.quiet, List.all_eq_true, decide_eq_true_eq] at hq
    have : socks[d]?.getD .ok = .ok := by
      cases hget : socks[d]? with
      | none => rfl
      | some v => exact hq v (List.mem_of_getElem? hget)
    simp [this, Sock.env]
  | close oks =>
    simp only [MOp.envs, List.mem_map, List.mem_range] at hx
    obtain ⟨d, _, rfl⟩ := hx
    simp only [MOp.quiet, List.all_eq_true, decide_eq_true_eq] at hq
    have : oks[d]?.getD true = true := by
      cases hget : oks[d]? with
      | none => rfl
      | some v => exact hq v (List.mem_of_getElem? hget)
    simp [this]

/-- the event of a quiet, successful call as seen at destination `d < k` is the single-transport event -/
theorem proj_rep (k d : Nat) (hd : d < k) (op : MOp) (hq : op.quiet = true) (r : Res) :
    (toMEv k op { n := r.n, err := r.err, recv := List.replicate k r.recv }).proj d = toEv op.single r := by
  have henv : (op.envs k)[d]?.getD .ok = .ok := by
    cases hget : (op.envs k)[d]? with
    | none => rfl
    | some v => exact envs_quiet k op hq v (List.mem_of_getElem? hget)
  have hrecv : (List.replicate k r.recv)[d]?.getD [] = r.recv := by
    simp [hd]
  cases op <;> simp [MEv.proj, toMEv, toEv, henv, hrecv, MOp.kind, MOp.arg, MOp.single, Op.kind, Op.arg, Op.env, Sock.env]

theorem checkDests_rep (max : Nat) (e : MEv) (ev : Ev) (st : St) (k : Nat) (hproj : ∀ d, d < k → e.proj d = ev)
    (hok : checkEv max st ev = none) :
    ∀ (j d0 : Nat), d0 + j ≤ k → checkDests max false e d0 (List.replicate j st) = none
  | 0, _, _ => rfl
  | j + 1, d0, h => by
    simp only [List.replicate_succ, checkDests, Bool.false_eq_true, if_false, hproj d0 (by omega), hok]
    exact checkDests_rep max e ev st k hproj hok j (d0 + 1) (by omega)

theorem nextDests_rep (e : MEv) (ev : Ev) (st : St) (k : Nat) (hproj : ∀ d, d < k → e.proj d = ev) :
    ∀ (j d0 : Nat), d0 + j ≤ k → nextDests e d0 (List.replicate j st) = List.replicate j (next st ev)
  | 0, _, _ => rfl
  | j + 1, d0, h => by
    simp only [List.replicate_succ, nextDests, hproj d0 (by omega)]
    rw [nextDests_rep e ev st k hproj j (d0 + 1) (by omega)]

theorem allEqual_rep (k : Nat) (x : List Bytes) : allEqual (List.replicate k x) = true := by
  cases k with
  | zero => rfl
  | succ k => simp [List.replicate_succ, allEqual]

/-- fan-out, from any pair of states related by the invariant -/
theorem fanout (max k : Nat) (hk : 0 < k) : ∀ (mops : List MOp) (s : T) (st : St), Inv max s st →
    (∀ op ∈ mops, op.quiet = true) →
    (∀ r ∈ (run max s (mops.map MOp.single)).2, r.err = .nil) →
    (∀ d, d < k → (UdpMulti.trace max (List.replicate k s) mops).map (MEv.proj d) = Udp.trace max s (mops.map MOp.single))
    ∧ checkMultiFrom max { dests := List.replicate k st, faulted := false, quiet := true }
        (UdpMulti.trace max (List.replicate k s) mops) = none
  | [], _, _, _, _, _ => ⟨fun _ _ => rfl, rfl⟩
  | op :: mops, s, st, hinv, hq, hne => by
    have hq0 : op.quiet = true := hq op (List.mem_cons_self ..)
    have he : (Udp.step max s op.single).2.err = .nil := by
      apply hne
      simp [run_cons]
    have hstep := step_rep max k hk s op hq0 he
    have ⟨hck, hinv'⟩ := step_ok max s st op.single hinv
    have ih := fanout max k hk mops (Udp.step max s op.single).1 _ hinv'
      (fun o ho => hq o (List.mem_cons_of_mem _ ho))
      (fun r hr => hne r (by simp only [List.map_cons, run_cons]; exact List.mem_cons_of_mem _ hr))
    have hres : ({ n := (Udp.step max s op.single).2.n, err := Err.nil, recv := List.replicate k (Udp.step max s op.single).2.recv } : MRes)
        = { n := (Udp.step max s op.single).2.n, err := (Udp.step max s op.single).2.err, recv := List.replicate k (Udp.step max s op.single).2.recv } := by
      rw [he]
    have hproj : ∀ d, d < k → (toMEv k op { n := (Udp.step max s op.single).2.n, err := Err.nil, recv := List.replicate k (Udp.step max s op.single).2.recv }).proj d
        = toEv op.single (Udp.step max s op.single).2 := by
      intro d hd
      rw [hres]
      exact proj_rep k d hd op hq0 _
    constructor
    · intro d hd
      simp only [UdpMulti.trace, hstep, List.length_replicate, List.map_cons, trace_cons, hproj d hd]
      rw [ih.1 d hd]
    · simp only [UdpMulti.trace, hstep, List.length_replicate, checkMultiFrom]
      have henvs : (toMEv k op { n := (Udp.step max s op.single).2.n, err := Err.nil, recv := List.replicate k (Udp.step max s op.single).2.recv }).envs.any (· ≠ Env.ok) = false := by
        simp only [toMEv, List.any_eq_false]
        intro x hx
        simp [envs_quiet k op hq0 x hx]
      have hck' : checkMEv max { dests := List.replicate k st, faulted := false, quiet := true }
          (toMEv k op { n := (Udp.step max s op.single).2.n, err := Err.nil, recv := List.replicate k (Udp.step max s op.single).2.recv }) = none := by
        unfold checkMEv
        simp only [henvs, Bool.or_false]
        simp only [toMEv, List.length_replicate, ne_eq, not_true_eq_false, if_false, allEqual_rep]
        simp only [Bool.not_true, Bool.and_false, Bool.false_eq_true, if_false]
        exact checkDests_rep max _ _ st k hproj hck k 0 (by omega)
      have hnx : nextM { dests := List.replicate k st, faulted := false, quiet := true }
          (toMEv k op { n := (Udp.step max s op.single).2.n, err := Err.nil, recv := List.replicate k (Udp.step max s op.single).2.recv })
          = { dests := List.replicate k (next st (toEv op.single (Udp.step max s op.single).2)), faulted := false, quiet := true } := by
        unfold nextM
        simp only [henvs, Bool.or_false]
        rw [nextDests_rep _ _ st k hproj k 0 (by omega)]
        simp [toMEv]
      rw [hck', hnx]
      exact ih.2

end Tally.UdpMultiLemmas
