import Tally.Model.Udp
import Tally.Spec.C15
import TallyProofs.Lemmas.Udp
/-! Helper lemmas for the fan-out theorem of C15: on `k` identical destinations a fault-free call
that succeeds on one destination does the same thing on all of them. -/
namespace Tally.UdpMultiLemmas
open Tally Tally.UdpObs Tally.Udp Tally.UdpMulti Tally.UdpLemmas Tally.Spec.C15

theorem write_rep (max : Nat) (s s' : T) (b : Bytes) (r : Res) (h : accept max s b = (s', r)) :
    ∀ (j n : Nat) (fe : Err), UdpMulti.write max (List.replicate j s) b n fe
      = (List.replicate j s',
         (if j = 0 ∨ r.err ≠ .nil then n else if fe = .nil ∧ r.n > n then r.n else n),
         (if j = 0 ∨ r.err = .nil then fe else if fe = .nil then r.err else fe))
  | 0, n, fe => by simp [UdpMulti.write]
  | j + 1, n, fe => by
    simp only [List.replicate_succ, UdpMulti.write, h]
    by_cases he : r.err = .nil
    · simp only [he, ne_eq, not_true_eq_false, if_false]
      rw [write_rep max s s' b r h j]
      by_cases hj : j = 0 <;> simp [hj, he]
      by_cases hf : fe = .nil <;> simp [hf]
      split <;> (try split) <;> omega
    · simp only [ne_eq, he, not_false_eq_true, if_true]
      rw [write_rep max s s' b r h j]
      by_cases hj : j = 0 <;> simp [hj, he]
      by_cases hf : fe = .nil <;> simp [hf, he]

theorem headD_ok (socks : List Sock) (h : socks.all (· = .ok) = true) : socks.headD .ok = .ok := by
  cases socks with
  | nil => rfl
  | cons x xs => simp at h; simp [h.1]

theorem tail_ok (socks : List Sock) (h : socks.all (· = .ok) = true) : socks.tail.all (· = .ok) = true := by
  cases socks with
  | nil => rfl
  | cons x xs => simp at h; simp; exact h.2

theorem flush_rep (s s' : T) (r : Res) (h : Udp.flush s .ok = (s', r)) :
    ∀ (j : Nat) (socks : List Sock) (fe : Err), socks.all (· = .ok) = true →
      UdpMulti.flush (List.replicate j s) socks fe
        = (List.replicate j s', (if j = 0 then fe else if fe = .nil then r.err else fe), List.replicate j r.recv)
  | 0, _, _, _ => by simp [UdpMulti.flush]
  | j + 1, socks, fe, hs => by
    simp only [List.replicate_succ, UdpMulti.flush, headD_ok socks hs, h]
    rw [flush_rep s s' r h j socks.tail _ (tail_ok socks hs)]
    by_cases hj : j = 0 <;> simp [hj]
    by_cases hf : fe = .nil <;> simp [hf]

theorem headD_true (oks : List Bool) (h : oks.all (· = true) = true) : oks.headD true = true := by
  cases oks with
  | nil => rfl
  | cons x xs => simp at h; simp [h.1]

theorem tail_true (oks : List Bool) (h : oks.all (· = true) = true) : oks.tail.all (· = true) = true := by
  cases oks with
  | nil => rfl
  | cons x xs => simp at h; simp; exact h.2

theorem close_rep (s s' : T) (r : Res) (h : Udp.close s true = (s', r)) (he : r.err = .nil) :
    ∀ (j : Nat) (oks : List Bool), oks.all (· = true) = true →
      UdpMulti.close (List.replicate j s) oks = (List.replicate j s', .nil)
  | 0, _, _ => by simp [UdpMulti.close]
  | j + 1, oks, hs => by
    simp only [List.replicate_succ, UdpMulti.close, headD_true oks hs, h, he]
    rw [close_rep s s' r h he j oks.tail (tail_true oks hs)]
    simp

/-- a quiet call — whether it succeeds or is refused — does the same thing on every one of
`k ≥ 1` identical destinations, and the caller sees that one result -/
theorem step_rep (max k : Nat) (hk : 0 < k) (s : T) (op : MOp) (hq : op.quiet = true) :
    UdpMulti.step max (List.replicate k s) op
      = (List.replicate k (Udp.step max s op.single).1,
         { n := (Udp.step max s op.single).2.n, err := (Udp.step max s op.single).2.err,
           recv := List.replicate k (Udp.step max s op.single).2.recv }) := by
  have hk' : k ≠ 0 := by omega
  cases op with
  | write b =>
    simp only [MOp.single, Udp.step]
    have := write_rep max s (accept max s b).1 b (accept max s b).2 rfl k 0 .nil
    simp only [UdpMulti.step, this]
    have hacc : (accept max s b).2.recv = [] ∧ ((accept max s b).2.err ≠ .nil → (accept max s b).2.n = 0) := by
      unfold accept; split <;> (try split) <;> simp
    by_cases he : (accept max s b).2.err = .nil
    · simp [hk', hacc.1, he]; omega
    · simp [hk', hacc.1, he, hacc.2 he]
  | flush socks =>
    simp only [MOp.single, Udp.step]
    have := flush_rep s (Udp.flush s .ok).1 (Udp.flush s .ok).2 rfl k socks .nil (by simpa [MOp.quiet] using hq)
    simp only [UdpMulti.step, this]
    have hn : (Udp.flush s .ok).2.n = 0 := by
      unfold Udp.flush; split <;> (try split) <;> rfl
    simp [hn, hk']
  | close oks =>
    simp only [MOp.single, Udp.step]
    have he : (Udp.close s true).2.err = .nil := by unfold Udp.close; split <;> simp
    have := close_rep s (Udp.close s true).1 (Udp.close s true).2 rfl he k oks (by simpa [MOp.quiet] using hq)
    simp only [UdpMulti.step, this]
    have hn : (Udp.close s true).2.n = 0 ∧ (Udp.close s true).2.recv = [] := by
      unfold Udp.close; split <;> simp
    simp [hn.1, hn.2, he]
  | isOpen =>
    simp only [MOp.single, Udp.step, UdpMulti.step, UdpMulti.isOpen]
    cases hc : s.closed <;> simp [hk', hc]

theorem envs_quiet (k : Nat) (op : MOp) (hq : op.quiet = true) : ∀ x ∈ op.envs k, x = Env.ok := by
  intro x hx
  cases op with
  | write b => simp [MOp.envs] at hx; exact hx.2
  | isOpen => simp [MOp.envs] at hx; exact hx.2
  | flush socks =>
    simp only [MOp.envs, List.mem_map, List.mem_range] at hx
    obtain ⟨d, _, rfl⟩ := hx
    simp only [MOp.quiet, List.all_eq_true, decide_eq_true_eq] at hq
    have : socks[d]?.getD .ok = .ok := by
      cases hget : socks[d]? with
      | none => rfl
      | some v => exact hq v (List.mem_of_getElem? hget)
    simp [this, Sock.env]
  | close oks =>
    simp only [MOp.envs, List.mem_map, List.mem_range] at hx
    obtain ⟨d, _, rfl⟩ := hx
    simp only [MOp.quiet, List.all_eq_true, decide_eq_true_eq] at hq
    have : oks[d]?.getD true = true := by
      cases hget : oks[d]? with
      | none => rfl
      | some v => exact hq v (List.mem_of_getElem? hget)
    simp [this]

/-- the event of a quiet, successful call as seen at destination `d < k` is the single-transport event -/
theorem proj_rep (k d : Nat) (hd : d < k) (op : MOp) (hq : op.quiet = true) (r : Res) :
    (toMEv k op { n := r.n, err := r.err, recv := List.replicate k r.recv }).proj d = toEv op.single r := by
  have henv : (op.envs k)[d]?.getD .ok = .ok := by
    cases hget : (op.envs k)[d]? with
    | none => rfl
    | some v => exact envs_quiet k op hq v (List.mem_of_getElem? hget)
  have hrecv : (List.replicate k r.recv)[d]?.getD [] = r.recv := by
    simp [hd]
  cases op <;> simp [MEv.proj, toMEv, toEv, henv, hrecv, MOp.kind, MOp.arg, MOp.single, Op.kind, Op.arg, Op.env, Sock.env]

theorem checkDests_rep (max : Nat) (e : MEv) (ev : Ev) (st : St) (k : Nat) (hproj : ∀ d, d < k → e.proj d = ev)
    (hok : checkEv max st ev = none) :
    ∀ (j d0 : Nat), d0 + j ≤ k → checkDests max false e d0 (List.replicate j st) = none
  | 0, _, _ => rfl
  | j + 1, d0, h => by
    simp only [List.replicate_succ, checkDests, Bool.false_eq_true, if_false, hproj d0 (by omega), hok]
    exact checkDests_rep max e ev st k hproj hok j (d0 + 1) (by omega)

theorem nextDests_rep (e : MEv) (ev : Ev) (st : St) (k : Nat) (hproj : ∀ d, d < k → e.proj d = ev) :
    ∀ (j d0 : Nat), d0 + j ≤ k → nextDests e d0 (List.replicate j st) = List.replicate j (next st ev)
  | 0, _, _ => rfl
  | j + 1, d0, h => by
    simp only [List.replicate_succ, nextDests, hproj d0 (by omega)]
    rw [nextDests_rep e ev st k hproj j (d0 + 1) (by omega)]

theorem allEqual_rep (k : Nat) (x : List Bytes) : allEqual (List.replicate k x) = true := by
  cases k with
  | zero => rfl
  | succ k => simp [List.replicate_succ, allEqual]

/-- fan-out, from any pair of states related by the invariant -/
theorem fanout (max k : Nat) (hk : 0 < k) : ∀ (mops : List MOp) (s : T) (st : St) (q : Bool), Inv max s st →
    (∀ op ∈ mops, op.quiet = true) →
    (∀ d, d < k → (UdpMulti.trace max (List.replicate k s) mops).map (MEv.proj d) = Udp.trace max s (mops.map MOp.single))
    ∧ checkMultiFrom max { dests := List.replicate k st, faulted := false, quiet := q }
        (UdpMulti.trace max (List.replicate k s) mops) = none
  | [], _, _, _, _, _ => ⟨fun _ _ => rfl, rfl⟩
  | op :: mops, s, st, q, hinv, hq => by
    have hq0 : op.quiet = true := hq op (List.mem_cons_self ..)
    have hstep := step_rep max k hk s op hq0
    have ⟨hck, hinv'⟩ := step_ok max s st op.single hinv
    generalize hr : (Udp.step max s op.single).2 = r at hstep hck hinv'
    have hproj : ∀ d, d < k → (toMEv k op { n := r.n, err := r.err, recv := List.replicate k r.recv }).proj d
        = toEv op.single r := fun d hd => proj_rep k d hd op hq0 r
    have henvs : (toMEv k op { n := r.n, err := r.err, recv := List.replicate k r.recv }).envs.any (· ≠ Env.ok) = false := by
      simp only [toMEv, List.any_eq_false]
      intro x hx
      simp [envs_quiet k op hq0 x hx]
    have ih := fanout max k hk mops (Udp.step max s op.single).1 (next st (toEv op.single r))
      (q && !false && decide (r.err = .nil)) hinv'
      (fun o ho => hq o (List.mem_cons_of_mem _ ho))
    constructor
    · intro d hd
      simp only [UdpMulti.trace, hstep, List.length_replicate, List.map_cons, trace_cons, hproj d hd, hr]
      rw [ih.1 d hd]
    · simp only [UdpMulti.trace, hstep, List.length_replicate, checkMultiFrom]
      have hck' : checkMEv max { dests := List.replicate k st, faulted := false, quiet := q }
          (toMEv k op { n := r.n, err := r.err, recv := List.replicate k r.recv }) = none := by
        unfold checkMEv
        simp only [henvs, Bool.or_false]
        simp only [toMEv, List.length_replicate, ne_eq, not_true_eq_false, if_false, allEqual_rep]
        simp only [Bool.not_true, Bool.and_false, Bool.false_eq_true, if_false]
        exact checkDests_rep max _ _ st k hproj hck k 0 (by omega)
      have hnx : nextM { dests := List.replicate k st, faulted := false, quiet := q }
          (toMEv k op { n := r.n, err := r.err, recv := List.replicate k r.recv })
          = { dests := List.replicate k (next st (toEv op.single r)), faulted := false,
              quiet := (q && !false && decide (r.err = .nil)) } := by
        unfold nextM
        simp only [henvs, Bool.or_false]
        rw [nextDests_rep _ _ st k hproj k 0 (by omega)]
        simp [toMEv]
        rfl
      rw [hck', hnx]
      exact ih.2

/-! ### every destination sees every write and every flush, whatever fails -/

theorem write_at (max : Nat) (b : Bytes) : ∀ (m : MT) (n : Nat) (fe : Err) (d : Nat),
    (UdpMulti.write max m b n fe).1[d]? = m[d]?.map (fun t => (accept max t b).1)
  | [], _, _, _ => by simp [UdpMulti.write]
  | t :: ts, n, fe, 0 => by simp [UdpMulti.write]
  | t :: ts, n, fe, d + 1 => by
    simp only [UdpMulti.write, List.getElem?_cons_succ]
    split <;> exact write_at max b ts _ _ d

theorem flush_at : ∀ (m : MT) (socks : List Sock) (fe : Err) (d : Nat),
    (UdpMulti.flush m socks fe).1[d]? = m[d]?.map (fun t => (Udp.flush t (socks.getD d .ok)).1)
    ∧ (UdpMulti.flush m socks fe).2.2[d]? = m[d]?.map (fun t => (Udp.flush t (socks.getD d .ok)).2.recv)
  | [], _, _, _ => by simp [UdpMulti.flush]
  | t :: ts, socks, fe, 0 => by cases socks <;> simp [UdpMulti.flush]
  | t :: ts, socks, fe, d + 1 => by
    have ih := flush_at ts socks.tail (if fe = .nil then (Udp.flush t (socks.headD .ok)).2.err else fe) d
    have hs : socks.tail.getD d .ok = socks.getD (d + 1) .ok := by cases socks <;> simp
    simp only [UdpMulti.flush, List.getElem?_cons_succ]
    rw [← hs]
    exact ih

theorem close_at : ∀ (m : MT) (oks : List Bool) (d : Nat), oks.all (· = true) = true →
    (UdpMulti.close m oks).1[d]? = m[d]?.map (fun t => (Udp.close t true).1)
  | [], _, _, _ => by simp [UdpMulti.close]
  | t :: ts, oks, d, h => by
    have he : (Udp.close t true).2.err = .nil := by unfold Udp.close; split <;> simp
    simp only [UdpMulti.close, headD_true oks h, he, ne_eq, not_true_eq_false, if_false]
    cases d with
    | zero => simp
    | succ d => simpa using close_at ts oks.tail d (tail_true oks h)

theorem getD_true (oks : List Bool) (h : oks.all (· = true) = true) (d : Nat) : oks.getD d true = true := by
  simp only [List.all_eq_true, decide_eq_true_eq] at h
  rw [List.getD_eq_getElem?_getD]
  cases hget : oks[d]? with
  | none => rfl
  | some v => exact h v (List.mem_of_getElem? hget)

/-- one call on the multi transport is, at destination `d`, that call on destination `d`'s own
transport with destination `d`'s own socket: state and arriving datagrams -/
theorem step_at (max : Nat) (m : MT) (op : MOp) (d : Nat) (t : T) (ht : m[d]? = some t) (hc : op.closeOk = true) :
    (UdpMulti.step max m op).1[d]? = some (Udp.step max t (op.at d)).1
    ∧ (UdpMulti.step max m op).2.recv[d]?.getD [] = (Udp.step max t (op.at d)).2.recv := by
  cases op with
  | write b =>
    have hrecv : (accept max t b).2.recv = [] := by unfold accept; split <;> (try split) <;> rfl
    simp [UdpMulti.step, MOp.at, Udp.step, write_at, ht, hrecv]
  | flush socks =>
    have := flush_at m socks .nil d
    simp [UdpMulti.step, MOp.at, Udp.step, this.1, this.2, ht]
  | close oks =>
    have hq : oks.all (· = true) = true := by simpa [MOp.closeOk] using hc
    have hrecv : (Udp.close t true).2.recv = [] := by unfold Udp.close; split <;> simp
    have hg : oks[d]?.getD true = true := by
      have := getD_true oks hq d
      rwa [List.getD_eq_getElem?_getD] at this
    simp [UdpMulti.step, MOp.at, Udp.step, close_at m oks d hq, ht, hg, hrecv]
  | isOpen =>
    simp [UdpMulti.step, MOp.at, Udp.step, ht]

/-- over a whole history: destination `d` receives exactly what its own transport would have sent
had it been given every write and every flush directly -/
theorem every_destination (max : Nat) : ∀ (mops : List MOp) (m : MT) (d : Nat) (t : T), m[d]? = some t →
    (∀ op ∈ mops, op.closeOk = true) →
    (UdpMulti.trace max m mops).map (fun e => e.recv[d]?.getD []) = (Udp.trace max t (mops.map (MOp.at d))).map (·.recv)
  | [], _, _, _, _, _ => rfl
  | op :: mops, m, d, t, ht, hc => by
    have hs := step_at max m op d t ht (hc op (List.mem_cons_self ..))
    have ih := every_destination max mops (UdpMulti.step max m op).1 d _ hs.1 (fun o ho => hc o (List.mem_cons_of_mem _ ho))
    simp only [UdpMulti.trace, List.map_cons, trace_cons, ih]
    simp [toMEv, toEv, hs.2]

end Tally.UdpMultiLemmas
