import Tally.Model.M3Batch
import TallyProofs.Props.C16
/-!
# Lemmas about the batching fold of `process()` and the size accounting
-/
namespace Tally.M3
open Tally Tally.Thrift Tally.Props.C16

def sizeSum (b : List Sized) : Nat := (b.map (·.size)).sum

theorem sizeSum_append (a b : List Sized) : sizeSum (a ++ b) = sizeSum a + sizeSum b := by
  simp [sizeSum, List.sum_append]

theorem sizeSum_single (x : Sized) : sizeSum [x] = x.size := by simp [sizeSum]

/-- a batch is fine when what it was charged fits, or it is a single (oversize) metric -/
def okBatch (free : Nat) (b : List Sized) : Prop := sizeSum b ≤ free ∨ b.length = 1

/-- invariant of the loop: `bytes` is the charge of the open batch; the open batch and every emitted
batch is fine; emitted batches are non-empty -/
structure BInv (free : Nat) (s : BState) : Prop where
  bytes_eq : s.bytes = sizeSum s.cur
  cur_ok : s.cur = [] ∨ okBatch free s.cur
  out_ok : ∀ b ∈ s.out, okBatch free b ∧ b ≠ []

theorem BInv.init (free : Nat) : BInv free BState.init :=
  ⟨by simp [BState.init, sizeSum], Or.inl rfl, by simp [BState.init]⟩

theorem emitCur_cur (s : BState) : (emitCur s).cur = [] := by
  unfold emitCur
  cases s.cur <;> simp

theorem emitCur_bytes (s : BState) : (emitCur s).bytes = 0 := by
  unfold emitCur
  split <;> rfl

theorem emitCur_out (s : BState) : (emitCur s).out = if s.cur = [] then s.out else s.out ++ [s.cur] := by
  unfold emitCur
  cases s.cur <;> simp

theorem emitCur_flatten (s : BState) :
    (emitCur s).out.flatten ++ (emitCur s).cur = s.out.flatten ++ s.cur := by
  rw [emitCur_cur, emitCur_out]
  by_cases h : s.cur = [] <;> simp [h]

theorem BInv.emitCur {free : Nat} {s : BState} (h : BInv free s) : BInv free (emitCur s) := by
  refine ⟨by rw [emitCur_bytes, emitCur_cur]; simp [sizeSum], Or.inl (emitCur_cur s), ?_⟩
  intro b hb
  rw [emitCur_out] at hb
  by_cases hc : s.cur = []
  · simp [hc] at hb
    exact h.out_ok b hb
  · simp [hc] at hb
    rcases hb with hb | hb
    · exact h.out_ok b hb
    · subst hb
      rcases h.cur_ok with h' | h'
      · exact absurd h' hc
      · exact ⟨h', hc⟩

/-- what one metric does: if it does not fit, the open batch is emitted and the metric starts the
next one; otherwise it is appended -/
theorem step_met (free : Nat) (s : BState) (x : Sized) :
    step free s (.met x) =
      if s.bytes + x.size > free then
        { cur := [x], bytes := x.size, out := (emitCur s).out }
      else { s with cur := s.cur ++ [x], bytes := s.bytes + x.size } := by
  unfold step
  by_cases h : s.bytes + x.size > free
  · simp [h, emitCur_cur, emitCur_bytes]
  · simp [h]

theorem step_flush (free : Nat) (s : BState) :
    step free s .flush = if (!s.cur.isEmpty || decide (s.bytes + 0 > free)) = true then emitCur s else s := rfl

theorem BInv.step {free : Nat} {s : BState} (h : BInv free s) (it : Item) : BInv free (step free s it) := by
  cases it with
  | flush =>
    rw [step_flush]
    split
    · exact h.emitCur
    · exact h
  | met x =>
    rw [step_met]
    by_cases hb : s.bytes + x.size > free
    · simp only [hb, if_true]
      exact ⟨by simp [sizeSum], Or.inr (Or.inr rfl), h.emitCur.out_ok⟩
    · simp only [hb, if_false]
      refine ⟨?_, Or.inr (Or.inl ?_), h.out_ok⟩
      · simp [sizeSum_append, sizeSum_single, h.bytes_eq]
      · have := h.bytes_eq
        simp only [sizeSum_append, sizeSum_single]
        omega

theorem BInv.consume {free : Nat} (items : List Item) : ∀ {s : BState}, BInv free s →
    BInv free (consume free s items) := by
  induction items with
  | nil => intro s h; exact h
  | cons it rest ih => intro s h; exact ih (h.step it)

/-- every emitted batch is non-empty and either fits or is a single metric -/
theorem batches_ok (free : Nat) (items : List Item) :
    ∀ b ∈ batches free items, okBatch free b ∧ b ≠ [] :=
  ((BInv.init free).consume items).emitCur.out_ok

/-! ### the fold neither drops, duplicates nor reorders -/

theorem step_flatten (free : Nat) (s : BState) (it : Item) :
    (step free s it).out.flatten ++ (step free s it).cur
      = s.out.flatten ++ s.cur ++ (Item.metric? it).toList := by
  cases it with
  | flush =>
    rw [step_flush]
    split
    · simp [emitCur_flatten, Item.metric?]
    · simp [Item.metric?]
  | met x =>
    rw [step_met]
    by_cases hb : s.bytes + x.size > free
    · simp only [hb, if_true, Item.metric?, Option.toList]
      have := emitCur_flatten s
      rw [emitCur_cur] at this
      simp at this
      simp [this]
    · simp [hb, Item.metric?]

theorem consume_flatten (free : Nat) (items : List Item) : ∀ s : BState,
    (consume free s items).out.flatten ++ (consume free s items).cur
      = s.out.flatten ++ s.cur ++ queued items := by
  induction items with
  | nil => intro s; simp [consume, queued]
  | cons it rest ih =>
    intro s
    have h := ih (step free s it)
    simp only [consume, List.foldl_cons] at h ⊢
    rw [h, step_flatten]
    cases it <;> simp [queued, Item.metric?, List.filterMap_cons]

theorem consume_append (free : Nat) (s : BState) (a b : List Item) :
    consume free s (a ++ b) = consume free (consume free s a) b := by
  simp [consume, List.foldl_append]

/-! ### lengths of the datagrams -/

theorem mem_messagesFrom (p : Proto) (ct : List MetricTag) : ∀ (bs : List (List Sized)) (seq : Int) (d : Bytes),
    d ∈ messagesFrom p ct seq bs → ∃ b ∈ bs, ∃ s : Int, d = encMessage p s (batchOf ct b) := by
  intro bs
  induction bs with
  | nil => intro seq d h; simp [messagesFrom] at h
  | cons b rest ih =>
    intro seq d h
    simp only [messagesFrom, List.mem_cons] at h
    rcases h with h | h
    · exact ⟨b, by simp, seq, h⟩
    · obtain ⟨b', hb', s, hs⟩ := ih (seq + 1) d h
      exact ⟨b', by simp [hb'], s, hs⟩

theorem sum_map_le {α : Type} (f g : α → Nat) (l : List α) (h : ∀ x ∈ l, f x ≤ g x) :
    (l.map f).sum ≤ (l.map g).sum := by
  induction l with
  | nil => simp
  | cons x xs ih =>
    have h1 := h x (by simp)
    have h2 := ih (fun y hy => h y (by simp [hy]))
    simp only [List.map_cons, List.sum_cons]
    omega

/-- compact list header: one byte up to 14 elements, at most six beyond -/
theorem listBegin_length_le (p : Proto) (ty n : Nat) :
    (listBegin p ty n).length ≤ (listBegin p ty 0).length + 5 := by
  cases p with
  | compact =>
    unfold listBegin
    simp only []
    split
    · simp
    · have := varint_length_le5 (n % 4294967296) (Nat.mod_lt _ (by decide))
      simp
      omega
  | binary => simp [listBegin, beBytes_length]

/-- the framing of a batch with `n` metrics is at most 5 bytes longer than that of the empty batch
(and not longer at all with the binary protocol) -/
theorem batchOverhead_le (p : Proto) (n : Nat) (ct : Option (List MetricTag)) :
    batchOverhead p n ct ≤ batchOverhead p 0 ct + (match p with | .compact => 5 | .binary => 0) := by
  cases p with
  | compact =>
    have := listBegin_length_le .compact T_STRUCT n
    simp only [batchOverhead]
    omega
  | binary => simp [batchOverhead, listBegin, beBytes_length]

end Tally.M3
