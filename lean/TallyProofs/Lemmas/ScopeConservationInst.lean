import TallyProofs.Lemmas.ScopeConservation
/-!
# Measures for counters and histograms (instances of `Cons.Meas`)

Every measure comes with an event weight `ω` and a state weight `φ` with `φ 0 = 0` and `ω = φ` away
from `0`: `ω = φ = id` gives conservation of the delivered amounts, `ω = 1`, `φ = [· ≠ 0]` counts the
delivered events (used for "an idle pass is silent").
-/
namespace Tally.Cons
open Tally Tally.KeyGen Tally.Buckets Tally.Scope

/-- admissible pair of weights -/
structure Weights (ω φ : Int → Int) : Prop where
  zero : φ 0 = 0
  agree : ∀ c, c ≠ 0 → ω c = φ c

theorem weights_id : Weights id id := ⟨rfl, fun _ _ => rfl⟩
/-- event-counting weights -/
def one : Int → Int := fun _ => 1
def nz : Int → Int := fun c => if c = 0 then 0 else 1
theorem weights_count : Weights one nz := ⟨rfl, fun c hc => by simp [one, nz, hc]⟩

theorem W_nonneg_zero (M : Meas) (hpos : ∀ e, 0 ≤ M.w e) : ∀ (es : List Event), W M es = 0 → ∀ e ∈ es, M.w e = 0 := by
  intro es
  induction es with
  | nil => intro _ e he; cases he
  | cons a es ih =>
    intro h e he
    rw [W_cons] at h
    have h1 := hpos a
    have h2 : 0 ≤ W M es := by
      clear ih h he
      induction es with
      | nil => simp
      | cons b es ih2 => rw [W_cons]; have := hpos b; omega
    rcases List.mem_cons.mp he with rfl | he
    · omega
    · exact ih (by omega) e he

/-! ## counters -/

def cw (nm : Bytes) (tg : TagMap) (ω : Int → Int) : Event → Int
  | .counter n t v => if n = nm ∧ t = tg then ω v else 0
  | _ => 0

def cμ (φ : Int → Int) : Metric → Int
  | .counter _ u => φ u
  | _ => 0

def counterMeas (nm : Bytes) (tg : TagMap) (ω φ : Int → Int) : Meas :=
  { kind := "counter", nm := nm, tg := tg, w := cw nm tg ω, μ := cμ φ }

theorem histEvents_cases (n : Bytes) (tg : TagMap) (h : Hist) (e : Event) (he : e ∈ histEvents n tg h) :
    (∃ lo hi c, e = .hval n tg lo hi c) ∨ (∃ lo hi c, e = .hdur n tg lo hi c) := by
  unfold histEvents at he
  obtain ⟨i, _, hi⟩ := List.mem_filterMap.mp he
  simp only at hi
  split at hi
  · cases hi
  · split at hi
    · injection hi with hi; exact .inr ⟨_, _, _, hi.symm⟩
    · injection hi with hi; exact .inl ⟨_, _, _, hi.symm⟩

theorem counterMeas_lawful (nm : Bytes) (tg : TagMap) (ω φ : Int → Int) (hw : Weights ω φ) :
    Lawful (counterMeas nm tg ω φ) := by
  refine ⟨by show ("counter" : String) ≠ "timer"; decide, ?_, ?_, ?_, ?_⟩
  · intro e he; cases e <;> first | rfl | cases he
  · intro sep s y hnm e he
    cases y with
    | counter n u =>
      simp only [reportMetric] at he
      split at he
      · cases he
      · simp only [List.mem_singleton] at he; subst he
        simp only [counterMeas, cw]
        split
        · next h => exact absurd ⟨rfl, h.1, h.2⟩ hnm
        · rfl
    | gauge n c up =>
      simp only [reportMetric] at he
      split at he
      · simp only [List.mem_singleton] at he; subst he; rfl
      · cases he
    | timer n vs => cases he
    | hist n h =>
      rcases histEvents_cases _ _ _ e he with ⟨_, _, _, rfl⟩ | ⟨_, _, _, rfl⟩ <;> rfl
  · intro sep s x hm
    obtain ⟨hk, hn, ht⟩ := hm
    cases x with
    | counter n u =>
      simp only [reportMetric]
      split
      · next h =>
        have : u = 0 := by simpa using h
        subst this
        show (0 : Int) = φ 0
        rw [hw.zero]
      · next h =>
        have hu : u ≠ 0 := by simpa using h
        show W _ [_] = φ u
        rw [W_cons, W_nil]
        simp only [counterMeas, cw]
        have hn' : fqn sep s.pfx n = nm := hn
        have ht' : s.tags = tg := ht
        simp only [hn', ht', and_self, if_true, hw.agree u hu]
        omega
    | gauge n c up => exact absurd hk (by show ("gauge" : String) ≠ "counter"; decide)
    | timer n vs => exact absurd hk (by show ("timer" : String) ≠ "counter"; decide)
    | hist n h => exact absurd hk (by show ("hist" : String) ≠ "counter"; decide)
  · intro x hk
    cases x with
    | counter n u => exact hw.zero
    | _ => rfl

/-- the increments addressed to counter `m` -/
def incOf (m : Nat) : Op → Int
  | .inc m' v => if m' = m then v else 0
  | _ => 0

/-- sum of all increments made through handle `m` in a program -/
def incTotal (m : Nat) (ops : List Op) : Int := (ops.map (incOf m)).sum

theorem cong_wrap64 (z : Int) : Cong two64 (wrap64 z) z := by
  unfold Cong wrap64 two64 two63
  simp only
  split <;> omega

theorem wrap64_eq_of_cong {a b : Int} (h : Cong two64 a b) : wrap64 a = wrap64 b := by
  unfold Cong two64 at h
  unfold wrap64 two64 two63
  simp only
  have : a % 18446744073709551616 = b % 18446744073709551616 := by omega
  rw [this]

theorem cong_of_eq {N a b : Int} (h : a = b) : Cong N a b := by subst h; simp [Cong]

theorem Cong.trans {N a b c : Int} (h1 : Cong N a b) (h2 : Cong N b c) : Cong N a c := by
  unfold Cong at *
  have : a - c = (a - b) + (b - c) := by omega
  rw [this]; exact Int.dvd_add h1 h2

theorem Cong.add_right {N a b : Int} (h : Cong N a b) (c : Int) : Cong N (a + c) (b + c) := by
  unfold Cong at *
  have : a + c - (b + c) = a - b := by omega
  rw [this]; exact h

/-- shape class of a counter named `n` -/
def IsCounter (n : Bytes) (x : Metric) : Prop := ∃ u, x = .counter n u

theorem isCounter_apply (m : Nat) (n : Bytes) (x : Metric) (op : Op) (h : IsCounter n x) :
    IsCounter n (ScopeRec.applyOp m x op) := by
  obtain ⟨u, rfl⟩ := h
  unfold ScopeRec.applyOp
  split
  · cases op <;> first | exact ⟨_, rfl⟩
  · exact ⟨_, rfl⟩

theorem isCounter_reset (n : Bytes) (x : Metric) (h : IsCounter n x) : IsCounter n (resetM x) := by
  obtain ⟨u, rfl⟩ := h; exact ⟨0, rfl⟩

theorem counter_gain (m : Nat) (n : Bytes) (x : Metric) (op : Op) (h : IsCounter n x) :
    Cong two64 (cμ id (ScopeRec.applyOp m x op)) (cμ id x + incOf m op) := by
  obtain ⟨u, rfl⟩ := h
  cases op with
  | inc m' v =>
    by_cases hm : m' = m
    · subst hm
      simp only [ScopeRec.applyOp, ScopeRec.target, if_true, ScopeRec.effect, cμ, incOf, id]
      exact cong_wrap64 _
    · have : ¬ (some m' = some m) := fun e => hm (Option.some.inj e)
      simp only [ScopeRec.applyOp, ScopeRec.target, this, if_false, incOf, hm, cμ, id]
      simp [Cong]
  | upd m' v | record m' v | recv m' v | recd m' v =>
    by_cases hm : m' = m <;> simp [ScopeRec.applyOp, ScopeRec.target, ScopeRec.effect, hm, incOf, cμ, Cong]
  | _ => simp [ScopeRec.applyOp, ScopeRec.target, incOf, cμ, Cong]

/-- without increments a counter keeps its event-count mass -/
theorem counter_gain_idle (m : Nat) (x : Metric) (op : Op)
    (hop : ScopeRec.target op ≠ some m) :
    Cong 0 (cμ nz (ScopeRec.applyOp m x op)) (cμ nz x + 0) := by
  rw [ScopeRec.applyOp_not_target m x op hop]
  simp [Cong]

/-! ## sums over bucket indices -/

/-- `Σ_{i<n} f i` -/
def bsum (f : Nat → Int) (n : Nat) : Int := ((List.range n).map f).sum

theorem bsum_zero_n (f : Nat → Int) : bsum f 0 = 0 := rfl
theorem bsum_succ (f : Nat → Int) (n : Nat) : bsum f (n + 1) = bsum f n + f n := by
  simp [bsum, List.range_succ, List.sum_append]

theorem bsum_congr (f g : Nat → Int) (n : Nat) (h : ∀ i, i < n → f i = g i) : bsum f n = bsum g n := by
  induction n with
  | zero => rfl
  | succ n ih =>
    rw [bsum_succ, bsum_succ, ih (fun i hi => h i (by omega)), h n (by omega)]

theorem bsum_zero (f : Nat → Int) (n : Nat) (h : ∀ i, i < n → f i = 0) : bsum f n = 0 := by
  induction n with
  | zero => rfl
  | succ n ih => rw [bsum_succ, ih (fun i hi => h i (by omega)), h n (by omega)]; rfl

theorem bsum_update (f g : Nat → Int) (n j : Nat) (hj : j < n) (h : ∀ i, i ≠ j → g i = f i) :
    bsum g n = bsum f n + (g j - f j) := by
  induction n with
  | zero => omega
  | succ n ih =>
    rw [bsum_succ, bsum_succ]
    by_cases hjn : j = n
    · subst hjn
      rw [bsum_congr g f j (fun i hi => h i (by omega))]
      omega
    · rw [ih (by omega), h n (fun e => hjn e.symm)]
      omega

theorem W_filterMap {α : Type} (M : Meas) (F : α → Option Event) (l : List α) :
    W M (l.filterMap F) = (l.map fun i => match F i with | none => 0 | some e => M.w e).sum := by
  induction l with
  | nil => rfl
  | cons a l ih =>
    rw [List.filterMap_cons]
    cases h : F a with
    | none => simp only [List.map_cons, List.sum_cons, h, ih]; omega
    | some e => simp only [List.map_cons, List.sum_cons, h, W_cons, ih]

theorem getD_bump (cs : List Int) (j i : Nat) :
    (bump cs j).getD i 0 = if i = j ∧ j < cs.length then cs.getD j 0 + 1 else cs.getD i 0 := by
  unfold bump
  simp only [List.getD_eq_getElem?_getD, List.getElem?_set]
  by_cases hij : j = i
  · subst hij
    by_cases hl : j < cs.length
    · simp [hl]
    · simp [hl]
  · have : ¬ (i = j) := fun e => hij e.symm
    simp [hij, this]

/-! ## value histograms -/

def hvw (nm : Bytes) (tg : TagMap) (p : F64 → F64 → Bool) (ω : Int → Int) : Event → Int
  | .hval n t lo hi c => if n = nm ∧ t = tg ∧ p lo hi = true then ω c else 0
  | _ => 0

/-- weight of bucket `i` of a value histogram -/
def hvTerm (p : F64 → F64 → Bool) (φ : Int → Int) (us : List F64) (cs : List Int) (i : Nat) : Int :=
  if p (valueLower us i) (us.getD i 0) = true then φ (cs.getD i 0) else 0

def hvμ (p : F64 → F64 → Bool) (φ : Int → Int) : Metric → Int
  | .hist _ h => if h.isDur then 0 else bsum (hvTerm p φ h.vUppers h.counts) h.counts.length
  | _ => 0

def histVMeas (nm : Bytes) (tg : TagMap) (p : F64 → F64 → Bool) (ω φ : Int → Int) : Meas :=
  { kind := "hist", nm := nm, tg := tg, w := hvw nm tg p ω, μ := hvμ p φ }

theorem histVMeas_lawful (nm : Bytes) (tg : TagMap) (p : F64 → F64 → Bool) (ω φ : Int → Int)
    (hw : Weights ω φ) : Lawful (histVMeas nm tg p ω φ) := by
  refine ⟨by show ("hist" : String) ≠ "timer"; decide, ?_, ?_, ?_, ?_⟩
  · intro e he; cases e <;> first | rfl | cases he
  · intro sep s y hnm e he
    cases y with
    | counter n u =>
      simp only [reportMetric] at he
      split at he
      · cases he
      · simp only [List.mem_singleton] at he; subst he; rfl
    | gauge n c up =>
      simp only [reportMetric] at he
      split at he
      · simp only [List.mem_singleton] at he; subst he; rfl
      · cases he
    | timer n vs => cases he
    | hist n h =>
      rcases histEvents_cases _ _ _ e he with ⟨lo, hi, c, rfl⟩ | ⟨_, _, _, rfl⟩
      · simp only [histVMeas, hvw]
        split
        · next h => exact absurd ⟨rfl, h.1, h.2.1⟩ hnm
        · rfl
      · rfl
  · intro sep s x hm
    obtain ⟨hk, hn, ht⟩ := hm
    cases x with
    | hist n h =>
      have hn' : fqn sep s.pfx n = nm := hn
      have ht' : s.tags = tg := ht
      show W _ (histEvents (fqn sep s.pfx n) s.tags h) = hvμ p φ (.hist n h)
      unfold histEvents
      rw [W_filterMap, hn', ht']
      simp only [hvμ]
      cases hd : h.isDur with
      | true =>
        rw [if_pos rfl]
        show bsum _ h.counts.length = 0
        apply bsum_zero
        intro i _
        simp only
        by_cases hz : (h.counts.getD i 0 == 0) = true
        · rw [if_pos hz]
        · rw [if_neg hz, if_pos trivial]; rfl
      | false =>
        rw [if_neg (by decide)]
        show bsum _ h.counts.length = bsum _ h.counts.length
        apply bsum_congr
        intro i _
        simp only [hvTerm]
        by_cases hz : (h.counts.getD i 0 == 0) = true
        · rw [if_pos hz]
          have : h.counts.getD i 0 = 0 := by simpa using hz
          rw [this, hw.zero]; simp
        · first | rw [if_neg hz, if_neg (by decide)] | rw [if_neg hz, if_neg not_false]
          have hc : h.counts.getD i 0 ≠ 0 := by simpa using hz
          simp only [histVMeas, hvw, true_and, hw.agree _ hc]
    | counter n u => exact absurd hk (by show ("counter" : String) ≠ "hist"; decide)
    | gauge n c up => exact absurd hk (by show ("gauge" : String) ≠ "hist"; decide)
    | timer n vs => exact absurd hk (by show ("timer" : String) ≠ "hist"; decide)
  · intro x _
    cases x with
    | hist n h =>
      show hvμ p φ (.hist n { h with counts := h.counts.map fun _ => 0 }) = 0
      simp only [hvμ]
      split
      · rfl
      · apply bsum_zero
        intro i hi
        simp only [hvTerm]
        have : (List.map (fun _ => (0 : Int)) h.counts).getD i 0 = 0 := by
          simp only [List.getD_eq_getElem?_getD, List.getElem?_map]
          cases h.counts[i]? <;> rfl
        rw [this, hw.zero]; simp
    | _ => rfl

/-- shape class of a value histogram named `n` with stored upper bounds `us` -/
def IsHistV (n : Bytes) (dU : List Int) (us : List F64) (x : Metric) : Prop :=
  ∃ cs, x = .hist n ⟨false, dU, us, cs⟩ ∧ cs.length = us.length

theorem isHistV_apply (m : Nat) (n : Bytes) (dU : List Int) (us : List F64) (x : Metric) (op : Op)
    (h : IsHistV n dU us x) : IsHistV n dU us (ScopeRec.applyOp m x op) := by
  obtain ⟨cs, rfl, hl⟩ := h
  unfold ScopeRec.applyOp
  split
  · cases op with
    | recv m' v =>
      refine ⟨bump cs (placeValue us v), ?_, by rw [ScopeRec.bump_length]; exact hl⟩
      simp [ScopeRec.effect]
    | recd m' d => exact ⟨cs, by simp [ScopeRec.effect], hl⟩
    | _ => exact ⟨cs, rfl, hl⟩
  · exact ⟨cs, rfl, hl⟩

theorem isHistV_reset (n : Bytes) (dU : List Int) (us : List F64) (x : Metric) (h : IsHistV n dU us x) :
    IsHistV n dU us (resetM x) := by
  obtain ⟨cs, rfl, hl⟩ := h
  exact ⟨cs.map fun _ => 0, rfl, by simpa using hl⟩

/-- does a `RecordValue` through handle `m` land in a bucket selected by `p`? -/
def recvOf (m : Nat) (us : List F64) (p : F64 → F64 → Bool) : Op → Int
  | .recv m' v =>
    if m' = m ∧ p (valueLower us (placeValue us v)) (us.getD (placeValue us v) 0) = true then 1 else 0
  | _ => 0

theorem histV_gain (m : Nat) (n : Bytes) (dU : List Int) (us : List F64) (hne : us ≠ []) (p : F64 → F64 → Bool)
    (x : Metric) (op : Op) (h : IsHistV n dU us x) :
    Cong 0 (hvμ p id (ScopeRec.applyOp m x op)) (hvμ p id x + recvOf m us p op) := by
  obtain ⟨cs, rfl, hl⟩ := h
  have same : ∀ o : Op, (∀ v, o ≠ .recv m v) →
      ScopeRec.applyOp m (.hist n ⟨false, dU, us, cs⟩) o = .hist n ⟨false, dU, us, cs⟩ ∧ recvOf m us p o = 0 := by
    intro o ho
    cases o with
    | recv m' v =>
      have hm : m' ≠ m := fun e => ho v (e ▸ rfl)
      exact ⟨by simp [ScopeRec.applyOp, ScopeRec.target, hm], by simp [recvOf, hm]⟩
    | recd m' d =>
      refine ⟨?_, rfl⟩
      by_cases hm : m' = m <;> simp [ScopeRec.applyOp, ScopeRec.target, ScopeRec.effect, hm]
    | inc m' v => exact ⟨by by_cases hm : m' = m <;> simp [ScopeRec.applyOp, ScopeRec.target, ScopeRec.effect, hm], rfl⟩
    | upd m' v => exact ⟨by by_cases hm : m' = m <;> simp [ScopeRec.applyOp, ScopeRec.target, ScopeRec.effect, hm], rfl⟩
    | record m' v => exact ⟨by by_cases hm : m' = m <;> simp [ScopeRec.applyOp, ScopeRec.target, ScopeRec.effect, hm], rfl⟩
    | _ => exact ⟨by simp [ScopeRec.applyOp, ScopeRec.target], rfl⟩
  by_cases hop : ∃ v, op = .recv m v
  · obtain ⟨v, rfl⟩ := hop
    have e1 : ScopeRec.applyOp m (.hist n ⟨false, dU, us, cs⟩) (.recv m v)
        = .hist n ⟨false, dU, us, bump cs (placeValue us v)⟩ := by
      simp [ScopeRec.applyOp, ScopeRec.target, ScopeRec.effect]
    rw [e1]
    have hj : placeValue us v < cs.length := by rw [hl]; exact ScopeRec.placeValue_lt us hne v
    simp only [hvμ, Bool.false_eq_true, if_false, ScopeRec.bump_length, recvOf, true_and]
    rw [bsum_update (hvTerm p id us cs) (hvTerm p id us (bump cs (placeValue us v))) cs.length
      (placeValue us v) hj]
    · simp only [hvTerm, getD_bump, hj, and_self, if_true, id]
      apply cong_of_eq
      split <;> omega
    · intro i hi
      simp only [hvTerm, getD_bump, hi, false_and, if_false]
  · obtain ⟨a, b⟩ := same op (fun v e => hop ⟨v, e⟩)
    rw [a, b]; simp [Cong]

theorem sum_recvOf (m : Nat) (us : List F64) (p : F64 → F64 → Bool) (ops : List Op) :
    (ops.map (recvOf m us p)).sum =
      (((ScopeRec.samplesV m ops).filter fun v =>
        p (valueLower us (placeValue us v)) (us.getD (placeValue us v) 0)).length : Int) := by
  induction ops with
  | nil => rfl
  | cons op ops ih =>
    rw [List.map_cons, List.sum_cons, ih]
    cases op with
    | recv m' v =>
      by_cases hm : m' = m
      · subst hm
        have : ScopeRec.samplesV m' (.recv m' v :: ops) = v :: ScopeRec.samplesV m' ops := by
          simp [ScopeRec.samplesV]
        rw [this, List.filter_cons]
        simp only [recvOf, true_and]
        split <;> simp <;> omega
      · have : ScopeRec.samplesV m (.recv m' v :: ops) = ScopeRec.samplesV m ops := by
          simp [ScopeRec.samplesV, hm]
        rw [this]; simp [recvOf, hm]
    | _ => simp [recvOf, ScopeRec.samplesV]

/-! ## duration histograms -/

def hdw (nm : Bytes) (tg : TagMap) (p : Int → Int → Bool) (ω : Int → Int) : Event → Int
  | .hdur n t lo hi c => if n = nm ∧ t = tg ∧ p lo hi = true then ω c else 0
  | _ => 0

/-- weight of bucket `i` of a duration histogram -/
def hdTerm (p : Int → Int → Bool) (φ : Int → Int) (us : List Int) (cs : List Int) (i : Nat) : Int :=
  if p (durationLower us i) (us.getD i 0) = true then φ (cs.getD i 0) else 0

def hdμ (p : Int → Int → Bool) (φ : Int → Int) : Metric → Int
  | .hist _ h => if h.isDur then bsum (hdTerm p φ h.dUppers h.counts) h.counts.length else 0
  | _ => 0

def histDMeas (nm : Bytes) (tg : TagMap) (p : Int → Int → Bool) (ω φ : Int → Int) : Meas :=
  { kind := "hist", nm := nm, tg := tg, w := hdw nm tg p ω, μ := hdμ p φ }

theorem histDMeas_lawful (nm : Bytes) (tg : TagMap) (p : Int → Int → Bool) (ω φ : Int → Int)
    (hw : Weights ω φ) : Lawful (histDMeas nm tg p ω φ) := by
  refine ⟨by show ("hist" : String) ≠ "timer"; decide, ?_, ?_, ?_, ?_⟩
  · intro e he; cases e <;> first | rfl | cases he
  · intro sep s y hnm e he
    cases y with
    | counter n u =>
      simp only [reportMetric] at he
      split at he
      · cases he
      · simp only [List.mem_singleton] at he; subst he; rfl
    | gauge n c up =>
      simp only [reportMetric] at he
      split at he
      · simp only [List.mem_singleton] at he; subst he; rfl
      · cases he
    | timer n vs => cases he
    | hist n h =>
      rcases histEvents_cases _ _ _ e he with ⟨_, _, _, rfl⟩ | ⟨lo, hi, c, rfl⟩
      · rfl
      · simp only [histDMeas, hdw]
        split
        · next h => exact absurd ⟨rfl, h.1, h.2.1⟩ hnm
        · rfl
  · intro sep s x hm
    obtain ⟨hk, hn, ht⟩ := hm
    cases x with
    | hist n h =>
      have hn' : fqn sep s.pfx n = nm := hn
      have ht' : s.tags = tg := ht
      show W _ (histEvents (fqn sep s.pfx n) s.tags h) = hdμ p φ (.hist n h)
      unfold histEvents
      rw [W_filterMap, hn', ht']
      simp only [hdμ]
      cases hd : h.isDur with
      | false =>
        rw [if_neg (by decide)]
        show bsum _ h.counts.length = 0
        apply bsum_zero
        intro i _
        by_cases hz : (h.counts.getD i 0 == 0) = true
        · rw [if_pos hz]
        · first | rw [if_neg hz, if_neg (by decide)] | rw [if_neg hz, if_neg not_false]
          rfl
      | true =>
        rw [if_pos rfl]
        show bsum _ h.counts.length = bsum _ h.counts.length
        apply bsum_congr
        intro i _
        simp only [hdTerm]
        by_cases hz : (h.counts.getD i 0 == 0) = true
        · rw [if_pos hz]
          have : h.counts.getD i 0 = 0 := by simpa using hz
          rw [this, hw.zero]; simp
        · first | rw [if_neg hz, if_pos rfl] | rw [if_neg hz, if_pos trivial]
          have hc : h.counts.getD i 0 ≠ 0 := by simpa using hz
          simp only [histDMeas, hdw, true_and, hw.agree _ hc]
    | counter n u => exact absurd hk (by show ("counter" : String) ≠ "hist"; decide)
    | gauge n c up => exact absurd hk (by show ("gauge" : String) ≠ "hist"; decide)
    | timer n vs => exact absurd hk (by show ("timer" : String) ≠ "hist"; decide)
  · intro x _
    cases x with
    | hist n h =>
      show hdμ p φ (.hist n { h with counts := h.counts.map fun _ => 0 }) = 0
      simp only [hdμ]
      split
      · apply bsum_zero
        intro i hi
        simp only [hdTerm]
        have : (List.map (fun _ => (0 : Int)) h.counts).getD i 0 = 0 := by
          simp only [List.getD_eq_getElem?_getD, List.getElem?_map]
          cases h.counts[i]? <;> rfl
        rw [this, hw.zero]; simp
      · rfl
    | _ => rfl

/-- shape class of a duration histogram named `n` with stored upper bounds `us` -/
def IsHistD (n : Bytes) (vU : List F64) (us : List Int) (x : Metric) : Prop :=
  ∃ cs, x = .hist n ⟨true, us, vU, cs⟩ ∧ cs.length = us.length

theorem isHistD_apply (m : Nat) (n : Bytes) (vU : List F64) (us : List Int) (x : Metric) (op : Op)
    (h : IsHistD n vU us x) : IsHistD n vU us (ScopeRec.applyOp m x op) := by
  obtain ⟨cs, rfl, hl⟩ := h
  unfold ScopeRec.applyOp
  split
  · cases op with
    | recd m' v =>
      refine ⟨bump cs (placeKey us v), ?_, by rw [ScopeRec.bump_length]; exact hl⟩
      simp [ScopeRec.effect]
    | recv m' d => exact ⟨cs, by simp [ScopeRec.effect], hl⟩
    | _ => exact ⟨cs, rfl, hl⟩
  · exact ⟨cs, rfl, hl⟩

theorem isHistD_reset (n : Bytes) (vU : List F64) (us : List Int) (x : Metric) (h : IsHistD n vU us x) :
    IsHistD n vU us (resetM x) := by
  obtain ⟨cs, rfl, hl⟩ := h
  exact ⟨cs.map fun _ => 0, rfl, by simpa using hl⟩

/-- does a `RecordDuration` through handle `m` land in a bucket selected by `p`? -/
def recdOf (m : Nat) (us : List Int) (p : Int → Int → Bool) : Op → Int
  | .recd m' v =>
    if m' = m ∧ p (durationLower us (placeKey us v)) (us.getD (placeKey us v) 0) = true then 1 else 0
  | _ => 0

theorem histD_gain (m : Nat) (n : Bytes) (vU : List F64) (us : List Int) (hne : us ≠ []) (p : Int → Int → Bool)
    (x : Metric) (op : Op) (h : IsHistD n vU us x) :
    Cong 0 (hdμ p id (ScopeRec.applyOp m x op)) (hdμ p id x + recdOf m us p op) := by
  obtain ⟨cs, rfl, hl⟩ := h
  have same : ∀ o : Op, (∀ v, o ≠ .recd m v) →
      ScopeRec.applyOp m (.hist n ⟨true, us, vU, cs⟩) o = .hist n ⟨true, us, vU, cs⟩ ∧ recdOf m us p o = 0 := by
    intro o ho
    cases o with
    | recd m' v =>
      have hm : m' ≠ m := fun e => ho v (e ▸ rfl)
      exact ⟨by simp [ScopeRec.applyOp, ScopeRec.target, hm], by simp [recdOf, hm]⟩
    | recv m' d =>
      refine ⟨?_, rfl⟩
      by_cases hm : m' = m <;> simp [ScopeRec.applyOp, ScopeRec.target, ScopeRec.effect, hm]
    | inc m' v => exact ⟨by by_cases hm : m' = m <;> simp [ScopeRec.applyOp, ScopeRec.target, ScopeRec.effect, hm], rfl⟩
    | upd m' v => exact ⟨by by_cases hm : m' = m <;> simp [ScopeRec.applyOp, ScopeRec.target, ScopeRec.effect, hm], rfl⟩
    | record m' v => exact ⟨by by_cases hm : m' = m <;> simp [ScopeRec.applyOp, ScopeRec.target, ScopeRec.effect, hm], rfl⟩
    | _ => exact ⟨by simp [ScopeRec.applyOp, ScopeRec.target], rfl⟩
  by_cases hop : ∃ v, op = .recd m v
  · obtain ⟨v, rfl⟩ := hop
    have e1 : ScopeRec.applyOp m (.hist n ⟨true, us, vU, cs⟩) (.recd m v)
        = .hist n ⟨true, us, vU, bump cs (placeKey us v)⟩ := by
      simp [ScopeRec.applyOp, ScopeRec.target, ScopeRec.effect]
    rw [e1]
    have hj : placeKey us v < cs.length := by rw [hl]; exact ScopeRec.placeKey_lt us hne v
    simp only [hdμ, if_true, ScopeRec.bump_length, recdOf, true_and]
    rw [bsum_update (hdTerm p id us cs) (hdTerm p id us (bump cs (placeKey us v))) cs.length
      (placeKey us v) hj]
    · simp only [hdTerm, getD_bump, hj, and_self, if_true, id]
      apply cong_of_eq
      split <;> omega
    · intro i hi
      simp only [hdTerm, getD_bump, hi, false_and, if_false]
  · obtain ⟨a, b⟩ := same op (fun v e => hop ⟨v, e⟩)
    rw [a, b]; simp [Cong]

theorem sum_recdOf (m : Nat) (us : List Int) (p : Int → Int → Bool) (ops : List Op) :
    (ops.map (recdOf m us p)).sum =
      (((ScopeRec.samplesD m ops).filter fun v =>
        p (durationLower us (placeKey us v)) (us.getD (placeKey us v) 0)).length : Int) := by
  induction ops with
  | nil => rfl
  | cons op ops ih =>
    rw [List.map_cons, List.sum_cons, ih]
    cases op with
    | recd m' v =>
      by_cases hm : m' = m
      · subst hm
        have : ScopeRec.samplesD m' (.recd m' v :: ops) = v :: ScopeRec.samplesD m' ops := by
          simp [ScopeRec.samplesD]
        rw [this, List.filter_cons]
        simp only [recdOf, true_and]
        split <;> simp <;> omega
      · have : ScopeRec.samplesD m (.recd m' v :: ops) = ScopeRec.samplesD m ops := by
          simp [ScopeRec.samplesD, hm]
        rw [this]; simp [recdOf, hm]
    | _ => simp [recdOf, ScopeRec.samplesD]

/-! ## runs ending in a report pass; idle runs -/

theorem runEv_single (st : St) (op : Op) :
    runEv st [op] = ((step st op).1, ScopeRec.outEvents (step st op).2) := by
  simp [runEv_cons]

/-- a run followed by one report pass: everything has been delivered -/
theorem run_flush (M : Meas) (hM : Lawful M) (sid m : Nat) (N : Int) (C : Metric → Prop) (g : Op → Int)
    (Q : Op → Prop)
    (hCapp : ∀ x op, C x → C (ScopeRec.applyOp m x op)) (hCreset : ∀ x, C x → C (resetM x))
    (hg : ∀ x op, Q op → C x → Cong N (M.μ (ScopeRec.applyOp m x op)) (M.μ x + g op))
    (ops : List Op) (st : St) (x : Metric) (hQ : ∀ op ∈ ops, Q op) (hmet : MetInv st) (hat : At M st sid m x)
    (hC : C x) (hal : Always (fun s => Excl M s sid m) st (ops ++ [.report]))
    (hlive : Live (runEv st (ops ++ [.report])).1 sid)
    (hk : st.cfg.kind ≠ .none) (hreg : ∃ e ∈ st.reg, e.2 = sid) :
    ∃ x', At M (runEv st (ops ++ [.report])).1 sid m (resetM x') ∧ C x' ∧
      Cong N (W M (runEv st (ops ++ [.report])).2) (M.μ x + (ops.map g).sum) := by
  rw [runEv_append, runEv_single] at hlive ⊢
  obtain ⟨hal1, hal2⟩ := hal.append
  have hmet1 : MetInv (runEv st ops).1 := by rw [runEv_fst]; exact runOps_metInv st ops hmet
  have hsc : ∃ s, getScope (runEv st ops).1 sid = some s := by
    obtain ⟨s, hs, _⟩ := hat
    have he : Ext st (runEv st ops).1 := by rw [runEv_fst]; exact runOps_ext ops st hmet
    obtain ⟨s', hs', _⟩ := he.scope sid s hs
    exact ⟨s', hs'⟩
  have hlive1 : Live (runEv st ops).1 sid := Live.back (step_ext _ .report hmet1) hsc hlive
  obtain ⟨x', hat', hc', hw', hr'⟩ := run_meas M hM sid m N C g Q hCapp hCreset hg ops st x hQ hmet hat hC hal1 hlive1
  have hk' : (runEv st ops).1.cfg.kind ≠ .none := by
    have he : Ext st (runEv st ops).1 := by rw [runEv_fst]; exact runOps_ext ops st hmet
    rw [he.cfg]; exact hk
  have hreg' : ∃ e ∈ (runEv st ops).1.reg, e.2 = sid := by
    obtain ⟨e, he, hes⟩ := hreg
    exact ⟨e, hr' e he hes, hes⟩
  obtain ⟨h1, h2⟩ := report_flush M hM _ sid m x' hat' hal2.head hk' hlive1.2 hreg'
  refine ⟨x', h1, hc', ?_⟩
  simp only [W_append, h2]
  exact hw'

theorem sum_map_zero {α : Type} (l : List α) : (l.map fun _ => (0 : Int)).sum = 0 := by
  induction l with
  | nil => rfl
  | cons a l ih => simp [ih]

/-- a run without operations on handle `m`, started with mass `0`, emits nothing of weight -/
theorem run_silent (M : Meas) (hM : Lawful M) (hpos : ∀ e, 0 ≤ M.w e) (hμ : ∀ x, 0 ≤ M.μ x) (sid m : Nat)
    (C : Metric → Prop)
    (hCapp : ∀ x op, C x → C (ScopeRec.applyOp m x op)) (hCreset : ∀ x, C x → C (resetM x))
    (ops : List Op) (st : St) (x : Metric) (hidle : ∀ op ∈ ops, ScopeRec.target op ≠ some m) (hmet : MetInv st)
    (hat : At M st sid m x) (hC : C x) (hzero : M.μ x = 0)
    (hal : Always (fun s => Excl M s sid m) st ops) (hlive : Live (runEv st ops).1 sid) :
    ∀ e ∈ (runEv st ops).2, M.w e = 0 := by
  obtain ⟨x', _, _, hw', _⟩ := run_meas M hM sid m 0 C (fun _ => 0) (fun op => ScopeRec.target op ≠ some m)
    hCapp hCreset (fun x op hq _ => by
      rw [ScopeRec.applyOp_not_target m x op hq]; exact cong_of_eq (by omega)) ops st x hidle hmet hat hC hal hlive
  have := hw'.zero
  rw [sum_map_zero, hzero] at this
  have h1 := hμ x'
  have h2 : 0 ≤ W M (runEv st ops).2 := by
    generalize (runEv st ops).2 = es
    induction es with
    | nil => simp
    | cons b es ih => rw [W_cons]; have := hpos b; omega
  exact W_nonneg_zero M hpos _ (by omega)

/-! ## the same, from hypotheses on the state instead of `At` / `Excl` -/

/-- every metric of kind `kind` whose full name and tags are `nm`, `tg` is metric `m` of scope `sid` -/
def SoleOwner (kind : String) (nm : Bytes) (tg : TagMap) (sid m : Nat) (st : St) : Prop :=
  ∀ sid' s' j y, getScope st sid' = some s' → (j, y) ∈ s'.metrics → metricKind y = kind →
    fqn st.sep s'.pfx (metricName y) = nm → s'.tags = tg → sid' = sid ∧ j = m

theorem excl_of_sole (M : Meas) {sid m : Nat} {st : St} (h : SoleOwner M.kind M.nm M.tg sid m st) :
    Excl M st sid m :=
  fun sid' s' q hg hq hm => h sid' s' q.1 q.2 hg hq hm.1 hm.2.1 hm.2.2

theorem Always.imp {P P' : St → Prop} (h : ∀ s, P s → P' s) : ∀ {st : St} {ops : List Op},
    Always P st ops → Always P' st ops
  | _, [], ha => h _ ha
  | _, _ :: _, ha => ⟨h _ ha.1, Always.imp h ha.2⟩

theorem live_init {st : St} (hmet : MetInv st) {sid : Nat} {s : ScopeS} (hs : getScope st sid = some s)
    (ops : List Op) (hlive : Live (runEv st ops).1 sid) : Live st sid :=
  Live.back (by rw [runEv_fst]; exact runOps_ext ops st hmet) ⟨s, hs⟩ hlive

theorem at_of (M : Meas) {st : St} (hmet : MetInv st) {sid m : Nat} {s : ScopeS} {x : Metric}
    (hs : getScope st sid = some s) (hx : (m, x) ∈ s.metrics) (hm : Matches M st.sep s x)
    (hlive : Live st sid) : At M st sid m x := by
  obtain ⟨⟨s0, hs0, hc⟩, _⟩ := hlive
  rw [hs] at hs0; cases hs0
  exact ⟨s, hs, hc, hx, hmet.ids_nodup hs, hm⟩

theorem core_inv (M : Meas) (hM : Lawful M) (sid m : Nat) (N : Int) (C : Metric → Prop) (g : Op → Int)
    (Q : Op → Prop)
    (hCapp : ∀ x op, C x → C (ScopeRec.applyOp m x op)) (hCreset : ∀ x, C x → C (resetM x))
    (hg : ∀ x op, Q op → C x → Cong N (M.μ (ScopeRec.applyOp m x op)) (M.μ x + g op))
    (st : St) (hmet : MetInv st) (s : ScopeS) (x : Metric) (hs : getScope st sid = some s)
    (hx : (m, x) ∈ s.metrics) (hm : Matches M st.sep s x) (hC : C x) (ops : List Op) (hQ : ∀ op ∈ ops, Q op)
    (hsole : Always (SoleOwner M.kind M.nm M.tg sid m) st ops) (hlive : Live (runEv st ops).1 sid) :
    ∃ s' x', getScope (runEv st ops).1 sid = some s' ∧ (m, x') ∈ s'.metrics ∧ C x' ∧
      Cong N (W M (runEv st ops).2 + M.μ x') (M.μ x + (ops.map g).sum) := by
  have hat := at_of M hmet hs hx hm (live_init hmet hs ops hlive)
  obtain ⟨x', ⟨s', hs', _, hx', _, _⟩, hc', hw', _⟩ :=
    run_meas M hM sid m N C g Q hCapp hCreset hg ops st x hQ hmet hat hC (hsole.imp fun _ => excl_of_sole M) hlive
  exact ⟨s', x', hs', hx', hc', hw'⟩

theorem core_flush (M : Meas) (hM : Lawful M) (sid m : Nat) (N : Int) (C : Metric → Prop) (g : Op → Int)
    (Q : Op → Prop)
    (hCapp : ∀ x op, C x → C (ScopeRec.applyOp m x op)) (hCreset : ∀ x, C x → C (resetM x))
    (hg : ∀ x op, Q op → C x → Cong N (M.μ (ScopeRec.applyOp m x op)) (M.μ x + g op))
    (st : St) (hmet : MetInv st) (s : ScopeS) (x : Metric) (hs : getScope st sid = some s)
    (hx : (m, x) ∈ s.metrics) (hm : Matches M st.sep s x) (hC : C x) (ops : List Op) (hQ : ∀ op ∈ ops, Q op)
    (hsole : Always (SoleOwner M.kind M.nm M.tg sid m) st (ops ++ [.report]))
    (hlive : Live (runEv st (ops ++ [.report])).1 sid)
    (hk : st.cfg.kind ≠ .none) (hreg : ∃ e ∈ st.reg, e.2 = sid) :
    ∃ s' x', getScope (runEv st (ops ++ [.report])).1 sid = some s' ∧ (m, resetM x') ∈ s'.metrics ∧ C x' ∧
      Cong N (W M (runEv st (ops ++ [.report])).2) (M.μ x + (ops.map g).sum) := by
  have hat := at_of M hmet hs hx hm (live_init hmet hs _ hlive)
  obtain ⟨x', ⟨s', hs', _, hx', _, _⟩, hc', hw'⟩ :=
    run_flush M hM sid m N C g Q hCapp hCreset hg ops st x hQ hmet hat hC (hsole.imp fun _ => excl_of_sole M) hlive
      hk hreg
  exact ⟨s', x', hs', hx', hc', hw'⟩

theorem core_silent (M : Meas) (hM : Lawful M) (hpos : ∀ e, 0 ≤ M.w e) (hμ : ∀ x, 0 ≤ M.μ x) (sid m : Nat)
    (C : Metric → Prop)
    (hCapp : ∀ x op, C x → C (ScopeRec.applyOp m x op)) (hCreset : ∀ x, C x → C (resetM x))
    (st : St) (hmet : MetInv st) (s : ScopeS) (x : Metric) (hs : getScope st sid = some s)
    (hx : (m, x) ∈ s.metrics) (hm : Matches M st.sep s x) (hC : C x) (hzero : M.μ x = 0)
    (ops : List Op) (hidle : ∀ op ∈ ops, ScopeRec.target op ≠ some m)
    (hsole : Always (SoleOwner M.kind M.nm M.tg sid m) st ops) (hlive : Live (runEv st ops).1 sid) :
    ∀ e ∈ (runEv st ops).2, M.w e = 0 :=
  run_silent M hM hpos hμ sid m C hCapp hCreset ops st x hidle hmet
    (at_of M hmet hs hx hm (live_init hmet hs ops hlive)) hC hzero (hsole.imp fun _ => excl_of_sole M) hlive

/-- `report :: mid ++ [report]` with no operation on handle `m` in `mid`: the events after the first
report have weight `0` -/
theorem core_idle (M : Meas) (hM : Lawful M) (hpos : ∀ e, 0 ≤ M.w e) (hμ : ∀ x, 0 ≤ M.μ x) (sid m : Nat)
    (C : Metric → Prop)
    (hCapp : ∀ x op, C x → C (ScopeRec.applyOp m x op)) (hCreset : ∀ x, C x → C (resetM x))
    (st : St) (hmet : MetInv st) (s : ScopeS) (x : Metric) (hs : getScope st sid = some s)
    (hx : (m, x) ∈ s.metrics) (hm : Matches M st.sep s x) (hC : C x)
    (mid : List Op) (hidle : ∀ op ∈ mid, ScopeRec.target op ≠ some m)
    (hsole : Always (SoleOwner M.kind M.nm M.tg sid m) st (.report :: (mid ++ [.report])))
    (hlive : Live (runEv st (.report :: (mid ++ [.report]))).1 sid)
    (hk : st.cfg.kind ≠ .none) (hreg : ∃ e ∈ st.reg, e.2 = sid) :
    ∀ e ∈ (runEv (step st .report).1 (mid ++ [.report])).2, M.w e = 0 := by
  have hlive0 := live_init hmet hs _ hlive
  have hat := at_of M hmet hs hx hm hlive0
  obtain ⟨h1, _⟩ := report_flush M hM st sid m x hat (excl_of_sole M hsole.1) hk hlive0.2 hreg
  have hmet1 := step_metInv st .report hmet
  have hz : M.μ (resetM x) = 0 := hM.reset x hm.1
  have hidle' : ∀ op ∈ mid ++ [Op.report], ScopeRec.target op ≠ some m := by
    intro op hop
    rcases List.mem_append.mp hop with h | h
    · exact hidle op h
    · simp only [List.mem_singleton] at h; subst h; simp [ScopeRec.target]
  exact run_silent M hM hpos hμ sid m C hCapp hCreset _ _ (resetM x) hidle' hmet1 h1 (hCreset x hC) hz
    (hsole.2.imp fun _ => excl_of_sole M) hlive

/-! ## executable checks of the hypotheses (for concrete histories) -/

def soleOwnerB (kind : String) (nm : Bytes) (tg : TagMap) (sid m : Nat) (st : St) : Bool :=
  (List.range st.scopes.length).all fun sid' =>
    match getScope st sid' with
    | none => true
    | some s' => s'.metrics.all fun q =>
        !(metricKind q.2 == kind && fqn st.sep s'.pfx (metricName q.2) == nm && s'.tags == tg)
          || (sid' == sid && q.1 == m)

theorem soleOwner_of_B {kind : String} {nm : Bytes} {tg : TagMap} {sid m : Nat} {st : St}
    (h : soleOwnerB kind nm tg sid m st = true) : SoleOwner kind nm tg sid m st := by
  intro sid' s' j y hg hq hk hn ht
  unfold soleOwnerB at h
  rw [List.all_eq_true] at h
  have h1 := h sid' (List.mem_range.mpr (getScope_lt hg))
  simp only [hg] at h1
  rw [List.all_eq_true] at h1
  have h2 := h1 (j, y) hq
  simp only [hk, hn, ht, beq_self_eq_true, Bool.and_self, Bool.not_true, Bool.false_or, Bool.and_eq_true,
    beq_iff_eq] at h2
  exact h2

def alwaysB (p : St → Bool) (st : St) : List Op → Bool
  | [] => p st
  | op :: ops => p st && alwaysB p (step st op).1 ops

theorem always_of_B {p : St → Bool} {P : St → Prop} (hp : ∀ s, p s = true → P s) : ∀ {st : St} {ops : List Op},
    alwaysB p st ops = true → Always P st ops
  | _, [], h => hp _ h
  | _, _ :: _, h => by
    simp only [alwaysB, Bool.and_eq_true] at h
    exact ⟨hp _ h.1, always_of_B hp h.2⟩

def liveB (st : St) (sid : Nat) : Bool :=
  (match getScope st sid with | some s => !s.closed | none => false) && !st.rootClosed

theorem live_of_B {st : St} {sid : Nat} (h : liveB st sid = true) : Live st sid := by
  unfold liveB at h
  simp only [Bool.and_eq_true, Bool.not_eq_true'] at h
  obtain ⟨h1, h2⟩ := h
  refine ⟨?_, h2⟩
  cases hg : getScope st sid with
  | none => rw [hg] at h1; cases h1
  | some s => rw [hg] at h1; exact ⟨s, rfl, by simpa using h1⟩

def regB (st : St) (sid : Nat) : Bool := st.reg.any fun e => e.2 == sid

theorem reg_of_B {st : St} {sid : Nat} (h : regB st sid = true) : ∃ e ∈ st.reg, e.2 = sid := by
  unfold regB at h
  rw [List.any_eq_true] at h
  obtain ⟨e, he, h⟩ := h
  exact ⟨e, he, by simpa using h⟩

theorem bsum_nonneg (f : Nat → Int) (n : Nat) (h : ∀ i, 0 ≤ f i) : 0 ≤ bsum f n := by
  induction n with
  | zero => simp [bsum_zero_n]
  | succ n ih => rw [bsum_succ]; have := h n; omega

end Tally.Cons
