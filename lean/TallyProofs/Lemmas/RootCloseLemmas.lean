import Tally.Model.RootClose
/-!
# Control-flow invariant of the root-Close model (C08)

`Ctl` ties the shared flags (`closed`, `doneClosed`, `purged`), the loop thread and the ghost `winner`
to the program counter of the one call whose CAS succeeded.  Everything else (log shape, token
accounting) is layered on top of it in `RootCloseLog` / `RootCloseTokens`.
-/
namespace Tally.RootClose

/-- how far a `Close` call has got -/
def ph : CPc → Nat
  | .start => 0
  | .won => 1
  | .doneClosedPc => 2
  | .pass _ => 3
  | .purgePc => 4
  | .flushPc => 5
  | .reporterClose => 6
  | .returned _ => 7
  | .returnedNil => 0
  | .waitWinner => 0

/-- after a step of its final pass the call is still in the pass, or about to purge -/
theorem ph_afterPass (oq : Option PassPc) : ph (afterPass oq) = 3 ∨ ph (afterPass oq) = 4 := by
  cases oq with
  | none => right; rfl
  | some q => cases q <;> simp [afterPass, ph]

theorem afterPass_ne_returned (oq : Option PassPc) (r : Option Nat) : afterPass oq ≠ .returned r := by
  intro h; have := ph_afterPass oq; rw [h] at this; simp [ph] at this

/-- program counter of the winning call (`start` while nobody has won) -/
def wpc (s : State) : CPc :=
  match s.winner with
  | none => .start
  | some w => s.closers w

structure Ctl (s : State) : Prop where
  others : ∀ t, s.winner ≠ some t → s.closers t = .start ∨ s.closers t = .returnedNil ∨ s.closers t = .waitWinner
  closed_iff : s.closed = s.winner.isSome
  wne : ∀ w, s.winner = some w → 1 ≤ ph (s.closers w)
  done_iff : s.doneClosed = decide (2 ≤ ph (wpc s))
  loopEx : 3 ≤ ph (wpc s) → s.loop = .exited
  noLoop : s.hasLoop = false → s.loop = .exited
  purged_iff : s.purged = decide (5 ≤ ph (wpc s))
  rets : ∀ t r, (t, r) ∈ s.returns → s.closers t = .returned r ∨ (s.closers t = .returnedNil ∧ r = none)
  result : ∀ t r, s.closers t = .returned r → r = if s.closable then s.err else none
  /-- `closeDone` is closed exactly when the winning call has returned (D17) … -/
  cd_iff : s.closeDone = decide (7 ≤ ph (wpc s))
  /-- … and a call that lost the CAS has returned only after that -/
  nil_cd : ∀ t, s.closers t = .returnedNil → s.closeDone = true
  /-- a call waits at `<-s.closeDone` only because some call has won the CAS -/
  waitW : ∀ t, s.closers t = .waitWinner → s.closed = true

theorem Ctl.winner_of {s : State} (h : Ctl s) (t : Nat) (hp : 1 ≤ ph (s.closers t)) : s.winner = some t := by
  apply Classical.byContradiction
  intro hne
  rcases h.others t hne with h1 | h1 | h1 <;> rw [h1] at hp <;> simp [ph] at hp

theorem wpc_of_winner {s : State} {t : Nat} (h : s.winner = some t) : wpc s = s.closers t := by
  simp [wpc, h]

/-- what one pass step can be (the graph of `passStep`, one constructor per kind of action) -/
inductive PassRel (s : State) (c : Nat) : PassPc → State → Option PassPc → Prop
  | begin : PassRel s c .begin { s with log := .internal :: s.log } (some (.pick []))
  | take (vis : List Nat) (x : Token) (r : List Token) (hc : c < s.cells.length) (hv : c ∉ vis)
      (hx : s.cells[c]? = some (x :: r)) :
      PassRel s c (.pick vis) { s with cells := s.cells.set c [] } (some (.deliver c (x :: r) (c :: vis)))
  | skip (vis : List Nat) (hc : c < s.cells.length) (hv : c ∉ vis) (hx : s.cells[c]? = some []) :
      PassRel s c (.pick vis) s (some (.pick (c :: vis)))
  | over (vis : List Nat) (hc : s.cells.length ≤ c) (hall : ∀ j, j < s.cells.length → j ∈ vis) :
      PassRel s c (.pick vis) s (some .flush)
  | deliver (i : Nat) (pend : List Token) (vis : List Nat) :
      PassRel s c (.deliver i pend vis) { s with log := .deliver pend :: s.log } (some (.pick vis))
  | flush : PassRel s c .flush { s with log := .flush :: s.log } none

theorem all_visited_iff (K : Nat) (vis : List Nat) :
    (List.range K).all (fun i => vis.contains i) = true ↔ ∀ j, j < K → j ∈ vis := by
  simp [List.all_eq_true]

theorem passStep_rel {s : State} {c : Nat} {p : PassPc} {s1 : State} {oq : Option PassPc}
    (h : passStep s c p = some (s1, oq)) : PassRel s c p s1 oq := by
  cases p with
  | begin => simp only [passStep, Option.some.injEq, Prod.mk.injEq] at h; obtain ⟨rfl, rfl⟩ := h; exact .begin
  | pick vis =>
    simp only [passStep] at h
    split at h
    · next hc =>
      split at h
      · cases h
      · next hv =>
        split at h
        · next x r hx =>
          simp only [Option.some.injEq, Prod.mk.injEq] at h; obtain ⟨rfl, rfl⟩ := h
          exact .take vis x r hc hv hx
        · next hne =>
          simp only [Option.some.injEq, Prod.mk.injEq] at h; obtain ⟨rfl, rfl⟩ := h
          refine .skip vis hc hv ?_
          rw [List.getElem?_eq_getElem hc] at hne ⊢
          cases hg : s.cells[c] with
          | nil => rfl
          | cons x r => exact absurd (by rw [hg]) (hne x r)
    · next hc =>
      split at h
      · next hall =>
        simp only [Option.some.injEq, Prod.mk.injEq] at h; obtain ⟨rfl, rfl⟩ := h
        exact .over vis (by omega) ((all_visited_iff _ _).mp hall)
      · cases h
  | deliver i pend vis =>
    simp only [passStep, Option.some.injEq, Prod.mk.injEq] at h; obtain ⟨rfl, rfl⟩ := h; exact .deliver i pend vis
  | flush => simp only [passStep, Option.some.injEq, Prod.mk.injEq] at h; obtain ⟨rfl, rfl⟩ := h; exact .flush

theorem passStep_of_rel {s : State} {c : Nat} {p : PassPc} {s1 : State} {oq : Option PassPc}
    (h : PassRel s c p s1 oq) : passStep s c p = some (s1, oq) := by
  cases h with
  | begin => rfl
  | take vis x r hc hv hx => simp only [passStep, hc, hv, hx, ↓reduceIte]
  | skip vis hc hv hx => simp only [passStep, hc, hv, hx, ↓reduceIte]
  | over vis hc hall =>
    have : ¬ c < s.cells.length := by omega
    simp only [passStep, this, if_false, (all_visited_iff _ _).mpr hall, if_true]
  | deliver i pend vis => rfl
  | flush => rfl

/-- a pass step touches only the cells and the log -/
theorem passStep_frame {s : State} {ch : Nat} {p : PassPc} {s1 : State} {oq : Option PassPc}
    (h : passStep s ch p = some (s1, oq)) : ∃ c l, s1 = { s with cells := c, log := l } := by
  cases passStep_rel h <;> exact ⟨_, _, rfl⟩

theorem passStep_length {s : State} {ch : Nat} {p : PassPc} {s1 : State} {oq : Option PassPc}
    (h : passStep s ch p = some (s1, oq)) : s1.cells.length = s.cells.length := by
  cases passStep_rel h <;> simp

theorem ctl_init (k : Nat) (hl cl : Bool) (er : Option Nat) : Ctl (init k hl cl er) := by
  constructor <;> simp [init, wpc, ph]

/-- frame rule: the control invariant only reads the control fields -/
theorem Ctl.frame {s : State} (h : Ctl s) (c : List (List Token)) (l : List LogEv) (d i : List Token) (n : Nat)
    (hd : List (Option Nat)) :
    Ctl { s with cells := c, log := l, dropped := d, issued := i, nextId := n, handed := hd } := by
  exact ⟨h.others, h.closed_iff, h.wne, h.done_iff, h.loopEx, h.noLoop, h.purged_iff, h.rets, h.result, h.cd_iff,
    h.nil_cd, h.waitW⟩

theorem Ctl.loop_frame {s : State} (h : Ctl s) (hne : s.loop ≠ .exited) (q : LoopPc) (c : List (List Token))
    (l : List LogEv) : Ctl { s with loop := q, cells := c, log := l } :=
  ⟨h.others, h.closed_iff, h.wne, h.done_iff, fun h3 => absurd (h.loopEx h3) hne,
   fun h0 => absurd (h.noLoop h0) hne, h.purged_iff, h.rets, h.result, h.cd_iff, h.nil_cd, h.waitW⟩

theorem Ctl.loop_exit {s : State} (h : Ctl s) : Ctl { s with loop := .exited } :=
  ⟨h.others, h.closed_iff, h.wne, h.done_iff, fun _ => rfl, fun _ => rfl, h.purged_iff, h.rets, h.result, h.cd_iff,
   h.nil_cd, h.waitW⟩

theorem midCall_ph_lt {p : CPc} (h : p.midCall = true) : ph p < 7 := by
  cases p <;> simp [CPc.midCall, ph] at h ⊢

/-- while the winning call is inside `Close`, `closeDone` is still open -/
theorem Ctl.cd_false {s : State} (h : Ctl s) {t : Nat} (hw : s.winner = some t)
    (hmid : (s.closers t).midCall = true) : s.closeDone = false := by
  have := h.cd_iff
  rw [wpc_of_winner hw] at this
  have hlt := midCall_ph_lt hmid
  rw [this]; exact decide_eq_false (by omega)

/-- a step of the winning call -/
theorem Ctl.wstep {s : State} (h : Ctl s) {t : Nat} (hw : s.winner = some t) (hmid : (s.closers t).midCall = true)
    (p' : CPc) (dc pg : Bool) (c : List (List Token)) (l : List LogEv) (d : List Token)
    (rs : List (Nat × Option Nat)) (cd : Bool)
    (hph : 1 ≤ ph p') (hdc : dc = decide (2 ≤ ph p')) (hloop : 3 ≤ ph p' → s.loop = .exited)
    (hpg : pg = decide (5 ≤ ph p')) (hcd : cd = decide (7 ≤ ph p'))
    (hrs : rs = s.returns ∨ ∃ r, p' = .returned r ∧ rs = (t, r) :: s.returns)
    (hres : ∀ r, p' = .returned r → r = if s.closable then s.err else none) :
    Ctl { setC s t p' with doneClosed := dc, purged := pg, cells := c, log := l, dropped := d, returns := rs,
                           closeDone := cd } := by
  have hwp : wpc { setC s t p' with doneClosed := dc, purged := pg, cells := c, log := l, dropped := d, returns := rs,
                                    closeDone := cd } = p' := by
    simp [wpc, setC, hw]
  refine ⟨?_, h.closed_iff, ?_, ?_, ?_, h.noLoop, ?_, ?_, ?_, ?_, ?_, ?_⟩
  · intro u hu
    have hu' : u ≠ t := fun e => hu (e ▸ hw)
    simp only [setC, hu', if_false]; exact h.others u hu
  · intro w hw'
    have : w = t := by
      have h1 : s.winner = some w := hw'
      rw [hw] at h1; exact (Option.some.inj h1).symm
    subst this; simp [setC, hph]
  · rw [hwp]; exact hdc
  · rw [hwp]; exact hloop
  · rw [hwp]; exact hpg
  · intro u r hm
    have hold : ∀ r, (u, r) ∈ s.returns →
        (setC s t p').closers u = .returned r ∨ ((setC s t p').closers u = .returnedNil ∧ r = none) := by
      intro r2 hm2
      simp only [setC]; split
      · next hu =>
        subst hu
        rcases h.rets u r2 hm2 with h1 | ⟨h1, _⟩ <;> rw [h1] at hmid <;> simp [CPc.midCall] at hmid
      · exact h.rets u r2 hm2
    rcases hrs with rfl | ⟨r', rfl, rfl⟩
    · exact hold r hm
    · simp only [List.mem_cons, Prod.mk.injEq] at hm
      rcases hm with ⟨rfl, rfl⟩ | hm
      · simp [setC]
      · exact hold r hm
  · intro u r; simp only [setC]; split
    · intro hh; exact hres r hh
    · exact h.result u r
  · rw [hwp]; exact hcd
  · intro u hu
    simp only [setC] at hu
    split at hu
    · rw [hu] at hph; simp [ph] at hph
    · have := h.nil_cd u hu
      rw [h.cd_false hw hmid] at this; cases this
  · intro u hu
    simp only [setC] at hu
    split at hu
    · rw [hu] at hph; simp [ph] at hph
    · exact h.waitW u hu

theorem ctl_step (s s' : State) (e : Ev) (h : Ctl s) (hs : step s e = some s') : Ctl s' := by
  cases e with
  | record c =>
    simp only [step] at hs
    split at hs
    · cases hs
    · split at hs <;> (simp only [Option.some.injEq] at hs; subst hs)
      · exact h.frame _ _ _ _ _ _
      · exact h.frame _ _ _ _ _ _
  | obtain c =>
    simp only [step] at hs
    split at hs
    · simp only [Option.some.injEq] at hs; subst hs; exact h.frame _ _ _ _ _ _
    · split at hs
      · simp only [Option.some.injEq] at hs; subst hs; exact h.frame _ _ _ _ _ _
      · cases hs
  | tick =>
    simp only [step] at hs
    split at hs
    · next hl =>
      simp only [Option.some.injEq] at hs; subst hs
      exact h.loop_frame (by simp [hl]) _ _ _
    · cases hs
  | exit =>
    simp only [step] at hs
    split at hs
    · split at hs
      · simp only [Option.some.injEq] at hs; subst hs; exact h.loop_exit
      · cases hs
    · cases hs
  | loop ch =>
    simp only [step] at hs
    split at hs
    · next hl =>
      split at hs <;> (simp only [Option.some.injEq] at hs; subst hs)
      · exact h.loop_frame (by simp [hl]) _ _ _
      · exact h.loop_frame (by simp [hl]) _ _ _
    · next p hl =>
      split at hs
      · next s1 q hp =>
        simp only [Option.some.injEq] at hs; subst hs
        obtain ⟨c, l, rfl⟩ := passStep_frame hp
        exact h.loop_frame (by simp [hl]) _ _ _
      · next s1 hp =>
        simp only [Option.some.injEq] at hs; subst hs
        obtain ⟨c, l, rfl⟩ := passStep_frame hp
        exact h.loop_frame (by simp [hl]) _ _ _
      · cases hs
    · cases hs
  | closer t ch =>
    simp only [step] at hs
    split at hs
    · next hpc =>
      -- CAS
      have hnw : s.winner ≠ some t := fun hw => by have := h.wne t hw; rw [hpc] at this; simp [ph] at this
      split at hs <;> (simp only [Option.some.injEq] at hs; subst hs)
      · -- lost: to `<-s.closeDone`, nothing returned yet
        have hwp : wpc (setC s t .waitWinner) = wpc s := by
          simp only [wpc, setC]; split
          · rfl
          · next w hw => have : w ≠ t := fun e => hnw (e ▸ hw); simp [this]
        next hclosed =>
        refine ⟨?_, h.closed_iff, ?_, ?_, ?_, h.noLoop, ?_, ?_, ?_, ?_, ?_, ?_⟩
        · intro u hu; simp only [setC]; split
          · exact Or.inr (Or.inr rfl)
          · exact h.others u hu
        · intro w hw; have hwt : w ≠ t := fun e => hnw (e ▸ hw)
          simp only [setC, hwt, if_false]; exact h.wne w hw
        · rw [hwp]; exact h.done_iff
        · rw [hwp]; exact h.loopEx
        · rw [hwp]; exact h.purged_iff
        · intro u r hm
          simp only [setC]
          split
          · next hu => subst hu; have := h.rets u r hm; rw [hpc] at this; simp at this
          · exact h.rets u r hm
        · intro u r; simp only [setC]; split
          · intro hh; cases hh
          · exact h.result u r
        · rw [hwp]; exact h.cd_iff
        · intro u hu
          simp only [setC] at hu
          split at hu
          · cases hu
          · exact h.nil_cd u hu
        · intro _ _; exact hclosed
      · -- won
        next hcl =>
        have hwn : s.winner = none := by
          have := h.closed_iff; cases hw : s.winner <;> simp_all
        have hwp0 : wpc s = .start := by simp [wpc, hwn]
        have hd := h.done_iff; have hpg := h.purged_iff; have hcd := h.cd_iff
        rw [hwp0] at hd hpg hcd; simp [ph] at hd hpg hcd
        refine ⟨?_, rfl, ?_, ?_, ?_, h.noLoop, ?_, ?_, ?_, ?_, ?_, fun _ _ => rfl⟩
        · intro u hu; simp only [Option.some.injEq, ne_eq] at hu
          have hu' : u ≠ t := fun e => hu e.symm
          simp only [setC, hu', if_false]; exact h.others u (by simp [hwn])
        · intro w hw; simp only [Option.some.injEq] at hw; subst hw; simp [setC, ph]
        · simp [wpc, setC, ph, hd]
        · simp [wpc, setC, ph]
        · simp [wpc, setC, ph, hpg]
        · intro u r hm; simp only [setC]; split
          · next hu => subst hu; have := h.rets u r hm; rw [hpc] at this; simp at this
          · exact h.rets u r hm
        · intro u r; simp only [setC]; split
          · intro hh; cases hh
          · exact h.result u r
        · simp [wpc, setC, ph, hcd]
        · intro u hu
          simp only [setC] at hu
          split at hu
          · cases hu
          · exact h.nil_cd u hu
    · next hpc =>
      have hw := h.winner_of t (by rw [hpc]; simp [ph])
      simp only [Option.some.injEq] at hs; subst hs
      have hpg := h.purged_iff; rw [wpc_of_winner hw, hpc] at hpg; simp [ph] at hpg
      have hcd := h.cd_false hw (by rw [hpc]; rfl)
      exact h.wstep hw (by rw [hpc]; rfl) .doneClosedPc true s.purged s.cells s.log s.dropped s.returns s.closeDone
        (by simp [ph]) (by simp [ph]) (by simp [ph]) (by simp [ph, hpg]) (by simp [ph, hcd]) (Or.inl rfl)
        (by intro r hr; cases hr)
    · next hpc =>
      have hw := h.winner_of t (by rw [hpc]; simp [ph])
      split at hs
      · next hex =>
        simp only [Option.some.injEq] at hs; subst hs
        have hpg := h.purged_iff; rw [wpc_of_winner hw, hpc] at hpg; simp [ph] at hpg
        have hd := h.done_iff; rw [wpc_of_winner hw, hpc] at hd; simp [ph] at hd
        have hcd := h.cd_false hw (by rw [hpc]; rfl)
        exact h.wstep hw (by rw [hpc]; rfl) (.pass .begin) s.doneClosed s.purged s.cells s.log s.dropped s.returns
          s.closeDone
          (by simp [ph]) (by simp [ph, hd]) (fun _ => hex) (by simp [ph, hpg]) (by simp [ph, hcd]) (Or.inl rfl)
          (by intro r hr; cases hr)
      · cases hs
    · next p hpc =>
      have hw := h.winner_of t (by rw [hpc]; simp [ph])
      have hpg := h.purged_iff; rw [wpc_of_winner hw, hpc] at hpg; simp [ph] at hpg
      have hd := h.done_iff; rw [wpc_of_winner hw, hpc] at hd; simp [ph] at hd
      have hex := h.loopEx (by rw [wpc_of_winner hw, hpc]; simp [ph])
      split at hs
      · next s1 oq hp =>
        simp only [Option.some.injEq] at hs; subst hs
        obtain ⟨c, l, rfl⟩ := passStep_frame hp
        have h34 := ph_afterPass oq
        have hcd := h.cd_false hw (by rw [hpc]; rfl)
        exact h.wstep hw (by rw [hpc]; rfl) (afterPass oq) s.doneClosed s.purged c l s.dropped s.returns s.closeDone
          (by omega) (by rw [hd]; exact (decide_eq_true (by omega)).symm) (fun _ => hex)
          (by rw [hpg]; exact (decide_eq_false (by omega)).symm)
          (by rw [hcd]; exact (decide_eq_false (by omega)).symm) (Or.inl rfl)
          (by intro r hr; exact absurd hr (afterPass_ne_returned oq r))
      · cases hs
    · next hpc =>
      have hw := h.winner_of t (by rw [hpc]; simp [ph])
      simp only [Option.some.injEq] at hs; subst hs
      have hd := h.done_iff; rw [wpc_of_winner hw, hpc] at hd; simp [ph] at hd
      have hex := h.loopEx (by rw [wpc_of_winner hw, hpc]; simp [ph])
      have hcd := h.cd_false hw (by rw [hpc]; rfl)
      exact h.wstep hw (by rw [hpc]; rfl) .flushPc s.doneClosed true (s.cells.map fun _ => [])
        s.log (s.cells.flatten ++ s.dropped) s.returns s.closeDone
        (by simp [ph]) (by simp [ph, hd]) (fun _ => hex) (by simp [ph]) (by simp [ph, hcd]) (Or.inl rfl)
        (by intro r hr; cases hr)
    · next hpc =>
      have hw := h.winner_of t (by rw [hpc]; simp [ph])
      simp only [Option.some.injEq] at hs; subst hs
      have hpg := h.purged_iff; rw [wpc_of_winner hw, hpc] at hpg; simp [ph] at hpg
      have hd := h.done_iff; rw [wpc_of_winner hw, hpc] at hd; simp [ph] at hd
      have hex := h.loopEx (by rw [wpc_of_winner hw, hpc]; simp [ph])
      have hcd := h.cd_false hw (by rw [hpc]; rfl)
      exact h.wstep hw (by rw [hpc]; rfl) .reporterClose s.doneClosed s.purged s.cells (.flush :: s.log)
        s.dropped s.returns s.closeDone
        (by simp [ph]) (by simp [ph, hd]) (fun _ => hex) (by simp [ph, hpg]) (by simp [ph, hcd]) (Or.inl rfl)
        (by intro r hr; cases hr)
    · next hpc =>
      have hw := h.winner_of t (by rw [hpc]; simp [ph])
      have hpg := h.purged_iff; rw [wpc_of_winner hw, hpc] at hpg; simp [ph] at hpg
      have hd := h.done_iff; rw [wpc_of_winner hw, hpc] at hd; simp [ph] at hd
      have hex := h.loopEx (by rw [wpc_of_winner hw, hpc]; simp [ph])
      split at hs
      · next hcl =>
        simp only [Option.some.injEq] at hs; subst hs
        exact h.wstep hw (by rw [hpc]; rfl) (.returned s.err) s.doneClosed s.purged s.cells (.reporterClose :: s.log)
          s.dropped ((t, s.err) :: s.returns) true
          (by simp [ph]) (by simp [ph, hd]) (fun _ => hex) (by simp [ph, hpg]) (by simp [ph]) (Or.inr ⟨_, rfl, rfl⟩)
          (by intro r hr; cases hr; simp [hcl])
      · next hcl =>
        simp only [Option.some.injEq] at hs; subst hs
        exact h.wstep hw (by rw [hpc]; rfl) (.returned none) s.doneClosed s.purged s.cells s.log
          s.dropped ((t, none) :: s.returns) true
          (by simp [ph]) (by simp [ph, hd]) (fun _ => hex) (by simp [ph, hpg]) (by simp [ph]) (Or.inr ⟨_, rfl, rfl⟩)
          (by intro r hr; cases hr; simp [hcl])
    · cases hs
    · cases hs
    · next hpc =>
      -- `<-s.closeDone`: enabled once the winning call has returned; the losing call returns nil
      have hnw : s.winner ≠ some t := fun hw => by have := h.wne t hw; rw [hpc] at this; simp [ph] at this
      split at hs
      · next hcd =>
        simp only [Option.some.injEq] at hs; subst hs
        have hwp : wpc { setC s t .returnedNil with returns := (t, none) :: s.returns } = wpc s := by
          simp only [wpc, setC]; split
          · rfl
          · next w hw => have : w ≠ t := fun e => hnw (e ▸ hw); simp [this]
        refine ⟨?_, h.closed_iff, ?_, ?_, ?_, h.noLoop, ?_, ?_, ?_, ?_, ?_, ?_⟩
        · intro u hu; simp only [setC]; split
          · exact Or.inr (Or.inl rfl)
          · exact h.others u hu
        · intro w hw; have hwt : w ≠ t := fun e => hnw (e ▸ hw)
          simp only [setC, hwt, if_false]; exact h.wne w hw
        · rw [hwp]; exact h.done_iff
        · rw [hwp]; exact h.loopEx
        · rw [hwp]; exact h.purged_iff
        · intro u r hm
          simp only [List.mem_cons, Prod.mk.injEq] at hm
          simp only [setC]
          rcases hm with ⟨rfl, rfl⟩ | hm
          · simp
          · split
            · next hu => subst hu; have := h.rets u r hm; rw [hpc] at this; simp at this
            · exact h.rets u r hm
        · intro u r; simp only [setC]; split
          · intro hh; cases hh
          · exact h.result u r
        · rw [hwp]; exact h.cd_iff
        · intro _ _; exact hcd
        · intro u hu
          simp only [setC] at hu
          split at hu
          · cases hu
          · exact h.waitW u hu
      · cases hs

theorem ctl_run (s s' : State) (es : List Ev) (h : Ctl s) (hr : run s es = some s') : Ctl s' := by
  induction es generalizing s with
  | nil => simp only [run, Option.some.injEq] at hr; subst hr; exact h
  | cons e es ih =>
    simp only [run] at hr
    split at hr
    · cases hr
    · next s1 h1 => exact ih s1 (ctl_step s s1 e h h1) hr

theorem run_append (s s1 s2 : State) (es es' : List Ev) (h1 : run s es = some s1) (h2 : run s1 es' = some s2) :
    run s (es ++ es') = some s2 := by
  induction es generalizing s with
  | nil => simp only [run, Option.some.injEq] at h1; subst h1; exact h2
  | cons e es ih =>
    simp only [run, List.cons_append] at h1 ⊢
    split at h1
    · cases h1
    · next s' hs => exact ih s' h1

/-- the parameters of a run never change -/
structure SameParams (s s' : State) : Prop where
  hasLoop : s'.hasLoop = s.hasLoop
  closable : s'.closable = s.closable
  err : s'.err = s.err
  k : s'.cells.length = s.cells.length

theorem step_params (s s' : State) (e : Ev) (hs : step s e = some s') : SameParams s s' := by
  cases e with
  | record c =>
    simp only [step] at hs
    split at hs
    · cases hs
    · split at hs <;> (simp only [Option.some.injEq] at hs; subst hs) <;> constructor <;> simp
  | obtain c =>
    simp only [step] at hs
    split at hs
    · simp only [Option.some.injEq] at hs; subst hs; exact ⟨rfl, rfl, rfl, rfl⟩
    · split at hs
      · simp only [Option.some.injEq] at hs; subst hs; exact ⟨rfl, rfl, rfl, rfl⟩
      · cases hs
  | tick =>
    simp only [step] at hs
    split at hs
    · simp only [Option.some.injEq] at hs; subst hs; exact ⟨rfl, rfl, rfl, rfl⟩
    · cases hs
  | exit =>
    simp only [step] at hs
    split at hs
    · split at hs
      · simp only [Option.some.injEq] at hs; subst hs; exact ⟨rfl, rfl, rfl, rfl⟩
      · cases hs
    · cases hs
  | loop ch =>
    simp only [step] at hs
    split at hs
    · split at hs <;> (simp only [Option.some.injEq] at hs; subst hs) <;> exact ⟨rfl, rfl, rfl, rfl⟩
    · next p hl =>
      split at hs
      · next s1 q hp =>
        simp only [Option.some.injEq] at hs; subst hs
        have hlen := passStep_length hp
        obtain ⟨c, l, rfl⟩ := passStep_frame hp
        exact ⟨rfl, rfl, rfl, hlen⟩
      · next s1 hp =>
        simp only [Option.some.injEq] at hs; subst hs
        have hlen := passStep_length hp
        obtain ⟨c, l, rfl⟩ := passStep_frame hp
        exact ⟨rfl, rfl, rfl, hlen⟩
      · cases hs
    · cases hs
  | closer t ch =>
    simp only [step] at hs
    split at hs
    · split at hs <;> (simp only [Option.some.injEq] at hs; subst hs) <;> exact ⟨rfl, rfl, rfl, rfl⟩
    · simp only [Option.some.injEq] at hs; subst hs; exact ⟨rfl, rfl, rfl, rfl⟩
    · split at hs
      · simp only [Option.some.injEq] at hs; subst hs; exact ⟨rfl, rfl, rfl, rfl⟩
      · cases hs
    · next p hpc =>
      split at hs
      · next s1 oq hp =>
        simp only [Option.some.injEq] at hs; subst hs
        have hlen := passStep_length hp
        obtain ⟨c, l, rfl⟩ := passStep_frame hp
        exact ⟨rfl, rfl, rfl, hlen⟩
      · cases hs
    · simp only [Option.some.injEq] at hs; subst hs
      exact ⟨rfl, rfl, rfl, by simp [setC, purgeAll]⟩
    · simp only [Option.some.injEq] at hs; subst hs; exact ⟨rfl, rfl, rfl, rfl⟩
    · split at hs <;> (simp only [Option.some.injEq] at hs; subst hs) <;> exact ⟨rfl, rfl, rfl, rfl⟩
    · cases hs
    · cases hs
    · split at hs
      · simp only [Option.some.injEq] at hs; subst hs; exact ⟨rfl, rfl, rfl, rfl⟩
      · cases hs

theorem run_params (s s' : State) (es : List Ev) (hr : run s es = some s') : SameParams s s' := by
  induction es generalizing s with
  | nil => simp only [run, Option.some.injEq] at hr; subst hr; exact ⟨rfl, rfl, rfl, rfl⟩
  | cons e es ih =>
    simp only [run] at hr
    split at hr
    · cases hr
    · next s1 h1 =>
      have a := step_params s s1 e h1
      have b := ih s1 hr
      exact ⟨b.hasLoop.trans a.hasLoop, b.closable.trans a.closable, b.err.trans a.err, b.k.trans a.k⟩

end Tally.RootClose
