import TallyProofs.Lemmas.ScopeLifeTok
/-!
# The invariant of the combined model is preserved by every step (`life_inv_step`), hence holds in every reachable
state (`life_inv_reach`)

Also: `FinalFlushCov` / `ffc_reach` (the winning call's final flush, which comes AFTER the purge, counts every barrier
token, and nothing delivered later is one) and `RootFlag` / `rootFlag_reach`.
-/
namespace Tally.ScopeLife
open Tally.Registry (Token ScopeS Pc pcOf scopeOf lookup isPassPc step_pcOf_ne actor Inv shadow NoPre allPending
  allTokens swapsNext Fam step_fam shadow_step pres_step)

variable {san : Nat → Nat}

theorem cov_congr {s s' : State} (hc : s'.closers = s.closers) (hreg : s'.reg = s.reg)
    (hsn : s'.snap = s.snap) (w sid : Nat) : Cov s' w sid ↔ Cov s w sid := by
  simp only [Cov, Unvisited, hc, hreg, hsn]

/-- a step of the shard (not a record) under which winner, pcs of the calls, snapshot, `preRoot` and `purged` are
unchanged; if the winner is inside its final pass, the actor is another thread or it is a `.step` of that pass -/
theorem Tok.regStep {s s' : State} {r : Registry.State} {e : Registry.Ev} (h : Tok san s)
    (hr : Registry.step san s.reg e = some r) (hne : ∀ sid, e ≠ .record sid)
    (hreg : s'.reg = r) (hp : s'.preRoot = s.preRoot) (hpu : s'.purged = s.purged) (hw : s'.winner = s.winner)
    (hc : s'.closers = s.closers) (hsnap : s'.snap = s.snap)
    (hact : ∀ w, s.winner = some w → s.closers w = .pass → actor e ≠ some (closerTid w) ∨
      ∃ c, e = .step (closerTid w) c ∧ isPassPc (pcOf s.reg (closerTid w)) = true) : Tok san s' := by
  refine ⟨h.base.regStep hr hne hreg hp hpu, ?_⟩
  intro w hw' sid hh
  rw [hw] at hw'
  have hh0 := hot_back h.base hr hne hreg hp hh
  have hcov := h.cover w hw' sid hh0
  unfold Cov at hcov ⊢
  rw [hc]
  cases hcw : s.closers w with
  | pass =>
    rw [hcw] at hcov
    simp only
    rcases hcov with hu | hsw
    · rcases unvisited_keep h.base hr hne hreg hsnap (hact w hw' hcw) hu hh with h1 | h1
      · exact Or.inl h1
      · right; rw [hreg]; exact h1
    · right; rw [hreg]; exact swapper_keep h.base hr hne hreg hsw hh
  | purgePc =>
    rw [hcw] at hcov
    simp only
    rw [hreg]; exact swapper_keep h.base hr hne hreg hcov hh
  | _ => trivial

/-- nothing but the loop's pc and the log changes -/
theorem Tok.ctlOnly {s s' : State} (h : Tok san s) (hreg : s'.reg = s.reg) (hp : s'.preRoot = s.preRoot)
    (hpu : s'.purged = s.purged) (hw : s'.winner = s.winner) (hc : s'.closers = s.closers)
    (hsnap : s'.snap = s.snap) : Tok san s' := by
  refine ⟨h.base.congr hreg hp hpu, ?_⟩
  intro w hw' sid hh
  rw [cov_congr hc hreg hsnap]
  exact h.cover w (hw ▸ hw') sid ((hotB_congr hp (by rw [hreg]) sid).mp hh)

/-- a control move of call `t` to a pc that is neither inside the final pass nor between it and the purge, the shard
untouched -/
theorem Tok.setC {s s' : State} (h : Tok san s) (t : Nat) (p' : CPc) (hreg : s'.reg = s.reg)
    (hp : s'.preRoot = s.preRoot) (hpu : s'.purged = s.purged) (hw : s'.winner = s.winner)
    (hc : s'.closers = fun u => if u = t then p' else s.closers u) (hsnap : s'.snap = s.snap)
    (hp' : p' ≠ .pass ∧ p' ≠ .purgePc) : Tok san s' := by
  refine ⟨h.base.congr hreg hp hpu, ?_⟩
  intro w hw' sid hh
  have hcov := h.cover w (hw ▸ hw') sid ((hotB_congr hp (by rw [hreg]) sid).mp hh)
  unfold Cov at hcov ⊢
  rw [hc]
  by_cases he : w = t
  · subst he
    simp only [if_true]
    obtain ⟨h1, h2⟩ := hp'
    cases p' <;> first | trivial | exact absurd rfl h1 | exact absurd rfl h2
  · simp only [he, if_false]
    cases hcw : s.closers w <;> rw [hcw] at hcov <;> simp only [Unvisited, hreg, hsnap] <;> exact hcov

theorem finalPass_visited {s : State} {t k sid : Nat} (hf : finalPassComplete s t = true)
    (hk : (k, sid) ∈ s.reg.reg) (hs : (k, sid) ∈ s.snap) : (k, sid) ∈ visitedOf (pcOf s.reg (closerTid t)) := by
  simp only [finalPassComplete, List.all_eq_true] at hf
  have := hf (k, sid) hk
  have h2 : ¬ (k, sid) ∈ s.snap ∨ (k, sid) ∈ visitedOf (pcOf s.reg (closerTid t)) := by simpa using this
  rcases h2 with h2 | h2
  · exact absurd hs h2
  · exact h2

theorem life_tok_step {s s' : State} {e : Ev} (hctl : Ctl s) (h : Tok san s) (hs : step san s e = some s') :
    Tok san s' := by
  have hwin : ∀ w, s.winner = some w → isApp (closerTid w) = false := fun w _ => not_isApp_closer w
  cases e with
  | record sid =>
    simp only [step] at hs
    split at hs
    · cases hs
    · next r hr =>
      cases hs
      have hcp : s.purged = true → s.rootClosed = true := by
        intro hpur
        have := hctl.purged_iff
        rw [hpur] at this
        have h7 : 6 ≤ ph (wpc s) := by simpa using this.symm
        cases hw : s.winner with
        | none => simp [wpc, hw, ph] at h7
        | some w => rw [hctl.closed_iff, hw]; rfl
      refine ⟨h.base.record hcp hr, ?_⟩
      intro w hw sid' hh
      have hrc : s.rootClosed = true := by rw [hctl.closed_iff, hw]; rfl
      obtain ⟨x, hx, hreg, hpcs, hnt, hcells⟩ := record_shape hr
      obtain ⟨x', tok, hx', hm, hb⟩ := hh
      have hb0 : Barrier s tok := ⟨hb.1, by have := hb.2; dsimp only at this; simpa [hrc] using this⟩
      have hh0 : HotB s sid' := by
        rcases hcells sid' x' tok hx' hm with ⟨x0, hx0, hm0⟩ | ⟨rfl, rfl⟩
        · exact ⟨x0, tok, hx0, hm0, hb0⟩
        · exact absurd (h.base.preLt _ hb0.2) (Nat.lt_irrefl _)
      have hcov := h.cover w hw sid' hh0
      have hpc : ∀ t, pcOf r t = pcOf s.reg t := pcOf_of_pcs_eq hpcs
      unfold Cov at hcov ⊢
      show (match s.closers w with
        | .pass => Unvisited { s with reg := r, preRoot := _ } w sid' ∨ Swapper r sid'
        | .purgePc => Swapper r sid'
        | _ => True)
      have hsw : Swapper s.reg sid' → Swapper r sid' := fun ⟨t, ht⟩ => ⟨t, by rw [hpc]; exact ht⟩
      cases hcw : s.closers w <;> rw [hcw] at hcov <;> simp only
      · rcases hcov with ⟨k, h1, h2, h3⟩ | hcov
        · left; exact ⟨k, by show (k, sid') ∈ r.reg; rw [hreg]; exact h1, h2, by show (k, sid') ∉ visitedOf (pcOf r _); rw [hpc]; exact h3⟩
        · exact Or.inr (hsw hcov)
      · exact hsw hcov
  | close sid =>
    simp only [step, regStep] at hs
    split at hs
    · cases hs
    · split at hs
      · cases hs
      · next r hr =>
        cases hs
        exact h.regStep hr (by intro _ e; cases e) rfl rfl rfl rfl rfl rfl (fun w _ _ => Or.inl (by simp [actor]))
  | obtain t k =>
    simp only [step, regStep] at hs
    split at hs
    · next hc =>
      split at hs
      · cases hs
      · next r hr =>
        cases hs
        simp only [Bool.and_eq_true] at hc
        refine h.regStep hr (by intro _ e; cases e) rfl rfl rfl rfl rfl rfl (fun w _ _ => Or.inl ?_)
        simp only [actor, ne_eq, Option.some.injEq]
        exact isApp_ne_closer hc.1 w
    · cases hs
  | step t c =>
    simp only [step, regStep] at hs
    split at hs
    · next hc =>
      split at hs
      · cases hs
      · next r hr =>
        cases hs
        refine h.regStep hr (by intro _ e; cases e) rfl rfl rfl rfl rfl rfl (fun w _ _ => Or.inl ?_)
        simp only [actor, ne_eq, Option.some.injEq]
        exact isApp_ne_closer hc w
    · cases hs
  | tick =>
    simp only [step] at hs
    split at hs
    · cases hs; exact h.ctlOnly rfl rfl rfl rfl rfl rfl
    · cases hs
  | exit =>
    simp only [step] at hs
    split at hs
    · split at hs
      · cases hs; exact h.ctlOnly rfl rfl rfl rfl rfl rfl
      · cases hs
    · cases hs
  | loop c =>
    have hne : ∀ w, actor (Registry.Ev.passBegin loopTid) ≠ some (closerTid w) := by
      intro w; simp only [actor, ne_eq, Option.some.injEq]; exact (closerTid_ne_loop w).symm
    have hne2 : ∀ w, actor (Registry.Ev.step loopTid c) ≠ some (closerTid w) := by
      intro w; simp only [actor, ne_eq, Option.some.injEq]; exact (closerTid_ne_loop w).symm
    simp only [step] at hs
    split at hs
    · split at hs <;> cases hs <;> exact h.ctlOnly rfl rfl rfl rfl rfl rfl
    · split at hs
      · cases hs
      · next r hr =>
        cases hs
        exact h.regStep hr (by intro _ e; cases e) rfl rfl rfl rfl rfl rfl (fun w _ _ => Or.inl (hne w))
    · simp only [regStep] at hs
      split at hs
      · cases hs
      · next r hr =>
        cases hs
        exact h.regStep hr (by intro _ e; cases e) rfl rfl rfl rfl rfl rfl (fun w _ _ => Or.inl (hne2 w))
    · cases hs; exact h.ctlOnly rfl rfl rfl rfl rfl rfl
    · cases hs
  | loopEnd =>
    simp only [step] at hs
    split at hs
    · split at hs
      · cases hs
      · next r hr =>
        cases hs
        refine h.regStep hr (by intro _ e; cases e) rfl rfl rfl rfl rfl rfl (fun w _ _ => Or.inl ?_)
        simp only [actor, ne_eq, Option.some.injEq]; exact (closerTid_ne_loop w).symm
    · cases hs
  | closer t c =>
    simp only [step] at hs
    split at hs
    · next hpc =>
      split at hs
      · cases hs
        exact h.setC t .waitWinner rfl rfl rfl rfl rfl rfl (by simp)
      · next hclosed =>
        split at hs
        · cases hs
        · next r hr =>
          cases hs
          have hno : s.winner = none := hctl.no_winner (by simpa using hclosed)
          refine ⟨h.base.regStep hr (by intro _ e; cases e) rfl rfl rfl, ?_⟩
          intro w hw sid hh
          have hw' : some t = some w := hw
          cases hw'
          unfold Cov
          show (match (if t = t then CPc.won else s.closers t) with
            | .pass => _ | .purgePc => _ | _ => True)
          simp
    · cases hs
      exact h.setC t .doneClosedPc rfl rfl rfl rfl rfl rfl (by simp)
    · split at hs
      · cases hs
        exact h.setC t .waited rfl rfl rfl rfl rfl rfl (by simp)
      · cases hs
    · next hpc =>
      -- the final pass takes its read lock: the snapshot is the map
      split at hs
      · cases hs
      · next r hr =>
        cases hs
        have hw := hctl.winner_of t (by rw [hpc]; simp [ph])
        have hne : ∀ sid, Registry.Ev.passBegin (closerTid t) ≠ .record sid := by intro _ e; cases e
        refine ⟨h.base.regStep hr hne rfl rfl rfl, ?_⟩
        intro w hw' sid hh
        have hwt : some t = some w := hw.symm.trans hw'
        cases hwt
        have hh0 := hot_back (s' := { setC s t CPc.pass with reg := r, snap := s.reg.reg }) h.base hr hne rfl rfl hh
        obtain ⟨x, tok, hx, hm, hb⟩ := hh0
        obtain ⟨k, hk⟩ := h.base.regIfPre sid x tok hx hm hb.1
        have hf := fam_of_step h.base hr hne
        have hk' : (k, sid) ∈ r.reg := by
          rcases hf.reg_keep h.base.inv (k := k) (v := sid) hk with hk' | hk'
          · exact hk'
          · obtain ⟨x', tok', hx', hm', hb'⟩ := hh
            have := hk' x' hx' tok' hm'; rw [hb'.1] at this; cases this
        unfold Cov
        show (match (if t = t then CPc.pass else s.closers t) with
          | .pass => Unvisited { setC s t CPc.pass with reg := r, snap := s.reg.reg } t sid ∨ Swapper r sid
          | .purgePc => _ | _ => True)
        simp only [if_true]
        left
        refine ⟨k, hk', hk, ?_⟩
        show (k, sid) ∉ visitedOf (pcOf r (closerTid t))
        rw [passBegin_pc hr]; simp [visitedOf]
    · next hpc =>
      simp only [regStep] at hs
      split at hs
      · cases hs
      · next r hr =>
        cases hs
        refine h.regStep hr (by intro _ e; cases e) rfl rfl rfl rfl rfl rfl ?_
        intro w hw _
        have hwt := hctl.winner_of t (by rw [hpc]; simp [ph])
        have : some t = some w := hwt.symm.trans hw
        cases this
        right
        refine ⟨c, rfl, ?_⟩
        rcases hctl.threads.closerThread t with ⟨_, h2⟩ | ⟨h1, _⟩
        · exact h2
        · exact absurd hpc h1
    · next hpc =>
      -- the purge: no reader, hence no thread about to swap, hence no cell holds a barrier token
      split at hs
      · next hrd =>
        cases hs
        have hw := hctl.winner_of t (by rw [hpc]; simp [ph])
        have hrd' : s.reg.readers = [] := List.isEmpty_iff.mp hrd
        have hcold : ∀ sid, HotB s sid → Swapper s.reg sid := by
          intro sid hh
          have hcov := h.cover t hw sid hh
          unfold Cov at hcov
          rw [hpc] at hcov
          exact hcov
        refine ⟨h.base.purge hcold hrd' rfl rfl rfl, ?_⟩
        intro w hw' sid hh
        have hwt : some t = some w := hw.symm.trans hw'
        cases hwt
        unfold Cov
        show (match (if t = t then CPc.flushPc else s.closers t) with
          | .pass => _ | .purgePc => _ | _ => True)
        simp
      · cases hs
    · cases hs
      exact h.setC t .reporterClose rfl rfl rfl rfl rfl rfl (by simp)
    · split at hs
      · cases hs
        exact h.setC t (.returned s.err) rfl rfl rfl rfl rfl rfl (by simp)
      · cases hs
        exact h.setC t (.returned none) rfl rfl rfl rfl rfl rfl (by simp)
    · cases hs
    · cases hs
    · split at hs
      · cases hs
        exact h.setC t .returnedNil rfl rfl rfl rfl rfl rfl (by simp)
      · cases hs
  | closerEnd t =>
    simp only [step] at hs
    split at hs
    · next hpc =>
      split at hs
      · next hfin =>
        split at hs
        · cases hs
        · next r hr =>
          cases hs
          have hw := hctl.winner_of t (by rw [hpc]; simp [ph])
          have hne : ∀ sid, Registry.Ev.passEndHint (closerTid t) ≠ .record sid := by intro _ e; cases e
          refine ⟨h.base.regStep hr hne rfl rfl rfl, ?_⟩
          intro w hw' sid hh
          have hwt : some t = some w := hw.symm.trans hw'
          cases hwt
          have hh0 := hot_back (s' := { setC s t CPc.purgePc with reg := r }) h.base hr hne rfl rfl hh
          have hcov := h.cover t hw sid hh0
          unfold Cov at hcov ⊢
          rw [hpc] at hcov
          show (match (if t = t then CPc.purgePc else s.closers t) with
            | .pass => _ | .purgePc => Swapper r sid | _ => True)
          simp only [if_true]
          rcases hcov with ⟨k, hk, hks, hkv⟩ | hsw
          · exact absurd (finalPass_visited hfin hk hks) hkv
          · exact swapper_keep (s' := { setC s t CPc.purgePc with reg := r }) h.base hr hne rfl hsw hh
      · cases hs
    · cases hs


/-! ## reachable states -/

theorem tok_init (hsan : ∀ k, san (san k) = san k) (hl cl : Bool) (er : Option Nat) : Tok san (init san hl cl er) := by
  have hI : Inv san (shadow (Registry.initRoot san)) := Registry.inv_initRoot hsan
  refine ⟨⟨hI, ?_, ?_, ?_, ?_, ?_, ?_⟩, ?_⟩
  · intro id hm; cases hm
  · intro _ tok hm; cases hm
  · intro tok hm; cases hm
  · intro sid x tok hx hm _
    have hx' : [({ ident := san 0, closed := false, cleared := false, cell := [] } : ScopeS)][sid]? = some x := hx
    cases sid with
    | zero => simp at hx'; subst hx'; cases hm
    | succ n => simp at hx'
  · intro hp; cases hp
  · intro hp; cases hp
  · intro w hw; cases hw

/-- the invariant of the combined model -/
structure LifeInv (san : Nat → Nat) (s : State) : Prop where
  ctl : Ctl s
  tok : Tok san s

theorem life_inv_step {s s' : State} {e : Ev} (h : LifeInv san s) (hs : step san s e = some s') : LifeInv san s' :=
  ⟨ctl_step h.ctl hs, life_tok_step h.ctl h.tok hs⟩

theorem life_inv_run {s s' : State} {es : List Ev} (h : LifeInv san s) (hr : run san s es = some s') :
    LifeInv san s' := by
  induction es generalizing s with
  | nil => simp only [run, Option.some.injEq] at hr; subst hr; exact h
  | cons e es ih =>
    simp only [run] at hr
    split at hr
    · cases hr
    · next s1 h1 => exact ih (life_inv_step h h1) hr

theorem life_inv_reach {s : State} {es : List Ev} (hsan : ∀ k, san (san k) = san k) {hl cl : Bool} {er : Option Nat}
    (hr : run san (init san hl cl er) es = some s) : LifeInv san s :=
  life_inv_run ⟨ctl_init san hl cl er, tok_init hsan hl cl er⟩ hr

theorem run_append {a b : State} {xs ys : List Ev} (h : run san a xs = some b) :
    run san a (xs ++ ys) = run san b ys := by
  induction xs generalizing a with
  | nil => simp only [run, Option.some.injEq] at h; subst h; rfl
  | cons x xs ih =>
    simp only [List.cons_append, run] at h ⊢
    cases h1 : step san a x with
    | none => simp [h1] at h
    | some s1 => simp only [h1] at h ⊢; exact ih h

/-- the parameter `closable` never changes -/
theorem step_closable {s s' : State} {e : Ev} (hs : step san s e = some s') : s'.closable = s.closable := by
  cases e <;> simp only [step, regStep] at hs <;> repeat' split at hs
  all_goals first | cases hs | skip
  all_goals rfl

theorem run_closable {s s' : State} {es : List Ev} (hr : run san s es = some s') : s'.closable = s.closable := by
  induction es generalizing s with
  | nil => simp only [run, Option.some.injEq] at hr; subst hr; rfl
  | cons e es ih =>
    simp only [run] at hr
    split at hr
    · cases hr
    · next s1 h1 => rw [ih hr, step_closable h1]

/-- the three kinds of thread ids -/
theorem tid_cases (t : Nat) : t = loopTid ∨ (∃ c, t = closerTid c) ∨ isApp t = true := by
  by_cases h0 : t = 0
  · exact Or.inl h0
  · by_cases h1 : t < 1000
    · right; right; simp [isApp, h1]; omega
    · right; left; exact ⟨t - 1000, by simp only [closerTid]; omega⟩

theorem mem_allPending {r : Registry.State} {tok : Token} (hnd : (r.pcs.map (·.1)).Nodup) (h : tok ∈ allPending r) :
    ∃ t, tok ∈ Registry.pendingOf (pcOf r t) := by
  rw [Registry.allPending_eq] at h
  simp only [Registry.pend, List.mem_flatten, List.mem_map] at h
  obtain ⟨l, ⟨⟨t, p⟩, hq, rfl⟩, hm⟩ := h
  refine ⟨t, ?_⟩
  have hl : r.pcs.lookup t = some p := by
    generalize r.pcs = l at hnd hq
    induction l with
    | nil => cases hq
    | cons a l ih =>
      obtain ⟨k, v⟩ := a
      simp only [List.map_cons, List.nodup_cons] at hnd
      rcases List.mem_cons.mp hq with he | hq'
      · cases he; simp [List.lookup]
      · have hne : t ≠ k := by
          intro e; subst e
          exact hnd.1 (List.mem_map.mpr ⟨(t, p), hq', rfl⟩)
        have : (t == k) = false := by simp [hne]
        simp only [List.lookup, this]
        exact ih hnd.2 hq'
  simp only [pcOf, hl, Option.getD_some]; exact hm

/-! ## the final flush covers every barrier token

The final `Flush` of the winning `Close` call comes after the purge.  When it is logged (`flush n` with
`n = delivered.length`) no barrier token is in a cell or pending any more (`purgedCold`, `pendNoB`), so every barrier
token is among those `n` deliveries; afterwards `delivered` only grows at its head, by tokens that were pending or in a
cell — none of them a barrier token — and no `flush` entry is logged any more. -/

/-- the number recorded in the most recent `flush` entry of the log -/
def lastFlush : List LogEv → Option Nat
  | [] => none
  | .flush n :: _ => some n
  | .reporterClose _ :: l => lastFlush l

/-- what a step does to the shard, to the ghost `preRoot` and to the log -/
theorem step_summary {s s' : State} {e : Ev} (hs : step san s e = some s') :
    (s'.reg = s.reg ∨ s'.reg = purgeReg s.reg ∨ ∃ e', Registry.step san s.reg e' = some s'.reg) ∧
    (s.rootClosed = true → s'.preRoot = s.preRoot) ∧
    (s'.log = s.log ∨ (∃ k, s'.log = .reporterClose k :: s.log) ∨
      (s'.log = .flush s.reg.delivered.length :: s.log ∧ s'.reg = s.reg ∧
        (s.loop = .flushPc ∨ ∃ t, s.closers t = .flushPc))) := by
  cases e <;> simp only [step, regStep] at hs <;> repeat' split at hs
  all_goals first | cases hs | skip
  all_goals refine ⟨?_, ?_, ?_⟩
  all_goals first
    | exact Or.inl rfl
    | exact Or.inr (Or.inl rfl)
    | exact Or.inr (Or.inr ⟨_, ‹_›⟩)
    | exact fun _ => rfl
    | exact fun hc => absurd hc ‹_›
    | exact Or.inr (Or.inl ⟨_, rfl⟩)
    | exact Or.inr (Or.inr ⟨rfl, rfl, Or.inl ‹_›⟩)
    | exact Or.inr (Or.inr ⟨rfl, rfl, Or.inr ⟨_, ‹_›⟩⟩)

/-- only `Close` call `w` itself changes its pc -/
theorem step_closers_other {s s' : State} {e : Ev} (hs : step san s e = some s') (w : Nat)
    (h1 : ∀ c, e ≠ .closer w c) (h2 : e ≠ .closerEnd w) : s'.closers w = s.closers w := by
  cases e with
  | closer t c =>
    have hne : w ≠ t := fun e => h1 c (e ▸ rfl)
    simp only [step, regStep] at hs
    repeat' split at hs
    all_goals first | cases hs | skip
    all_goals simp [setC, hne]
  | closerEnd t =>
    have hne : w ≠ t := fun e => h2 (e ▸ rfl)
    simp only [step] at hs
    repeat' split at hs
    all_goals first | cases hs | skip
    all_goals simp [setC, hne]
  | _ =>
    simp only [step, regStep] at hs
    repeat' split at hs
    all_goals first | cases hs | skip
    all_goals rfl

/-- once the winning call has logged its final flush `flush n`: the `n` oldest deliveries are still the `n` oldest
deliveries, and nothing delivered since is a barrier token -/
def FinalFlushCov (s : State) : Prop :=
  7 ≤ ph (wpc s) → ∃ n newer older, lastFlush s.log = some n ∧ s.reg.delivered = newer ++ older ∧ older.length = n ∧
    ∀ tok ∈ newer, ¬ Barrier s tok

theorem ffc_step {s s' : State} {e : Ev} (hI : LifeInv san s) (h : FinalFlushCov s) (hs : step san s e = some s') :
    FinalFlushCov s' := by
  intro h7'
  have hc := hI.ctl
  obtain ⟨hreg, hpre, hlog⟩ := step_summary hs
  by_cases h7 : 7 ≤ ph (wpc s)
  · obtain ⟨n, newer, older, hlf, hdel, hlen, hnb⟩ := h h7
    obtain ⟨w, hw⟩ : ∃ w, s.winner = some w := by
      cases hw : s.winner with
      | none => simp [wpc, hw, ph] at h7
      | some w => exact ⟨w, rfl⟩
    have hwpc := wpc_of_winner hw
    have hrc : s.rootClosed = true := by rw [hc.closed_iff, hw]; rfl
    have hex : s.loop = .exited := hc.loopEx (by omega)
    have hpur : s.purged = true := by
      rw [hc.purged_iff]; simp only [decide_eq_true_eq]; omega
    have hpr := hpre hrc
    have hlf' : lastFlush s'.log = some n := by
      rcases hlog with h1 | ⟨k, h1⟩ | ⟨_, _, h1 | ⟨t, h1⟩⟩
      · rw [h1]; exact hlf
      · rw [h1]; exact hlf
      · rw [hex] at h1; cases h1
      · have := hc.winner_of t (by rw [h1]; simp [ph])
        rw [hw] at this; cases this
        rw [hwpc, h1] at h7; simp [ph] at h7
    have hgrow : ∃ nw, s'.reg.delivered = nw ++ s.reg.delivered ∧ ∀ tok ∈ nw, ¬ Barrier s tok := by
      rcases hreg with h1 | h1 | ⟨e', h1⟩
      · exact ⟨[], by rw [h1]; rfl, fun _ hm => by cases hm⟩
      · exact ⟨[], by rw [h1]; rfl, fun _ hm => by cases hm⟩
      · obtain ⟨nw, hd, hsrc⟩ := Registry.step_delivered h1
        refine ⟨nw, hd, fun tok hm hb => ?_⟩
        rcases hsrc tok hm with hp | ⟨sid, x, hx, hmx⟩
        · exact hI.tok.base.pendNoB hpur tok hp hb
        · exact hI.tok.base.purgedCold hpur sid ⟨x, tok, hx, hmx, hb⟩
    obtain ⟨nw, hd, hnw⟩ := hgrow
    refine ⟨n, nw ++ newer, older, hlf', by rw [hd, hdel, List.append_assoc], hlen, ?_⟩
    intro tok hm
    rw [barrier_congr hpr]
    rcases List.mem_append.mp hm with hm | hm
    · exact hnw tok hm
    · exact hnb tok hm
  · -- the step is the final flush of the winning call
    obtain ⟨w, hw'⟩ : ∃ w, s'.winner = some w := by
      cases hw : s'.winner with
      | none => simp [wpc, hw, ph] at h7'
      | some w => exact ⟨w, rfl⟩
    have h7w : 7 ≤ ph (s'.closers w) := by rw [← wpc_of_winner hw']; exact h7'
    have hstay : s'.closers w = s.closers w → False := by
      intro he
      have hww := hc.winner_of w (by rw [← he]; omega)
      rw [wpc_of_winner hww, ← he] at h7; exact h7 h7w
    by_cases h1 : ∃ c, e = .closer w c
    · obtain ⟨c, rfl⟩ := h1
      cases hcw : s.closers w with
      | flushPc =>
        simp only [step, hcw] at hs
        cases hs
        exact ⟨s.reg.delivered.length, [], s.reg.delivered, rfl, rfl, rfl, fun _ hm => by cases hm⟩
      | reporterClose =>
        exact absurd (by rw [wpc_of_winner (hc.winner_of w (by rw [hcw]; simp [ph])), hcw]; simp [ph]) h7
      | _ =>
        simp only [step, regStep, hcw] at hs
        repeat' split at hs
        all_goals first | cases hs | skip
        all_goals simp [setC, ph, hcw] at h7w
    · by_cases h2 : e = .closerEnd w
      · subst h2
        simp only [step] at hs
        repeat' split at hs
        all_goals first | cases hs | skip
        all_goals simp [setC, ph] at h7w
      · exact (hstay (step_closers_other hs w (fun c hc => h1 ⟨c, hc⟩) h2)).elim

theorem ffc_reach {s : State} {es : List Ev} (hsan : ∀ k, san (san k) = san k) {hl cl : Bool} {er : Option Nat}
    (hr : run san (init san hl cl er) es = some s) : FinalFlushCov s := by
  have key : ∀ (es : List Ev) (s0 : State), LifeInv san s0 → FinalFlushCov s0 → run san s0 es = some s →
      FinalFlushCov s := by
    intro es
    induction es with
    | nil => intro s0 _ h0 hr; simp only [run, Option.some.injEq] at hr; subst hr; exact h0
    | cons e es ih =>
      intro s0 hi h0 hr
      simp only [run] at hr
      split at hr
      · cases hr
      · next s1 h1 => exact ih s1 (life_inv_step hi h1) (ffc_step hi h0 h1) hr
  refine key es _ ⟨ctl_init san hl cl er, tok_init hsan hl cl er⟩ ?_ hr
  intro h7
  have : wpc (init san hl cl er) = .start := rfl
  rw [this] at h7; simp [ph] at h7

/-! ## the root's flag is the closed flag of scope 0 of the shard -/

/-- the root's `closed` flag IS the closed flag of scope 0 (the root scope, registered in the shard like any scope) -/
def RootFlag (s : State) : Prop := ∃ x, scopeOf s.reg 0 = some x ∧ x.closed = s.rootClosed

theorem rootFlag_regStep {s s' : State} {r : Registry.State} {e : Registry.Ev} (hI : Inv san (shadow s.reg))
    (h : RootFlag s) (hr : Registry.step san s.reg e = some r) (hne : ∀ sid, e ≠ .record sid)
    (hnc : Registry.isCloseEv e = false) (hreg : s'.reg = r) (hrc : s'.rootClosed = s.rootClosed) : RootFlag s' := by
  obtain ⟨x, hx, hc⟩ := h
  have hf := step_fam hne hr
  rw [hnc] at hf
  obtain ⟨x', hx', _⟩ := (pres_step hI (shadow_step hI hr).1).2.2 0 x hx
  have hx'' : r.scopes[0]? = some x' := hx'
  exact ⟨x', by rw [hreg]; exact hx', by rw [hrc, ← hc]; exact hf.closed_same 0 x x' hx hx''⟩

theorem scopes_set_zero {l : List ScopeS} {sid : Nat} {x y : ScopeS} (hx : l[0]? = some x) :
    (sid = 0 → (l.set sid y)[0]? = some y) ∧ (sid ≠ 0 → (l.set sid y)[0]? = some x) := by
  constructor
  · rintro rfl
    have hlt : 0 < l.length := (List.getElem?_eq_some_iff.mp hx).1
    simp [hlt]
  · intro hne
    rw [List.getElem?_set]; simp [hne, hx]

theorem rootFlag_close {r r' : Registry.State} {sid : Nat} (hr : Registry.step san r (.close sid) = some r')
    {x : ScopeS} (hx : scopeOf r 0 = some x) :
    ∃ x', scopeOf r' 0 = some x' ∧ x'.closed = (if sid = 0 then true else x.closed) := by
  simp only [Registry.step] at hr
  split at hr
  · cases hr
  · next y hy =>
    cases hr
    have hx0 : r.scopes[0]? = some x := hx
    by_cases he : sid = 0
    · refine ⟨{ y with closed := true }, ?_, by simp [he]⟩
      show (r.scopes.set sid _)[0]? = _
      exact (scopes_set_zero hx0).1 he
    · refine ⟨x, ?_, by simp [he]⟩
      show (r.scopes.set sid _)[0]? = _
      exact (scopes_set_zero hx0).2 he

theorem rootFlag_record {r r' : Registry.State} {sid : Nat} (hr : Registry.step san r (.record sid) = some r')
    {x : ScopeS} (hx : scopeOf r 0 = some x) : ∃ x', scopeOf r' 0 = some x' ∧ x'.closed = x.closed := by
  simp only [Registry.step] at hr
  split at hr
  · cases hr
  · next y hy =>
    have hx0 : r.scopes[0]? = some x := hx
    split at hr
    · cases hr; exact ⟨x, hx, rfl⟩
    · cases hr
      by_cases he : sid = 0
      · subst he
        rw [hx] at hy; cases hy
        refine ⟨{ x with cell := { id := r.nextToken, scope := 0, pre := !x.closed } :: x.cell }, ?_, rfl⟩
        show (r.scopes.set 0 _)[0]? = _
        exact (scopes_set_zero hx0).1 rfl
      · refine ⟨x, ?_, rfl⟩
        show (r.scopes.set sid _)[0]? = _
        exact (scopes_set_zero hx0).2 he

theorem rootFlag_step {s s' : State} {e : Ev} (hctl : Ctl s) (hI : Inv san (shadow s.reg)) (h : RootFlag s)
    (hs : step san s e = some s') : RootFlag s' := by
  have hkeep : ∀ s' : State, s'.reg = s.reg → s'.rootClosed = s.rootClosed → RootFlag s' := by
    intro s' h1 h2; obtain ⟨x, hx, hc⟩ := h; exact ⟨x, by rw [h1]; exact hx, by rw [h2]; exact hc⟩
  cases e with
  | record sid =>
    simp only [step] at hs
    split at hs
    · cases hs
    · next r hr =>
      cases hs
      obtain ⟨x, hx, hc⟩ := h
      obtain ⟨x', hx', hc'⟩ := rootFlag_record hr hx
      exact ⟨x', hx', hc'.trans hc⟩
  | close sid =>
    simp only [step, regStep] at hs
    split at hs
    · cases hs
    · next hne =>
      split at hs
      · cases hs
      · next r hr =>
        cases hs
        obtain ⟨x, hx, hc⟩ := h
        obtain ⟨x', hx', hc'⟩ := rootFlag_close hr hx
        rw [if_neg hne] at hc'
        exact ⟨x', hx', hc'.trans hc⟩
  | obtain t k =>
    simp only [step, regStep] at hs
    repeat' split at hs
    all_goals first | cases hs | skip
    next r hr => exact rootFlag_regStep hI h hr (by intro _ e; cases e) rfl rfl rfl
  | step t c =>
    simp only [step, regStep] at hs
    repeat' split at hs
    all_goals first | cases hs | skip
    next r hr => exact rootFlag_regStep hI h hr (by intro _ e; cases e) rfl rfl rfl
  | tick =>
    simp only [step] at hs
    split at hs <;> cases hs
    exact hkeep _ rfl rfl
  | exit =>
    simp only [step] at hs
    repeat' split at hs
    all_goals first | cases hs | skip
    exact hkeep _ rfl rfl
  | loop c =>
    simp only [step, regStep] at hs
    split at hs
    · split at hs <;> cases hs <;> exact hkeep _ rfl rfl
    · split at hs
      · cases hs
      · next r hr => cases hs; exact rootFlag_regStep hI h hr (by intro _ e; cases e) rfl rfl rfl
    · split at hs
      · cases hs
      · next r hr => cases hs; exact rootFlag_regStep hI h hr (by intro _ e; cases e) rfl rfl rfl
    · cases hs; exact hkeep _ rfl rfl
    · cases hs
  | loopEnd =>
    simp only [step] at hs
    repeat' split at hs
    all_goals first | cases hs | skip
    next r hr => exact rootFlag_regStep hI h hr (by intro _ e; cases e) rfl rfl rfl
  | closer t c =>
    simp only [step, regStep] at hs
    split at hs
    · split at hs
      · cases hs; exact hkeep _ rfl rfl
      · split at hs
        · cases hs
        · next r hr =>
          cases hs
          obtain ⟨x, hx, _⟩ := h
          obtain ⟨x', hx', hc'⟩ := rootFlag_close hr hx
          exact ⟨x', hx', by simpa using hc'⟩
    · cases hs; exact hkeep _ rfl rfl
    · split at hs <;> cases hs
      exact hkeep _ rfl rfl
    · split at hs
      · cases hs
      · next r hr => cases hs; exact rootFlag_regStep hI h hr (by intro _ e; cases e) rfl rfl rfl
    · split at hs
      · cases hs
      · next r hr => cases hs; exact rootFlag_regStep hI h hr (by intro _ e; cases e) rfl rfl rfl
    · next hpc =>
      split at hs
      · cases hs
        have hw := hctl.winner_of t (by rw [hpc]; simp [ph])
        have hrc : s.rootClosed = true := by rw [hctl.closed_iff, hw]; rfl
        obtain ⟨x, hx, hc⟩ := h
        refine ⟨if isReg s.reg.reg 0 then purgeScope x else x, ?_, ?_⟩
        · show scopeOf (purgeReg s.reg) 0 = _
          rw [Registry.scopeOf_purgeReg, hx]; rfl
        · show _ = s.rootClosed
          rw [hrc]; split
          · rfl
          · rw [hc, hrc]
      · cases hs
    · cases hs; exact hkeep _ rfl rfl
    · split at hs <;> cases hs <;> exact hkeep _ rfl rfl
    · cases hs
    · cases hs
    · split at hs <;> cases hs
      exact hkeep _ rfl rfl
  | closerEnd t =>
    simp only [step] at hs
    repeat' split at hs
    all_goals first | cases hs | skip
    next r hr => exact rootFlag_regStep hI h hr (by intro _ e; cases e) rfl rfl rfl

theorem rootFlag_reach {s : State} {es : List Ev} (hsan : ∀ k, san (san k) = san k) {hl cl : Bool} {er : Option Nat}
    (hr : run san (init san hl cl er) es = some s) : RootFlag s := by
  have key : ∀ (es : List Ev) (s0 : State), LifeInv san s0 → RootFlag s0 → run san s0 es = some s → RootFlag s := by
    intro es
    induction es with
    | nil => intro s0 _ h0 hr; simp only [run, Option.some.injEq] at hr; subst hr; exact h0
    | cons e es ih =>
      intro s0 hi h0 hr
      simp only [run] at hr
      split at hr
      · cases hr
      · next s1 h1 => exact ih s1 (life_inv_step hi h1) (rootFlag_step hi.ctl hi.tok.base.inv h0 h1) hr
  exact key es _ ⟨ctl_init san hl cl er, tok_init hsan hl cl er⟩ ⟨_, rfl, rfl⟩ hr

end Tally.ScopeLife
