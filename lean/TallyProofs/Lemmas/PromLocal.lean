import TallyProofs.Lemmas.Prom
/-! One counter / gauge / timer object and its series (`localRun`), and how a series shows in `gather`. -/
namespace Tally.Prom
open Tally

theorem localRun_counter (h : Handle) (levs : List LEv) : ∀ p n, ∃ p' n',
    localRun (.counter h p) (.counter n) levs = (.counter h p', .counter n')
      ∧ n' + p' = n + p + Spec.C17.incSum levs := by
  induction levs with
  | nil => intro p n; exact ⟨p, n, rfl, by simp [Spec.C17.incSum]⟩
  | cons e t ih =>
    intro p n
    cases e with
    | inc k =>
      obtain ⟨p', n', h1, h2⟩ := ih (p + k) n
      refine ⟨p', n', ?_, ?_⟩
      · simpa [localRun, localStep] using h1
      · simp only [Spec.C17.incSum]; omega
    | pass =>
      by_cases hp : p = 0
      · obtain ⟨p', n', h1, h2⟩ := ih p n
        refine ⟨p', n', ?_, ?_⟩
        · simpa [localRun, localStep, hp] using h1
        · simp only [Spec.C17.incSum]; omega
      · obtain ⟨p', n', h1, h2⟩ := ih 0 (n + p)
        refine ⟨p', n', ?_, ?_⟩
        · simpa [localRun, localStep, hp, Val.add] using h1
        · simp only [Spec.C17.incSum]; omega
    | update b =>
      obtain ⟨p', n', h1, h2⟩ := ih p n
      exact ⟨p', n', by simpa [localRun, localStep] using h1, by simp only [Spec.C17.incSum]; omega⟩
    | record b =>
      obtain ⟨p', n', h1, h2⟩ := ih p n
      exact ⟨p', n', by simpa [localRun, localStep] using h1, by simp only [Spec.C17.incSum]; omega⟩
    | sample b =>
      obtain ⟨p', n', h1, h2⟩ := ih p n
      exact ⟨p', n', by simpa [localRun, localStep] using h1, by simp only [Spec.C17.incSum]; omega⟩

/-- after a final pass the counter series holds the sum of the increments -/
theorem counter_final (h : Handle) (levs : List LEv) :
    (localRun (.counter h 0) (.counter 0) (levs ++ [.pass])).2 = .counter (Spec.C17.incSum levs) := by
  rw [localRun_append]
  obtain ⟨p', n', h1, h2⟩ := localRun_counter h levs 0 0
  rw [h1]
  simp only [localRun, localStep]
  by_cases hp : p' = 0
  · simp only [hp, if_true]; congr 1; omega
  · simp only [hp, if_false, Val.add]; congr 1; omega

theorem localRun_gauge (h : Handle) (levs : List LEv) : ∀ c u b, ∃ c' u' b',
    localRun (.gauge h c u) (.gauge b) levs = (.gauge h c' u', .gauge b')
      ∧ (if u' then c' else b') = Spec.C17.lastUpdate levs (if u then c else b) := by
  induction levs with
  | nil => intro c u b; exact ⟨c, u, b, rfl, rfl⟩
  | cons e t ih =>
    intro c u b
    cases e with
    | update x =>
      obtain ⟨c', u', b', h1, h2⟩ := ih x true b
      exact ⟨c', u', b', by simpa [localRun, localStep] using h1, by simpa [Spec.C17.lastUpdate] using h2⟩
    | pass =>
      cases u with
      | true =>
        obtain ⟨c', u', b', h1, h2⟩ := ih c false c
        exact ⟨c', u', b', by simpa [localRun, localStep, Val.set] using h1, by simpa [Spec.C17.lastUpdate] using h2⟩
      | false =>
        obtain ⟨c', u', b', h1, h2⟩ := ih c false b
        exact ⟨c', u', b', by simpa [localRun, localStep] using h1, by simpa [Spec.C17.lastUpdate] using h2⟩
    | inc k =>
      obtain ⟨c', u', b', h1, h2⟩ := ih c u b
      exact ⟨c', u', b', by simpa [localRun, localStep] using h1, by simpa [Spec.C17.lastUpdate] using h2⟩
    | record k =>
      obtain ⟨c', u', b', h1, h2⟩ := ih c u b
      exact ⟨c', u', b', by simpa [localRun, localStep] using h1, by simpa [Spec.C17.lastUpdate] using h2⟩
    | sample k =>
      obtain ⟨c', u', b', h1, h2⟩ := ih c u b
      exact ⟨c', u', b', by simpa [localRun, localStep] using h1, by simpa [Spec.C17.lastUpdate] using h2⟩

/-- after a final pass the gauge series holds the last update (`+0` if there was none) -/
theorem gauge_final (h : Handle) (levs : List LEv) :
    (localRun (.gauge h 0 false) (.gauge 0) (levs ++ [.pass])).2 = .gauge (Spec.C17.lastUpdate levs 0) := by
  rw [localRun_append]
  obtain ⟨c', u', b', h1, h2⟩ := localRun_gauge h levs 0 false 0
  rw [h1]
  simp only [localRun, localStep]
  cases u' with
  | true => simpa [Val.set] using h2
  | false => simpa using h2

theorem localRun_timer_summary (h : Handle) (levs : List LEv) : ∀ c,
    localRun (.timer h) (.summary c) levs = (.timer h, .summary (c + Spec.C17.recordCount levs)) := by
  induction levs with
  | nil => intro c; rfl
  | cons e t ih =>
    intro c
    cases e with
    | record x =>
      simp only [localRun, localStep, Val.observe, Spec.C17.recordCount]
      rw [ih]; congr 2; omega
    | inc k => simpa [localRun, localStep, Spec.C17.recordCount] using ih c
    | update k => simpa [localRun, localStep, Spec.C17.recordCount] using ih c
    | sample k => simpa [localRun, localStep, Spec.C17.recordCount] using ih c
    | pass => simpa [localRun, localStep, Spec.C17.recordCount] using ih c

theorem localRun_timer_histogram (h : Handle) (bs : List F64) (levs : List LEv) : ∀ bk c, ∃ bk',
    localRun (.timer h) (.histogram bs bk c) levs = (.timer h, .histogram bs bk' (c + Spec.C17.recordCount levs)) := by
  induction levs with
  | nil => intro bk c; exact ⟨bk, rfl⟩
  | cons e t ih =>
    intro bk c
    cases e with
    | record x =>
      simp only [localRun, localStep, Val.observe, Spec.C17.recordCount]
      obtain ⟨bk', h1⟩ := ih (if Buckets.rawPlaceValue bs x < bs.length then bump bk (Buckets.rawPlaceValue bs x) else bk) (c + 1)
      refine ⟨bk', ?_⟩
      rw [h1]; congr 2; omega
    | inc k => simpa [localRun, localStep, Spec.C17.recordCount] using ih bk c
    | update k => simpa [localRun, localStep, Spec.C17.recordCount] using ih bk c
    | sample k => simpa [localRun, localStep, Spec.C17.recordCount] using ih bk c
    | pass => simpa [localRun, localStep, Spec.C17.recordCount] using ih bk c

/-- a counter written directly (`RegisterCounter(…).With(tags).Add`): the series holds the sum at any time -/
theorem localRun_rawCounter (h : Handle) (levs : List LEv) : ∀ n,
    localRun (.rawCounter h) (.counter n) levs = (.rawCounter h, .counter (n + Spec.C17.incSum levs)) := by
  induction levs with
  | nil => intro n; rfl
  | cons e t ih =>
    intro n
    cases e with
    | inc k =>
      simp only [localRun, localStep, Val.add, Spec.C17.incSum]
      rw [ih]; congr 2; omega
    | update k => simpa [localRun, localStep, Spec.C17.incSum] using ih n
    | record k => simpa [localRun, localStep, Spec.C17.incSum] using ih n
    | sample k => simpa [localRun, localStep, Spec.C17.incSum] using ih n
    | pass => simpa [localRun, localStep, Spec.C17.incSum] using ih n

/-- a gauge written directly (`RegisterGauge(…).With(tags).Set`): the series holds the last update at any time -/
theorem localRun_rawGauge (h : Handle) (levs : List LEv) : ∀ b,
    localRun (.rawGauge h) (.gauge b) levs = (.rawGauge h, .gauge (Spec.C17.lastUpdate levs b)) := by
  induction levs with
  | nil => intro b; rfl
  | cons e t ih =>
    intro b
    cases e with
    | update x => simpa [localRun, localStep, Val.set, Spec.C17.lastUpdate] using ih x
    | inc k => simpa [localRun, localStep, Spec.C17.lastUpdate] using ih b
    | record k => simpa [localRun, localStep, Spec.C17.lastUpdate] using ih b
    | sample k => simpa [localRun, localStep, Spec.C17.lastUpdate] using ih b
    | pass => simpa [localRun, localStep, Spec.C17.lastUpdate] using ih b

/-! ### `gather` -/

theorem mem_gather (r : Reporter) (e : GEntry) : e ∈ gather r ↔ e ∈ entriesOf r := by
  unfold gather
  exact List.mem_mergeSort

theorem gather_of_getS (r : Reporter) (k : SeriesKey) (v : Val) (h : getS r.series k = some v) :
    ∃ e ∈ gather r, e.key = k ∧ e.val = v.export := by
  have hm := getS_mem _ _ _ h
  refine ⟨_, (mem_gather r _).mpr (List.mem_map.mpr ⟨(k, v), hm, rfl⟩), rfl, rfl⟩

theorem gather_unique (r : Reporter) (hn : (keysS r.series).Nodup) (e : GEntry) (he : e ∈ gather r)
    (v : Val) (h : getS r.series e.key = some v) : e.val = v.export := by
  rw [mem_gather] at he
  obtain ⟨⟨k', v'⟩, hm, rfl⟩ := List.mem_map.mp he
  have := mem_getS _ hn k' v' hm
  simp only at h
  rw [this] at h
  injection h with h
  simp [h]

theorem gather_keys_nodup (r : Reporter) (hn : (keysS r.series).Nodup) : ((gather r).map (·.key)).Nodup := by
  have hp : ((gather r).map (·.key)).Perm ((entriesOf r).map (·.key)) := (List.mergeSort_perm _ _).map _
  rw [hp.nodup_iff]
  have : (entriesOf r).map (·.key) = keysS r.series := by
    simp [entriesOf, keysS, List.map_map, Function.comp_def]
  rw [this]; exact hn

end Tally.Prom
