import Tally.Model.M3Report
import Tally.Spec.C18
import TallyProofs.Lemmas.Digits
/-!
# Digit strings of one length: numeric order is byte-string order

For two byte strings of the same length made of decimal digits only, the one that reads as the smaller
number is the smaller one in the lexicographic order on `List UInt8` (the order a backend uses when it
sorts by a tag value).  Applied to the zero-padded bucket ids of the M3 reporter
(`bucketIdString`): every byte of an id is a digit.
-/
namespace Tally.Lemmas.DigitsLex
open Tally Tally.Statsd Tally.Spec.C18 Tally.Lemmas.Digits

/-- reading a digit string of length `n` on top of the accumulator `acc`: `acc · 10ⁿ + v`, `v < 10ⁿ`,
with the same `v` for every accumulator -/
theorem parseDigitsAux_digits : ∀ (s : Bytes), (∀ b ∈ s, isDigit b = true) →
    ∃ v, v < 10 ^ s.length ∧ ∀ acc, parseDigitsAux s acc = some (acc * 10 ^ s.length + v) := by
  intro s
  induction s with
  | nil => intro _; exact ⟨0, by simp, fun acc => by simp [parseDigitsAux]⟩
  | cons b t ih =>
    intro h
    have hb : isDigit b = true := h b (by simp)
    obtain ⟨v, hv, hp⟩ := ih (fun c hc => h c (by simp [hc]))
    have hb' := hb
    unfold isDigit at hb'
    simp only [Bool.and_eq_true, decide_eq_true_eq] at hb'
    refine ⟨(b.toNat - 48) * 10 ^ t.length + v, ?_, ?_⟩
    · simp only [List.length_cons, Nat.pow_succ]
      have : (b.toNat - 48) * 10 ^ t.length ≤ 9 * 10 ^ t.length := Nat.mul_le_mul_right _ (by omega)
      omega
    · intro acc
      simp only [parseDigitsAux, hb, if_true, hp, List.length_cons, Nat.pow_succ, Option.some.injEq]
      rw [Nat.add_mul, Nat.mul_assoc, Nat.mul_comm 10 (10 ^ t.length), Nat.add_assoc]

/-- with equal lengths, a smaller accumulator gives a smaller result whatever the digits are -/
theorem parseDigitsAux_lt_of_acc_lt (s t : Bytes) (hlen : s.length = t.length)
    (hs : ∀ b ∈ s, isDigit b = true) (ht : ∀ b ∈ t, isDigit b = true) (a₁ a₂ x y : Nat)
    (hx : parseDigitsAux s a₁ = some x) (hy : parseDigitsAux t a₂ = some y) (ha : a₁ < a₂) : x < y := by
  obtain ⟨v, hv, hp⟩ := parseDigitsAux_digits s hs
  obtain ⟨u, _, hq⟩ := parseDigitsAux_digits t ht
  rw [hp] at hx
  rw [hq] at hy
  simp only [Option.some.injEq] at hx hy
  subst hx hy
  rw [← hlen]
  have : (a₁ + 1) * 10 ^ s.length ≤ a₂ * 10 ^ s.length := Nat.mul_le_mul_right _ ha
  rw [Nat.add_mul, Nat.one_mul] at this
  omega

/-- the same statement from any common accumulator (the induction of `lex_lt_of_parse_lt`) -/
theorem lex_lt_of_parseAux_lt : ∀ (s t : Bytes), s.length = t.length →
    (∀ b ∈ s, isDigit b = true) → (∀ b ∈ t, isDigit b = true) → ∀ (acc x y : Nat),
    parseDigitsAux s acc = some x → parseDigitsAux t acc = some y → x < y → s < t := by
  intro s
  induction s with
  | nil =>
    intro t hlen _ _ acc x y hx hy hxy
    cases t with
    | nil =>
      simp only [parseDigitsAux, Option.some.injEq] at hx hy
      omega
    | cons _ _ => simp at hlen
  | cons b s' ih =>
    intro t hlen hs ht acc x y hx hy hxy
    cases t with
    | nil => simp at hlen
    | cons c t' =>
      have hlen' : s'.length = t'.length := by simpa using hlen
      have hb : isDigit b = true := hs b (by simp)
      have hc : isDigit c = true := ht c (by simp)
      have hs' : ∀ d ∈ s', isDigit d = true := fun d hd => hs d (by simp [hd])
      have ht' : ∀ d ∈ t', isDigit d = true := fun d hd => ht d (by simp [hd])
      simp only [parseDigitsAux, hb, hc, if_true] at hx hy
      have hb' := hb
      have hc' := hc
      unfold isDigit at hb' hc'
      simp only [Bool.and_eq_true, decide_eq_true_eq] at hb' hc'
      rw [List.cons_lt_cons_iff]
      rcases Nat.lt_trichotomy b.toNat c.toNat with hlt | heq | hgt
      · exact Or.inl (UInt8.lt_iff_toNat_lt.2 hlt)
      · have hbc : b = c := UInt8.toNat_inj.1 heq
        subst hbc
        exact Or.inr ⟨rfl, ih t' hlen' hs' ht' _ x y hx hy hxy⟩
      · have := parseDigitsAux_lt_of_acc_lt t' s' hlen'.symm ht' hs' _ _ y x hy hx (by omega)
        omega

/-- **numeric order is byte-string order** for digit strings of one length: if `s` reads as a smaller
number than `t`, then `s < t` in the lexicographic order on `List UInt8` -/
theorem lex_lt_of_parse_lt (s t : Bytes) (hlen : s.length = t.length)
    (hs : ∀ b ∈ s, isDigit b = true) (ht : ∀ b ∈ t, isDigit b = true) (x y : Nat)
    (hx : parseDigitsAux s 0 = some x) (hy : parseDigitsAux t 0 = some y) (hxy : x < y) : s < t :=
  lex_lt_of_parseAux_lt s t hlen hs ht 0 x y hx hy hxy

/-- the same for the non-empty-string parser `parseDigits` -/
theorem lex_lt_of_parseDigits_lt (s t : Bytes) (hlen : s.length = t.length)
    (hs : ∀ b ∈ s, isDigit b = true) (ht : ∀ b ∈ t, isDigit b = true) (x y : Nat)
    (hx : parseDigits s = some x) (hy : parseDigits t = some y) (hxy : x < y) : s < t := by
  unfold parseDigits at hx hy
  split at hx
  · simp at hx
  · split at hy
    · simp at hy
    · exact lex_lt_of_parse_lt s t hlen hs ht x y hx hy hxy

/-- every byte of a bucket id is a decimal digit -/
theorem bucketIdString_all_digit (w i : Nat) : ∀ b ∈ M3.bucketIdString w i, isDigit b = true :=
  padLeft0_all_digit w i

end Tally.Lemmas.DigitsLex
