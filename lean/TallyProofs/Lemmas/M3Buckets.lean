import Tally.Model.M3Report
import Tally.Spec.C13
import TallyProofs.Lemmas.Digits
import TallyProofs.Props.C16
/-!
# Lemmas about histogram bucket handles (ids, bounds) and about decoding the model's datagrams
-/
namespace Tally.M3
open Tally Tally.Thrift Tally.Statsd Tally.Lemmas.Digits

/-! ### bucket ids -/

theorem lt_pow_ndigits : ∀ n : Nat, n < 10 ^ (natDigits n).length := by
  apply digits_induction
  · intro n h; rw [natDigits_small h]; simpa using h
  · intro n h ih
    rw [natDigits_step h]
    simp only [List.length_append, List.length_cons, List.length_nil, Nat.pow_succ]
    omega

theorem lt_pow_idWidth (n : Nat) : n < 10 ^ idWidth n := by
  have h1 := lt_pow_ndigits n
  have h2 : (10 : Nat) ^ ndigits n ≤ 10 ^ idWidth n :=
    Nat.pow_le_pow_right (by decide) (by unfold idWidth; omega)
  unfold ndigits at h2
  omega

theorem idWidth_pos (n : Nat) : 0 < idWidth n := by unfold idWidth; omega

/-- the id of bucket `i` reads back as `i`, and all ids of one histogram have the same width -/
theorem bucketIdString_parse (len i : Nat) (h : i ≤ len) :
    Spec.C18.parseDigits (bucketIdString (idWidth len) i) = some i ∧
    (bucketIdString (idWidth len) i).length = idWidth len := by
  have hi : i < 10 ^ idWidth len := Nat.lt_of_le_of_lt h (lt_pow_idWidth len)
  exact ⟨parseDigits_padLeft0 _ _ (idWidth_pos len) hi,
    padLeft0_length (natDigits_length_le i _ hi (idWidth_pos len))⟩

theorem map_zipIdx_snd {α β : Type} (h : Nat → β) : ∀ (l : List α) (n : Nat),
    (l.zipIdx n).map (fun p => h p.2) = (List.range' n l.length).map h := by
  intro l
  induction l with
  | nil => intro n; simp
  | cons a t ih => intro n; simp [List.zipIdx_cons, List.range'_succ, ih]

theorem map_zipIdx_fst {α β : Type} (g : α → β) : ∀ (l : List α) (n : Nat),
    (l.zipIdx n).map (fun p => g p.1) = l.map g := by
  intro l
  induction l with
  | nil => intro n; simp
  | cons a t ih => intro n; simp [List.zipIdx_cons, ih]

theorem bucketHandles_length (cfg : Config) (charge : Proto → Metric → MetricTag → MetricTag → Nat)
    (name : Bytes) (mtags : List MetricTag) (spec : BucketSpec) :
    (bucketHandles cfg charge name mtags spec).length = (bucketRows cfg.prec spec).length := by
  simp [bucketHandles]

theorem bucketHandles_ids (cfg : Config) (charge : Proto → Metric → MetricTag → MetricTag → Nat)
    (name : Bytes) (mtags : List MetricTag) (spec : BucketSpec) :
    (bucketHandles cfg charge name mtags spec).map (·.idTag.value)
      = (List.range (bucketRows cfg.prec spec).length).map (bucketIdString (idWidth spec.len)) := by
  simp only [bucketHandles, List.map_map, Function.comp_def]
  rw [List.range_eq_range']
  exact map_zipIdx_snd (bucketIdString (idWidth spec.len)) _ 0

theorem bucketHandles_upperD (cfg : Config) (charge : Proto → Metric → MetricTag → MetricTag → Nat)
    (name : Bytes) (mtags : List MetricTag) (spec : BucketSpec) :
    (bucketHandles cfg charge name mtags spec).map (·.upperD) = (bucketRows cfg.prec spec).map (·.2.2) := by
  simp only [bucketHandles, List.map_map, Function.comp_def]
  exact map_zipIdx_fst (fun row : Bytes × F64 × Int => row.2.2) _ 0

theorem bucketHandles_upperV (cfg : Config) (charge : Proto → Metric → MetricTag → MetricTag → Nat)
    (name : Bytes) (mtags : List MetricTag) (spec : BucketSpec) :
    (bucketHandles cfg charge name mtags spec).map (·.upperV) = (bucketRows cfg.prec spec).map (·.2.1) := by
  simp only [bucketHandles, List.map_map, Function.comp_def]
  exact map_zipIdx_fst (fun row : Bytes × F64 × Int => row.2.1) _ 0

theorem lowers_length {α : Type} (first : α) (ups : List α) (h : ups ≠ []) :
    (lowers first ups).length = ups.length := by
  cases ups with
  | nil => exact absurd rfl h
  | cons a t => simp [lowers]

theorem bucketRows_durations (prec : Nat) (l : List Int) :
    (bucketRows prec (.durations l)).map (·.2.2) = Buckets.durationUppers l := by
  have hne : Buckets.durationUppers l ≠ [] := by simp [Buckets.durationUppers]
  simp only [bucketRows, List.map_map, Function.comp_def]
  have := List.map_snd_zip (l₁ := lowers minInt64 (Buckets.durationUppers l)) (l₂ := Buckets.durationUppers l)
    (by rw [lowers_length _ _ hne]; exact Nat.le_refl _)
  simpa [Function.comp_def] using this

theorem bucketRows_values (prec : Nat) (l : List F64) :
    (bucketRows prec (.values l)).map (·.2.1) = Buckets.valueUppers l := by
  have hne : Buckets.valueUppers l ≠ [] := by simp [Buckets.valueUppers]
  simp only [bucketRows, List.map_map, Function.comp_def]
  have := List.map_snd_zip (l₁ := lowers F64.negMaxFloat (Buckets.valueUppers l)) (l₂ := Buckets.valueUppers l)
    (by rw [lowers_length _ _ hne]; exact Nat.le_refl _)
  simpa [Function.comp_def] using this

theorem bucketRows_length (prec : Nat) (spec : BucketSpec) : (bucketRows prec spec).length = spec.len + 1 := by
  cases spec with
  | values l =>
    have hne : Buckets.valueUppers l ≠ [] := by simp [Buckets.valueUppers]
    have hl : (Buckets.valueUppers l).length = l.length + 1 := by
      simp [Buckets.valueUppers, Buckets.sortByKey]
    simp only [bucketRows, List.length_map, List.length_zip, lowers_length _ _ hne, hl, BucketSpec.len]
    omega
  | durations l =>
    have hne : Buckets.durationUppers l ≠ [] := by simp [Buckets.durationUppers]
    have hl : (Buckets.durationUppers l).length = l.length + 1 := by
      simp [Buckets.durationUppers, Buckets.sortByKey]
    simp only [bucketRows, List.length_map, List.length_zip, lowers_length _ _ hne, hl, BucketSpec.len]
    omega

/-- the stored duration bounds are sorted (for int64 bounds) -/
theorem durationUppers_sorted (l : List Int) (h : ∀ d ∈ l, d ≤ maxInt64) :
    (Buckets.durationUppers l).Pairwise (· ≤ ·) := by
  unfold Buckets.durationUppers Buckets.sortByKey
  rw [List.pairwise_append]
  refine ⟨?_, by simp, ?_⟩
  · have := List.pairwise_mergeSort (le := fun a b : Int => decide (id a ≤ id b))
      (fun a b c h1 h2 => by simp only [id, decide_eq_true_eq] at *; omega)
      (fun a b => by simp only [id, Bool.or_eq_true, decide_eq_true_eq]; omega) l
    exact this.imp (fun h => by simpa using h)
  · intro a ha b hb
    simp only [List.mem_singleton] at hb
    subst hb
    exact h a (List.mem_mergeSort.1 ha)

/-- the stored value bounds are sorted by their numeric key (for bounds up to `MaxFloat64`) -/
theorem valueUppers_sorted (l : List F64) (h : ∀ x ∈ l, F64.key x ≤ F64.key F64.maxFloat) :
    (Buckets.valueUppers l).Pairwise (fun a b => F64.key a ≤ F64.key b) := by
  unfold Buckets.valueUppers Buckets.sortByKey
  rw [List.pairwise_append]
  refine ⟨?_, by simp, ?_⟩
  · have := List.pairwise_mergeSort (le := fun a b : F64 => decide (F64.key a ≤ F64.key b))
      (fun a b c h1 h2 => by simp only [decide_eq_true_eq] at *; omega)
      (fun a b => by simp only [Bool.or_eq_true, decide_eq_true_eq]; omega) l
    exact this.imp (fun h => by simpa using h)
  · intro a ha b hb
    simp only [List.mem_singleton] at hb
    subst hb
    exact h a (List.mem_mergeSort.1 ha)

/-! ### decoding the model's datagrams -/

open Tally.Props.C16 in
theorem decodeOne_encMessage (p : Proto) (seq : Int) (hs : -2^31 ≤ seq ∧ seq < 2^31) (b : MetricBatch)
    (h : wfBatch b = true) : Spec.C13.decodeOne p (encMessage p seq b) = some (seq, b) := by
  have := roundtrip_message p seq hs b h []
  rw [List.append_nil] at this
  simp [Spec.C13.decodeOne, this, h]

/-- what the datagrams of `messagesFrom` decode to -/
def decsFrom (ct : List MetricTag) : Int → List (List Sized) → List (Option (Int × MetricBatch))
  | _, [] => []
  | seq, b :: rest => some (seq, batchOf ct b) :: decsFrom ct (seq + 1) rest

theorem decodeAll_messagesFrom (p : Proto) (ct : List MetricTag) : ∀ (bs : List (List Sized)) (seq : Int),
    (∀ b ∈ bs, wfBatch (batchOf ct b) = true) → 0 ≤ seq → seq + bs.length < 2^31 →
    Spec.C13.decodeAll p (messagesFrom p ct seq bs) = decsFrom ct seq bs := by
  intro bs
  induction bs with
  | nil => intro seq _ _ _; rfl
  | cons b rest ih =>
    intro seq hwf h0 hlt
    simp only [List.length_cons] at hlt
    have h1 := decodeOne_encMessage p seq ⟨by omega, by omega⟩ (batchOf ct b) (hwf b (by simp))
    have h2 := ih (seq + 1) (fun b' hb' => hwf b' (by simp [hb'])) (by omega) (by omega)
    simp only [Spec.C13.decodeAll] at h2 ⊢
    simp [messagesFrom, decsFrom, h1, h2]

theorem decsFrom_all_some (ct : List MetricTag) : ∀ (bs : List (List Sized)) (seq : Int),
    (decsFrom ct seq bs).all (·.isSome) = true := by
  intro bs
  induction bs with
  | nil => intro seq; rfl
  | cons b rest ih => intro seq; simp [decsFrom, ih]

theorem decsFrom_metrics (ct : List MetricTag) : ∀ (bs : List (List Sized)) (seq : Int),
    (decsFrom ct seq bs).flatMap Spec.C13.metricsOf = bs.flatten.map (·.m) := by
  intro bs
  induction bs with
  | nil => intro seq; rfl
  | cons b rest ih => intro seq; simp [decsFrom, batchOf, ih, Spec.C13.metricsOf]

theorem length_le_flatten {α : Type} : ∀ (bs : List (List α)), (∀ b ∈ bs, b ≠ []) →
    bs.length ≤ bs.flatten.length := by
  intro bs
  induction bs with
  | nil => intro _; simp
  | cons b rest ih =>
    intro h
    have hb : 0 < b.length := List.length_pos_iff.2 (h b (by simp))
    have := ih (fun b' hb' => h b' (by simp [hb']))
    simp only [List.length_cons, List.flatten_cons, List.length_append]
    omega

theorem length_le_flatten_of_mem {α : Type} : ∀ (bs : List (List α)) (b : List α), b ∈ bs →
    b.length ≤ bs.flatten.length := by
  intro bs
  induction bs with
  | nil => intro b h; simp at h
  | cons a rest ih =>
    intro b h
    simp only [List.mem_cons] at h
    simp only [List.flatten_cons, List.length_append]
    rcases h with h | h
    · subst h; omega
    · have := ih b h; omega

end Tally.M3
