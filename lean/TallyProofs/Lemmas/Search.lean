import Tally.Model.Buckets
/-! Go's `sort.Search` loop returns the least index of a predicate monotone on `[0, n)`. -/
namespace Tally.Buckets

/-- monotone on `[0, n)` -/
def MonoOn (n : Nat) (f : Nat → Bool) : Prop := ∀ a b, a ≤ b → b < n → f a = true → f b = true

theorem searchFrom_spec (n : Nat) (f : Nat → Bool) (hm : MonoOn n f) (i j : Nat) (hij : i ≤ j) (hjn : j ≤ n)
    (hlo : ∀ k, k < i → f k = false) :
    i ≤ searchFrom f i j ∧ searchFrom f i j ≤ j ∧ (∀ k, k < searchFrom f i j → f k = false)
      ∧ (∀ k, searchFrom f i j ≤ k → k < j → f k = true) := by
  induction h : j - i using Nat.strongRecOn generalizing i j with
  | _ d ih =>
    rw [searchFrom]
    split
    · next hlt =>
      simp only
      split
      · next hf =>
        have := ih ((i + j) / 2 - i) (by omega) i ((i + j) / 2) (by omega) (by omega) hlo rfl
        obtain ⟨h1, h2, h3, h4⟩ := this
        refine ⟨h1, by omega, h3, ?_⟩
        intro k hk1 hk2
        by_cases hkm : k < (i + j) / 2
        · exact h4 k hk1 hkm
        · exact hm _ _ (by omega) (by omega) hf
      · next hf =>
        have hf' : f ((i + j) / 2) = false := by simpa using hf
        have hlo' : ∀ k, k < (i + j) / 2 + 1 → f k = false := by
          intro k hk
          by_cases hkm : k = (i + j) / 2
          · subst hkm; exact hf'
          · cases hfk : f k with
            | false => rfl
            | true =>
              have := hm k ((i + j) / 2) (by omega) (by omega) hfk
              simp [hf'] at this
        have := ih (j - ((i + j) / 2 + 1)) (by omega) ((i + j) / 2 + 1) j (by omega) hjn hlo' rfl
        obtain ⟨h1, h2, h3, h4⟩ := this
        exact ⟨by omega, h2, h3, h4⟩
    · next hge =>
      exact ⟨Nat.le_refl _, hij, hlo, by intros; omega⟩

/-- `sort.Search(n, f)` is the least index in `[0, n)` with `f` true, or `n` if there is none. -/
theorem search_least (n : Nat) (f : Nat → Bool) (hm : MonoOn n f) :
    search n f ≤ n ∧ (∀ k, k < search n f → f k = false) ∧ (∀ k, search n f ≤ k → k < n → f k = true) := by
  have := searchFrom_spec n f hm 0 n (Nat.zero_le _) (Nat.le_refl _) (by intro k hk; omega)
  exact ⟨this.2.1, this.2.2.1, this.2.2.2⟩

end Tally.Buckets
