import TallyProofs.Lemmas.ScopeSteps
/-!
# Everything the scope model stores or hands to a reporter is built from sanitizer outputs (C06, end to end)

The invariant is proved for three abstract predicates `PN`, `PK`, `PV` on byte strings ("clean name",
"clean tag key", "clean tag value") about which only `SanOK` is assumed: the configured sanitizers produce
clean strings, and clean names are closed under `++`.  `TallyProofs/Props/C06.lean` instantiates them with
"every rune is allowed or is the replacement rune".

`StOK st`: the separator, the prefix / tags / stored metric names of every scope, and the identity stored in
every timer handle are clean.  `step_ok`: every `step` keeps `StOK` and emits only clean events.
No registry invariant and no `SanDistinct` hypothesis is needed: cleanliness is a property of the single
entries of a tag map, and every entry of an overlay `canon maps` is an entry of one of the maps.

Core Lean only.
-/
namespace Tally.Scope
open Tally Tally.KeyGen

section
variable (PN PK PV : Bytes → Prop)

/-- every key and every value of the tag map is clean -/
def TagsOK (t : TagMap) : Prop := ∀ kv ∈ t, PK kv.1 ∧ PV kv.2

/-- prefix, tags and the stored name of every metric of the scope are clean -/
def ScopeOK (s : ScopeS) : Prop :=
  PN s.pfx ∧ TagsOK PK PV s.tags ∧ ∀ x ∈ s.metrics, PN (metricName x.2)

/-- the name and the tags carried by the event (if it carries any) are clean -/
def EventOK (e : Event) : Prop :=
  ∀ n t, eventNameTags e = some (n, t) → PN n ∧ TagsOK PK PV t

/-- every string of the state that can ever reach a reporter is clean -/
structure StOK (st : St) : Prop where
  sep : PN st.sep
  scopes : ∀ s ∈ st.scopes, ScopeOK PN PK PV s
  timers : ∀ x ∈ st.timers, PN x.2.1 ∧ TagsOK PK PV x.2.2

/-- what is assumed about the predicates: the configured sanitizers establish them, names concatenate -/
structure SanOK (cfg : Cfg) : Prop where
  name : ∀ s, PN (sanName cfg s)
  key : ∀ s, PK (sanKey cfg s)
  value : ∀ s, PV (sanValue cfg s)
  cat : ∀ a b, PN a → PN b → PN (a ++ b)

/-- result of an operation: new state fine, events fine -/
def ResOK (r : St × Out) : Prop :=
  StOK PN PK PV r.1 ∧ ∀ e ∈ outEvents r.2, EventOK PN PK PV e

end

section
variable {PN PK PV : Bytes → Prop}

local notation "TOK" => TagsOK PK PV
local notation "SCOK" => ScopeOK PN PK PV
local notation "EOK" => EventOK PN PK PV
local notation "STOK" => StOK PN PK PV
local notation "SANOK" => SanOK PN PK PV
local notation "ROK" => ResOK PN PK PV

/-! ## strings -/

theorem fqn_ok (hcat : ∀ a b, PN a → PN b → PN (a ++ b)) {sep pfx n : Bytes}
    (hs : PN sep) (hp : PN pfx) (hn : PN n) : PN (fqn sep pfx n) := by
  unfold fqn
  split
  · exact hn
  · exact hcat _ _ (hcat _ _ hp hs) hn

theorem tagsOK_canon {maps : List TagMap} (h : ∀ m ∈ maps, TOK m) : TOK (canon maps) := by
  intro kv hkv
  obtain ⟨m, hm, hmem⟩ := mem_canon hkv
  exact h m hm kv hmem

theorem tagsOK_sanMap {cfg : Cfg} (hk : ∀ s, PK (sanKey cfg s)) (hv : ∀ s, PV (sanValue cfg s))
    (m : TagMap) : TOK (sanMap cfg m) := by
  rw [sanMap_eq]
  apply tagsOK_canon
  intro m' hm'
  simp only [List.mem_singleton] at hm'
  subst hm'
  intro kv hkv
  obtain ⟨x, _, rfl⟩ := List.mem_map.mp hkv
  exact ⟨hk _, hv _⟩

theorem tagsOK_merge {a b : TagMap} (ha : TOK a) (hb : TOK b) : TOK (mergeTags a b) := by
  unfold mergeTags
  apply tagsOK_canon
  intro m hm
  simp only [List.mem_cons, List.not_mem_nil, or_false] at hm
  rcases hm with rfl | rfl
  · exact ha
  · exact hb

/-- metric lists with the same (or fewer) signatures have clean names if the original has -/
theorem names_of_sigs {ms ms0 : List (Nat × Metric)} (h : ∀ y ∈ ms.map msig, y ∈ ms0.map msig)
    (h0 : ∀ x ∈ ms0, PN (metricName x.2)) : ∀ x ∈ ms, PN (metricName x.2) := by
  intro x hx
  obtain ⟨y, hy, e⟩ := List.mem_map.mp (h _ (List.mem_map.mpr ⟨x, hx, rfl⟩))
  have e' : metricName y.2 = metricName x.2 := congrArg (fun z : Nat × String × Bytes => z.2.2) e
  rw [← e']
  exact h0 y hy

/-! ## state updates -/

theorem StOK.getScope {st : St} (h : STOK st) {sid : Nat} {s : ScopeS}
    (hg : getScope st sid = some s) : SCOK s :=
  h.scopes s (List.mem_of_getElem? hg)

theorem stOK_setScope {st : St} (h : STOK st) (sid : Nat) {s' : ScopeS} (hs : SCOK s') :
    STOK (setScope st sid s') := by
  refine ⟨h.sep, ?_, h.timers⟩
  intro s hmem
  rcases List.mem_or_eq_of_mem_set hmem with h1 | h1
  · exact h.scopes s h1
  · rw [h1]; exact hs

theorem stOK_of_eq {st st' : St} (h : STOK st) (h1 : st'.sep = st.sep) (h2 : st'.scopes = st.scopes)
    (h3 : st'.timers = st.timers) : STOK st' :=
  ⟨by rw [h1]; exact h.sep, by rw [h2]; exact h.scopes, by rw [h3]; exact h.timers⟩

theorem stOK_regRemove {st : St} (h : STOK st) (sh : Nat) (k : Bytes) (sid : Nat) :
    STOK (regRemove st sh k sid) := stOK_of_eq h rfl rfl rfl

theorem stOK_regAdd {st : St} (h : STOK st) (sh : Nat) (k : Bytes) (sid : Nat) :
    STOK (regAdd st sh k sid) := stOK_of_eq h (by simp) (regAdd_scopes _ _ _ _) (by simp)

theorem scopeOK_clear {s : ScopeS} (hs : SCOK s) : SCOK { s with metrics := [] } :=
  ⟨hs.1, hs.2.1, fun _ hx => by cases hx⟩

theorem stOK_clearRemove {st : St} (h : STOK st) {sid : Nat} {s : ScopeS}
    (hg : getScope st sid = some s) (sh : Nat) (k1 k2 : Bytes) :
    STOK (regRemove (regRemove (setScope st sid { s with metrics := [] }) sh k1 sid) sh k2 sid) :=
  stOK_of_eq (stOK_setScope h sid (scopeOK_clear (h.getScope hg))) rfl rfl rfl

theorem stOK_createF {st2 : St} (h : STOK st2) {ns : ScopeS} (hns : SCOK ns) (sh : Nat)
    (rawKey sKey : Bytes) : STOK (createF st2 ns sh rawKey sKey) := by
  unfold createF
  have h1 : STOK { st2 with scopes := st2.scopes ++ [ns] } := by
    refine ⟨h.sep, ?_, h.timers⟩
    intro s hs
    rcases List.mem_append.mp hs with h1 | h1
    · exact h.scopes s h1
    · simp only [List.mem_singleton] at h1
      subst h1
      exact hns
  exact stOK_regAdd (stOK_regAdd h1 _ _ _) _ _ _

theorem resOK_nil {st : St} (h : STOK st) {o : Out} (ho : outEvents o = []) : ROK (st, o) :=
  ⟨h, fun e he => by
    have he' : e ∈ outEvents o := he
    rw [ho] at he'; cases he'⟩

/-! ## reporting -/

theorem reportScope_ok (hcat : ∀ a b, PN a → PN b → PN (a ++ b)) {sep : Bytes} {s : ScopeS}
    (hsep : PN sep) (hs : SCOK s) :
    SCOK (reportScope sep s).1 ∧ ∀ e ∈ (reportScope sep s).2, EOK e := by
  obtain ⟨hp, ht, hm⟩ := hs
  refine ⟨⟨hp, ht, ?_⟩, ?_⟩
  · apply names_of_sigs _ hm
    intro y hy
    rw [reportScope_sigs] at hy
    exact hy
  · intro e he n t hnt
    obtain ⟨x, hx, hev⟩ := reportScope_events sep s e he
    rw [hev] at hnt
    simp only [Option.some.injEq, Prod.mk.injEq] at hnt
    obtain ⟨rfl, rfl⟩ := hnt
    exact ⟨fqn_ok hcat hsep hp (hm x hx), ht⟩

theorem passEntries_ok (hcat : ∀ a b, PN a → PN b → PN (a ++ b)) :
    ∀ (entries : List ((Nat × Bytes) × Nat)) (st : St), STOK st →
      STOK (passEntries st entries).1 ∧ ∀ e ∈ (passEntries st entries).2, EOK e
  | [], st, h => ⟨h, fun e he => by simp [passEntries] at he⟩
  | ((sh, k), sid) :: rest, st, h => by
    cases hg : getScope st sid with
    | none =>
      rw [passEntries_cons_none rest hg]
      exact passEntries_ok hcat rest st h
    | some s =>
      obtain ⟨hs1, hev⟩ := reportScope_ok hcat h.sep (h.getScope hg)
      have hst : STOK (if s.closed then
            setScope (regRemove (setScope st sid (reportScope st.sep s).1) sh k sid) sid
              { (reportScope st.sep s).1 with metrics := [] }
           else setScope st sid (reportScope st.sep s).1) := by
        split
        · exact stOK_setScope (stOK_regRemove (stOK_setScope h sid hs1) _ _ _) sid (scopeOK_clear hs1)
        · exact stOK_setScope h sid hs1
      obtain ⟨ih1, ih2⟩ := passEntries_ok hcat rest _ hst
      refine ⟨?_, ?_⟩
      · rw [passEntries_cons_some rest hg]
        exact ih1
      · rw [passEntries_cons_some_snd rest hg]
        intro e he
        rcases List.mem_append.mp he with h1 | h1
        · exact hev e h1
        · exact ih2 e h1

theorem eventOK_flush : EOK Event.flush := fun _ _ h => by cases h
theorem eventOK_close : EOK Event.close := fun _ _ h => by cases h

theorem reportPass_ok (hcat : ∀ a b, PN a → PN b → PN (a ++ b)) {st : St} (h : STOK st) :
    STOK (reportPass st).1 ∧ ∀ e ∈ (reportPass st).2, EOK e := by
  unfold reportPass
  split
  · exact ⟨h, fun e he => by cases he⟩
  · obtain ⟨h1, h2⟩ := passEntries_ok hcat st.reg st h
    refine ⟨h1, ?_⟩
    intro e he
    rcases List.mem_append.mp he with h3 | h3
    · exact h2 e h3
    · simp only [List.mem_singleton] at h3
      subst h3
      exact eventOK_flush

/-! ## SubScope / Tagged -/

theorem subscope_ok {st : St} (hsan : SANOK st.cfg) (h : STOK st) (parent : Nat) {pfx : Bytes}
    (hp : PN pfx) (tags : TagMap) (sh : Nat) : ROK (subscope st parent pfx tags sh) := by
  rw [subscope_eq]
  cases hpar : getScope st parent with
  | none => exact resOK_nil h rfl
  | some p =>
    simp only
    split
    · exact resOK_nil h rfl
    · have hns : SCOK { pfx := pfx, tags := mergeTags p.tags (sanMap st.cfg tags), closed := false,
                        isRoot := false, metrics := [] } :=
        ⟨hp, tagsOK_merge (h.getScope hpar).2.1 (tagsOK_sanMap hsan.key hsan.value tags),
          fun _ hx => by cases hx⟩
      have hrest : ∀ st1 evs1, STOK st1 → (∀ e ∈ evs1, EOK e) →
          ROK
            (match relookF st1 sh (key pfx [p.tags, tags]) (key pfx [p.tags, sanMap st.cfg tags]) with
              | (some sid, st2, evs2) => (st2, Out.scope (some sid) (evs1 ++ evs2))
              | (none, st2, evs2) =>
                (createF st2 { pfx := pfx, tags := mergeTags p.tags (sanMap st.cfg tags), closed := false,
                               isRoot := false, metrics := [] } sh
                    (key pfx [p.tags, tags]) (key pfx [p.tags, sanMap st.cfg tags]),
                  Out.scope (some st2.scopes.length) (evs1 ++ evs2))) := by
        intro st1 evs1 h1 hev1
        rcases relookF_cases st1 sh (key pfx [p.tags, tags]) (key pfx [p.tags, sanMap st.cfg tags]) with
          ⟨sid, s, _, _, he⟩ | ⟨sid, s, evs, _, hg, _, hev, he⟩ | ⟨_, he⟩
        · rw [he]
          refine ⟨stOK_regAdd h1 _ _ _, ?_⟩
          intro e hmem
          simp only [outEvents, List.append_nil] at hmem
          exact hev1 e hmem
        · rw [he]
          refine ⟨stOK_createF (stOK_clearRemove h1 hg _ _ _) hns _ _ _, ?_⟩
          intro e hmem
          simp only [outEvents] at hmem
          rcases List.mem_append.mp hmem with h2 | h2
          · exact hev1 e h2
          · exact (reportScope_ok hsan.cat h1.sep (h1.getScope hg)).2 e (hev e h2)
        · rw [he]
          refine ⟨stOK_createF h1 hns _ _ _, ?_⟩
          intro e hmem
          simp only [outEvents, List.append_nil] at hmem
          exact hev1 e hmem
      rcases probeF_cases st sh (key pfx [p.tags, tags]) (key pfx [p.tags, sanMap st.cfg tags]) with
        ⟨sid, s, _, _, _, he⟩ | ⟨sid, s, evs, _, hg, _, hev, he⟩ | ⟨_, he⟩
      · rw [he]
        exact resOK_nil h rfl
      · rw [he]
        exact hrest _ evs (stOK_clearRemove h hg _ _ _)
          (fun e h2 => (reportScope_ok hsan.cat h.sep (h.getScope hg)).2 e (hev e h2))
      · rw [he]
        exact hrest st [] h (fun e h2 => by cases h2)

/-! ## metrics -/

theorem getMetric_ok {st : St} (hsan : SANOK st.cfg) (h : STOK st) (sid : Nat) (kind : String)
    (raw : Bytes) (mk : Bytes → Metric) (hmk : ∀ n, metricName (mk n) = n) :
    ROK (getMetric st sid kind raw mk) := by
  unfold getMetric
  cases hg : getScope st sid with
  | none => exact resOK_nil h rfl
  | some s =>
    simp only
    have hs := h.getScope hg
    split
    · exact resOK_nil h rfl
    · refine ⟨?_, ?_⟩
      · have hs' : SCOK { s with metrics := s.metrics ++ [(st.nextMetric, mk (sanName st.cfg raw))] } := by
          refine ⟨hs.1, hs.2.1, ?_⟩
          intro x hx
          rcases List.mem_append.mp hx with h1 | h1
          · exact hs.2.2 x h1
          · simp only [List.mem_singleton] at h1
            subst h1
            simp only [hmk]
            exact hsan.name raw
        exact stOK_of_eq (stOK_setScope h sid hs') rfl rfl rfl
      · simp only [outEvents]
        split
        · intro e he n t hnt
          simp only [List.mem_singleton] at he
          subst he
          simp only [eventNameTags, Option.some.injEq, Prod.mk.injEq] at hnt
          obtain ⟨rfl, rfl⟩ := hnt
          exact ⟨fqn_ok hsan.cat h.sep hs.1 (hsan.name raw), hs.2.1⟩
        · intro e he
          cases he

theorem updMetric_go_ok (mid : Nat) (f : ScopeS → Metric → Metric × List Event)
    (hf : ∀ s m, metricName (f s m).1 = metricName m) :
    ∀ (scs : List ScopeS) (j i : Nat) (s' : ScopeS) (evs : List Event), (∀ s ∈ scs, SCOK s) →
      updMetric.go mid f j scs = some (i, s', evs) → SCOK s'
  | [], j, i, s', evs, _, h => by simp [updMetric.go] at h
  | s :: rest, j, i, s', evs, hok, h => by
    unfold updMetric.go at h
    split at h
    · next x m hfind =>
      simp only [Option.some.injEq, Prod.mk.injEq] at h
      obtain ⟨-, rfl, -⟩ := h
      have hs := hok s List.mem_cons_self
      have hmem := List.mem_of_find?_eq_some hfind
      refine ⟨hs.1, hs.2.1, ?_⟩
      intro y hy
      obtain ⟨z, hz, rfl⟩ := List.mem_map.mp hy
      obtain ⟨a, b⟩ := z
      simp only
      split
      · simp only [hf]
        exact hs.2.2 _ hmem
      · exact hs.2.2 _ hz
    · exact updMetric_go_ok mid f hf rest (j + 1) i s' evs
        (fun s hs => hok s (List.mem_cons_of_mem _ hs)) h

theorem updMetric_ok {st : St} (h : STOK st) (mid : Nat) (f : ScopeS → Metric → Metric × List Event)
    (hf : ∀ s m, metricName (f s m).1 = metricName m ∧ (f s m).2 = []) :
    ROK (updMetric st mid f) := by
  refine ⟨?_, ?_⟩
  · unfold updMetric
    split
    · next i s' evs hgo =>
      exact stOK_setScope h i
        (updMetric_go_ok mid f (fun s m => (hf s m).1) st.scopes 0 i s' evs h.scopes hgo)
    · exact h
  · rw [updMetric_events st mid f (fun s m => (hf s m).2)]
    intro e he
    cases he

theorem purgeFrom_ok (regd : List Nat) : ∀ (l : List ScopeS) (i : Nat), (∀ s ∈ l, SCOK s) →
    ∀ s ∈ purgeFrom regd i l, SCOK s
  | [], _, _, s, hs => by simp [purgeFrom] at hs
  | x :: xs, i, h, s, hs => by
    simp only [purgeFrom, List.mem_cons] at hs
    rcases hs with rfl | hs
    · have hx := h x List.mem_cons_self
      split
      · exact ⟨hx.1, hx.2.1, fun _ hy => by cases hy⟩
      · exact hx
    · exact purgeFrom_ok regd xs (i + 1) (fun s hs => h s (List.mem_cons_of_mem _ hs)) s hs

/-! ## every operation -/

/-- **one step**: from a clean state every operation leads to a clean state and emits only clean events -/
theorem step_ok {st : St} (hsan : SANOK st.cfg) (h : STOK st) (op : Op) : ROK (step st op) := by
  cases op with
  | sub p name sh =>
    simp only [step]
    cases hg : getScope st p with
    | none => exact resOK_nil h rfl
    | some ps =>
      exact subscope_ok hsan h p (fqn_ok hsan.cat h.sep (h.getScope hg).1 (hsan.name name)) [] sh
  | tagged p tags sh =>
    simp only [step]
    cases hg : getScope st p with
    | none => exact resOK_nil h rfl
    | some ps => exact subscope_ok hsan h p (h.getScope hg).1 tags sh
  | counter s n => exact getMetric_ok hsan h s _ n _ (fun _ => rfl)
  | gauge s n => exact getMetric_ok hsan h s _ n _ (fun _ => rfl)
  | timer s n =>
    obtain ⟨h1, h2⟩ := getMetric_ok hsan h s "timer" n (fun n => .timer n []) (fun _ => rfl)
    refine ⟨?_, by rw [step_timer_snd]; exact h2⟩
    simp only [step]
    split
    · next id evs sc hout hsc =>
      split
      · exact h1
      · refine ⟨h1.sep, h1.scopes, ?_⟩
        intro x hx
        rcases List.mem_cons.mp hx with rfl | hx
        · exact ⟨fqn_ok hsan.cat h.sep (h.getScope hsc).1 (hsan.name n), (h.getScope hsc).2.1⟩
        · exact h1.timers x hx
    · exact h1
  | hist s n spec => exact getMetric_ok hsan h s _ n _ (fun _ => rfl)
  | inc m v => exact updMetric_ok h m _ (by intro s x; cases x <;> exact ⟨rfl, rfl⟩)
  | upd m v => exact updMetric_ok h m _ (by intro s x; cases x <;> exact ⟨rfl, rfl⟩)
  | record m d =>
    simp only [step]
    split
    · exact updMetric_ok h m _ (by intro s x; cases x <;> exact ⟨rfl, rfl⟩)
    · split
      · next nm tg hl =>
        refine ⟨h, ?_⟩
        intro e he
        simp only [outEvents, List.mem_singleton] at he
        subst he
        intro n t hnt
        simp only [eventNameTags, Option.some.injEq, Prod.mk.injEq] at hnt
        obtain ⟨rfl, rfl⟩ := hnt
        exact h.timers (m, (nm, tg)) (mem_of_lookup_eq_some hl)
      · exact resOK_nil h rfl
  | recv m v =>
    refine updMetric_ok h m _ ?_
    intro s x
    cases x with
    | hist n hh => simp only; split <;> exact ⟨rfl, rfl⟩
    | _ => exact ⟨rfl, rfl⟩
  | recd m d =>
    refine updMetric_ok h m _ ?_
    intro s x
    cases x with
    | hist n hh => simp only; split <;> exact ⟨rfl, rfl⟩
    | _ => exact ⟨rfl, rfl⟩
  | report =>
    simp only [step]
    split
    · exact resOK_nil h rfl
    · exact reportPass_ok hsan.cat h
  | close sid =>
    simp only [step]
    cases hg : getScope st sid with
    | none => exact resOK_nil h rfl
    | some s =>
      simp only
      have hs := h.getScope hg
      have h1 : STOK (setScope st sid { s with closed := true }) :=
        stOK_setScope h sid ⟨hs.1, hs.2.1, hs.2.2⟩
      split
      · exact resOK_nil h rfl
      · split
        · exact resOK_nil h1 rfl
        · have h2 : STOK { setScope st sid { s with closed := true } with rootClosed := true } :=
            ⟨h1.sep, h1.scopes, h1.timers⟩
          split
          · exact resOK_nil h2 rfl
          · obtain ⟨h3, hev⟩ := reportPass_ok hsan.cat h2
            refine ⟨⟨h3.sep, purgeFrom_ok _ _ 0 h3.scopes, h3.timers⟩, ?_⟩
            intro e he
            simp only [outEvents] at he
            rcases List.mem_append.mp he with h4 | h4
            · exact hev e h4
            · split at h4
              · simp only [List.mem_singleton] at h4
                subst h4
                exact eventOK_close
              · cases h4

/-! ## the root and every reachable state -/

theorem mkRoot_ok {cfg : Cfg} (hsan : SANOK cfg) (pfx sep : Bytes) (tags : TagMap) :
    STOK (mkRoot cfg pfx sep tags) := by
  refine ⟨hsan.name _, ?_, fun _ hx => by cases hx⟩
  intro s hs
  simp only [mkRoot, List.mem_singleton] at hs
  subst hs
  exact ⟨hsan.name _, tagsOK_sanMap hsan.key hsan.value tags, fun _ hx => by cases hx⟩

theorem runOps_ok {cfg : Cfg} {pfx sep : Bytes} {tags : TagMap} (hsan : SANOK cfg) :
    ∀ (ops : List Op) (st : St), Reach cfg pfx sep tags st → STOK st → STOK (runOps st ops)
  | [], _, _, h => h
  | op :: ops, st, hr, h => by
    have hsan' : SANOK st.cfg := by rw [reach_cfg hr]; exact hsan
    exact runOps_ok hsan ops (step st op).1 (hr.step op) (step_ok hsan' h op).1

/-- every reachable state is clean (plain `Reach`: every program, no side condition on `Tagged` maps) -/
theorem reach_ok {cfg : Cfg} {pfx sep : Bytes} {tags : TagMap} {st : St} (hsan : SANOK cfg)
    (hr : Reach cfg pfx sep tags st) : STOK st := by
  obtain ⟨ops, rfl⟩ := hr
  exact runOps_ok hsan ops _ (Reach.root cfg pfx sep tags) (mkRoot_ok hsan pfx sep tags)

/-- every event of every operation in every reachable state is clean -/
theorem reach_events_ok {cfg : Cfg} {pfx sep : Bytes} {tags : TagMap} {st : St} (hsan : SANOK cfg)
    (hr : Reach cfg pfx sep tags st) (op : Op) : ∀ e ∈ outEvents (step st op).2, EOK e := by
  have hsan' : SANOK st.cfg := by rw [reach_cfg hr]; exact hsan
  exact (step_ok hsan' (reach_ok hsan hr) op).2

end

end Tally.Scope
