import TallyProofs.Lemmas.ScopeLifeFam
/-!
# `registry.purge()` on the shard: what it does to scopes and tokens, and that it preserves the (shadow) invariant
-/
namespace Tally.Registry
open Tally.ScopeLife (purgeReg purgeScopes purgedToks isReg purgeScope)

variable {san : Nat → Nat}

theorem isReg_iff {reg : List (Nat × Nat)} {sid : Nat} : isReg reg sid = true ↔ ∃ k, (k, sid) ∈ reg := by
  simp only [isReg, List.any_eq_true, beq_iff_eq]
  constructor
  · rintro ⟨⟨k, v⟩, hm, rfl⟩; exact ⟨k, hm⟩
  · rintro ⟨k, hm⟩; exact ⟨(k, sid), hm, rfl⟩

theorem getElem?_purgeScopes (reg : List (Nat × Nat)) (i : Nat) (l : List ScopeS) (j : Nat) :
    (purgeScopes reg i l)[j]? = (l[j]?).map fun x => if isReg reg (i + j) then purgeScope x else x := by
  induction l generalizing i j with
  | nil => simp [purgeScopes]
  | cons a l ih =>
    cases j with
    | zero => simp [purgeScopes]
    | succ m =>
      simp only [purgeScopes, List.getElem?_cons_succ, ih]
      have : i + 1 + m = i + (m + 1) := by omega
      rw [this]

theorem length_purgeScopes (reg : List (Nat × Nat)) (i : Nat) (l : List ScopeS) :
    (purgeScopes reg i l).length = l.length := by
  induction l generalizing i with
  | nil => rfl
  | cons a l ih => simp [purgeScopes, ih]

/-- the purge moves tokens from cells to the cleared-away list, nothing else -/
theorem idc_purge (q : Token → Bool) (reg : List (Nat × Nat)) (i : Nat) (l : List ScopeS) :
    idc q (cells (purgeScopes reg i l)) + idc q (purgedToks reg i l) = idc q (cells l) := by
  induction l generalizing i with
  | nil => simp [purgeScopes, purgedToks]
  | cons a l ih =>
    have := ih (i + 1)
    simp only [purgeScopes, purgedToks, cells_cons, idc_append]
    split
    · simp only [purgeScope, idc_nil]; omega
    · simp only [idc_nil]; omega

theorem mem_purgedToks {reg : List (Nat × Nat)} {i : Nat} {l : List ScopeS} {tok : Token}
    (h : tok ∈ purgedToks reg i l) : ∃ (j : Nat) (x : ScopeS), l[j]? = some x ∧ isReg reg (i + j) = true ∧ tok ∈ x.cell := by
  induction l generalizing i with
  | nil => simp [purgedToks] at h
  | cons a l ih =>
    simp only [purgedToks, List.mem_append] at h
    rcases h with h | h
    · split at h
      · next hr => exact ⟨0, a, rfl, hr, h⟩
      · cases h
    · obtain ⟨j, x, hx, hr, hm⟩ := ih h
      refine ⟨j + 1, x, by simpa using hx, ?_, hm⟩
      have : i + (j + 1) = i + 1 + j := by omega
      rw [this]; exact hr

theorem idc_byId_map_er (n : Nat) (l : List Token) : idc (byId n) (l.map er) = idc (byId n) l := by
  induction l with
  | nil => rfl
  | cons a l ih => simp [idc_cons, ih, byId, er]

theorem noPre_map_er (l : List Token) : NoPre (l.map er) := by
  intro tok hm
  obtain ⟨a, _, rfl⟩ := List.mem_map.mp hm
  rfl

@[simp] theorem purgeReg_pcs (r : State) : (purgeReg r).pcs = r.pcs := rfl
@[simp] theorem purgeReg_readers (r : State) : (purgeReg r).readers = r.readers := rfl
@[simp] theorem purgeReg_delivered (r : State) : (purgeReg r).delivered = r.delivered := rfl
@[simp] theorem purgeReg_nextToken (r : State) : (purgeReg r).nextToken = r.nextToken := rfl
@[simp] theorem purgeReg_reg (r : State) : (purgeReg r).reg = [] := rfl
theorem purgeReg_scopes (r : State) : (purgeReg r).scopes = purgeScopes r.reg 0 r.scopes := rfl
theorem purgeReg_dropped (r : State) : (purgeReg r).dropped = purgedToks r.reg 0 r.scopes ++ r.dropped := rfl

theorem scopeOf_purgeReg (r : State) (sid : Nat) :
    scopeOf (purgeReg r) sid = (scopeOf r sid).map fun x => if isReg r.reg sid then purgeScope x else x := by
  show (purgeScopes r.reg 0 r.scopes)[sid]? = _
  rw [getElem?_purgeScopes, Nat.zero_add]; rfl

theorem scopeLe_purge (r : State) : ScopeLe (shadow r) (shadow (purgeReg r)) := by
  intro sid x hx
  have hx0 : scopeOf r sid = some x := hx
  refine ⟨if isReg r.reg sid then purgeScope x else x, ?_, ?_, ?_⟩
  · show scopeOf (purgeReg r) sid = _
    rw [scopeOf_purgeReg, hx0]; rfl
  · split <;> rfl
  · intro hc
    split
    · exact ⟨rfl, fun _ => NoPre_nil⟩
    · exact ⟨hc, id⟩

/-- **the purge preserves the Registry invariant of the shadow state** -/
theorem inv_purge {r : State} (h : Inv san (shadow r)) : Inv san (shadow (purgeReg r)) := by
  have hle := scopeLe_purge r
  refine ⟨h.sanIdem, h.nodup, h.readersOk, fun t => PcInv.mono hle (h.pcInv t), ?_, ?_⟩
  · have hs := h.static
    have key : ∀ (sid : Nat) (x' : ScopeS), (purgeScopes r.reg 0 r.scopes)[sid]? = some x' →
        ∃ x, r.scopes[sid]? = some x ∧ x' = if isReg r.reg sid then purgeScope x else x := by
      intro sid x' hx'
      rw [getElem?_purgeScopes, Nat.zero_add] at hx'
      cases hx : r.scopes[sid]? with
      | none => rw [hx] at hx'; cases hx'
      | some x => rw [hx] at hx'; exact ⟨x, rfl, (Option.some.inj hx').symm⟩
    refine ⟨?_, ?_, ?_, ?_, ?_, ?_, ?_⟩
    · intro sid x' hx' tok hm
      obtain ⟨x, hx, rfl⟩ := key sid x' hx'
      split at hm
      · cases hm
      · exact hs.cellScope sid x hx tok hm
    · intro sid x' hx' hc
      obtain ⟨x, hx, rfl⟩ := key sid x' hx'
      split
      · exact ⟨rfl, rfl⟩
      · next hr => rw [if_neg hr] at hc; exact hs.clearedOk sid x hx hc
    · intro sid x' hx' hc
      obtain ⟨x, hx, rfl⟩ := key sid x' hx'
      split at hc
      · cases hc
      · next hr =>
        have := hs.liveReg sid x hx hc
        exact absurd (isReg_iff.mpr ⟨_, mem_of_lookup this⟩) hr
    · intro k v hm; cases hm
    · exact List.nodup_nil
    · intro t sid hm
      show sid < (purgeScopes r.reg 0 r.scopes).length
      rw [length_purgeScopes]; exact hs.handed t sid hm
    · exact noPre_map_er _
  · intro n
    have h1 := h.tokens n
    rw [allTokens_idc] at h1 ⊢
    have h2 := idc_purge (byId n) r.reg 0 r.scopes
    show idc (byId n) r.delivered + idc (byId n) (cells (purgeScopes r.reg 0 r.scopes)) + idc (byId n) (pend r.pcs)
      + idc (byId n) ((purgedToks r.reg 0 r.scopes ++ r.dropped).map er) = _
    have h3 : idc (byId n) (shadow r).dropped = idc (byId n) r.dropped := idc_byId_map_er n r.dropped
    rw [idc_byId_map_er, idc_append]
    change idc (byId n) r.delivered + idc (byId n) (cells r.scopes) + idc (byId n) (pend r.pcs)
      + idc (byId n) (shadow r).dropped = _ at h1
    rw [h3] at h1
    show _ = if n < r.nextToken then 1 else 0
    change _ = if n < r.nextToken then 1 else 0 at h1
    omega

/-- with the write lock free of readers nobody holds a pending delta -/
theorem pending_nil_of_no_readers {s : State} (h : Inv san s) (hr : s.readers = []) : allPending s = [] := by
  rw [allPending_eq]
  have key : ∀ q ∈ s.pcs, pendingOf q.2 = [] := by
    intro q hq
    obtain ⟨t, p⟩ := q
    have hl : s.pcs.lookup t = some p := by
      have hnd := h.nodup
      generalize s.pcs = l at hnd hq
      induction l with
      | nil => cases hq
      | cons a l ih =>
        obtain ⟨k, v⟩ := a
        simp only [List.map_cons, List.nodup_cons] at hnd
        rcases List.mem_cons.mp hq with he | hq'
        · cases he; simp [List.lookup]
        · have hne : t ≠ k := by
            intro e; subst e
            exact hnd.1 (List.mem_map.mpr ⟨(t, p), hq', rfl⟩)
          have : (t == k) = false := by simp [hne]
          simp only [List.lookup, this]
          exact ih hnd.2 hq'
    have hpc : pcOf s t = p := by simp [pcOf, hl]
    have hnr : holdsR p = false := by
      cases hh : holdsR p with
      | false => rfl
      | true =>
        have := (h.readersOk t).mpr (by rw [hpc]; exact hh)
        rw [hr] at this; cases this
    cases p <;> first | rfl | (simp [holdsR] at hnr)
  generalize s.pcs = l at key
  induction l with
  | nil => rfl
  | cons a l ih =>
    rw [pend_cons, key a (List.mem_cons_self ..), List.nil_append]
    exact ih fun q hq => key q (List.mem_cons_of_mem _ hq)

end Tally.Registry
