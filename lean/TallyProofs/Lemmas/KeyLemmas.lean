import Tally.Model.KeyGen
import Batteries.Data.List.Basic -- only for the definition of `List.Forall₂`
/-!
# Helper lemmas for C05 (key function).  Core Lean only.

* escaping: `esc` followed by an unescaped delimiter parses back uniquely
* `bytesLt` is a strict total order, `insertionSort` sorts and permutes
* `writeKeys` on a sorted list renders the canonical assignment
* `render` is injective, `canon` is invariant under map enumeration order and idempotent
-/
namespace Tally.KeyGen
open Tally

/-! ## escaping -/

/-- the three unescaped delimiters of the key format -/
def IsDelim (d : UInt8) : Prop := d = plus ∨ d = comma ∨ d = eqSign

theorem IsDelim.special {d : UInt8} (h : IsDelim d) : isSpecial d = true := by
  rcases h with rfl | rfl | rfl <;> decide

theorem IsDelim.ne_bslash {d : UInt8} (h : IsDelim d) : d ≠ bslash := by
  rcases h with rfl | rfl | rfl <;> decide

theorem isDelim_plus : IsDelim plus := .inl rfl
theorem isDelim_comma : IsDelim comma := .inr (.inl rfl)
theorem isDelim_eqSign : IsDelim eqSign := .inr (.inr rfl)

theorem isSpecial_bslash : isSpecial bslash = true := by decide

theorem esc_cons_special {b : UInt8} {t : Bytes} (h : isSpecial b = true) :
    esc (b :: t) = bslash :: b :: esc t := by simp [esc, h]

theorem esc_cons_plain {b : UInt8} {t : Bytes} (h : isSpecial b = false) :
    esc (b :: t) = b :: esc t := by simp [esc, h]

/-- the head of a non-empty escaped string is never an unescaped delimiter -/
theorem esc_cons_ne_delim {b : UInt8} {t x : Bytes} {d : UInt8} (hd : IsDelim d) :
    esc (b :: t) ≠ d :: x := by
  intro h
  cases hb : isSpecial b
  · rw [esc_cons_plain hb] at h
    have h1 : b = d := (List.cons.inj h).1
    have := hd.special
    rw [← h1, hb] at this
    cases this
  · rw [esc_cons_special hb] at h
    exact hd.ne_bslash (List.cons.inj h).1.symm

/-- an escaped string followed by an unescaped delimiter splits uniquely -/
theorem esc_split : ∀ (a a' x x' : Bytes) (d d' : UInt8), IsDelim d → IsDelim d' →
    esc a ++ d :: x = esc a' ++ d' :: x' → a = a' ∧ d = d' ∧ x = x'
  | [], [], x, x', d, d', _, _, h => by simpa [esc] using h
  | [], b' :: t', x, x', d, d', hd, _, h => by
    exfalso
    have h : esc (b' :: t') ++ d' :: x' = d :: x := by simpa [esc] using h.symm
    cases hb : isSpecial b'
    · rw [esc_cons_plain hb] at h
      have h1 : b' = d := (List.cons.inj h).1
      have := hd.special
      rw [← h1, hb] at this
      cases this
    · rw [esc_cons_special hb] at h
      exact hd.ne_bslash (List.cons.inj h).1.symm
  | b :: t, [], x, x', d, d', _, hd', h => by
    exfalso
    have h : esc (b :: t) ++ d :: x = d' :: x' := by simpa [esc] using h
    cases hb : isSpecial b
    · rw [esc_cons_plain hb] at h
      have h1 : b = d' := (List.cons.inj h).1
      have := hd'.special
      rw [← h1, hb] at this
      cases this
    · rw [esc_cons_special hb] at h
      exact hd'.ne_bslash (List.cons.inj h).1.symm
  | b :: t, b' :: t', x, x', d, d', hd, hd', h => by
    cases hb : isSpecial b <;> cases hb' : isSpecial b'
    · rw [esc_cons_plain hb, esc_cons_plain hb'] at h
      have h1 := List.cons.inj h
      obtain ⟨e1, e2, e3⟩ := esc_split t t' x x' d d' hd hd' h1.2
      exact ⟨by rw [h1.1, e1], e2, e3⟩
    · exfalso
      rw [esc_cons_plain hb, esc_cons_special hb'] at h
      have h1 : b = bslash := (List.cons.inj h).1
      rw [h1, isSpecial_bslash] at hb
      cases hb
    · exfalso
      rw [esc_cons_special hb, esc_cons_plain hb'] at h
      have h1 : bslash = b' := (List.cons.inj h).1
      rw [← h1, isSpecial_bslash] at hb'
      cases hb'
    · rw [esc_cons_special hb, esc_cons_special hb'] at h
      have h1 := List.cons.inj (List.cons.inj h).2
      obtain ⟨e1, e2, e3⟩ := esc_split t t' x x' d d' hd hd' h1.2
      exact ⟨by rw [h1.1, e1], e2, e3⟩

theorem esc_injective {a a' : Bytes} (h : esc a = esc a') : a = a' :=
  (esc_split a a' [] [] plus plus isDelim_plus isDelim_plus (by rw [h])).1

/-- a fully escaped string contains no unescaped delimiter -/
theorem esc_ne_esc_delim : ∀ (a a' x : Bytes) (d : UInt8), IsDelim d →
    esc a ≠ esc a' ++ d :: x
  | [], a', x, d, _, h => by
    have := congrArg List.length h
    simp [esc] at this
  | b :: t, [], x, d, hd, h => esc_cons_ne_delim hd (by simpa [esc] using h)
  | b :: t, b' :: t', x, d, hd, h => by
    cases hb : isSpecial b <;> cases hb' : isSpecial b'
    · rw [esc_cons_plain hb, esc_cons_plain hb'] at h
      exact esc_ne_esc_delim t t' x d hd (List.cons.inj h).2
    · rw [esc_cons_plain hb, esc_cons_special hb'] at h
      have h1 : b = bslash := (List.cons.inj h).1
      rw [h1, isSpecial_bslash] at hb
      cases hb
    · rw [esc_cons_special hb, esc_cons_plain hb'] at h
      have h1 : bslash = b' := (List.cons.inj h).1
      rw [← h1, isSpecial_bslash] at hb'
      cases hb'
    · rw [esc_cons_special hb, esc_cons_special hb'] at h
      exact esc_ne_esc_delim t t' x d hd (List.cons.inj (List.cons.inj h).2).2

/-! ## rendering -/

/-- the `,k=v` continuation of a rendering -/
def tailBody : List (Bytes × Bytes) → Bytes
  | [] => []
  | kv :: r => comma :: (esc kv.1 ++ eqSign :: (esc kv.2 ++ tailBody r))

/-- the `k=v,k=v,…` part of a rendering -/
def body (kvs : List (Bytes × Bytes)) : Bytes :=
  [comma].intercalate (kvs.map fun kv => esc kv.1 ++ [eqSign] ++ esc kv.2)

/-- the `prefix+` part of a rendering -/
def pre (p : Bytes) : Bytes := if p.isEmpty then [] else esc p ++ [plus]

theorem render_eq (p : Bytes) (kvs : List (Bytes × Bytes)) : render p kvs = pre p ++ body kvs := rfl

theorem body_nil : body [] = [] := rfl

theorem body_cons : ∀ (kv : Bytes × Bytes) (r : List (Bytes × Bytes)),
    body (kv :: r) = esc kv.1 ++ eqSign :: (esc kv.2 ++ tailBody r)
  | kv, [] => by simp [body, tailBody]
  | kv, kv' :: r => by
    have ih := body_cons kv' r
    simp only [body, List.map_cons, List.intercalate_cons_cons] at ih ⊢
    rw [ih]
    simp [tailBody]

theorem val_tail_injective : ∀ (r r' : List (Bytes × Bytes)) (v v' : Bytes),
    esc v ++ tailBody r = esc v' ++ tailBody r' → v = v' ∧ r = r'
  | [], [], v, v', h => ⟨esc_injective (by simpa [tailBody] using h), rfl⟩
  | [], kv' :: r', v, v', h => by
    exfalso
    simp only [tailBody, List.append_nil] at h
    exact esc_ne_esc_delim _ _ _ _ isDelim_comma h
  | kv :: r, [], v, v', h => by
    exfalso
    simp only [tailBody, List.append_nil] at h
    exact esc_ne_esc_delim _ _ _ _ isDelim_comma h.symm
  | (k, w) :: r, (k', w') :: r', v, v', h => by
    simp only [tailBody] at h
    obtain ⟨e1, -, h2⟩ := esc_split _ _ _ _ _ _ isDelim_comma isDelim_comma h
    obtain ⟨e2, -, h3⟩ := esc_split _ _ _ _ _ _ isDelim_eqSign isDelim_eqSign h2
    obtain ⟨e3, e4⟩ := val_tail_injective r r' w w' h3
    subst e1 e2 e3 e4
    exact ⟨rfl, rfl⟩

theorem body_injective : ∀ (kvs kvs' : List (Bytes × Bytes)), body kvs = body kvs' → kvs = kvs'
  | [], [], _ => rfl
  | [], kv :: r, h => by
    have := congrArg List.length h
    simp [body_nil, body_cons] at this
  | kv :: r, [], h => by
    have := congrArg List.length h
    simp [body_nil, body_cons] at this
  | (k, v) :: r, (k', v') :: r', h => by
    rw [body_cons, body_cons] at h
    obtain ⟨e1, -, h2⟩ := esc_split _ _ _ _ _ _ isDelim_eqSign isDelim_eqSign h
    obtain ⟨e2, e3⟩ := val_tail_injective r r' v v' h2
    simp only at e1 e2
    subst e1 e2 e3
    rfl

theorem pre_nil : pre [] = [] := rfl
theorem pre_cons (b : UInt8) (t : Bytes) : pre (b :: t) = esc (b :: t) ++ [plus] := rfl

/-- a rendering without prefix never starts with `esc p ++ [plus]` -/
theorem body_ne_esc_plus (p x : Bytes) (kvs : List (Bytes × Bytes)) :
    body kvs ≠ esc p ++ plus :: x := by
  intro h
  cases kvs with
  | nil =>
    have := congrArg List.length h
    simp [body_nil] at this
  | cons kv r =>
    rw [body_cons] at h
    obtain ⟨-, e, -⟩ := esc_split _ _ _ _ _ _ isDelim_eqSign isDelim_plus h
    exact absurd e (by decide)

theorem render_injective' (p p' : Bytes) (kvs kvs' : List (Bytes × Bytes))
    (h : render p kvs = render p' kvs') : p = p' ∧ kvs = kvs' := by
  rw [render_eq, render_eq] at h
  cases p with
  | nil =>
    cases p' with
    | nil => exact ⟨rfl, body_injective _ _ (by simpa [pre_nil] using h)⟩
    | cons b' t' =>
      exfalso
      rw [pre_nil, pre_cons] at h
      exact body_ne_esc_plus (b' :: t') (body kvs') kvs (by simpa using h)
  | cons b t =>
    cases p' with
    | nil =>
      exfalso
      rw [pre_nil, pre_cons] at h
      exact body_ne_esc_plus (b :: t) (body kvs) kvs' (by simpa using h.symm)
    | cons b' t' =>
      rw [pre_cons, pre_cons] at h
      have h' : esc (b :: t) ++ plus :: body kvs = esc (b' :: t') ++ plus :: body kvs' := by
        simpa using h
      obtain ⟨e1, -, e2⟩ := esc_split _ _ _ _ _ _ isDelim_plus isDelim_plus h'
      exact ⟨e1, body_injective _ _ e2⟩

/-! ## `bytesLt` is a strict total order -/

theorem u8_tri (a b : UInt8) : a < b ∨ a = b ∨ b < a := by
  rcases Nat.lt_trichotomy a.toNat b.toNat with h | h | h
  · exact .inl (UInt8.lt_iff_toNat_lt.mpr h)
  · exact .inr (.inl (UInt8.toNat_inj.mp h))
  · exact .inr (.inr (UInt8.lt_iff_toNat_lt.mpr h))

theorem bytesLt_irrefl : ∀ (a : Bytes), bytesLt a a = false
  | [] => rfl
  | x :: s => by
    have : ¬ x < x := by simp
    simp [bytesLt, this, bytesLt_irrefl s]

theorem bytesLt_trans : ∀ (a b c : Bytes),
    bytesLt a b = true → bytesLt b c = true → bytesLt a c = true
  | [], [], _, h, _ => by simp [bytesLt] at h
  | [], _ :: _, [], _, h => by simp [bytesLt] at h
  | [], _ :: _, _ :: _, _, _ => by simp [bytesLt]
  | _ :: _, [], _, h, _ => by simp [bytesLt] at h
  | _ :: _, _ :: _, [], _, h => by simp [bytesLt] at h
  | x :: s, y :: t, z :: u, h1, h2 => by
    have ih := bytesLt_trans s t u
    simp only [bytesLt, UInt8.lt_iff_toNat_lt] at h1 h2 ⊢
    split at h1
    · split at h2
      · rw [if_pos (by omega)]
      · split at h2
        · cases h2
        · rw [if_pos (by omega)]
    · split at h1
      · cases h1
      · split at h2
        · rw [if_pos (by omega)]
        · split at h2
          · cases h2
          · rw [if_neg (by omega), if_neg (by omega)]
            exact ih h1 h2

theorem bytesLt_tri : ∀ (a b : Bytes), bytesLt a b = false → bytesLt b a = false → a = b
  | [], [], _, _ => rfl
  | [], _ :: _, h, _ => by simp [bytesLt] at h
  | _ :: _, [], _, h => by simp [bytesLt] at h
  | x :: s, y :: t, h1, h2 => by
    have ih := bytesLt_tri s t
    simp only [bytesLt, UInt8.lt_iff_toNat_lt] at h1 h2
    split at h1
    · cases h1
    · split at h1
      · split at h2
        · cases h2
        · omega
      · have e : x = y := UInt8.toNat_inj.mp (by omega)
        rw [if_neg (by omega), if_neg (by omega)] at h2
        rw [e, ih h1 h2]

theorem bytesLt_asymm (a b : Bytes) (h : bytesLt a b = true) : bytesLt b a = false := by
  cases h' : bytesLt b a
  · rfl
  · have := bytesLt_trans a b a h h'
    rw [bytesLt_irrefl] at this
    cases this

/-- the non-strict order induced by `bytesLt` -/
def BLe (a b : Bytes) : Prop := bytesLt b a = false

theorem BLe.antisymm {a b : Bytes} (h1 : BLe a b) (h2 : BLe b a) : a = b := bytesLt_tri a b h2 h1

theorem BLe.refl (a : Bytes) : BLe a a := bytesLt_irrefl a

/-- sorted w.r.t. the non-strict order -/
abbrev Sorted (l : List Bytes) : Prop := l.Pairwise BLe

theorem sorted_perm_eq {l l' : List Bytes} (h : Sorted l) (h' : Sorted l') (hp : l.Perm l') :
    l = l' :=
  List.Perm.eq_of_pairwise (le := BLe) (fun _ _ _ _ h1 h2 => h1.antisymm h2) h h' hp

/-! ## `insertionSort` sorts and permutes -/

theorem span_loop_eq (p : Bytes → Bool) : ∀ (as acc : List Bytes),
    List.span.loop p as acc = (acc.reverse ++ as.takeWhile p, as.dropWhile p)
  | [], acc => by simp [List.span.loop]
  | a :: as, acc => by
    cases h : p a
    · simp [List.span.loop, h]
    · simp [List.span.loop, h, span_loop_eq p as (a :: acc)]

theorem insertBack_nil (k : Bytes) : insertBack [] k = [k] := rfl

theorem insertBack_cons (x : Bytes) (s : List Bytes) (k : Bytes) :
    insertBack (x :: s) k = if bytesLt k x then k :: x :: s else x :: insertBack s k := by
  simp only [insertBack, List.span, span_loop_eq]
  cases h : bytesLt k x <;> simp [h]

theorem insertBack_perm (k : Bytes) : ∀ (s : List Bytes), (insertBack s k).Perm (k :: s)
  | [] => by simp [insertBack_nil]
  | x :: s => by
    rw [insertBack_cons]
    split
    · exact List.Perm.refl _
    · exact ((insertBack_perm k s).cons x).trans (List.Perm.swap k x s)

theorem insertBack_sorted (k : Bytes) : ∀ (s : List Bytes), Sorted s → Sorted (insertBack s k)
  | [], _ => by simp [insertBack_nil]
  | x :: s, h => by
    rw [insertBack_cons]
    have hx := List.pairwise_cons.mp h
    split
    · next hk =>
      refine List.pairwise_cons.mpr ⟨?_, h⟩
      intro y hy
      rcases List.mem_cons.mp hy with rfl | hy
      · exact bytesLt_asymm _ _ hk
      · have hxy : bytesLt y x = false := hx.1 y hy
        show bytesLt y k = false
        cases hyk : bytesLt y k
        · rfl
        · rw [bytesLt_trans y k x hyk hk] at hxy
          cases hxy
    · next hk =>
      refine List.pairwise_cons.mpr ⟨?_, insertBack_sorted k s hx.2⟩
      intro y hy
      rcases List.mem_cons.mp ((insertBack_perm k s).subset hy) with rfl | hy
      · show bytesLt y x = false
        simpa using hk
      · exact hx.1 y hy

theorem foldl_insertBack_sorted : ∀ (l acc : List Bytes), Sorted acc →
    Sorted (l.foldl insertBack acc)
  | [], _, h => h
  | k :: l, acc, h => foldl_insertBack_sorted l _ (insertBack_sorted k acc h)

theorem foldl_insertBack_perm : ∀ (l acc : List Bytes), (l.foldl insertBack acc).Perm (acc ++ l)
  | [], acc => by simp
  | k :: l, acc => by
    refine (foldl_insertBack_perm l (insertBack acc k)).trans ?_
    refine ((insertBack_perm k acc).append_right l).trans ?_
    simpa using (List.perm_middle (a := k) (l₁ := acc) (l₂ := l)).symm

theorem insertionSort_sorted (l : List Bytes) : Sorted (insertionSort l) :=
  foldl_insertBack_sorted l [] List.Pairwise.nil

theorem insertionSort_perm (l : List Bytes) : (insertionSort l).Perm l := by
  simpa [insertionSort] using foldl_insertBack_perm l []

theorem insertionSort_eq_of_perm {l l' : List Bytes} (h : l.Perm l') :
    insertionSort l = insertionSort l' :=
  sorted_perm_eq (insertionSort_sorted l) (insertionSort_sorted l')
    (((insertionSort_perm l).trans h).trans (insertionSort_perm l').symm)

theorem insertionSort_eq_self {l : List Bytes} (h : Sorted l) : insertionSort l = l :=
  sorted_perm_eq (insertionSort_sorted l) h (insertionSort_perm l)

/-! ## the writer loop on a sorted key list -/

/-- all keys of all maps, in enumeration order -/
def allKeys (maps : List TagMap) : List Bytes := maps.flatMap (fun m => m.map (·.1))

/-- the canonical entry of key `k` -/
def kvOf (maps : List TagMap) (k : Bytes) : Bytes × Bytes := (k, (lookupRight maps k).getD [])

theorem canon_eq (maps : List TagMap) :
    canon maps = (insertionSort (allKeys maps)).eraseDups.map (kvOf maps) := rfl

theorem key_eq (p : Bytes) (maps : List TagMap) :
    key p maps = pre p ++ writeKeys maps (insertionSort (allKeys maps)) true [] := rfl

theorem writeKeys_false (maps : List TagMap) : ∀ (l : List Bytes) (last : Bytes),
    Sorted (last :: l) →
    writeKeys maps l false last
      = tailBody (((l.filter fun b => !b == last).eraseDups).map (kvOf maps))
  | [], last, _ => by simp [writeKeys, tailBody]
  | k :: ks, last, h => by
    have hs := List.pairwise_cons.mp h
    by_cases hk : k = last
    · subst hk
      have e : writeKeys maps (k :: ks) false k = writeKeys maps ks false k := by
        simp [writeKeys]
      rw [e, List.filter_cons_of_neg (by simp)]
      exact writeKeys_false maps ks k hs.2
    · have e : writeKeys maps (k :: ks) false last
          = comma :: (esc k ++ eqSign :: (esc ((lookupRight maps k).getD [])
              ++ writeKeys maps ks false k)) := by
        simp [writeKeys, hk]
      have hf : (ks.filter fun b => !b == last).filter (fun b => !b == k)
          = ks.filter fun b => !b == k := by
        rw [List.filter_filter]
        apply List.filter_congr
        intro x hx
        have hne : x ≠ last := by
          rintro rfl
          have h1 : BLe k x := (List.pairwise_cons.mp hs.2).1 x hx
          have h2 : BLe x k := hs.1 k List.mem_cons_self
          exact hk (h1.antisymm h2)
        simp [hne]
      rw [e, List.filter_cons_of_pos (by simp [hk]), List.eraseDups_cons, List.map_cons, tailBody,
        writeKeys_false maps ks k hs.2, hf]
      rfl

theorem writeKeys_true (maps : List TagMap) (l : List Bytes) (h : Sorted l) :
    writeKeys maps l true [] = body (l.eraseDups.map (kvOf maps)) := by
  cases l with
  | nil => simp [writeKeys, body_nil]
  | cons k ks =>
    have e : writeKeys maps (k :: ks) true []
        = esc k ++ eqSign :: (esc ((lookupRight maps k).getD []) ++ writeKeys maps ks false k) := by
      simp [writeKeys]
    rw [e, List.eraseDups_cons, List.map_cons, body_cons, writeKeys_false maps ks k h]
    rfl

theorem key_eq_render' (p : Bytes) (maps : List TagMap) : key p maps = render p (canon maps) := by
  rw [key_eq, render_eq, canon_eq, writeKeys_true maps _ (insertionSort_sorted _)]

/-! ## enumeration order of the maps does not matter -/

theorem lookup_cons_ite (a b : Bytes) (as : TagMap) (k : Bytes) :
    ((a, b) :: as).lookup k = if k = a then some b else as.lookup k := by
  rw [List.lookup_cons]
  by_cases h : k = a
  · have e : (k == a) = true := by simp [h]
    rw [e, if_pos h]
  · have e : (k == a) = false := by simp [h]
    rw [e, if_neg h]

theorem lookup_perm {m m' : TagMap} (h : m.Perm m') (k : Bytes) :
    (m.map (·.1)).Nodup → m.lookup k = m'.lookup k := by
  induction h with
  | nil => intro _; rfl
  | cons x _ ih =>
    intro hwf
    obtain ⟨a, b⟩ := x
    simp only [List.map_cons] at hwf
    have hn := List.nodup_cons.mp hwf
    simp only [lookup_cons_ite, ih hn.2]
  | swap x y l =>
    intro hwf
    obtain ⟨a, b⟩ := x
    obtain ⟨c, d⟩ := y
    simp only [List.map_cons] at hwf
    have hn := List.nodup_cons.mp hwf
    have hne : c ≠ a := fun e => hn.1 (by simp [e])
    simp only [lookup_cons_ite]
    by_cases h1 : k = c
    · subst h1
      simp [hne]
    · simp [h1]
  | trans h1 _ ih1 ih2 =>
    intro hwf
    rw [ih1 hwf, ih2 ((h1.map (·.1)).nodup hwf)]

theorem lookupRight_cons (m : TagMap) (ms : List TagMap) (k : Bytes) :
    lookupRight (m :: ms) k = (lookupRight ms k).or (m.lookup k) := by
  simp [lookupRight, List.findSome?_append]

theorem lookupRight_forall₂ {maps maps' : List TagMap} (h : List.Forall₂ List.Perm maps maps')
    (k : Bytes) : (∀ m ∈ maps, (m.map (·.1)).Nodup) → lookupRight maps k = lookupRight maps' k := by
  induction h with
  | nil => intro _; rfl
  | cons hp _ ih =>
    intro hwf
    rw [lookupRight_cons, lookupRight_cons, ih (fun m hm => hwf m (List.mem_cons_of_mem _ hm)),
      lookup_perm hp k (hwf _ List.mem_cons_self)]

theorem allKeys_cons (m : TagMap) (ms : List TagMap) :
    allKeys (m :: ms) = m.map (·.1) ++ allKeys ms := by
  simp [allKeys]

theorem allKeys_forall₂ {maps maps' : List TagMap} (h : List.Forall₂ List.Perm maps maps') :
    (allKeys maps).Perm (allKeys maps') := by
  induction h with
  | nil => exact List.Perm.refl _
  | cons hp _ ih =>
    rw [allKeys_cons, allKeys_cons]
    exact (hp.map _).append ih

theorem canon_forall₂ {maps maps' : List TagMap} (h : List.Forall₂ List.Perm maps maps')
    (hwf : ∀ m ∈ maps, (m.map (·.1)).Nodup) : canon maps = canon maps' := by
  rw [canon_eq, canon_eq, insertionSort_eq_of_perm (allKeys_forall₂ h)]
  apply List.map_congr_left
  intro k _
  simp only [kvOf, lookupRight_forall₂ h k hwf]

/-! ## `canon` is idempotent -/

theorem eraseDups_sublist : ∀ (l : List Bytes), l.eraseDups.Sublist l
  | [] => by simp
  | a :: as => by
    have : (as.filter fun b => !b == a).length < as.length + 1 :=
      Nat.lt_add_one_of_le (List.length_filter_le _ as)
    rw [List.eraseDups_cons]
    exact ((eraseDups_sublist _).trans List.filter_sublist).cons_cons a
termination_by l => l.length

theorem eraseDups_idem : ∀ (l : List Bytes), l.eraseDups.eraseDups = l.eraseDups
  | [] => rfl
  | a :: as => by
    have : (as.filter fun b => !b == a).length < as.length + 1 :=
      Nat.lt_add_one_of_le (List.length_filter_le _ as)
    have hf : ((as.filter fun b => !b == a).eraseDups.filter fun b => !b == a)
        = (as.filter fun b => !b == a).eraseDups := by
      apply List.filter_eq_self.mpr
      intro x hx
      exact (List.mem_filter.mp (List.mem_eraseDups.mp hx)).2
    rw [List.eraseDups_cons, List.eraseDups_cons, hf, eraseDups_idem (as.filter _)]
termination_by l => l.length

theorem lookup_map_self (g : Bytes → Bytes) (k : Bytes) : ∀ (K : List Bytes), k ∈ K →
    (K.map fun x => (x, g x)).lookup k = some (g k)
  | [], h => by cases h
  | x :: K, h => by
    simp only [List.map_cons, lookup_cons_ite]
    by_cases hk : k = x
    · subst hk
      simp
    · have hm : k ∈ K := by
        rcases List.mem_cons.mp h with e | e
        · exact absurd e hk
        · exact e
      simp [hk, lookup_map_self g k K hm]

/-- the keys of the canonical assignment -/
def canonKeys (maps : List TagMap) : List Bytes := (insertionSort (allKeys maps)).eraseDups

theorem canon_eq_map (maps : List TagMap) : canon maps = (canonKeys maps).map (kvOf maps) := rfl

theorem canonKeys_sorted (maps : List TagMap) : Sorted (canonKeys maps) :=
  (insertionSort_sorted _).sublist (eraseDups_sublist _)

theorem allKeys_canon (maps : List TagMap) : allKeys [canon maps] = canonKeys maps := by
  simp [allKeys, canon_eq_map, kvOf, Function.comp_def]

theorem canonKeys_canon (maps : List TagMap) : canonKeys [canon maps] = canonKeys maps := by
  rw [canonKeys, allKeys_canon, insertionSort_eq_self (canonKeys_sorted maps)]
  exact eraseDups_idem _

theorem canon_canon (maps : List TagMap) : canon [canon maps] = canon maps := by
  rw [canon_eq_map [canon maps], canonKeys_canon, canon_eq_map maps]
  apply List.map_congr_left
  intro k hk
  have : lookupRight [(canonKeys maps).map (kvOf maps)] k
      = some ((lookupRight maps k).getD []) := by
    rw [lookupRight_cons]
    rw [show (List.map (kvOf maps) (canonKeys maps))
        = (canonKeys maps).map fun x => (x, (lookupRight maps x).getD []) from rfl,
      lookup_map_self _ k _ hk]
    simp [lookupRight]
  simp only [kvOf, this, Option.getD_some]

end Tally.KeyGen
