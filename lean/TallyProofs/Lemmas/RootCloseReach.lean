import TallyProofs.Lemmas.RootCloseTokens
/-!
# Reachable states of the root-Close model satisfy both invariants; one step after the winner returned
-/
namespace Tally.RootClose

theorem endsRight_spec (cl : Bool) (log : List LogEv) (h : endsRight cl log = true) :
    ∃ rest, log = if cl then .reporterClose :: .flush :: rest else .flush :: rest := by
  unfold endsRight at h
  split at h
  · next rest => subst h; exact ⟨rest, rfl⟩
  · next rest => simp only [Bool.not_eq_true'] at h; subst h; exact ⟨rest, rfl⟩
  · cases h

/-- both invariants hold in every reachable state -/
theorem reachable_inv (k : Nat) (hl cl : Bool) (er : Option Nat) (es : List Ev) (s : State)
    (hr : run (init k hl cl er) es = some s) : Ctl s ∧ Tok s :=
  ⟨ctl_run _ s es (ctl_init k hl cl er) hr, tok_run _ s es (ctl_init k hl cl er) (tok_init k hl cl er) hr⟩

theorem reachable_params (k : Nat) (hl cl : Bool) (er : Option Nat) (es : List Ev) (s : State)
    (hr : run (init k hl cl er) es = some s) :
    s.hasLoop = hl ∧ s.closable = cl ∧ s.err = er ∧ s.cells.length = k := by
  have := run_params _ s es hr
  exact ⟨this.hasLoop, this.closable, this.err, by rw [this.k]; simp [init]⟩

/-- one step from a state in which the winner has returned: the log, the loop thread and the winner's
result stay as they are, and the only thread moves possible are recorders and late or waiting `Close` calls (a
call that lost the CAS goes to `<-s.closeDone`, a call waiting there returns nil) -/
theorem silent_step (s s' : State) (e : Ev) (h : Ctl s) (w : Nat) (r : Option Nat)
    (hret : s.closers w = .returned r) (hs : step s e = some s') :
    s'.log = s.log ∧ s'.closers w = .returned r ∧ s'.doneClosed = s.doneClosed ∧ s'.loop = s.loop := by
  have hw := h.winner_of w (by rw [hret]; simp [ph])
  have hw0 : wpc s = .returned r := by rw [wpc_of_winner hw, hret]
  have hex : s.loop = .exited := h.loopEx (by rw [hw0]; simp [ph])
  have hclosed : s.closed = true := by rw [h.closed_iff, hw]; rfl
  cases e with
  | record c =>
    simp only [step] at hs
    split at hs
    · cases hs
    · split at hs <;> (simp only [Option.some.injEq] at hs; subst hs) <;> exact ⟨rfl, hret, rfl, rfl⟩
  | obtain c =>
    simp only [step, hclosed, if_true, Option.some.injEq] at hs; subst hs; exact ⟨rfl, hret, rfl, rfl⟩
  | tick => simp [step, hex] at hs
  | exit => simp [step, hex] at hs
  | loop ch => simp [step, hex] at hs
  | closer t ch =>
    have hmid : 1 ≤ ph (s.closers t) → t = w := by
      intro hp
      have := h.winner_of t hp
      rw [hw] at this; exact (Option.some.inj this).symm
    simp only [step] at hs
    split at hs
    · next hpc =>
      have htw : t ≠ w := fun e => by subst e; rw [hret] at hpc; cases hpc
      have hwt : w ≠ t := fun e => htw e.symm
      simp only [hclosed, if_true, Option.some.injEq] at hs; subst hs
      exact ⟨rfl, by simp [setC, hwt, hret], rfl, rfl⟩
    case h_10 hpc =>
      -- a call waiting at `<-s.closeDone` returns nil
      have htw : t ≠ w := fun e => by subst e; rw [hret] at hpc; cases hpc
      have hwt : w ≠ t := fun e => htw e.symm
      split at hs
      · simp only [Option.some.injEq] at hs; subst hs
        exact ⟨rfl, by simp [setC, hwt, hret], rfl, rfl⟩
      · cases hs
    all_goals
      next hpc =>
      first
        | (cases hs; done)
        | (have := hmid (by rw [hpc]; simp [ph]); subst this; rw [hret] at hpc; cases hpc)

end Tally.RootClose
