import Tally.Model.Prom
import Tally.Spec.C17
import TallyProofs.Lemmas.ListAux
/-! Lemmas about the Prometheus model: the series map, frame properties of the world steps, the
simulation of one metric object's life by `localRun`, and the invariants of a run. -/
namespace Tally.Prom
open Tally

/-! ### the series map -/

theorem getS_setS (s : List (SeriesKey × Val)) (k k' : SeriesKey) (v : Val) :
    getS (setS s k v) k' = if k = k' then some v else getS s k' := by
  induction s with
  | nil =>
    simp only [setS, getS]
  | cons p t ih =>
    obtain ⟨a, b⟩ := p
    simp only [setS]
    by_cases h : a = k
    · subst h
      simp only [if_true, getS]
      by_cases h2 : a = k' <;> simp [h2]
    · simp only [h, if_false, getS]
      by_cases h2 : a = k'
      · subst h2
        have : ¬ k = a := fun e => h e.symm
        simp [this]
      · simp only [h2, if_false]
        exact ih

theorem getS_setS_same (s : List (SeriesKey × Val)) (k : SeriesKey) (v : Val) :
    getS (setS s k v) k = some v := by
  rw [getS_setS]; simp

theorem getS_setS_other (s : List (SeriesKey × Val)) (k k' : SeriesKey) (v : Val) (h : k ≠ k') :
    getS (setS s k v) k' = getS s k' := by
  rw [getS_setS]; simp [h]

/-- keys of the map -/
def keysS (s : List (SeriesKey × Val)) : List SeriesKey := s.map (·.1)

theorem getS_none_iff (s : List (SeriesKey × Val)) (k : SeriesKey) : getS s k = none ↔ k ∉ keysS s := by
  induction s with
  | nil => simp [getS, keysS]
  | cons p t ih =>
    obtain ⟨a, b⟩ := p
    simp only [getS, keysS, List.map_cons, List.mem_cons]
    by_cases h : a = k
    · subst h; simp
    · simp only [h, if_false]
      rw [ih]
      simp only [keysS]
      constructor
      · intro h1 h2
        rcases h2 with h2 | h2
        · exact h h2.symm
        · exact h1 h2
      · intro h1 h2
        exact h1 (Or.inr h2)

theorem keysS_setS (s : List (SeriesKey × Val)) (k : SeriesKey) (v : Val) :
    keysS (setS s k v) = if k ∈ keysS s then keysS s else keysS s ++ [k] := by
  induction s with
  | nil => simp [setS, keysS]
  | cons p t ih =>
    obtain ⟨a, b⟩ := p
    simp only [setS]
    by_cases h : a = k
    · subst h; simp [keysS]
    · simp only [h, if_false]
      simp only [keysS, List.map_cons, List.mem_cons] at ih ⊢
      rw [ih]
      have hk : ¬ k = a := fun e => h e.symm
      simp only [hk, false_or]
      split <;> rename_i hm <;> simp [hm]

theorem nodup_keysS_setS (s : List (SeriesKey × Val)) (k : SeriesKey) (v : Val) (h : (keysS s).Nodup) :
    (keysS (setS s k v)).Nodup := by
  rw [keysS_setS]
  split
  · exact h
  · next hk =>
    rw [List.nodup_append]
    refine ⟨h, by simp, ?_⟩
    intro a ha b hb
    simp at hb; subst hb
    intro e; subst e; exact hk ha

theorem mem_getS (s : List (SeriesKey × Val)) (h : (keysS s).Nodup) (k : SeriesKey) (v : Val)
    (hm : (k, v) ∈ s) : getS s k = some v := by
  induction s with
  | nil => cases hm
  | cons p t ih =>
    obtain ⟨a, b⟩ := p
    simp only [keysS, List.map_cons, List.nodup_cons] at h
    simp only [getS]
    rcases List.mem_cons.mp hm with e | e
    · injection e with e1 e2; subst e1; subst e2; simp
    · have hne : a ≠ k := by
        intro e'; subst e'
        exact h.1 (List.mem_map.mpr ⟨(a, v), e, rfl⟩)
      simp only [hne, if_false]
      exact ih h.2 e

theorem getS_mem (s : List (SeriesKey × Val)) (k : SeriesKey) (v : Val) (h : getS s k = some v) : (k, v) ∈ s := by
  induction s with
  | nil => simp [getS] at h
  | cons p t ih =>
    obtain ⟨a, b⟩ := p
    simp only [getS] at h
    by_cases e : a = k
    · subst e; simp at h; subst h; simp
    · simp only [e, if_false] at h
      exact List.mem_cons_of_mem _ (ih h)

/-! ### lists -/

theorem setAt_length (l : List α) (i : Nat) (a : α) : (setAt l i a).length = l.length := by
  induction l generalizing i with
  | nil => rfl
  | cons x t ih => cases i <;> simp [setAt, ih]

theorem setAt_get (l : List α) (i j : Nat) (a : α) :
    (setAt l i a)[j]? = if i = j ∧ j < l.length then some a else l[j]? := by
  induction l generalizing i j with
  | nil => simp [setAt]
  | cons x t ih =>
    cases i with
    | zero =>
      cases j with
      | zero => simp [setAt]
      | succ j => simp [setAt]
    | succ i =>
      cases j with
      | zero => simp [setAt]
      | succ j =>
        simp only [setAt, List.getElem?_cons_succ, ih, List.length_cons]
        simp only [Nat.add_right_cancel_iff, Nat.add_lt_add_iff_right]

/-! ### one metric object -/

theorem localStep_handle (m : Metric) (v : Val) (e : LEv) : (localStep m v e).1.handle = m.handle := by
  unfold localStep
  split <;> try rfl
  · split <;> rfl
  · split <;> rfl
  · split <;> rfl

def localRun (m : Metric) (v : Val) : List LEv → Metric × Val
  | [] => (m, v)
  | e :: t => localRun (localStep m v e).1 (localStep m v e).2 t

theorem localRun_append (m : Metric) (v : Val) (a b : List LEv) :
    localRun m v (a ++ b) = localRun (localRun m v a).1 (localRun m v a).2 b := by
  induction a generalizing m v with
  | nil => rfl
  | cons e t ih => simp only [List.cons_append, localRun, ih]


/-! ### frame properties of `World.apply` -/

theorem apply_self (w : World) (i : Nat) (e : LEv) (m : Metric) (k : SeriesKey) (v : Val)
    (hm : w.metrics[i]? = some m) (hh : m.handle = .series k) (hv : getS w.rep.series k = some v) :
    (w.apply i e).metrics[i]? = some (localStep m v e).1
      ∧ getS (w.apply i e).rep.series k = some (localStep m v e).2 := by
  have hi : i < w.metrics.length := by
    rcases Nat.lt_or_ge i w.metrics.length with h | h
    · exact h
    · rw [List.getElem?_eq_none h] at hm; cases hm
  unfold World.apply
  simp only [hm, hh, hv]
  constructor
  · rw [setAt_get]; simp [hi]
  · exact getS_setS_same _ _ _

theorem apply_other (w : World) (i j : Nat) (e : LEv) (k : SeriesKey) (hij : j ≠ i)
    (hown' : (w.metrics[j]?).map Metric.handle ≠ some (.series k)) :
    (w.apply j e).metrics[i]? = w.metrics[i]? ∧ getS (w.apply j e).rep.series k = getS w.rep.series k := by
  have hown : ∀ m', w.metrics[j]? = some m' → m'.handle ≠ .series k := by
    intro m' hm' hk
    apply hown'
    rw [hm']; simp [hk]
  unfold World.apply
  split
  · exact ⟨rfl, rfl⟩
  · next m hm =>
    split
    · next k' hk' =>
      have hne : k' ≠ k := by
        intro e'; subst e'; exact hown m hm hk'
      split
      · simp only
        constructor
        · rw [setAt_get]; simp [hij]
        · exact getS_setS_other _ _ _ _ hne
      · exact ⟨rfl, rfl⟩
    · simp only
      constructor
      · rw [setAt_get]; simp [hij]
      · trivial

/-- `apply` never changes which series a metric object reports into, nor the number of objects -/
theorem apply_handle (w : World) (i j : Nat) (e : LEv) :
    ((w.apply j e).metrics[i]?).map Metric.handle = (w.metrics[i]?).map Metric.handle := by
  unfold World.apply
  split
  · rfl
  · next m hm =>
    have hj : j < w.metrics.length := by
      rcases Nat.lt_or_ge j w.metrics.length with h | h
      · exact h
      · rw [List.getElem?_eq_none h] at hm; cases hm
    split
    · split
      · simp only
        rw [setAt_get]
        by_cases hji : j = i
        · subst hji
          have hm' := hm
          rw [List.getElem?_eq_getElem hj] at hm'
          injection hm' with hm'
          simp [hj, localStep_handle, hm']
        · simp [hji]
      · rfl
    · simp only
      rw [setAt_get]
      by_cases hji : j = i
      · subst hji
        have hm' := hm
        rw [List.getElem?_eq_getElem hj] at hm'
        injection hm' with hm'
        simp [hj, localStep_handle, hm']
      · simp [hji]

theorem apply_length (w : World) (j : Nat) (e : LEv) : (w.apply j e).metrics.length = w.metrics.length := by
  unfold World.apply
  split
  · rfl
  · split
    · split
      · simp [setAt_length]
      · rfl
    · simp [setAt_length]

theorem apply_trace (w : World) (j : Nat) (e : LEv) : (w.apply j e).trace = w.trace := by
  unfold World.apply
  split
  · rfl
  · split
    · split <;> rfl
    · rfl

/-- everything of the reporter except the series values is untouched by recording and reporting -/
structure SameStatic (a b : Reporter) : Prop where
  reg : a.reg = b.reg
  counters : a.counters = b.counters
  gauges : a.gauges = b.gauges
  timers : a.timers = b.timers
  errors : a.errors = b.errors

theorem apply_static (w : World) (j : Nat) (e : LEv) : SameStatic (w.apply j e).rep w.rep := by
  unfold World.apply
  split
  · exact ⟨rfl, rfl, rfl, rfl, rfl⟩
  · split
    · split
      · exact ⟨rfl, rfl, rfl, rfl, rfl⟩
      · exact ⟨rfl, rfl, rfl, rfl, rfl⟩
    · exact ⟨rfl, rfl, rfl, rfl, rfl⟩

/-- `apply` only ever overwrites existing series -/
theorem apply_keys (w : World) (j : Nat) (e : LEv) : keysS (w.apply j e).rep.series = keysS w.rep.series := by
  unfold World.apply
  split
  · rfl
  · split
    · next k' _ =>
      split
      · next v hv =>
        simp only
        rw [keysS_setS]
        have : k' ∈ keysS w.rep.series := by
          apply Classical.byContradiction
          intro hn
          rw [← getS_none_iff] at hn
          rw [hn] at hv; cases hv
        simp [this]
      · rfl
    · rfl


/-! ### a report pass -/

/-- no metric object other than `i` reports into series `k` -/
def Owns (w : World) (i : Nat) (k : SeriesKey) : Prop :=
  ∀ j, j ≠ i → (w.metrics[j]?).map Metric.handle ≠ some (.series k)

theorem owns_apply (w : World) (i j : Nat) (e : LEv) (k : SeriesKey) (h : Owns w i k) : Owns (w.apply j e) i k := by
  intro j' hj'
  rw [apply_handle]
  exact h j' hj'

theorem passFrom_handle (w : World) (l : List Nat) (i : Nat) :
    ((w.passFrom l).metrics[i]?).map Metric.handle = (w.metrics[i]?).map Metric.handle := by
  induction l generalizing w with
  | nil => rfl
  | cons j t ih => simp only [World.passFrom]; rw [ih, apply_handle]

theorem passFrom_length (w : World) (l : List Nat) : (w.passFrom l).metrics.length = w.metrics.length := by
  induction l generalizing w with
  | nil => rfl
  | cons j t ih => simp only [World.passFrom]; rw [ih, apply_length]

theorem passFrom_trace (w : World) (l : List Nat) : (w.passFrom l).trace = w.trace := by
  induction l generalizing w with
  | nil => rfl
  | cons j t ih => simp only [World.passFrom]; rw [ih, apply_trace]

theorem SameStatic.trans {a b c : Reporter} (h1 : SameStatic a b) (h2 : SameStatic b c) : SameStatic a c :=
  ⟨h1.reg.trans h2.reg, h1.counters.trans h2.counters, h1.gauges.trans h2.gauges, h1.timers.trans h2.timers,
   h1.errors.trans h2.errors⟩

theorem passFrom_static (w : World) (l : List Nat) : SameStatic (w.passFrom l).rep w.rep := by
  induction l generalizing w with
  | nil => exact ⟨rfl, rfl, rfl, rfl, rfl⟩
  | cons j t ih => simp only [World.passFrom]; exact (ih _).trans (apply_static w j .pass)

theorem passFrom_keys (w : World) (l : List Nat) : keysS (w.passFrom l).rep.series = keysS w.rep.series := by
  induction l generalizing w with
  | nil => rfl
  | cons j t ih => simp only [World.passFrom]; rw [ih, apply_keys]

theorem owns_passFrom (w : World) (l : List Nat) (i : Nat) (k : SeriesKey) (h : Owns w i k) :
    Owns (w.passFrom l) i k := by
  intro j' hj'
  rw [passFrom_handle]
  exact h j' hj'

/-- a pass over distinct indices delivers object `i` exactly once if `i` is among them -/
theorem passFrom_sim (l : List Nat) (hnd : l.Nodup) (w : World) (i : Nat) (m : Metric) (k : SeriesKey) (v : Val)
    (hm : w.metrics[i]? = some m) (hh : m.handle = .series k) (hv : getS w.rep.series k = some v)
    (hown : Owns w i k) :
    (w.passFrom l).metrics[i]? = some (if i ∈ l then (localStep m v .pass).1 else m)
      ∧ getS (w.passFrom l).rep.series k = some (if i ∈ l then (localStep m v .pass).2 else v) := by
  induction l generalizing w m v with
  | nil => simp [World.passFrom, hm, hv]
  | cons j t ih =>
    simp only [World.passFrom]
    have hnd' := (List.nodup_cons.mp hnd)
    by_cases hji : j = i
    · subst hji
      obtain ⟨h1, h2⟩ := apply_self w j .pass m k v hm hh hv
      have := ih hnd'.2 (w.apply j .pass) _ _ h1 (by rw [localStep_handle]; exact hh) h2 (owns_apply w j j .pass k hown)
      simpa [hnd'.1] using this
    · obtain ⟨h1, h2⟩ := apply_other w i j .pass k hji (hown j hji)
      have := ih hnd'.2 (w.apply j .pass) m v (by rw [h1]; exact hm) hh (by rw [h2]; exact hv) (owns_apply w i j .pass k hown)
      have hne : ¬ i = j := fun e => hji e.symm
      simpa [hne] using this


/-! ### first uses -/

abbrev Use := UseKind × Bytes × Tags

def usesOf : List Ev → List Use
  | [] => []
  | .use kind name tags :: t => (kind, name, tags) :: usesOf t
  | _ :: t => usesOf t

theorem usesOf_append (a b : List Ev) : usesOf (a ++ b) = usesOf a ++ usesOf b := by
  induction a with
  | nil => rfl
  | cons e t ih => cases e <;> simp [usesOf, ih]

/-- the bounds a histogram vector is created with by a first use of this kind -/
def kindBounds (cfg : Cfg) : UseKind → List F64
  | .histogram spec => spec.promBounds
  | _ => cfg.defaultBounds

def vecFor (cfg : Cfg) (r : Reporter) (kind : UseKind) (name : Bytes) (keys : List Bytes) : Reporter × VecResult :=
  match kind with
  | .counter => counterVec r name keys
  | .gauge => gaugeVec r name keys
  | .timer =>
    if cfg.histTimers then histogramVec cfg.variant r name keys cfg.defaultBounds
    else summaryVec cfg.variant r name keys
  | .timerAs true => histogramVec cfg.variant r name keys cfg.defaultBounds
  | .timerAs false => summaryVec cfg.variant r name keys
  | .histogram spec => histogramVec cfg.variant r name keys spec.promBounds
  | .counterAs => counterVec r name keys
  | .gaugeAs => gaugeVec r name keys
  | .counterAsD desc => counterVecD r name keys desc
  | .gaugeAsD desc => gaugeVecD r name keys desc

theorem useMetric_eq (cfg : Cfg) (r : Reporter) (kind : UseKind) (name : Bytes) (tags : Tags) :
    useMetric cfg r kind name tags =
      if Spec.C17.viaRegister kind then finishRegister (vecFor cfg r kind name (keysOf tags)) tags
      else finishAlloc cfg (vecFor cfg r kind name (keysOf tags)) tags := by
  cases kind with
  | counter => rfl
  | gauge => rfl
  | timer => simp only [useMetric, vecFor, Spec.C17.viaRegister]; split <;> rfl
  | timerAs h => cases h <;> rfl
  | histogram spec => rfl
  | counterAs => rfl
  | gaugeAs => rfl
  | counterAsD desc => rfl
  | gaugeAsD desc => rfl

/-- what is known about every cached vector, relative to the first uses made so far -/
structure CacheOk (cfg : Cfg) (us : List Use) (r : Reporter) : Prop where
  counters : ∀ key f, lookupKey r.counters key = some f → f.name = key.1 ∧ f.kind = .counter
  gauges : ∀ key f, lookupKey r.gauges key = some f → f.name = key.1 ∧ f.kind = .gauge
  summaries : ∀ key e f, lookupKey r.timers key = some e → e.summary = some f → f.name = key.1 ∧ f.kind = .summary
  histograms : ∀ key e f, lookupKey r.timers key = some e → e.histogram = some f →
    f.name = key.1 ∧ f.kind = .histogram ∧ ∃ u ∈ us, u.2.1 = f.name ∧ f.bounds = kindBounds cfg u.1

theorem CacheOk.mono {cfg : Cfg} {us us' : List Use} {r : Reporter} (h : CacheOk cfg us r)
    (hsub : ∀ u ∈ us, u ∈ us') : CacheOk cfg us' r :=
  ⟨h.counters, h.gauges, h.summaries, fun key e f h1 h2 =>
    let ⟨a, b, u, hu, c⟩ := h.histograms key e f h1 h2
    ⟨a, b, u, hsub u hu, c⟩⟩

theorem lookupKey_cons (k' k : MetricKey) (a : α) (t : List (MetricKey × α)) :
    lookupKey ((k', a) :: t) k = if k' = k then some a else lookupKey t k := rfl

/-- the static part of what a vector getter does -/
structure VecSpec (cfg : Cfg) (us : List Use) (r : Reporter) (kind : UseKind) (name : Bytes) (p : Reporter × VecResult) : Prop where
  cache : CacheOk cfg us p.1
  series : p.1.series = r.series
  errors : p.1.errors = r.errors
  fam : ∀ f, p.2 = .vec (some f) →
    f.name = name ∧ f.kind = Spec.C17.typeOf cfg.histTimers kind
      ∧ (f.kind = .histogram → ∃ u ∈ us, u.2.1 = name ∧ f.bounds = kindBounds cfg u.1)
  repaired : cfg.variant = .repaired → p.2 ≠ .vec none

theorem counterVec_spec (cfg : Cfg) (us : List Use) (r : Reporter) (name : Bytes) (keys : List Bytes)
    (hc : CacheOk cfg us r) : VecSpec cfg us r .counter name (counterVec r name keys) := by
  unfold counterVec
  split
  · next f hf =>
    have := hc.counters _ _ hf
    exact ⟨hc, rfl, rfl, (fun f' e => by
      injection e with e; injection e with e; subst e
      exact ⟨this.1, this.2, fun h => by rw [this.2] at h; cases h⟩), (fun _ e => by cases e)⟩
  · dsimp only
    split
    · exact ⟨hc, rfl, rfl, (fun f' e => by cases e), (fun _ e => by cases e)⟩
    · refine ⟨⟨?_, hc.gauges, hc.summaries, hc.histograms⟩, rfl, rfl, ?_, (fun _ e => by cases e)⟩
      · intro key f hf
        rw [lookupKey_cons] at hf
        split at hf
        · next hk => injection hf with hf; subst hf; subst hk; exact ⟨rfl, rfl⟩
        · exact hc.counters _ _ hf
      · intro f' e
        injection e with e; injection e with e; subst e
        exact ⟨rfl, rfl, fun h => by cases h⟩

theorem gaugeVec_spec (cfg : Cfg) (us : List Use) (r : Reporter) (name : Bytes) (keys : List Bytes)
    (hc : CacheOk cfg us r) : VecSpec cfg us r .gauge name (gaugeVec r name keys) := by
  unfold gaugeVec
  split
  · next f hf =>
    have := hc.gauges _ _ hf
    exact ⟨hc, rfl, rfl, (fun f' e => by
      injection e with e; injection e with e; subst e
      exact ⟨this.1, this.2, fun h => by rw [this.2] at h; cases h⟩), (fun _ e => by cases e)⟩
  · dsimp only
    split
    · exact ⟨hc, rfl, rfl, (fun f' e => by cases e), (fun _ e => by cases e)⟩
    · refine ⟨⟨hc.counters, ?_, hc.summaries, hc.histograms⟩, rfl, rfl, ?_, (fun _ e => by cases e)⟩
      · intro key f hf
        rw [lookupKey_cons] at hf
        split at hf
        · next hk => injection hf with hf; subst hf; subst hk; exact ⟨rfl, rfl⟩
        · exact hc.gauges _ _ hf
      · intro f' e
        injection e with e; injection e with e; subst e
        exact ⟨rfl, rfl, fun h => by cases h⟩

theorem counterVecD_spec (cfg : Cfg) (us : List Use) (r : Reporter) (name : Bytes) (keys : List Bytes) (desc : Bytes)
    (hc : CacheOk cfg us r) : VecSpec cfg us r .counter name (counterVecD r name keys desc) := by
  unfold counterVecD
  split
  · next f hf =>
    have := hc.counters _ _ hf
    exact ⟨hc, rfl, rfl, (fun f' e => by
      injection e with e; injection e with e; subst e
      exact ⟨this.1, this.2, fun h => by rw [this.2] at h; cases h⟩), (fun _ e => by cases e)⟩
  · dsimp only
    split
    · exact ⟨hc, rfl, rfl, (fun f' e => by cases e), (fun _ e => by cases e)⟩
    · refine ⟨⟨?_, hc.gauges, hc.summaries, hc.histograms⟩, rfl, rfl, ?_, (fun _ e => by cases e)⟩
      · intro key f hf
        rw [lookupKey_cons] at hf
        split at hf
        · next hk => injection hf with hf; subst hf; subst hk; exact ⟨rfl, rfl⟩
        · exact hc.counters _ _ hf
      · intro f' e
        injection e with e; injection e with e; subst e
        exact ⟨rfl, rfl, fun h => by cases h⟩

theorem gaugeVecD_spec (cfg : Cfg) (us : List Use) (r : Reporter) (name : Bytes) (keys : List Bytes) (desc : Bytes)
    (hc : CacheOk cfg us r) : VecSpec cfg us r .gauge name (gaugeVecD r name keys desc) := by
  unfold gaugeVecD
  split
  · next f hf =>
    have := hc.gauges _ _ hf
    exact ⟨hc, rfl, rfl, (fun f' e => by
      injection e with e; injection e with e; subst e
      exact ⟨this.1, this.2, fun h => by rw [this.2] at h; cases h⟩), (fun _ e => by cases e)⟩
  · dsimp only
    split
    · exact ⟨hc, rfl, rfl, (fun f' e => by cases e), (fun _ e => by cases e)⟩
    · refine ⟨⟨hc.counters, ?_, hc.summaries, hc.histograms⟩, rfl, rfl, ?_, (fun _ e => by cases e)⟩
      · intro key f hf
        rw [lookupKey_cons] at hf
        split at hf
        · next hk => injection hf with hf; subst hf; subst hk; exact ⟨rfl, rfl⟩
        · exact hc.gauges _ _ hf
      · intro f' e
        injection e with e; injection e with e; subst e
        exact ⟨rfl, rfl, fun h => by cases h⟩

theorem hitResult_some (v : Variant) (field : Option Family) (f : Family) (h : hitResult v field = .vec (some f)) :
    field = some f := by
  cases v <;> cases field <;> simp [hitResult] at h <;> simp [h]

theorem hitResult_repaired (field : Option Family) : hitResult .repaired field ≠ .vec none := by
  cases field <;> simp [hitResult]


theorem summaryVec_spec (cfg : Cfg) (us : List Use) (r : Reporter) (name : Bytes) (keys : List Bytes) (kind : UseKind)
    (hk : Spec.C17.typeOf cfg.histTimers kind = .summary) (hc : CacheOk cfg us r) :
    VecSpec cfg us r kind name (summaryVec cfg.variant r name keys) := by
  unfold summaryVec
  split
  · next e he =>
    refine ⟨hc, rfl, rfl, ?_, ?_⟩
    · intro f hf
      have hs := hitResult_some _ _ _ hf
      have := hc.summaries _ _ _ he hs
      exact ⟨this.1, by rw [hk]; exact this.2, fun h => by rw [this.2] at h; cases h⟩
    · intro hv; simp only [hv]; exact hitResult_repaired _
  · dsimp only
    split
    · exact ⟨hc, rfl, rfl, (fun f' e => by cases e), (fun _ e => by cases e)⟩
    · refine ⟨⟨hc.counters, hc.gauges, ?_, ?_⟩, rfl, rfl, ?_, (fun _ e => by cases e)⟩
      · intro key e f he hs
        rw [lookupKey_cons] at he
        split at he
        · next hkey =>
          injection he with he; subst he; subst hkey
          injection hs with hs; subst hs; exact ⟨rfl, rfl⟩
        · exact hc.summaries _ _ _ he hs
      · intro key e f he hs
        rw [lookupKey_cons] at he
        split at he
        · injection he with he; subst he; cases hs
        · exact hc.histograms _ _ _ he hs
      · intro f' e
        injection e with e; injection e with e; subst e
        exact ⟨rfl, by rw [hk]; rfl, fun h => by cases h⟩

theorem histogramVec_spec (cfg : Cfg) (us : List Use) (r : Reporter) (name : Bytes) (keys : List Bytes)
    (bounds : List F64) (kind : UseKind)
    (hk : Spec.C17.typeOf cfg.histTimers kind = .histogram)
    (hu : ∃ u ∈ us, u.2.1 = name ∧ bounds = kindBounds cfg u.1) (hc : CacheOk cfg us r) :
    VecSpec cfg us r kind name (histogramVec cfg.variant r name keys bounds) := by
  unfold histogramVec
  split
  · next e he =>
    refine ⟨hc, rfl, rfl, ?_, ?_⟩
    · intro f hf
      have hs := hitResult_some _ _ _ hf
      obtain ⟨h1, h2, u, hu1, hu2, hu3⟩ := hc.histograms _ _ _ he hs
      exact ⟨h1, by rw [hk]; exact h2, fun _ => ⟨u, hu1, by rw [hu2]; exact h1, hu3⟩⟩
    · intro hv; simp only [hv]; exact hitResult_repaired _
  · dsimp only
    split
    · exact ⟨hc, rfl, rfl, (fun f' e => by cases e), (fun _ e => by cases e)⟩
    · refine ⟨⟨hc.counters, hc.gauges, ?_, ?_⟩, rfl, rfl, ?_, (fun _ e => by cases e)⟩
      · intro key e f he hs
        rw [lookupKey_cons] at he
        split at he
        · injection he with he; subst he; cases hs
        · exact hc.summaries _ _ _ he hs
      · intro key e f he hs
        rw [lookupKey_cons] at he
        split at he
        · next hkey =>
          injection he with he; subst he; subst hkey
          injection hs with hs; subst hs
          obtain ⟨u, hu1, hu2, hu3⟩ := hu
          exact ⟨rfl, rfl, u, hu1, hu2, hu3⟩
        · exact hc.histograms _ _ _ he hs
      · intro f' e
        injection e with e; injection e with e; subst e
        obtain ⟨u, hu1, hu2, hu3⟩ := hu
        exact ⟨rfl, by rw [hk]; rfl, fun _ => ⟨u, hu1, hu2, hu3⟩⟩

/-- every vector getter, as used by a first use that is itself among `us` -/
theorem vecFor_spec (cfg : Cfg) (us : List Use) (r : Reporter) (kind : UseKind) (name : Bytes) (tags : Tags)
    (hmem : (kind, name, tags) ∈ us) (hc : CacheOk cfg us r) :
    VecSpec cfg us r kind name (vecFor cfg r kind name (keysOf tags)) := by
  have hu : ∃ u ∈ us, u.2.1 = name ∧ kindBounds cfg kind = kindBounds cfg u.1 := ⟨_, hmem, rfl, rfl⟩
  cases kind with
  | counter => exact counterVec_spec cfg us r name _ hc
  | gauge => exact gaugeVec_spec cfg us r name _ hc
  | timer =>
    simp only [vecFor]
    split
    · next h => exact histogramVec_spec cfg us r name _ _ .timer (by simp [Spec.C17.typeOf, h]) hu hc
    · next h => exact summaryVec_spec cfg us r name _ .timer (by simp [Spec.C17.typeOf, h]) hc
  | timerAs h =>
    cases h
    · exact summaryVec_spec cfg us r name _ (.timerAs false) (by simp [Spec.C17.typeOf]) hc
    · exact histogramVec_spec cfg us r name _ _ (.timerAs true) (by simp [Spec.C17.typeOf]) hu hc
  | histogram spec =>
    exact histogramVec_spec cfg us r name _ _ (.histogram spec) (by simp [Spec.C17.typeOf]) hu hc
  | counterAs =>
    have h := counterVec_spec cfg us r name (keysOf tags) hc
    exact ⟨h.cache, h.series, h.errors, h.fam, h.repaired⟩
  | gaugeAs =>
    have h := gaugeVec_spec cfg us r name (keysOf tags) hc
    exact ⟨h.cache, h.series, h.errors, h.fam, h.repaired⟩
  | counterAsD desc =>
    have h := counterVecD_spec cfg us r name (keysOf tags) desc hc
    exact ⟨h.cache, h.series, h.errors, h.fam, h.repaired⟩
  | gaugeAsD desc =>
    have h := gaugeVecD_spec cfg us r name (keysOf tags) desc hc
    exact ⟨h.cache, h.series, h.errors, h.fam, h.repaired⟩


def seriesAfter (s : List (SeriesKey × Val)) (k : SeriesKey) (f : Family) : List (SeriesKey × Val) :=
  match getS s k with
  | some _ => s
  | none => setS s k (Val.zero f)

theorem withSeries_series (r : Reporter) (f : Family) (tags : Tags) :
    (withSeries r f tags).series = seriesAfter r.series ⟨f.name, tags⟩ f := by
  unfold withSeries seriesAfter
  dsimp only
  cases h : getS r.series ⟨f.name, tags⟩ <;> rfl

theorem withSeries_static (r : Reporter) (f : Family) (tags : Tags) : SameStatic (withSeries r f tags) r := by
  unfold withSeries
  dsimp only
  split <;> exact ⟨rfl, rfl, rfl, rfl, rfl⟩

theorem CacheOk.of_static {cfg : Cfg} {us : List Use} {a b : Reporter} (h : CacheOk cfg us b)
    (hc : a.counters = b.counters) (hg : a.gauges = b.gauges) (ht : a.timers = b.timers) : CacheOk cfg us a :=
  ⟨by rw [hc]; exact h.counters, by rw [hg]; exact h.gauges, by rw [ht]; exact h.summaries, by rw [ht]; exact h.histograms⟩

/-- what a first use does, given that the use itself is listed in `us` -/
structure UseSpec (cfg : Cfg) (us : List Use) (r : Reporter) (kind : UseKind) (name : Bytes) (tags : Tags)
    (p : Reporter × Outcome) : Prop where
  cache : CacheOk cfg us p.1
  /-- not usable: the series are untouched -/
  other : (∀ k, p.2 ≠ .usable k) → p.1.series = r.series
  /-- usable: the series of exactly `(name, tags)`, created from the vector's family if it is new -/
  usable : ∀ k, p.2 = .usable k → k = ⟨name, tags⟩ ∧ ∃ f : Family,
    f.kind = Spec.C17.typeOf cfg.histTimers kind
      ∧ (f.kind = .histogram → ∃ u ∈ us, u.2.1 = name ∧ f.bounds = kindBounds cfg u.1)
      ∧ p.1.series = seriesAfter r.series ⟨name, tags⟩ f
  repaired : cfg.variant = .repaired → p.2 ≠ .nilDeref
  /-- the callback is invoked exactly when the outcome says so -/
  callbacks : p.1.errors.length - r.errors.length =
    (match p.2 with | .noop => 1 | .callbackPanic => 1 | _ => 0)
  alloc : Spec.C17.viaRegister kind = false → (∀ e, p.2 ≠ .regError e) ∧ (p.2 = .callbackPanic → cfg.cbPanics = true)
    ∧ (p.2 = .noop → cfg.cbPanics = false)
  register : Spec.C17.viaRegister kind = true → p.2 ≠ .noop ∧ p.2 ≠ .callbackPanic

theorem useMetric_spec (cfg : Cfg) (us : List Use) (r : Reporter) (kind : UseKind) (name : Bytes) (tags : Tags)
    (hmem : (kind, name, tags) ∈ us) (hc : CacheOk cfg us r) :
    UseSpec cfg us r kind name tags (useMetric cfg r kind name tags) := by
  have hv := vecFor_spec cfg us r kind name tags hmem hc
  rw [useMetric_eq]
  generalize vecFor cfg r kind name (keysOf tags) = p at hv
  obtain ⟨r1, res⟩ := p
  have hser : r1.series = r.series := hv.series
  have herr : r1.errors = r.errors := hv.errors
  cases res with
  | err e =>
    split
    · next hreg =>
      simp only [finishRegister]
      refine ⟨hv.cache, fun _ => hser, ?_, ?_, ?_, ?_, ?_⟩
      · intro k h; cases h
      · intro _ h; cases h
      · simp [herr]
      · intro h; rw [hreg] at h; cases h
      · intro _; simp
    · next hreg =>
      simp only [finishAlloc]
      refine ⟨hv.cache.of_static rfl rfl rfl, fun _ => hser, ?_, ?_, ?_, ?_, ?_⟩
      · intro k h; split at h <;> cases h
      · intro _ h; split at h <;> cases h
      · simp only [List.length_append, List.length_singleton, herr]
        cases cfg.cbPanics <;> simp
      · intro _
        cases cfg.cbPanics <;> simp
      · intro h; rw [h] at hreg; simp at hreg
  | vec o =>
    cases o with
    | none =>
      have hrep := hv.repaired
      split
      · next hreg =>
        simp only [finishRegister]
        refine ⟨hv.cache, fun _ => hser, ?_, ?_, ?_, ?_, ?_⟩
        · intro k h; cases h
        · intro hvar _; exact hrep hvar rfl
        · simp [herr]
        · intro h; rw [hreg] at h; cases h
        · intro _; simp
      · next hreg =>
        simp only [finishAlloc]
        refine ⟨hv.cache, fun _ => hser, ?_, ?_, ?_, ?_, ?_⟩
        · intro k h; cases h
        · intro hvar _; exact hrep hvar rfl
        · simp [herr]
        · intro _; simp
        · intro h; rw [h] at hreg; simp at hreg
    | some f =>
      obtain ⟨hn, hk, hb⟩ := hv.fam f rfl
      have hst := withSeries_static r1 f tags
      have hss : (withSeries r1 f tags).series = seriesAfter r.series ⟨name, tags⟩ f := by
        rw [withSeries_series, hser, hn]
      have hcache : CacheOk cfg us (withSeries r1 f tags) := hv.cache.of_static hst.counters hst.gauges hst.timers
      have herr' : (withSeries r1 f tags).errors.length - r.errors.length = 0 := by rw [hst.errors, herr]; simp
      have husable : ∀ k, Outcome.usable ⟨f.name, tags⟩ = Outcome.usable k → k = ⟨name, tags⟩ ∧ ∃ f' : Family,
          f'.kind = Spec.C17.typeOf cfg.histTimers kind
            ∧ (f'.kind = .histogram → ∃ u ∈ us, u.2.1 = name ∧ f'.bounds = kindBounds cfg u.1)
            ∧ (withSeries r1 f tags).series = seriesAfter r.series ⟨name, tags⟩ f' := by
        intro k h
        injection h with h
        exact ⟨by rw [← h, hn], f, hk, hb, hss⟩
      split
      · next hreg =>
        simp only [finishRegister]
        refine ⟨hcache, fun h => absurd rfl (h _), husable, ?_, herr', ?_, ?_⟩
        · intro _ h; cases h
        · intro h; rw [hreg] at h; cases h
        · intro _; simp
      · next hreg =>
        simp only [finishAlloc]
        refine ⟨hcache, fun h => absurd rfl (h _), husable, ?_, herr', ?_, ?_⟩
        · intro _ h; cases h
        · intro _; simp
        · intro h; rw [h] at hreg; simp at hreg


/-! ### invariants of a run -/

structure Inv (cfg : Cfg) (us : List Use) (w : World) : Prop where
  cache : CacheOk cfg us w.rep
  len : w.metrics.length = us.length
  handles : ∀ (j : Nat) (m : Metric), w.metrics[j]? = some m →
    m.handle = .noop ∨ ∃ u, us[j]? = some u ∧ m.handle = .series ⟨u.2.1, u.2.2⟩
  keys : ∀ k ∈ keysS w.rep.series, ∃ u ∈ us, u.2 = (k.name, k.labels)
  nodup : (keysS w.rep.series).Nodup

theorem Inv.of_same {cfg : Cfg} {us : List Use} {w w' : World} (h : Inv cfg us w)
    (hst : SameStatic w'.rep w.rep) (hk : keysS w'.rep.series = keysS w.rep.series)
    (hl : w'.metrics.length = w.metrics.length)
    (hh : ∀ j : Nat, (w'.metrics[j]?).map Metric.handle = (w.metrics[j]?).map Metric.handle) : Inv cfg us w' := by
  refine ⟨h.cache.of_static hst.counters hst.gauges hst.timers, hl.trans h.len, ?_, by rw [hk]; exact h.keys,
    by rw [hk]; exact h.nodup⟩
  intro j m hm
  have := hh j
  rw [hm] at this
  cases hm0 : w.metrics[j]? with
  | none => rw [hm0] at this; cases this
  | some m0 =>
    rw [hm0] at this
    simp only [Option.map_some, Option.some.injEq] at this
    rw [this]
    exact h.handles j m0 hm0

theorem seriesAfter_keys (s : List (SeriesKey × Val)) (k : SeriesKey) (f : Family) :
    ∀ k' ∈ keysS (seriesAfter s k f), k' ∈ keysS s ∨ k' = k := by
  intro k' hk'
  unfold seriesAfter at hk'
  split at hk'
  · exact Or.inl hk'
  · rw [keysS_setS] at hk'
    split at hk'
    · exact Or.inl hk'
    · simp only [List.mem_append, List.mem_singleton] at hk'
      exact hk'

theorem seriesAfter_nodup (s : List (SeriesKey × Val)) (k : SeriesKey) (f : Family) (h : (keysS s).Nodup) :
    (keysS (seriesAfter s k f)).Nodup := by
  unfold seriesAfter
  split
  · exact h
  · exact nodup_keysS_setS _ _ _ h

theorem seriesAfter_get_other (s : List (SeriesKey × Val)) (k k' : SeriesKey) (f : Family) (h : k ≠ k') :
    getS (seriesAfter s k f) k' = getS s k' := by
  unfold seriesAfter
  split
  · rfl
  · exact getS_setS_other _ _ _ _ h

theorem seriesAfter_get_fresh (s : List (SeriesKey × Val)) (k : SeriesKey) (f : Family) (h : getS s k = none) :
    getS (seriesAfter s k f) k = some (Val.zero f) := by
  unfold seriesAfter
  rw [h]
  exact getS_setS_same _ _ _

def stepUses : Ev → List Use
  | .use kind name tags => [(kind, name, tags)]
  | _ => []

theorem usesOf_cons (e : Ev) (t : List Ev) : usesOf (e :: t) = stepUses e ++ usesOf t := by
  cases e <;> rfl

theorem inv_step (cfg : Cfg) (us : List Use) (w : World) (ev : Ev) (h : Inv cfg us w) :
    Inv cfg (us ++ stepUses ev) (step cfg w ev) := by
  cases ev with
  | op i e =>
    simp only [stepUses, List.append_nil, step]
    split
    · exact h
    · exact h.of_same (apply_static w i e) (apply_keys w i e) (apply_length w i e) (fun j => apply_handle w j i e)
  | pass =>
    simp only [stepUses, List.append_nil, step]
    exact h.of_same (passFrom_static w _) (passFrom_keys w _) (passFrom_length w _) (fun j => passFrom_handle w _ j)
  | use kind name tags =>
    simp only [stepUses, step]
    have hc : CacheOk cfg (us ++ [(kind, name, tags)]) w.rep := h.cache.mono (fun u hu => List.mem_append_left _ hu)
    have hs := useMetric_spec cfg (us ++ [(kind, name, tags)]) w.rep kind name tags (by simp) hc
    generalize useMetric cfg w.rep kind name tags = p at hs
    obtain ⟨r', o⟩ := p
    refine ⟨hs.cache, by simp [h.len], ?_, ?_, ?_⟩
    · intro j m hm
      simp only at hm
      rcases Nat.lt_or_ge j w.metrics.length with hj | hj
      · rw [List.getElem?_append_left hj] at hm
        rcases h.handles j m hm with hh | ⟨u, hu, hh⟩
        · exact Or.inl hh
        · refine Or.inr ⟨u, ?_, hh⟩
          rw [List.getElem?_append_left (by rw [← h.len]; exact hj)]
          exact hu
      · rw [List.getElem?_append_right hj] at hm
        have hj0 : j - w.metrics.length = 0 := by
          rcases Nat.eq_zero_or_pos (j - w.metrics.length) with h0 | h0
          · exact h0
          · rw [List.getElem?_eq_none (by simp; omega)] at hm; cases hm
        rw [hj0] at hm
        simp only [List.getElem?_cons_zero, Option.some.injEq] at hm
        have hjl : j = us.length := by rw [← h.len]; omega
        cases o with
        | usable k =>
          obtain ⟨hk, _⟩ := hs.usable k rfl
          refine Or.inr ⟨(kind, name, tags), ?_, ?_⟩
          · rw [hjl]; simp
          · rw [← hm, hk]; cases kind <;> rfl
        | noop => left; rw [← hm]; cases kind <;> rfl
        | callbackPanic => left; rw [← hm]; rfl
        | regError e => left; rw [← hm]; rfl
        | nilDeref => left; rw [← hm]; rfl
    · intro k hk
      simp only at hk
      by_cases hu : ∃ k', o = .usable k'
      · obtain ⟨k', hk'⟩ := hu
        obtain ⟨hkk, f, _, _, hser⟩ := hs.usable k' hk'
        simp only at hser
        rw [hser] at hk
        rcases seriesAfter_keys _ _ _ k hk with h1 | h1
        · obtain ⟨u, hu1, hu2⟩ := h.keys k h1
          exact ⟨u, List.mem_append_left _ hu1, hu2⟩
        · exact ⟨(kind, name, tags), by simp, by rw [h1]⟩
      · have := hs.other (fun k' e => hu ⟨k', e⟩)
        simp only at this
        rw [this] at hk
        obtain ⟨u, hu1, hu2⟩ := h.keys k hk
        exact ⟨u, List.mem_append_left _ hu1, hu2⟩
    · simp only
      by_cases hu : ∃ k', o = .usable k'
      · obtain ⟨k', hk'⟩ := hu
        obtain ⟨hkk, f, _, _, hser⟩ := hs.usable k' hk'
        simp only at hser
        rw [hser]
        exact seriesAfter_nodup _ _ _ h.nodup
      · have := hs.other (fun k' e => hu ⟨k', e⟩)
        simp only at this
        rw [this]
        exact h.nodup

theorem inv_foldl (cfg : Cfg) (evs : List Ev) (us : List Use) (w : World) (h : Inv cfg us w) :
    Inv cfg (us ++ usesOf evs) (evs.foldl (step cfg) w) := by
  induction evs generalizing us w with
  | nil => simpa [usesOf] using h
  | cons e t ih =>
    simp only [List.foldl_cons]
    have := ih _ _ (inv_step cfg us w e h)
    rw [usesOf_cons, ← List.append_assoc]
    exact this

theorem inv_init (cfg : Cfg) : Inv cfg [] {} := by
  refine ⟨⟨?_, ?_, ?_, ?_⟩, rfl, ?_, ?_, ?_⟩
  · intro key f h; cases h
  · intro key f h; cases h
  · intro key e f h; cases h
  · intro key e f h; cases h
  · intro j m h; cases h
  · intro k hk; cases hk
  · exact List.nodup_nil

theorem inv_run (cfg : Cfg) (evs : List Ev) : Inv cfg (usesOf evs) (run cfg evs) := by
  have := inv_foldl cfg evs [] {} (inv_init cfg)
  simpa [run] using this


/-! ### the life of one metric object inside a run -/

/-- the events of a history that concern metric object `i`, in order; a report pass concerns all -/
def proj (i : Nat) : List Ev → List LEv
  | [] => []
  | .op j e :: t => if j = i ∧ e ≠ .pass then e :: proj i t else proj i t
  | .pass :: t => .pass :: proj i t
  | .use _ _ _ :: t => proj i t

theorem proj_append (i : Nat) (a b : List Ev) : proj i (a ++ b) = proj i a ++ proj i b := by
  induction a with
  | nil => rfl
  | cons e t ih =>
    cases e with
    | use _ _ _ => simpa [proj] using ih
    | op j e => simp only [List.cons_append, proj]; split <;> simp [ih]
    | pass => simp [proj, ih]

theorem sim (cfg : Cfg) (i : Nat) (k : SeriesKey) (post : List Ev) :
    ∀ (us : List Use) (w : World) (m : Metric) (v : Val),
      Inv cfg us w → w.metrics[i]? = some m → m.handle = .series k → getS w.rep.series k = some v → Owns w i k →
      (∀ kind name tags, Ev.use kind name tags ∈ post → (⟨name, tags⟩ : SeriesKey) ≠ k) →
      (post.foldl (step cfg) w).metrics[i]? = some (localRun m v (proj i post)).1
        ∧ getS (post.foldl (step cfg) w).rep.series k = some (localRun m v (proj i post)).2 := by
  induction post with
  | nil => intro us w m v _ hm _ hv _ _; exact ⟨hm, hv⟩
  | cons ev t ih =>
    intro us w m v hinv hm hh hv hown hne
    have hinv' := inv_step cfg us w ev hinv
    have hne' : ∀ kind name tags, Ev.use kind name tags ∈ t → (⟨name, tags⟩ : SeriesKey) ≠ k :=
      fun kind name tags hmem => hne kind name tags (List.mem_cons_of_mem _ hmem)
    have hi : i < w.metrics.length := by
      rcases Nat.lt_or_ge i w.metrics.length with h | h
      · exact h
      · rw [List.getElem?_eq_none h] at hm; cases hm
    simp only [List.foldl_cons]
    cases ev with
    | op j e =>
      simp only [proj]
      by_cases hp : e = .pass
      · subst hp
        simp only [step, if_true, ne_eq, not_true_eq_false, and_false, if_false]
        simp only [step, if_true] at hinv'
        exact ih _ w m v hinv' hm hh hv hown hne'
      · simp only [step, hp, if_false] at hinv' ⊢
        by_cases hji : j = i
        · subst hji
          simp only [ne_eq, hp, not_false_eq_true, and_self, if_true, localRun]
          obtain ⟨h1, h2⟩ := apply_self w j e m k v hm hh hv
          exact ih _ (w.apply j e) _ _ hinv' h1 (by rw [localStep_handle]; exact hh) h2 (owns_apply w j j e k hown) hne'
        · simp only [hji, false_and, if_false]
          obtain ⟨h1, h2⟩ := apply_other w i j e k hji (hown j hji)
          exact ih _ (w.apply j e) m v hinv' (by rw [h1]; exact hm) hh (by rw [h2]; exact hv)
            (owns_apply w i j e k hown) hne'
    | pass =>
      simp only [proj, localRun, step] at hinv' ⊢
      obtain ⟨h1, h2⟩ := passFrom_sim (List.range w.metrics.length) List.nodup_range w i m k v hm hh hv hown
      have hmem : i ∈ List.range w.metrics.length := List.mem_range.mpr hi
      simp only [hmem, if_true] at h1 h2
      exact ih _ _ _ _ hinv' h1 (by rw [localStep_handle]; exact hh) h2 (owns_passFrom w _ i k hown) hne'
    | use kind name tags =>
      simp only [proj]
      have hkne : (⟨name, tags⟩ : SeriesKey) ≠ k := hne kind name tags (List.mem_cons_self ..)
      have hc : CacheOk cfg (us ++ [(kind, name, tags)]) w.rep := hinv.cache.mono (fun u hu => List.mem_append_left _ hu)
      have hs := useMetric_spec cfg (us ++ [(kind, name, tags)]) w.rep kind name tags (by simp) hc
      simp only [step, stepUses] at hinv' ⊢
      generalize useMetric cfg w.rep kind name tags = p at hs hinv'
      obtain ⟨r', o⟩ := p
      simp only at hinv' ⊢
      apply ih _ _ m v hinv'
      · simp only
        rw [List.getElem?_append_left hi]; exact hm
      · exact hh
      · simp only
        by_cases hu : ∃ k', o = .usable k'
        · obtain ⟨k', hk'⟩ := hu
          obtain ⟨hkk, f, _, _, hser⟩ := hs.usable k' hk'
          simp only at hser
          rw [hser, seriesAfter_get_other _ _ _ _ hkne]; exact hv
        · have := hs.other (fun k' e => hu ⟨k', e⟩)
          simp only at this
          rw [this]; exact hv
      · intro j hj
        simp only
        rcases Nat.lt_or_ge j w.metrics.length with hjl | hjl
        · rw [List.getElem?_append_left hjl]; exact hown j hj
        · rw [List.getElem?_append_right hjl]
          rcases Nat.eq_zero_or_pos (j - w.metrics.length) with h0 | h0
          · rw [h0]
            simp only [List.getElem?_cons_zero, Option.map_some, ne_eq, Option.some.injEq]
            cases o with
            | usable k' =>
              obtain ⟨hkk, _⟩ := hs.usable k' rfl
              intro e
              have : Handle.series k' = Handle.series k := by
                rw [← e]; cases kind <;> rfl
              injection this with this
              exact hkne (by rw [← hkk]; exact this)
            | noop => intro e; cases kind <;> cases e
            | callbackPanic => intro e; cases e
            | regError e' => intro e; cases e
            | nilDeref => intro e; cases e
          · rw [List.getElem?_eq_none (by simp; omega)]; simp
      · exact hne'


theorem mem_usesOf (evs : List Ev) (kind : UseKind) (name : Bytes) (tags : Tags) :
    Ev.use kind name tags ∈ evs → (kind, name, tags) ∈ usesOf evs := by
  induction evs with
  | nil => intro h; cases h
  | cons e t ih =>
    intro h
    rcases List.mem_cons.mp h with h | h
    · subst h; simp [usesOf]
    · have := ih h
      cases e <;> simp [usesOf, this]

theorem run_append (cfg : Cfg) (a b : List Ev) : run cfg (a ++ b) = b.foldl (step cfg) (run cfg a) := by
  simp [run, List.foldl_append]

/-- **simulation**: a metric object whose first use returned a usable metric, in a history that
uses every `(name, tags)` once, lives exactly the life `localRun` describes, starting from the
zero series of its vector's family. -/
theorem life (cfg : Cfg) (pre post : List Ev) (kind : UseKind) (name : Bytes) (tags : Tags)
    (hd : ((usesOf (pre ++ [.use kind name tags] ++ post)).map (·.2)).Nodup)
    (hu : ∃ k, (useMetric cfg (run cfg pre).rep kind name tags).2 = .usable k) :
    ∃ f : Family, f.kind = Spec.C17.typeOf cfg.histTimers kind
      ∧ (f.kind = .histogram → ∃ u ∈ usesOf (pre ++ [.use kind name tags]), u.2.1 = name ∧ f.bounds = kindBounds cfg u.1)
      ∧ (run cfg (pre ++ [.use kind name tags] ++ post)).metrics[(usesOf pre).length]?
          = some (localRun (newMetric kind (.series ⟨name, tags⟩)) (Val.zero f) (proj (usesOf pre).length post)).1
      ∧ getS (run cfg (pre ++ [.use kind name tags] ++ post)).rep.series ⟨name, tags⟩
          = some (localRun (newMetric kind (.series ⟨name, tags⟩)) (Val.zero f) (proj (usesOf pre).length post)).2 := by
  have hinv1 := inv_run cfg pre
  have hinv2 := inv_step cfg _ _ (.use kind name tags) hinv1
  simp only [usesOf_append, List.map_append] at hd
  have hd1 := List.nodup_append.mp hd
  have hd2 := List.nodup_append.mp hd1.1
  have hpre : ∀ u ∈ usesOf pre, u.2 ≠ (name, tags) := by
    intro u hu' e
    exact hd2.2.2 u.2 (List.mem_map.mpr ⟨u, hu', rfl⟩) (name, tags) (by simp [usesOf]) e
  have hpost : ∀ u ∈ usesOf post, u.2 ≠ (name, tags) := by
    intro u hu' e
    exact hd1.2.2 (name, tags) (by simp [usesOf]) u.2 (List.mem_map.mpr ⟨u, hu', rfl⟩) e.symm
  obtain ⟨k0, hk0⟩ := hu
  have hc : CacheOk cfg (usesOf pre ++ [(kind, name, tags)]) (run cfg pre).rep :=
    hinv1.cache.mono (fun u hu => List.mem_append_left _ hu)
  have hs := useMetric_spec cfg (usesOf pre ++ [(kind, name, tags)]) (run cfg pre).rep kind name tags (by simp) hc
  obtain ⟨hk, f, hfk, hfb, hser⟩ := hs.usable k0 hk0
  subst hk
  have hfresh : getS (run cfg pre).rep.series ⟨name, tags⟩ = none := by
    rw [getS_none_iff]
    intro hmem
    obtain ⟨u, hu1, hu2⟩ := hinv1.keys _ hmem
    exact hpre u hu1 hu2
  refine ⟨f, hfk, ?_, ?_⟩
  · intro h
    obtain ⟨u, hu1, hu2⟩ := hfb h
    exact ⟨u, by simpa [usesOf_append, usesOf] using hu1, hu2⟩
  · rw [run_append, run_append]
    simp only [List.foldl_cons, List.foldl_nil]
    have hw2 : step cfg (run cfg pre) (.use kind name tags) =
        { rep := (useMetric cfg (run cfg pre).rep kind name tags).1,
          metrics := (run cfg pre).metrics ++ [newMetric kind (.series ⟨name, tags⟩)],
          trace := (step cfg (run cfg pre) (.use kind name tags)).trace } := by
      simp only [step, hk0]
    have hlen := hinv1.len
    simp only [stepUses] at hinv2
    apply sim cfg _ ⟨name, tags⟩ post _ _ _ _ hinv2
    · rw [hw2]
      simp only
      rw [List.getElem?_append_right (by omega)]
      simp [hlen]
    · cases kind <;> rfl
    · rw [hw2]
      simp only
      rw [hser]
      exact seriesAfter_get_fresh _ _ _ hfresh
    · intro j hj
      rw [hw2]
      simp only
      rcases Nat.lt_or_ge j (run cfg pre).metrics.length with hjl | hjl
      · rw [List.getElem?_append_left hjl]
        have hjm : (run cfg pre).metrics[j]? = some (run cfg pre).metrics[j] := List.getElem?_eq_getElem hjl
        rw [hjm]
        simp only [Option.map_some, ne_eq, Option.some.injEq]
        rcases hinv1.handles j _ hjm with h1 | ⟨u, hu1, hu2⟩
        · rw [h1]; intro e; cases e
        · rw [hu2]
          intro e
          injection e with e
          have hmem : u ∈ usesOf pre := List.mem_of_getElem? hu1
          apply hpre u hmem
          injection e with e1 e2
          exact Prod.ext e1 e2
      · rw [List.getElem?_append_right hjl]
        rw [List.getElem?_eq_none (by simp; omega)]
        simp
    · intro kind' name' tags' hmem e
      have := mem_usesOf _ _ _ _ hmem
      apply hpost _ this
      injection e with e1 e2
      exact Prod.ext e1 e2

end Tally.Prom
