import Tally.Model.Thrift
/-!
# Lemmas about the Thrift wire primitives (varints, zigzag, fixed-width words, headers)

Round trips `read (write v ++ rest) = some (v, rest)` for every primitive of the compact and the
binary protocol, plus the length facts used by the size theorems of `Props/C16.lean`.
-/
namespace Tally.Thrift

theorem toNat_ofNat8 (n : Nat) : (UInt8.ofNat n).toNat = n % 256 := by simp

/-! ## varint -/

theorem readVarint_varintAux (f : Nat) : ∀ (n : Nat) (rest : Bytes), n < 128 ^ (f + 1) →
    readVarint (varintAux f n ++ rest) = some (n, rest) := by
  induction f with
  | zero =>
    intro n rest h
    have h' : n < 128 := by simpa using h
    have : n % 256 = n := by omega
    simp [varintAux, readVarint, this, h']
  | succ f ih =>
    intro n rest h
    unfold varintAux
    by_cases hn : n < 128
    · have : n % 256 = n := by omega
      simp [hn, readVarint, this]
    · have hdiv : n / 128 < 128 ^ (f + 1) := by
        apply Nat.div_lt_of_lt_mul
        rw [Nat.pow_succ, Nat.mul_comm] at h
        exact h
      have hb : (n % 128 + 128) % 256 = n % 128 + 128 := by omega
      have hnot : ¬ (n % 128 + 128 < 128) := by omega
      simp only [hn, if_false, List.cons_append, readVarint, toNat_ofNat8, hb, hnot, ih _ rest hdiv]
      congr 2
      omega

theorem readVarint_varint (n : Nat) (rest : Bytes) (h : n < 18446744073709551616) :
    readVarint (varint n ++ rest) = some (n, rest) := by
  apply readVarint_varintAux
  have : (128 : Nat) ^ (9 + 1) = 1180591620717411303424 := by decide
  omega

theorem readVarint64_varint (n : Nat) (rest : Bytes) (h : n < 18446744073709551616) :
    readVarint64 (varint n ++ rest) = some (n, rest) := by
  have : n % 18446744073709551616 = n := by omega
  simp [readVarint64, readVarint_varint n rest h, this]

theorem varintAux_length_le (f n : Nat) : (varintAux f n).length ≤ f + 1 := by
  induction f generalizing n with
  | zero => simp [varintAux]
  | succ f ih =>
    unfold varintAux
    split
    · simp
    · have := ih (n / 128)
      simp only [List.length_cons]
      omega

theorem varintAux_length_pos (f n : Nat) : 1 ≤ (varintAux f n).length := by
  cases f with
  | zero => simp [varintAux]
  | succ f => unfold varintAux; split <;> simp

/-- a varint never takes more than 10 bytes -/
theorem varint_length_le (n : Nat) : (varint n).length ≤ 10 := varintAux_length_le 9 n

/-- monotone in the value: a larger number never has a shorter varint -/
theorem varintAux_length_mono (f : Nat) : ∀ a b : Nat, a ≤ b →
    (varintAux f a).length ≤ (varintAux f b).length := by
  induction f with
  | zero => intro a b _; simp [varintAux]
  | succ f ih =>
    intro a b hab
    unfold varintAux
    by_cases ha : a < 128
    · simp only [ha, if_true]
      split
      · simp
      · simp
    · have hb : ¬ b < 128 := by omega
      simp only [ha, hb, if_false, List.length_cons]
      have := ih (a / 128) (b / 128) (Nat.div_le_div_right hab)
      omega

theorem varint_length_mono (a b : Nat) (h : a ≤ b) : (varint a).length ≤ (varint b).length :=
  varintAux_length_mono 9 a b h

/-- `k + 1` groups of 7 bits suffice below `128^(k+1)` -/
theorem varintAux_length_le_of_lt (f : Nat) : ∀ (n k : Nat), n < 128 ^ (k + 1) →
    (varintAux f n).length ≤ k + 1 := by
  induction f with
  | zero => intro n k _; simp [varintAux]
  | succ f ih =>
    intro n k h
    unfold varintAux
    by_cases hn : n < 128
    · simp [hn]
    · cases k with
      | zero => simp at h; omega
      | succ k =>
        have hdiv : n / 128 < 128 ^ (k + 1) := by
          apply Nat.div_lt_of_lt_mul
          rw [Nat.pow_succ, Nat.mul_comm] at h
          exact h
        have := ih (n / 128) k hdiv
        simp only [hn, if_false, List.length_cons]
        omega

/-- a `uint32` varint (sequence ids, lengths, list sizes) takes at most 5 bytes -/
theorem varint_length_le5 (n : Nat) (h : n < 4294967296) : (varint n).length ≤ 5 := by
  apply varintAux_length_le_of_lt 9 n 4
  have : (128 : Nat) ^ (4 + 1) = 34359738368 := by decide
  omega

theorem varintAux_succ (f n : Nat) :
    varintAux (f + 1) n = if n < 128 then [UInt8.ofNat n]
                          else UInt8.ofNat (n % 128 + 128) :: varintAux f (n / 128) := by
  rw [varintAux]

/-- the fuel is irrelevant once it covers the value -/
theorem varintAux_fuel (f : Nat) : ∀ n : Nat, n < 128 ^ (f + 1) →
    varintAux (f + 1) n = varintAux f n := by
  induction f with
  | zero => intro n h; simp at h; simp [varintAux, h]
  | succ f ih =>
    intro n h
    have hdiv : n / 128 < 128 ^ (f + 1) := by
      apply Nat.div_lt_of_lt_mul
      rw [Nat.pow_succ, Nat.mul_comm] at h
      exact h
    rw [varintAux_succ (f + 1) n, ih _ hdiv]
    exact (varintAux_succ f n).symm

/-- hence `varint` satisfies the textbook recursion on every `uint64` (indeed below `2^70`) -/
theorem varint_step (n : Nat) (h : n < 18446744073709551616) :
    varint n = if n < 128 then [UInt8.ofNat n]
               else UInt8.ofNat (n % 128 + 128) :: varint (n / 128) := by
  have hdiv : n / 128 < 128 ^ (8 + 1) := by
    have : (128 : Nat) ^ (8 + 1) = 9223372036854775808 := by decide
    omega
  unfold varint
  rw [show (9 : Nat) = 8 + 1 from rfl, varintAux_succ 8, varintAux_fuel 8 _ hdiv]

/-! ## zigzag and fixed-width conversions -/

theorem unzz_zz (i : Int) : unzz (zz i) = i := by
  unfold unzz zz
  split <;> split <;> omega

theorem zz_lt32 (i : Int) (h : inI32 i = true) : zz i < 4294967296 := by
  simp only [inI32, Bool.and_eq_true, decide_eq_true_eq] at h
  unfold zz; split <;> omega

theorem zz_lt64 (i : Int) (h : inI64 i = true) : zz i < 18446744073709551616 := by
  simp only [inI64, Bool.and_eq_true, decide_eq_true_eq] at h
  unfold zz; split <;> omega

theorem zz_lt16 (i : Int) (h : inI16 i = true) : zz i < 65536 := by
  simp only [inI16, Bool.and_eq_true, decide_eq_true_eq] at h
  unfold zz; split <;> omega

theorem s16_u16 (i : Int) (h : inI16 i = true) : s16 (u16 i) = i := by
  simp only [inI16, Bool.and_eq_true, decide_eq_true_eq] at h
  unfold s16 u16; split <;> omega

theorem s32_u32 (i : Int) (h : inI32 i = true) : s32 (u32 i) = i := by
  simp only [inI32, Bool.and_eq_true, decide_eq_true_eq] at h
  unfold s32 u32; split <;> omega

theorem s64_u64 (i : Int) (h : inI64 i = true) : s64 (u64 i) = i := by
  simp only [inI64, Bool.and_eq_true, decide_eq_true_eq] at h
  unfold s64 u64; split <;> omega

theorem u16_lt (i : Int) : u16 i < 65536 := by unfold u16; omega
theorem u32_lt (i : Int) : u32 i < 4294967296 := by unfold u32; omega
theorem u64_lt (i : Int) : u64 i < 18446744073709551616 := by unfold u64; omega

theorem s32_of_lt (n : Nat) (h : n < 2147483648) : s32 n = (n : Int) := by
  unfold s32; split <;> omega

/-! ## fixed-width byte strings -/

theorem leBytes_length (k n : Nat) : (leBytes k n).length = k := by
  induction k generalizing n with
  | zero => rfl
  | succ k ih => simp [leBytes, ih]

theorem beBytes_length (k n : Nat) : (beBytes k n).length = k := by
  simp [beBytes, leBytes_length]

theorem leVal_leBytes (k : Nat) : ∀ n : Nat, n < 256 ^ k → leVal (leBytes k n) = n := by
  induction k with
  | zero => intro n h; simp at h; simp [leBytes, leVal, h]
  | succ k ih =>
    intro n h
    have hdiv : n / 256 < 256 ^ k := by
      apply Nat.div_lt_of_lt_mul
      rw [Nat.pow_succ, Nat.mul_comm] at h
      exact h
    simp only [leBytes, leVal, toNat_ofNat8, ih _ hdiv]
    omega

theorem beVal_beBytes (k n : Nat) (h : n < 256 ^ k) : beVal (beBytes k n) = n := by
  simp [beVal, beBytes, leVal_leBytes k n h]

theorem takeN_append (k : Nat) (xs rest : Bytes) (h : xs.length = k) :
    takeN k (xs ++ rest) = some (xs, rest) := by
  unfold takeN
  have : ¬ ((xs ++ rest).length < k) := by rw [List.length_append]; omega
  rw [if_neg this, List.take_left' h, List.drop_left' h]

/-! ## scalar round trips -/

theorem readI16_encI16 (p : Proto) (i : Int) (rest : Bytes) (h : inI16 i = true) :
    readI16 p (encI16 p i ++ rest) = some (i, rest) := by
  have hz := zz_lt16 i h
  have hi := h
  simp only [inI16, Bool.and_eq_true, decide_eq_true_eq] at hi
  cases p with
  | compact =>
    have h1 : zz i % 4294967296 = zz i := by omega
    have h2 : s16 (u32 i) = i := by unfold s16 u32; split <;> omega
    simp [readI16, readI32, encI16, s16_u16 i h, readVarint64_varint (zz i) rest (by omega), h1,
      unzz_zz, h2]
  | binary =>
    have hb : beVal (beBytes 2 (u16 i)) = u16 i := beVal_beBytes 2 _ (by have := u16_lt i; omega)
    simp [readI16, encI16, takeN_append 2 _ rest (beBytes_length 2 _), hb, s16_u16 i h]

theorem readI32_encI32 (p : Proto) (i : Int) (rest : Bytes) (h : inI32 i = true) :
    readI32 p (encI32 p i ++ rest) = some (i, rest) := by
  have hz := zz_lt32 i h
  cases p with
  | compact =>
    have h1 : zz i % 4294967296 = zz i := by omega
    simp [readI32, encI32, s32_u32 i h, readVarint64_varint (zz i) rest (by omega), h1, unzz_zz]
  | binary =>
    have hb : beVal (beBytes 4 (u32 i)) = u32 i := beVal_beBytes 4 _ (by have := u32_lt i; omega)
    simp [readI32, encI32, takeN_append 4 _ rest (beBytes_length 4 _), hb, s32_u32 i h]

theorem readI64_encI64 (p : Proto) (i : Int) (rest : Bytes) (h : inI64 i = true) :
    readI64 p (encI64 p i ++ rest) = some (i, rest) := by
  have hz := zz_lt64 i h
  cases p with
  | compact =>
    simp [readI64, encI64, s64_u64 i h, readVarint64_varint (zz i) rest hz, unzz_zz]
  | binary =>
    have hb : beVal (beBytes 8 (u64 i)) = u64 i := beVal_beBytes 8 _ (by have := u64_lt i; omega)
    simp [readI64, encI64, takeN_append 8 _ rest (beBytes_length 8 _), hb, s64_u64 i h]

theorem readDouble_encDouble (p : Proto) (g : UInt64) (rest : Bytes) :
    readDouble p (encDouble p g ++ rest) = some (g, rest) := by
  have hg : g.toNat < 256 ^ 8 := by have := UInt64.toNat_lt g; omega
  cases p with
  | compact =>
    simp [readDouble, encDouble, takeN_append 8 _ rest (leBytes_length 8 _), leVal_leBytes 8 _ hg]
  | binary =>
    simp [readDouble, encDouble, takeN_append 8 _ rest (beBytes_length 8 _), beVal_beBytes 8 _ hg]

theorem readStringBody_append (s rest : Bytes) :
    readStringBody (s.length : Int) (s ++ rest) = some (s, rest) := by
  unfold readStringBody
  have : ¬ ((s.length : Int) < 0) := by omega
  simp [this, takeN_append s.length s rest rfl]

theorem readString_encString (p : Proto) (s rest : Bytes) (h : lenOk s.length = true) :
    readString p (encString p s ++ rest) = some (s, rest) := by
  simp only [lenOk, decide_eq_true_eq] at h
  cases p with
  | compact =>
    have h1 : s.length % 4294967296 = s.length := by omega
    simp [readString, encString, readVarint32, h1, List.append_assoc,
      readVarint64_varint s.length (s ++ rest) (by omega), s32_of_lt _ h, readStringBody_append]
  | binary =>
    have hb : beVal (beBytes 4 s.length) = s.length := beVal_beBytes 4 _ (by omega)
    simp [readString, encString, readI32, List.append_assoc,
      takeN_append 4 _ (s ++ rest) (beBytes_length 4 _), hb, s32_of_lt _ h, readStringBody_append]

/-! ## headers -/

/-- the wire types a field or list element may have (everything but STOP / VOID / BOOL) -/
def okType (ty : Nat) : Bool :=
  ty = 3 || ty = 4 || ty = 6 || ty = 8 || ty = 10 || ty = 11 || ty = 12 || ty = 13 || ty = 14 || ty = 15

theorem okType_cases (ty : Nat) (h : okType ty = true) :
    ty = 3 ∨ ty = 4 ∨ ty = 6 ∨ ty = 8 ∨ ty = 10 ∨ ty = 11 ∨ ty = 12 ∨ ty = 13 ∨ ty = 14 ∨ ty = 15 := by
  simp [okType] at h
  omega

theorem compactType_ok (ty : Nat) (h : okType ty = true) :
    1 ≤ compactType ty ∧ compactType ty ≤ 12 ∧ ttypeOfCompact (compactType ty) = some ty := by
  rcases okType_cases ty h with h | h | h | h | h | h | h | h | h | h <;> subst h <;> decide

theorem readFieldBegin_stop (p : Proto) (last : Int) (rest : Bytes) :
    readFieldBegin p last (fieldStop ++ rest) = some (0, 0, rest) := by
  cases p <;> simp [readFieldBegin, fieldStop, readByte]

theorem readFieldBegin_fieldBegin (p : Proto) (last : Int) (ty : Nat) (id : Int) (rest : Bytes)
    (hty : okType ty = true) (hid : inI16 id = true) :
    readFieldBegin p last (fieldBegin p last ty id ++ rest) = some (ty, id, rest) := by
  obtain ⟨c1, c2, c3⟩ := compactType_ok ty hty
  cases p with
  | compact =>
    unfold fieldBegin
    simp only []
    split
    · next hd =>
      obtain ⟨hd1, hd2⟩ := hd
      have hdn : ((id - last).toNat : Int) = id - last := by omega
      have hlt : (id - last).toNat * 16 + compactType ty < 256 := by omega
      have hm : ((id - last).toNat * 16 + compactType ty) % 256
          = (id - last).toNat * 16 + compactType ty := by omega
      have h16 : ((id - last).toNat * 16 + compactType ty) % 16 = compactType ty := by omega
      have hq : ((id - last).toNat * 16 + compactType ty) / 16 = (id - last).toNat := by omega
      have hq0 : (id - last).toNat ≠ 0 := by omega
      have hc0 : compactType ty ≠ 0 := by omega
      have hmax : max (id - last) 0 = id - last := by omega
      have hid' : last + (id - last) = id := by omega
      simp [readFieldBegin, readByte, hm, h16, hq, hq0, hc0, c3, hmax, hid', s16_u16 id hid]
    · have hm : compactType ty % 256 = compactType ty := by omega
      have h16 : compactType ty % 16 = compactType ty := by omega
      have hq : compactType ty / 16 = 0 := by omega
      have hc0 : compactType ty ≠ 0 := by omega
      simp [readFieldBegin, readByte, hm, h16, hq, hc0, c3,
        readI16_encI16 .compact id rest hid]
  | binary =>
    have hlt : ty % 256 = ty := by
      rcases okType_cases ty hty with h | h | h | h | h | h | h | h | h | h <;> subst h <;> rfl
    have h0 : ty ≠ 0 := by
      rcases okType_cases ty hty with h | h | h | h | h | h | h | h | h | h <;> subst h <;> decide
    simp [readFieldBegin, fieldBegin, readByte, hlt, h0,
      readI16_encI16 .binary id rest hid]

theorem expectField_fieldBegin (p : Proto) (last : Int) (ty : Nat) (id : Int) (rest : Bytes)
    (hty : okType ty = true) (hid : inI16 id = true) :
    expectField p last ty id (fieldBegin p last ty id ++ rest) = some rest := by
  simp [expectField, readFieldBegin_fieldBegin p last ty id rest hty hid]

theorem expectStop_fieldStop (p : Proto) (last : Int) (rest : Bytes) :
    expectStop p last (fieldStop ++ rest) = some rest := by
  simp [expectStop, readFieldBegin_stop]

theorem readListBegin_listBegin (p : Proto) (ty n : Nat) (rest : Bytes)
    (hty : okType ty = true) (hn : lenOk n = true) :
    readListBegin p (listBegin p ty n ++ rest) = some (ty, n, rest) := by
  obtain ⟨c1, c2, c3⟩ := compactType_ok ty hty
  simp only [lenOk, decide_eq_true_eq] at hn
  cases p with
  | compact =>
    unfold listBegin
    simp only []
    split
    · next hs =>
      have hm : (n * 16 + compactType ty) % 256 = n * 16 + compactType ty := by omega
      have h16 : (n * 16 + compactType ty) % 16 = compactType ty := by omega
      have hq : (n * 16 + compactType ty) / 16 = n := by omega
      have hq15 : n ≠ 15 := by omega
      simp [readListBegin, readByte, hm, h16, hq, hq15, c3]
    · have hm : (240 + compactType ty) % 256 = 240 + compactType ty := by omega
      have h16 : (240 + compactType ty) % 16 = compactType ty := by omega
      have hq : (240 + compactType ty) / 16 = 15 := by omega
      have h1 : n % 4294967296 = n := by omega
      have hneg : ¬ ((n : Int) < 0) := by omega
      simp [readListBegin, readByte, hm, h16, hq, c3, h1, readVarint32,
        readVarint64_varint n rest (by omega), s32_of_lt n hn, hneg]
  | binary =>
    have hlt : ty % 256 = ty := by
      rcases okType_cases ty hty with h | h | h | h | h | h | h | h | h | h <;> subst h <;> rfl
    have hb : beVal (beBytes 4 n) = n := beVal_beBytes 4 _ (by omega)
    have hneg : ¬ ((n : Int) < 0) := by omega
    simp [readListBegin, listBegin, readByte, hlt, readI32,
      takeN_append 4 _ rest (beBytes_length 4 _), hb, s32_of_lt n hn, hneg]

theorem decList_flatMap {α : Type} (enc : α → Bytes) (dec : Bytes → Option (α × Bytes))
    (l : List α) (rest : Bytes)
    (h : ∀ x ∈ l, ∀ r : Bytes, dec (enc x ++ r) = some (x, r)) :
    decList dec l.length (l.flatMap enc ++ rest) = some (l, rest) := by
  induction l with
  | nil => simp [decList]
  | cons x xs ih =>
    have hx := h x (by simp)
    have hxs := ih (fun y hy r => h y (by simp [hy]) r)
    simp [decList, List.flatMap_cons, List.append_assoc, hx, hxs]

end Tally.Thrift
