import Tally.Model.Scope
/-!
# Helper lemmas about the sequential scope model used by C10 (timers) and C11 (snapshots)

Part A (any reporter kind): a lossy *frame* relation between states that every non-creating
operation satisfies (configuration, separator, timer-handle table and id counter unchanged; the
metrics of a scope only shrink / keep kind and name), the timer-handle invariant, and the fact that
no operation except `.record` emits a timer event.

Part B (reporter-less test scopes, `cfg.kind = .none`): precise effect of every operation on
the scope list, the registry and on each single metric; structure of the snapshot.
-/
namespace Tally.ScopeRec
open Tally Tally.KeyGen Tally.Sanitize Tally.Buckets Tally.Scope

/-- run a program, keep the final state -/
def runOps (st : St) : List Op → St := fun ops => ops.foldl (fun s op => (step s op).1) st

/-- run a program, keep the final state and the outputs of all operations in order -/
def runOut (st : St) : List Op → St × List Out
  | [] => (st, [])
  | op :: ops => ((runOut (step st op).1 ops).1, (step st op).2 :: (runOut (step st op).1 ops).2)

def outEvents : Out → List Event
  | .scope _ es => es
  | .metric _ es => es
  | .events es => es

def isTimerEv : Event → Bool
  | .timer .. => true
  | _ => false

/-- the timer deliveries among some reporter events -/
def timerEvs (es : List Event) : List Event := es.filter isTimerEv

@[simp] theorem runOps_nil (st : St) : runOps st [] = st := rfl
@[simp] theorem runOps_cons (st : St) (op : Op) (ops : List Op) :
    runOps st (op :: ops) = runOps (step st op).1 ops := rfl
theorem runOps_append (st : St) (a b : List Op) : runOps st (a ++ b) = runOps (runOps st a) b := by
  simp [runOps, List.foldl_append]

theorem runOut_fst (st : St) (ops : List Op) : (runOut st ops).1 = runOps st ops := by
  induction ops generalizing st with
  | nil => rfl
  | cons op ops ih => simp [runOut, ih]

@[simp] theorem timerEvs_nil : timerEvs [] = [] := rfl
theorem timerEvs_append (a b : List Event) : timerEvs (a ++ b) = timerEvs a ++ timerEvs b := by
  simp [timerEvs]

/-! ## Part A: frames -/

/-- `s'` is `s` with some metrics dropped or updated in place (same id, kind and name) -/
def sle (s s' : ScopeS) : Prop :=
  s'.pfx = s.pfx ∧ s'.tags = s.tags ∧
  ∀ p ∈ s'.metrics, ∃ q ∈ s.metrics, q.1 = p.1 ∧ metricKind q.2 = metricKind p.2 ∧ metricName q.2 = metricName p.2

theorem sle.refl (s : ScopeS) : sle s s := ⟨rfl, rfl, fun p hp => ⟨p, hp, rfl, rfl, rfl⟩⟩

theorem sle.trans {a b c : ScopeS} (h1 : sle a b) (h2 : sle b c) : sle a c := by
  refine ⟨h2.1.trans h1.1, h2.2.1.trans h1.2.1, ?_⟩
  intro p hp
  obtain ⟨q, hq, e1, e2, e3⟩ := h2.2.2 p hp
  obtain ⟨r, hr, f1, f2, f3⟩ := h1.2.2 q hq
  exact ⟨r, hr, f1.trans e1, f2.trans e2, f3.trans e3⟩

theorem sle_clear (s t : ScopeS) (h : sle s t) : sle s { t with metrics := [] } :=
  ⟨h.1, h.2.1, by intro p hp; cases hp⟩

theorem sle_closed (s : ScopeS) (b : Bool) : sle s { s with closed := b } :=
  ⟨rfl, rfl, fun p hp => ⟨p, hp, rfl, rfl, rfl⟩⟩

/-- pointwise relation between two scope lists; the second may have additional, empty scopes -/
def ScopesRel (R : ScopeS → ScopeS → Prop) (L L' : List ScopeS) : Prop :=
  L.length ≤ L'.length ∧
  ∀ i s', L'[i]? = some s' → (∃ s, L[i]? = some s ∧ R s s') ∨ (L.length ≤ i ∧ s'.metrics = [])

theorem ScopesRel.refl {R : ScopeS → ScopeS → Prop} (hR : ∀ s, R s s) (L : List ScopeS) : ScopesRel R L L :=
  ⟨Nat.le_refl _, fun _ s' h => .inl ⟨s', h, hR _⟩⟩

theorem ScopesRel.trans {R : ScopeS → ScopeS → Prop} (hT : ∀ a b c, R a b → R b c → R a c)
    (hE : ∀ a b, R a b → a.metrics = [] → b.metrics = [])
    {A B C : List ScopeS} (h1 : ScopesRel R A B) (h2 : ScopesRel R B C) : ScopesRel R A C := by
  refine ⟨Nat.le_trans h1.1 h2.1, ?_⟩
  intro i c hc
  rcases h2.2 i c hc with ⟨b, hb, hbc⟩ | ⟨hlen, hm⟩
  · rcases h1.2 i b hb with ⟨a, ha, hab⟩ | ⟨hlen, hm⟩
    · exact .inl ⟨a, ha, hT _ _ _ hab hbc⟩
    · exact .inr ⟨hlen, hE _ _ hbc hm⟩
  · exact .inr ⟨Nat.le_trans h1.1 hlen, hm⟩

theorem ScopesRel.set {R : ScopeS → ScopeS → Prop} (hR : ∀ s, R s s)
    {L : List ScopeS} {sid : Nat} {s s' : ScopeS} (h : L[sid]? = some s) (hs : R s s') :
    ScopesRel R L (L.set sid s') := by
  refine ⟨by simp, ?_⟩
  intro i t ht
  rw [List.getElem?_set] at ht
  split at ht
  · next e =>
    subst e
    split at ht
    · injection ht with ht; subst ht; exact .inl ⟨s, h, hs⟩
    · cases ht
  · exact .inl ⟨t, ht, hR _⟩

theorem ScopesRel.append {R : ScopeS → ScopeS → Prop} (hR : ∀ s, R s s)
    {L : List ScopeS} (ns : ScopeS) (h : ns.metrics = []) : ScopesRel R L (L ++ [ns]) := by
  refine ⟨by simp, ?_⟩
  intro i t ht
  rw [List.getElem?_append] at ht
  split at ht
  · exact .inl ⟨t, ht, hR _⟩
  · next hl =>
    have : t = ns := by
      cases hi : i - L.length with
      | zero => rw [hi] at ht; simpa using ht.symm
      | succ k => rw [hi] at ht; simp at ht
    subst this
    exact .inr ⟨by omega, h⟩

theorem sle_empty (a b : ScopeS) (h : sle a b) (ha : a.metrics = []) : b.metrics = [] := by
  cases hb : b.metrics with
  | nil => rfl
  | cons p ps =>
    obtain ⟨q, hq, _⟩ := h.2.2 p (by rw [hb]; exact List.mem_cons_self)
    rw [ha] at hq; cases hq

def ScopesLe (L L' : List ScopeS) : Prop := ScopesRel sle L L'

theorem ScopesLe.refl (L : List ScopeS) : ScopesLe L L := ScopesRel.refl sle.refl L
theorem ScopesLe.trans {A B C : List ScopeS} (h1 : ScopesLe A B) (h2 : ScopesLe B C) : ScopesLe A C :=
  ScopesRel.trans (R := sle) (fun _ _ _ => sle.trans) sle_empty h1 h2
theorem ScopesLe.set {L : List ScopeS} {sid : Nat} {s s' : ScopeS} (h : L[sid]? = some s) (hs : sle s s') :
    ScopesLe L (L.set sid s') := ScopesRel.set sle.refl h hs
theorem ScopesLe.append {L : List ScopeS} (ns : ScopeS) (h : ns.metrics = []) : ScopesLe L (L ++ [ns]) :=
  ScopesRel.append sle.refl ns h

/-- what every operation that does not create a metric does to the state, as far as timers and
metric identities are concerned -/
structure Frame (st st' : St) : Prop where
  cfg : st'.cfg = st.cfg
  sep : st'.sep = st.sep
  timers : st'.timers = st.timers
  next : st'.nextMetric = st.nextMetric
  scopes : ScopesLe st.scopes st'.scopes

theorem Frame.refl (st : St) : Frame st st := ⟨rfl, rfl, rfl, rfl, ScopesLe.refl _⟩

theorem Frame.trans {a b c : St} (h1 : Frame a b) (h2 : Frame b c) : Frame a c :=
  ⟨h2.cfg.trans h1.cfg, h2.sep.trans h1.sep, h2.timers.trans h1.timers, h2.next.trans h1.next,
   h1.scopes.trans h2.scopes⟩

theorem Frame.of_scopes_eq {a b : St} (h1 : b.cfg = a.cfg) (h2 : b.sep = a.sep) (h3 : b.timers = a.timers)
    (h4 : b.nextMetric = a.nextMetric) (h5 : b.scopes = a.scopes) : Frame a b :=
  ⟨h1, h2, h3, h4, h5 ▸ ScopesLe.refl _⟩

theorem frame_regRemove (st : St) (sh : Nat) (k : Bytes) (sid : Nat) : Frame st (regRemove st sh k sid) :=
  Frame.of_scopes_eq rfl rfl rfl rfl rfl

theorem frame_regAdd (st : St) (sh : Nat) (k : Bytes) (sid : Nat) : Frame st (regAdd st sh k sid) := by
  unfold regAdd; split
  · exact Frame.refl _
  · exact Frame.of_scopes_eq rfl rfl rfl rfl rfl

theorem frame_setScope {st : St} {sid : Nat} {s s' : ScopeS} (h : getScope st sid = some s) (hs : sle s s') :
    Frame st (setScope st sid s') :=
  ⟨rfl, rfl, rfl, rfl, ScopesLe.set h hs⟩

def noTimer (es : List Event) : Prop := ∀ e ∈ es, isTimerEv e = false

theorem noTimer_nil : noTimer [] := by intro e he; cases he
theorem noTimer_append {a b : List Event} (ha : noTimer a) (hb : noTimer b) : noTimer (a ++ b) := by
  intro e he; rcases List.mem_append.mp he with h | h
  · exact ha e h
  · exact hb e h
theorem timerEvs_of_noTimer {es : List Event} (h : noTimer es) : timerEvs es = [] := by
  unfold timerEvs; rw [List.filter_eq_nil_iff]; intro e he; simp [h e he]

theorem histEvents_noTimer (n : Bytes) (tg : TagMap) (h : Hist) : noTimer (histEvents n tg h) := by
  intro e he
  unfold histEvents at he
  obtain ⟨i, _, hi⟩ := List.mem_filterMap.mp he
  simp only at hi
  split at hi
  · cases hi
  · split at hi <;> (injection hi with hi; subst hi; rfl)

theorem reportMetric_spec (sep : Bytes) (s : ScopeS) (m : Metric) :
    metricKind (reportMetric sep s m).1 = metricKind m ∧ metricName (reportMetric sep s m).1 = metricName m
    ∧ noTimer (reportMetric sep s m).2 := by
  cases m with
  | counter n u =>
    refine ⟨rfl, rfl, ?_⟩
    simp only [reportMetric]; split
    · exact noTimer_nil
    · intro e he; simp at he; subst he; rfl
  | gauge n c up =>
    refine ⟨rfl, rfl, ?_⟩
    simp only [reportMetric]; split
    · intro e he; simp at he; subst he; rfl
    · exact noTimer_nil
  | timer n vs => exact ⟨rfl, rfl, noTimer_nil⟩
  | hist n h => exact ⟨rfl, rfl, histEvents_noTimer _ _ _⟩

theorem reportScope_spec (sep : Bytes) (s : ScopeS) :
    sle s (reportScope sep s).1 ∧ noTimer (reportScope sep s).2 := by
  unfold reportScope
  simp only [List.map_map]
  refine ⟨⟨rfl, rfl, ?_⟩, ?_⟩
  · intro p hp
    obtain ⟨q, hq, rfl⟩ := List.mem_map.mp hp
    obtain ⟨i, m⟩ := q
    exact ⟨(i, m), hq, rfl, (reportMetric_spec sep s m).1.symm, (reportMetric_spec sep s m).2.1.symm⟩
  · intro e he
    obtain ⟨l, hl, hel⟩ := List.mem_flatten.mp he
    obtain ⟨q, hq, rfl⟩ := List.mem_map.mp hl
    obtain ⟨i, m⟩ := q
    exact (reportMetric_spec sep s m).2.2 e hel

theorem passEntries_spec (es : List ((Nat × Bytes) × Nat)) : ∀ (st : St),
    Frame st (passEntries st es).1 ∧ noTimer (passEntries st es).2 := by
  induction es with
  | nil => intro st; exact ⟨Frame.refl _, noTimer_nil⟩
  | cons e rest ih =>
    intro st
    obtain ⟨⟨sh, k⟩, sid⟩ := e
    unfold passEntries
    cases hg : getScope st sid with
    | none => simpa using ih st
    | some s =>
      simp only
      have hr := reportScope_spec st.sep s
      have f1 : Frame st (setScope st sid (reportScope st.sep s).1) := frame_setScope hg hr.1
      by_cases hc : s.closed = true
      · simp only [hc, if_true]
        have f2 : Frame st (setScope (regRemove (setScope st sid (reportScope st.sep s).1) sh k sid) sid
            { (reportScope st.sep s).1 with metrics := [] }) := by
          refine ⟨rfl, rfl, rfl, rfl, ?_⟩
          show ScopesLe st.scopes ((st.scopes.set sid _).set sid _)
          rw [List.set_set]
          exact ScopesLe.set hg (sle_clear _ _ hr.1)
        have := ih (setScope (regRemove (setScope st sid (reportScope st.sep s).1) sh k sid) sid
            { (reportScope st.sep s).1 with metrics := [] })
        exact ⟨f2.trans this.1, noTimer_append hr.2 this.2⟩
      · simp only [hc]
        have := ih (setScope st sid (reportScope st.sep s).1)
        exact ⟨f1.trans this.1, noTimer_append hr.2 this.2⟩

theorem reportPass_spec (st : St) : Frame st (reportPass st).1 ∧ noTimer (reportPass st).2 := by
  unfold reportPass
  split
  · exact ⟨Frame.refl _, noTimer_nil⟩
  · have := passEntries_spec st.reg st
    refine ⟨this.1, noTimer_append this.2 ?_⟩
    intro e he; simp at he; subst he; rfl

/-- clearing a closed scope after its last report (used by `subscope`) -/
theorem frame_reportClear {st : St} {sid : Nat} {s : ScopeS} (hg : getScope st sid = some s) (sep : Bytes) :
    Frame st (setScope st sid { (reportScope sep s).1 with metrics := [] }) :=
  frame_setScope hg (sle_clear _ _ (reportScope_spec sep s).1)

theorem frame_appendScope (st : St) (ns : ScopeS) (h : ns.metrics = []) :
    Frame st { st with scopes := st.scopes ++ [ns] } :=
  ⟨rfl, rfl, rfl, rfl, ScopesLe.append ns h⟩

theorem subscope_spec (st : St) (parent : Nat) (pfx : Bytes) (tags : TagMap) (sh : Nat) :
    Frame st (subscope st parent pfx tags sh).1 ∧ noTimer (outEvents (subscope st parent pfx tags sh).2) := by
  unfold subscope
  cases hp : getScope st parent with
  | none => exact ⟨Frame.refl _, noTimer_nil⟩
  | some p =>
    simp only
    split
    · exact ⟨Frame.refl _, noTimer_nil⟩
    · -- the probe
      split
      · exact ⟨Frame.refl _, noTimer_nil⟩
      · exact ⟨Frame.refl _, noTimer_nil⟩
      · next st1 evs1 hprobe =>
        have h1 : Frame st st1 ∧ noTimer evs1 := by
          split at hprobe
          · split at hprobe
            · split at hprobe
              · cases hprobe
              · next sid s hs hcl =>
                simp only [Prod.mk.injEq, Option.some.injEq] at hprobe
                obtain ⟨⟨rfl, rfl⟩, _⟩ := hprobe
                split
                · exact ⟨(frame_setScope hs (sle_clear _ _ (sle.refl _))).trans
                    ((frame_regRemove _ _ _ _).trans (frame_regRemove _ _ _ _)), noTimer_nil⟩
                · exact ⟨(frame_reportClear hs _).trans
                    ((frame_regRemove _ _ _ _).trans (frame_regRemove _ _ _ _)), (reportScope_spec _ _).2⟩
            · simp only [Prod.mk.injEq, Option.some.injEq] at hprobe
              obtain ⟨⟨rfl, rfl⟩, _⟩ := hprobe
              exact ⟨Frame.refl _, noTimer_nil⟩
          · simp only [Prod.mk.injEq, Option.some.injEq] at hprobe
            obtain ⟨⟨rfl, rfl⟩, _⟩ := hprobe
            exact ⟨Frame.refl _, noTimer_nil⟩
        -- the re-lookup
        have h2 : ∀ r : Option Nat × St × List Event,
            r = (match regLookup st1 sh (key pfx [p.tags, sanMap st.cfg tags]) with
              | some sid =>
                match getScope st1 sid with
                | some s =>
                  if (!s.closed || st1.cfg.kind == .none) = true then
                    (some sid, regAdd st1 sh (key pfx [p.tags, tags]) sid, [])
                  else
                    (none, regRemove (regRemove (setScope st1 sid { (reportScope st1.sep s).1 with metrics := [] }) sh
                      (key pfx [p.tags, sanMap st.cfg tags]) sid) sh (key pfx [p.tags, tags]) sid, (reportScope st1.sep s).2)
                | none => (none, st1, [])
              | none => (none, st1, [])) →
            Frame st1 r.2.1 ∧ noTimer r.2.2 := by
          intro r hr
          split at hr
          · split at hr
            · split at hr
              · subst hr; exact ⟨frame_regAdd _ _ _ _, noTimer_nil⟩
              · next sid s hs _ =>
                subst hr
                exact ⟨(frame_reportClear hs _).trans
                  ((frame_regRemove _ _ _ _).trans (frame_regRemove _ _ _ _)), (reportScope_spec _ _).2⟩
            · subst hr; exact ⟨Frame.refl _, noTimer_nil⟩
          · subst hr; exact ⟨Frame.refl _, noTimer_nil⟩
        split
        · next sid st2 evs2 hrel =>
          have := h2 _ hrel.symm
          exact ⟨h1.1.trans this.1, noTimer_append h1.2 this.2⟩
        · next st2 evs2 hrel =>
          have := h2 _ hrel.symm
          refine ⟨h1.1.trans (this.1.trans ?_), noTimer_append h1.2 this.2⟩
          exact (frame_appendScope _ _ rfl).trans ((frame_regAdd _ _ _ _).trans (frame_regAdd _ _ _ _))

/-! ### `updMetric` -/

/-- in-place update of the entries with id `mid` -/
def mapMetric (mid : Nat) (m' : Metric) (l : List (Nat × Metric)) : List (Nat × Metric) :=
  l.map fun (j, x) => if j == mid then (j, m') else (j, x)

theorem go_some (mid : Nat) (f : ScopeS → Metric → Metric × List Event) :
    ∀ (scs : List ScopeS) (k i : Nat) (s' : ScopeS) (evs : List Event),
    updMetric.go mid f k scs = some (i, s', evs) →
    ∃ s j x, k ≤ i ∧ scs[i - k]? = some s ∧ s.metrics.find? (·.1 == mid) = some (j, x)
      ∧ (∀ t, t < i - k → ∀ u, scs[t]? = some u → u.metrics.find? (·.1 == mid) = none)
      ∧ s' = { s with metrics := mapMetric mid (f s x).1 s.metrics } ∧ evs = (f s x).2 := by
  intro scs
  induction scs with
  | nil => intro k i s' evs h; simp [updMetric.go] at h
  | cons s rest ih =>
    intro k i s' evs h
    unfold updMetric.go at h
    split at h
    · next j x hf =>
      simp only [Option.some.injEq, Prod.mk.injEq] at h
      obtain ⟨rfl, rfl, rfl⟩ := h
      refine ⟨s, j, x, Nat.le_refl _, by simp, hf, ?_, rfl, rfl⟩
      intro t ht; omega
    · next hf =>
      obtain ⟨s0, j, x, hk, hs0, hfind, hbefore, he1, he2⟩ := ih (k + 1) i s' evs h
      have e : i - k = (i - (k + 1)) + 1 := by omega
      refine ⟨s0, j, x, by omega, by rw [e]; simpa using hs0, hfind, ?_, he1, he2⟩
      intro t ht u hu
      cases t with
      | zero => simp at hu; subst hu; exact hf
      | succ t => exact hbefore t (by omega) u (by simpa using hu)

theorem go_none (mid : Nat) (f : ScopeS → Metric → Metric × List Event) :
    ∀ (scs : List ScopeS) (k : Nat), updMetric.go mid f k scs = none →
    ∀ s ∈ scs, s.metrics.find? (·.1 == mid) = none := by
  intro scs
  induction scs with
  | nil => intro k _ s hs; cases hs
  | cons s rest ih =>
    intro k h
    unfold updMetric.go at h
    split at h
    · cases h
    · next hf =>
      intro u hu
      rcases List.mem_cons.mp hu with rfl | hu
      · exact hf
      · exact ih (k + 1) h u hu

/-- `f` keeps kind and name and emits no timer event -/
def Tame (f : ScopeS → Metric → Metric × List Event) : Prop :=
  ∀ s x, metricKind (f s x).1 = metricKind x ∧ metricName (f s x).1 = metricName x ∧ noTimer (f s x).2

theorem sle_mapMetric (s : ScopeS) (mid : Nat) (x m' : Metric) (j : Nat)
    (hf : s.metrics.find? (·.1 == mid) = some (j, x))
    (hk : metricKind m' = metricKind x) (hn : metricName m' = metricName x) :
    sle s { s with metrics := mapMetric mid m' s.metrics } := by
  refine ⟨rfl, rfl, ?_⟩
  intro p hp
  obtain ⟨q, hq, rfl⟩ := List.mem_map.mp hp
  obtain ⟨i, y⟩ := q
  simp only
  split
  · next h =>
    have hi : i = mid := by simpa using h
    have hj : j = mid := by simpa using List.find?_some hf
    exact ⟨(j, x), List.mem_of_find?_eq_some hf, by simp [hi, hj], hk.symm, hn.symm⟩
  · exact ⟨(i, y), hq, rfl, rfl, rfl⟩

theorem updMetric_spec (st : St) (mid : Nat) (f : ScopeS → Metric → Metric × List Event) (hf : Tame f) :
    Frame st (updMetric st mid f).1 ∧ noTimer (outEvents (updMetric st mid f).2) := by
  unfold updMetric
  split
  · next i s' evs hgo =>
    obtain ⟨s, j, x, _, hs, hfind, _, rfl, rfl⟩ := go_some mid f _ _ _ _ _ hgo
    simp only [Nat.sub_zero] at hs
    exact ⟨frame_setScope hs (sle_mapMetric s mid x _ j hfind (hf s x).1 (hf s x).2.1), (hf s x).2.2⟩
  · exact ⟨Frame.refl _, noTimer_nil⟩

/-! ### `getMetric` -/

theorem getMetric_cases (st : St) (sid : Nat) (kind : String) (raw : Bytes) (mk : Bytes → Metric) :
    (getScope st sid = none ∧ getMetric st sid kind raw mk = (st, .events []))
    ∨ (∃ s id, getScope st sid = some s
        ∧ findMetric s (fun m => metricKind m == kind && metricName m == sanName st.cfg raw) = some id
        ∧ getMetric st sid kind raw mk = (st, .metric id []))
    ∨ (∃ s, getScope st sid = some s
        ∧ findMetric s (fun m => metricKind m == kind && metricName m == sanName st.cfg raw) = none
        ∧ getMetric st sid kind raw mk =
          ({ setScope st sid { s with metrics := s.metrics ++ [(st.nextMetric, mk (sanName st.cfg raw))] } with
              nextMetric := st.nextMetric + 1 },
           .metric st.nextMetric
             (if st.cfg.kind == .cached then [Event.alloc kind (fqn st.sep s.pfx (sanName st.cfg raw)) s.tags] else []))) := by
  unfold getMetric
  cases hg : getScope st sid with
  | none => exact .inl ⟨rfl, rfl⟩
  | some s =>
    simp only
    cases hf : findMetric s (fun m => metricKind m == kind && metricName m == sanName st.cfg raw) with
    | some id => exact .inr (.inl ⟨s, id, rfl, hf, rfl⟩)
    | none => exact .inr (.inr ⟨s, rfl, hf, rfl⟩)

theorem getMetric_noTimer (st : St) (sid : Nat) (kind : String) (raw : Bytes) (mk : Bytes → Metric) :
    noTimer (outEvents (getMetric st sid kind raw mk).2) := by
  rcases getMetric_cases st sid kind raw mk with ⟨_, h⟩ | ⟨s, id, _, _, h⟩ | ⟨s, _, _, h⟩ <;> rw [h]
  · exact noTimer_nil
  · exact noTimer_nil
  · simp only [outEvents]; split
    · intro e he; simp at he; subst he; rfl
    · exact noTimer_nil

theorem findMetric_some {s : ScopeS} {p : Metric → Bool} {id : Nat} (h : findMetric s p = some id) :
    ∃ m, (id, m) ∈ s.metrics ∧ p m = true := by
  unfold findMetric at h
  cases hf : s.metrics.find? (fun x => p x.2) with
  | none => simp [hf] at h
  | some q =>
    simp only [hf, Option.map_some, Option.some.injEq] at h
    subst h
    exact ⟨q.2, List.mem_of_find?_eq_some hf, List.find?_some (p := fun (x : Nat × Metric) => p x.2) hf⟩

/-! ### one step -/

def isCreate : Op → Bool
  | .counter .. | .gauge .. | .timer .. | .hist .. => true
  | _ => false

theorem tame_inc (v : Int) : Tame (fun _ x => match x with
    | .counter n u => (.counter n (wrap64 (u + v)), [])
    | y => (y, [])) := by
  intro s x; cases x <;> exact ⟨rfl, rfl, noTimer_nil⟩

theorem tame_upd (v : F64) : Tame (fun _ x => match x with
    | .gauge n _ _ => (.gauge n v true, [])
    | y => (y, [])) := by
  intro s x; cases x <;> exact ⟨rfl, rfl, noTimer_nil⟩

theorem tame_record (d : Int) : Tame (fun _ x => match x with
    | .timer n vs => (.timer n (vs ++ [d]), [])
    | y => (y, [])) := by
  intro s x; cases x <;> exact ⟨rfl, rfl, noTimer_nil⟩

theorem tame_recv (v : F64) : Tame (fun _ x => match x with
    | .hist n h => if h.isDur then (x, []) else (.hist n { h with counts := bump h.counts (placeValue h.vUppers v) }, [])
    | y => (y, [])) := by
  intro s x; cases x with
  | hist n h => simp only; split <;> exact ⟨rfl, rfl, noTimer_nil⟩
  | _ => exact ⟨rfl, rfl, noTimer_nil⟩

theorem tame_recd (d : Int) : Tame (fun _ x => match x with
    | .hist n h => if !h.isDur then (x, []) else (.hist n { h with counts := bump h.counts (placeKey h.dUppers d) }, [])
    | y => (y, [])) := by
  intro s x; cases x with
  | hist n h => simp only; split <;> exact ⟨rfl, rfl, noTimer_nil⟩
  | _ => exact ⟨rfl, rfl, noTimer_nil⟩

theorem purgeFrom_length (regd : List Nat) : ∀ (L : List ScopeS) (i : Nat), (purgeFrom regd i L).length = L.length := by
  intro L
  induction L with
  | nil => intro i; rfl
  | cons x xs ih => intro i; simp [purgeFrom, ih]

theorem purgeFrom_get (regd : List Nat) : ∀ (L : List ScopeS) (i j : Nat) (t : ScopeS),
    (purgeFrom regd i L)[j]? = some t →
    ∃ x, L[j]? = some x ∧ (t = x ∨ t = { x with closed := true, metrics := [] }) := by
  intro L
  induction L with
  | nil => intro i j t h; simp [purgeFrom] at h
  | cons x xs ih =>
    intro i j t h
    cases j with
    | zero =>
      simp only [purgeFrom, List.getElem?_cons_zero, Option.some.injEq] at h
      refine ⟨x, by simp, ?_⟩
      split at h
      · exact .inr h.symm
      · exact .inl h.symm
    | succ j =>
      simp only [purgeFrom, List.getElem?_cons_succ] at h
      obtain ⟨y, hy, ht⟩ := ih (i + 1) j t h
      exact ⟨y, by simpa using hy, ht⟩

theorem close_root_aux (st X : St) (regd : List Nat) (b c : Bool) (hX : Frame st X) :
    Frame st { ({ (reportPass X).1 with
                    reg := [],
                    scopes := purgeFrom regd 0 (reportPass X).1.scopes } : St) with
               reporterClosed := b }
    ∧ noTimer ((reportPass X).2 ++ if c = true then [Event.close] else []) := by
  have hr := reportPass_spec X
  refine ⟨hX.trans (hr.1.trans ?_), ?_⟩
  · refine ⟨rfl, rfl, rfl, rfl, by simp [purgeFrom_length], ?_⟩
    intro i t ht
    obtain ⟨x, hx, hxt⟩ := purgeFrom_get regd _ 0 i t ht
    rcases hxt with rfl | rfl
    · exact .inl ⟨t, hx, sle.refl _⟩
    · exact .inl ⟨x, hx, rfl, rfl, by intro p hp; cases hp⟩
  · refine noTimer_append hr.2 ?_
    split
    · intro e he; simp at he; subst he; rfl
    · exact noTimer_nil

theorem close_spec (st : St) (sid : Nat) :
    Frame st (step st (.close sid)).1 ∧ noTimer (outEvents (step st (.close sid)).2) := by
  simp only [step]
  cases hg : getScope st sid with
  | none => exact ⟨Frame.refl _, noTimer_nil⟩
  | some s =>
    simp only
    split
    · exact ⟨Frame.refl _, noTimer_nil⟩
    · have f1 : Frame st (setScope st sid { s with closed := true }) := frame_setScope hg (sle_closed s true)
      split
      · exact ⟨f1, noTimer_nil⟩
      · split
        · exact ⟨f1.trans (Frame.of_scopes_eq rfl rfl rfl rfl rfl), noTimer_nil⟩
        · exact close_root_aux st _ _ _ _ (f1.trans (Frame.of_scopes_eq rfl rfl rfl rfl rfl))

theorem step_frame (st : St) (op : Op) (h : isCreate op = false) : Frame st (step st op).1 := by
  cases op with
  | sub p name sh =>
    simp only [step]; split
    · exact (subscope_spec _ _ _ _ _).1
    · exact Frame.refl _
  | tagged p tags sh =>
    simp only [step]; split
    · exact (subscope_spec _ _ _ _ _).1
    · exact Frame.refl _
  | counter | gauge | timer | hist => cases h
  | inc m v => exact (updMetric_spec st m _ (tame_inc v)).1
  | upd m v => exact (updMetric_spec st m _ (tame_upd v)).1
  | record m d =>
    simp only [step]; split
    · exact (updMetric_spec st m _ (tame_record d)).1
    · split <;> exact Frame.refl _
  | recv m v => exact (updMetric_spec st m _ (tame_recv v)).1
  | recd m d => exact (updMetric_spec st m _ (tame_recd d)).1
  | report =>
    simp only [step]; split
    · exact Frame.refl _
    · exact (reportPass_spec st).1
  | close sid => exact (close_spec st sid).1

def isRecord : Op → Bool
  | .record .. => true
  | _ => false

/-- **only `Record` delivers timer values** -/
theorem step_noTimer (st : St) (op : Op) (h : isRecord op = false) : noTimer (outEvents (step st op).2) := by
  cases op with
  | sub p name sh =>
    simp only [step]; split
    · exact (subscope_spec _ _ _ _ _).2
    · exact noTimer_nil
  | tagged p tags sh =>
    simp only [step]; split
    · exact (subscope_spec _ _ _ _ _).2
    · exact noTimer_nil
  | counter s n => exact getMetric_noTimer _ _ _ _ _
  | gauge s n => exact getMetric_noTimer _ _ _ _ _
  | timer s n =>
    simp only [step]
    have := getMetric_noTimer st s "timer" n (fun n => .timer n [])
    split
    · split <;> simpa using this
    · exact this
  | hist s n spec => exact getMetric_noTimer _ _ _ _ _
  | inc m v => exact (updMetric_spec st m _ (tame_inc v)).2
  | upd m v => exact (updMetric_spec st m _ (tame_upd v)).2
  | record m d => cases h
  | recv m v => exact (updMetric_spec st m _ (tame_recv v)).2
  | recd m d => exact (updMetric_spec st m _ (tame_recd d)).2
  | report =>
    simp only [step]; split
    · exact noTimer_nil
    · exact (reportPass_spec st).2
  | close sid => exact (close_spec st sid).2

/-! ### the timer-handle invariant (any reporter kind) -/

structure Inv (st : St) : Prop where
  /-- handles in the table have been allocated -/
  tk : ∀ e ∈ st.timers, e.1 < st.nextMetric
  /-- metric ids in scopes have been allocated -/
  ids : ∀ (i : Nat) (s : ScopeS), st.scopes[i]? = some s → ∀ p ∈ s.metrics, p.1 < st.nextMetric
  /-- a live timer metric's handle forwards under the full name and tags of its scope -/
  tm : ∀ (i : Nat) (s : ScopeS), st.scopes[i]? = some s → ∀ p ∈ s.metrics, metricKind p.2 = "timer" →
    st.timers.lookup p.1 = some (fqn st.sep s.pfx (metricName p.2), s.tags)

theorem Inv.frame {st st' : St} (h : Inv st) (f : Frame st st') : Inv st' := by
  refine ⟨?_, ?_, ?_⟩
  · intro e he; rw [f.timers] at he; rw [f.next]; exact h.tk e he
  · intro i s' hs' p hp
    rw [f.next]
    rcases f.scopes.2 i s' hs' with ⟨s, hs, hsle⟩ | ⟨_, hm⟩
    · obtain ⟨q, hq, e1, _, _⟩ := hsle.2.2 p hp
      rw [← e1]; exact h.ids i s hs q hq
    · rw [hm] at hp; cases hp
  · intro i s' hs' p hp hk
    rw [f.timers, f.sep]
    rcases f.scopes.2 i s' hs' with ⟨s, hs, hsle⟩ | ⟨_, hm⟩
    · obtain ⟨q, hq, e1, e2, e3⟩ := hsle.2.2 p hp
      rw [← e1, ← e3, hsle.1, hsle.2.1]; exact h.tm i s hs q hq (e2.trans hk)
    · rw [hm] at hp; cases hp

theorem lookup_isSome_mem {α : Type} (l : List (Nat × α)) (k : Nat) (h : (l.lookup k).isSome = true) :
    ∃ e ∈ l, e.1 = k := by
  induction l with
  | nil => simp at h
  | cons e l ih =>
    obtain ⟨a, b⟩ := e
    rw [List.lookup_cons] at h
    split at h
    · next hk => exact ⟨(a, b), List.mem_cons_self, by simpa using Eq.symm (by simpa using hk)⟩
    · obtain ⟨e, he, hek⟩ := ih h
      exact ⟨e, List.mem_cons_of_mem _ he, hek⟩

/-- state after a get-or-create that allocated a new metric -/
def addMetric (st : St) (sid : Nat) (s : ScopeS) (m : Metric) : St :=
  { setScope st sid { s with metrics := s.metrics ++ [(st.nextMetric, m)] } with nextMetric := st.nextMetric + 1 }

/-- the three possible results of `Timer(name)` on a scope -/
theorem step_timer_cases (st : St) (hinv : Inv st) (sid : Nat) (n : Bytes) :
    (getScope st sid = none ∧ step st (.timer sid n) = (st, .events []))
    ∨ (∃ s id, getScope st sid = some s
        ∧ findMetric s (fun m => metricKind m == "timer" && metricName m == sanName st.cfg n) = some id
        ∧ st.timers.lookup id = some (fqn st.sep s.pfx (sanName st.cfg n), s.tags)
        ∧ step st (.timer sid n) = (st, .metric id []))
    ∨ (∃ s, getScope st sid = some s
        ∧ findMetric s (fun m => metricKind m == "timer" && metricName m == sanName st.cfg n) = none
        ∧ step st (.timer sid n) =
          ({ addMetric st sid s (.timer (sanName st.cfg n) []) with
              timers := (st.nextMetric, (fqn st.sep s.pfx (sanName st.cfg n), s.tags)) :: st.timers },
           .metric st.nextMetric
             (if st.cfg.kind == .cached then [Event.alloc "timer" (fqn st.sep s.pfx (sanName st.cfg n)) s.tags] else []))) := by
  simp only [step]
  rcases getMetric_cases st sid "timer" n (fun n => .timer n []) with ⟨hg, h⟩ | ⟨s, id, hg, hf, h⟩ | ⟨s, hg, hf, h⟩
  · exact .inl ⟨hg, by rw [h]⟩
  · refine .inr (.inl ⟨s, id, hg, hf, ?_⟩)
    obtain ⟨m, hm, hp⟩ := findMetric_some hf
    simp only [Bool.and_eq_true, beq_iff_eq] at hp
    have hl := hinv.tm sid s hg (id, m) hm hp.1
    simp only [hp.2] at hl
    refine ⟨hl, ?_⟩
    rw [h, hg]
    simp [hl]
  · refine .inr (.inr ⟨s, hg, hf, ?_⟩)
    rw [h, hg]
    have hnone : (st.timers.lookup st.nextMetric).isSome = false := by
      cases hl : (st.timers.lookup st.nextMetric).isSome with
      | false => rfl
      | true =>
        obtain ⟨e, he, hek⟩ := lookup_isSome_mem _ _ hl
        have := hinv.tk e he; omega
    simp only [setScope, hnone, Bool.false_eq_true, if_false, addMetric]

theorem inv_add (st : St) (hinv : Inv st) (sid : Nat) (s : ScopeS) (hg : getScope st sid = some s) (m : Metric)
    (T : List (Nat × (Bytes × TagMap)))
    (hT : (T = st.timers ∧ metricKind m ≠ "timer")
      ∨ T = (st.nextMetric, (fqn st.sep s.pfx (metricName m), s.tags)) :: st.timers) :
    Inv { addMetric st sid s m with timers := T } := by
  have hlook : ∀ k, k < st.nextMetric → T.lookup k = st.timers.lookup k := by
    intro k hk
    rcases hT with ⟨rfl, _⟩ | rfl
    · rfl
    · rw [List.lookup_cons]
      have : (k == st.nextMetric) = false := by simp; omega
      simp [this]
  refine ⟨?_, ?_, ?_⟩
  · intro e he
    show e.1 < st.nextMetric + 1
    rcases hT with ⟨rfl, _⟩ | rfl
    · exact Nat.lt_succ_of_lt (hinv.tk e he)
    · rcases List.mem_cons.mp he with rfl | he
      · exact Nat.lt_succ_self _
      · exact Nat.lt_succ_of_lt (hinv.tk e he)
  · intro i t ht p hp
    show p.1 < st.nextMetric + 1
    simp only [addMetric, setScope, List.getElem?_set] at ht
    split at ht
    · split at ht
      · injection ht with ht; subst ht
        rcases List.mem_append.mp hp with hp | hp
        · exact Nat.lt_succ_of_lt (hinv.ids sid s hg p hp)
        · simp at hp; subst hp; exact Nat.lt_succ_self _
      · cases ht
    · exact Nat.lt_succ_of_lt (hinv.ids i t ht p hp)
  · intro i t ht p hp hk
    show T.lookup p.1 = some (fqn st.sep t.pfx (metricName p.2), t.tags)
    simp only [addMetric, setScope, List.getElem?_set] at ht
    split at ht
    · split at ht
      · injection ht with ht; subst ht
        rcases List.mem_append.mp hp with hp | hp
        · rw [hlook _ (hinv.ids sid s hg p hp)]; exact hinv.tm sid s hg p hp hk
        · simp at hp; subst hp
          rcases hT with ⟨_, hne⟩ | rfl
          · exact absurd hk hne
          · simp
      · cases ht
    · rw [hlook _ (hinv.ids i t ht p hp)]; exact hinv.tm i t ht p hp hk

theorem getMetric_inv (st : St) (hinv : Inv st) (sid : Nat) (kind : String) (raw : Bytes) (mk : Bytes → Metric)
    (hmk : ∀ n, metricKind (mk n) ≠ "timer") : Inv (getMetric st sid kind raw mk).1 := by
  rcases getMetric_cases st sid kind raw mk with ⟨_, h⟩ | ⟨s, id, _, _, h⟩ | ⟨s, hg, _, h⟩ <;> rw [h]
  · exact hinv
  · exact hinv
  · exact inv_add st hinv sid s hg _ st.timers (.inl ⟨rfl, hmk _⟩)

theorem inv_step (st : St) (hinv : Inv st) (op : Op) : Inv (step st op).1 := by
  cases op with
  | counter s n => exact getMetric_inv st hinv _ _ _ _ (fun _ => by simp [metricKind])
  | gauge s n => exact getMetric_inv st hinv _ _ _ _ (fun _ => by simp [metricKind])
  | hist s n spec => exact getMetric_inv st hinv _ _ _ _ (fun _ => by simp [metricKind])
  | timer sid n =>
    rcases step_timer_cases st hinv sid n with ⟨_, h⟩ | ⟨s, id, _, _, _, h⟩ | ⟨s, hg, _, h⟩ <;> rw [h]
    · exact hinv
    · exact hinv
    · exact inv_add st hinv sid s hg _ _ (.inr rfl)
  | _ => exact hinv.frame (step_frame st _ rfl)

theorem inv_mkRoot (cfg : Cfg) (pfx sep : Bytes) (tags : TagMap) : Inv (mkRoot cfg pfx sep tags) := by
  refine ⟨?_, ?_, ?_⟩
  · intro e he; cases he
  · intro i s hs p hp
    simp only [mkRoot] at hs
    cases i with
    | zero => simp at hs; subst hs; cases hp
    | succ i => simp at hs
  · intro i s hs p hp
    simp only [mkRoot] at hs
    cases i with
    | zero => simp at hs; subst hs; cases hp
    | succ i => simp at hs

theorem inv_runOps (st : St) (hinv : Inv st) (ops : List Op) : Inv (runOps st ops) := by
  induction ops generalizing st with
  | nil => exact hinv
  | cons op ops ih => exact ih _ (inv_step st hinv op)

/-! ### configuration, separator and handle table along a run -/

theorem getMetric_const (st : St) (sid : Nat) (kind : String) (raw : Bytes) (mk : Bytes → Metric) :
    (getMetric st sid kind raw mk).1.cfg = st.cfg ∧ (getMetric st sid kind raw mk).1.sep = st.sep
    ∧ (getMetric st sid kind raw mk).1.timers = st.timers ∧ (getMetric st sid kind raw mk).1.reg = st.reg
    ∧ (getMetric st sid kind raw mk).1.rootClosed = st.rootClosed := by
  rcases getMetric_cases st sid kind raw mk with ⟨_, h⟩ | ⟨s, id, _, _, h⟩ | ⟨s, hg, _, h⟩ <;> rw [h] <;>
    exact ⟨rfl, rfl, rfl, rfl, rfl⟩

theorem step_cfg_sep (st : St) (op : Op) : (step st op).1.cfg = st.cfg ∧ (step st op).1.sep = st.sep := by
  cases op with
  | counter s n => exact ⟨(getMetric_const ..).1, (getMetric_const ..).2.1⟩
  | gauge s n => exact ⟨(getMetric_const ..).1, (getMetric_const ..).2.1⟩
  | hist s n spec => exact ⟨(getMetric_const ..).1, (getMetric_const ..).2.1⟩
  | timer s n =>
    have := getMetric_const st s "timer" n (fun n => .timer n [])
    simp only [step]
    split
    · split
      · exact ⟨this.1, this.2.1⟩
      · exact ⟨this.1, this.2.1⟩
    · exact ⟨this.1, this.2.1⟩
  | _ => exact ⟨(step_frame st _ rfl).cfg, (step_frame st _ rfl).sep⟩

theorem runOps_cfg_sep (st : St) (ops : List Op) : (runOps st ops).cfg = st.cfg ∧ (runOps st ops).sep = st.sep := by
  induction ops generalizing st with
  | nil => exact ⟨rfl, rfl⟩
  | cons op ops ih =>
    have := ih (step st op).1
    have h2 := step_cfg_sep st op
    exact ⟨this.1.trans h2.1, this.2.trans h2.2⟩

/-- **old handles keep forwarding**: an entry of the handle table is never changed or removed —
not by `Close` of the scope, not by a report pass clearing the scope, not by `Close` of the root -/
theorem step_timers_stable (st : St) (op : Op) (m : Nat) (x : Bytes × TagMap)
    (h : st.timers.lookup m = some x) : (step st op).1.timers.lookup m = some x := by
  cases op with
  | counter s n => simp only [step]; rw [(getMetric_const ..).2.2.1]; exact h
  | gauge s n => simp only [step]; rw [(getMetric_const ..).2.2.1]; exact h
  | hist s n spec => simp only [step]; rw [(getMetric_const ..).2.2.1]; exact h
  | timer s n =>
    have := (getMetric_const st s "timer" n (fun n => .timer n [])).2.2.1
    simp only [step]
    split
    · split
      · rw [this]; exact h
      · next id _ _ _ _ hnone =>
        simp only [List.lookup_cons]
        rw [this] at hnone ⊢
        have hmid : (m == id) = false := by
          cases hm : m == id with
          | false => rfl
          | true =>
            have : m = id := by simpa using hm
            subst this; simp [h] at hnone
        simp [hmid, h]
    · rw [this]; exact h
  | _ => rw [(step_frame st _ rfl).timers]; exact h

theorem runOps_timers_stable (st : St) (ops : List Op) (m : Nat) (x : Bytes × TagMap)
    (h : st.timers.lookup m = some x) : (runOps st ops).timers.lookup m = some x := by
  induction ops generalizing st with
  | nil => exact h
  | cons op ops ih => exact ih _ (step_timers_stable st op m x h)

/-! ## Part B: reporter-less test scopes -/

/-- metric `m` lives in scope `i` (prefix `p`, tags `t`) with current state `x` -/
def Loc (st : St) (m i : Nat) (p : Bytes) (t : TagMap) (x : Metric) : Prop :=
  ∃ s, st.scopes[i]? = some s ∧ s.pfx = p ∧ s.tags = t ∧ (m, x) ∈ s.metrics

/-- invariant of the states of a test scope tree -/
structure TInv (st : St) : Prop where
  regValid : ∀ e ∈ st.reg, e.2 < st.scopes.length
  /-- every scope is registered: test scopes are never unregistered -/
  allReg : ∀ i, i < st.scopes.length → ∃ e ∈ st.reg, e.2 = i
  nodup : ∀ (i : Nat) (s : ScopeS), st.scopes[i]? = some s → (s.metrics.map (·.1)).Nodup
  uniq : ∀ (m i j : Nat) (p p' : Bytes) (t t' : TagMap) (x y : Metric),
    Loc st m i p t x → Loc st m j p' t' y → i = j
  bound : ∀ (m i : Nat) (p : Bytes) (t : TagMap) (x : Metric), Loc st m i p t x → m < st.nextMetric
  /-- no metric is ever dropped -/
  complete : ∀ m, m < st.nextMetric → ∃ i p t x, Loc st m i p t x

theorem nodup_fst_eq {l : List (Nat × Metric)} (h : (l.map (·.1)).Nodup) {m : Nat} {x y : Metric}
    (hx : (m, x) ∈ l) (hy : (m, y) ∈ l) : x = y := by
  induction l with
  | nil => cases hx
  | cons q l ih =>
    simp only [List.map_cons, List.nodup_cons] at h
    rcases List.mem_cons.mp hx with e1 | hx1
    · rcases List.mem_cons.mp hy with e2 | hy1
      · rw [← e1] at e2; injection e2 with _ e; exact e.symm
      · subst e1; exact absurd (List.mem_map_of_mem (f := (·.1)) hy1) h.1
    · rcases List.mem_cons.mp hy with e2 | hy1
      · subst e2; exact absurd (List.mem_map_of_mem (f := (·.1)) hx1) h.1
      · exact ih h.2 hx1 hy1

theorem TInv.loc_unique {st : St} (h : TInv st) {m i j : Nat} {p p' : Bytes} {t t' : TagMap} {x y : Metric}
    (h1 : Loc st m i p t x) (h2 : Loc st m j p' t' y) : i = j ∧ p = p' ∧ t = t' ∧ x = y := by
  have hij := h.uniq m i j p p' t t' x y h1 h2
  subst hij
  obtain ⟨s, hs, rfl, rfl, hx⟩ := h1
  obtain ⟨s', hs', rfl, rfl, hy⟩ := h2
  rw [hs] at hs'; injection hs' with hs'; subst hs'
  exact ⟨rfl, rfl, rfl, nodup_fst_eq (h.nodup i s hs) hx hy⟩

/-! ### operations that keep all metrics -/

def skeep (s s' : ScopeS) : Prop := s'.pfx = s.pfx ∧ s'.tags = s.tags ∧ s'.metrics = s.metrics

theorem skeep.refl (s : ScopeS) : skeep s s := ⟨rfl, rfl, rfl⟩
theorem skeep.trans (a b c : ScopeS) (h1 : skeep a b) (h2 : skeep b c) : skeep a c :=
  ⟨h2.1.trans h1.1, h2.2.1.trans h1.2.1, h2.2.2.trans h1.2.2⟩
theorem skeep_empty (a b : ScopeS) (h : skeep a b) (ha : a.metrics = []) : b.metrics = [] := h.2.2.trans ha

structure Keep (st st' : St) : Prop where
  cfg : st'.cfg = st.cfg
  sep : st'.sep = st.sep
  next : st'.nextMetric = st.nextMetric
  scopes : ScopesRel skeep st.scopes st'.scopes
  regMono : ∀ e ∈ st.reg, e ∈ st'.reg
  regNew : ∀ e ∈ st'.reg, e ∈ st.reg ∨ e.2 < st'.scopes.length
  regCover : ∀ i, st.scopes.length ≤ i → i < st'.scopes.length → ∃ e ∈ st'.reg, e.2 = i

theorem Keep.refl (st : St) : Keep st st :=
  ⟨rfl, rfl, rfl, ScopesRel.refl skeep.refl _, fun _ h => h, fun _ h => .inl h, fun i h1 h2 => by omega⟩

theorem Keep.trans {a b c : St} (h1 : Keep a b) (h2 : Keep b c) : Keep a c := by
  refine ⟨h2.cfg.trans h1.cfg, h2.sep.trans h1.sep, h2.next.trans h1.next,
    ScopesRel.trans skeep.trans skeep_empty h1.scopes h2.scopes,
    fun e he => h2.regMono e (h1.regMono e he), ?_, ?_⟩
  · intro e he
    rcases h2.regNew e he with h | h
    · rcases h1.regNew e h with h | h
      · exact .inl h
      · exact .inr (Nat.lt_of_lt_of_le h h2.scopes.1)
    · exact .inr h
  · intro i hi1 hi2
    rcases Nat.lt_or_ge i b.scopes.length with h | h
    · obtain ⟨e, he, hei⟩ := h1.regCover i hi1 h
      exact ⟨e, h2.regMono e he, hei⟩
    · exact h2.regCover i h hi2

theorem Keep.loc_iff {st st' : St} (k : Keep st st') (m i : Nat) (p : Bytes) (t : TagMap) (x : Metric) :
    Loc st' m i p t x ↔ Loc st m i p t x := by
  constructor
  · rintro ⟨s', hs', rfl, rfl, hx⟩
    rcases k.scopes.2 i s' hs' with ⟨s, hs, hk⟩ | ⟨_, hm⟩
    · exact ⟨s, hs, hk.1.symm, hk.2.1.symm, hk.2.2 ▸ hx⟩
    · rw [hm] at hx; cases hx
  · rintro ⟨s, hs, rfl, rfl, hx⟩
    have hi : i < st.scopes.length := by
      rcases Nat.lt_or_ge i st.scopes.length with h | h
      · exact h
      · rw [List.getElem?_eq_none h] at hs; cases hs
    have hi' : i < st'.scopes.length := Nat.lt_of_lt_of_le hi k.scopes.1
    rcases k.scopes.2 i _ (List.getElem?_eq_getElem hi') with ⟨s0, hs0, hk⟩ | ⟨hge, _⟩
    · rw [hs] at hs0; injection hs0 with hs0; subst hs0
      exact ⟨_, List.getElem?_eq_getElem hi', hk.1, hk.2.1, hk.2.2 ▸ hx⟩
    · omega

theorem TInv.keep {st st' : St} (h : TInv st) (k : Keep st st') : TInv st' := by
  refine ⟨?_, ?_, ?_, ?_, ?_, ?_⟩
  · intro e he
    rcases k.regNew e he with h1 | h1
    · exact Nat.lt_of_lt_of_le (h.regValid e h1) k.scopes.1
    · exact h1
  · intro i hi
    rcases Nat.lt_or_ge i st.scopes.length with h1 | h1
    · obtain ⟨e, he, hei⟩ := h.allReg i h1
      exact ⟨e, k.regMono e he, hei⟩
    · exact k.regCover i h1 hi
  · intro i s' hs'
    rcases k.scopes.2 i s' hs' with ⟨s, hs, hk⟩ | ⟨_, hm⟩
    · rw [hk.2.2]; exact h.nodup i s hs
    · rw [hm]; exact List.nodup_nil
  · intro m i j p p' t t' x y h1 h2
    exact h.uniq m i j p p' t t' x y ((k.loc_iff ..).mp h1) ((k.loc_iff ..).mp h2)
  · intro m i p t x h1
    rw [k.next]; exact h.bound m i p t x ((k.loc_iff ..).mp h1)
  · intro m hm
    rw [k.next] at hm
    obtain ⟨i, p, t, x, hl⟩ := h.complete m hm
    exact ⟨i, p, t, x, (k.loc_iff ..).mpr hl⟩

theorem lookup_some_mem {α β : Type} [BEq α] [LawfulBEq α] (l : List (α × β)) (k : α) (v : β)
    (h : l.lookup k = some v) : (k, v) ∈ l := by
  induction l with
  | nil => simp at h
  | cons e l ih =>
    obtain ⟨a, b⟩ := e
    rw [List.lookup_cons] at h
    split at h
    · next hk =>
      injection h with h
      have : k = a := by simpa using hk
      subst this; subst h; exact List.mem_cons_self
    · exact List.mem_cons_of_mem _ (ih h)

theorem keep_regAdd (st : St) (sh : Nat) (k : Bytes) (sid : Nat) (h : sid < st.scopes.length) :
    Keep st (regAdd st sh k sid) := by
  unfold regAdd; split
  · exact Keep.refl _
  · refine ⟨rfl, rfl, rfl, ScopesRel.refl skeep.refl _, ?_, ?_, ?_⟩
    · intro e he; exact List.mem_append_left _ he
    · intro e he
      rcases List.mem_append.mp he with h1 | h1
      · exact .inl h1
      · simp at h1; subst h1; exact .inr h
    · intro i h1 h2; exact absurd h2 (Nat.not_lt.mpr h1)

theorem keep_appendReg (st : St) (ns : ScopeS) (hns : ns.metrics = []) (sh : Nat) (k : Bytes)
    (hl : regLookup st sh k = none) :
    Keep st (regAdd { st with scopes := st.scopes ++ [ns] } sh k st.scopes.length) := by
  unfold regAdd
  have : (List.lookup (sh, k) st.reg).isSome = false := by
    unfold regLookup at hl; rw [hl]; rfl
  simp only [this, Bool.false_eq_true, if_false]
  refine ⟨rfl, rfl, rfl, ScopesRel.append skeep.refl ns hns, ?_, ?_, ?_⟩
  · intro e he; exact List.mem_append_left _ he
  · intro e he
    rcases List.mem_append.mp he with h1 | h1
    · exact .inl h1
    · simp at h1; subst h1; exact .inr (by simp)
  · intro i h1 h2
    simp only [List.length_append, List.length_cons, List.length_nil] at h2
    exact ⟨((sh, k), st.scopes.length), by simp, by simp; omega⟩

theorem getScope_lt {st : St} {sid : Nat} {s : ScopeS} (h : getScope st sid = some s) : sid < st.scopes.length := by
  unfold getScope at h
  rcases Nat.lt_or_ge sid st.scopes.length with h1 | h1
  · exact h1
  · rw [List.getElem?_eq_none h1] at h; cases h

/-- `SubScope` / `Tagged` on a test scope: nothing is reported, cleared or unregistered; the scope
found or created is registered -/
theorem subscope_keep (st : St) (hk : st.cfg.kind = .none) (hv : ∀ e ∈ st.reg, e.2 < st.scopes.length)
    (parent : Nat) (pfx : Bytes) (tags : TagMap) (sh : Nat) :
    Keep st (subscope st parent pfx tags sh).1 := by
  have hkb : (st.cfg.kind == RKind.none) = true := by rw [hk]; rfl
  unfold subscope
  cases hp : getScope st parent with
  | none => exact Keep.refl _
  | some p =>
    simp only
    split
    · exact Keep.refl _
    · split
      · exact Keep.refl _
      · exact Keep.refl _
      · next st1 evs1 hprobe =>
        have h1 : st1 = st := by
          split at hprobe
          · split at hprobe
            · split at hprobe
              · cases hprobe
              · next hcl => simp [hkb] at hcl
            · simp only [Prod.mk.injEq, Option.some.injEq] at hprobe
              exact hprobe.1.1.symm
          · simp only [Prod.mk.injEq, Option.some.injEq] at hprobe
            exact hprobe.1.1.symm
        subst h1
        split
        · next sid st2 evs2 hrel =>
          split at hrel
          · split at hrel
            · split at hrel
              · next sid' s hs _ =>
                simp only [Prod.mk.injEq, Option.some.injEq] at hrel
                obtain ⟨rfl, rfl, _⟩ := hrel
                exact keep_regAdd _ _ _ _ (getScope_lt hs)
              · cases hrel
            · cases hrel
          · cases hrel
        · next st2 evs2 hrel =>
          have h2 : st2 = st1 ∧ regLookup st1 sh (key pfx [p.tags, sanMap st1.cfg tags]) = none := by
            split at hrel
            · next sid' hlk =>
              split at hrel
              · split at hrel
                · cases hrel
                · next hcl => simp [hkb] at hcl
              · next hnone =>
                exfalso
                have hm := lookup_some_mem _ _ _ hlk
                have := hv _ hm
                unfold getScope at hnone
                rw [List.getElem?_eq_getElem this] at hnone
                cases hnone
            · next hlk =>
              simp only [Prod.mk.injEq] at hrel
              exact ⟨hrel.2.1.symm, hlk⟩
          obtain ⟨rfl, hlk⟩ := h2
          refine (keep_appendReg st2 ⟨pfx, mergeTags p.tags (sanMap st2.cfg tags), false, false, []⟩ rfl sh _ hlk).trans ?_
          apply keep_regAdd
          unfold regAdd; split <;> simp

theorem keep_setScope {st : St} {sid : Nat} {s s' : ScopeS} (h : getScope st sid = some s) (hs : skeep s s') :
    Keep st (setScope st sid s') :=
  ⟨rfl, rfl, rfl, ScopesRel.set skeep.refl h hs, fun _ h => h, fun _ h => .inl h,
   fun i h1 h2 => by simp [setScope] at h2; omega⟩

/-- `Close` on a test scope tree only sets flags -/
theorem close_keep (st : St) (hk : st.cfg.kind = .none) (sid : Nat) : Keep st (step st (.close sid)).1 := by
  have hkb : (st.cfg.kind == RKind.none) = true := by rw [hk]; rfl
  simp only [step]
  cases hg : getScope st sid with
  | none => exact Keep.refl _
  | some s =>
    simp only
    split
    · exact Keep.refl _
    · have f1 : Keep st (setScope st sid { s with closed := true }) := keep_setScope hg ⟨rfl, rfl, rfl⟩
      split
      · exact f1
      · simp only
        exact f1.trans ⟨rfl, rfl, rfl, ScopesRel.refl skeep.refl _, fun _ h => h, fun _ h => .inl h,
          fun i h1 h2 => absurd h2 (Nat.not_lt.mpr h1)⟩

theorem report_none (st : St) (hk : st.cfg.kind = .none) : step st .report = (st, .events []) := by
  have hkb : (st.cfg.kind == RKind.none) = true := by rw [hk]; rfl
  simp only [step, reportPass, hkb, if_true]
  split <;> rfl

/-! ### in-place updates -/

theorem mapMetric_ids (mid : Nat) (m' : Metric) (l : List (Nat × Metric)) :
    (mapMetric mid m' l).map (·.1) = l.map (·.1) := by
  unfold mapMetric
  rw [List.map_map]
  apply List.map_congr_left
  intro q _
  obtain ⟨j, x⟩ := q
  simp only [Function.comp]
  split <;> rfl

theorem mem_mapMetric (mid : Nat) (m' : Metric) (l : List (Nat × Metric)) (a : Nat) (y : Metric) :
    (a, y) ∈ mapMetric mid m' l ↔ (a = mid ∧ y = m' ∧ ∃ x, (a, x) ∈ l) ∨ (a ≠ mid ∧ (a, y) ∈ l) := by
  unfold mapMetric
  rw [List.mem_map]
  constructor
  · rintro ⟨⟨j, x⟩, hq, he⟩
    simp only at he
    split at he
    · next hj =>
      have hj' : j = mid := by simpa using hj
      injection he with e1 e2
      subst e1; subst e2
      exact .inl ⟨hj', rfl, x, hq⟩
    · next hj =>
      have hj' : j ≠ mid := by simpa using hj
      injection he with e1 e2
      subst e1; subst e2
      exact .inr ⟨hj', hq⟩
  · rintro (⟨rfl, rfl, x, hx⟩ | ⟨hne, hy⟩)
    · exact ⟨(a, x), hx, by simp⟩
    · refine ⟨(a, y), hy, ?_⟩
      have : (a == mid) = false := by simpa using hne
      simp [this]

theorem updMetric_loc (st : St) (hinv : TInv st) (mid : Nat) (f : ScopeS → Metric → Metric × List Event)
    (i : Nat) (p : Bytes) (t : TagMap) (x : Metric) (hl : Loc st mid i p t x) :
    ∃ s, st.scopes[i]? = some s ∧ s.pfx = p ∧ s.tags = t ∧
      updMetric st mid f = (setScope st i { s with metrics := mapMetric mid (f s x).1 s.metrics }, .events (f s x).2) := by
  obtain ⟨s, hs, hp, ht, hx⟩ := hl
  unfold updMetric
  split
  · next i' s' evs hgo =>
    obtain ⟨s0, j, x0, _, hs0, hfind, _, rfl, rfl⟩ := go_some mid f _ _ _ _ _ hgo
    simp only [Nat.sub_zero] at hs0
    have hj : j = mid := by simpa using List.find?_some hfind
    subst hj
    have hl0 : Loc st j i' s0.pfx s0.tags x0 := ⟨s0, hs0, rfl, rfl, List.mem_of_find?_eq_some hfind⟩
    obtain ⟨rfl, _, _, rfl⟩ := hinv.loc_unique hl0 ⟨s, hs, hp, ht, hx⟩
    rw [hs] at hs0; injection hs0 with hs0; subst hs0
    exact ⟨s, hs, hp, ht, rfl⟩
  · next hgo =>
    exfalso
    have := go_none mid f _ _ hgo s (List.mem_of_getElem? hs)
    rw [List.find?_eq_none] at this
    exact this (mid, x) hx (by simp)

theorem updMetric_noloc (st : St) (mid : Nat) (f : ScopeS → Metric → Metric × List Event)
    (hno : ∀ i p t x, ¬ Loc st mid i p t x) : updMetric st mid f = (st, .events []) := by
  unfold updMetric
  split
  · next i' s' evs hgo =>
    exfalso
    obtain ⟨s0, j, x0, _, hs0, hfind, _, _, _⟩ := go_some mid f _ _ _ _ _ hgo
    simp only [Nat.sub_zero] at hs0
    have hj : j = mid := by simpa using List.find?_some hfind
    subst hj
    exact hno i' s0.pfx s0.tags x0 ⟨s0, hs0, rfl, rfl, List.mem_of_find?_eq_some hfind⟩
  · rfl

theorem setScope_get_eq (st : St) (i : Nat) (s' : ScopeS) (hi : i < st.scopes.length) :
    (setScope st i s').scopes[i]? = some s' := by
  simp [setScope, hi]

theorem setScope_get_ne (st : St) (i j : Nat) (s' : ScopeS) (h : i ≠ j) :
    (setScope st i s').scopes[j]? = st.scopes[j]? := by
  simp [setScope, h]

/-- `Loc` after replacing the state of metric `mid` in scope `i` -/
theorem loc_setMap (st : St) (hinv : TInv st) (mid i : Nat) (s : ScopeS) (hs : st.scopes[i]? = some s)
    (x m' : Metric) (hx : (mid, x) ∈ s.metrics) (a j : Nat) (p : Bytes) (t : TagMap) (y : Metric) :
    Loc (setScope st i { s with metrics := mapMetric mid m' s.metrics }) a j p t y ↔
      (a = mid ∧ j = i ∧ p = s.pfx ∧ t = s.tags ∧ y = m') ∨ (a ≠ mid ∧ Loc st a j p t y) := by
  have hi : i < st.scopes.length := by
    rcases Nat.lt_or_ge i st.scopes.length with h | h
    · exact h
    · rw [List.getElem?_eq_none h] at hs; cases hs
  constructor
  · rintro ⟨s', hs', rfl, rfl, hy⟩
    by_cases hji : i = j
    · subst hji
      rw [setScope_get_eq _ _ _ hi] at hs'
      injection hs' with hs'
      subst hs'
      rcases (mem_mapMetric ..).mp hy with ⟨rfl, rfl, _⟩ | ⟨hne, hy⟩
      · exact .inl ⟨rfl, rfl, rfl, rfl, rfl⟩
      · exact .inr ⟨hne, s, hs, rfl, rfl, hy⟩
    · rw [setScope_get_ne _ _ _ _ hji] at hs'
      by_cases ha : a = mid
      · subst ha
        exfalso
        exact hji (hinv.uniq a i j _ _ _ _ _ _ ⟨s, hs, rfl, rfl, hx⟩ ⟨s', hs', rfl, rfl, hy⟩)
      · exact .inr ⟨ha, s', hs', rfl, rfl, hy⟩
  · rintro (⟨rfl, rfl, rfl, rfl, rfl⟩ | ⟨hne, s', hs', rfl, rfl, hy⟩)
    · exact ⟨{ s with metrics := mapMetric a y s.metrics }, setScope_get_eq _ _ _ hi, rfl, rfl,
        (mem_mapMetric ..).mpr (.inl ⟨rfl, rfl, x, hx⟩)⟩
    · by_cases hji : i = j
      · subst hji
        rw [hs] at hs'; injection hs' with hs'; subst hs'
        exact ⟨{ s with metrics := mapMetric mid m' s.metrics }, setScope_get_eq _ _ _ hi, rfl, rfl,
          (mem_mapMetric ..).mpr (.inr ⟨hne, hy⟩)⟩
      · exact ⟨s', by rw [setScope_get_ne _ _ _ _ hji]; exact hs', rfl, rfl, hy⟩

theorem tinv_setMap (st : St) (hinv : TInv st) (mid i : Nat) (s : ScopeS) (hs : st.scopes[i]? = some s)
    (x m' : Metric) (hx : (mid, x) ∈ s.metrics) :
    TInv (setScope st i { s with metrics := mapMetric mid m' s.metrics }) := by
  have hloc := loc_setMap st hinv mid i s hs x m' hx
  have hback : ∀ a j p t y, Loc (setScope st i { s with metrics := mapMetric mid m' s.metrics }) a j p t y →
      ∃ y0, Loc st a j p t y0 := by
    intro a j p t y h
    rcases (hloc a j p t y).mp h with ⟨rfl, rfl, rfl, rfl, rfl⟩ | ⟨_, h⟩
    · exact ⟨x, s, hs, rfl, rfl, hx⟩
    · exact ⟨y, h⟩
  refine ⟨?_, ?_, ?_, ?_, ?_, ?_⟩
  · intro e he; simpa [setScope] using hinv.regValid e he
  · intro j hj; simp only [setScope, List.length_set] at hj; exact hinv.allReg j hj
  · intro j s' hs'
    simp only [setScope, List.getElem?_set] at hs'
    split at hs'
    · split at hs'
      · injection hs' with hs'; subst hs'
        simp only [mapMetric_ids]; exact hinv.nodup i s hs
      · cases hs'
    · exact hinv.nodup j s' hs'
  · intro a j k p p' t t' y z h1 h2
    obtain ⟨y0, h1⟩ := hback _ _ _ _ _ h1
    obtain ⟨z0, h2⟩ := hback _ _ _ _ _ h2
    exact hinv.uniq a j k p p' t t' y0 z0 h1 h2
  · intro a j p t y h
    obtain ⟨y0, h⟩ := hback _ _ _ _ _ h
    exact hinv.bound a j p t y0 h
  · intro a ha
    obtain ⟨j, p, t, y, h⟩ := hinv.complete a (by simpa [setScope] using ha)
    by_cases hm : a = mid
    · subst hm
      obtain ⟨rfl, rfl, rfl, rfl⟩ := hinv.loc_unique h ⟨s, hs, rfl, rfl, hx⟩
      exact ⟨j, _, _, m', (hloc ..).mpr (.inl ⟨rfl, rfl, rfl, rfl, rfl⟩)⟩
    · exact ⟨j, p, t, y, (hloc ..).mpr (.inr ⟨hm, h⟩)⟩

/-! ### allocation of a new metric -/

theorem loc_addMetric (st : St) (sid : Nat) (s : ScopeS) (hg : getScope st sid = some s) (m0 : Metric)
    (a j : Nat) (p : Bytes) (t : TagMap) (y : Metric) :
    Loc (addMetric st sid s m0) a j p t y ↔
      (a = st.nextMetric ∧ j = sid ∧ p = s.pfx ∧ t = s.tags ∧ y = m0) ∨ Loc st a j p t y := by
  have hi : sid < st.scopes.length := getScope_lt hg
  have hg' : st.scopes[sid]? = some s := hg
  have e1 : (addMetric st sid s m0).scopes[sid]? = some { s with metrics := s.metrics ++ [(st.nextMetric, m0)] } :=
    setScope_get_eq _ _ _ hi
  have e2 : ∀ k, sid ≠ k → (addMetric st sid s m0).scopes[k]? = st.scopes[k]? :=
    fun k hk => setScope_get_ne _ _ _ _ hk
  constructor
  · rintro ⟨s', hs', rfl, rfl, hy⟩
    by_cases hji : sid = j
    · subst hji
      rw [e1] at hs'; injection hs' with hs'; subst hs'
      rcases List.mem_append.mp hy with hy | hy
      · exact .inr ⟨s, hg', rfl, rfl, hy⟩
      · simp only [List.mem_singleton, Prod.mk.injEq] at hy
        exact .inl ⟨hy.1, rfl, rfl, rfl, hy.2⟩
    · rw [e2 _ hji] at hs'
      exact .inr ⟨s', hs', rfl, rfl, hy⟩
  · rintro (⟨rfl, rfl, rfl, rfl, rfl⟩ | ⟨s', hs', rfl, rfl, hy⟩)
    · exact ⟨_, e1, rfl, rfl, by simp⟩
    · by_cases hji : sid = j
      · subst hji
        rw [hg'] at hs'; injection hs' with hs'; subst hs'
        exact ⟨_, e1, rfl, rfl, List.mem_append_left _ hy⟩
      · exact ⟨s', by rw [e2 _ hji]; exact hs', rfl, rfl, hy⟩

theorem tinv_addMetric (st : St) (hinv : TInv st) (sid : Nat) (s : ScopeS) (hg : getScope st sid = some s)
    (m0 : Metric) : TInv (addMetric st sid s m0) := by
  have hloc := loc_addMetric st sid s hg m0
  have hi : sid < st.scopes.length := getScope_lt hg
  have hg' : st.scopes[sid]? = some s := hg
  refine ⟨?_, ?_, ?_, ?_, ?_, ?_⟩
  · intro e he; simpa [addMetric, setScope] using hinv.regValid e he
  · intro j hj; simp only [addMetric, setScope, List.length_set] at hj; exact hinv.allReg j hj
  · intro j s' hs'
    by_cases hji : sid = j
    · subst hji
      rw [show (addMetric st sid s m0).scopes[sid]? = some _ from setScope_get_eq _ _ _ hi] at hs'
      injection hs' with hs'; subst hs'
      simp only [List.map_append, List.map_cons, List.map_nil]
      rw [List.nodup_append]
      refine ⟨hinv.nodup sid s hg', by simp, ?_⟩
      intro a ha b hb
      simp only [List.mem_singleton] at hb; subst hb
      obtain ⟨q, hq, rfl⟩ := List.mem_map.mp ha
      have := hinv.bound q.1 sid s.pfx s.tags q.2 ⟨s, hg', rfl, rfl, hq⟩
      omega
    · rw [show (addMetric st sid s m0).scopes[j]? = st.scopes[j]? from setScope_get_ne _ _ _ _ hji] at hs'
      exact hinv.nodup j s' hs'
  · intro a j k p p' t t' y z h1 h2
    rcases (hloc ..).mp h1 with ⟨ea, ej, _⟩ | g1
    · rcases (hloc ..).mp h2 with ⟨_, ek, _⟩ | g2
      · rw [ej, ek]
      · have := hinv.bound _ _ _ _ _ g2; omega
    · rcases (hloc ..).mp h2 with ⟨ea, _, _⟩ | g2
      · have := hinv.bound _ _ _ _ _ g1; omega
      · exact hinv.uniq a j k p p' t t' y z g1 g2
  · intro a j p t y h
    show a < st.nextMetric + 1
    rcases (hloc ..).mp h with ⟨rfl, _⟩ | h
    · omega
    · have := hinv.bound _ _ _ _ _ h; omega
  · intro a ha
    have ha : a < st.nextMetric + 1 := ha
    rcases Nat.lt_or_ge a st.nextMetric with h | h
    · obtain ⟨j, p, t, y, hl⟩ := hinv.complete a h
      exact ⟨j, p, t, y, (hloc ..).mpr (.inr hl)⟩
    · have : a = st.nextMetric := by omega
      subst this
      exact ⟨sid, s.pfx, s.tags, m0, (hloc ..).mpr (.inl ⟨rfl, rfl, rfl, rfl, rfl⟩)⟩

/-! ### per-metric effect of the update operations (test scopes) -/

/-- the metric id an update operation addresses -/
def target : Op → Option Nat
  | .inc m _ | .upd m _ | .record m _ | .recv m _ | .recd m _ => some m
  | _ => none

/-- what an update operation does to the metric it addresses, on a test scope -/
def effect : Op → Metric → Metric
  | .inc _ v, .counter n u => .counter n (wrap64 (u + v))
  | .upd _ v, .gauge n _ _ => .gauge n v true
  | .record _ d, .timer n vs => .timer n (vs ++ [d])
  | .recv _ v, .hist n h =>
    if h.isDur then .hist n h else .hist n { h with counts := bump h.counts (placeValue h.vUppers v) }
  | .recd _ d, .hist n h =>
    if !h.isDur then .hist n h else .hist n { h with counts := bump h.counts (placeKey h.dUppers d) }
  | _, x => x

/-- the effect of one operation of the program on metric `m` -/
def applyOp (m : Nat) (x : Metric) (op : Op) : Metric := if target op = some m then effect op x else x

theorem step_none_target (st : St) (hk : st.cfg.kind = .none) (op : Op) (m : Nat) (ht : target op = some m) :
    step st op = updMetric st m (fun _ x => (effect op x, [])) := by
  have hkb : (st.cfg.kind == RKind.none) = true := by rw [hk]; rfl
  cases op with
  | inc m' v =>
    simp only [target, Option.some.injEq] at ht; subst ht
    simp only [step]; congr 1; funext _ x; cases x <;> rfl
  | upd m' v =>
    simp only [target, Option.some.injEq] at ht; subst ht
    simp only [step]; congr 1; funext _ x; cases x <;> rfl
  | record m' d =>
    simp only [target, Option.some.injEq] at ht; subst ht
    simp only [step, hkb, if_true]; congr 1; funext _ x; cases x <;> rfl
  | recv m' v =>
    simp only [target, Option.some.injEq] at ht; subst ht
    simp only [step]; congr 1; funext _ x
    cases x with
    | hist n h => simp only [effect]; split <;> rfl
    | _ => rfl
  | recd m' d =>
    simp only [target, Option.some.injEq] at ht; subst ht
    simp only [step]; congr 1; funext _ x
    cases x with
    | hist n h => simp only [effect]; split <;> rfl
    | _ => rfl
  | _ => simp [target] at ht

/-! ### one step on a test scope tree -/

def histSpec (cfg : Cfg) (spec : Option (Bool × List Int × List F64)) : Bool × List Int × List F64 :=
  match spec with
  | some x => x
  | none => match cfg.defaultBuckets with
    | some d => d
    | none => (true, defaultDurations, [])

/-- scope and initial state of the metric a get-or-create operation allocates -/
def creation (st : St) : Op → Option (Nat × Metric)
  | .counter s n => some (s, .counter (sanName st.cfg n) 0)
  | .gauge s n => some (s, .gauge (sanName st.cfg n) 0 false)
  | .timer s n => some (s, .timer (sanName st.cfg n) [])
  | .hist s n spec => some (s, .hist (sanName st.cfg n) (newHist (histSpec st.cfg spec)))
  | _ => none

/-- a get-or-create either leaves the state alone (returning nothing or an already allocated id)
or allocates the next id in the addressed scope -/
theorem step_create (st : St) (hinv : Inv st) (op : Op) (sid : Nat) (m0 : Metric)
    (hc : creation st op = some (sid, m0)) :
    ((step st op).1 = st ∧
      ((step st op).2 = .events [] ∨ ∃ id, id < st.nextMetric ∧ (step st op).2 = .metric id []))
    ∨ (∃ s T evs, getScope st sid = some s ∧ (step st op).1 = { addMetric st sid s m0 with timers := T }
        ∧ (step st op).2 = .metric st.nextMetric evs) := by
  have gen : ∀ (kind : String) (raw : Bytes) (mk : Bytes → Metric), m0 = mk (sanName st.cfg raw) →
      ((getMetric st sid kind raw mk).1 = st ∧
        ((getMetric st sid kind raw mk).2 = .events [] ∨ ∃ id, id < st.nextMetric ∧ (getMetric st sid kind raw mk).2 = .metric id []))
      ∨ (∃ s T evs, getScope st sid = some s ∧ (getMetric st sid kind raw mk).1 = { addMetric st sid s m0 with timers := T }
          ∧ (getMetric st sid kind raw mk).2 = .metric st.nextMetric evs) := by
    intro kind raw mk hm0
    rcases getMetric_cases st sid kind raw mk with ⟨_, h⟩ | ⟨s, id, hg, hf, h⟩ | ⟨s, hg, _, h⟩ <;> rw [h]
    · exact .inl ⟨rfl, .inl rfl⟩
    · obtain ⟨m, hm, _⟩ := findMetric_some hf
      exact .inl ⟨rfl, .inr ⟨id, hinv.ids sid s hg (id, m) hm, rfl⟩⟩
    · exact .inr ⟨s, st.timers, _, hg, by rw [hm0]; rfl, rfl⟩
  cases op with
  | counter s n =>
    simp only [creation, Option.some.injEq, Prod.mk.injEq] at hc; obtain ⟨rfl, rfl⟩ := hc
    exact gen "counter" n (fun n => .counter n 0) rfl
  | gauge s n =>
    simp only [creation, Option.some.injEq, Prod.mk.injEq] at hc; obtain ⟨rfl, rfl⟩ := hc
    exact gen "gauge" n (fun n => .gauge n 0 false) rfl
  | hist s n spec =>
    simp only [creation, Option.some.injEq, Prod.mk.injEq] at hc; obtain ⟨rfl, rfl⟩ := hc
    exact gen "hist" n (fun n => .hist n (newHist (histSpec st.cfg spec))) rfl
  | timer s n =>
    simp only [creation, Option.some.injEq, Prod.mk.injEq] at hc; obtain ⟨rfl, rfl⟩ := hc
    rcases step_timer_cases st hinv s n with ⟨_, h⟩ | ⟨sc, id, hg, hf, _, h⟩ | ⟨sc, hg, _, h⟩ <;> rw [h]
    · exact .inl ⟨rfl, .inl rfl⟩
    · obtain ⟨m, hm, _⟩ := findMetric_some hf
      exact .inl ⟨rfl, .inr ⟨id, hinv.ids s sc hg (id, m) hm, rfl⟩⟩
    · exact .inr ⟨sc, _, _, hg, rfl, rfl⟩
  | _ => simp [creation] at hc

theorem TInv.timers {st : St} (h : TInv st) (T : List (Nat × (Bytes × TagMap))) : TInv { st with timers := T } :=
  ⟨h.regValid, h.allReg, h.nodup, h.uniq, h.bound, h.complete⟩

/-- classification of a step on a test scope tree -/
def StepCases (st : St) (op : Op) : Prop :=
    (target op = none ∧ Keep st (step st op).1)
    ∨ (∃ sid s m0 T evs, creation st op = some (sid, m0) ∧ getScope st sid = some s
        ∧ (step st op).1 = { addMetric st sid s m0 with timers := T }
        ∧ (step st op).2 = .metric st.nextMetric evs)
    ∨ (∃ m', target op = some m' ∧ (∀ i p t x, ¬ Loc st m' i p t x) ∧ step st op = (st, .events []))
    ∨ (∃ m' i s x, target op = some m' ∧ st.scopes[i]? = some s ∧ (m', x) ∈ s.metrics
        ∧ step st op = (setScope st i { s with metrics := mapMetric m' (effect op x) s.metrics }, .events []))

theorem step_none_cases (st : St) (hk : st.cfg.kind = .none) (hinv : Inv st) (ht : TInv st) (op : Op) :
    StepCases st op := by
  unfold StepCases
  have hcreate : ∀ sid m0, creation st op = some (sid, m0) → target op = none → StepCases st op := by
    intro sid m0 hc htg
    rcases step_create st hinv op sid m0 hc with h | ⟨s, T, evs, hg, h1, h2⟩
    · exact Or.inl ⟨htg, by rw [h.1]; exact Keep.refl st⟩
    · exact Or.inr (Or.inl ⟨sid, s, m0, T, evs, hc, hg, h1, h2⟩)
  have hupd : ∀ m', target op = some m' → StepCases st op := fun m' htg => by
    unfold StepCases
    rw [step_none_target st hk op m' htg]
    by_cases hex : ∃ i p t x, Loc st m' i p t x
    · obtain ⟨i, p, t, x, hl⟩ := hex
      obtain ⟨s, hs, _, _, he⟩ := updMetric_loc st ht m' (fun _ x => (effect op x, [])) i p t x hl
      obtain ⟨s', hs', _, _, hx⟩ := hl
      rw [hs] at hs'; injection hs' with hs'; subst hs'
      exact Or.inr (Or.inr (Or.inr ⟨m', i, s, x, htg, hs, hx, he⟩))
    · have hno : ∀ i p t x, ¬ Loc st m' i p t x := fun i p t x h => hex ⟨i, p, t, x, h⟩
      exact Or.inr (Or.inr (Or.inl ⟨m', htg, hno, updMetric_noloc st m' _ hno⟩))
  cases op with
  | sub p name sh =>
    refine .inl ⟨rfl, ?_⟩
    simp only [step]; split
    · exact subscope_keep st hk ht.regValid _ _ _ _
    · exact Keep.refl _
  | tagged p tags sh =>
    refine .inl ⟨rfl, ?_⟩
    simp only [step]; split
    · exact subscope_keep st hk ht.regValid _ _ _ _
    · exact Keep.refl _
  | counter s n => exact hcreate _ _ rfl rfl
  | gauge s n => exact hcreate _ _ rfl rfl
  | timer s n => exact hcreate _ _ rfl rfl
  | hist s n spec => exact hcreate _ _ rfl rfl
  | inc m v => exact hupd m rfl
  | upd m v => exact hupd m rfl
  | record m d => exact hupd m rfl
  | recv m v => exact hupd m rfl
  | recd m d => exact hupd m rfl
  | report => exact .inl ⟨rfl, by rw [report_none st hk]; exact Keep.refl _⟩
  | close sid => exact .inl ⟨rfl, close_keep st hk sid⟩

theorem tinv_step (st : St) (hk : st.cfg.kind = .none) (hinv : Inv st) (ht : TInv st) (op : Op) :
    TInv (step st op).1 := by
  rcases (step_none_cases st hk hinv ht op : StepCases st op) with
      ⟨_, k⟩ | ⟨sid, s, m0, T, evs, _, hg, h, _⟩ | ⟨m', _, _, h⟩ | ⟨m', i, s, x, _, hs, hx, h⟩
  · exact ht.keep k
  · rw [h]; exact (tinv_addMetric st ht sid s hg m0).timers T
  · rw [h]; exact ht
  · rw [h]; exact tinv_setMap st ht m' i s hs x _ hx

/-- **the state of a metric evolves by the per-metric effect of each operation**; its scope,
prefix and tags never change -/
theorem loc_step (st : St) (hk : st.cfg.kind = .none) (hinv : Inv st) (ht : TInv st) (op : Op)
    (m i : Nat) (p : Bytes) (t : TagMap) (x : Metric) (hl : Loc st m i p t x) :
    Loc (step st op).1 m i p t (applyOp m x op) := by
  rcases step_none_cases st hk hinv ht op with ⟨htg, k⟩ | ⟨sid, s, m0, T, evs, hc, hg, h, _⟩ | ⟨m', htg, hno, h⟩ |
      ⟨m', i', s, x', htg, hs, hx, h⟩
  · simp only [applyOp, htg]
    exact (k.loc_iff ..).mpr hl
  · have htg : target op = none := by cases op <;> first | rfl | simp [creation] at hc
    simp only [applyOp, htg]
    rw [h]
    exact (loc_addMetric st sid s hg m0 ..).mpr (.inr hl)
  · have hne : m' ≠ m := fun e => hno i p t x (e ▸ hl)
    have : ¬ (some m' = some m) := fun e => hne (Option.some.inj e)
    simp only [applyOp, htg, this, if_false]
    rw [h]; exact hl
  · rw [h]
    apply (loc_setMap st ht m' i' s hs x' _ hx ..).mpr
    by_cases hm : m = m'
    · subst hm
      obtain ⟨rfl, rfl, rfl, rfl⟩ := ht.loc_unique hl ⟨s, hs, rfl, rfl, hx⟩
      have e : applyOp m x op = effect op x := by simp only [applyOp, htg, if_true]
      rw [e]
      exact .inl ⟨rfl, rfl, rfl, rfl, rfl⟩
    · have : ¬ (some m' = some m) := fun e => hm (Option.some.inj e).symm
      simp only [applyOp, htg, this, if_false]
      exact .inr ⟨hm, hl⟩

/-! ### runs on a test scope tree -/

theorem loc_mkRoot_false (cfg : Cfg) (pfx sep : Bytes) (tags : TagMap) (m i : Nat) (p : Bytes) (t : TagMap)
    (x : Metric) : ¬ Loc (mkRoot cfg pfx sep tags) m i p t x := by
  rintro ⟨s, hs, _, _, hx⟩
  simp only [mkRoot] at hs
  cases i with
  | zero => simp at hs; subst hs; cases hx
  | succ i => simp at hs

theorem tinv_mkRoot (cfg : Cfg) (pfx sep : Bytes) (tags : TagMap) : TInv (mkRoot cfg pfx sep tags) := by
  refine ⟨?_, ?_, ?_, ?_, ?_, ?_⟩
  · intro e he
    simp only [mkRoot, List.mem_map] at he
    obtain ⟨sh, _, rfl⟩ := he
    simp [mkRoot]
  · intro i hi
    simp only [mkRoot, List.length_cons, List.length_nil] at hi
    have : i = 0 := by omega
    subst this
    refine ⟨((0, key (sanName cfg pfx) [sanMap cfg tags]), 0), ?_, rfl⟩
    simp only [mkRoot, List.mem_map, List.mem_range]
    exact ⟨0, by omega, rfl⟩
  · intro i s hs
    simp only [mkRoot] at hs
    cases i with
    | zero => simp at hs; subst hs; exact List.nodup_nil
    | succ i => simp at hs
  · intro m i j p p' t t' x y h1 _; exact absurd h1 (loc_mkRoot_false _ _ _ _ _ _ _ _ _)
  · intro m i p t x h1; exact absurd h1 (loc_mkRoot_false _ _ _ _ _ _ _ _ _)
  · intro m hm; exact absurd hm (Nat.not_lt_zero _)

/-- a reachable state of a test scope tree -/
structure Good (st : St) : Prop where
  kind : st.cfg.kind = .none
  inv : Inv st
  tinv : TInv st

theorem good_mkRoot (cfg : Cfg) (hk : cfg.kind = .none) (pfx sep : Bytes) (tags : TagMap) :
    Good (mkRoot cfg pfx sep tags) := ⟨hk, inv_mkRoot .., tinv_mkRoot ..⟩

theorem good_step (st : St) (h : Good st) (op : Op) : Good (step st op).1 :=
  ⟨by rw [(step_cfg_sep st op).1]; exact h.kind, inv_step st h.inv op, tinv_step st h.kind h.inv h.tinv op⟩

theorem good_runOps (st : St) (h : Good st) (ops : List Op) : Good (runOps st ops) := by
  induction ops generalizing st with
  | nil => exact h
  | cons op ops ih => exact ih _ (good_step st h op)

theorem loc_runOps (st : St) (h : Good st) (ops : List Op) (m i : Nat) (p : Bytes) (t : TagMap) (x : Metric)
    (hl : Loc st m i p t x) : Loc (runOps st ops) m i p t (ops.foldl (applyOp m) x) := by
  induction ops generalizing st x with
  | nil => exact hl
  | cons op ops ih =>
    exact ih (step st op).1 (good_step st h op) _ (loc_step st h.kind h.inv h.tinv op m i p t x hl)

/-- a get-or-create that returns a handle not allocated before installs the initial metric in the
addressed scope -/
theorem create_loc (st : St) (hinv : Inv st) (c : Op) (sid : Nat) (m0 : Metric)
    (hc : creation st c = some (sid, m0)) (m : Nat) (evs : List Event)
    (hout : (step st c).2 = .metric m evs) (hfresh : st.nextMetric ≤ m) :
    m = st.nextMetric ∧ ∃ s, getScope st sid = some s ∧ Loc (step st c).1 m sid s.pfx s.tags m0 := by
  rcases step_create st hinv c sid m0 hc with ⟨_, h | ⟨id, hid, h⟩⟩ | ⟨s, T, evs', hg, h1, h2⟩
  · rw [h] at hout; cases hout
  · rw [h] at hout; injection hout with e _; omega
  · rw [h2] at hout; injection hout with e _
    subst e
    refine ⟨rfl, s, hg, ?_⟩
    rw [h1]
    exact (loc_addMetric st sid s hg m0 ..).mpr (.inl ⟨rfl, rfl, rfl, rfl, rfl⟩)

theorem step_next (st : St) (hinv : Inv st) (op : Op) :
    (step st op).1.nextMetric = st.nextMetric
    ∨ (∃ sid m0 evs, creation st op = some (sid, m0) ∧ (step st op).2 = .metric st.nextMetric evs
        ∧ (step st op).1.nextMetric = st.nextMetric + 1) := by
  have hcreate : ∀ sid m0, creation st op = some (sid, m0) →
      ((step st op).1.nextMetric = st.nextMetric
      ∨ (∃ sid m0 evs, creation st op = some (sid, m0) ∧ (step st op).2 = .metric st.nextMetric evs
          ∧ (step st op).1.nextMetric = st.nextMetric + 1)) := by
    intro sid m0 hc
    rcases step_create st hinv op sid m0 hc with h | ⟨s, T, evs, hg, h1, h2⟩
    · exact Or.inl (by rw [h.1])
    · exact Or.inr ⟨sid, m0, evs, hc, h2, by rw [h1]; rfl⟩
  cases op with
  | counter s n => exact hcreate _ _ rfl
  | gauge s n => exact hcreate _ _ rfl
  | timer s n => exact hcreate _ _ rfl
  | hist s n spec => exact hcreate _ _ rfl
  | _ => exact .inl (step_frame st _ rfl).next

/-- **every allocated id was returned, fresh, by exactly one get-or-create of the program** -/
theorem created_split (st : St) (hinv : Inv st) (ops : List Op) (m : Nat)
    (h1 : st.nextMetric ≤ m) (h2 : m < (runOps st ops).nextMetric) :
    ∃ ops₁ c ops₂ sid m0 evs, ops = ops₁ ++ c :: ops₂ ∧ creation (runOps st ops₁) c = some (sid, m0)
      ∧ (step (runOps st ops₁) c).2 = .metric m evs ∧ (runOps st ops₁).nextMetric = m := by
  induction ops generalizing st with
  | nil => simp only [runOps_nil] at h2; omega
  | cons op ops ih =>
    rcases Nat.lt_or_ge m (step st op).1.nextMetric with hlt | hge
    · rcases step_next st hinv op with h | ⟨sid, m0, evs, hc, hout, hn⟩
      · omega
      · have : m = st.nextMetric := by omega
        subst this
        exact ⟨[], op, ops, sid, m0, evs, rfl, hc, hout, rfl⟩
    · obtain ⟨o1, c, o2, sid, m0, evs, e, hc, hout, hn⟩ := ih (step st op).1 (inv_step st hinv op) hge h2
      exact ⟨op :: o1, c, o2, sid, m0, evs, by rw [e]; rfl, hc, hout, hn⟩

/-! ### structure of the snapshot -/

/-- the snapshot entry of one metric of a scope with prefix `p` and tags `t` -/
def entryOf (sep p : Bytes) (t : TagMap) : Metric → SnapEntry
  | .counter n u => .counter (key (fqn sep p n) [t]) (fqn sep p n) t u
  | .gauge n c _ => .gauge (key (fqn sep p n) [t]) (fqn sep p n) t c
  | .timer n vs => .timer (key (fqn sep p n) [t]) (fqn sep p n) t vs
  | .hist n h =>
    if h.isDur then .histD (key (fqn sep p n) [t]) (fqn sep p n) t (sumByBound h.dUppers h.counts)
    else .histV (key (fqn sep p n) [t]) (fqn sep p n) t (sumByBound h.vUppers h.counts)

/-- the registered scope ids, each once -/
def regSids (st : St) : List Nat := (st.reg.map (·.2)).eraseDups

/-- the snapshot with every entry labelled by the id of its metric -/
def snapIds (st : St) : List (Nat × SnapEntry) :=
  (regSids st).flatMap fun sid =>
    match getScope st sid with
    | none => []
    | some s => s.metrics.map fun q => (q.1, entryOf st.sep s.pfx s.tags q.2)

theorem snapshot_eq (st : St) : snapshot st = (snapIds st).map (·.2) := by
  unfold snapshot snapIds regSids
  simp only [List.map_flatMap]
  congr 1
  funext sid
  cases getScope st sid with
  | none => rfl
  | some s =>
    simp only [List.map_map]
    apply List.map_congr_left
    intro q _
    obtain ⟨i, m⟩ := q
    cases m with
    | hist n h => simp only [Function.comp, entryOf]
    | _ => rfl

theorem nodup_eraseDups_nat : ∀ (l : List Nat), l.eraseDups.Nodup := by
  intro l
  induction h : l.length using Nat.strongRecOn generalizing l with
  | _ n ih =>
    cases l with
    | nil => simp
    | cons a as =>
      rw [List.eraseDups_cons, List.nodup_cons]
      constructor
      · intro hm
        have := (List.mem_filter.mp (List.mem_eraseDups.mp hm)).2
        simp at this
      · have hlen : (as.filter fun b => !b == a).length < n := by
          subst h
          exact Nat.lt_succ_of_le (List.length_filter_le _ _)
        exact ih _ hlen _ rfl

theorem nodup_flatMap {α β : Type} (f : α → List β) : ∀ (l : List α), l.Nodup → (∀ a ∈ l, (f a).Nodup) →
    (∀ a ∈ l, ∀ b ∈ l, a ≠ b → ∀ x ∈ f a, x ∉ f b) → (l.flatMap f).Nodup := by
  intro l
  induction l with
  | nil => intro _ _ _; simp
  | cons a l ih =>
    intro hnd h1 h2
    rw [List.nodup_cons] at hnd
    rw [List.flatMap_cons, List.nodup_append]
    refine ⟨h1 a List.mem_cons_self, ?_, ?_⟩
    · exact ih hnd.2 (fun b hb => h1 b (List.mem_cons_of_mem _ hb))
        (fun b hb c hc => h2 b (List.mem_cons_of_mem _ hb) c (List.mem_cons_of_mem _ hc))
    · intro x hx y hy hxy
      subst hxy
      obtain ⟨b, hb, hxb⟩ := List.mem_flatMap.mp hy
      have hab : a ≠ b := fun e => hnd.1 (e ▸ hb)
      exact h2 a List.mem_cons_self b (List.mem_cons_of_mem _ hb) hab x hx hxb

theorem mem_regSids (st : St) (i : Nat) : i ∈ regSids st ↔ ∃ e ∈ st.reg, e.2 = i := by
  unfold regSids
  rw [List.mem_eraseDups, List.mem_map]

theorem mem_snapIds (st : St) (m : Nat) (e : SnapEntry) :
    (m, e) ∈ snapIds st ↔ ∃ i ∈ regSids st, ∃ p t x, Loc st m i p t x ∧ e = entryOf st.sep p t x := by
  unfold snapIds
  rw [List.mem_flatMap]
  constructor
  · rintro ⟨sid, hsid, h⟩
    cases hg : getScope st sid with
    | none => rw [hg] at h; cases h
    | some s =>
      rw [hg] at h
      obtain ⟨q, hq, he⟩ := List.mem_map.mp h
      injection he with e1 e2
      subst e1; subst e2
      exact ⟨sid, hsid, s.pfx, s.tags, q.2, ⟨s, hg, rfl, rfl, hq⟩, rfl⟩
  · rintro ⟨i, hi, p, t, x, ⟨s, hs, rfl, rfl, hx⟩, rfl⟩
    refine ⟨i, hi, ?_⟩
    have : getScope st i = some s := hs
    rw [this]
    exact List.mem_map.mpr ⟨(m, x), hx, rfl⟩

/-- on a test scope tree the snapshot has exactly one entry per allocated metric -/
theorem snapIds_nodup (st : St) (h : TInv st) : ((snapIds st).map (·.1)).Nodup := by
  unfold snapIds
  rw [List.map_flatMap]
  apply nodup_flatMap
  · exact nodup_eraseDups_nat _
  · intro sid _
    cases hg : getScope st sid with
    | none => simp
    | some s =>
      simp only [List.map_map]
      exact h.nodup sid s hg
  · intro a _ b _ hab x hxa hxb
    cases hga : getScope st a with
    | none => rw [hga] at hxa; cases hxa
    | some sa =>
      cases hgb : getScope st b with
      | none => rw [hgb] at hxb; cases hxb
      | some sb =>
        rw [hga] at hxa; rw [hgb] at hxb
        simp only [List.map_map, List.mem_map, Function.comp] at hxa hxb
        obtain ⟨qa, hqa, rfl⟩ := hxa
        obtain ⟨qb, hqb, he⟩ := hxb
        apply hab
        have la : Loc st qa.1 a sa.pfx sa.tags qa.2 := ⟨sa, hga, rfl, rfl, hqa⟩
        have lb : Loc st qa.1 b sb.pfx sb.tags qb.2 := ⟨sb, hgb, rfl, rfl, by rw [← he]; exact hqb⟩
        exact h.uniq _ _ _ _ _ _ _ _ _ la lb

theorem mem_snapIds_of_loc (st : St) (h : TInv st) (m i : Nat) (p : Bytes) (t : TagMap) (x : Metric)
    (hl : Loc st m i p t x) : (m, entryOf st.sep p t x) ∈ snapIds st := by
  apply (mem_snapIds ..).mpr
  obtain ⟨s, hs, _⟩ := id hl
  have hi : i < st.scopes.length := by
    rcases Nat.lt_or_ge i st.scopes.length with h1 | h1
    · exact h1
    · rw [List.getElem?_eq_none h1] at hs; cases hs
  exact ⟨i, (mem_regSids ..).mpr (h.allReg i hi), p, t, x, hl, rfl⟩

/-- the ids labelling the snapshot are exactly the allocated ids -/
theorem mem_snapIds_ids (st : St) (h : TInv st) (m : Nat) :
    m ∈ (snapIds st).map (·.1) ↔ m < st.nextMetric := by
  constructor
  · intro hm
    obtain ⟨q, hq, rfl⟩ := List.mem_map.mp hm
    obtain ⟨i, _, p, t, x, hl, _⟩ := (mem_snapIds st q.1 q.2).mp hq
    exact h.bound _ _ _ _ _ hl
  · intro hm
    obtain ⟨i, p, t, x, hl⟩ := h.complete m hm
    exact List.mem_map.mpr ⟨_, mem_snapIds_of_loc st h m i p t x hl, rfl⟩

theorem snapIds_keep {st st' : St} (k : Keep st st') (hreg : st'.reg = st.reg)
    (hlen : st'.scopes.length = st.scopes.length) : snapIds st' = snapIds st := by
  unfold snapIds regSids
  rw [hreg, k.sep]
  congr 1
  funext sid
  cases hg' : getScope st' sid with
  | none =>
    have : getScope st sid = none := by
      unfold getScope at hg' ⊢
      rw [List.getElem?_eq_none_iff] at hg' ⊢
      omega
    rw [this]
  | some s' =>
    rcases k.scopes.2 sid s' hg' with ⟨s, hs, hk⟩ | ⟨hge, _⟩
    · have : getScope st sid = some s := hs
      rw [this]
      simp only [hk.1, hk.2.1, hk.2.2]
    · have := getScope_lt hg'
      omega

theorem close_none_reg (st : St) (hk : st.cfg.kind = .none) (sid : Nat) :
    (step st (.close sid)).1.reg = st.reg ∧ (step st (.close sid)).1.scopes.length = st.scopes.length := by
  have hkb : (st.cfg.kind == RKind.none) = true := by rw [hk]; rfl
  simp only [step]
  cases hg : getScope st sid with
  | none => exact ⟨rfl, rfl⟩
  | some s =>
    simp only
    split
    · exact ⟨rfl, rfl⟩
    · split
      · exact ⟨rfl, by simp [setScope]⟩
      · simp only
        exact ⟨rfl, by simp [setScope]⟩

/-- `Close` (of any scope, even the root) of a test scope tree leaves every snapshot entry in place -/
theorem snapIds_close (st : St) (hk : st.cfg.kind = .none) (sid : Nat) :
    snapIds (step st (.close sid)).1 = snapIds st :=
  snapIds_keep (close_keep st hk sid) (close_none_reg st hk sid).1 (close_none_reg st hk sid).2

/-! ### the value a metric accumulates over a program -/

/-- int64 sum of the increments addressed to counter `m` -/
def incStep (m : Nat) (acc : Int) : Op → Int
  | .inc m' v => if m' = m then wrap64 (acc + v) else acc
  | _ => acc
def incSum (m : Nat) (ops : List Op) : Int := ops.foldl (incStep m) 0

/-- the last value written to gauge `m` (the initial value `0` if none) -/
def updStep (m : Nat) (acc : F64) : Op → F64
  | .upd m' v => if m' = m then v else acc
  | _ => acc
def lastUpd (m : Nat) (ops : List Op) : F64 := ops.foldl (updStep m) 0

/-- the durations recorded on timer `m`, in program order -/
def recorded (m : Nat) (ops : List Op) : List Int :=
  ops.filterMap fun op => match op with
    | .record m' d => if m' = m then some d else none
    | _ => none

/-- the value samples / duration samples sent to histogram `m`, in program order -/
def samplesV (m : Nat) (ops : List Op) : List F64 :=
  ops.filterMap fun op => match op with
    | .recv m' v => if m' = m then some v else none
    | _ => none
def samplesD (m : Nat) (ops : List Op) : List Int :=
  ops.filterMap fun op => match op with
    | .recd m' d => if m' = m then some d else none
    | _ => none

theorem applyOp_not_target (m : Nat) (x : Metric) (op : Op) (h : target op ≠ some m) : applyOp m x op = x := by
  simp [applyOp, h]

theorem fold_counter (m : Nat) (n : Bytes) (ops : List Op) : ∀ (u : Int),
    ops.foldl (applyOp m) (.counter n u) = .counter n (ops.foldl (incStep m) u) := by
  induction ops with
  | nil => intro u; rfl
  | cons op ops ih =>
    intro u
    simp only [List.foldl_cons]
    have : applyOp m (.counter n u) op = .counter n (incStep m u op) := by
      cases op with
      | inc m' v =>
        by_cases hm : m' = m
        · subst hm; simp [applyOp, target, effect, incStep]
        · simp [applyOp, target, incStep, hm]
      | upd m' v => by_cases hm : m' = m <;> simp [applyOp, target, effect, incStep, hm]
      | record m' v => by_cases hm : m' = m <;> simp [applyOp, target, effect, incStep, hm]
      | recv m' v => by_cases hm : m' = m <;> simp [applyOp, target, effect, incStep, hm]
      | recd m' v => by_cases hm : m' = m <;> simp [applyOp, target, effect, incStep, hm]
      | _ => simp [applyOp, target, incStep]
    rw [this, ih]

theorem fold_gauge (m : Nat) (n : Bytes) (ops : List Op) : ∀ (c : F64) (b : Bool),
    ∃ b', ops.foldl (applyOp m) (.gauge n c b) = .gauge n (ops.foldl (updStep m) c) b' := by
  induction ops with
  | nil => intro c b; exact ⟨b, rfl⟩
  | cons op ops ih =>
    intro c b
    simp only [List.foldl_cons]
    have : ∃ b', applyOp m (.gauge n c b) op = .gauge n (updStep m c op) b' := by
      cases op with
      | upd m' v =>
        by_cases hm : m' = m
        · subst hm; exact ⟨true, by simp [applyOp, target, effect, updStep]⟩
        · exact ⟨b, by simp [applyOp, target, updStep, hm]⟩
      | inc m' v => exact ⟨b, by by_cases hm : m' = m <;> simp [applyOp, target, effect, updStep, hm]⟩
      | record m' v => exact ⟨b, by by_cases hm : m' = m <;> simp [applyOp, target, effect, updStep, hm]⟩
      | recv m' v => exact ⟨b, by by_cases hm : m' = m <;> simp [applyOp, target, effect, updStep, hm]⟩
      | recd m' v => exact ⟨b, by by_cases hm : m' = m <;> simp [applyOp, target, effect, updStep, hm]⟩
      | _ => exact ⟨b, by simp [applyOp, target, updStep]⟩
    obtain ⟨b', hb'⟩ := this
    rw [hb']
    exact ih _ b'

theorem fold_timer (m : Nat) (n : Bytes) (ops : List Op) : ∀ (vs : List Int),
    ops.foldl (applyOp m) (.timer n vs) = .timer n (vs ++ recorded m ops) := by
  induction ops with
  | nil => intro vs; simp [recorded]
  | cons op ops ih =>
    intro vs
    simp only [List.foldl_cons]
    cases op with
    | record m' d =>
      by_cases hm : m' = m
      · subst hm
        have : applyOp m' (.timer n vs) (.record m' d) = .timer n (vs ++ [d]) := by simp [applyOp, target, effect]
        rw [this, ih]; simp [recorded]
      · have : applyOp m (.timer n vs) (.record m' d) = .timer n vs := by simp [applyOp, target, hm]
        rw [this, ih]; simp [recorded, hm]
    | inc m' v =>
      have : applyOp m (.timer n vs) (.inc m' v) = .timer n vs := by
        by_cases hm : m' = m <;> simp [applyOp, target, effect, hm]
      rw [this, ih]; simp [recorded]
    | upd m' v =>
      have : applyOp m (.timer n vs) (.upd m' v) = .timer n vs := by
        by_cases hm : m' = m <;> simp [applyOp, target, effect, hm]
      rw [this, ih]; simp [recorded]
    | recv m' v =>
      have : applyOp m (.timer n vs) (.recv m' v) = .timer n vs := by
        by_cases hm : m' = m <;> simp [applyOp, target, effect, hm]
      rw [this, ih]; simp [recorded]
    | recd m' v =>
      have : applyOp m (.timer n vs) (.recd m' v) = .timer n vs := by
        by_cases hm : m' = m <;> simp [applyOp, target, effect, hm]
      rw [this, ih]; simp [recorded]
    | sub _ _ _ | tagged _ _ _ | counter _ _ | gauge _ _ | timer _ _ | hist _ _ _ | report | close _ =>
      have : ∀ o : Op, target o = none → applyOp m (.timer n vs) o = .timer n vs := by
        intro o ho; simp [applyOp, ho]
      rw [this _ rfl, ih]; simp [recorded]

/-- the snapshot entry of a metric created by `c` after the rest `ops₂` of the program -/
theorem snapshot_entry (st₀ : St) (hg : Good st₀) (c : Op) (sid : Nat) (m0 : Metric) (m : Nat) (evs : List Event)
    (hc : creation st₀ c = some (sid, m0)) (hout : (step st₀ c).2 = .metric m evs)
    (hfresh : st₀.nextMetric ≤ m) (ops₂ : List Op) :
    ∃ sc, getScope st₀ sid = some sc ∧
      (m, entryOf st₀.sep sc.pfx sc.tags (ops₂.foldl (applyOp m) m0)) ∈ snapIds (runOps (step st₀ c).1 ops₂) ∧
      ∀ e, (m, e) ∈ snapIds (runOps (step st₀ c).1 ops₂) →
        e = entryOf st₀.sep sc.pfx sc.tags (ops₂.foldl (applyOp m) m0) := by
  obtain ⟨_, sc, hsc, hl⟩ := create_loc st₀ hg.inv c sid m0 hc m evs hout hfresh
  have hg1 := good_step st₀ hg c
  have hl2 := loc_runOps _ hg1 ops₂ m sid sc.pfx sc.tags m0 hl
  have hg2 := good_runOps _ hg1 ops₂
  have hsep : (runOps (step st₀ c).1 ops₂).sep = st₀.sep :=
    (runOps_cfg_sep _ ops₂).2.trans (step_cfg_sep st₀ c).2
  refine ⟨sc, hsc, ?_, ?_⟩
  · rw [← hsep]; exact mem_snapIds_of_loc _ hg2.tinv _ _ _ _ _ hl2
  · intro e he
    obtain ⟨i, _, p, t, x, hl3, rfl⟩ := (mem_snapIds ..).mp he
    obtain ⟨_, rfl, rfl, rfl⟩ := hg2.tinv.loc_unique hl3 hl2
    rw [hsep]

/-! ### histograms: `sumByBound` and the bucket counts -/

section Hist
variable {α : Type} [BEq α] [LawfulBEq α]

/-- total count stored under bound `b` in a list of (bound, count) pairs -/
def mass : List (α × Int) → α → Int
  | [], _ => 0
  | (b', c) :: l, b => (if b' == b then c else 0) + mass l b

/-- one step of `sumByBound` -/
def sbbStep (acc : List (α × Int)) (bc : α × Int) : List (α × Int) :=
  if acc.any (·.1 == bc.1) then acc.map fun (b', c') => if b' == bc.1 then (b', c' + bc.2) else (b', c')
  else acc ++ [(bc.1, bc.2)]

omit [LawfulBEq α] in
theorem sumByBound_eq (bs : List α) (cs : List Int) : sumByBound bs cs = (bs.zip cs).foldl sbbStep [] := by
  unfold sumByBound
  congr 1

omit [LawfulBEq α] in
theorem mass_append (l₁ l₂ : List (α × Int)) (k : α) : mass (l₁ ++ l₂) k = mass l₁ k + mass l₂ k := by
  induction l₁ with
  | nil => simp [mass]
  | cons p l ih => obtain ⟨b, c⟩ := p; simp only [List.cons_append, mass, ih]; omega

theorem any_key_iff (acc : List (α × Int)) (b : α) : acc.any (·.1 == b) = true ↔ b ∈ acc.map (·.1) := by
  rw [List.any_eq_true, List.mem_map]
  constructor
  · rintro ⟨p, hp, he⟩; exact ⟨p, hp, by simpa using he⟩
  · rintro ⟨p, hp, he⟩; exact ⟨p, hp, by simp [he]⟩

omit [LawfulBEq α] in
theorem map_bumpKey_keys (acc : List (α × Int)) (b : α) (c : Int) :
    (acc.map fun (b', c') => if b' == b then (b', c' + c) else (b', c')).map (·.1) = acc.map (·.1) := by
  rw [List.map_map]
  apply List.map_congr_left
  intro p _
  obtain ⟨b', c'⟩ := p
  simp only [Function.comp]
  split <;> rfl

theorem map_bumpKey_absent (acc : List (α × Int)) (b : α) (c : Int) (h : b ∉ acc.map (·.1)) :
    (acc.map fun (b', c') => if b' == b then (b', c' + c) else (b', c')) = acc := by
  induction acc with
  | nil => rfl
  | cons p l ih =>
    obtain ⟨b', c'⟩ := p
    simp only [List.map_cons, List.mem_cons, not_or] at h
    have hne : (b' == b) = false := by
      cases hb : b' == b with
      | false => rfl
      | true => exact absurd (LawfulBEq.eq_of_beq hb).symm h.1
    simp only [List.map_cons, hne, Bool.false_eq_true, if_false]
    rw [ih h.2]

theorem map_bumpKey_mass (acc : List (α × Int)) (b : α) (c : Int) (k : α)
    (hnd : (acc.map (·.1)).Nodup) (hb : b ∈ acc.map (·.1)) :
    mass (acc.map fun (b', c') => if b' == b then (b', c' + c) else (b', c')) k
      = mass acc k + (if b == k then c else 0) := by
  induction acc with
  | nil => cases hb
  | cons p l ih =>
    obtain ⟨b', c'⟩ := p
    simp only [List.map_cons, List.nodup_cons] at hnd
    by_cases hbb : b' = b
    · subst hbb
      rw [List.map_cons]
      simp only [beq_self_eq_true, if_true]
      rw [map_bumpKey_absent l b' c hnd.1]
      simp only [mass]
      split <;> omega
    · have hne : (b' == b) = false := by
        cases hb' : b' == b with
        | false => rfl
        | true => exact absurd (LawfulBEq.eq_of_beq hb') hbb
      have hb2 : b ∈ l.map (·.1) := by
        simp only [List.map_cons, List.mem_cons] at hb
        rcases hb with h | h
        · exact absurd h.symm hbb
        · exact h
      rw [List.map_cons]
      simp only [hne, Bool.false_eq_true, if_false, mass]
      rw [ih hnd.2 hb2]
      omega

theorem sbbStep_spec (acc : List (α × Int)) (b : α) (c : Int) (hnd : (acc.map (·.1)).Nodup) :
    ((sbbStep acc (b, c)).map (·.1)).Nodup
    ∧ (∀ k, k ∈ (sbbStep acc (b, c)).map (·.1) ↔ k ∈ acc.map (·.1) ∨ k = b)
    ∧ ∀ k, mass (sbbStep acc (b, c)) k = mass acc k + (if b == k then c else 0) := by
  unfold sbbStep
  by_cases h : acc.any (·.1 == b) = true
  · have hb := (any_key_iff acc b).mp h
    simp only [h, if_true]
    refine ⟨by rw [map_bumpKey_keys]; exact hnd, ?_, ?_⟩
    · intro k; rw [map_bumpKey_keys]
      constructor
      · exact fun hk => .inl hk
      · rintro (hk | rfl)
        · exact hk
        · exact hb
    · intro k; exact map_bumpKey_mass acc b c k hnd hb
  · have hb : b ∉ acc.map (·.1) := fun hb => h ((any_key_iff acc b).mpr hb)
    simp only [h, Bool.false_eq_true, if_false]
    refine ⟨?_, ?_, ?_⟩
    · rw [List.map_append, List.nodup_append]
      refine ⟨hnd, by simp, ?_⟩
      intro x hx y hy
      simp only [List.map_cons, List.map_nil, List.mem_singleton] at hy
      subst hy
      exact fun e => hb (e ▸ hx)
    · intro k; simp [List.map_append]
    · intro k; rw [mass_append]; simp [mass]

theorem foldl_sbbStep_spec (L : List (α × Int)) : ∀ (acc : List (α × Int)), (acc.map (·.1)).Nodup →
    ((L.foldl sbbStep acc).map (·.1)).Nodup
    ∧ (∀ k, k ∈ (L.foldl sbbStep acc).map (·.1) ↔ k ∈ acc.map (·.1) ∨ k ∈ L.map (·.1))
    ∧ ∀ k, mass (L.foldl sbbStep acc) k = mass acc k + mass L k := by
  induction L with
  | nil => intro acc h; exact ⟨h, by simp, by simp [mass]⟩
  | cons p L ih =>
    intro acc hnd
    obtain ⟨b, c⟩ := p
    obtain ⟨h1, h2, h3⟩ := sbbStep_spec acc b c hnd
    obtain ⟨g1, g2, g3⟩ := ih (sbbStep acc (b, c)) h1
    simp only [List.foldl_cons]
    refine ⟨g1, ?_, ?_⟩
    · intro k
      rw [g2, h2]
      simp only [List.map_cons, List.mem_cons]
      constructor
      · rintro ((h | h) | h)
        · exact .inl h
        · exact .inr (.inl h)
        · exact .inr (.inr h)
      · rintro (h | h | h)
        · exact .inl (.inl h)
        · exact .inl (.inr h)
        · exact .inr h
    · intro k
      rw [g3, h3]
      simp only [mass]
      omega

theorem mass_of_mem (R : List (α × Int)) (hnd : (R.map (·.1)).Nodup) (k : α) (v : Int) (h : (k, v) ∈ R) :
    v = mass R k := by
  induction R with
  | nil => cases h
  | cons p l ih =>
    obtain ⟨b, c⟩ := p
    simp only [List.map_cons, List.nodup_cons] at hnd
    have mass_absent : ∀ (l : List (α × Int)), k ∉ l.map (·.1) → mass l k = 0 := by
      intro l
      induction l with
      | nil => intro _; rfl
      | cons q l ih2 =>
        intro hq
        obtain ⟨b2, c2⟩ := q
        simp only [List.map_cons, List.mem_cons, not_or] at hq
        have : (b2 == k) = false := by
          cases hb : b2 == k with
          | false => rfl
          | true => exact absurd (LawfulBEq.eq_of_beq hb).symm hq.1
        simp only [mass, this, Bool.false_eq_true, if_false, ih2 hq.2]
        omega
    rcases List.mem_cons.mp h with e | h
    · injection e with e1 e2
      subst e1; subst e2
      simp only [mass, beq_self_eq_true, if_true, mass_absent l hnd.1]
      omega
    · have hk : k ∈ l.map (·.1) := List.mem_map_of_mem (f := (·.1)) h
      have : (b == k) = false := by
        cases hb : b == k with
        | false => rfl
        | true => exact absurd ((LawfulBEq.eq_of_beq hb) ▸ hk) hnd.1
      simp only [mass, this, Bool.false_eq_true, if_false]
      rw [← ih hnd.2 h]
      omega

/-- **`sumByBound`**: distinct bounds, exactly the bounds that have a count, each mapped to the sum
of the counts of the buckets carrying that bound -/
theorem sumByBound_spec (bs : List α) (cs : List Int) :
    ((sumByBound bs cs).map (·.1)).Nodup
    ∧ (∀ k, k ∈ (sumByBound bs cs).map (·.1) ↔ k ∈ (bs.zip cs).map (·.1))
    ∧ ∀ k v, (k, v) ∈ sumByBound bs cs → v = mass (bs.zip cs) k := by
  rw [sumByBound_eq]
  obtain ⟨h1, h2, h3⟩ := foldl_sbbStep_spec (bs.zip cs) [] List.nodup_nil
  refine ⟨h1, by intro k; rw [h2]; simp, ?_⟩
  intro k v hv
  rw [mass_of_mem _ h1 k v hv, h3]
  simp [mass]

/-- does bucket `i` carry bound `k`? -/
def hitB (us : List α) (i : Nat) (k : α) : Bool :=
  match us[i]? with
  | some u => u == k
  | none => false

theorem mass_zip_bump (k : α) : ∀ (us : List α) (cs : List Int) (i : Nat), i < cs.length → i < us.length →
    mass (us.zip (bump cs i)) k = mass (us.zip cs) k + (if hitB us i k then 1 else 0) := by
  intro us
  induction us with
  | nil => intro cs i _ h; simp at h
  | cons u us ih =>
    intro cs i hc hu
    cases cs with
    | nil => simp at hc
    | cons c cs =>
      cases i with
      | zero =>
        simp only [bump, List.set_cons_zero, List.zip_cons_cons, mass, hitB, List.getElem?_cons_zero,
          List.getD_cons_zero]
        by_cases h : (u == k) = true
        · simp only [h, if_true]; omega
        · have h' : (u == k) = false := by simpa using h
          simp only [h', Bool.false_eq_true, if_false]; omega
      | succ j =>
        have hb : bump (c :: cs) (j + 1) = c :: bump cs j := by simp [bump]
        have hh : hitB (u :: us) (j + 1) k = hitB us j k := by simp [hitB]
        rw [hb, hh]
        simp only [List.zip_cons_cons, mass]
        rw [ih cs j (by simpa using hc) (by simpa using hu)]
        omega

theorem bump_length (cs : List Int) (i : Nat) : (bump cs i).length = cs.length := by simp [bump]

/-- counts after recording the samples, `place` giving each sample's bucket -/
def recCounts {β : Type} (place : β → Nat) (samples : List β) (cs : List Int) : List Int :=
  samples.foldl (fun cs v => bump cs (place v)) cs

theorem recCounts_length {β : Type} (place : β → Nat) (samples : List β) (cs : List Int) :
    (recCounts place samples cs).length = cs.length := by
  induction samples generalizing cs with
  | nil => rfl
  | cons v vs ih => simp only [recCounts, List.foldl_cons] at ih ⊢; rw [ih, bump_length]

theorem mass_recCounts {β : Type} (us : List α) (place : β → Nat) (k : α) (samples : List β) :
    ∀ (cs : List Int), cs.length = us.length → (∀ v ∈ samples, place v < us.length) →
    mass (us.zip (recCounts place samples cs)) k
      = mass (us.zip cs) k + ((samples.filter fun v => hitB us (place v) k).length : Int) := by
  induction samples with
  | nil => intro cs _ _; simp [recCounts]
  | cons v vs ih =>
    intro cs hlen hpl
    have hv := hpl v List.mem_cons_self
    simp only [recCounts, List.foldl_cons] at ih ⊢
    rw [ih (bump cs (place v)) (by rw [bump_length, hlen]) (fun w hw => hpl w (List.mem_cons_of_mem _ hw))]
    rw [mass_zip_bump k us cs (place v) (by omega) hv]
    rw [List.filter_cons]
    split <;> simp <;> omega

omit [LawfulBEq α] in
theorem mass_zip_replicate (us : List α) (n : Nat) (k : α) : mass (us.zip (List.replicate n 0)) k = 0 := by
  induction us generalizing n with
  | nil => simp [mass]
  | cons u us ih =>
    cases n with
    | zero => simp [mass]
    | succ n => simp only [List.replicate_succ, List.zip_cons_cons, mass, ih]; split <;> omega

end Hist

theorem placeKey_lt (us : List Int) (hne : us ≠ []) (v : Int) : placeKey us v < us.length := by
  have hlen : 0 < us.length := List.length_pos_iff.mpr hne
  unfold placeKey
  simp only
  split <;> omega

theorem placeValue_lt (us : List F64) (hne : us ≠ []) (v : F64) : placeValue us v < us.length := by
  have hlen : 0 < us.length := List.length_pos_iff.mpr hne
  unfold placeValue
  simp only
  split <;> omega

/-- a value histogram accumulates exactly the `.recv` samples addressed to it (and ignores `.recd`) -/
theorem fold_histV (m : Nat) (n : Bytes) (h : Hist) (hd : h.isDur = false) (ops : List Op) : ∀ (cs : List Int),
    ops.foldl (applyOp m) (.hist n { h with counts := cs })
      = .hist n { h with counts := recCounts (placeValue h.vUppers) (samplesV m ops) cs } := by
  induction ops with
  | nil => intro cs; rfl
  | cons op ops ih =>
    intro cs
    simp only [List.foldl_cons]
    have same : ∀ o : Op, (∀ v, o ≠ .recv m v) →
        applyOp m (.hist n { h with counts := cs }) o = .hist n { h with counts := cs }
        ∧ samplesV m (o :: ops) = samplesV m ops := by
      intro o ho
      cases o with
      | recv m' v =>
        have hm : m' ≠ m := fun e => ho v (e ▸ rfl)
        exact ⟨by simp [applyOp, target, hm], by simp [samplesV, hm]⟩
      | recd m' d =>
        refine ⟨?_, by simp [samplesV]⟩
        by_cases hm : m' = m <;> simp [applyOp, target, effect, hm, hd]
      | inc m' v => exact ⟨by by_cases hm : m' = m <;> simp [applyOp, target, effect, hm], by simp [samplesV]⟩
      | upd m' v => exact ⟨by by_cases hm : m' = m <;> simp [applyOp, target, effect, hm], by simp [samplesV]⟩
      | record m' v => exact ⟨by by_cases hm : m' = m <;> simp [applyOp, target, effect, hm], by simp [samplesV]⟩
      | _ => exact ⟨by simp [applyOp, target], by simp [samplesV]⟩
    by_cases hop : ∃ v, op = .recv m v
    · obtain ⟨v, rfl⟩ := hop
      have e1 : applyOp m (.hist n { h with counts := cs }) (.recv m v)
          = .hist n { h with counts := bump cs (placeValue h.vUppers v) } := by
        simp [applyOp, target, effect, hd]
      have e2 : samplesV m (.recv m v :: ops) = v :: samplesV m ops := by simp [samplesV]
      rw [e1, e2, ih]
      rfl
    · have := same op (fun v e => hop ⟨v, e⟩)
      rw [this.1, this.2, ih]

/-- a duration histogram accumulates exactly the `.recd` samples addressed to it (and ignores `.recv`) -/
theorem fold_histD (m : Nat) (n : Bytes) (h : Hist) (hd : h.isDur = true) (ops : List Op) : ∀ (cs : List Int),
    ops.foldl (applyOp m) (.hist n { h with counts := cs })
      = .hist n { h with counts := recCounts (placeKey h.dUppers) (samplesD m ops) cs } := by
  induction ops with
  | nil => intro cs; rfl
  | cons op ops ih =>
    intro cs
    simp only [List.foldl_cons]
    have same : ∀ o : Op, (∀ v, o ≠ .recd m v) →
        applyOp m (.hist n { h with counts := cs }) o = .hist n { h with counts := cs }
        ∧ samplesD m (o :: ops) = samplesD m ops := by
      intro o ho
      cases o with
      | recd m' v =>
        have hm : m' ≠ m := fun e => ho v (e ▸ rfl)
        exact ⟨by simp [applyOp, target, hm], by simp [samplesD, hm]⟩
      | recv m' d =>
        refine ⟨?_, by simp [samplesD]⟩
        by_cases hm : m' = m <;> simp [applyOp, target, effect, hm, hd]
      | inc m' v => exact ⟨by by_cases hm : m' = m <;> simp [applyOp, target, effect, hm], by simp [samplesD]⟩
      | upd m' v => exact ⟨by by_cases hm : m' = m <;> simp [applyOp, target, effect, hm], by simp [samplesD]⟩
      | record m' v => exact ⟨by by_cases hm : m' = m <;> simp [applyOp, target, effect, hm], by simp [samplesD]⟩
      | _ => exact ⟨by simp [applyOp, target], by simp [samplesD]⟩
    by_cases hop : ∃ v, op = .recd m v
    · obtain ⟨v, rfl⟩ := hop
      have e1 : applyOp m (.hist n { h with counts := cs }) (.recd m v)
          = .hist n { h with counts := bump cs (placeKey h.dUppers v) } := by
        simp [applyOp, target, effect, hd]
      have e2 : samplesD m (.recd m v :: ops) = v :: samplesD m ops := by simp [samplesD]
      rw [e1, e2, ih]
      rfl
    · have := same op (fun v e => hop ⟨v, e⟩)
      rw [this.1, this.2, ih]

/-- the map of a value histogram's snapshot after recording `samples` into fresh buckets `us` -/
theorem histMap_value (us : List F64) (hne : us ≠ []) (samples : List F64) :
    let M := sumByBound us (recCounts (placeValue us) samples (List.replicate us.length 0))
    (M.map (·.1)).Nodup ∧ (∀ b, b ∈ M.map (·.1) ↔ b ∈ us)
    ∧ ∀ b c, (b, c) ∈ M → c = ((samples.filter fun v => hitB us (placeValue us v) b).length : Int) := by
  intro M
  have hlen : (recCounts (placeValue us) samples (List.replicate us.length 0)).length = us.length := by
    rw [recCounts_length]; simp
  obtain ⟨h1, h2, h3⟩ := sumByBound_spec us (recCounts (placeValue us) samples (List.replicate us.length 0))
  refine ⟨h1, ?_, ?_⟩
  · intro b; rw [h2, List.map_fst_zip (by omega)]
  · intro b c hbc
    rw [h3 b c hbc, mass_recCounts us (placeValue us) b samples _ (by simp)
      (fun v _ => placeValue_lt us hne v), mass_zip_replicate]
    omega

theorem histMap_duration (us : List Int) (hne : us ≠ []) (samples : List Int) :
    let M := sumByBound us (recCounts (placeKey us) samples (List.replicate us.length 0))
    (M.map (·.1)).Nodup ∧ (∀ b, b ∈ M.map (·.1) ↔ b ∈ us)
    ∧ ∀ b c, (b, c) ∈ M → c = ((samples.filter fun v => hitB us (placeKey us v) b).length : Int) := by
  intro M
  have hlen : (recCounts (placeKey us) samples (List.replicate us.length 0)).length = us.length := by
    rw [recCounts_length]; simp
  obtain ⟨h1, h2, h3⟩ := sumByBound_spec us (recCounts (placeKey us) samples (List.replicate us.length 0))
  refine ⟨h1, ?_, ?_⟩
  · intro b; rw [h2, List.map_fst_zip (by omega)]
  · intro b c hbc
    rw [h3 b c hbc, mass_recCounts us (placeKey us) b samples _ (by simp)
      (fun v _ => placeKey_lt us hne v), mass_zip_replicate]
    omega

end Tally.ScopeRec
