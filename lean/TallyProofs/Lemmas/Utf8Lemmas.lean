import Tally.Model.Sanitize
/-!
# Lemmas about the UTF-8 model (`Tally.Utf8`) and the sanitizer model (`Tally.Sanitize`)

Nat level: `decodeNat (encodeNat r ++ rest) = (r, _)` for Unicode scalar values, and the
classification of `decodeNat` results (error, or the shortest-form encoding of a scalar value).
Byte level: "proper" items, `decodeAll` of a concatenation of proper items, and the
characterisation `decodeAll (sanitize c rep s) = (decodeAll s).map (fixItem c rep)`.
-/
namespace Tally.Utf8

/-! ## Nat level -/

/-- Unicode scalar value, on naturals -/
def validNat (r : Nat) : Prop := r < 0xD800 ∨ (0xE000 ≤ r ∧ r ≤ 0x10FFFF)

theorem encodeNat_1 (r : Nat) (h : r < 0x80) : encodeNat r = [r] := by
  simp [encodeNat, h]

theorem encodeNat_2 (r : Nat) (h1 : 0x80 ≤ r) (h2 : r < 0x800) :
    encodeNat r = [0xC0 + r / 64, 0x80 + r % 64] := by
  have : ¬ r < 0x80 := by omega
  simp [encodeNat, this, h2]

theorem encodeNat_3 (r : Nat) (h1 : 0x800 ≤ r) (h2 : r < 0x10000) :
    encodeNat r = [0xE0 + r / 4096, 0x80 + r / 64 % 64, 0x80 + r % 64] := by
  have a : ¬ r < 0x80 := by omega
  have b : ¬ r < 0x800 := by omega
  simp [encodeNat, a, b, h2]

theorem encodeNat_4 (r : Nat) (h1 : 0x10000 ≤ r) :
    encodeNat r = [0xF0 + r / 262144, 0x80 + r / 4096 % 64, 0x80 + r / 64 % 64, 0x80 + r % 64] := by
  have a : ¬ r < 0x80 := by omega
  have b : ¬ r < 0x800 := by omega
  have c : ¬ r < 0x10000 := by omega
  simp [encodeNat, a, b, c]

theorem decodeNat_1 (b0 : Nat) (t : List Nat) (h : b0 < 0x80) : decodeNat (b0 :: t) = (b0, 1) := by
  simp [decodeNat, h]

theorem decodeNat_2 (b0 b1 : Nat) (t : List Nat) (h1 : 0xC2 ≤ b0) (h2 : b0 < 0xE0)
    (h3 : 0x80 ≤ b1) (h4 : b1 ≤ 0xBF) :
    decodeNat (b0 :: b1 :: t) = ((b0 - 0xC0) * 64 + (b1 - 0x80), 2) := by
  have a : ¬ b0 < 0x80 := by omega
  have b : ¬ b0 < 0xC2 := by omega
  simp [decodeNat, a, b, h2, isCont, h3, h4]

theorem decodeNat_3 (b0 b1 b2 : Nat) (t : List Nat) (h1 : 0xE0 ≤ b0) (h2 : b0 < 0xF0)
    (h3 : (if b0 = 0xE0 then 0xA0 else 0x80) ≤ b1) (h4 : b1 ≤ (if b0 = 0xED then 0x9F else 0xBF))
    (h5 : 0x80 ≤ b2) (h6 : b2 ≤ 0xBF) :
    decodeNat (b0 :: b1 :: b2 :: t) = ((b0 - 0xE0) * 4096 + (b1 - 0x80) * 64 + (b2 - 0x80), 3) := by
  have a : ¬ b0 < 0x80 := by omega
  have b : ¬ b0 < 0xC2 := by omega
  have c : ¬ b0 < 0xE0 := by omega
  simp [decodeNat, a, b, c, h2, isCont, h3, h4, h5, h6]

theorem decodeNat_4 (b0 b1 b2 b3 : Nat) (t : List Nat) (h1 : 0xF0 ≤ b0) (h2 : b0 < 0xF5)
    (h3 : (if b0 = 0xF0 then 0x90 else 0x80) ≤ b1) (h4 : b1 ≤ (if b0 = 0xF4 then 0x8F else 0xBF))
    (h5 : 0x80 ≤ b2) (h6 : b2 ≤ 0xBF) (h7 : 0x80 ≤ b3) (h8 : b3 ≤ 0xBF) :
    decodeNat (b0 :: b1 :: b2 :: b3 :: t) =
      ((b0 - 0xF0) * 262144 + (b1 - 0x80) * 4096 + (b2 - 0x80) * 64 + (b3 - 0x80), 4) := by
  have a : ¬ b0 < 0x80 := by omega
  have b : ¬ b0 < 0xC2 := by omega
  have c : ¬ b0 < 0xE0 := by omega
  have d : ¬ b0 < 0xF0 := by omega
  simp [decodeNat, a, b, c, d, h2, isCont, h3, h4, h5, h6, h7, h8]

/-- Lemma A on naturals: decoding an encoded scalar value gives it back, whatever follows -/
theorem decodeNat_encodeNat (r : Nat) (hr : validNat r) (rest : List Nat) :
    decodeNat (encodeNat r ++ rest) = (r, (encodeNat r).length) := by
  unfold validNat at hr
  by_cases c1 : r < 0x80
  · rw [encodeNat_1 r c1]; simp [decodeNat_1 _ _ c1]
  by_cases c2 : r < 0x800
  · rw [encodeNat_2 r (by omega) c2]
    simp only [List.cons_append, List.nil_append, List.length_cons, List.length_nil]
    rw [decodeNat_2 _ _ _ (by omega) (by omega) (by omega) (by omega)]
    simp only [Prod.mk.injEq, and_true]; omega
  by_cases c3 : r < 0x10000
  · rw [encodeNat_3 r (by omega) c3]
    simp only [List.cons_append, List.nil_append, List.length_cons, List.length_nil]
    rw [decodeNat_3 _ _ _ _ (by omega) (by omega) (by split <;> omega) (by split <;> omega)
      (by omega) (by omega)]
    simp only [Prod.mk.injEq, and_true]; omega
  · rw [encodeNat_4 r (by omega)]
    simp only [List.cons_append, List.nil_append, List.length_cons, List.length_nil]
    rw [decodeNat_4 _ _ _ _ _ (by omega) (by omega) (by split <;> omega) (by split <;> omega)
      (by omega) (by omega) (by omega) (by omega)]
    simp only [Prod.mk.injEq, and_true]; omega

theorem encodeNat_length (r : Nat) : 1 ≤ (encodeNat r).length ∧ (encodeNat r).length ≤ 4 := by
  unfold encodeNat; repeat' split
  all_goals simp

theorem encodeNat_lt (r : Nat) (hr : validNat r) : ∀ x ∈ encodeNat r, x < 256 := by
  unfold validNat at hr
  unfold encodeNat; repeat' split
  all_goals simp
  all_goals omega

theorem encodeNat_length_ne_one (r : Nat) (h : r = runeError) : (encodeNat r).length ≠ 1 := by
  subst h; decide

/-- a non-error result `(r, n)` of `decodeNat l` -/
structure Good (l : List Nat) (r n : Nat) : Prop where
  valid : validNat r
  le_len : n ≤ l.length
  enc : encodeNat r = l.take n
  ne : n = 1 → r ≠ runeError

/-- Lemma B on naturals: `decodeNat` either reports an error (width 1, U+FFFD) or the first `n`
elements are exactly the (shortest-form) encoding of the scalar value it returns -/
theorem decodeNat_class (l : List Nat) (hl : l ≠ []) :
    decodeNat l = (runeError, 1) ∨ Good l (decodeNat l).1 (decodeNat l).2 := by
  match l, hl with
  | b0 :: t, _ =>
  by_cases c1 : b0 < 0x80
  · right; rw [decodeNat_1 _ _ c1]
    exact ⟨by unfold validNat; omega, by simp, by simp [encodeNat_1 _ c1],
      by intro _; unfold runeError; omega⟩
  by_cases c2 : b0 < 0xC2
  · left; simp [decodeNat, c1, c2]
  by_cases c3 : b0 < 0xE0
  · match t with
    | [] => left; simp [decodeNat, c1, c2, c3]
    | b1 :: t =>
      by_cases k : 0x80 ≤ b1 ∧ b1 ≤ 0xBF
      · right; rw [decodeNat_2 _ _ _ (by omega) c3 k.1 k.2]
        refine ⟨by unfold validNat; omega, by simp, ?_, by simp⟩
        rw [encodeNat_2 _ (by omega) (by omega)]
        simp only [List.take_succ_cons, List.take_zero, List.cons.injEq, and_true]
        omega
      · left; simp only [decodeNat, c1, c2, c3, isCont, if_false, if_true]
        have : (decide (0x80 ≤ b1) && decide (b1 ≤ 0xBF)) = false := by
          simp only [Bool.and_eq_false_iff, decide_eq_false_iff_not]; omega
        simp [this]
  by_cases c4 : b0 < 0xF0
  · match t with
    | [] => left; simp [decodeNat, c1, c2, c3, c4]
    | [_] => left; simp [decodeNat, c1, c2, c3, c4]
    | b1 :: b2 :: t =>
      by_cases k : ((if b0 = 0xE0 then 0xA0 else 0x80) ≤ b1 ∧ b1 ≤ (if b0 = 0xED then 0x9F else 0xBF))
          ∧ 0x80 ≤ b2 ∧ b2 ≤ 0xBF
      · right; rw [decodeNat_3 _ _ _ _ (by omega) c4 k.1.1 k.1.2 k.2.1 k.2.2]
        have k1 := k.1.1; have k2 := k.1.2
        refine ⟨by unfold validNat; split at k1 <;> split at k2 <;> omega, by simp, ?_, by simp⟩
        rw [encodeNat_3 _ (by split at k1 <;> omega) (by split at k2 <;> omega)]
        simp only [List.take_succ_cons, List.take_zero, List.cons.injEq, and_true]
        split at k1 <;> split at k2 <;> omega
      · left; simp only [decodeNat, c1, c2, c3, c4, isCont, if_false, if_true]
        have : (decide ((if b0 = 0xE0 then 0xA0 else 0x80) ≤ b1) &&
            decide (b1 ≤ (if b0 = 0xED then 0x9F else 0xBF)) &&
            (decide (0x80 ≤ b2) && decide (b2 ≤ 0xBF))) = false := by
          simp only [Bool.and_eq_false_iff, decide_eq_false_iff_not]; omega
        simp [this]
  by_cases c5 : b0 < 0xF5
  · match t with
    | [] => left; simp [decodeNat, c1, c2, c3, c4, c5]
    | [_] => left; simp [decodeNat, c1, c2, c3, c4, c5]
    | [_, _] => left; simp [decodeNat, c1, c2, c3, c4, c5]
    | b1 :: b2 :: b3 :: t =>
      by_cases k : ((if b0 = 0xF0 then 0x90 else 0x80) ≤ b1 ∧ b1 ≤ (if b0 = 0xF4 then 0x8F else 0xBF))
          ∧ (0x80 ≤ b2 ∧ b2 ≤ 0xBF) ∧ 0x80 ≤ b3 ∧ b3 ≤ 0xBF
      · right; rw [decodeNat_4 _ _ _ _ _ (by omega) c5 k.1.1 k.1.2 k.2.1.1 k.2.1.2 k.2.2.1 k.2.2.2]
        have k1 := k.1.1; have k2 := k.1.2
        refine ⟨by unfold validNat; split at k1 <;> split at k2 <;> omega, by simp, ?_, by simp⟩
        rw [encodeNat_4 _ (by split at k1 <;> omega)]
        simp only [List.take_succ_cons, List.take_zero, List.cons.injEq, and_true]
        split at k1 <;> split at k2 <;> omega
      · left; simp only [decodeNat, c1, c2, c3, c4, c5, isCont, if_false, if_true]
        have : (decide ((if b0 = 0xF0 then 0x90 else 0x80) ≤ b1) &&
            decide (b1 ≤ (if b0 = 0xF4 then 0x8F else 0xBF)) &&
            (decide (0x80 ≤ b2) && decide (b2 ≤ 0xBF)) &&
            (decide (0x80 ≤ b3) && decide (b3 ≤ 0xBF))) = false := by
          simp only [Bool.and_eq_false_iff, decide_eq_false_iff_not]; omega
        simp [this]
  · left; simp [decodeNat, c1, c2, c3, c4, c5]

/-! ## byte level -/

theorem validScalar_ofNat (r : Nat) : validScalar (r : Int) = true ↔ validNat r := by
  simp only [validScalar, validNat, Bool.or_eq_true, Bool.and_eq_true, decide_eq_true_eq]
  omega

theorem map_toNat_map_ofNat (l : List Nat) (h : ∀ x ∈ l, x < 256) :
    (l.map UInt8.ofNat).map UInt8.toNat = l := by
  induction l with
  | nil => rfl
  | cons a t ih =>
    have ha : a < 256 := h a (by simp)
    have : (UInt8.ofNat a).toNat = a := by
      rw [UInt8.toNat_ofNat']; omega
    simp only [List.map_cons, this, List.cons.injEq, true_and]
    exact ih (fun x hx => h x (by simp [hx]))

theorem map_ofNat_map_toNat (w : Bytes) : (w.map UInt8.toNat).map UInt8.ofNat = w := by
  induction w with
  | nil => rfl
  | cons a t ih => simp only [List.map_cons, UInt8.ofNat_toNat, ih]

/-- the raw bytes of the item decode to its rune whatever follows them -/
def Proper (it : Item) : Prop :=
  1 ≤ it.raw.length ∧ it.raw.length ≤ 4 ∧
    ∀ rest, decodeRune (it.raw ++ rest) = (it.rune, it.raw.length)

/-- Lemma A: the encoding of a scalar value is a proper encoding of it -/
theorem proper_encodeNat (r : Nat) (hr : validNat r) :
    Proper ⟨r, (encodeNat r).map UInt8.ofNat⟩ := by
  have hl := encodeNat_length r
  refine ⟨by simpa using hl.1, by simpa using hl.2, ?_⟩
  intro rest
  simp only [decodeRune]
  rw [List.take_append, List.take_of_length_le (by simpa using hl.2), List.map_append,
    map_toNat_map_ofNat _ (encodeNat_lt r hr), decodeNat_encodeNat r hr]
  simp

theorem encodeRune_ofNat (r : Nat) (hr : validNat r) :
    encodeRune (r : Int) = (encodeNat r).map UInt8.ofNat := by
  simp [encodeRune, (validScalar_ofNat r).mpr hr]

/-- a non-error result `(r, n)` of `decodeRune s` -/
structure GoodB (s : Bytes) (r n : Nat) : Prop where
  valid : validNat r
  pos : 1 ≤ n
  enc : (encodeNat r).map UInt8.ofNat = s.take n
  ne : n = 1 → r ≠ runeError

theorem decodeRune_class (s : Bytes) (hs : s ≠ []) :
    decodeRune s = (runeError, 1) ∨ GoodB s (decodeRune s).1 (decodeRune s).2 := by
  unfold decodeRune
  have hl : (s.take 4).map UInt8.toNat ≠ [] := by
    cases s with
    | nil => exact absurd rfl hs
    | cons a t => simp
  rcases decodeNat_class _ hl with h | h
  · exact Or.inl h
  · right
    generalize (decodeNat ((s.take 4).map UInt8.toNat)).1 = r at h
    generalize (decodeNat ((s.take 4).map UInt8.toNat)).2 = n at h
    obtain ⟨hv, hle, henc, hne⟩ := h
    have hlen := encodeNat_length r
    have hn : n = (encodeNat r).length := by
      rw [henc, List.length_take]; omega
    refine ⟨hv, by omega, ?_, hne⟩
    rw [henc, ← List.map_take, List.take_take, map_ofNat_map_toNat]
    congr 1; omega

/-! ## `decodeAll` -/

theorem decodeAll_nil : decodeAll [] = [] := by
  rw [decodeAll]; simp

theorem decodeAll_ne_nil (s : Bytes) (hs : s ≠ []) :
    decodeAll s = ⟨(decodeRune s).1, s.take (max 1 (decodeRune s).2)⟩ ::
      decodeAll (s.drop (max 1 (decodeRune s).2)) := by
  rw [decodeAll]; simp [hs]

/-- Lemma C: a proper encoding in front of `rest` is one loop iteration -/
theorem decodeAll_proper_append (it : Item) (h : Proper it) (rest : Bytes) :
    decodeAll (it.raw ++ rest) = it :: decodeAll rest := by
  obtain ⟨h1, _, h3⟩ := h
  have hne : it.raw ++ rest ≠ [] := by
    intro hc
    have := congrArg List.length hc
    simp only [List.length_append, List.length_nil] at this; omega
  rw [decodeAll_ne_nil _ hne, h3 rest]
  have hm : max 1 it.raw.length = it.raw.length := by omega
  simp only [hm, List.take_left, List.drop_left]

theorem decodeAll_flatten_append (items : List Item) (h : ∀ it ∈ items, Proper it) (rest : Bytes) :
    decodeAll ((items.map (·.raw)).flatten ++ rest) = items ++ decodeAll rest := by
  induction items with
  | nil => simp
  | cons it tl ih =>
    simp only [List.map_cons, List.flatten_cons, List.append_assoc, List.cons_append]
    rw [decodeAll_proper_append it (h it (by simp)), ih (fun x hx => h x (by simp [hx]))]

theorem decodeAll_flatten (items : List Item) (h : ∀ it ∈ items, Proper it) :
    decodeAll (items.map (·.raw)).flatten = items := by
  have := decodeAll_flatten_append items h []
  simpa [decodeAll_nil] using this

/-- the raw bytes of the iterations make up the string -/
theorem flatten_decodeAll (s : Bytes) : ((decodeAll s).map (·.raw)).flatten = s := by
  induction s using decodeAll.induct with
  | case1 => simp [decodeAll_nil]
  | case2 s hs w ih =>
    rw [decodeAll_ne_nil s hs]
    simp only [List.map_cons, List.flatten_cons]
    rw [ih, List.take_append_drop]

/-- what is known about a non-error iteration -/
structure NonErr (it : Item) : Prop where
  proper : Proper it
  valid : validNat it.rune
  enc : encodeRune (it.rune : Int) = it.raw

/-- Lemma B: a non-error iteration consumed the shortest-form encoding of a scalar value -/
theorem nonErr_of_mem_decodeAll (s : Bytes) :
    ∀ it ∈ decodeAll s, it.isError = false → NonErr it := by
  induction s using decodeAll.induct with
  | case1 => simp [decodeAll_nil]
  | case2 s hs w ih =>
    rw [decodeAll_ne_nil s hs]
    intro it hit herr
    rcases List.mem_cons.mp hit with rfl | hit
    · rcases decodeRune_class s hs with h | h
      · exfalso
        rw [h] at herr
        have : (s.take 1).length = 1 := by
          cases s with
          | nil => exact absurd rfl hs
          | cons a t => simp
        simp [Item.isError, this] at herr
      · obtain ⟨hv, hpos, henc, hne⟩ := h
        have hm : max 1 (decodeRune s).2 = (decodeRune s).2 := by omega
        rw [hm, ← henc]
        exact ⟨proper_encodeNat _ hv, hv, encodeRune_ofNat _ hv⟩
    · exact ih it hit herr

/-- Lemma D: `decodeAll` distributes over `++` when the left part has no decoding error -/
theorem decodeAll_append (a b : Bytes) (h : ∀ it ∈ decodeAll a, it.isError = false) :
    decodeAll (a ++ b) = decodeAll a ++ decodeAll b := by
  have := decodeAll_flatten_append (decodeAll a)
    (fun it hit => (nonErr_of_mem_decodeAll a it hit (h it hit)).proper) b
  rwa [flatten_decodeAll] at this

end Tally.Utf8

namespace Tally.Sanitize
open Tally Tally.Utf8

/-! ## the sanitizer -/

theorem normRep_valid (rep : Int) : validNat (normRep rep) := by
  unfold normRep
  split
  · rename_i h
    simp only [validScalar, Bool.or_eq_true, Bool.and_eq_true, decide_eq_true_eq] at h
    unfold validNat; omega
  · unfold validNat runeError; omega

theorem encodeRune_rep (rep : Int) : encodeRune rep = (encodeNat (normRep rep)).map UInt8.ofNat := by
  unfold normRep encodeRune
  split
  · rfl
  · decide

/-- the iteration that reads back a written replacement rune -/
def repItem (rep : Int) : Item := ⟨normRep rep, encodeRune rep⟩

theorem repItem_proper (rep : Int) : Proper (repItem rep) := by
  unfold repItem; rw [encodeRune_rep]; exact proper_encodeNat _ (normRep_valid rep)

theorem repItem_isError (rep : Int) : (repItem rep).isError = false := by
  simp only [repItem, Item.isError, encodeRune_rep, List.length_map, Bool.and_eq_false_iff,
    beq_eq_false_iff_ne, ne_eq]
  by_cases h : normRep rep = runeError
  · exact Or.inr (encodeNat_length_ne_one _ h)
  · exact Or.inl h

theorem isError_false_of_ok {c : ValidChars} {it : Item} (h : okItem c it = true) :
    it.isError = false := by
  simp only [okItem, Bool.and_eq_true, Bool.not_eq_true'] at h
  exact h.2

/-- what one loop iteration of the sanitizer leaves in the output -/
def fixItem (c : ValidChars) (rep : Int) (it : Item) : Item :=
  if okItem c it then it else repItem rep

theorem fixItem_ok {c : ValidChars} {rep : Int} {it : Item} (h : okItem c it = true) :
    fixItem c rep it = it := by simp [fixItem, h]

theorem fixItem_not_ok {c : ValidChars} {rep : Int} {it : Item} (h : okItem c it = false) :
    fixItem c rep it = repItem rep := by simp [fixItem, h]

/-- rewriting an output iteration changes nothing -/
theorem fixItem_fixItem (c : ValidChars) (rep : Int) (it : Item) :
    fixItem c rep (fixItem c rep it) = fixItem c rep it := by
  by_cases h : okItem c it = true
  · rw [fixItem_ok h, fixItem_ok h]
  · have h' : okItem c it = false := by simpa using h
    rw [fixItem_not_ok h']
    by_cases k : okItem c (repItem rep) = true
    · exact fixItem_ok k
    · exact fixItem_not_ok (by simpa using k)

theorem map_written_eq (c : ValidChars) (rep : Int) (l : List Item)
    (h : ∀ it ∈ l, okItem c it = true → encodeRune (it.rune : Int) = it.raw) :
    (l.map fun it => if okItem c it then encodeRune it.rune else encodeRune rep) =
      (l.map (fixItem c rep)).map (·.raw) := by
  rw [List.map_map]
  apply List.map_congr_left
  intro it hit
  by_cases k : okItem c it = true
  · simp [k, fixItem, h it hit k]
  · have k' : okItem c it = false := by simpa using k
    simp [k', fixItem, repItem]

theorem sanitizeItems_eq (c : ValidChars) (rep : Int) (items : List Item)
    (h : ∀ it ∈ items, okItem c it = true → encodeRune (it.rune : Int) = it.raw) :
    sanitizeItems c rep items = ((items.map (fixItem c rep)).map (·.raw)).flatten := by
  induction items with
  | nil => simp [sanitizeItems]
  | cons it tl ih =>
    by_cases k : okItem c it = true
    · have := ih (fun x hx => h x (by simp [hx]))
      simp only [sanitizeItems] at this
      simp only [sanitizeItems, List.takeWhile_cons, List.dropWhile_cons, k, if_true, List.map_cons,
        List.flatten_cons, List.append_assoc, fixItem_ok k]
      rw [this]
    · have k' : okItem c it = false := by simpa using k
      simp only [sanitizeItems, List.takeWhile_cons, List.dropWhile_cons, k', Bool.false_eq_true,
        if_false, List.map_nil, List.flatten_nil, List.nil_append]
      rw [map_written_eq c rep (it :: tl) h]

theorem ok_enc_of_mem_decodeAll (c : ValidChars) (s : Bytes) :
    ∀ it ∈ decodeAll s, okItem c it = true → encodeRune (it.rune : Int) = it.raw :=
  fun it hit hok => (nonErr_of_mem_decodeAll s it hit (isError_false_of_ok hok)).enc

theorem sanitizeItems_decodeAll (c : ValidChars) (rep : Int) (s : Bytes) :
    sanitizeItems c rep (decodeAll s) =
      (((decodeAll s).map (fixItem c rep)).map (·.raw)).flatten :=
  sanitizeItems_eq c rep _ (ok_enc_of_mem_decodeAll c s)

theorem fixItem_proper (c : ValidChars) (rep : Int) (s : Bytes) :
    ∀ it ∈ (decodeAll s).map (fixItem c rep), Proper it := by
  intro it' h'
  obtain ⟨it, hit, rfl⟩ := List.mem_map.mp h'
  by_cases k : okItem c it = true
  · rw [fixItem_ok k]
    exact (nonErr_of_mem_decodeAll s it hit (isError_false_of_ok k)).proper
  · rw [fixItem_not_ok (by simpa using k)]; exact repItem_proper rep

/-- the loop iterations over the sanitizer output -/
theorem decodeAll_sanitize (c : ValidChars) (rep : Int) (s : Bytes) :
    decodeAll (sanitize c rep s) = (decodeAll s).map (fixItem c rep) := by
  unfold sanitize
  split
  · rename_i h
    rw [List.all_eq_true] at h
    symm
    calc (decodeAll s).map (fixItem c rep) = (decodeAll s).map id :=
          List.map_congr_left (fun it hit => fixItem_ok (h it hit))
      _ = decodeAll s := List.map_id _
  · rw [sanitizeItems_decodeAll, decodeAll_flatten _ (fixItem_proper c rep s)]

theorem sanitize_fixed (c : ValidChars) (rep : Int) (s : Bytes)
    (h : ∀ it ∈ decodeAll s, fixItem c rep it = it) : sanitize c rep s = s := by
  unfold sanitize
  split
  · rfl
  · rw [sanitizeItems_decodeAll]
    have : (decodeAll s).map (fixItem c rep) = decodeAll s := by
      calc (decodeAll s).map (fixItem c rep) = (decodeAll s).map id := List.map_congr_left h
        _ = decodeAll s := List.map_id _
    rw [this, flatten_decodeAll]

/-- an output iteration is allowed or reads back the replacement -/
theorem fixItem_spec (c : ValidChars) (rep : Int) (it : Item) :
    okItem c (fixItem c rep it) = true ∨
      ((fixItem c rep it).rune = normRep rep ∧ (fixItem c rep it).isError = false) := by
  by_cases k : okItem c it = true
  · left; rw [fixItem_ok k]; exact k
  · right; rw [fixItem_not_ok (by simpa using k)]
    exact ⟨rfl, repItem_isError rep⟩

end Tally.Sanitize
