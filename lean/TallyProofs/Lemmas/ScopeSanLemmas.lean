import Tally.Model.Scope
import TallyProofs.Lemmas.CanonLemmas
import TallyProofs.Lemmas.Utf8Lemmas
/-!
# The tag sanitizer and raw alias keys of the scope registry (C04, full sanitized identity)

`Tagged(m)` registers the new scope under its identity key `key pfx [ptags, sanMap cfg m]` and under the
raw key `key pfx [ptags, m]`.  A later call whose raw key is the same byte string — possibly split
differently into parent tags and requested map — is answered with that scope.  This file proves that the
answer is right: if parent tags are fixed points of the sanitizer and the requested maps keep their
sanitized keys distinct, the sanitized overlay only depends on the raw overlay (`canon_san_congr`).

Core Lean only.
-/
namespace Tally.Scope
open Tally Tally.KeyGen Tally.Sanitize

/-! ## association-list look-ups -/

theorem lookup_none_iff_not_mem_keys {α β : Type} [BEq α] [LawfulBEq α] (l : List (α × β)) (a : α) :
    l.lookup a = none ↔ a ∉ l.map (·.1) := by
  rw [List.lookup_eq_none_iff]
  constructor
  · intro h hk
    obtain ⟨p, hp, e⟩ := List.mem_map.mp hk
    have := h p hp
    simp [e] at this
  · intro h p hp
    have : a ≠ p.1 := fun e => h (List.mem_map.mpr ⟨p, hp, e.symm⟩)
    simpa using this

theorem mem_of_lookup_eq_some {α β : Type} [BEq α] [LawfulBEq α] {l : List (α × β)} {a : α} {b : β}
    (h : l.lookup a = some b) : (a, b) ∈ l := by
  obtain ⟨l1, l2, rfl, _⟩ := List.lookup_eq_some_iff.mp h
  simp

theorem lookup_of_mem_nodup {α β : Type} [BEq α] [LawfulBEq α] : ∀ {l : List (α × β)} {a : α} {b : β},
    (l.map (·.1)).Nodup → (a, b) ∈ l → l.lookup a = some b
  | [], _, _, _, h => by cases h
  | (a', b') :: l, a, b, hn, h => by
    simp only [List.map_cons] at hn
    have hn' := List.nodup_cons.mp hn
    rw [List.lookup_cons]
    rcases List.mem_cons.mp h with e | e
    · cases e
      simp
    · have hne : a ≠ a' := by
        rintro rfl
        exact hn'.1 (List.mem_map.mpr ⟨(a, b), e, rfl⟩)
      have : (a == a') = false := by simpa using hne
      rw [this]
      exact lookup_of_mem_nodup hn'.2 e

/-- a map whose image has no duplicates is injective on the list -/
theorem nodup_map_inj {α β : Type} (f : α → β) : ∀ {l : List α}, (l.map f).Nodup →
    ∀ {x y : α}, x ∈ l → y ∈ l → f x = f y → x = y
  | [], _, _, _, hx, _, _ => by cases hx
  | a :: l, hn, x, y, hx, hy, e => by
    simp only [List.map_cons] at hn
    obtain ⟨hna, hnl⟩ := List.nodup_cons.mp hn
    rcases List.mem_cons.mp hx with rfl | hx' <;> rcases List.mem_cons.mp hy with rfl | hy'
    · rfl
    · exact absurd (List.mem_map.mpr ⟨y, hy', e.symm⟩) hna
    · exact absurd (List.mem_map.mpr ⟨x, hx', e⟩) hna
    · exact nodup_map_inj f hnl hx' hy' e

theorem nodup_of_nodup_map {α β : Type} (f : α → β) : ∀ {l : List α}, (l.map f).Nodup → l.Nodup
  | [], _ => List.nodup_nil
  | a :: l, hn => by
    simp only [List.map_cons] at hn
    obtain ⟨hna, hnl⟩ := List.nodup_cons.mp hn
    exact List.nodup_cons.mpr ⟨fun h => hna (List.mem_map.mpr ⟨a, h, rfl⟩), nodup_of_nodup_map f hnl⟩

/-- a value found by the rightmost look-up is an entry of one of the maps -/
theorem lookupRight_some_mem : ∀ (maps : List TagMap) {k v : Bytes},
    lookupRight maps k = some v → ∃ m ∈ maps, (k, v) ∈ m
  | [], k, v, h => by rw [lookupRight_nil] at h; cases h
  | m :: ms, k, v, h => by
    rw [lookupRight_cons] at h
    rcases Option.or_eq_some_iff.mp h with h1 | ⟨_, h1⟩
    · obtain ⟨m', hm', hkv⟩ := lookupRight_some_mem ms h1
      exact ⟨m', List.mem_cons_of_mem _ hm', hkv⟩
    · exact ⟨m, List.mem_cons_self, mem_of_lookup_eq_some h1⟩

/-- every entry of an overlay is an entry of one of the maps -/
theorem mem_canon {maps : List TagMap} {kv : Bytes × Bytes} (h : kv ∈ canon maps) :
    ∃ m ∈ maps, kv ∈ m := by
  have hn : ((canon maps).map (·.1)).Nodup := by rw [canon_keys]; exact canonKeys_nodup maps
  have hl : (canon maps).lookup kv.1 = some kv.2 := lookup_of_mem_nodup hn h
  rw [lookup_canon] at hl
  exact lookupRight_some_mem maps hl

/-! ## the sanitizer is idempotent -/

theorem sanitize_idem (c : ValidChars) (rep : Int) (s : Bytes) :
    sanitize c rep (sanitize c rep s) = sanitize c rep s := by
  apply sanitize_fixed
  rw [decodeAll_sanitize]
  intro it' h'
  obtain ⟨it, _, rfl⟩ := List.mem_map.mp h'
  exact fixItem_fixItem c rep it

theorem sanKey_idem (c : Cfg) (s : Bytes) : sanKey c (sanKey c s) = sanKey c s := by
  cases h : c.san <;> simp [sanKey, h, sanitize_idem]

theorem sanValue_idem (c : Cfg) (s : Bytes) : sanValue c (sanValue c s) = sanValue c s := by
  cases h : c.san <;> simp [sanValue, h, sanitize_idem]

/-! ## sanitizing a tag map -/

/-- the sanitized keys of a Tagged map stay distinct (otherwise Go's map iteration order would decide) -/
def SanDistinct (cfg : Cfg) (m : TagMap) : Prop := (m.map fun kv => sanKey cfg kv.1).Nodup

/-- keys and values of the map are fixed points of the sanitizer -/
def FixedTags (cfg : Cfg) (t : TagMap) : Prop :=
  ∀ kv ∈ t, sanKey cfg kv.1 = kv.1 ∧ sanValue cfg kv.2 = kv.2

/-- the sanitizer on one pair -/
def sanKV (cfg : Cfg) (kv : Bytes × Bytes) : Bytes × Bytes := (sanKey cfg kv.1, sanValue cfg kv.2)

theorem sanMap_eq (cfg : Cfg) (m : TagMap) : sanMap cfg m = canon [m.map (sanKV cfg)] := by
  unfold sanMap
  congr 2

theorem sanMap_nil' (cfg : Cfg) : sanMap cfg [] = [] := by
  rw [sanMap_eq]; exact canon_nil_single

theorem sanMap_lookup (cfg : Cfg) (m : TagMap) (k : Bytes) :
    (sanMap cfg m).lookup k = (m.map (sanKV cfg)).lookup k := by
  rw [sanMap_eq, lookup_canon, lookupRight_single]

theorem sanDistinct_nil (cfg : Cfg) : SanDistinct cfg [] := List.nodup_nil

theorem fixedTags_nil (cfg : Cfg) : FixedTags cfg [] := fun _ h => by cases h

theorem SanDistinct.keys_nodup {cfg : Cfg} {m : TagMap} (h : SanDistinct cfg m) :
    (m.map (·.1)).Nodup := by
  have : (m.map fun kv => sanKey cfg kv.1) = (m.map (·.1)).map (sanKey cfg) := by
    rw [List.map_map]; rfl
  unfold SanDistinct at h
  rw [this] at h
  exact nodup_of_nodup_map _ h

theorem SanDistinct.lookup_of_mem {cfg : Cfg} {m : TagMap} (h : SanDistinct cfg m) {k v : Bytes}
    (hm : (k, v) ∈ m) : m.lookup k = some v := lookup_of_mem_nodup h.keys_nodup hm

/-- with distinct sanitized keys, the sanitized entry is found under the sanitized key -/
theorem SanDistinct.lookup_san_of_mem {cfg : Cfg} {m : TagMap} (h : SanDistinct cfg m) {k v : Bytes}
    (hm : (k, v) ∈ m) : (m.map (sanKV cfg)).lookup (sanKey cfg k) = some (sanValue cfg v) := by
  apply lookup_of_mem_nodup
  · have : ((m.map (sanKV cfg)).map (·.1)) = m.map fun kv => sanKey cfg kv.1 := by
      rw [List.map_map]; rfl
    rw [this]; exact h
  · exact List.mem_map.mpr ⟨(k, v), hm, rfl⟩

theorem lookup_san_some {cfg : Cfg} {m : TagMap} {k' v' : Bytes}
    (h : (m.map (sanKV cfg)).lookup k' = some v') :
    ∃ k v, (k, v) ∈ m ∧ sanKey cfg k = k' ∧ sanValue cfg v = v' := by
  obtain ⟨⟨k, v⟩, hm, e⟩ := List.mem_map.mp (mem_of_lookup_eq_some h)
  simp only [sanKV, Prod.mk.injEq] at e
  exact ⟨k, v, hm, e.1, e.2⟩

theorem lookup_san_none {cfg : Cfg} {m : TagMap} {k' : Bytes}
    (h : (m.map (sanKV cfg)).lookup k' = none) {k v : Bytes} (hm : (k, v) ∈ m) : sanKey cfg k ≠ k' := by
  intro e
  rw [lookup_none_iff_not_mem_keys] at h
  apply h
  rw [List.map_map]
  exact List.mem_map.mpr ⟨(k, v), hm, e⟩

theorem FixedTags.of_lookup {cfg : Cfg} {t : TagMap} (h : FixedTags cfg t) {k v : Bytes}
    (hl : t.lookup k = some v) : sanKey cfg k = k ∧ sanValue cfg v = v :=
  h (k, v) (mem_of_lookup_eq_some hl)

/-- the overlay of sanitizer-fixed maps is sanitizer-fixed -/
theorem fixedTags_canon {cfg : Cfg} {maps : List TagMap} (h : ∀ m ∈ maps, FixedTags cfg m) :
    FixedTags cfg (canon maps) := by
  intro kv hkv
  obtain ⟨m, hm, hmem⟩ := mem_canon hkv
  exact h m hm kv hmem

/-- a sanitized map is sanitizer-fixed (idempotence of `sanitize`) -/
theorem fixedTags_sanMap (cfg : Cfg) (m : TagMap) : FixedTags cfg (sanMap cfg m) := by
  rw [sanMap_eq]
  apply fixedTags_canon
  intro m' hm'
  simp only [List.mem_singleton] at hm'
  subst hm'
  intro kv hkv
  obtain ⟨x, _, rfl⟩ := List.mem_map.mp hkv
  exact ⟨sanKey_idem cfg _, sanValue_idem cfg _⟩

theorem fixedTags_pair {cfg : Cfg} {a b : TagMap} (ha : FixedTags cfg a) (hb : FixedTags cfg b) :
    FixedTags cfg (canon [a, b]) := by
  apply fixedTags_canon
  intro m hm
  simp only [List.mem_cons, List.not_mem_nil, or_false] at hm
  rcases hm with rfl | rfl
  · exact ha
  · exact hb

theorem FixedTags.map_san {cfg : Cfg} {t : TagMap} (h : FixedTags cfg t) : t.map (sanKV cfg) = t := by
  have : ∀ kv ∈ t, sanKV cfg kv = id kv := fun kv hkv => by
    obtain ⟨a, b⟩ := h kv hkv
    simp only [sanKV, a, b, id]
  rw [List.map_congr_left this, List.map_id]

/-- sanitizing a tag map is idempotent -/
theorem sanMap_sanMap (cfg : Cfg) (m : TagMap) : sanMap cfg (sanMap cfg m) = sanMap cfg m := by
  rw [sanMap_eq cfg (sanMap cfg m), (fixedTags_sanMap cfg m).map_san, sanMap_eq, canon_canon]

/-- a sanitized map keeps its sanitized keys distinct -/
theorem sanDistinct_sanMap (cfg : Cfg) (m : TagMap) : SanDistinct cfg (sanMap cfg m) := by
  have hf := fixedTags_sanMap cfg m
  have : ((sanMap cfg m).map fun kv => sanKey cfg kv.1) = (sanMap cfg m).map (·.1) :=
    List.map_congr_left fun kv hkv => (hf kv hkv).1
  unfold SanDistinct
  rw [this, sanMap_eq, canon_keys]
  exact canonKeys_nodup _

/-! ## the sanitized overlay only depends on the raw overlay -/

/-- no entry of `B'` is sanitized onto a fixed key `k'` that `B'` does not have itself -/
theorem no_foreign_preimage {cfg : Cfg} {A B A' B' : TagMap} (hA : FixedTags cfg A)
    (hB' : SanDistinct cfg B')
    (h : ∀ k, (B.lookup k).or (A.lookup k) = (B'.lookup k).or (A'.lookup k))
    {k' w' : Bytes} (hq : (B'.map (sanKV cfg)).lookup k' = some w') (hn : B'.lookup k' = none)
    (hBk : ∀ k v, (k, v) ∈ B → sanKey cfg k = k' → k = k') : False := by
  obtain ⟨k2, w, hmem, hk2, -⟩ := lookup_san_some hq
  have hb' : B'.lookup k2 = some w := hB'.lookup_of_mem hmem
  have hne : k2 ≠ k' := by
    rintro rfl
    rw [hn] at hb'; cases hb'
  have hM := h k2
  rw [hb', Option.some_or] at hM
  rcases Option.or_eq_some_iff.mp hM with h1 | ⟨_, h1⟩
  · exact hne (hBk k2 w (mem_of_lookup_eq_some h1) hk2)
  · exact hne ((hA.of_lookup h1).1.symm.trans hk2)

theorem san_overlay_imp {cfg : Cfg} {A B A' B' : TagMap} (hA : FixedTags cfg A) (hA' : FixedTags cfg A')
    (hB : SanDistinct cfg B) (hB' : SanDistinct cfg B')
    (h : ∀ k, (B.lookup k).or (A.lookup k) = (B'.lookup k).or (A'.lookup k))
    (k' v' : Bytes) (hl : ((B.map (sanKV cfg)).lookup k').or (A.lookup k') = some v') :
    ((B'.map (sanKV cfg)).lookup k').or (A'.lookup k') = some v' := by
  rcases Option.or_eq_some_iff.mp hl with h1 | ⟨h1n, h1a⟩
  · -- the value comes from an entry `(k, v)` of `B`
    obtain ⟨k, v, hkv, rfl, rfl⟩ := lookup_san_some h1
    have hM := h k
    rw [hB.lookup_of_mem hkv, Option.some_or] at hM
    rcases Option.or_eq_some_iff.mp hM.symm with h2 | ⟨h2n, h2a⟩
    · rw [hB'.lookup_san_of_mem (mem_of_lookup_eq_some h2), Option.some_or]
    · obtain ⟨fk, fv⟩ := hA'.of_lookup h2a
      rw [fk, fv]
      cases hq : (B'.map (sanKV cfg)).lookup k with
      | none => rw [Option.none_or]; exact h2a
      | some w' =>
        exfalso
        refine no_foreign_preimage hA hB' h hq h2n ?_
        intro k2 w hmem e
        have : (k2, w) = (k, v) :=
          nodup_map_inj (fun kv : Bytes × Bytes => sanKey cfg kv.1) (l := B) hB hmem hkv (e.trans fk.symm)
        exact (Prod.mk.inj this).1
  · -- the value comes from the (fixed) entry `(k', v')` of `A`
    obtain ⟨fk, fv⟩ := hA.of_lookup h1a
    have hbn : B.lookup k' = none := by
      cases hb : B.lookup k' with
      | none => rfl
      | some w => exact absurd fk (lookup_san_none h1n (mem_of_lookup_eq_some hb))
    have hM := h k'
    rw [hbn, Option.none_or, h1a] at hM
    rcases Option.or_eq_some_iff.mp hM.symm with h2 | ⟨h2n, h2a⟩
    · have := hB'.lookup_san_of_mem (mem_of_lookup_eq_some h2)
      rw [fk, fv] at this
      rw [this, Option.some_or]
    · cases hq : (B'.map (sanKV cfg)).lookup k' with
      | none => rw [Option.none_or]; exact h2a
      | some w' =>
        exfalso
        refine no_foreign_preimage hA hB' h hq h2n ?_
        intro k2 w hmem e
        exact absurd e (lookup_san_none h1n hmem)

/-- **the sanitized overlay is a function of the raw overlay**: for sanitizer-fixed parent tags and
requested maps with distinct sanitized keys, equal raw overlays have equal sanitized overlays -/
theorem canon_san_congr {cfg : Cfg} {A B A' B' : TagMap} (hA : FixedTags cfg A) (hA' : FixedTags cfg A')
    (hB : SanDistinct cfg B) (hB' : SanDistinct cfg B') (h : canon [A, B] = canon [A', B']) :
    canon [A, sanMap cfg B] = canon [A', sanMap cfg B'] := by
  have hM : ∀ k, (B.lookup k).or (A.lookup k) = (B'.lookup k).or (A'.lookup k) := fun k => by
    have := lookupRight_of_canon_eq h k
    rwa [lookupRight_pair, lookupRight_pair] at this
  apply canon_ext
  intro k'
  rw [lookupRight_pair, lookupRight_pair, sanMap_lookup, sanMap_lookup]
  cases h1 : ((B.map (sanKV cfg)).lookup k').or (A.lookup k') with
  | some v' => exact (san_overlay_imp hA hA' hB hB' hM k' v' h1).symm
  | none =>
    cases h2 : ((B'.map (sanKV cfg)).lookup k').or (A'.lookup k') with
    | none => rfl
    | some v' =>
      have := san_overlay_imp hA' hA hB' hB (fun k => (hM k).symm) k' v' h2
      rw [h1] at this; cases this

/-! ## registry keys of a scope -/

/-- `k` is a raw alias key of scope `s`: the key of sanitizer-fixed parent tags overlaid by a requested map
whose sanitized overlay is the identity of `s` -/
def RawAlias (cfg : Cfg) (k : Bytes) (s : ScopeS) : Prop :=
  ∃ pt m, FixedTags cfg pt ∧ SanDistinct cfg m ∧ k = key s.pfx [pt, m] ∧
    s.tags = canon [pt, sanMap cfg m]

/-- a registry key of scope `s`: the key of its identity or a raw alias -/
def ScopeKey (cfg : Cfg) (k : Bytes) (s : ScopeS) : Prop :=
  k = key s.pfx [s.tags] ∨ RawAlias cfg k s

/-- the identity key is the raw alias with an empty requested map -/
theorem rawAlias_of_identity {cfg : Cfg} {k : Bytes} {s : ScopeS} (hc : Canonical s.tags)
    (hf : FixedTags cfg s.tags) (hk : k = key s.pfx [s.tags]) : RawAlias cfg k s := by
  refine ⟨s.tags, [], hf, sanDistinct_nil cfg, ?_, ?_⟩
  · rw [hk]; exact key_congr _ (canon_pair_nil _).symm
  · rw [sanMap_nil', canon_pair_nil]; exact hc.symm

/-- **a hit is right**: however the key of a registry entry of `s` is split into sanitizer-fixed parent
tags `pt` and a requested map `m` with distinct sanitized keys, `s` is the scope with prefix `pfx` and the
tags `pt` overlaid by the sanitized `m` -/
theorem ScopeKey.hit {cfg : Cfg} {k : Bytes} {s : ScopeS} (h : ScopeKey cfg k s)
    (hc : Canonical s.tags) (hf : FixedTags cfg s.tags) {pfx : Bytes} {pt m : TagMap}
    (hpt : FixedTags cfg pt) (hm : SanDistinct cfg m) (hk : k = key pfx [pt, m]) :
    s.pfx = pfx ∧ s.tags = canon [pt, sanMap cfg m] := by
  have hr : RawAlias cfg k s := by
    rcases h with h | h
    · exact rawAlias_of_identity hc hf h
    · exact h
  obtain ⟨pt0, m0, hpt0, hm0, hk0, ht0⟩ := hr
  rw [hk] at hk0
  obtain ⟨e1, e2⟩ := key_inj' hk0
  exact ⟨e1.symm, by rw [ht0]; exact (canon_san_congr hpt hpt0 hm hm0 e2).symm⟩

end Tally.Scope
