import Tally.Model.Scope
import TallyProofs.Lemmas.ScopeSteps
import TallyProofs.Lemmas.ScopeRecLemmas
/-!
# Conservation over whole histories in the sequential scope model (C01 / C03 clause (iv))

Generic part.  A *measure* `M` fixes an identity (kind, full name, tags), a weight `w` of reporter
events and a mass `μ` of metric states such that reporting a metric of that identity emits events
of total weight `μ` and leaves mass `0`, while metrics of any other identity emit weight `0`.
For a metric `m` living on a scope `sid` that is not closed, and as long as `m` is the only metric
of its identity (`Excl`), every `step` satisfies

  weight of the emitted events + mass of `m` afterwards = mass of `applyOp m x op`

(`step_meas`), where `applyOp` is the per-metric effect of C11.  Summing over a run gives
`run_meas`; the instances for counters and histograms are in the second half.
-/
namespace Tally.Cons
open Tally Tally.KeyGen Tally.Buckets Tally.Scope

/-! ## runs that collect the reporter events -/

/-- run a program from `st`; final state and all reporter events in order -/
def runEv (st : St) : List Op → St × List Event
  | [] => (st, [])
  | op :: ops => ((runEv (step st op).1 ops).1, ScopeRec.outEvents (step st op).2 ++ (runEv (step st op).1 ops).2)

@[simp] theorem runEv_nil (st : St) : runEv st [] = (st, []) := rfl
theorem runEv_cons (st : St) (op : Op) (ops : List Op) :
    runEv st (op :: ops) =
      ((runEv (step st op).1 ops).1, ScopeRec.outEvents (step st op).2 ++ (runEv (step st op).1 ops).2) := rfl

theorem runEv_fst (st : St) (ops : List Op) : (runEv st ops).1 = Scope.runOps st ops := by
  induction ops generalizing st with
  | nil => rfl
  | cons op ops ih => rw [runEv_cons, Scope.runOps_cons]; exact ih _

theorem runEv_append (st : St) (a b : List Op) :
    runEv st (a ++ b) = ((runEv (runEv st a).1 b).1, (runEv st a).2 ++ (runEv (runEv st a).1 b).2) := by
  induction a generalizing st with
  | nil => simp
  | cons op a ih =>
    simp only [List.cons_append, runEv_cons, ih, List.append_assoc]

/-! ## measures -/

structure Meas where
  kind : String
  nm : Bytes
  tg : TagMap
  w : Event → Int
  μ : Metric → Int

/-- total weight of some events -/
def W (M : Meas) (es : List Event) : Int := (es.map M.w).sum

@[simp] theorem W_nil (M : Meas) : W M [] = 0 := rfl
theorem W_append (M : Meas) (a b : List Event) : W M (a ++ b) = W M a + W M b := by
  simp [W, List.sum_append]
theorem W_cons (M : Meas) (e : Event) (b : List Event) : W M (e :: b) = M.w e + W M b := by
  simp [W]
theorem W_zero_of_all (M : Meas) (es : List Event) (h : ∀ e ∈ es, M.w e = 0) : W M es = 0 := by
  induction es with
  | nil => rfl
  | cons e es ih =>
    rw [W_cons, h e List.mem_cons_self, ih (fun e he => h e (List.mem_cons_of_mem _ he))]; rfl

/-- what a report pass leaves of a metric -/
def resetM : Metric → Metric
  | .counter n _ => .counter n 0
  | .gauge n c _ => .gauge n c false
  | .timer n vs => .timer n vs
  | .hist n h => .hist n { h with counts := h.counts.map fun _ => 0 }

theorem reportMetric_fst (sep : Bytes) (s : ScopeS) (y : Metric) : (reportMetric sep s y).1 = resetM y := by
  cases y <;> rfl

theorem resetM_idem (y : Metric) : resetM (resetM y) = resetM y := by
  cases y <;> simp [resetM, List.map_map]

theorem resetM_kind (y : Metric) : metricKind (resetM y) = metricKind y := by cases y <;> rfl
theorem resetM_name (y : Metric) : metricName (resetM y) = metricName y := by cases y <;> rfl

/-- metric state `y` on scope `s` has the identity of the measure -/
def Matches (M : Meas) (sep : Bytes) (s : ScopeS) (y : Metric) : Prop :=
  metricKind y = M.kind ∧ fqn sep s.pfx (metricName y) = M.nm ∧ s.tags = M.tg

def isMisc : Event → Bool
  | .timer .. | .alloc .. | .flush | .close => true
  | _ => false

structure Lawful (M : Meas) : Prop where
  notTimer : M.kind ≠ "timer"
  misc : ∀ e, isMisc e = true → M.w e = 0
  other : ∀ sep s y, ¬ Matches M sep s y → ∀ e ∈ (reportMetric sep s y).2, M.w e = 0
  own : ∀ sep s x, Matches M sep s x → W M (reportMetric sep s x).2 = M.μ x
  reset : ∀ x, metricKind x = M.kind → M.μ (resetM x) = 0

/-- `m` lives on the open scope `sid` with state `x`, and has the identity of `M` -/
def At (M : Meas) (st : St) (sid m : Nat) (x : Metric) : Prop :=
  ∃ s, getScope st sid = some s ∧ s.closed = false ∧ (m, x) ∈ s.metrics ∧ (s.metrics.map (·.1)).Nodup
    ∧ Matches M st.sep s x

/-- no other metric has the identity of `M` -/
def Excl (M : Meas) (st : St) (sid m : Nat) : Prop :=
  ∀ sid' s' q, getScope st sid' = some s' → q ∈ s'.metrics → Matches M st.sep s' q.2 → sid' = sid ∧ q.1 = m

/-- the registry entries of scope `sid` stay -/
def RegKeep (sid : Nat) (st st' : St) : Prop := ∀ e ∈ st.reg, e.2 = sid → e ∈ st'.reg

theorem RegKeep.refl (sid : Nat) (st : St) : RegKeep sid st st := fun _ h _ => h
theorem RegKeep.trans {sid : Nat} {a b c : St} (h1 : RegKeep sid a b) (h2 : RegKeep sid b c) : RegKeep sid a c :=
  fun e he hs => h2 e (h1 e he hs) hs

theorem Excl.frame {M : Meas} {st st' : St} {sid m : Nat} (h : Excl M st sid m) (f : ScopeRec.Frame st st') :
    Excl M st' sid m := by
  intro sid' s'' q hg hq hm
  rcases f.scopes.2 sid' s'' hg with ⟨s', hs', hsle⟩ | ⟨_, hempty⟩
  · obtain ⟨q0, hq0, e1, e2, e3⟩ := hsle.2.2 q hq
    have hm0 : Matches M st.sep s' q0.2 := by
      obtain ⟨a, b, c⟩ := hm
      refine ⟨e2.trans a, ?_, ?_⟩
      · rw [e3, ← hsle.1, ← f.sep]; exact b
      · rw [← hsle.2.1]; exact c
    obtain ⟨r1, r2⟩ := h sid' s' q0 hs' hq0 hm0
    exact ⟨r1, e1 ▸ r2⟩
  · rw [hempty] at hq; cases hq

/-! ## reporting one scope -/

theorem reportScope_snd (sep : Bytes) (s : ScopeS) :
    (reportScope sep s).2 = (s.metrics.map fun q => (reportMetric sep s q.2).2).flatten := by
  simp only [reportScope, List.map_map]
  rfl

theorem reportScope_metrics (sep : Bytes) (s : ScopeS) :
    (reportScope sep s).1 = { s with metrics := s.metrics.map fun q => (q.1, resetM q.2) } := by
  simp only [reportScope, List.map_map]
  congr 1
  apply List.map_congr_left
  intro q _
  simp [Function.comp, reportMetric_fst]

theorem W_flatten_map {α : Type} (M : Meas) (f : α → List Event) (l : List α) :
    W M (l.map f).flatten = (l.map fun a => W M (f a)).sum := by
  induction l with
  | nil => rfl
  | cons a l ih => simp only [List.map_cons, List.flatten_cons, W_append, ih, List.sum_cons]

theorem sum_single (l : List (Nat × Metric)) (f : Nat × Metric → Int) (m : Nat) (x : Metric)
    (hnd : (l.map (·.1)).Nodup) (hx : (m, x) ∈ l) (h0 : ∀ q ∈ l, q.1 ≠ m → f q = 0) :
    (l.map f).sum = f (m, x) := by
  induction l with
  | nil => cases hx
  | cons q l ih =>
    simp only [List.map_cons, List.nodup_cons] at hnd
    simp only [List.map_cons, List.sum_cons]
    rcases List.mem_cons.mp hx with e | hx'
    · subst e
      have : (l.map f).sum = 0 := by
        have : ∀ q ∈ l, f q = 0 := by
          intro q hq
          apply h0 q (List.mem_cons_of_mem _ hq)
          intro e
          exact hnd.1 (List.mem_map.mpr ⟨q, hq, e⟩)
        clear ih h0 hx hnd
        induction l with
        | nil => rfl
        | cons a l ih2 =>
          simp only [List.map_cons, List.sum_cons, this a List.mem_cons_self,
            ih2 (fun q hq => this q (List.mem_cons_of_mem _ hq))]; rfl
      omega
    · have hq : q.1 ≠ m := by
        intro e
        exact hnd.1 (List.mem_map.mpr ⟨(m, x), hx', e.symm⟩)
      rw [h0 q List.mem_cons_self hq, ih hnd.2 hx' (fun q hq => h0 q (List.mem_cons_of_mem _ hq))]
      omega

/-- a scope without the metric of `M` reports weight `0` -/
theorem reportScope_other (M : Meas) (hM : Lawful M) (st : St) (sid m sid' : Nat) (s' : ScopeS)
    (hex : Excl M st sid m) (hg : getScope st sid' = some s') (hne : sid' ≠ sid) :
    W M (reportScope st.sep s').2 = 0 := by
  apply W_zero_of_all
  intro e he
  rw [reportScope_snd] at he
  obtain ⟨l, hl, hel⟩ := List.mem_flatten.mp he
  obtain ⟨q, hq, rfl⟩ := List.mem_map.mp hl
  exact hM.other st.sep s' q.2 (fun hm => hne (hex sid' s' q hg hq hm).1) e hel

theorem mem_events_other (M : Meas) (hM : Lawful M) (st : St) (sid m sid' : Nat) (s' : ScopeS)
    (hex : Excl M st sid m) (hg : getScope st sid' = some s') (hne : sid' ≠ sid) :
    ∀ e ∈ (reportScope st.sep s').2, M.w e = 0 := by
  intro e he
  rw [reportScope_snd] at he
  obtain ⟨l, hl, hel⟩ := List.mem_flatten.mp he
  obtain ⟨q, hq, rfl⟩ := List.mem_map.mp hl
  exact hM.other st.sep s' q.2 (fun hm => hne (hex sid' s' q hg hq hm).1) e hel

/-- the scope of `m` reports weight `μ x` -/
theorem reportScope_own (M : Meas) (hM : Lawful M) (st : St) (sid m : Nat) (x : Metric) (s : ScopeS)
    (hex : Excl M st sid m) (hg : getScope st sid = some s) (hx : (m, x) ∈ s.metrics)
    (hnd : (s.metrics.map (·.1)).Nodup) (hm : Matches M st.sep s x) :
    W M (reportScope st.sep s).2 = M.μ x := by
  rw [reportScope_snd, W_flatten_map,
    sum_single s.metrics (fun q => W M (reportMetric st.sep s q.2).2) m x hnd hx]
  · exact hM.own st.sep s x hm
  · intro q hq hne
    apply W_zero_of_all
    exact hM.other st.sep s q.2 (fun hm' => hne (hex sid s q hg hq hm').2)

/-! ## transitions that do not touch scope `sid` -/

structure Same (sid : Nat) (st st' : St) : Prop where
  scope : ∀ s, getScope st sid = some s → getScope st' sid = some s
  sep : st'.sep = st.sep
  reg : RegKeep sid st st'

theorem Same.refl (sid : Nat) (st : St) : Same sid st st := ⟨fun _ h => h, rfl, RegKeep.refl _ _⟩
theorem Same.trans {sid : Nat} {a b c : St} (h1 : Same sid a b) (h2 : Same sid b c) : Same sid a c :=
  ⟨fun s h => h2.scope s (h1.scope s h), h2.sep.trans h1.sep, h1.reg.trans h2.reg⟩

theorem At.same {M : Meas} {st st' : St} {sid m : Nat} {x : Metric} (h : At M st sid m x)
    (hs : Same sid st st') : At M st' sid m x := by
  obtain ⟨s, hg, hc, hx, hnd, hm⟩ := h
  exact ⟨s, hs.scope s hg, hc, hx, hnd, by rw [hs.sep]; exact hm⟩

theorem same_setScope_ne (st : St) {sid sid' : Nat} (hne : sid' ≠ sid) (t : ScopeS) :
    Same sid st (setScope st sid' t) :=
  ⟨fun s h => by rw [getScope_setScope_ne st hne]; exact h, rfl, RegKeep.refl _ _⟩

theorem same_regRemove_ne (st : St) {sid sid' : Nat} (hne : sid' ≠ sid) (sh : Nat) (k : Bytes) :
    Same sid st (regRemove st sh k sid') := by
  refine ⟨fun s h => h, rfl, ?_⟩
  intro e he hs
  show e ∈ st.reg.filter _
  rw [List.mem_filter]
  refine ⟨he, ?_⟩
  obtain ⟨k', s'⟩ := e
  simp only at hs
  subst hs
  have : (s' == sid') = false := by simpa using fun e => hne e.symm
  simp [this]

theorem same_regAdd (st : St) (sid : Nat) (sh : Nat) (k : Bytes) (j : Nat) : Same sid st (regAdd st sh k j) := by
  refine ⟨fun s h => by rw [getScope_regAdd]; exact h, by simp, ?_⟩
  intro e he _
  unfold regAdd
  split
  · exact he
  · exact List.mem_append_left _ he

theorem same_append (st : St) (sid : Nat) (ns : ScopeS) : Same sid st { st with scopes := st.scopes ++ [ns] } :=
  ⟨fun _ h => getScope_append_old ns h, rfl, RegKeep.refl _ _⟩

/-! ## one report pass -/

theorem passEntries_cons_some' {st : St} {sh : Nat} {k : Bytes} {sid : Nat} {s : ScopeS}
    (rest : List ((Nat × Bytes) × Nat)) (h : getScope st sid = some s) :
    passEntries st (((sh, k), sid) :: rest) =
      ((passEntries
        (if s.closed then
          setScope (regRemove (setScope st sid (reportScope st.sep s).1) sh k sid) sid
            { (reportScope st.sep s).1 with metrics := [] }
         else setScope st sid (reportScope st.sep s).1) rest).1,
       (reportScope st.sep s).2 ++ (passEntries
        (if s.closed then
          setScope (regRemove (setScope st sid (reportScope st.sep s).1) sh k sid) sid
            { (reportScope st.sep s).1 with metrics := [] }
         else setScope st sid (reportScope st.sep s).1) rest).2) := by
  rw [passEntries]; simp only [h]

theorem passEntries_meas (M : Meas) (hM : Lawful M) (sid m : Nat) :
    ∀ (es : List ((Nat × Bytes) × Nat)) (st : St) (x : Metric), At M st sid m x → Excl M st sid m →
    ∃ x', At M (passEntries st es).1 sid m x' ∧
      W M (passEntries st es).2 + M.μ x' = M.μ x ∧
      ((x' = x ∧ ∀ e ∈ es, e.2 ≠ sid) ∨ x' = resetM x) ∧
      RegKeep sid st (passEntries st es).1 := by
  intro es
  induction es with
  | nil =>
    intro st x hat _
    exact ⟨x, hat, by simp [passEntries], .inl ⟨rfl, fun _ h => by cases h⟩, RegKeep.refl _ _⟩
  | cons e rest ih =>
    intro st x hat hex
    obtain ⟨⟨sh, k⟩, sid'⟩ := e
    cases hg : getScope st sid' with
    | none =>
      rw [passEntries_cons_none rest hg]
      obtain ⟨x', h1, h2, h3, h4⟩ := ih st x hat hex
      refine ⟨x', h1, h2, ?_, h4⟩
      rcases h3 with ⟨rfl, h3⟩ | h3
      · refine .inl ⟨rfl, ?_⟩
        intro e he
        rcases List.mem_cons.mp he with rfl | he
        · intro e2
          obtain ⟨s, hs, _⟩ := hat
          simp only at e2; subst e2
          rw [hg] at hs; cases hs
        · exact h3 e he
      · exact .inr h3
    | some s' =>
      rw [passEntries_cons_some' rest hg]
      by_cases hsid : sid' = sid
      · subst hsid
        obtain ⟨s, hs, hcl, hx, hnd, hm⟩ := hat
        rw [hg] at hs; cases hs
        simp only [hcl, Bool.false_eq_true, if_false]
        have hat1 : At M (setScope st sid' (reportScope st.sep s').1) sid' m (resetM x) := by
          refine ⟨(reportScope st.sep s').1, getScope_setScope_self hg _, hcl, ?_, ?_, ?_⟩
          · rw [reportScope_metrics]
            exact List.mem_map.mpr ⟨(m, x), hx, rfl⟩
          · rw [reportScope_metrics]
            simp only [List.map_map]
            exact hnd
          · obtain ⟨a, b, c⟩ := hm
            exact ⟨(resetM_kind x).trans a, by rw [resetM_name]; exact b, c⟩
        have hex1 : Excl M (setScope st sid' (reportScope st.sep s').1) sid' m :=
          hex.frame (ScopeRec.frame_setScope hg (ScopeRec.reportScope_spec st.sep s').1)
        obtain ⟨x', h1, h2, h3, h4⟩ := ih _ (resetM x) hat1 hex1
        refine ⟨x', h1, ?_, ?_, h4⟩
        · rw [W_append, reportScope_own M hM st sid' m x s' hex hg hx hnd hm]
          have hk : metricKind x = M.kind := hm.1
          have := hM.reset x hk
          omega
        · right
          rcases h3 with ⟨rfl, _⟩ | h3
          · rfl
          · rw [h3, resetM_idem]
      · have hw : W M (reportScope st.sep s').2 = 0 := reportScope_other M hM st sid m sid' s' hex hg hsid
        have hr := ScopeRec.reportScope_spec st.sep s'
        have hg1 : getScope (setScope st sid' (reportScope st.sep s').1) sid' = some (reportScope st.sep s').1 :=
          getScope_setScope_self hg _
        have hsame : Same sid st (if s'.closed then
            setScope (regRemove (setScope st sid' (reportScope st.sep s').1) sh k sid') sid'
              { (reportScope st.sep s').1 with metrics := [] }
            else setScope st sid' (reportScope st.sep s').1) := by
          split
          · exact ((same_setScope_ne st hsid _).trans (same_regRemove_ne _ hsid sh k)).trans
              (same_setScope_ne _ hsid _)
          · exact same_setScope_ne st hsid _
        have hfr : ScopeRec.Frame st (if s'.closed then
            setScope (regRemove (setScope st sid' (reportScope st.sep s').1) sh k sid') sid'
              { (reportScope st.sep s').1 with metrics := [] }
            else setScope st sid' (reportScope st.sep s').1) := by
          split
          · refine ⟨rfl, rfl, rfl, rfl, ?_⟩
            show ScopeRec.ScopesLe st.scopes ((st.scopes.set sid' _).set sid' _)
            rw [List.set_set]
            exact ScopeRec.ScopesLe.set hg (ScopeRec.sle_clear _ _ hr.1)
          · exact ScopeRec.frame_setScope hg hr.1
        obtain ⟨x', h1, h2, h3, h4⟩ := ih _ x (hat.same hsame) (hex.frame hfr)
        refine ⟨x', h1, ?_, ?_, hsame.reg.trans h4⟩
        · rw [W_append, hw]; omega
        · rcases h3 with ⟨rfl, h3⟩ | h3
          · refine .inl ⟨rfl, ?_⟩
            intro e he
            rcases List.mem_cons.mp he with rfl | he
            · exact hsid
            · exact h3 e he
          · exact .inr h3

/-! ## `SubScope` / `Tagged` -/

theorem same_clearRemove (st : St) {sid sid' : Nat} (hne : sid' ≠ sid) (t : ScopeS) (sh : Nat) (k1 k2 : Bytes) :
    Same sid st (regRemove (regRemove (setScope st sid' t) sh k1 sid') sh k2 sid') :=
  ((same_setScope_ne st hne t).trans (same_regRemove_ne _ hne sh k1)).trans (same_regRemove_ne _ hne sh k2)

theorem frame_clearRemove {st : St} {sid' : Nat} {s : ScopeS} (hg : getScope st sid' = some s) (sh : Nat)
    (k1 k2 : Bytes) :
    ScopeRec.Frame st (regRemove (regRemove (setScope st sid' { s with metrics := [] }) sh k1 sid') sh k2 sid') :=
  (ScopeRec.frame_setScope hg (ScopeRec.sle_clear _ _ (ScopeRec.sle.refl _))).trans
    ((ScopeRec.frame_regRemove _ _ _ _).trans (ScopeRec.frame_regRemove _ _ _ _))

theorem same_createF (st2 : St) (sid : Nat) (ns : ScopeS) (sh : Nat) (rawKey sKey : Bytes) :
    Same sid st2 (createF st2 ns sh rawKey sKey) :=
  ((same_append st2 sid ns).trans (same_regAdd _ sid sh sKey _)).trans (same_regAdd _ sid sh rawKey _)

theorem closed_ne {M : Meas} {st : St} {sid m : Nat} {x : Metric} (hat : At M st sid m x) {sid' : Nat} {s : ScopeS}
    (hg : getScope st sid' = some s) (hc : s.closed = true) : sid' ≠ sid := by
  rintro rfl
  obtain ⟨s0, hs0, hcl, _⟩ := hat
  rw [hg] at hs0; cases hs0
  rw [hc] at hcl; cases hcl

theorem relook_meas (M : Meas) (hM : Lawful M) (st1 : St) (sid m : Nat) (x : Metric) (hat : At M st1 sid m x)
    (hex : Excl M st1 sid m) (sh : Nat) (rawKey sKey : Bytes) (ns : ScopeS) (evs1 : List Event)
    (h1 : ∀ e ∈ evs1, M.w e = 0) :
    Same sid st1 (match relookF st1 sh rawKey sKey with
        | (some sid', st2, evs2) => (st2, Out.scope (some sid') (evs1 ++ evs2))
        | (none, st2, evs2) =>
          (createF st2 ns sh rawKey sKey, Out.scope (some st2.scopes.length) (evs1 ++ evs2))).1 ∧
    ∀ e ∈ ScopeRec.outEvents (match relookF st1 sh rawKey sKey with
        | (some sid', st2, evs2) => (st2, Out.scope (some sid') (evs1 ++ evs2))
        | (none, st2, evs2) =>
          (createF st2 ns sh rawKey sKey, Out.scope (some st2.scopes.length) (evs1 ++ evs2))).2, M.w e = 0 := by
  rcases relookF_cases st1 sh rawKey sKey with ⟨sid', s, _, hg, he⟩ | ⟨sid', s, evs, _, hg, hc, hsub, he⟩ | ⟨_, he⟩
  · rw [he]
    refine ⟨same_regAdd _ _ _ _ _, ?_⟩
    intro e hm
    simp only [ScopeRec.outEvents, List.append_nil] at hm
    exact h1 e hm
  · rw [he]
    have hne := closed_ne hat hg hc
    refine ⟨(same_clearRemove st1 hne _ sh sKey rawKey).trans (same_createF _ _ _ _ _ _), ?_⟩
    intro e hm
    simp only [ScopeRec.outEvents, List.mem_append] at hm
    rcases hm with hm | hm
    · exact h1 e hm
    · exact mem_events_other M hM st1 sid m sid' s hex hg hne e (hsub e hm)
  · rw [he]
    refine ⟨same_createF _ _ _ _ _ _, ?_⟩
    intro e hm
    simp only [ScopeRec.outEvents, List.append_nil] at hm
    exact h1 e hm

theorem subscope_meas (M : Meas) (hM : Lawful M) (st : St) (sid m : Nat) (x : Metric) (hat : At M st sid m x)
    (hex : Excl M st sid m) (parent : Nat) (pfx : Bytes) (tags : TagMap) (sh : Nat) :
    Same sid st (subscope st parent pfx tags sh).1 ∧
      ∀ e ∈ ScopeRec.outEvents (subscope st parent pfx tags sh).2, M.w e = 0 := by
  rw [subscope_eq]
  cases hp : getScope st parent with
  | none => exact ⟨Same.refl _ _, fun e he => by cases he⟩
  | some p =>
    simp only
    cases hcl : (st.rootClosed || p.closed)
    · simp only [Bool.false_eq_true, if_false]
      rcases probeF_cases st sh (key pfx [p.tags, tags]) (key pfx [p.tags, sanMap st.cfg tags]) with
        ⟨sid', s, _, hg, _, he⟩ | ⟨sid', s, evs, _, hg, hc, hsub, he⟩ | ⟨_, he⟩
      · rw [he]
        exact ⟨Same.refl _ _, fun e he => by cases he⟩
      · rw [he]
        have hne := closed_ne hat hg hc
        have hs1 := same_clearRemove st hne { s with metrics := [] } sh (key pfx [p.tags, tags])
          (key pfx [p.tags, sanMap st.cfg tags])
        have hf1 := frame_clearRemove hg sh (key pfx [p.tags, tags]) (key pfx [p.tags, sanMap st.cfg tags])
        have := relook_meas M hM _ sid m x (hat.same hs1) (hex.frame hf1) sh (key pfx [p.tags, tags])
          (key pfx [p.tags, sanMap st.cfg tags])
          { pfx := pfx, tags := mergeTags p.tags (sanMap st.cfg tags), closed := false, isRoot := false, metrics := [] }
          evs (fun e he => mem_events_other M hM st sid m sid' s hex hg hne e (hsub e he))
        exact ⟨hs1.trans this.1, this.2⟩
      · rw [he]
        exact relook_meas M hM st sid m x hat hex sh _ _ _ [] (fun e he => by cases he)
    · simp only [if_true]
      exact ⟨Same.refl _ _, fun e he => by cases he⟩

/-! ## updates through a handle -/

theorem updMetric_meas (M : Meas) (st : St) (hmet : MetInv st) (sid m : Nat) (x : Metric)
    (hat : At M st sid m x) (mid : Nat) (f : ScopeS → Metric → Metric × List Event) (hf : ScopeRec.Tame f)
    (hev : ∀ s y, (f s y).2 = []) :
    ∃ x', At M (updMetric st mid f).1 sid m x' ∧
      ((mid = m ∧ ∃ s, x' = (f s x).1) ∨ (mid ≠ m ∧ x' = x)) ∧
      ScopeRec.outEvents (updMetric st mid f).2 = [] ∧ RegKeep sid st (updMetric st mid f).1 := by
  obtain ⟨s, hs, hcl, hx, hnd, hm⟩ := id hat
  unfold updMetric
  split
  · next i s' evs hgo =>
    obtain ⟨s0, j, x0, _, hs0, hfind, _, rfl, rfl⟩ := ScopeRec.go_some mid f _ _ _ _ _ hgo
    simp only [Nat.sub_zero] at hs0
    have hs0' : getScope st i = some s0 := hs0
    have hj : j = mid := by simpa using List.find?_some hfind
    subst hj
    have hmem0 : (j, x0) ∈ s0.metrics := List.mem_of_find?_eq_some hfind
    have hev0 : ScopeRec.outEvents (Out.events (f s0 x0).2) = [] := hev _ _
    by_cases hi : i = sid
    · subst hi
      rw [hs0'] at hs; cases hs
      by_cases hjm : j = m
      · subst hjm
        have : x0 = x := ScopeRec.nodup_fst_eq hnd hmem0 hx
        subst this
        refine ⟨(f s x0).1, ⟨_, getScope_setScope_self hs0' _, hcl, ?_, ?_, ?_⟩, .inl ⟨rfl, s, rfl⟩, hev0,
          RegKeep.refl _ _⟩
        · exact (ScopeRec.mem_mapMetric ..).mpr (.inl ⟨rfl, rfl, x0, hx⟩)
        · show ((ScopeRec.mapMetric j (f s x0).1 s.metrics).map (·.1)).Nodup
          rw [ScopeRec.mapMetric_ids]; exact hnd
        · obtain ⟨a, b, c⟩ := hm
          exact ⟨(hf s x0).1.trans a, by rw [(hf s x0).2.1]; exact b, c⟩
      · refine ⟨x, ⟨_, getScope_setScope_self hs0' _, hcl, ?_, ?_, hm⟩, .inr ⟨hjm, rfl⟩, hev0, RegKeep.refl _ _⟩
        · exact (ScopeRec.mem_mapMetric ..).mpr (.inr ⟨fun e => hjm e.symm, hx⟩)
        · show ((ScopeRec.mapMetric j (f s x0).1 s.metrics).map (·.1)).Nodup
          rw [ScopeRec.mapMetric_ids]; exact hnd
    · have hjm : j ≠ m := by
        rintro rfl
        exact hi (hmet.unique hs0' hs (List.mem_map.mpr ⟨_, hmem0, rfl⟩) (List.mem_map.mpr ⟨_, hx, rfl⟩))
      exact ⟨x, hat.same (same_setScope_ne st hi _), .inr ⟨hjm, rfl⟩, hev0, RegKeep.refl _ _⟩
  · next hgo =>
    have hjm : mid ≠ m := by
      rintro rfl
      have := ScopeRec.go_none mid f _ _ hgo s (List.mem_of_getElem? hs)
      rw [List.find?_eq_none] at this
      exact this (mid, x) hx (by simp)
    exact ⟨x, hat, .inr ⟨hjm, rfl⟩, rfl, RegKeep.refl _ _⟩

/-! ## get-or-create -/

theorem getMetric_meas (M : Meas) (hM : Lawful M) (st : St) (hmet : MetInv st) (sid m : Nat) (x : Metric)
    (hat : At M st sid m x) (sid' : Nat) (kind : String) (raw : Bytes) (mk : Bytes → Metric) :
    At M (getMetric st sid' kind raw mk).1 sid m x ∧
      (∀ e ∈ ScopeRec.outEvents (getMetric st sid' kind raw mk).2, M.w e = 0) ∧
      RegKeep sid st (getMetric st sid' kind raw mk).1 := by
  rcases ScopeRec.getMetric_cases st sid' kind raw mk with ⟨_, h⟩ | ⟨s', id', _, _, h⟩ | ⟨s', hg, _, h⟩ <;> rw [h]
  · exact ⟨hat, (fun e he => by cases he), RegKeep.refl _ _⟩
  · exact ⟨hat, (fun e he => by cases he), RegKeep.refl _ _⟩
  · refine ⟨?_, ?_, RegKeep.refl _ _⟩
    · by_cases hs : sid' = sid
      · subst hs
        obtain ⟨s, hs, hcl, hx, hnd, hm⟩ := hat
        rw [hg] at hs; cases hs
        refine ⟨_, getScope_setScope_self hg _, hcl, List.mem_append_left _ hx, ?_, hm⟩
        simp only [List.map_append, List.map_cons, List.map_nil]
        rw [List.nodup_append]
        refine ⟨hnd, by simp, ?_⟩
        intro a ha b hb
        simp only [List.mem_singleton] at hb; subst hb
        have := hmet.lt a (mem_allIds.mpr ⟨sid', s', hg, ha⟩)
        omega
      · exact hat.same ⟨fun t h => (getScope_setScope_ne st hs _).trans h, rfl, RegKeep.refl _ _⟩
    · intro e he
      simp only [ScopeRec.outEvents] at he
      split at he
      · simp only [List.mem_singleton] at he; subst he; exact hM.misc _ rfl
      · cases he

/-! ## `Close` -/

theorem close_cases (st : St) (j : Nat) :
    step st (.close j) = (st, .events [])
    ∨ (∃ s, getScope st j = some s ∧ step st (.close j) = (setScope st j { s with closed := true }, .events []))
    ∨ (step st (.close j)).1.rootClosed = true := by
  simp only [step]
  cases hg : getScope st j with
  | none => exact .inl rfl
  | some s =>
    simp only
    split
    · exact .inl rfl
    · split
      · exact .inr (.inl ⟨s, rfl, rfl⟩)
      · split
        · exact .inr (.inr rfl)
        · exact .inr (.inr ((prims_ext (reportPass_prims False False (fun _ _ => True) _)).rootClosed rfl))

theorem close_meas (st : St) (sid j : Nat)
    (hlive : ∃ s', getScope (step st (.close j)).1 sid = some s' ∧ s'.closed = false)
    (hroot : (step st (.close j)).1.rootClosed = false) :
    Same sid st (step st (.close j)).1 ∧ ScopeRec.outEvents (step st (.close j)).2 = [] := by
  rcases close_cases st j with h | ⟨s, hg, h⟩ | h
  · rw [h]; exact ⟨Same.refl _ _, rfl⟩
  · rw [h] at hlive ⊢
    by_cases hj : j = sid
    · subst hj
      obtain ⟨s', hs', hc⟩ := hlive
      simp only at hs'
      rw [getScope_setScope_self hg] at hs'
      cases hs'
      cases hc
    · exact ⟨same_setScope_ne st hj _, rfl⟩
  · rw [h] at hroot; cases hroot

/-! ## `Report` -/

theorem report_cases (st : St) :
    step st .report = (st, .events [])
    ∨ (st.rootClosed = false ∧ st.cfg.kind ≠ .none ∧
        step st .report = ((passEntries st st.reg).1, .events ((passEntries st st.reg).2 ++ [.flush]))) := by
  simp only [step]
  split
  · exact .inl rfl
  · next hrc =>
    unfold reportPass
    split
    · exact .inl rfl
    · next hk =>
      refine .inr ⟨by simpa using hrc, ?_, rfl⟩
      intro e; rw [e] at hk; exact hk rfl

/-! ## one step -/

theorem applyOp_no_target (m : Nat) (x : Metric) (op : Op) (h : ScopeRec.target op = none) :
    ScopeRec.applyOp m x op = x := by
  simp [ScopeRec.applyOp, h]

theorem step_meas (M : Meas) (hM : Lawful M) (st : St) (hmet : MetInv st) (sid m : Nat) (x : Metric)
    (hat : At M st sid m x) (hex : Excl M st sid m) (op : Op)
    (hlive : ∃ s', getScope (step st op).1 sid = some s' ∧ s'.closed = false)
    (hroot : (step st op).1.rootClosed = false) :
    ∃ x', At M (step st op).1 sid m x' ∧
      W M (ScopeRec.outEvents (step st op).2) + M.μ x' = M.μ (ScopeRec.applyOp m x op) ∧
      (x' = ScopeRec.applyOp m x op ∨ x' = resetM (ScopeRec.applyOp m x op)) ∧
      RegKeep sid st (step st op).1 := by
  -- operations that leave the scope of `m` alone and emit weight 0
  have hsame : ∀ (st' : St) (out : Out), step st op = (st', out) → ScopeRec.target op = none →
      Same sid st st' → (∀ e ∈ ScopeRec.outEvents out, M.w e = 0) →
      ∃ x', At M (step st op).1 sid m x' ∧
      W M (ScopeRec.outEvents (step st op).2) + M.μ x' = M.μ (ScopeRec.applyOp m x op) ∧
      (x' = ScopeRec.applyOp m x op ∨ x' = resetM (ScopeRec.applyOp m x op)) ∧
      RegKeep sid st (step st op).1 := by
    intro st' out he ht hs hw
    rw [he, applyOp_no_target m x op ht]
    exact ⟨x, hat.same hs, by rw [W_zero_of_all M _ hw]; omega, .inl rfl, hs.reg⟩
  have hget : ∀ (sid' : Nat) (kind : String) (raw : Bytes) (mk : Bytes → Metric),
      step st op = getMetric st sid' kind raw mk → ScopeRec.target op = none →
      ∃ x', At M (step st op).1 sid m x' ∧
      W M (ScopeRec.outEvents (step st op).2) + M.μ x' = M.μ (ScopeRec.applyOp m x op) ∧
      (x' = ScopeRec.applyOp m x op ∨ x' = resetM (ScopeRec.applyOp m x op)) ∧
      RegKeep sid st (step st op).1 := by
    intro sid' kind raw mk he ht
    obtain ⟨h1, h2, h3⟩ := getMetric_meas M hM st hmet sid m x hat sid' kind raw mk
    rw [he, applyOp_no_target m x op ht]
    exact ⟨x, h1, by rw [W_zero_of_all M _ h2]; omega, .inl rfl, h3⟩
  have hupd : ∀ (mid : Nat) (f : ScopeS → Metric → Metric × List Event), ScopeRec.Tame f →
      (∀ s y, (f s y).2 = []) → (∀ s y, (f s y).1 = ScopeRec.effect op y) → ScopeRec.target op = some mid →
      step st op = updMetric st mid f →
      ∃ x', At M (step st op).1 sid m x' ∧
      W M (ScopeRec.outEvents (step st op).2) + M.μ x' = M.μ (ScopeRec.applyOp m x op) ∧
      (x' = ScopeRec.applyOp m x op ∨ x' = resetM (ScopeRec.applyOp m x op)) ∧
      RegKeep sid st (step st op).1 := by
    intro mid f hf hev heff ht he
    obtain ⟨x', h1, h2, h3, h4⟩ := updMetric_meas M st hmet sid m x hat mid f hf hev
    rw [he, h3]
    have hx' : x' = ScopeRec.applyOp m x op := by
      rcases h2 with ⟨rfl, s, rfl⟩ | ⟨hne, rfl⟩
      · simp [ScopeRec.applyOp, ht, heff]
      · have : ¬ (some mid = some m) := fun e => hne (Option.some.inj e)
        simp [ScopeRec.applyOp, ht, this]
    subst hx'
    exact ⟨_, h1, by simp, .inl rfl, h4⟩
  cases op with
  | sub p name sh =>
    cases hg : getScope st p with
    | some ps =>
      have hs := subscope_meas M hM st sid m x hat hex p (fqn st.sep ps.pfx (sanName st.cfg name)) [] sh
      exact hsame _ _ (by simp only [step, hg]) rfl hs.1 hs.2
    | none => exact hsame st (.scope none []) (by simp only [step, hg]) rfl (Same.refl _ _) (fun e he => by cases he)
  | tagged p tags sh =>
    cases hg : getScope st p with
    | some ps =>
      have hs := subscope_meas M hM st sid m x hat hex p ps.pfx tags sh
      exact hsame _ _ (by simp only [step, hg]) rfl hs.1 hs.2
    | none => exact hsame st (.scope none []) (by simp only [step, hg]) rfl (Same.refl _ _) (fun e he => by cases he)
  | counter s n => exact hget s "counter" n (fun n => .counter n 0) rfl rfl
  | gauge s n => exact hget s "gauge" n (fun n => .gauge n 0 false) rfl rfl
  | hist s n spec => exact hget s "hist" n (fun n => .hist n (newHist (ScopeRec.histSpec st.cfg spec))) rfl rfl
  | timer s n =>
    obtain ⟨h1, h2, h3⟩ := getMetric_meas M hM st hmet sid m x hat s "timer" n (fun n => .timer n [])
    rw [applyOp_no_target m x _ rfl]
    simp only [step]
    split
    · split
      · exact ⟨x, h1, by rw [W_zero_of_all M _ h2]; omega, .inl rfl, h3⟩
      · next hout _ _ =>
        refine ⟨x, h1.same ⟨fun _ h => h, rfl, RegKeep.refl _ _⟩, ?_, .inl rfl, h3⟩
        rw [W_zero_of_all M _ h2]; omega
    · exact ⟨x, h1, by rw [W_zero_of_all M _ h2]; omega, .inl rfl, h3⟩
  | inc mid v =>
    refine hupd mid _ (ScopeRec.tame_inc v) ?_ ?_ rfl rfl
    · intro s y; cases y <;> rfl
    · intro s y; cases y <;> rfl
  | upd mid v =>
    refine hupd mid _ (ScopeRec.tame_upd v) ?_ ?_ rfl rfl
    · intro s y; cases y <;> rfl
    · intro s y; cases y <;> rfl
  | recv mid v =>
    refine hupd mid _ (ScopeRec.tame_recv v) ?_ ?_ rfl rfl
    · intro s y
      cases y with
      | hist n h => simp only; split <;> rfl
      | _ => rfl
    · intro s y
      cases y with
      | hist n h => simp only [ScopeRec.effect]; split <;> rfl
      | _ => rfl
  | recd mid d =>
    refine hupd mid _ (ScopeRec.tame_recd d) ?_ ?_ rfl rfl
    · intro s y
      cases y with
      | hist n h => simp only; split <;> rfl
      | _ => rfl
    · intro s y
      cases y with
      | hist n h => simp only [ScopeRec.effect]; split <;> rfl
      | _ => rfl
  | record mid d =>
    by_cases hk : (st.cfg.kind == RKind.none) = true
    · refine hupd mid (fun _ x => match x with
          | .timer n vs => (.timer n (vs ++ [d]), [])
          | y => (y, [])) (ScopeRec.tame_record d) ?_ ?_ rfl
          (by simp only [step, hk, if_true]; congr 1)
      · intro s y; cases y <;> rfl
      · intro s y; cases y <;> rfl
    · have happ : ScopeRec.applyOp m x (.record mid d) = x := by
        obtain ⟨s, _, _, _, _, hm⟩ := hat
        have hnt : metricKind x ≠ "timer" := fun e => hM.notTimer (hm.1.symm.trans e)
        unfold ScopeRec.applyOp
        split
        · cases x with
          | timer n vs => exact absurd rfl hnt
          | _ => rfl
        · rfl
      rw [happ]
      simp only [step, hk, Bool.false_eq_true, if_false]
      split
      · refine ⟨x, hat, ?_, .inl rfl, RegKeep.refl _ _⟩
        rw [W_zero_of_all M _ (fun e he => by
          simp only [ScopeRec.outEvents, List.mem_singleton] at he; subst he; exact hM.misc _ rfl)]
        omega
      · exact ⟨x, hat, by simp [ScopeRec.outEvents], .inl rfl, RegKeep.refl _ _⟩
  | report =>
    rw [applyOp_no_target m x _ rfl]
    rcases report_cases st with h | ⟨_, _, h⟩
    · rw [h]; exact ⟨x, hat, by simp [ScopeRec.outEvents], .inl rfl, RegKeep.refl _ _⟩
    · rw [h]
      obtain ⟨x', h1, h2, h3, h4⟩ := passEntries_meas M hM sid m st.reg st x hat hex
      refine ⟨x', h1, ?_, ?_, h4⟩
      · have hfl : M.w Event.flush = 0 := hM.misc _ rfl
        simp only [ScopeRec.outEvents, W_append, W_cons, W_nil, hfl]; omega
      · rcases h3 with ⟨h3, _⟩ | h3
        · exact .inl h3
        · exact .inr h3
  | close j =>
    obtain ⟨h1, h2⟩ := close_meas st sid j hlive hroot
    rw [applyOp_no_target m x _ rfl, h2]
    exact ⟨x, hat.same h1, by simp, .inl rfl, h1.reg⟩

/-! ## whole runs -/

/-- `P` holds in every state the run of `ops` from `st` passes through (first and last included) -/
def Always (P : St → Prop) (st : St) : List Op → Prop
  | [] => P st
  | op :: ops => P st ∧ Always P (step st op).1 ops

theorem Always.head {P : St → Prop} {st : St} {ops : List Op} (h : Always P st ops) : P st := by
  cases ops with
  | nil => exact h
  | cons op ops => exact h.1

theorem Always.append {P : St → Prop} {st : St} {a b : List Op} (h : Always P st (a ++ b)) :
    Always P st a ∧ Always P (runEv st a).1 b := by
  induction a generalizing st with
  | nil => exact ⟨h.head, h⟩
  | cons op a ih =>
    obtain ⟨h1, h2⟩ := h
    obtain ⟨i1, i2⟩ := ih h2
    exact ⟨⟨h1, i1⟩, i2⟩

/-- scope `sid` exists and is not closed, and the root has not been closed -/
def Live (st : St) (sid : Nat) : Prop :=
  (∃ s, getScope st sid = some s ∧ s.closed = false) ∧ st.rootClosed = false

/-- closing is irreversible: a scope that is live at the end of a run was live all along -/
theorem Live.back {st st' : St} {sid : Nat} (he : Ext st st') (hs : ∃ s, getScope st sid = some s)
    (h : Live st' sid) : Live st sid := by
  obtain ⟨s, hs⟩ := hs
  obtain ⟨s', hs', _, _, _, hc, _⟩ := he.scope sid s hs
  obtain ⟨⟨s'', hs'', hcl⟩, hr⟩ := h
  rw [hs'] at hs''; cases hs''
  refine ⟨⟨s, hs, ?_⟩, ?_⟩
  · cases e : s.closed with
    | false => rfl
    | true => rw [hc e] at hcl; cases hcl
  · cases e : st.rootClosed with
    | false => rfl
    | true => rw [he.rootClosed e] at hr; cases hr

/-- congruence modulo `N` (`N = 0`: equality) -/
def Cong (N a b : Int) : Prop := N ∣ a - b

theorem Cong.rfl' (N a : Int) : Cong N a a := by simp [Cong]
theorem Cong.zero {a b : Int} (h : Cong 0 a b) : a = b := by
  obtain ⟨c, hc⟩ := h
  rw [Int.zero_mul] at hc; omega

theorem run_meas (M : Meas) (hM : Lawful M) (sid m : Nat) (N : Int) (C : Metric → Prop) (g : Op → Int)
    (Q : Op → Prop)
    (hCapp : ∀ x op, C x → C (ScopeRec.applyOp m x op)) (hCreset : ∀ x, C x → C (resetM x))
    (hg : ∀ x op, Q op → C x → Cong N (M.μ (ScopeRec.applyOp m x op)) (M.μ x + g op)) :
    ∀ (ops : List Op) (st : St) (x : Metric), (∀ op ∈ ops, Q op) → MetInv st → At M st sid m x → C x →
      Always (fun s => Excl M s sid m) st ops → Live (runEv st ops).1 sid →
      ∃ x', At M (runEv st ops).1 sid m x' ∧ C x' ∧
        Cong N (W M (runEv st ops).2 + M.μ x') (M.μ x + (ops.map g).sum) ∧
        RegKeep sid st (runEv st ops).1 := by
  intro ops
  induction ops with
  | nil =>
    intro st x _ _ hat hc _ _
    refine ⟨x, hat, hc, ?_, RegKeep.refl _ _⟩
    simp [Cong]
  | cons op ops ih =>
    intro st x hQ hmet hat hc hal hlive
    rw [runEv_cons] at hlive ⊢
    have hmet1 := step_metInv st op hmet
    have hsc : ∃ s, getScope st sid = some s := by
      obtain ⟨s, hs, _⟩ := hat; exact ⟨s, hs⟩
    have hsc1 : ∃ s, getScope (step st op).1 sid = some s := by
      obtain ⟨s, hs⟩ := hsc
      obtain ⟨s', hs', _⟩ := (step_ext st op hmet).scope sid s hs
      exact ⟨s', hs'⟩
    have hlive1 : Live (step st op).1 sid := by
      refine Live.back ?_ hsc1 hlive
      rw [runEv_fst]
      exact runOps_ext ops _ hmet1
    obtain ⟨x1, hat1, hw1, hx1, hr1⟩ := step_meas M hM st hmet sid m x hat hal.1 op hlive1.1 hlive1.2
    have hc1 : C x1 := by
      rcases hx1 with rfl | rfl
      · exact hCapp x op hc
      · exact hCreset _ (hCapp x op hc)
    obtain ⟨x', hat', hc', hw', hr'⟩ := ih (step st op).1 x1 (fun o ho => hQ o (List.mem_cons_of_mem _ ho))
      hmet1 hat1 hc1 hal.2 hlive
    refine ⟨x', hat', hc', ?_, hr1.trans hr'⟩
    have h1 := hg x op (hQ op List.mem_cons_self) hc
    unfold Cong at *
    simp only [W_append, List.map_cons, List.sum_cons]
    have e : W M (ScopeRec.outEvents (step st op).2) + W M (runEv (step st op).1 ops).2 + M.μ x'
          - (M.μ x + (g op + (ops.map g).sum))
        = (M.μ (ScopeRec.applyOp m x op) - (M.μ x + g op))
          + (W M (runEv (step st op).1 ops).2 + M.μ x' - (M.μ x1 + (ops.map g).sum)) := by omega
    rw [e]
    exact Int.dvd_add h1 hw'

/-- if scope `sid` is registered a report pass delivers everything -/
theorem report_flush (M : Meas) (hM : Lawful M) (st : St) (sid m : Nat) (x : Metric)
    (hat : At M st sid m x) (hex : Excl M st sid m) (hk : st.cfg.kind ≠ .none) (hroot : st.rootClosed = false)
    (hreg : ∃ e ∈ st.reg, e.2 = sid) :
    At M (step st .report).1 sid m (resetM x) ∧ W M (ScopeRec.outEvents (step st .report).2) = M.μ x := by
  rcases report_cases st with h | ⟨_, _, h⟩
  · exfalso
    simp only [step, hroot, Bool.false_eq_true, if_false, reportPass] at h
    have hk' : (st.cfg.kind == RKind.none) = false := by
      cases e : st.cfg.kind <;> simp_all
    simp only [hk', Bool.false_eq_true, if_false] at h
    injection h with _ h2
    injection h2 with h2
    simp at h2
  · rw [h]
    obtain ⟨x', h1, h2, h3, _⟩ := passEntries_meas M hM sid m st.reg st x hat hex
    have hx' : x' = resetM x := by
      rcases h3 with ⟨_, h3⟩ | h3
      · obtain ⟨e, he, hes⟩ := hreg
        exact absurd hes (h3 e he)
      · exact h3
    subst hx'
    refine ⟨h1, ?_⟩
    have hfl : M.w Event.flush = 0 := hM.misc _ rfl
    have hz : M.μ (resetM x) = 0 := by
      obtain ⟨_, _, _, _, _, hm⟩ := hat
      exact hM.reset x hm.1
    simp only [ScopeRec.outEvents, W_append, W_cons, W_nil, hfl]
    omega

end Tally.Cons
