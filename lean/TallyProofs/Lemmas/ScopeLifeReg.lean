import TallyProofs.Lemmas.RegistryLemmas
import TallyProofs.Lemmas.RegistryPass
/-!
# Registry-level lemmas for the combined model `Tally.ScopeLife`

Facts about `Registry.step` that `RegistryLemmas` does not state, all proved here (no existing file is edited):

* `step_par`: `step` never reads the `dropped` list, it only prepends to it.  This is what lets the Registry
  invariant be lifted to the combined model although the root's `purge` clears away tokens that are `pre` in the
  Registry sense (`SInv.droppedNoPre` fails after a purge): the invariant is kept for the SHADOW state in which the
  `pre` stamps of the dropped tokens are erased (`shadow`), and every step of the real state is a step of the shadow.
* `step_delivered`: `delivered` only grows at its head, and what a step delivers was pending or in a cell (used for
  `ScopeLife.FinalFlushCov`: nothing delivered after the final flush is a barrier token).
The classification of the effect of a step (`Fam`, seven shapes) and the frame facts derived from it, and the
pc-kind lemmas (`step_pass_kind` / `step_obt_kind`), are in `ScopeLifeFam.lean`; the purge in `ScopeLifePurge.lean`.
-/
namespace Tally.Registry
variable {san : Nat → Nat}

def withD (s : State) (d : List Token) : State := { s with dropped := d }

@[simp] theorem pcOf_withD (s : State) (d) (t : Nat) : pcOf (withD s d) t = pcOf s t := rfl
@[simp] theorem scopeOf_withD (s : State) (d) (t : Nat) : scopeOf (withD s d) t = scopeOf s t := rfl
@[simp] theorem lookup_withD (s : State) (d) (t : Nat) : lookup (withD s d) t = lookup s t := rfl
@[simp] theorem visiting_withD (s : State) (d) (t : Nat) : visiting (withD s d) t = visiting s t := rfl
@[simp] theorem readers_withD (s : State) (d) : (withD s d).readers = s.readers := rfl
@[simp] theorem scopes_withD (s : State) (d) : (withD s d).scopes = s.scopes := rfl
@[simp] theorem dropped_withD (s : State) (d) : (withD s d).dropped = d := rfl
@[simp] theorem nextToken_withD (s : State) (d) : (withD s d).nextToken = s.nextToken := rfl
@[simp] theorem delivered_withD (s : State) (d) : (withD s d).delivered = s.delivered := rfl
theorem setPc_withD (s : State) (d) (t p) : setPc (withD s d) t p = withD (setPc s t p) d := rfl
theorem addReader_withD (s : State) (d) (t) : addReader (withD s d) t = withD (addReader s t) d := rfl
theorem delReader_withD (s : State) (d) (t) : delReader (withD s d) t = withD (delReader s t) d := rfl
theorem setScope_withD (s : State) (d) (t x) : setScope (withD s d) t x = withD (setScope s t x) d := rfl
theorem deleteIfSame_withD (s : State) (d) (k t) : deleteIfSame (withD s d) k t = withD (deleteIfSame s k t) d := rfl
theorem handOut_withD (s : State) (d) (t r sid) : handOut (withD s d) t r sid = withD (handOut s t r sid) d := rfl
theorem createScope_withD (s : State) (d) (i) : createScope (withD s d) i = withD (createScope s i) d := rfl
theorem addAlias_withD (s : State) (d) (r sid) : addAlias (withD s d) r sid = withD (addAlias s r sid) d := by
  unfold addAlias; simp only [lookup_withD]; split <;> rfl
theorem freshS_withD (s : State) (d) (t r i) : freshS (withD s d) t r i = withD (freshS s t r i) d := by
  unfold freshS; simp only [createScope_withD, addAlias_withD, handOut_withD, scopes_withD]

/-- the new part of `dropped` -/
def Par (san : Nat → Nat) (s : State) (e : Ev) (s' : State) : Prop :=
  ∃ nw, s'.dropped = nw ++ s.dropped ∧ ∀ d, step san (withD s d) e = some (withD s' (nw ++ d))

theorem par_same {s s' : State} {e : Ev} (hd : s'.dropped = s.dropped)
    (h : ∀ d, step san (withD s d) e = some (withD s' d)) : Par san s e s' :=
  ⟨[], by simpa using hd, by simpa using h⟩

theorem clearScope_withD {s : State} {sid : Nat} {x : ScopeS} (hx : scopeOf s sid = some x) (d) :
    clearScope (withD s d) sid = withD (clearScope s sid) (x.cell ++ d) := by
  simp [clearScope, hx]; rfl

theorem step_par {s s' : State} {e : Ev} (hs : step san s e = some s') : Par san s e s' := by
  cases e with
  | record sid =>
    simp only [step] at hs
    split at hs
    · cases hs
    · next x hx =>
      split at hs
      · next hc =>
        cases hs
        exact ⟨[_], rfl, fun d => by simp [step, hx, hc]; rfl⟩
      · next hc =>
        cases hs
        exact par_same rfl fun d => by simp [step, hx, hc]; rfl
  | close sid =>
    simp only [step] at hs
    split at hs
    · cases hs
    · next x hx => cases hs; exact par_same rfl fun d => by simp [step, hx]; rfl
  | obtain t r =>
    simp only [step] at hs
    split at hs
    · cases hs
    · next hi => cases hs; exact par_same rfl fun d => by simp [step, hi]; rfl
  | passBegin t =>
    simp only [step] at hs
    split at hs
    · cases hs
    · next hi => cases hs; exact par_same rfl fun d => by simp [step, hi]; rfl
  | passEndHint t =>
    simp only [step] at hs
    split at hs
    · next v hpc => cases hs; exact par_same rfl fun d => by simp [step, hpc]; rfl
    · cases hs
  | step t c =>
    cases hpc : pcOf s t with
    | idle => simp [step, hpc] at hs
    | obtWantLock r =>
      by_cases hr : s.readers = []
      · cases hl : lookup s (san r) with
        | none =>
          rw [step_obtWantLock_none hpc hr hl] at hs; cases hs
          refine par_same ?_ fun d => ?_
          · show (addAlias (createScope s (san r)) r s.scopes.length).dropped = _
            rw [addAlias_dropped]; rfl
          · rw [step_obtWantLock_none (s := withD s d) hpc hr hl, freshS_withD]
        | some sid =>
          cases hx : scopeOf s sid with
          | none => rw [step_obtWantLock_noscope hpc hl hx] at hs; cases hs
          | some x =>
            rw [step_obtWantLock_some hpc hr hl hx] at hs
            split at hs
            · next hc =>
              cases hs
              refine par_same ?_ fun d => ?_
              · show (addAlias s r sid).dropped = _
                rw [addAlias_dropped]
              · rw [step_obtWantLock_some (s := withD s d) hpc hr hl hx, if_pos hc, addAlias_withD, handOut_withD]
            · next hc =>
              split at hs
              · cases hs
              · next hv =>
                cases hs
                have hd4 : ∀ d, d4cS (withD s d) r (san r) sid x = withD (d4cS s r (san r) sid x) d := by
                  intro d; rw [d4cS_eq hx, d4cS_eq (s := withD s d) hx]; rfl
                refine par_same ?_ fun d => ?_
                · show (addAlias (createScope (d4cS s r (san r) sid x) (san r)) r _).dropped = _
                  rw [addAlias_dropped, d4cS_eq hx]; rfl
                · rw [step_obtWantLock_some (s := withD s d) hpc hr hl hx, if_neg hc]
                  simp only [visiting_withD, hv, if_false, Bool.false_eq_true]
                  rw [hd4, freshS_withD]
      · rw [step_obtWantLock_blocked hpc hr] at hs; cases hs
    | passClear v k sid =>
      simp only [step, hpc] at hs
      split at hs
      · cases hs
      · next hv =>
        cases hs
        cases hx : scopeOf s sid with
        | none =>
          have h1 : ∀ s0 : State, scopeOf s0 sid = none → clearScope s0 sid = s0 := fun s0 h => by simp [clearScope, h]
          refine par_same (by rw [h1 s hx]; rfl) fun d => ?_
          simp only [step, pcOf_withD, hpc, visiting_withD, hv]
          rw [h1 s hx, h1 (withD s d) hx]; rfl
        | some x =>
          refine ⟨x.cell, by rw [clearScope_eq hx]; rfl, fun d => ?_⟩
          simp only [step, pcOf_withD, hpc, visiting_withD, hv]
          rw [clearScope_withD hx]; rfl
    | obtClear r sid =>
      simp only [step, hpc] at hs
      split at hs
      · cases hs
      · next hv =>
        cases hs
        cases hx : scopeOf s sid with
        | none =>
          have h1 : ∀ s0 : State, scopeOf s0 sid = none → clearScope s0 sid = s0 := fun s0 h => by simp [clearScope, h]
          refine par_same (by rw [h1 s hx]; rfl) fun d => ?_
          simp only [step, pcOf_withD, hpc, visiting_withD, hv]
          rw [h1 s hx, h1 (withD s d) hx]; rfl
        | some x =>
          refine ⟨x.cell, by rw [clearScope_eq hx]; rfl, fun d => ?_⟩
          simp only [step, pcOf_withD, hpc, visiting_withD, hv]
          rw [clearScope_withD hx]; rfl
    | _ =>
      simp only [step, hpc] at hs
      repeat' split at hs
      all_goals first | cases hs | skip
      all_goals
        refine par_same rfl fun d => ?_
        simp_all [step, setPc_withD, addReader_withD, delReader_withD, setScope_withD, deleteIfSame_withD, handOut_withD]
        try rfl

/-! ## how `delivered` grows -/

/-- what a thread at this pc holds pending is in `allPending` -/
theorem mem_allPending_of_pcOf {s : State} {t : Nat} {tok : Token} (h : tok ∈ pendingOf (pcOf s t)) :
    tok ∈ allPending s := by
  rw [allPending_eq]
  cases hlk : s.pcs.lookup t with
  | none => simp [pcOf, hlk, pendingOf] at h
  | some p =>
    simp only [pcOf, hlk, Option.getD_some] at h
    have hmem : (t, p) ∈ s.pcs := by
      generalize s.pcs = l at hlk
      induction l with
      | nil => simp [List.lookup] at hlk
      | cons a l ih =>
        obtain ⟨k, v⟩ := a
        by_cases hk : t = k
        · subst hk
          simp only [List.lookup, beq_self_eq_true, Option.some.injEq] at hlk
          subst hlk; exact List.mem_cons_self ..
        · have : (t == k) = false := by simp [hk]
          simp only [List.lookup, this] at hlk
          exact List.mem_cons_of_mem _ (ih hlk)
    simp only [pend, List.mem_flatten, List.mem_map]
    exact ⟨pendingOf p, ⟨(t, p), hmem, rfl⟩, h⟩

/-- **`delivered` only grows at its head**, and what a step delivers was pending or in a cell -/
theorem step_delivered {s s' : State} {e : Ev} (hs : step san s e = some s') :
    ∃ nw, s'.delivered = nw ++ s.delivered ∧
      ∀ tok ∈ nw, tok ∈ allPending s ∨ ∃ (sid : Nat) (x : ScopeS), s.scopes[sid]? = some x ∧ tok ∈ x.cell := by
  have nil : ∀ {s' : State}, s'.delivered = s.delivered → ∃ nw, s'.delivered = nw ++ s.delivered ∧
      ∀ tok ∈ nw, tok ∈ allPending s ∨ ∃ (sid : Nat) (x : ScopeS), s.scopes[sid]? = some x ∧ tok ∈ x.cell :=
    fun h => ⟨[], by simpa using h, fun _ hm => by cases hm⟩
  cases e with
  | record sid =>
    simp only [step] at hs
    repeat' split at hs
    all_goals first | cases hs | skip
    all_goals exact nil rfl
  | close sid =>
    simp only [step] at hs
    repeat' split at hs
    all_goals first | cases hs | skip
    all_goals exact nil rfl
  | obtain t r =>
    simp only [step] at hs
    repeat' split at hs
    all_goals first | cases hs | skip
    all_goals exact nil rfl
  | passBegin t =>
    simp only [step] at hs
    repeat' split at hs
    all_goals first | cases hs | skip
    all_goals exact nil rfl
  | passEndHint t =>
    simp only [step] at hs
    repeat' split at hs
    all_goals first | cases hs | skip
    all_goals exact nil rfl
  | step t c =>
    cases hpc : pcOf s t with
    | idle => simp [step, hpc] at hs
    | passDeliver v k sid cl pd =>
      simp only [step, hpc] at hs
      cases hs
      exact ⟨pd, rfl, fun tok hm => Or.inl (mem_allPending_of_pcOf (t := t) (by rw [hpc]; exact hm))⟩
    | obtDeliver r sid pd =>
      simp only [step, hpc] at hs
      cases hs
      exact ⟨pd, rfl, fun tok hm => Or.inl (mem_allPending_of_pcOf (t := t) (by rw [hpc]; exact hm))⟩
    | passClear v k sid =>
      simp only [step, hpc] at hs
      split at hs
      · cases hs
      · cases hs; exact nil (by simp)
    | obtClear r sid =>
      simp only [step, hpc] at hs
      split at hs
      · cases hs
      · cases hs; exact nil (by simp)
    | obtWantLock r =>
      by_cases hr : s.readers = []
      · cases hl : lookup s (san r) with
        | none =>
          rw [step_obtWantLock_none hpc hr hl] at hs; cases hs
          refine nil ?_
          show (addAlias (createScope s (san r)) r s.scopes.length).delivered = _
          rw [addAlias_delivered]; rfl
        | some sid =>
          cases hx : scopeOf s sid with
          | none => rw [step_obtWantLock_noscope hpc hl hx] at hs; cases hs
          | some x =>
            rw [step_obtWantLock_some hpc hr hl hx] at hs
            split at hs
            · cases hs
              refine nil ?_
              show (addAlias s r sid).delivered = _
              rw [addAlias_delivered]
            · split at hs
              · cases hs
              · cases hs
                refine ⟨x.cell, ?_, fun tok hm => Or.inr ⟨sid, x, hx, hm⟩⟩
                show (addAlias (createScope (d4cS s r (san r) sid x) (san r)) r _).delivered = _
                rw [addAlias_delivered, d4cS_eq hx]; rfl
      · rw [step_obtWantLock_blocked hpc hr] at hs; cases hs
    | _ =>
      simp only [step, hpc] at hs
      repeat' split at hs
      all_goals first | cases hs | skip
      all_goals exact nil rfl

/-! ## the shadow state -/

/-- erase the `pre` stamp -/
def er (tk : Token) : Token := { tk with pre := false }

/-- the state with the `pre` stamps of the dropped tokens erased -/
def shadow (s : State) : State := withD s (s.dropped.map er)

theorem map_er_of_noPre {l : List Token} (h : NoPre l) : l.map er = l := by
  induction l with
  | nil => rfl
  | cons a l ih =>
    have ha : a.pre = false := h a (List.mem_cons_self ..)
    have hl : NoPre l := fun tk hm => h tk (List.mem_cons_of_mem _ hm)
    rw [List.map_cons, ih hl]
    congr 1
    cases a; simp_all [er]

/-- every step of the real state is the same step of the shadow; and what a step adds to `dropped` is not `pre` -/
theorem shadow_step {s s' : State} {e : Ev} (hI : Inv san (shadow s)) (hs : step san s e = some s') :
    step san (shadow s) e = some (shadow s') ∧ ∃ nw, s'.dropped = nw ++ s.dropped ∧ NoPre nw := by
  obtain ⟨nw, hd, hp⟩ := step_par hs
  have h1 := hp (s.dropped.map er)
  have hI' := (pres_step hI h1).1
  have hnp : NoPre nw := fun tk hm => hI'.static.droppedNoPre tk (List.mem_append_left _ hm)
  refine ⟨?_, nw, hd, hnp⟩
  show step san (withD s (s.dropped.map er)) e = some (withD s' (s'.dropped.map er))
  rw [h1, hd, List.map_append, map_er_of_noPre hnp]

end Tally.Registry
