import Tally.Model.Statsd
import Tally.Spec.C18
/-!
Lemmas about the decimal-digit functions of the StatsD model (`natDigits`, `padLeft0`) and the
digit parsers of the C18 spec (`parseDigitsAux`, `parseDigits`): digits are digits, the fuel of
`digitsCore` is enough, and parsing the digits of `n` gives `n` back.
-/
namespace Tally.Lemmas.Digits
open Tally Tally.Statsd Tally.Spec.C18

theorem digitByte_toNat (d : Nat) : (digitByte d).toNat = 48 + d % 10 := by
  unfold digitByte
  rw [UInt8.toNat_ofNat']
  have : d % 10 < 10 := Nat.mod_lt _ (by decide)
  omega

theorem digitByte_isDigit (d : Nat) : isDigit (digitByte d) = true := by
  unfold isDigit
  rw [digitByte_toNat]
  have : d % 10 < 10 := Nat.mod_lt _ (by decide)
  simp only [Bool.and_eq_true, decide_eq_true_eq]
  omega

theorem digitByte_val (d : Nat) : (digitByte d).toNat - 48 = d % 10 := by
  rw [digitByte_toNat]; omega

/-- a digit is none of the bytes the spec treats specially -/
theorem isDigit_ne {b : UInt8} (h : isDigit b = true) (c : UInt8) (hc : c.toNat < 48 ∨ 57 < c.toNat) : b ≠ c := by
  intro e; subst e
  unfold isDigit at h
  simp only [Bool.and_eq_true, decide_eq_true_eq] at h
  omega

theorem digitsCore_acc : ∀ (fuel n : Nat) (acc : Bytes), digitsCore fuel n acc = digitsCore fuel n [] ++ acc := by
  intro fuel
  induction fuel with
  | zero => intro n acc; simp [digitsCore]
  | succ k ih =>
    intro n acc
    unfold digitsCore
    split
    · simp
    · rw [ih (n / 10) (digitByte n :: acc), ih (n / 10) [digitByte n]]
      simp

theorem digitsCore_fuel : ∀ (f1 f2 n : Nat) (acc : Bytes), n < f1 → n < f2 →
    digitsCore f1 n acc = digitsCore f2 n acc := by
  intro f1
  induction f1 with
  | zero => intro f2 n acc h; omega
  | succ k ih =>
    intro f2 n acc h1 h2
    cases f2 with
    | zero => omega
    | succ m =>
      unfold digitsCore
      split
      · rfl
      · exact ih m (n / 10) _ (by omega) (by omega)

theorem natDigits_small {n : Nat} (h : n < 10) : natDigits n = [digitByte n] := by
  unfold natDigits digitsCore
  simp [h]

theorem natDigits_step {n : Nat} (h : 10 ≤ n) : natDigits n = natDigits (n / 10) ++ [digitByte n] := by
  unfold natDigits
  rw [digitsCore]
  simp only [show ¬ n < 10 by omega, if_false]
  rw [digitsCore_acc, digitsCore_fuel n (n / 10 + 1) (n / 10) [] (by omega) (by omega)]

/-- induction principle following the digits of a number -/
theorem digits_induction {P : Nat → Prop} (small : ∀ n, n < 10 → P n)
    (step : ∀ n, 10 ≤ n → P (n / 10) → P n) : ∀ n, P n := by
  intro n
  induction n using Nat.strongRecOn with
  | _ n ih =>
    rcases Nat.lt_or_ge n 10 with h | h
    · exact small n h
    · exact step n h (ih (n / 10) (by omega))

theorem natDigits_ne_nil (n : Nat) : natDigits n ≠ [] := by
  rcases Nat.lt_or_ge n 10 with h | h
  · rw [natDigits_small h]; simp
  · rw [natDigits_step h]; simp

theorem natDigits_all_digit : ∀ n, ∀ b ∈ natDigits n, isDigit b = true := by
  apply digits_induction
  · intro n h b hb
    rw [natDigits_small h] at hb
    simp at hb; subst hb; exact digitByte_isDigit n
  · intro n h ih b hb
    rw [natDigits_step h] at hb
    simp at hb
    rcases hb with hb | hb
    · exact ih b hb
    · subst hb; exact digitByte_isDigit n

theorem natDigits_length_pos (n : Nat) : 0 < (natDigits n).length :=
  List.length_pos_iff.mpr (natDigits_ne_nil n)

/-- the first digit of a positive number is not `'0'` -/
theorem natDigits_head : ∀ n, 0 < n → (natDigits n).head? ≠ some 48 := by
  apply digits_induction
  · intro n h hp
    rw [natDigits_small h]
    simp only [List.head?_cons, ne_eq, Option.some.injEq]
    intro e
    have := congrArg UInt8.toNat e
    rw [digitByte_toNat] at this
    have h48 : (48 : UInt8).toNat = 48 := by decide
    omega
  · intro n h ih _
    rw [natDigits_step h]
    cases hd : natDigits (n / 10) with
    | nil => exact absurd hd (natDigits_ne_nil _)
    | cons b t =>
      have := ih (by omega)
      rw [hd] at this
      simpa using this

theorem natDigits_length_le : ∀ n N, n < 10 ^ N → 0 < N → (natDigits n).length ≤ N := by
  intro n
  induction n using Nat.strongRecOn with
  | _ n ih =>
    intro N hn hN
    rcases Nat.lt_or_ge n 10 with h | h
    · rw [natDigits_small h]; simp; omega
    · rw [natDigits_step h]
      simp only [List.length_append, List.length_cons, List.length_nil]
      cases N with
      | zero => omega
      | succ M =>
        have hM : 0 < M := by
          rcases Nat.eq_zero_or_pos M with h0 | h0
          · subst h0; simp at hn; omega
          · exact h0
        have : n / 10 < 10 ^ M := by
          rw [Nat.pow_succ] at hn
          exact Nat.div_lt_of_lt_mul (by omega)
        have := ih (n / 10) (by omega) M this hM
        omega

/-! ### parsing digits back -/

theorem parseDigitsAux_append_digit (s : Bytes) (d k : Nat) :
    parseDigitsAux (s ++ [digitByte d]) k = (parseDigitsAux s k).map (fun v => v * 10 + d % 10) := by
  induction s generalizing k with
  | nil => simp [parseDigitsAux, digitByte_isDigit, digitByte_val]
  | cons b t ih =>
    simp only [List.cons_append, parseDigitsAux]
    split
    · exact ih _
    · rfl

theorem parseDigitsAux_natDigits : ∀ n, parseDigitsAux (natDigits n) 0 = some n := by
  apply digits_induction
  · intro n h
    rw [natDigits_small h]
    simp [parseDigitsAux, digitByte_isDigit, digitByte_val]
    omega
  · intro n h ih
    rw [natDigits_step h, parseDigitsAux_append_digit, ih]
    simp only [Option.map_some, Option.some.injEq]
    omega

theorem parseDigits_natDigits (n : Nat) : parseDigits (natDigits n) = some n := by
  unfold parseDigits
  have := natDigits_ne_nil n
  have he : (natDigits n).isEmpty = false := by
    cases h : natDigits n with
    | nil => exact absurd h this
    | cons b t => rfl
  rw [he]
  simp [parseDigitsAux_natDigits]

theorem parseDigitsAux_zeros (k : Nat) (s : Bytes) : parseDigitsAux (zeros k ++ s) 0 = parseDigitsAux s 0 := by
  induction k with
  | zero => simp [zeros]
  | succ k ih =>
    have : zeros (k + 1) = 48 :: zeros k := by simp [zeros, List.replicate_succ]
    rw [this]
    simp only [List.cons_append, parseDigitsAux]
    have h48 : isDigit 48 = true := by decide
    simp only [h48, if_true]
    exact ih

theorem padLeft0_length {N : Nat} {s : Bytes} (h : s.length ≤ N) : (padLeft0 N s).length = N := by
  simp [padLeft0, zeros]; omega

theorem parseDigits_padLeft0 (N n : Nat) (hN : 0 < N) (hn : n < 10 ^ N) :
    parseDigits (padLeft0 N (natDigits n)) = some n := by
  have hl := padLeft0_length (natDigits_length_le n N hn hN)
  unfold parseDigits
  have hne : (padLeft0 N (natDigits n)).isEmpty = false := by
    cases h : padLeft0 N (natDigits n) with
    | nil => rw [h] at hl; simp at hl; omega
    | cons _ _ => rfl
  rw [hne]
  simp only [Bool.false_eq_true, if_false]
  unfold padLeft0
  rw [parseDigitsAux_zeros, parseDigitsAux_natDigits]

theorem zeros_all_digit (k : Nat) : ∀ b ∈ zeros k, isDigit b = true := by
  intro b hb
  simp [zeros] at hb
  rw [hb.2]; decide

theorem padLeft0_all_digit (N n : Nat) : ∀ b ∈ padLeft0 N (natDigits n), isDigit b = true := by
  intro b hb
  simp only [padLeft0, List.mem_append] at hb
  rcases hb with hb | hb
  · exact zeros_all_digit _ b hb
  · exact natDigits_all_digit n b hb

end Tally.Lemmas.Digits
