import Tally.Model.Udp
import Tally.Spec.C15
/-! Helper lemmas for C15: the invariant tying the transport model to the oracle's bookkeeping,
and unfolding lemmas for messages (runs of writes closed by a flush). -/
namespace Tally.UdpLemmas
open Tally Tally.UdpObs Tally.Udp Tally.Spec.C15

/-- the model state and the caller's bookkeeping agree, and the buffer respects the limit -/
def Inv (max : Nat) (s : T) (st : St) : Prop :=
  s.buf = st.cur ∧ s.poisoned = st.dirty ∧ s.closed = st.closed ∧ s.buf.length ≤ max

theorem inv_init (max : Nat) : Inv max Udp.init {} := by
  simp [Inv, Udp.init]

theorem any_len_nil (max : Nat) : (([] : List Bytes).any fun d => decide (d.length > max)) = false := rfl

theorem any_len_single (max : Nat) (b : Bytes) (h : b.length ≤ max) :
    ([b].any fun d => decide (d.length > max)) = false := by
  simp; omega

/-- one model step satisfies every clause of the oracle and preserves the invariant -/
theorem step_ok (max : Nat) (s : T) (st : St) (op : Op) (h : Inv max s st) :
    checkEv max st (toEv op (step max s op).2) = none
    ∧ Inv max (step max s op).1 (next st (toEv op (step max s op).2)) := by
  obtain ⟨hb, hp, hc, hl⟩ := h
  obtain ⟨buf, closed, poisoned⟩ := s
  obtain ⟨cur, dirty, sclosed⟩ := st
  simp only at hb hp hc hl
  subst hb hp hc
  cases op with
  | write b =>
    by_cases hfit : max < buf.length + b.length <;> cases closed <;> cases poisoned <;>
      simp [step, accept, toEv, checkEv, next, Op.kind, Op.arg, Op.env, Inv, hfit] <;> omega
  | writeString b =>
    by_cases hfit : max < buf.length + b.length <;> cases closed <;> cases poisoned <;>
      simp [step, accept, toEv, checkEv, next, Op.kind, Op.arg, Op.env, Inv, hfit] <;> omega
  | writeByte b =>
    by_cases hfit : max < buf.length + 1 <;> cases closed <;> cases poisoned <;>
      simp [step, accept, toEv, checkEv, next, Op.kind, Op.arg, Op.env, Inv, hfit] <;> omega
  | flush sock =>
    cases closed <;> cases poisoned <;> cases sock <;>
      simp [step, Udp.flush, toEv, checkEv, next, Op.kind, Op.arg, Op.env, Inv, Sock.env] <;> omega
  | close ok =>
    cases closed <;> cases poisoned <;> cases ok <;>
      simp [step, Udp.close, toEv, checkEv, next, Op.kind, Op.arg, Op.env, Inv] <;> omega
  | isOpen =>
    cases closed <;> cases poisoned <;>
      simp [step, toEv, checkEv, next, Op.kind, Op.arg, Op.env, Inv] <;> omega

theorem run_cons (max : Nat) (s : T) (op : Op) (ops : List Op) :
    run max s (op :: ops) = ((run max (step max s op).1 ops).1, (step max s op).2 :: (run max (step max s op).1 ops).2) := rfl

theorem trace_cons (max : Nat) (s : T) (op : Op) (ops : List Op) :
    trace max s (op :: ops) = toEv op (step max s op).2 :: trace max (step max s op).1 ops := rfl

/-- the whole history of a call sequence satisfies the oracle, from any state the invariant allows -/
theorem trace_ok (max : Nat) : ∀ (ops : List Op) (s : T) (st : St), Inv max s st →
    checkFrom max st (trace max s ops) = none
  | [], _, _, _ => rfl
  | op :: ops, s, st, h => by
    have ⟨h1, h2⟩ := step_ok max s st op h
    rw [trace_cons, checkFrom, h1]
    exact trace_ok max ops _ _ h2

theorem run_inv (max : Nat) : ∀ (ops : List Op) (s : T), s.buf.length ≤ max → (run max s ops).1.buf.length ≤ max
  | [], _, h => h
  | op :: ops, s, h => by
    rw [run_cons]
    apply run_inv max ops
    have := (step_ok max s ⟨s.buf, s.poisoned, s.closed⟩ op ⟨rfl, rfl, rfl, h⟩).2
    exact this.2.2.2

theorem run_append (max : Nat) : ∀ (a b : List Op) (s : T),
    run max s (a ++ b) = ((run max (run max s a).1 b).1, (run max s a).2 ++ (run max (run max s a).1 b).2)
  | [], _, _ => rfl
  | op :: a, b, s => by
    simp only [List.cons_append, run_cons, run_append max a b]

theorem trace_append (max : Nat) : ∀ (a b : List Op) (s : T),
    trace max s (a ++ b) = trace max s a ++ trace max (run max s a).1 b
  | [], _, _ => rfl
  | op :: a, b, s => by
    simp only [List.cons_append, trace_cons, run_cons, trace_append max a b]

theorem delivered_append (max : Nat) (a b : List Op) (s : T) :
    delivered max s (a ++ b) = delivered max s a ++ delivered max (run max s a).1 b := by
  simp [delivered, trace_append]

/-- writes that fit into an open, unpoisoned transport are all accepted and appended in order -/
theorem writes_fit (max : Nat) : ∀ (ws : List Bytes) (s : T), s.closed = false → s.poisoned = false →
    s.buf.length + (ws.map List.length).sum ≤ max →
    run max s (ws.map Op.write) = ({ s with buf := s.buf ++ ws.flatten }, ws.map fun w => { n := w.length })
      ∧ delivered max s (ws.map Op.write) = []
  | [], s, _, _, _ => by simp [run, delivered, trace]
  | w :: ws, s, hc, hp, hfit => by
    simp only [List.map_cons, List.sum_cons] at hfit
    have hstep : step max s (.write w) = ({ s with buf := s.buf ++ w }, { n := w.length }) := by
      have : ¬ (s.buf.length + w.length > max) := by omega
      simp [step, accept, hc, hp, this]
    have ih := writes_fit max ws { s with buf := s.buf ++ w } hc hp (by simp; omega)
    constructor
    · simp only [List.map_cons, run_cons, hstep, ih.1]
      simp [List.append_assoc]
    · have := ih.2
      simp only [delivered] at this ⊢
      simp only [List.map_cons, trace_cons, hstep, List.flatMap_cons, this]
      simp [toEv]

/-- any writes on a poisoned (or closed) transport deliver nothing and leave it as it is -/
theorem writes_stuck (max : Nat) : ∀ (ws : List Bytes) (s : T), (s.closed = true ∨ s.poisoned = true) →
    (run max s (ws.map Op.write)).1 = s ∧ delivered max s (ws.map Op.write) = []
  | [], s, _ => by simp [run, delivered, trace]
  | w :: ws, s, h => by
    have hstep : (step max s (.write w)).1 = s ∧ (step max s (.write w)).2.recv = [] := by
      obtain ⟨buf, closed, poisoned⟩ := s
      cases closed <;> cases poisoned <;> simp_all [step, accept]
    have ih := writes_stuck max ws s h
    constructor
    · simp only [List.map_cons, run_cons, hstep.1, ih.1]
    · have := ih.2
      simp only [delivered] at this ⊢
      simp only [List.map_cons, trace_cons, hstep.1, List.flatMap_cons, this]
      simp [toEv, hstep.2]

/-! ### the oracle's per-call clauses imply its global form -/

theorem checkEv_recv (max : Nat) (st : St) (e : Ev) (h : checkEv max st e = none) :
    e.recv = (if !st.closed && e.kind = .flush && !st.dirty && e.err = .nil && e.env ≠ .sinkDown then [st.cur] else []) := by
  obtain ⟨cur, dirty, closed⟩ := st
  obtain ⟨kind, arg, env, n, err, recv⟩ := e
  unfold checkEv at h
  split at h
  · cases h
  · cases closed <;> cases kind <;> cases dirty <;> simp at h ⊢ <;>
      (repeat' split at h) <;> simp_all

theorem checkFrom_messages (max : Nat) : ∀ (evs : List Ev) (st : St), checkFrom max st evs = none →
    evs.flatMap (·.recv) = messagesFrom st evs
  | [], _, _ => rfl
  | e :: es, st, h => by
    simp only [checkFrom] at h
    split at h
    · cases h
    · rename_i hev
      have ih := checkFrom_messages max es (next st e) h
      have hr := checkEv_recv max st e hev
      simp only [List.flatMap_cons, messagesFrom, ih]
      rw [hr]
      split <;> simp_all

/-! ### the emission layer -/
open Tally.M3Batch

theorem wue_fit (max : Nat) : ∀ (cs : List Bytes) (s : T), s.closed = false → s.poisoned = false →
    s.buf.length + (cs.map List.length).sum ≤ max → writesUntilError max s cs = cs.map Op.write
  | [], _, _, _, _ => rfl
  | c :: cs, s, hc, hp, hfit => by
    simp only [List.map_cons, List.sum_cons] at hfit
    have hnot : ¬ (s.buf.length + c.length > max) := by omega
    have hacc : accept max s c = ({ s with buf := s.buf ++ c }, { n := c.length }) := by
      simp [accept, hc, hp, hnot]
    simp only [writesUntilError, hacc, List.map_cons]
    have ih := wue_fit max cs { s with buf := s.buf ++ c } hc hp (by simp; omega)
    simp [ih]

theorem wue_overflow (max : Nat) : ∀ (cs : List Bytes) (s : T), s.closed = false → s.poisoned = false →
    s.buf.length ≤ max → s.buf.length + (cs.map List.length).sum > max →
    (run max s (writesUntilError max s cs)).1.poisoned = true
    ∧ (run max s (writesUntilError max s cs)).1.closed = false
    ∧ delivered max s (writesUntilError max s cs) = []
  | [], s, _, _, hle, hbig => by simp at hbig; omega
  | c :: cs, s, hc, hp, hle, hbig => by
    simp only [List.map_cons, List.sum_cons] at hbig
    by_cases hfit : s.buf.length + c.length > max
    · have hacc : accept max s c = ({ s with poisoned := true }, { err := .tooLarge }) := by
        simp [accept, hc, hfit]
      simp [writesUntilError, hacc, run, step, delivered, trace, toEv, hc]
    · have hacc : accept max s c = ({ s with buf := s.buf ++ c }, { n := c.length }) := by
        simp [accept, hc, hp, hfit]
      have ih := wue_overflow max cs { s with buf := s.buf ++ c } hc hp (by simp; omega) (by simp; omega)
      have hstep : step max s (.write c) = ({ s with buf := s.buf ++ c }, { n := c.length }) := by
        simp [step, hacc]
      simp only [writesUntilError, hacc]
      simp only [show ((({ n := c.length } : Res).err ≠ Err.nil) = False) by simp, if_false, run_cons, hstep]
      refine ⟨ih.1, ih.2.1, ?_⟩
      have := ih.2.2
      simp only [delivered, trace_cons, hstep, List.flatMap_cons] at this ⊢
      rw [this]; simp [toEv]

/-- one batch through a clean, empty, open transport: the transport is clean, empty and open
again afterwards, and the sink gets the batch iff it fits and the send succeeds -/
theorem emit_clean (max : Nat) (s : T) (b : Batch) (hc : s.closed = false) (hp : s.poisoned = false) (hb : s.buf = []) :
    (run max s (emitOps max s b)).1 = s
    ∧ delivered max s (emitOps max s b) = (if b.size ≤ max ∧ b.sock = .ok then [b.bytes] else []) := by
  obtain ⟨buf, closed, poisoned⟩ := s
  simp only at hc hp hb; subst hc hp hb
  by_cases hfit : b.size ≤ max
  · have hw := wue_fit max b.chunks { buf := [], closed := false, poisoned := false } rfl rfl (by simpa [Batch.size] using hfit)
    have hr := writes_fit max b.chunks { buf := [], closed := false, poisoned := false } rfl rfl (by simpa [Batch.size] using hfit)
    simp only [emitOps, hw, run_append, delivered_append, hr.1, hr.2]
    cases hs : b.sock <;> simp [run, step, Udp.flush, delivered, trace, toEv, hfit, Batch.bytes]
  · have ho := wue_overflow max b.chunks { buf := [], closed := false, poisoned := false } rfl rfl (Nat.zero_le _)
      (by simp [Batch.size] at hfit; simpa using hfit)
    generalize hs1 : (run max { buf := [], closed := false, poisoned := false } (writesUntilError max { buf := [], closed := false, poisoned := false } b.chunks)).1 = s1 at ho
    obtain ⟨buf1, closed1, poisoned1⟩ := s1
    obtain ⟨h1, h2, h3⟩ := ho
    simp only at h1 h2; subst h1 h2
    simp only [emitOps, run_append, delivered_append, hs1, h3]
    simp [run, step, Udp.flush, delivered, trace, toEv, hfit]

end Tally.UdpLemmas
