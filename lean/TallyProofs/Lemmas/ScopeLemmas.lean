import Tally.Model.Scope
import TallyProofs.Lemmas.CanonLemmas
import TallyProofs.Lemmas.ScopeSanLemmas
/-!
# Helper lemmas for C04 / C05 on the scope model.  Core Lean only.

Every operation of the model is a composition of a few *primitive transitions* (`Prim`):
metric updates inside one scope, closing a scope, removing registry entries of a closed scope,
adding an alias entry, creating a registered scope, the purge of the root `Close`.
Each invariant is proved once per primitive; `step_prims` shows once that every `step` is such a
composition.  The semantic side conditions of the primitives (key of the entry is the key of the
scope's identity, …) are only required under the flag `sem`, which is instantiated with
"no sanitizer is configured"; with `sem := False` the decomposition is unconditional, which gives the
cfg-independent theorems (identity of a scope never changes, metric ids are fresh).

A second flag `semD` carries the side conditions of the *generalised* registry invariant `InvD`
(sanitizer-aware: an entry is the identity key of its scope or a raw alias key, every tag map is
canonical and sanitizer-fixed); it is instantiated with "every `Tagged` map keeps its sanitized keys
distinct".
-/
namespace Tally.Scope
open Tally Tally.KeyGen

def runOps (st : St) : List Op → St := fun ops => ops.foldl (fun s op => (step s op).1) st

/-- states reachable from a root by any program -/
def Reach (cfg : Cfg) (pfx sep : Bytes) (tags : TagMap) (st : St) : Prop :=
  ∃ ops, st = runOps (mkRoot cfg pfx sep tags) ops

theorem runOps_nil (st : St) : runOps st [] = st := rfl
theorem runOps_cons (st : St) (op : Op) (ops : List Op) :
    runOps st (op :: ops) = runOps (step st op).1 ops := rfl
theorem runOps_append (st : St) (a b : List Op) : runOps st (a ++ b) = runOps (runOps st a) b := by
  simp [runOps, List.foldl_append]

theorem Reach.root (cfg : Cfg) (pfx sep : Bytes) (tags : TagMap) :
    Reach cfg pfx sep tags (mkRoot cfg pfx sep tags) := ⟨[], rfl⟩

theorem Reach.run {cfg : Cfg} {pfx sep : Bytes} {tags : TagMap} {st : St}
    (h : Reach cfg pfx sep tags st) (ops : List Op) : Reach cfg pfx sep tags (runOps st ops) := by
  obtain ⟨o, rfl⟩ := h
  exact ⟨o ++ ops, (runOps_append _ _ _).symm⟩

theorem Reach.step {cfg : Cfg} {pfx sep : Bytes} {tags : TagMap} {st : St}
    (h : Reach cfg pfx sep tags st) (op : Op) : Reach cfg pfx sep tags (step st op).1 :=
  h.run [op]

/-! ## scope access -/

@[simp] theorem getScope_regRemove (st : St) (sh : Nat) (k : Bytes) (sid j : Nat) :
    getScope (regRemove st sh k sid) j = getScope st j := rfl

theorem regAdd_scopes (st : St) (sh : Nat) (k : Bytes) (sid : Nat) :
    (regAdd st sh k sid).scopes = st.scopes := by
  unfold regAdd; split <;> rfl

@[simp] theorem getScope_regAdd (st : St) (sh : Nat) (k : Bytes) (sid j : Nat) :
    getScope (regAdd st sh k sid) j = getScope st j := by
  unfold getScope; rw [regAdd_scopes]

theorem getScope_lt {st : St} {i : Nat} {s : ScopeS} (h : getScope st i = some s) :
    i < st.scopes.length := by
  unfold getScope at h
  exact (List.getElem?_eq_some_iff.mp h).1

theorem getScope_setScope (st : St) (i j : Nat) (s : ScopeS) :
    getScope (setScope st i s) j
      = if i = j then (if i < st.scopes.length then some s else none) else getScope st j := by
  simp [getScope, setScope, List.getElem?_set]

theorem getScope_setScope_self {st : St} {i : Nat} {s0 : ScopeS} (h : getScope st i = some s0)
    (s : ScopeS) : getScope (setScope st i s) i = some s := by
  rw [getScope_setScope, if_pos rfl, if_pos (getScope_lt h)]

theorem getScope_setScope_ne (st : St) {i j : Nat} (h : i ≠ j) (s : ScopeS) :
    getScope (setScope st i s) j = getScope st j := by
  rw [getScope_setScope, if_neg h]

@[simp] theorem setScope_reg (st : St) (i : Nat) (s : ScopeS) : (setScope st i s).reg = st.reg := rfl
@[simp] theorem setScope_cfg (st : St) (i : Nat) (s : ScopeS) : (setScope st i s).cfg = st.cfg := rfl
@[simp] theorem setScope_sep (st : St) (i : Nat) (s : ScopeS) : (setScope st i s).sep = st.sep := rfl
@[simp] theorem regRemove_cfg (st : St) (sh : Nat) (k : Bytes) (sid : Nat) :
    (regRemove st sh k sid).cfg = st.cfg := rfl
@[simp] theorem regRemove_sep (st : St) (sh : Nat) (k : Bytes) (sid : Nat) :
    (regRemove st sh k sid).sep = st.sep := rfl
@[simp] theorem regAdd_cfg (st : St) (sh : Nat) (k : Bytes) (sid : Nat) :
    (regAdd st sh k sid).cfg = st.cfg := by unfold regAdd; split <;> rfl
@[simp] theorem regAdd_sep (st : St) (sh : Nat) (k : Bytes) (sid : Nat) :
    (regAdd st sh k sid).sep = st.sep := by unfold regAdd; split <;> rfl
@[simp] theorem regAdd_rootClosed (st : St) (sh : Nat) (k : Bytes) (sid : Nat) :
    (regAdd st sh k sid).rootClosed = st.rootClosed := by unfold regAdd; split <;> rfl
@[simp] theorem regAdd_nextMetric (st : St) (sh : Nat) (k : Bytes) (sid : Nat) :
    (regAdd st sh k sid).nextMetric = st.nextMetric := by unfold regAdd; split <;> rfl
@[simp] theorem regAdd_timers (st : St) (sh : Nat) (k : Bytes) (sid : Nat) :
    (regAdd st sh k sid).timers = st.timers := by unfold regAdd; split <;> rfl

theorem getScope_append_old {st : St} {i : Nat} {s : ScopeS} (ns : ScopeS)
    (h : getScope st i = some s) :
    getScope { st with scopes := st.scopes ++ [ns] } i = some s := by
  have hl := getScope_lt h
  unfold getScope at *
  simp only [List.getElem?_append, if_pos hl]
  exact h

theorem getScope_append_new (st : St) (ns : ScopeS) :
    getScope { st with scopes := st.scopes ++ [ns] } st.scopes.length = some ns := by
  simp [getScope]

theorem getScope_append_cases {st : St} {i : Nat} {s : ScopeS} (ns : ScopeS)
    (h : getScope { st with scopes := st.scopes ++ [ns] } i = some s) :
    getScope st i = some s ∨ (i = st.scopes.length ∧ s = ns) := by
  unfold getScope at *
  simp only [List.getElem?_append] at h
  split at h
  · exact .inl h
  · next hl =>
    right
    have : i - st.scopes.length = 0 := by
      cases hi : i - st.scopes.length with
      | zero => rfl
      | succ n => rw [hi] at h; simp at h
    rw [this] at h
    simp at h
    exact ⟨by omega, h.symm⟩

/-! ## metric signatures -/

/-- what identifies a metric inside its scope: id, kind, name -/
def msig (x : Nat × Metric) : Nat × String × Bytes := (x.1, metricKind x.2, metricName x.2)
def sigs (s : ScopeS) : List (Nat × String × Bytes) := s.metrics.map msig
def ids (s : ScopeS) : List Nat := s.metrics.map (·.1)

theorem ids_eq_sigs (s : ScopeS) : ids s = (sigs s).map (·.1) := by
  simp [ids, sigs, msig, Function.comp_def]

theorem mem_ids_of_sublist {s s' : ScopeS} (h : (sigs s').Sublist (sigs s)) {i : Nat}
    (hi : i ∈ ids s') : i ∈ ids s := by
  rw [ids_eq_sigs] at *
  exact (h.map _).subset hi

/-! ## `purgeFrom`: the purge of the root `Close` touches registered scopes only -/

theorem purgeFrom_getElem? (regd : List Nat) : ∀ (l : List ScopeS) (i j : Nat),
    (purgeFrom regd i l)[j]? = l[j]?.map fun x =>
      if regd.contains (i + j) then { x with closed := true, metrics := [] } else x
  | [], _, _ => by simp [purgeFrom]
  | x :: xs, i, 0 => by simp [purgeFrom]
  | x :: xs, i, j + 1 => by
    simp only [purgeFrom, List.getElem?_cons_succ]
    rw [purgeFrom_getElem? regd xs (i + 1) j]
    have : i + 1 + j = i + (j + 1) := by omega
    rw [this]

theorem purgeFrom_length (regd : List Nat) : ∀ (l : List ScopeS) (i : Nat),
    (purgeFrom regd i l).length = l.length
  | [], _ => rfl
  | x :: xs, i => by simp [purgeFrom, purgeFrom_length regd xs (i + 1)]

theorem purgeFrom_ids_sublist (regd : List Nat) : ∀ (l : List ScopeS) (i : Nat),
    ((purgeFrom regd i l).flatMap ids).Sublist (l.flatMap ids)
  | [], _ => by simp [purgeFrom]
  | x :: xs, i => by
    simp only [purgeFrom, List.flatMap_cons]
    refine List.Sublist.append ?_ (purgeFrom_ids_sublist regd xs (i + 1))
    split
    · simp [ids]
    · exact List.Sublist.refl _

/-- the state after the purge -/
def purgeSt (st : St) (b : Bool) : St :=
  { st with reg := [],
            scopes := purgeFrom (st.reg.map fun (e : (Nat × Bytes) × Nat) => e.2) 0 st.scopes,
            reporterClosed := b }

/-- a scope after the purge: the old scope, closed and cleared iff its id was registered -/
theorem getScope_purgeSt {st : St} {b : Bool} {j : Nat} {s' : ScopeS}
    (h : getScope (purgeSt st b) j = some s') :
    ∃ x, getScope st j = some x ∧
      ((s' = { x with closed := true, metrics := [] } ∧ j ∈ st.reg.map (fun e => e.2)) ∨
       (s' = x ∧ j ∉ st.reg.map (fun e => e.2))) := by
  unfold getScope purgeSt at h
  simp only [purgeFrom_getElem?, Option.map_eq_some_iff, Nat.zero_add] at h
  obtain ⟨x, hx, rfl⟩ := h
  refine ⟨x, hx, ?_⟩
  by_cases hc : j ∈ st.reg.map (fun e => e.2)
  · left
    have : (st.reg.map fun (e : (Nat × Bytes) × Nat) => e.2).contains j = true := by
      simpa using hc
    exact ⟨by rw [if_pos this], hc⟩
  · right
    have : (st.reg.map fun (e : (Nat × Bytes) × Nat) => e.2).contains j = false := by
      simpa using hc
    exact ⟨by rw [this]; rfl, hc⟩

theorem getScope_purgeSt_of_some {st : St} (b : Bool) {j : Nat} {x : ScopeS}
    (h : getScope st j = some x) :
    ∃ s', getScope (purgeSt st b) j = some s' ∧
      (s' = { x with closed := true, metrics := [] } ∨ s' = x) := by
  unfold getScope purgeSt at *
  simp only [purgeFrom_getElem?, h, Option.map_some, Nat.zero_add]
  split
  · exact ⟨_, rfl, .inl rfl⟩
  · exact ⟨_, rfl, .inr rfl⟩

/-! ## primitive transitions -/

inductive Prim (sem semD : Prop) (ok : Bytes → Nat → Prop) : St → St → Prop
  | setMetrics (st : St) (sid : Nat) (s : ScopeS) (ms : List (Nat × Metric)) :
      getScope st sid = some s →
      (ms.map msig).Sublist (s.metrics.map msig) →
      (s.closed = false → ms.map msig = s.metrics.map msig) →
      Prim sem semD ok st (setScope st sid { s with metrics := ms })
  | addMetric (st : St) (sid : Nat) (s : ScopeS) (m : Metric) :
      getScope st sid = some s →
      Prim sem semD ok st
        { setScope st sid { s with metrics := s.metrics ++ [(st.nextMetric, m)] } with
          nextMetric := st.nextMetric + 1 }
  | setTimers (st : St) (t : List (Nat × (Bytes × TagMap))) :
      (∀ id v, st.timers.lookup id = some v → t.lookup id = some v) →
      (∀ id nm tg, (id, (nm, tg)) ∈ t → (id, (nm, tg)) ∈ st.timers ∨
        ∃ sid sc n, getScope st sid = some sc ∧ nm = fqn st.sep sc.pfx (sanName st.cfg n) ∧ tg = sc.tags) →
      Prim sem semD ok st { st with timers := t }
  | closeScope (st : St) (sid : Nat) (s : ScopeS) :
      getScope st sid = some s → Prim sem semD ok st (setScope st sid { s with closed := true })
  | regRemove (st : St) (sh : Nat) (k : Bytes) (sid : Nat) (s : ScopeS) :
      getScope st sid = some s → s.closed = true → Prim sem semD ok st (regRemove st sh k sid)
  | regAdd (st : St) (sh : Nat) (k : Bytes) (sid : Nat) (s : ScopeS) :
      getScope st sid = some s → (sem → k = key s.pfx [s.tags]) → (semD → ScopeKey st.cfg k s) →
      Prim sem semD ok st (regAdd st sh k sid)
  | create (st : St) (sh : Nat) (k : Bytes) (ns : ScopeS) :
      ns.closed = false → ns.isRoot = false → ns.metrics = [] →
      (sem → Canonical ns.tags ∧ k = key ns.pfx [ns.tags] ∧ st.reg.lookup (sh, k) = none ∧ ok k sh) →
      (semD → Canonical ns.tags ∧ FixedTags st.cfg ns.tags ∧ ScopeKey st.cfg k ns) →
      Prim sem semD ok st (regAdd { st with scopes := st.scopes ++ [ns] } sh k st.scopes.length)
  | rootClosed (st : St) : Prim sem semD ok st { st with rootClosed := true }
  | purge (st : St) (b : Bool) : Prim sem semD ok st (purgeSt st b)

inductive Prims (sem semD : Prop) (ok : Bytes → Nat → Prop) : St → St → Prop
  | refl (st : St) : Prims sem semD ok st st
  | one {st st' : St} : Prim sem semD ok st st' → Prims sem semD ok st st'
  | trans {a b c : St} : Prims sem semD ok a b → Prims sem semD ok b c → Prims sem semD ok a c

theorem Prims.of_eq {sem semD : Prop} {ok : Bytes → Nat → Prop} {a b : St} (h : a = b) :
    Prims sem semD ok a b := h ▸ Prims.refl a

theorem Prims.tail {sem semD : Prop} {ok : Bytes → Nat → Prop} {a b c : St}
    (h : Prims sem semD ok a b) (p : Prim sem semD ok b c) : Prims sem semD ok a c := h.trans (.one p)

/-! ## `Ext`: what no transition ever changes -/

structure Ext (st st' : St) : Prop where
  cfg : st'.cfg = st.cfg
  sep : st'.sep = st.sep
  len : st.scopes.length ≤ st'.scopes.length
  scope : ∀ sid s, getScope st sid = some s → ∃ s', getScope st' sid = some s' ∧
    s'.pfx = s.pfx ∧ s'.tags = s.tags ∧ s'.isRoot = s.isRoot ∧ (s.closed = true → s'.closed = true) ∧
    (s'.closed = false → sigs s <+: sigs s')
  rootClosed : st.rootClosed = true → st'.rootClosed = true
  next : st.nextMetric ≤ st'.nextMetric
  noMigrate : ∀ i, i < st.nextMetric → ∀ sid s', getScope st' sid = some s' → i ∈ ids s' →
    ∃ s, getScope st sid = some s ∧ i ∈ ids s
  timers : ∀ id v, st.timers.lookup id = some v → st'.timers.lookup id = some v

theorem Ext.refl (st : St) : Ext st st where
  cfg := rfl
  sep := rfl
  len := Nat.le_refl _
  scope := fun _ s h => ⟨s, h, rfl, rfl, rfl, id, fun _ => List.prefix_refl _⟩
  rootClosed := id
  next := Nat.le_refl _
  noMigrate := fun _ _ _ s' h hi => ⟨s', h, hi⟩
  timers := fun _ _ h => h

theorem Ext.trans {a b c : St} (h1 : Ext a b) (h2 : Ext b c) : Ext a c where
  cfg := h2.cfg.trans h1.cfg
  sep := h2.sep.trans h1.sep
  len := Nat.le_trans h1.len h2.len
  scope := by
    intro sid s h
    obtain ⟨s', g1, p1, t1, r1, c1, m1⟩ := h1.scope sid s h
    obtain ⟨s'', g2, p2, t2, r2, c2, m2⟩ := h2.scope sid s' g1
    refine ⟨s'', g2, p2.trans p1, t2.trans t1, r2.trans r1, fun x => c2 (c1 x), ?_⟩
    intro hc
    have hc' : s'.closed = false := by
      cases e : s'.closed with
      | false => rfl
      | true => rw [c2 e] at hc; cases hc
    exact (m1 hc').trans (m2 hc)
  rootClosed := fun x => h2.rootClosed (h1.rootClosed x)
  next := Nat.le_trans h1.next h2.next
  noMigrate := by
    intro i hi sid s'' g hm
    obtain ⟨s', g1, hm1⟩ := h2.noMigrate i (Nat.lt_of_lt_of_le hi h1.next) sid s'' g hm
    exact h1.noMigrate i hi sid s' g1 hm1
  timers := fun id v h => h2.timers id v (h1.timers id v h)

/-- replacing one scope by a scope with the same identity -/
theorem ext_setScope {st : St} {sid : Nat} {s : ScopeS} (h : getScope st sid = some s) (s' : ScopeS)
    (n : Nat) (hn : st.nextMetric ≤ n)
    (hp : s'.pfx = s.pfx) (ht : s'.tags = s.tags) (hr : s'.isRoot = s.isRoot)
    (hc : s.closed = true → s'.closed = true) (hs : s'.closed = false → sigs s <+: sigs s')
    (hi : ∀ i, i ∈ ids s' → i ∈ ids s ∨ st.nextMetric ≤ i) :
    Ext st { setScope st sid s' with nextMetric := n } where
  cfg := rfl
  sep := rfl
  len := by simp [setScope]
  scope := by
    intro j sj hj
    by_cases e : sid = j
    · subst e
      rw [h] at hj
      cases hj
      exact ⟨s', getScope_setScope_self h s', hp, ht, hr, hc, hs⟩
    · refine ⟨sj, ?_, rfl, rfl, rfl, id, fun _ => List.prefix_refl _⟩
      show getScope (setScope st sid s') j = some sj
      rw [getScope_setScope_ne st e]
      exact hj
  rootClosed := id
  next := hn
  noMigrate := by
    intro i hi' j sj hj hm
    have hj : getScope (setScope st sid s') j = some sj := hj
    by_cases e : sid = j
    · subst e
      rw [getScope_setScope_self h] at hj
      cases hj
      rcases hi i hm with h1 | h1
      · exact ⟨s, h, h1⟩
      · omega
    · rw [getScope_setScope_ne st e] at hj
      exact ⟨sj, hj, hm⟩
  timers := fun _ _ h => h

/-- a change of registry, timers and flags only -/
theorem ext_same_scopes {st st' : St} (hc : st'.cfg = st.cfg) (hs : st'.sep = st.sep)
    (hsc : st'.scopes = st.scopes) (hr : st.rootClosed = true → st'.rootClosed = true)
    (hn : st'.nextMetric = st.nextMetric)
    (ht : ∀ id v, st.timers.lookup id = some v → st'.timers.lookup id = some v) : Ext st st' where
  cfg := hc
  sep := hs
  len := by rw [hsc]; exact Nat.le_refl _
  scope := by
    intro sid s h
    refine ⟨s, ?_, rfl, rfl, rfl, id, fun _ => List.prefix_refl _⟩
    unfold getScope at *
    rw [hsc]; exact h
  rootClosed := hr
  next := by rw [hn]; exact Nat.le_refl _
  noMigrate := by
    intro i _ sid s' h hm
    refine ⟨s', ?_, hm⟩
    unfold getScope at *
    rw [← hsc]; exact h
  timers := ht

theorem ext_append (st : St) (ns : ScopeS) (hm : ns.metrics = []) :
    Ext st { st with scopes := st.scopes ++ [ns] } where
  cfg := rfl
  sep := rfl
  len := by simp
  scope := fun sid s h =>
    ⟨s, getScope_append_old ns h, rfl, rfl, rfl, id, fun _ => List.prefix_refl _⟩
  rootClosed := id
  next := Nat.le_refl _
  noMigrate := by
    intro i _ sid s' h hi
    rcases getScope_append_cases ns h with h1 | ⟨_, rfl⟩
    · exact ⟨s', h1, hi⟩
    · simp [ids, hm] at hi
  timers := fun _ _ h => h

theorem prim_ext {sem semD : Prop} {ok : Bytes → Nat → Prop} {st st' : St} (h : Prim sem semD ok st st') :
    Ext st st' := by
  cases h with
  | setMetrics sid s ms hg hsub heq =>
    refine ext_setScope hg _ st.nextMetric (Nat.le_refl _) rfl rfl rfl id ?_ ?_
    · intro hc
      have : sigs { s with metrics := ms } = sigs s := heq hc
      rw [this]; exact List.prefix_refl _
    · intro i hi
      exact .inl (mem_ids_of_sublist (s' := { s with metrics := ms }) hsub hi)
  | addMetric sid s m hg =>
    refine ext_setScope hg _ (st.nextMetric + 1) (Nat.le_succ _) rfl rfl rfl id ?_ ?_
    · intro _
      simp [sigs]
    · intro i hi
      simp only [ids, List.map_append, List.mem_append, List.map_cons, List.map_nil,
        List.mem_singleton] at hi
      rcases hi with h1 | h1
      · exact .inl h1
      · exact .inr (by omega)
  | setTimers t h1 h2 => exact ext_same_scopes rfl rfl rfl id rfl h1
  | closeScope sid s hg =>
    refine ext_setScope hg _ st.nextMetric (Nat.le_refl _) rfl rfl rfl (fun _ => rfl) ?_ ?_
    · intro hc; cases hc
    · intro i hi; exact .inl hi
  | regRemove sh k sid s hg hc => exact ext_same_scopes rfl rfl rfl id rfl (fun _ _ h => h)
  | regAdd sh k sid s hg hk =>
    exact ext_same_scopes (by simp) (by simp) (regAdd_scopes _ _ _ _) (by simp) (by simp)
      (fun _ _ h => by simpa using h)
  | create sh k ns hc hr hm hsem =>
    exact (ext_append st ns hm).trans
      (ext_same_scopes (by simp) (by simp) (regAdd_scopes _ _ _ _) (by simp) (by simp)
        (fun _ _ h => by simpa using h))
  | rootClosed => exact ext_same_scopes rfl rfl rfl (fun _ => rfl) rfl (fun _ _ h => h)
  | purge b =>
    refine ⟨rfl, rfl, by simp [purgeSt, purgeFrom_length], ?_, id, Nat.le_refl _, ?_, fun _ _ h => h⟩
    · intro sid s h
      obtain ⟨s', hs', hc | hc⟩ := getScope_purgeSt_of_some b h
      · subst hc
        exact ⟨_, hs', rfl, rfl, rfl, fun _ => rfl, fun hc => by cases hc⟩
      · subst hc
        exact ⟨_, hs', rfl, rfl, rfl, id, fun _ => List.prefix_refl _⟩
    · intro i _ sid s' h hi
      obtain ⟨x, hx, ⟨rfl, _⟩ | ⟨rfl, _⟩⟩ := getScope_purgeSt h
      · simp [ids] at hi
      · exact ⟨_, hx, hi⟩

theorem prims_ext {sem semD : Prop} {ok : Bytes → Nat → Prop} {st st' : St} (h : Prims sem semD ok st st') :
    Ext st st' := by
  induction h with
  | refl st => exact Ext.refl st
  | one p => exact prim_ext p
  | trans _ _ ih1 ih2 => exact ih1.trans ih2

/-! ## association-list look-ups -/

theorem lookup_append_of_some {α β : Type} [BEq α] {l : List (α × β)} {a : α} {b : β}
    (h : l.lookup a = some b) (l' : List (α × β)) : (l ++ l').lookup a = some b := by
  rw [List.lookup_append, h]; rfl

theorem lookup_append_of_none {α β : Type} [BEq α] [LawfulBEq α] {l : List (α × β)} {a : α}
    (h : l.lookup a = none) (b : β) : (l ++ [(a, b)]).lookup a = some b := by
  rw [List.lookup_append, h]; simp

/-- removing entries that point to another id does not change a successful look-up -/
theorem lookup_filter_ne {α : Type} [BEq α] [LawfulBEq α] : ∀ (l : List (α × Nat)) (a a' : α)
    (sid sid' : Nat), sid ≠ sid' → l.lookup a = some sid →
    (l.filter fun e => !(e.1 == a' && e.2 == sid')).lookup a = some sid
  | [], _, _, _, _, _, h => by cases h
  | (k0, v0) :: l, a, a', sid, sid', hne, h => by
    rw [List.lookup_cons] at h
    rw [List.filter_cons]
    cases hk : a == k0
    · rw [hk] at h
      have ih := lookup_filter_ne l a a' sid sid' hne h
      cases hp : (!((k0, v0).1 == a' && (k0, v0).2 == sid'))
      · rw [if_neg (by simp)]; exact ih
      · rw [if_pos rfl, List.lookup_cons, hk]; exact ih
    · rw [hk] at h
      cases h
      have : (!((k0, v0).1 == a' && (k0, v0).2 == sid')) = true := by simp [hne]
      rw [if_pos this, List.lookup_cons, hk]

/-- with distinct keys, removing the entry of a key makes its look-up fail -/
theorem lookup_filter_self {α : Type} [BEq α] [LawfulBEq α] (l : List (α × Nat)) (a : α) (sid : Nat)
    (hn : (l.map (·.1)).Nodup) (h : l.lookup a = some sid) :
    (l.filter fun e => !(e.1 == a && e.2 == sid)).lookup a = none := by
  rw [lookup_none_iff_not_mem_keys]
  intro hm
  obtain ⟨⟨k', v'⟩, hp, e⟩ := List.mem_map.mp hm
  simp only at e
  subst e
  obtain ⟨hp1, hp2⟩ := List.mem_filter.mp hp
  have := lookup_of_mem_nodup hn hp1
  rw [h] at this
  cases this
  simp at hp2

theorem lookup_filter_none {α : Type} [BEq α] [LawfulBEq α] (l : List (α × Nat)) (a : α)
    (p : α × Nat → Bool) (h : l.lookup a = none) : (l.filter p).lookup a = none := by
  rw [lookup_none_iff_not_mem_keys] at *
  intro hm
  obtain ⟨x, hx, e⟩ := List.mem_map.mp hm
  exact h (List.mem_map.mpr ⟨x, (List.mem_filter.mp hx).1, e⟩)

theorem nodup_keys_filter {α β : Type} (l : List (α × β)) (p : α × β → Bool)
    (h : (l.map (·.1)).Nodup) : ((l.filter p).map (·.1)).Nodup :=
  List.Nodup.sublist (List.filter_sublist.map _) h

/-! ## registry updates -/

theorem regRemove_reg (st : St) (sh : Nat) (k : Bytes) (sid : Nat) :
    (regRemove st sh k sid).reg = st.reg.filter fun e => !(e.1 == (sh, k) && e.2 == sid) := rfl

theorem regAdd_reg_of_none {st : St} {sh : Nat} {k : Bytes} (sid : Nat)
    (h : st.reg.lookup (sh, k) = none) : (regAdd st sh k sid).reg = st.reg ++ [((sh, k), sid)] := by
  unfold regAdd; rw [h]; rfl

theorem regAdd_reg_of_some {st : St} {sh : Nat} {k : Bytes} (sid : Nat) {v : Nat}
    (h : st.reg.lookup (sh, k) = some v) : (regAdd st sh k sid).reg = st.reg := by
  unfold regAdd; rw [h]; rfl

theorem mem_regAdd {st : St} {sh : Nat} {k : Bytes} {sid : Nat} {e : (Nat × Bytes) × Nat}
    (h : e ∈ (regAdd st sh k sid).reg) : e ∈ st.reg ∨ e = ((sh, k), sid) := by
  unfold regAdd at h
  split at h
  · exact .inl h
  · simpa using h

theorem regAdd_lookup_of_some {st : St} {x : Nat × Bytes} {v : Nat} (sh : Nat) (k : Bytes) (sid : Nat)
    (h : st.reg.lookup x = some v) : (regAdd st sh k sid).reg.lookup x = some v := by
  unfold regAdd
  split
  · exact h
  · exact lookup_append_of_some h _

theorem regAdd_nodup {st : St} (sh : Nat) (k : Bytes) (sid : Nat)
    (h : (st.reg.map (·.1)).Nodup) : ((regAdd st sh k sid).reg.map (·.1)).Nodup := by
  cases hl : st.reg.lookup (sh, k) with
  | some v => rw [regAdd_reg_of_some sid hl]; exact h
  | none =>
    rw [regAdd_reg_of_none sid hl, List.map_append, List.nodup_append]
    refine ⟨h, by simp, ?_⟩
    intro a ha b hb
    simp only [List.map_cons, List.map_nil, List.mem_singleton] at hb
    subst hb
    rintro rfl
    exact (lookup_none_iff_not_mem_keys _ _).mp hl ha

/-! ## the registry invariant -/

/-- every registry entry points to an existing scope and its key is the key of the scope's identity -/
def RegInv (st : St) : Prop :=
  ∀ sh k sid, ((sh, k), sid) ∈ st.reg → ∃ s, getScope st sid = some s ∧ k = key s.pfx [s.tags]

/-- the tag map of every scope is canonical -/
def CanonInv (st : St) : Prop := ∀ sid s, getScope st sid = some s → Canonical s.tags

/-- no (shard, key) is registered twice -/
def NodupKeys (st : St) : Prop := (st.reg.map (·.1)).Nodup

structure Inv (st : St) : Prop where
  reg : RegInv st
  canon : CanonInv st
  nodup : NodupKeys st

theorem inv_setScope {st st' : St} {sid : Nat} {s : ScopeS} (s' : ScopeS) (hi : Inv st)
    (hg : getScope st sid = some s) (hp : s'.pfx = s.pfx) (ht : s'.tags = s.tags)
    (hr : st'.reg = st.reg) (hs : ∀ j, getScope st' j = getScope (setScope st sid s') j) : Inv st' := by
  refine ⟨?_, ?_, ?_⟩
  · intro sh k j hm
    rw [hr] at hm
    obtain ⟨sj, hj, hk⟩ := hi.reg sh k j hm
    by_cases e : sid = j
    · subst e
      rw [hg] at hj; cases hj
      exact ⟨s', by rw [hs, getScope_setScope_self hg], by rw [hp, ht]; exact hk⟩
    · exact ⟨sj, by rw [hs, getScope_setScope_ne st e]; exact hj, hk⟩
  · intro j sj hj
    rw [hs] at hj
    by_cases e : sid = j
    · subst e
      rw [getScope_setScope_self hg] at hj; cases hj
      rw [ht]; exact hi.canon _ _ hg
    · rw [getScope_setScope_ne st e] at hj
      exact hi.canon _ _ hj
  · show (st'.reg.map (·.1)).Nodup
    rw [hr]; exact hi.nodup

theorem inv_same_scopes {st st' : St} (hi : Inv st) (hr : st'.reg = st.reg)
    (hs : st'.scopes = st.scopes) : Inv st' := by
  have hg : ∀ j, getScope st' j = getScope st j := fun j => by unfold getScope; rw [hs]
  refine ⟨?_, ?_, ?_⟩
  · intro sh k j hm
    rw [hr] at hm
    obtain ⟨sj, hj, hk⟩ := hi.reg sh k j hm
    exact ⟨sj, by rw [hg]; exact hj, hk⟩
  · intro j sj hj
    rw [hg] at hj
    exact hi.canon _ _ hj
  · show (st'.reg.map (·.1)).Nodup
    rw [hr]; exact hi.nodup

theorem prim_inv {sem semD : Prop} {ok : Bytes → Nat → Prop} {st st' : St} (hsem : sem)
    (h : Prim sem semD ok st st') (hi : Inv st) : Inv st' := by
  cases h with
  | setMetrics sid s ms hg hsub heq => exact inv_setScope { s with metrics := ms } hi hg rfl rfl rfl (fun _ => rfl)
  | addMetric sid s m hg =>
    exact inv_setScope { s with metrics := s.metrics ++ [(st.nextMetric, m)] } hi hg rfl rfl rfl (fun _ => rfl)
  | setTimers t _ _ => exact inv_same_scopes hi rfl rfl
  | closeScope sid s hg => exact inv_setScope { s with closed := true } hi hg rfl rfl rfl (fun _ => rfl)
  | regRemove sh k sid s hg hc =>
    refine ⟨?_, hi.canon, nodup_keys_filter _ _ hi.nodup⟩
    intro sh' k' j hm
    exact hi.reg sh' k' j (List.mem_filter.mp hm).1
  | regAdd sh k sid s hg hk =>
    refine ⟨?_, ?_, regAdd_nodup _ _ _ hi.nodup⟩
    · intro sh' k' j hm
      rcases mem_regAdd hm with h1 | h1
      · obtain ⟨sj, hj, hk'⟩ := hi.reg sh' k' j h1
        exact ⟨sj, by simpa using hj, hk'⟩
      · cases h1
        exact ⟨s, by simpa using hg, hk hsem⟩
    · intro j sj hj
      exact hi.canon j sj (by simpa using hj)
  | create sh k ns hc hr hm hs =>
    obtain ⟨hcan, hk, hl, _⟩ := hs hsem
    refine ⟨?_, ?_, ?_⟩
    · intro sh' k' j hmem
      rcases mem_regAdd hmem with h1 | h1
      · obtain ⟨sj, hj, hk'⟩ := hi.reg sh' k' j h1
        exact ⟨sj, by rw [getScope_regAdd]; exact getScope_append_old ns hj, hk'⟩
      · cases h1
        exact ⟨ns, by rw [getScope_regAdd]; exact getScope_append_new st ns, hk⟩
    · intro j sj hj
      rw [getScope_regAdd] at hj
      rcases getScope_append_cases ns hj with h1 | ⟨_, rfl⟩
      · exact hi.canon j sj h1
      · exact hcan
    · exact regAdd_nodup _ _ _ hi.nodup
  | rootClosed => exact inv_same_scopes hi rfl rfl
  | purge b =>
    refine ⟨?_, ?_, ?_⟩
    · intro sh k j hm; cases hm
    · intro j sj hj
      obtain ⟨x, hx, ⟨rfl, _⟩ | ⟨rfl, _⟩⟩ := getScope_purgeSt hj
      · exact hi.canon j x hx
      · exact hi.canon j _ hx
    · show (([] : List ((Nat × Bytes) × Nat)).map (·.1)).Nodup
      simp

theorem prims_inv {sem semD : Prop} {ok : Bytes → Nat → Prop} {st st' : St} (hsem : sem)
    (h : Prims sem semD ok st st') : Inv st → Inv st' := by
  induction h with
  | refl st => exact id
  | one p => exact prim_inv hsem p
  | trans _ _ ih1 ih2 => exact fun x => ih2 (ih1 x)

/-! ## the generalised (sanitizer-aware) registry invariant -/

/-- every registry entry points to an existing scope and its key is the key of the scope's identity or a
raw alias key of it (`ScopeKey`: `key s.pfx [ptags, m]` for sanitizer-fixed `ptags` and a map `m` with
distinct sanitized keys such that `s.tags = canon [ptags, sanMap cfg m]`) -/
def RegInvD (st : St) : Prop :=
  ∀ sh k sid, ((sh, k), sid) ∈ st.reg → ∃ s, getScope st sid = some s ∧ ScopeKey st.cfg k s

/-- the tag map of every scope consists of fixed points of the sanitizer -/
def FixedInv (st : St) : Prop := ∀ sid s, getScope st sid = some s → FixedTags st.cfg s.tags

structure InvD (st : St) : Prop where
  reg : RegInvD st
  canon : CanonInv st
  fixed : FixedInv st

/-- a registry hit under `key pfx [pt, m]` is the scope with prefix `pfx` and tags `pt` overlaid by the
sanitized `m` -/
theorem InvD.hit {st : St} (hi : InvD st) {sh sid : Nat} {k : Bytes} {s : ScopeS}
    (hl : st.reg.lookup (sh, k) = some sid) (hg : getScope st sid = some s) {pfx : Bytes} {pt m : TagMap}
    (hpt : FixedTags st.cfg pt) (hm : SanDistinct st.cfg m) (hk : k = key pfx [pt, m]) :
    s.pfx = pfx ∧ s.tags = KeyGen.canon [pt, sanMap st.cfg m] := by
  obtain ⟨s0, hg0, hk0⟩ := hi.reg sh k sid (mem_of_lookup_eq_some hl)
  rw [hg] at hg0; cases hg0
  exact hk0.hit (hi.canon sid s hg) (hi.fixed sid s hg) hpt hm hk

theorem invD_setScope {st st' : St} {sid : Nat} {s : ScopeS} (s' : ScopeS) (hi : InvD st)
    (hg : getScope st sid = some s) (hp : s'.pfx = s.pfx) (ht : s'.tags = s.tags)
    (hr : st'.reg = st.reg) (hc : st'.cfg = st.cfg)
    (hs : ∀ j, getScope st' j = getScope (setScope st sid s') j) : InvD st' := by
  refine ⟨?_, ?_, ?_⟩
  · intro sh k j hm
    rw [hr] at hm
    obtain ⟨sj, hj, hk⟩ := hi.reg sh k j hm
    rw [hc]
    by_cases e : sid = j
    · subst e
      rw [hg] at hj; cases hj
      refine ⟨s', by rw [hs, getScope_setScope_self hg], ?_⟩
      unfold ScopeKey RawAlias at hk ⊢
      rw [hp, ht]; exact hk
    · exact ⟨sj, by rw [hs, getScope_setScope_ne st e]; exact hj, hk⟩
  · intro j sj hj
    rw [hs] at hj
    by_cases e : sid = j
    · subst e
      rw [getScope_setScope_self hg] at hj; cases hj
      rw [ht]; exact hi.canon _ _ hg
    · rw [getScope_setScope_ne st e] at hj
      exact hi.canon _ _ hj
  · intro j sj hj
    rw [hs] at hj
    rw [hc]
    by_cases e : sid = j
    · subst e
      rw [getScope_setScope_self hg] at hj; cases hj
      rw [ht]; exact hi.fixed _ _ hg
    · rw [getScope_setScope_ne st e] at hj
      exact hi.fixed _ _ hj

theorem invD_same_scopes {st st' : St} (hi : InvD st) (hr : st'.reg = st.reg)
    (hs : st'.scopes = st.scopes) (hc : st'.cfg = st.cfg) : InvD st' := by
  have hg : ∀ j, getScope st' j = getScope st j := fun j => by unfold getScope; rw [hs]
  refine ⟨?_, ?_, ?_⟩
  · intro sh k j hm
    rw [hr] at hm
    obtain ⟨sj, hj, hk⟩ := hi.reg sh k j hm
    exact ⟨sj, by rw [hg]; exact hj, by rw [hc]; exact hk⟩
  · intro j sj hj
    rw [hg] at hj
    exact hi.canon _ _ hj
  · intro j sj hj
    rw [hg] at hj
    rw [hc]
    exact hi.fixed _ _ hj

theorem prim_invD {sem semD : Prop} {ok : Bytes → Nat → Prop} {st st' : St} (hsem : semD)
    (h : Prim sem semD ok st st') (hi : InvD st) : InvD st' := by
  cases h with
  | setMetrics sid s ms hg hsub heq =>
    exact invD_setScope { s with metrics := ms } hi hg rfl rfl rfl rfl (fun _ => rfl)
  | addMetric sid s m hg =>
    exact invD_setScope { s with metrics := s.metrics ++ [(st.nextMetric, m)] } hi hg rfl rfl rfl rfl
      (fun _ => rfl)
  | setTimers t _ _ => exact invD_same_scopes hi rfl rfl rfl
  | closeScope sid s hg =>
    exact invD_setScope { s with closed := true } hi hg rfl rfl rfl rfl (fun _ => rfl)
  | regRemove sh k sid s hg hc =>
    refine ⟨?_, hi.canon, hi.fixed⟩
    intro sh' k' j hm
    exact hi.reg sh' k' j (List.mem_filter.mp hm).1
  | regAdd sh k sid s hg hk hkD =>
    refine ⟨?_, ?_, ?_⟩
    · intro sh' k' j hm
      rw [regAdd_cfg]
      rcases mem_regAdd hm with h1 | h1
      · obtain ⟨sj, hj, hk'⟩ := hi.reg sh' k' j h1
        exact ⟨sj, by simpa using hj, hk'⟩
      · cases h1
        exact ⟨s, by simpa using hg, hkD hsem⟩
    · intro j sj hj
      exact hi.canon j sj (by simpa using hj)
    · intro j sj hj
      rw [regAdd_cfg]
      exact hi.fixed j sj (by simpa using hj)
  | create sh k ns hc hr hm hs hsD =>
    obtain ⟨hcan, hfix, hk⟩ := hsD hsem
    refine ⟨?_, ?_, ?_⟩
    · intro sh' k' j hmem
      rw [regAdd_cfg]
      rcases mem_regAdd hmem with h1 | h1
      · obtain ⟨sj, hj, hk'⟩ := hi.reg sh' k' j h1
        exact ⟨sj, by rw [getScope_regAdd]; exact getScope_append_old ns hj, hk'⟩
      · cases h1
        exact ⟨ns, by rw [getScope_regAdd]; exact getScope_append_new st ns, hk⟩
    · intro j sj hj
      rw [getScope_regAdd] at hj
      rcases getScope_append_cases ns hj with h1 | ⟨_, rfl⟩
      · exact hi.canon j sj h1
      · exact hcan
    · intro j sj hj
      rw [getScope_regAdd] at hj
      rw [regAdd_cfg]
      rcases getScope_append_cases ns hj with h1 | ⟨_, rfl⟩
      · exact hi.fixed j sj h1
      · exact hfix
  | rootClosed => exact invD_same_scopes hi rfl rfl rfl
  | purge b =>
    refine ⟨?_, ?_, ?_⟩
    · intro sh k j hm; cases hm
    · intro j sj hj
      obtain ⟨x, hx, ⟨rfl, _⟩ | ⟨rfl, _⟩⟩ := getScope_purgeSt hj
      · exact hi.canon j x hx
      · exact hi.canon j _ hx
    · intro j sj hj
      obtain ⟨x, hx, ⟨rfl, _⟩ | ⟨rfl, _⟩⟩ := getScope_purgeSt hj
      · exact hi.fixed j x hx
      · exact hi.fixed j _ hx

theorem prims_invD {sem semD : Prop} {ok : Bytes → Nat → Prop} {st st' : St} (hsem : semD)
    (h : Prims sem semD ok st st') : InvD st → InvD st' := by
  induction h with
  | refl st => exact id
  | one p => exact prim_invD hsem p
  | trans _ _ ih1 ih2 => exact fun x => ih2 (ih1 x)

/-! ## metric ids are globally fresh -/

def allIds (st : St) : List Nat := st.scopes.flatMap ids

structure MetInv (st : St) : Prop where
  nodup : (allIds st).Nodup
  lt : ∀ i ∈ allIds st, i < st.nextMetric

theorem flatMap_set_perm {α β : Type} (f : α → List β) : ∀ (l : List α) (i : Nat) (a b : α)
    (extra : List β), l[i]? = some a → f b = f a ++ extra →
    ((l.set i b).flatMap f).Perm (l.flatMap f ++ extra)
  | [], i, a, b, extra, h, _ => by simp at h
  | x :: l, 0, a, b, extra, h, hf => by
    simp only [List.getElem?_cons_zero, Option.some.injEq] at h
    subst h
    simp only [List.set_cons_zero, List.flatMap_cons, hf, List.append_assoc]
    exact List.Perm.append_left _ List.perm_append_comm
  | x :: l, i + 1, a, b, extra, h, hf => by
    simp only [List.getElem?_cons_succ] at h
    simp only [List.set_cons_succ, List.flatMap_cons, List.append_assoc]
    exact List.Perm.append_left _ (flatMap_set_perm f l i a b extra h hf)

theorem flatMap_set_sublist {α β : Type} (f : α → List β) : ∀ (l : List α) (i : Nat) (a b : α),
    l[i]? = some a → (f b).Sublist (f a) → ((l.set i b).flatMap f).Sublist (l.flatMap f)
  | [], i, a, b, h, _ => by simp at h
  | x :: l, 0, a, b, h, hf => by
    simp only [List.getElem?_cons_zero, Option.some.injEq] at h
    subst h
    simp only [List.set_cons_zero, List.flatMap_cons]
    exact hf.append (List.Sublist.refl _)
  | x :: l, i + 1, a, b, h, hf => by
    simp only [List.getElem?_cons_succ] at h
    simp only [List.set_cons_succ, List.flatMap_cons]
    exact (List.Sublist.refl _).append (flatMap_set_sublist f l i a b h hf)

theorem mem_allIds {st : St} {i : Nat} : i ∈ allIds st ↔ ∃ sid s, getScope st sid = some s ∧ i ∈ ids s := by
  unfold allIds getScope
  rw [List.mem_flatMap]
  constructor
  · rintro ⟨s, hs, hi⟩
    obtain ⟨sid, h⟩ := List.mem_iff_getElem?.mp hs
    exact ⟨sid, s, h, hi⟩
  · rintro ⟨sid, s, h, hi⟩
    exact ⟨s, List.mem_of_getElem? h, hi⟩

theorem ids_sublist_allIds {st : St} {sid : Nat} {s : ScopeS} (h : getScope st sid = some s) :
    (ids s).Sublist (allIds st) := by
  unfold allIds getScope at *
  rw [List.flatMap_def]
  exact List.sublist_flatten_of_mem (List.mem_map.mpr ⟨s, List.mem_of_getElem? h, rfl⟩)

theorem MetInv.ids_nodup {st : St} (h : MetInv st) {sid : Nat} {s : ScopeS}
    (hg : getScope st sid = some s) : (ids s).Nodup :=
  List.Nodup.sublist (ids_sublist_allIds hg) h.nodup

/-- a metric id lives in at most one scope -/
theorem MetInv.unique {st : St} (h : MetInv st) : ∀ {sid sid' : Nat} {s s' : ScopeS} {i : Nat},
    getScope st sid = some s → getScope st sid' = some s' → i ∈ ids s → i ∈ ids s' → sid = sid' := by
  have key : ∀ (l : List ScopeS), (l.flatMap ids).Nodup → ∀ (a b : Nat) (s s' : ScopeS) (i : Nat),
      l[a]? = some s → l[b]? = some s' → i ∈ ids s → i ∈ ids s' → a = b := by
    intro l
    induction l with
    | nil => intro _ a b s s' i h; simp at h
    | cons x l ih =>
      intro hn a b s s' i ha hb hi hi'
      rw [List.flatMap_cons, List.nodup_append] at hn
      obtain ⟨_, hn2, hn3⟩ := hn
      cases a with
      | zero =>
        cases b with
        | zero => rfl
        | succ b =>
          exfalso
          simp only [List.getElem?_cons_zero, Option.some.injEq] at ha
          simp only [List.getElem?_cons_succ] at hb
          subst ha
          exact hn3 i hi i (List.mem_flatMap.mpr ⟨s', List.mem_of_getElem? hb, hi'⟩) rfl
      | succ a =>
        cases b with
        | zero =>
          exfalso
          simp only [List.getElem?_cons_zero, Option.some.injEq] at hb
          simp only [List.getElem?_cons_succ] at ha
          subst hb
          exact hn3 i hi' i (List.mem_flatMap.mpr ⟨s, List.mem_of_getElem? ha, hi⟩) rfl
        | succ b =>
          simp only [List.getElem?_cons_succ] at ha hb
          rw [ih hn2 a b s s' i ha hb hi hi']
  intro sid sid' s s' i h1 h2 h3 h4
  exact key st.scopes h.nodup sid sid' s s' i h1 h2 h3 h4

theorem metInv_set {st st' : St} {sid : Nat} {s s' : ScopeS} (hi : MetInv st)
    (hg : getScope st sid = some s) (hsc : st'.scopes = st.scopes.set sid s')
    (hsub : (ids s').Sublist (ids s)) (hn : st.nextMetric ≤ st'.nextMetric) : MetInv st' := by
  have hsl : (allIds st').Sublist (allIds st) := by
    unfold allIds; rw [hsc]
    exact flatMap_set_sublist ids st.scopes sid s s' hg hsub
  exact ⟨List.Nodup.sublist hsl hi.nodup, fun i h => Nat.lt_of_lt_of_le (hi.lt i (hsl.subset h)) hn⟩

theorem metInv_same {st st' : St} (hi : MetInv st) (hsc : st'.scopes = st.scopes)
    (hn : st'.nextMetric = st.nextMetric) : MetInv st' := by
  have : allIds st' = allIds st := by unfold allIds; rw [hsc]
  exact ⟨by rw [this]; exact hi.nodup, fun i h => by rw [hn]; rw [this] at h; exact hi.lt i h⟩

theorem allIds_purge (st : St) (b : Bool) : (allIds (purgeSt st b)).Sublist (allIds st) :=
  purgeFrom_ids_sublist _ st.scopes 0

theorem prim_metInv {sem semD : Prop} {ok : Bytes → Nat → Prop} {st st' : St}
    (h : Prim sem semD ok st st') (hi : MetInv st) : MetInv st' := by
  cases h with
  | setMetrics sid s ms hg hsub heq =>
    refine metInv_set (s' := { s with metrics := ms }) hi hg rfl ?_ (Nat.le_refl _)
    rw [ids_eq_sigs, ids_eq_sigs]
    exact hsub.map _
  | addMetric sid s m hg =>
    have hp : (allIds { setScope st sid { s with metrics := s.metrics ++ [(st.nextMetric, m)] } with
        nextMetric := st.nextMetric + 1 }).Perm (allIds st ++ [st.nextMetric]) := by
      unfold allIds
      exact flatMap_set_perm ids st.scopes sid s _ [st.nextMetric] hg (by simp [ids])
    refine ⟨?_, ?_⟩
    · rw [hp.nodup_iff, List.nodup_append]
      refine ⟨hi.nodup, by simp, ?_⟩
      intro a ha b hb
      simp only [List.mem_singleton] at hb
      subst hb
      exact Nat.ne_of_lt (hi.lt a ha)
    · intro i h
      rw [hp.mem_iff, List.mem_append] at h
      show i < st.nextMetric + 1
      rcases h with h | h
      · exact Nat.lt_succ_of_lt (hi.lt i h)
      · simp only [List.mem_singleton] at h; omega
  | setTimers t _ _ => exact metInv_same hi rfl rfl
  | closeScope sid s hg =>
    exact metInv_set (s' := { s with closed := true }) hi hg rfl (List.Sublist.refl _) (Nat.le_refl _)
  | regRemove sh k sid s hg hc => exact metInv_same hi rfl rfl
  | regAdd sh k sid s hg hk => exact metInv_same hi (regAdd_scopes _ _ _ _) (by simp)
  | create sh k ns hc hr hm hs =>
    have : allIds (regAdd { st with scopes := st.scopes ++ [ns] } sh k st.scopes.length) = allIds st := by
      unfold allIds
      rw [regAdd_scopes]
      simp [List.flatMap_append, ids, hm]
    exact ⟨by rw [this]; exact hi.nodup, fun i h => by
      rw [this] at h; simpa using hi.lt i h⟩
  | rootClosed => exact metInv_same hi rfl rfl
  | purge b =>
    have hsl := allIds_purge st b
    exact ⟨List.Nodup.sublist hsl hi.nodup, fun i h => hi.lt i (hsl.subset h)⟩

theorem prims_metInv {sem semD : Prop} {ok : Bytes → Nat → Prop} {st st' : St}
    (h : Prims sem semD ok st st') : MetInv st → MetInv st' := by
  induction h with
  | refl st => exact id
  | one p => exact prim_metInv p
  | trans _ _ ih1 ih2 => exact fun x => ih2 (ih1 x)

/-- with distinct ids an id determines its entry -/
theorem entry_unique {β : Type} {l : List (Nat × β)} (hn : (l.map (·.1)).Nodup) {a : Nat} {b b' : β}
    (h : (a, b) ∈ l) (h' : (a, b') ∈ l) : b = b' := by
  have h1 := lookup_of_mem_nodup hn h
  have h2 := lookup_of_mem_nodup hn h'
  rw [h1] at h2
  exact Option.some.inj h2

/-! ## live scopes stay registered (programs whose shard is a function of the raw key) -/

/-- every live scope is found under the key of its identity: a non-root scope in the shard of
that key, the root in every shard -/
def LiveReg (shardOf : Bytes → Nat) (st : St) : Prop :=
  ∀ sid s, getScope st sid = some s → s.closed = false → ∀ sh,
    (s.isRoot = false → sh = shardOf (key s.pfx [s.tags])) →
    (s.isRoot = true → sh < max st.cfg.shards 1) →
    st.reg.lookup (sh, key s.pfx [s.tags]) = some sid

theorem liveReg_setScope {f : Bytes → Nat} {st st' : St} {sid : Nat} {s : ScopeS} (s' : ScopeS)
    (hl : LiveReg f st) (hg : getScope st sid = some s) (hp : s'.pfx = s.pfx) (ht : s'.tags = s.tags)
    (hr : s'.isRoot = s.isRoot) (hc : s'.closed = false → s.closed = false)
    (hreg : st'.reg = st.reg) (hcfg : st'.cfg = st.cfg)
    (hs : ∀ j, getScope st' j = getScope (setScope st sid s') j) : LiveReg f st' := by
  intro j sj hj hcl sh h1 h2
  rw [hs] at hj
  rw [hreg]
  by_cases e : sid = j
  · subst e
    rw [getScope_setScope_self hg] at hj; cases hj
    rw [hp, ht]
    refine hl sid s hg (hc hcl) sh ?_ ?_
    · intro h; rw [← hp, ← ht]; exact h1 (by rw [hr]; exact h)
    · intro h; rw [← hcfg]; exact h2 (by rw [hr]; exact h)
  · rw [getScope_setScope_ne st e] at hj
    exact hl j sj hj hcl sh h1 (fun h => by rw [← hcfg]; exact h2 h)

theorem liveReg_same {f : Bytes → Nat} {st st' : St} (hl : LiveReg f st) (hreg : st'.reg = st.reg)
    (hcfg : st'.cfg = st.cfg) (hs : st'.scopes = st.scopes) : LiveReg f st' := by
  intro j sj hj hcl sh h1 h2
  have : getScope st j = some sj := by unfold getScope at *; rw [← hs]; exact hj
  rw [hreg]
  exact hl j sj this hcl sh h1 (fun h => by rw [← hcfg]; exact h2 h)

theorem prim_liveReg {sem semD : Prop} {f : Bytes → Nat} {st st' : St} (hsem : sem)
    (h : Prim sem semD (fun k sh => sh = f k) st st') (hl : LiveReg f st) : LiveReg f st' := by
  cases h with
  | setMetrics sid s ms hg hsub heq =>
    exact liveReg_setScope { s with metrics := ms } hl hg rfl rfl rfl id rfl rfl (fun _ => rfl)
  | addMetric sid s m hg =>
    exact liveReg_setScope { s with metrics := s.metrics ++ [(st.nextMetric, m)] } hl hg rfl rfl rfl id
      rfl rfl (fun _ => rfl)
  | setTimers t _ _ => exact liveReg_same hl rfl rfl rfl
  | closeScope sid s hg =>
    exact liveReg_setScope { s with closed := true } hl hg rfl rfl rfl (fun h => by cases h) rfl rfl
      (fun _ => rfl)
  | regRemove sh k sid s hg hc =>
    intro j sj hj hcl sh' h1 h2
    have hj' : getScope st j = some sj := hj
    have hne : j ≠ sid := by
      rintro rfl
      rw [hg] at hj'; cases hj'
      rw [hc] at hcl; cases hcl
    rw [regRemove_reg]
    exact lookup_filter_ne _ _ _ _ _ hne (hl j sj hj' hcl sh' h1 h2)
  | regAdd sh k sid s hg hk =>
    intro j sj hj hcl sh' h1 h2
    rw [getScope_regAdd] at hj
    apply regAdd_lookup_of_some
    exact hl j sj hj hcl sh' h1 (by simpa using h2)
  | create sh k ns hc hr hm hs =>
    obtain ⟨_, hk, hfree, hsh⟩ := hs hsem
    intro j sj hj hcl sh' h1 h2
    rw [getScope_regAdd] at hj
    rcases getScope_append_cases ns hj with hj' | ⟨rfl, rfl⟩
    · apply regAdd_lookup_of_some
      exact hl j sj hj' hcl sh' h1 (by simpa using h2)
    · have e1 := h1 hr
      rw [← hk] at e1 ⊢
      rw [e1, ← hsh]
      have hfree' : ({ st with scopes := st.scopes ++ [sj] } : St).reg.lookup (sh, k) = none := hfree
      rw [regAdd_reg_of_none _ hfree']
      exact lookup_append_of_none hfree _
  | rootClosed => exact liveReg_same hl rfl rfl rfl
  | purge b =>
    intro j sj hj hcl sh h1 h2
    exfalso
    obtain ⟨x, hx, ⟨rfl, _⟩ | ⟨rfl, hnot⟩⟩ := getScope_purgeSt hj
    · cases hcl
    · have := mem_of_lookup_eq_some (hl j _ hx hcl sh h1 h2)
      exact hnot (List.mem_map.mpr ⟨_, this, rfl⟩)

theorem prims_liveReg {sem semD : Prop} {f : Bytes → Nat} {st st' : St} (hsem : sem)
    (h : Prims sem semD (fun k sh => sh = f k) st st') : LiveReg f st → LiveReg f st' := by
  induction h with
  | refl st => exact id
  | one p => exact prim_liveReg hsem p
  | trans _ _ ih1 ih2 => exact fun x => ih2 (ih1 x)

/-! ## timer handles remember the identity of their scope -/

/-- every stored timer handle carries the full name and the tags of an existing scope -/
def TimerInv (st : St) : Prop :=
  ∀ id nm tg, (id, (nm, tg)) ∈ st.timers →
    ∃ sid sc n, getScope st sid = some sc ∧ nm = fqn st.sep sc.pfx (sanName st.cfg n) ∧ tg = sc.tags

theorem timerInv_of_ext {st st' : St} (he : Ext st st') (ht : st'.timers = st.timers)
    (hi : TimerInv st) : TimerInv st' := by
  intro id nm tg hm
  rw [ht] at hm
  obtain ⟨sid, sc, n, hg, h1, h2⟩ := hi id nm tg hm
  obtain ⟨sc', hg', hp, htg, _⟩ := he.scope sid sc hg
  exact ⟨sid, sc', n, hg', by rw [he.sep, he.cfg, hp]; exact h1, by rw [htg]; exact h2⟩

theorem prim_timerInv {sem semD : Prop} {ok : Bytes → Nat → Prop} {st st' : St}
    (h : Prim sem semD ok st st') (hi : TimerInv st) : TimerInv st' := by
  have he := prim_ext h
  cases h with
  | setTimers t h1 h2 =>
    intro id nm tg hm
    rcases h2 id nm tg hm with h | h
    · exact hi id nm tg h
    · exact h
  | setMetrics sid s ms hg hsub heq => exact timerInv_of_ext he rfl hi
  | addMetric sid s m hg => exact timerInv_of_ext he rfl hi
  | closeScope sid s hg => exact timerInv_of_ext he rfl hi
  | regRemove sh k sid s hg hc => exact timerInv_of_ext he rfl hi
  | regAdd sh k sid s hg hk => exact timerInv_of_ext he (by simp) hi
  | create sh k ns hc hr hm hs => exact timerInv_of_ext he (by simp) hi
  | rootClosed => exact timerInv_of_ext he rfl hi
  | purge b => exact timerInv_of_ext he rfl hi

theorem prims_timerInv {sem semD : Prop} {ok : Bytes → Nat → Prop} {st st' : St}
    (h : Prims sem semD ok st st') : TimerInv st → TimerInv st' := by
  induction h with
  | refl st => exact id
  | one p => exact prim_timerInv p
  | trans _ _ ih1 ih2 => exact fun x => ih2 (ih1 x)

end Tally.Scope
