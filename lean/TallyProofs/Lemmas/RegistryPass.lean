import TallyProofs.Lemmas.RegistryLemmas
/-!
# One solo report pass over a shard (for C07 `next_pass_collects`)

Symbolic execution of a complete pass by one thread while every other thread is idle: the explicit event
list (`soloPass`), the fact that the model accepts it, and what it does to a closed registered scope.
-/
namespace Tally.Registry

variable {san : Nat → Nat}

/-! ## the individual steps of a pass, as equations -/
section micro
variable {s : State} {t : Nat}

theorem step_passIter {v : List (Nat × Nat)} {k sid : Nat} {x : ScopeS} (hpc : pcOf s t = .passIter v)
    (hk : (k, sid) ∉ v) (hl : lookup s k = some sid) (hx : scopeOf s sid = some x) :
    step san s (.step t k) = some (setPc s t (.passSwap ((k, sid) :: v) k sid x.closed)) := by
  simp [step, hpc, hk, hl, hx]

theorem step_passSwap {v : List (Nat × Nat)} {k sid c' : Nat} {c : Bool} {x : ScopeS}
    (hpc : pcOf s t = .passSwap v k sid c) (hx : scopeOf s sid = some x) :
    step san s (.step t c') = some (setPc (setScope s sid { x with cell := [] }) t
      (if x.cell.isEmpty then .passAfter v k sid c else .passDeliver v k sid c x.cell)) := by
  simp [step, hpc, hx]

theorem step_passDeliver {v : List (Nat × Nat)} {k sid c' : Nat} {c : Bool} {pd : List Token}
    (hpc : pcOf s t = .passDeliver v k sid c pd) :
    step san s (.step t c') = some (setPc { s with delivered := pd ++ s.delivered } t (.passAfter v k sid c)) := by
  simp [step, hpc]

theorem step_passAfter_live {v : List (Nat × Nat)} {k sid c' : Nat} (hpc : pcOf s t = .passAfter v k sid false) :
    step san s (.step t c') = some (setPc s t (.passIter v)) := by
  simp [step, hpc]

theorem step_passAfter_closed {v : List (Nat × Nat)} {k sid c' : Nat} (hpc : pcOf s t = .passAfter v k sid true) :
    step san s (.step t c') = some (setPc (delReader s t) t (.passUnlocked v k sid)) := by
  simp [step, hpc]

theorem step_passUnlocked {v : List (Nat × Nat)} {k sid c' : Nat} (hpc : pcOf s t = .passUnlocked v k sid)
    (hr : s.readers = []) :
    step san s (.step t c') = some (setPc (deleteIfSame s k sid) t (.passRelock v k sid)) := by
  simp [step, hpc, hr]

theorem step_passRelock {v : List (Nat × Nat)} {k sid c' : Nat} (hpc : pcOf s t = .passRelock v k sid) :
    step san s (.step t c') = some (setPc (addReader s t) t (.passClear v k sid)) := by
  simp [step, hpc]

theorem step_passClear {v : List (Nat × Nat)} {k sid c' : Nat} (hpc : pcOf s t = .passClear v k sid)
    (hv : visiting s sid = false) :
    step san s (.step t c') = some (setPc (clearScope s sid) t (.passIter v)) := by
  simp [step, hpc, hv]

end micro

theorem run_cons_of_step {s s1 : State} {e : Ev} {es : List Ev} (h : step san s e = some s1) :
    run san s (e :: es) = run san s1 es := by
  simp [run, h]


/-! ## a solo pass -/

/-- thread `t` is walking the shard (`passIter v`), holds the only read lock, and everybody else is idle -/
structure Solo (s : State) (t : Nat) (v : List (Nat × Nat)) : Prop where
  pc : pcOf s t = .passIter v
  readers : s.readers = [t]
  others : ∀ t', t' ≠ t → pcOf s t' = .idle

theorem others_setPc {s0 : State} {t : Nat} {p : Pc} (h : ∀ t', t' ≠ t → pcOf s0 t' = .idle) :
    ∀ t', t' ≠ t → pcOf (setPc s0 t p) t' = .idle := by
  intro t' hne; rw [pcOf_setPc_ne _ _ _ _ hne]; exact h t' hne

theorem not_visiting_of {s : State} (hnd : (s.pcs.map (·.1)).Nodup) {t sid : Nat}
    (ht : visits (pcOf s t) sid = false) (ho : ∀ t', t' ≠ t → pcOf s t' = .idle) : visiting s sid = false := by
  cases hv : visiting s sid with
  | false => rfl
  | true =>
    obtain ⟨t', ht'⟩ := (visiting_iff hnd sid).mp hv
    by_cases he : t' = t
    · subst he; rw [ht] at ht'; cases ht'
    · rw [ho t' he] at ht'; simp [visits] at ht'

/-- the part of a visit up to and including the delivery -/
def visitEvsA (t k : Nat) (x : ScopeS) : List Ev :=
  [.step t k, .step t 0] ++ (if x.cell.isEmpty then [] else [.step t 0])

/-- the rest of the visit: back to the loop, or unlock / remove / relock / clear -/
def visitEvsB (t : Nat) (x : ScopeS) : List Ev :=
  if x.closed then [.step t 0, .step t 0, .step t 0, .step t 0] else [.step t 0]

/-- the events of one complete visit of key `k` by the pass thread `t` in state `s` -/
def visitEvs (s : State) (t k : Nat) : List Ev :=
  match lookup s k with
  | none => []
  | some sid => match scopeOf s sid with
    | none => []
    | some x => visitEvsA t k x ++ visitEvsB t x

theorem visit_phaseA {s : State} {t k sid : Nat} {v : List (Nat × Nat)} {x : ScopeS} (hs : Solo s t v)
    (hk : (k, sid) ∉ v) (hl : lookup s k = some sid) (hx : scopeOf s sid = some x) :
    ∃ sA, run san s (visitEvsA t k x) = some sA ∧ pcOf sA t = .passAfter ((k, sid) :: v) k sid x.closed
      ∧ sA.readers = [t] ∧ (∀ t', t' ≠ t → pcOf sA t' = .idle)
      ∧ sA.scopes = s.scopes.set sid { x with cell := [] } ∧ sA.reg = s.reg
      ∧ sA.delivered = x.cell ++ s.delivered := by
  have h1 := step_passIter (san := san) hs.pc hk hl hx
  have h2 := step_passSwap (san := san) (s := setPc s t (.passSwap ((k, sid) :: v) k sid x.closed)) (t := t) (c' := 0)
    (pcOf_setPc_self ..) (x := x) hx
  unfold visitEvsA
  by_cases hc : x.cell.isEmpty = true
  · rw [if_pos hc] at h2 ⊢
    refine ⟨setPc (setScope (setPc s t (.passSwap ((k, sid) :: v) k sid x.closed)) sid { x with cell := [] }) t
      (.passAfter ((k, sid) :: v) k sid x.closed), ?_, pcOf_setPc_self .., hs.readers,
      others_setPc (s0 := setScope _ sid _) (others_setPc hs.others), rfl, rfl, ?_⟩
    · rw [List.append_nil, run_cons_of_step h1, run_cons_of_step h2]; rfl
    · rw [List.isEmpty_iff.mp hc]; rfl
  · rw [if_neg hc] at h2 ⊢
    have h3 := step_passDeliver (san := san) (s := setPc (setScope (setPc s t (.passSwap ((k, sid) :: v) k sid x.closed)) sid
      { x with cell := [] }) t (.passDeliver ((k, sid) :: v) k sid x.closed x.cell)) (t := t) (c' := 0)
      (pcOf_setPc_self ..)
    refine ⟨setPc { setPc (setScope (setPc s t (.passSwap ((k, sid) :: v) k sid x.closed)) sid
        { x with cell := [] }) t (.passDeliver ((k, sid) :: v) k sid x.closed x.cell) with
        delivered := x.cell ++ s.delivered } t (.passAfter ((k, sid) :: v) k sid x.closed),
      ?_, pcOf_setPc_self .., hs.readers, ?_, rfl, rfl, rfl⟩
    · show run san s [.step t k, .step t 0, .step t 0] = _
      rw [run_cons_of_step h1, run_cons_of_step h2, run_cons_of_step h3]; rfl
    · exact others_setPc (s0 := { setPc (setScope (setPc s t (.passSwap ((k, sid) :: v) k sid x.closed)) sid
        { x with cell := [] }) t (.passDeliver ((k, sid) :: v) k sid x.closed x.cell) with delivered := _ })
        (others_setPc (s0 := setScope _ sid _) (others_setPc hs.others))

theorem visit_phaseB_live {sA : State} {t k sid : Nat} {v : List (Nat × Nat)}
    (hpc : pcOf sA t = .passAfter v k sid false) (hr : sA.readers = [t])
    (ho : ∀ t', t' ≠ t → pcOf sA t' = .idle) :
    ∃ s', run san sA [.step t 0] = some s' ∧ Solo s' t v ∧ s'.scopes = sA.scopes ∧ s'.reg = sA.reg
      ∧ s'.delivered = sA.delivered :=
  ⟨_, by rw [run_cons_of_step (step_passAfter_live (san := san) hpc)]; rfl,
    ⟨pcOf_setPc_self .., hr, others_setPc ho⟩, rfl, rfl, rfl⟩

theorem visit_phaseB_closed {sA : State} {t k sid : Nat} {v : List (Nat × Nat)} {y : ScopeS} (h : Inv san sA)
    (hpc : pcOf sA t = .passAfter v k sid true) (hr : sA.readers = [t])
    (ho : ∀ t', t' ≠ t → pcOf sA t' = .idle) (hy : scopeOf sA sid = some y) :
    ∃ s', run san sA [.step t 0, .step t 0, .step t 0, .step t 0] = some s' ∧ Solo s' t v
      ∧ s'.scopes = sA.scopes.set sid { y with cleared := true, cell := [] }
      ∧ s'.reg = sA.reg.filter (fun (k', w) => !(k' == k && w == sid))
      ∧ s'.delivered = sA.delivered := by
  have h1 := step_passAfter_closed (san := san) (c' := 0) hpc
  have i1 := inv_step h h1
  have h2 := step_passUnlocked (san := san) (s := setPc (delReader sA t) t (.passUnlocked v k sid)) (t := t) (c' := 0)
    (pcOf_setPc_self ..) (by simp [hr])
  have i2 := inv_step i1 h2
  have h3 := step_passRelock (san := san) (s := setPc (deleteIfSame (setPc (delReader sA t) t (.passUnlocked v k sid)) k sid) t
    (.passRelock v k sid)) (t := t) (c' := 0) (pcOf_setPc_self ..)
  have i3 := inv_step i2 h3
  have hnv : visiting (setPc (addReader (setPc (deleteIfSame (setPc (delReader sA t) t (.passUnlocked v k sid)) k sid) t
      (.passRelock v k sid)) t) t (.passClear v k sid)) sid = false := by
    refine not_visiting_of i3.nodup (t := t) (by rw [pcOf_setPc_self]; rfl) ?_
    exact others_setPc (s0 := addReader _ t) (others_setPc (s0 := deleteIfSame _ k sid)
      (others_setPc (s0 := delReader sA t) ho))
  have h4 := step_passClear (san := san) (c' := 0) (pcOf_setPc_self ..) hnv
  refine ⟨_, by rw [run_cons_of_step h1, run_cons_of_step h2, run_cons_of_step h3, run_cons_of_step h4]; rfl,
    ⟨pcOf_setPc_self .., ?_, ?_⟩, ?_, ?_, ?_⟩
  · simp [hr]
  · exact others_setPc (s0 := clearScope _ sid) (by
      intro t' hne; rw [pcOf_clearScope]
      exact others_setPc (s0 := addReader _ t) (others_setPc (s0 := deleteIfSame _ k sid)
        (others_setPc (s0 := delReader sA t) ho)) t' hne)
  · have hsc := clearScope_scopes (s := setPc (addReader (setPc (deleteIfSame (setPc (delReader sA t) t
      (.passUnlocked v k sid)) k sid) t (.passRelock v k sid)) t) t (.passClear v k sid)) (sid := sid) (x := y) hy
    rw [setPc_scopes, hsc]; rfl
  · simp [deleteIfSame_reg]
  · simp

/-- the scope after a complete visit -/
def visitedScope (x : ScopeS) : ScopeS :=
  if x.closed then { x with cleared := true, cell := [] } else { x with cell := [] }

/-- the map after a complete visit of key `k` ↦ `sid` -/
def regAfterVisit (reg : List (Nat × Nat)) (k sid : Nat) (x : ScopeS) : List (Nat × Nat) :=
  if x.closed then reg.filter (fun (k', w) => !(k' == k && w == sid)) else reg

theorem visit_run {s : State} {t k sid : Nat} {v : List (Nat × Nat)} {x : ScopeS} (h : Inv san s) (hs : Solo s t v)
    (hk : (k, sid) ∉ v) (hl : lookup s k = some sid) (hx : scopeOf s sid = some x) :
    ∃ s', run san s (visitEvs s t k) = some s' ∧ Solo s' t ((k, sid) :: v)
      ∧ s'.scopes = s.scopes.set sid (visitedScope x) ∧ s'.reg = regAfterVisit s.reg k sid x
      ∧ s'.delivered = x.cell ++ s.delivered := by
  obtain ⟨sA, hA, hpcA, hrA, hoA, hscA, hregA, hdA⟩ := visit_phaseA hs hk hl hx
  have iA := inv_run h hA
  have hlt := scopeOf_lt hx
  have hyA : scopeOf sA sid = some { x with cell := [] } := by
    simp [scopeOf, hscA, hlt]
  simp only [visitEvs, hl, hx]
  cases hc : x.closed with
  | true =>
    rw [hc] at hpcA
    obtain ⟨s', hB, hsolo, hsc, hreg, hd⟩ := visit_phaseB_closed iA hpcA hrA hoA hyA
    refine ⟨s', ?_, hsolo, ?_, ?_, ?_⟩
    · rw [run_append hA]; simp only [visitEvsB, hc, if_true]; exact hB
    · rw [hsc, hscA, List.set_set]; simp [visitedScope, hc]
    · rw [hreg, hregA]; simp [regAfterVisit, hc]
    · rw [hd, hdA]
  | false =>
    rw [hc] at hpcA
    obtain ⟨s', hB, hsolo, hsc, hreg, hd⟩ := visit_phaseB_live hpcA hrA hoA
    refine ⟨s', ?_, hsolo, ?_, ?_, ?_⟩
    · rw [run_append hA]; simp only [visitEvsB, hc]; exact hB
    · rw [hsc, hscA]; simp [visitedScope, hc]
    · rw [hreg, hregA]; simp [regAfterVisit, hc]
    · rw [hd, hdA]

theorem lookup_filter_other (reg : List (Nat × Nat)) (k k' sid : Nat) (h : k' ≠ k) :
    (reg.filter fun (a, b) => !(a == k && b == sid)).lookup k' = reg.lookup k' := by
  induction reg with
  | nil => rfl
  | cons q l ih =>
    obtain ⟨a, b⟩ := q
    by_cases ha : k' = a
    · subst ha
      have : (k' == k) = false := by simp [h]
      simp [List.filter, this, List.lookup]
    · have hka : (k' == a) = false := by simp [ha]
      simp only [List.filter]
      split
      · simp only [List.lookup, hka]; exact ih
      · simp only [List.lookup, hka]; exact ih

theorem lookup_regAfter_other (reg : List (Nat × Nat)) (k k' sid : Nat) (x : ScopeS) (h : k' ≠ k) :
    (regAfterVisit reg k sid x).lookup k' = reg.lookup k' := by
  unfold regAfterVisit
  split
  · exact lookup_filter_other reg k k' sid h
  · rfl

theorem mem_regAfter {reg : List (Nat × Nat)} {k sid : Nat} {x : ScopeS} {e : Nat × Nat}
    (h : e ∈ regAfterVisit reg k sid x) : e ∈ reg := by
  unfold regAfterVisit at h
  split at h
  · exact (List.mem_filter.mp h).1
  · exact h

/-- the events of the rest of a solo pass over the keys `ks` (computed along the run), ending the pass -/
def passEvs (san : Nat → Nat) (t : Nat) : State → List Nat → List Ev
  | _, [] => [.passEndHint t]
  | s, k :: ks => visitEvs s t k ++ passEvs san t ((run san s (visitEvs s t k)).getD s) ks

/-- the target scope has been collected -/
def Collected (s : State) (sid0 : Nat) (x0 : ScopeS) : Prop :=
  (∃ x', scopeOf s sid0 = some x' ∧ x'.cleared = true) ∧ (∀ k', (k', sid0) ∉ s.reg)
    ∧ (∀ tok ∈ x0.cell, tok ∈ s.delivered)

/-- the target scope has been visited (reported and cleared) by the pass; it may still be registered under keys
the pass has not visited yet -/
def Reported (s : State) (sid0 : Nat) (x0 : ScopeS) : Prop :=
  (∃ x', scopeOf s sid0 = some x' ∧ x'.cleared = true ∧ x'.closed = true)
    ∧ (∀ tok ∈ x0.cell, tok ∈ s.delivered)

theorem lookup_of_mem_nodup {reg : List (Nat × Nat)} (hnd : (reg.map (·.1)).Nodup) {k v : Nat}
    (hm : (k, v) ∈ reg) : reg.lookup k = some v := by
  induction reg with
  | nil => cases hm
  | cons q l ih =>
    obtain ⟨a, b⟩ := q
    simp only [List.map_cons, List.nodup_cons] at hnd
    rcases List.mem_cons.mp hm with he | hm'
    · cases he; simp [List.lookup]
    · have hne : k ≠ a := by
        intro e; subst e
        exact hnd.1 (List.mem_map.mpr ⟨(k, v), hm', rfl⟩)
      have : (k == a) = false := by simp [hne]
      simp only [List.lookup, this]
      exact ih hnd.2 hm'

/-- a solo pass over the keys `ks`: the target scope `sid0` (closed, `x0` at the start) is registered only under
keys still to be visited, and under at least one of them unless it has been reported already; a scope registered
under several keys (its identity and raw aliases) is visited once per key, each visit removing that key's entry -/
theorem pass_run {t sid0 : Nat} {x0 : ScopeS} (hc0 : x0.closed = true) :
    ∀ (ks : List Nat) (s : State) (v : List (Nat × Nat)), Inv san s → Solo s t v → ks.Nodup → (∀ k ∈ ks, k ∉ v.map (·.1)) →
      (∀ k ∈ ks, (lookup s k).isSome = true) →
      (∀ k', (k', sid0) ∈ s.reg → k' ∈ ks) →
      ((scopeOf s sid0 = some x0 ∧ ∃ k0, k0 ∈ ks ∧ lookup s k0 = some sid0) ∨ Reported s sid0 x0) →
      ∃ s', run san s (passEvs san t s ks) = some s' ∧ (∀ t', pcOf s' t' = .idle) ∧ s'.readers = []
        ∧ Collected s' sid0 x0 := by
  intro ks
  induction ks with
  | nil =>
    intro s v _ hs _ _ _ hent htgt
    have hdone : Collected s sid0 x0 := by
      rcases htgt with ⟨_, k0, hm, _⟩ | ⟨⟨x', hx', hcl, _⟩, hd⟩
      · cases hm
      · refine ⟨⟨x', hx', hcl⟩, ?_, hd⟩
        intro k' hm
        have := hent k' hm
        cases this
    have hst : step san s (.passEndHint t) = some (setPc (delReader s t) t .idle) := by
      simp [step, hs.pc]
    refine ⟨setPc (delReader s t) t .idle, by simp only [passEvs]; rw [run_cons_of_step hst]; rfl, ?_, ?_, hdone⟩
    · intro t'
      by_cases he : t' = t
      · subst he; exact pcOf_setPc_self ..
      · exact others_setPc (s0 := delReader s t) hs.others t' he
    · simp [hs.readers]
  | cons k ks ih =>
    intro s v h hs hnd hkv hreg hent htgt
    have hnd' := List.nodup_cons.mp hnd
    obtain ⟨sid, hl⟩ := Option.isSome_iff_exists.mp (hreg k (List.mem_cons_self ..))
    obtain ⟨x, hx, hxi⟩ := h.static.regIdent k sid (mem_of_lookup hl)
    have hx' : scopeOf s sid = some x := hx
    obtain ⟨s', hrun, hsolo, hsc, hrg, hdl⟩ := visit_run h hs
      (fun hm => hkv k (List.mem_cons_self ..) (List.mem_map.mpr ⟨(k, sid), hm, rfl⟩)) hl hx'
    have h' := inv_run h hrun
    have hlt := scopeOf_lt hx'
    have hother : ∀ sid1, sid1 ≠ sid → scopeOf s' sid1 = scopeOf s sid1 := by
      intro sid1 hne
      simp only [scopeOf, hsc, List.getElem?_set]
      rw [if_neg (fun e => hne e.symm)]
    have hlk : ∀ k', k' ≠ k → lookup s' k' = lookup s k' := by
      intro k' hne
      simp only [lookup, hrg]; exact lookup_regAfter_other _ _ _ _ _ hne
    -- the entries of the target that remain are under keys still to be visited
    have hent' : ∀ k', (k', sid0) ∈ s'.reg → k' ∈ ks := by
      intro k' hm'
      rw [hrg] at hm'
      have hm0 : (k', sid0) ∈ s.reg := mem_regAfter hm'
      rcases List.mem_cons.mp (hent k' hm0) with e | hmem
      · -- k' = k: then sid = sid0 (keys are unique) and the visit has removed this entry
        exfalso
        subst e
        have hl0 := lookup_of_mem_nodup h.static.regNodup hm0
        have hsid : sid0 = sid := by
          have : s.reg.lookup k' = some sid := hl
          rw [this] at hl0; exact (Option.some.inj hl0).symm
        subst hsid
        rcases htgt with ⟨hx0, _⟩ | ⟨⟨x1, hx1, _, hc1⟩, _⟩
        · rw [hx'] at hx0; cases hx0
          simp [regAfterVisit, hc0] at hm'
        · rw [hx'] at hx1; cases hx1
          simp [regAfterVisit, hc1] at hm'
      · exact hmem
    have htgt' : (scopeOf s' sid0 = some x0 ∧ ∃ k0, k0 ∈ ks ∧ lookup s' k0 = some sid0) ∨ Reported s' sid0 x0 := by
      by_cases hsid : sid0 = sid
      · -- this visit reports (or reports again) and clears the target
        right
        subst hsid
        have hc : x.closed = true := by
          rcases htgt with ⟨hx0, _⟩ | ⟨⟨x1, hx1, _, hc1⟩, _⟩
          · rw [hx'] at hx0; cases hx0; exact hc0
          · rw [hx'] at hx1; cases hx1; exact hc1
        refine ⟨⟨visitedScope x, ?_, by simp [visitedScope, hc], by simp [visitedScope, hc]⟩, ?_⟩
        · simp [scopeOf, hsc, hlt]
        · intro tok hm'
          rw [hdl]
          rcases htgt with ⟨hx0, _⟩ | ⟨_, hd⟩
          · rw [hx'] at hx0; cases hx0; exact List.mem_append_left _ hm'
          · exact List.mem_append_right _ (hd tok hm')
      · rcases htgt with ⟨hx0, k0, hm, hl0⟩ | ⟨⟨x1, hx1, hcl1, hc1⟩, hd⟩
        · left
          have hk0 : k0 ≠ k := by
            intro e; subst e
            rw [hl] at hl0; exact hsid (Option.some.inj hl0).symm
          have hm' : k0 ∈ ks := by
            rcases List.mem_cons.mp hm with e | hm'
            · exact absurd e hk0
            · exact hm'
          exact ⟨by rw [hother sid0 hsid]; exact hx0, k0, hm', by rw [hlk k0 hk0]; exact hl0⟩
        · right
          exact ⟨⟨x1, by rw [hother sid0 hsid]; exact hx1, hcl1, hc1⟩,
            fun tok hm' => by rw [hdl]; exact List.mem_append_right _ (hd tok hm')⟩
    obtain ⟨s'', hrun', hidle, hrd, hcol⟩ := ih s' ((k, sid) :: v) h' hsolo hnd'.2
      (by
        intro k' hk' hm
        rw [List.map_cons] at hm
        rcases List.mem_cons.mp hm with e | hm
        · subst e; exact hnd'.1 hk'
        · exact hkv k' (List.mem_cons_of_mem _ hk') hm)
      (by
        intro k' hk'
        have hne : k' ≠ k := by intro e; subst e; exact hnd'.1 hk'
        rw [hlk k' hne]; exact hreg k' (List.mem_cons_of_mem _ hk'))
      hent' htgt'
    refine ⟨s'', ?_, hidle, hrd, hcol⟩
    simp only [passEvs]
    rw [run_append hrun, hrun]
    exact hrun'

/-! ## the keys of the shard, without repetition -/

def dedupKeys : List Nat → List Nat
  | [] => []
  | a :: l => if a ∈ dedupKeys l then dedupKeys l else a :: dedupKeys l

theorem mem_dedupKeys {a : Nat} {l : List Nat} : a ∈ dedupKeys l ↔ a ∈ l := by
  induction l with
  | nil => simp [dedupKeys]
  | cons b l ih =>
    simp only [dedupKeys]
    split
    · next hb =>
      simp only [List.mem_cons, ih]
      constructor
      · exact Or.inr
      · rintro (rfl | h)
        · exact ih.mp hb
        · exact h
    · simp only [List.mem_cons, ih]

theorem nodup_dedupKeys (l : List Nat) : (dedupKeys l).Nodup := by
  induction l with
  | nil => simp [dedupKeys]
  | cons b l ih =>
    simp only [dedupKeys]
    split
    · exact ih
    · next hb => exact List.nodup_cons.mpr ⟨hb, ih⟩

/-- the registered keys of the shard -/
def regKeys (s : State) : List Nat := dedupKeys (s.reg.map (·.1))

/-- one complete solo report pass by thread `t`: take the read lock, visit every registered key, end -/
def soloPass (san : Nat → Nat) (s : State) (t : Nat) : List Ev :=
  .passBegin t :: passEvs san t (setPc (addReader s t) t (.passIter [])) (regKeys s)

theorem soloPass_collects {s : State} (h : Inv san s) (hidle : ∀ t, pcOf s t = .idle) (hrd : s.readers = [])
    (t : Nat) {k sid : Nat} {x : ScopeS} (hl : lookup s k = some sid) (hx : scopeOf s sid = some x)
    (hc : x.closed = true) :
    ∃ s', run san s (soloPass san s t) = some s' ∧ (∀ t', pcOf s' t' = .idle) ∧ s'.readers = []
      ∧ Collected s' sid x := by
  have hst : step san s (.passBegin t) = some (setPc (addReader s t) t (.passIter [])) := by
    simp [step, hidle t]
  have h1 := inv_step h hst
  have hsolo : Solo (setPc (addReader s t) t (.passIter [])) t [] :=
    ⟨pcOf_setPc_self .., by simp [hrd], others_setPc (s0 := addReader s t) (fun t' _ => hidle t')⟩
  obtain ⟨s', hrun, hi, hr, hcol⟩ := pass_run (t := t) (sid0 := sid) (x0 := x) hc (regKeys s) _ []
    h1 hsolo (nodup_dedupKeys _) (fun _ _ hm => by cases hm)
    (by
      intro k' hk'
      have : k' ∈ s.reg.map (·.1) := mem_dedupKeys.mp hk'
      obtain ⟨⟨a, b⟩, hm, rfl⟩ := List.mem_map.mp this
      cases hl' : s.reg.lookup a with
      | none => exact absurd hm (lookup_none_iff.mp hl' b)
      | some w => simp [lookup, hl'])
    (fun k' hm' => mem_dedupKeys.mpr (List.mem_map.mpr ⟨(k', sid), hm', rfl⟩))
    (Or.inl ⟨hx, k, mem_dedupKeys.mpr (List.mem_map.mpr ⟨(k, sid), mem_of_lookup hl, rfl⟩), hl⟩)
  exact ⟨s', by unfold soloPass; rw [run_cons_of_step hst]; exact hrun, hi, hr, hcol⟩

/-- all threads idle, as a checkable condition on the pc table -/
theorem all_idle_of_pcs {s : State} (h : ∀ q ∈ s.pcs, q.2 = .idle) : ∀ t, pcOf s t = .idle := by
  intro t
  unfold pcOf
  cases hl : s.pcs.lookup t with
  | none => rfl
  | some p =>
    have : ∀ (l : List (Nat × Pc)), l.lookup t = some p → (t, p) ∈ l := by
      intro l
      induction l with
      | nil => intro h; simp [List.lookup] at h
      | cons q l ih =>
        obtain ⟨a, b⟩ := q
        intro h
        by_cases ha : t = a
        · subst ha
          simp only [List.lookup, beq_self_eq_true, Option.some.injEq] at h
          subst h; exact List.mem_cons_self ..
        · have : (t == a) = false := by simp [ha]
          simp only [List.lookup, this] at h
          exact List.mem_cons_of_mem _ (ih h)
    exact h (t, p) (this _ hl)

end Tally.Registry
