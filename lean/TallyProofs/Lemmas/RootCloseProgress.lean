import TallyProofs.Lemmas.RootCloseLemmas
/-!
# Progress of the root-Close model (C08): a variant that decreases along a canonical schedule

The winner's own step is enabled everywhere except at its `wg.Wait()`, where the loop thread has an
enabled step (taking the `done` case of the `select` as soon as it is back there).  Both decrease the
variant below, hence from every reachable state with the winner inside `Close` some continuation
makes it return.
-/
namespace Tally.RootClose

/-! ## the cells a pass has still to visit -/

theorem countP_lt_of_witness {α : Type} (p q : α → Bool) (l : List α) (himp : ∀ x, p x = true → q x = true)
    (a : α) (ha : a ∈ l) (hq : q a = true) (hp : p a = false) : l.countP p < l.countP q := by
  induction l with
  | nil => cases ha
  | cons x l ih =>
    have hle : l.countP p ≤ l.countP q := List.countP_mono_left (fun x _ => himp x)
    simp only [List.countP_cons]
    rcases List.mem_cons.mp ha with rfl | hm
    · simp only [hq, hp, if_true]; simp; omega
    · have := ih hm
      cases hpx : p x with
      | true => simp only [himp x hpx, if_true]; omega
      | false => cases hqx : q x <;> simp <;> omega

/-- how many of the cells `0 … K-1` are not in `vis` -/
def unvisited (K : Nat) (vis : List Nat) : Nat := (List.range K).countP (fun i => !vis.contains i)

theorem unvisited_le (K : Nat) (vis : List Nat) : unvisited K vis ≤ K := by
  have := List.countP_le_length (p := fun i => !vis.contains i) (l := List.range K)
  simpa [unvisited] using this

theorem unvisited_cons_lt (K : Nat) (vis : List Nat) (c : Nat) (hc : c < K) (hv : c ∉ vis) :
    unvisited K (c :: vis) < unvisited K vis := by
  apply countP_lt_of_witness _ _ _ _ c (List.mem_range.mpr hc)
  · simp [hv]
  · simp
  · intro x hx
    simp only [List.contains_eq_mem, List.mem_cons, Bool.not_eq_true', decide_eq_false_iff_not, not_or] at hx ⊢
    exact hx.2

/-- a choice that is always possible at `pick vis`: the first unvisited cell, `K` when there is none -/
def nextChoice (K : Nat) (vis : List Nat) : Nat :=
  match (List.range K).find? (fun i => !vis.contains i) with
  | some c => c
  | none => K

theorem nextChoice_spec (K : Nat) (vis : List Nat) :
    (nextChoice K vis < K ∧ nextChoice K vis ∉ vis) ∨ (nextChoice K vis = K ∧ ∀ j, j < K → j ∈ vis) := by
  unfold nextChoice
  split
  · next c hc =>
    left
    have h1 := List.mem_of_find?_eq_some hc
    have h2 := List.find?_some hc
    exact ⟨List.mem_range.mp h1, by simpa using h2⟩
  · next hn =>
    right
    refine ⟨rfl, fun j hj => ?_⟩
    have := List.find?_eq_none.mp hn j (List.mem_range.mpr hj)
    simpa using this

/-- every cell not yet visited may be visited next … -/
theorem passStep_pick_cell (s : State) (vis : List Nat) (c : Nat) (hc : c < s.cells.length) (hv : c ∉ vis) :
    ∃ s1 q, passStep s c (.pick vis) = some (s1, some q) := by
  simp only [passStep, hc, hv, if_true, if_false]
  split
  · exact ⟨_, _, rfl⟩
  · exact ⟨_, _, rfl⟩

/-- … and once all are visited the range loops can end -/
theorem passStep_pick_over (s : State) (vis : List Nat) (c : Nat) (hc : s.cells.length ≤ c)
    (hall : ∀ j, j < s.cells.length → j ∈ vis) : passStep s c (.pick vis) = some (s, some .flush) :=
  passStep_of_rel (.over vis hc hall)

/-- at every pc of a pass some choice is enabled (at a `pick`: an unvisited cell, or `K` when all are visited) -/
theorem passStep_enabled (s : State) (p : PassPc) : ∃ c s1 oq, passStep s c p = some (s1, oq) := by
  cases p with
  | begin => exact ⟨0, _, _, rfl⟩
  | deliver i pend vis => exact ⟨0, _, _, rfl⟩
  | flush => exact ⟨0, _, _, rfl⟩
  | pick vis =>
    rcases nextChoice_spec s.cells.length vis with ⟨h1, h2⟩ | ⟨h1, h2⟩
    · obtain ⟨s1, q, h⟩ := passStep_pick_cell s vis _ h1 h2
      exact ⟨_, _, _, h⟩
    · exact ⟨_, _, _, passStep_pick_over s vis (nextChoice s.cells.length vis) (Nat.le_of_eq h1.symm) h2⟩

/-- at a pc other than `pick` the choice does not matter -/
theorem passStep_choice_irrelevant (s : State) (p : PassPc) (hp : ∀ vis, p ≠ .pick vis) (c c' : Nat) :
    passStep s c p = passStep s c' p := by
  cases p with
  | pick vis => exact absurd rfl (hp vis)
  | _ => rfl

/-! ## the variant -/

def passM (K : Nat) : PassPc → Nat
  | .flush => 0
  | .pick vis => 1 + 2 * unvisited K vis
  | .deliver _ _ vis => 2 + 2 * unvisited K vis
  | .begin => 2 + 2 * K

def loopM (K : Nat) : LoopPc → Nat
  | .exited => 0
  | .waiting => 1
  | .pass p => 2 + passM K p
  | .ticked => 5 + 2 * K

def closerM (K : Nat) : CPc → Nat
  | .returned _ => 0
  | .reporterClose => 1
  | .flushPc => 2
  | .purgePc => 3
  | .pass p => 4 + passM K p
  | .doneClosedPc => 7 + 2 * K
  | .won => 8 + 2 * K
  | _ => 0

theorem passStep_measure {s : State} {ch : Nat} {p : PassPc} {s1 : State} {q : PassPc}
    (h : passStep s ch p = some (s1, some q)) : passM s.cells.length q < passM s.cells.length p := by
  cases passStep_rel h with
  | begin => have := unvisited_le s.cells.length []; simp only [passM]; omega
  | take vis x r hc hv hx => have := unvisited_cons_lt _ vis ch hc hv; simp only [passM]; omega
  | skip vis hc hv hx => have := unvisited_cons_lt _ vis ch hc hv; simp only [passM]; omega
  | over vis hc hall => simp only [passM]; omega
  | deliver i pend vis => simp only [passM]; omega

/-- a step of the closer's final pass decreases its measure (the end of the range loops leads to the purge) -/
theorem passStep_closerM {s : State} {ch : Nat} {p : PassPc} {s1 : State} {oq : Option PassPc}
    (h : passStep s ch p = some (s1, oq)) :
    closerM s.cells.length (afterPass oq) < closerM s.cells.length (.pass p) := by
  cases oq with
  | none => simp only [afterPass, closerM]; omega
  | some q =>
    have hm := passStep_measure h
    cases q <;> simp only [afterPass, closerM] at hm ⊢ <;> omega

theorem afterPass_midCall (oq : Option PassPc) : (afterPass oq).midCall = true := by
  cases oq with
  | none => rfl
  | some q => cases q <;> rfl

/-- the variant: what the winner `w` and the loop still have to do -/
def variant (s : State) (w : Nat) : Nat := closerM s.cells.length (s.closers w) + loopM s.cells.length s.loop

/-- some enabled step decreases the variant and keeps the winner inside `Close` or returns it; it is a step of the
winner or of the loop goroutine: every other `Close` call stays where it is -/
theorem progress (s : State) (h : Ctl s) (w : Nat) (hmid : (s.closers w).midCall = true) :
    ∃ e s', step s e = some s' ∧ s'.cells.length = s.cells.length ∧ variant s' w < variant s w ∧
      ((s'.closers w).midCall = true ∨ ∃ r, s'.closers w = .returned r) ∧
      (∀ t, t ≠ w → s'.closers t = s.closers t) := by
  have hw := h.winner_of w (by cases hp : s.closers w <;> rw [hp] at hmid <;> simp [CPc.midCall, ph] at hmid ⊢)
  cases hp : s.closers w with
  | start => rw [hp] at hmid; simp [CPc.midCall] at hmid
  | returned r => rw [hp] at hmid; simp [CPc.midCall] at hmid
  | returnedNil => rw [hp] at hmid; simp [CPc.midCall] at hmid
  | waitWinner => rw [hp] at hmid; simp [CPc.midCall] at hmid
  | won =>
    refine ⟨.closer w 0, { setC s w .doneClosedPc with doneClosed := true }, by simp only [step, hp], rfl, ?_,
      Or.inl ?_, ?_⟩
    · simp [variant, setC, hp, closerM]
    · simp [setC, CPc.midCall]
    · intro t ht; simp [setC, ht]
  | purgePc =>
    refine ⟨.closer w 0, setC (purgeAll s) w .flushPc, by simp only [step, hp], by simp [setC, purgeAll], ?_,
      Or.inl ?_, ?_⟩
    · simp [variant, setC, purgeAll, hp, closerM]
    · simp [setC, CPc.midCall]
    · intro t ht; simp [setC, ht, purgeAll]
  | flushPc =>
    refine ⟨.closer w 0, { setC s w .reporterClose with log := .flush :: s.log }, by simp only [step, hp], rfl, ?_,
      Or.inl ?_, ?_⟩
    · simp [variant, setC, hp, closerM]
    · simp [setC, CPc.midCall]
    · intro t ht; simp [setC, ht]
  | reporterClose =>
    by_cases hcl : s.closable = true
    · refine ⟨.closer w 0,
        { setC s w (.returned s.err) with log := .reporterClose :: s.log, returns := (w, s.err) :: s.returns, closeDone := true },
        by simp [step, hp, hcl], rfl, ?_, Or.inr ⟨s.err, ?_⟩, ?_⟩
      · simp [variant, setC, hp, closerM]
      · simp [setC]
      · intro t ht; simp [setC, ht]
    · refine ⟨.closer w 0, { setC s w (.returned none) with returns := (w, none) :: s.returns, closeDone := true },
        by simp [step, hp, hcl], rfl, ?_, Or.inr ⟨none, ?_⟩, ?_⟩
      · simp [variant, setC, hp, closerM]
      · simp [setC]
      · intro t ht; simp [setC, ht]
  | pass p =>
    obtain ⟨ch, s1, oq, hq⟩ := passStep_enabled s p
    have hlen := passStep_length hq
    have hloop : s1.loop = s.loop := by obtain ⟨c, l, rfl⟩ := passStep_frame hq; rfl
    have hm := passStep_closerM hq
    refine ⟨.closer w ch, setC s1 w (afterPass oq), by simp only [step, hp, hq], hlen, ?_, Or.inl ?_, ?_⟩
    · simp only [variant, setC, hp, if_true, hlen, hloop]; omega
    · simp [setC, afterPass_midCall]
    · intro t ht; simp [setC, ht, (show s1.closers = s.closers by obtain ⟨c, l, rfl⟩ := passStep_frame hq; rfl)]
  | doneClosedPc =>
    have hdone : s.doneClosed = true := by
      have := h.done_iff; rw [wpc_of_winner hw, hp] at this; simpa [ph] using this
    have hclosed : s.closed = true := by rw [h.closed_iff, hw]; rfl
    cases hl : s.loop with
    | exited =>
      refine ⟨.closer w 0, setC s w (.pass .begin), by simp [step, hp, hl], rfl, ?_, Or.inl ?_, ?_⟩
      · simp [variant, setC, hp, closerM, passM] <;> omega
      · simp [setC, CPc.midCall]
      · intro t ht; simp [setC, ht]
    | waiting =>
      refine ⟨.exit, { s with loop := .exited }, by simp [step, hl, hdone], rfl, ?_, Or.inl ?_, ?_⟩
      · simp [variant, hl, loopM]
      · simp [hp, CPc.midCall]
      · intro t _; rfl
    | ticked =>
      refine ⟨.loop 0, { s with loop := .waiting }, by simp [step, hl, hclosed], rfl, ?_, Or.inl ?_, ?_⟩
      · simp [variant, hl, loopM] <;> omega
      · simp [hp, CPc.midCall]
      · intro t _; rfl
    | pass p =>
      obtain ⟨ch, s1, oq, hq⟩ := passStep_enabled s p
      have hlen := passStep_length hq
      have hcl : s1.closers = s.closers := by obtain ⟨c, l, rfl⟩ := passStep_frame hq; rfl
      cases oq with
      | none =>
        refine ⟨.loop ch, { s1 with loop := .waiting }, by simp only [step, hl, hq], hlen, ?_, Or.inl ?_, ?_⟩
        · simp only [variant, hl, loopM, hlen, hcl]; omega
        · simp [hcl, hp, CPc.midCall]
        · intro t _; show s1.closers t = _; rw [hcl]
      | some q =>
        have hm := passStep_measure hq
        refine ⟨.loop ch, { s1 with loop := .pass q }, by simp only [step, hl, hq], hlen, ?_, Or.inl ?_, ?_⟩
        · simp only [variant, hl, loopM, hlen, hcl]; omega
        · simp [hcl, hp, CPc.midCall]
        · intro t _; show s1.closers t = _; rw [hcl]

/-- from every state satisfying the control invariant in which the winner is inside `Close`, some
schedule (of steps of the winner and of the loop goroutine: no other `Close` call moves) makes it return -/
theorem can_complete (n : Nat) : ∀ (s : State), Ctl s → ∀ w, (s.closers w).midCall = true → variant s w ≤ n →
    ∃ es s' r, run s es = some s' ∧ s'.closers w = .returned r ∧ ∀ t, t ≠ w → s'.closers t = s.closers t := by
  induction n with
  | zero =>
    intro s h w hmid hv
    obtain ⟨_, _, _, _, hlt, _⟩ := progress s h w hmid
    omega
  | succ n ih =>
    intro s h w hmid hv
    obtain ⟨e, s1, hs, _, hlt, hnext, hoth⟩ := progress s h w hmid
    rcases hnext with hmid1 | ⟨r, hr⟩
    · obtain ⟨es, s', r, hrun, hret, hoth'⟩ := ih s1 (ctl_step s s1 e h hs) w hmid1 (by omega)
      exact ⟨e :: es, s', r, by simp only [run, hs]; exact hrun, hret,
        fun t ht => (hoth' t ht).trans (hoth t ht)⟩
    · exact ⟨[e], s1, r, by simp [run, hs], hr, hoth⟩

end Tally.RootClose
