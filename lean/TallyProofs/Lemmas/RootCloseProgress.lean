import TallyProofs.Lemmas.RootCloseLemmas
/-!
# Progress of the root-Close model (C08): a variant that decreases along a canonical schedule

The winner's own step is enabled everywhere except at its `wg.Wait()`, where the loop thread has an
enabled step (taking the `done` case of the `select` as soon as it is back there).  Both decrease the
variant below, hence from every reachable state with the winner inside `Close` some continuation
makes it return.
-/
namespace Tally.RootClose

def passM (K : Nat) : PassPc → Nat
  | .flush => 0
  | .swap i => 1 + 2 * (K - i)
  | .deliver i _ => 2 + 2 * (K - (i + 1))
  | .begin => 2 + 2 * K

def loopM (K : Nat) : LoopPc → Nat
  | .exited => 0
  | .waiting => 1
  | .pass p => 2 + passM K p
  | .ticked => 5 + 2 * K

def closerM (K : Nat) : CPc → Nat
  | .returned _ => 0
  | .reporterClose => 1
  | .purgePc => 2
  | .pass p => 3 + passM K p
  | .doneClosedPc => 6 + 2 * K
  | .won => 7 + 2 * K
  | _ => 0

theorem passStep_measure (s : State) (p q : PassPc) (h : (passStep s p).2 = some q) :
    passM s.cells.length q < passM s.cells.length p := by
  cases p with
  | begin => simp only [passStep, Option.some.injEq] at h; subst h; simp [passM]
  | swap i =>
    simp only [passStep] at h
    split at h
    · simp only [Option.some.injEq] at h; subst h; simp only [passM]; omega
    · next hi =>
      have hlt : i < s.cells.length := by
        apply Classical.byContradiction; intro hn
        rw [List.getElem?_eq_none (by omega)] at hi; cases hi
      simp only [Option.some.injEq] at h; subst h; simp only [passM]; omega
    · next hi =>
      have hlt : i < s.cells.length := by
        apply Classical.byContradiction; intro hn
        rw [List.getElem?_eq_none (by omega)] at hi; cases hi
      simp only [Option.some.injEq] at h; subst h; simp only [passM]; omega
  | deliver i pend => simp only [passStep, Option.some.injEq] at h; subst h; simp only [passM]; omega
  | flush => simp [passStep] at h

/-- the variant: what the winner `w` and the loop still have to do -/
def variant (s : State) (w : Nat) : Nat := closerM s.cells.length (s.closers w) + loopM s.cells.length s.loop

/-- some enabled step decreases the variant and keeps the winner inside `Close` or returns it -/
theorem progress (s : State) (h : Ctl s) (w : Nat) (hmid : (s.closers w).midCall = true) :
    ∃ e s', step s e = some s' ∧ s'.cells.length = s.cells.length ∧ variant s' w < variant s w ∧
      ((s'.closers w).midCall = true ∨ ∃ r, s'.closers w = .returned r) := by
  have hw := h.winner_of w (by cases hp : s.closers w <;> rw [hp] at hmid <;> simp [CPc.midCall, ph] at hmid ⊢)
  cases hp : s.closers w with
  | start => rw [hp] at hmid; simp [CPc.midCall] at hmid
  | returned r => rw [hp] at hmid; simp [CPc.midCall] at hmid
  | returnedNil => rw [hp] at hmid; simp [CPc.midCall] at hmid
  | won =>
    refine ⟨.closer w, { setC s w .doneClosedPc with doneClosed := true }, by simp only [step, hp], rfl, ?_,
      Or.inl ?_⟩
    · simp [variant, setC, hp, closerM]
    · simp [setC, CPc.midCall]
  | purgePc =>
    refine ⟨.closer w, setC (purgeAll s) w .reporterClose, by simp only [step, hp], by simp [setC, purgeAll], ?_,
      Or.inl ?_⟩
    · simp [variant, setC, purgeAll, hp, closerM]
    · simp [setC, CPc.midCall]
  | reporterClose =>
    by_cases hcl : s.closable = true
    · refine ⟨.closer w, { setC s w (.returned s.err) with log := .reporterClose :: s.log, returns := (w, s.err) :: s.returns },
        by simp [step, hp, hcl], rfl, ?_, Or.inr ⟨s.err, ?_⟩⟩
      · simp [variant, setC, hp, closerM]
      · simp [setC]
    · refine ⟨.closer w, { setC s w (.returned none) with returns := (w, none) :: s.returns },
        by simp [step, hp, hcl], rfl, ?_, Or.inr ⟨none, ?_⟩⟩
      · simp [variant, setC, hp, closerM]
      · simp [setC]
  | pass p =>
    have hlen := passStep_length s p
    obtain ⟨c, l, hf⟩ := passStep_frame s p
    have hloop : (passStep s p).1.loop = s.loop := by rw [hf]
    cases hq : (passStep s p).2 with
    | none =>
      refine ⟨.closer w, setC (passStep s p).1 w .purgePc, ?_, hlen, ?_, Or.inl ?_⟩
      · simp only [step, hp]
        have : passStep s p = ((passStep s p).1, none) := by rw [← hq]
        rw [this]
      · simp only [variant, setC, hp, closerM, if_true, hlen, hloop]; omega
      · simp [setC, CPc.midCall]
    | some q =>
      have hm := passStep_measure s p q hq
      refine ⟨.closer w, setC (passStep s p).1 w (.pass q), ?_, hlen, ?_, Or.inl ?_⟩
      · simp only [step, hp]
        have : passStep s p = ((passStep s p).1, some q) := by rw [← hq]
        rw [this]
      · simp only [variant, setC, hp, closerM, if_true, hlen, hloop]; omega
      · simp [setC, CPc.midCall]
  | doneClosedPc =>
    have hdone : s.doneClosed = true := by
      have := h.done_iff; rw [wpc_of_winner hw, hp] at this; simpa [ph] using this
    have hclosed : s.closed = true := by rw [h.closed_iff, hw]; rfl
    cases hl : s.loop with
    | exited =>
      refine ⟨.closer w, setC s w (.pass .begin), by simp [step, hp, hl], rfl, ?_, Or.inl ?_⟩
      · simp [variant, setC, hp, closerM, passM] <;> omega
      · simp [setC, CPc.midCall]
    | waiting =>
      refine ⟨.exit, { s with loop := .exited }, by simp [step, hl, hdone], rfl, ?_, Or.inl ?_⟩
      · simp [variant, hl, loopM]
      · simp [hp, CPc.midCall]
    | ticked =>
      refine ⟨.loop, { s with loop := .waiting }, by simp [step, hl, hclosed], rfl, ?_, Or.inl ?_⟩
      · simp [variant, hl, loopM] <;> omega
      · simp [hp, CPc.midCall]
    | pass p =>
      have hlen := passStep_length s p
      obtain ⟨c, l, hf⟩ := passStep_frame s p
      have hcl : (passStep s p).1.closers = s.closers := by rw [hf]
      cases hq : (passStep s p).2 with
      | none =>
        refine ⟨.loop, { (passStep s p).1 with loop := .waiting }, ?_, hlen, ?_, Or.inl ?_⟩
        · simp only [step, hl]
          have : passStep s p = ((passStep s p).1, none) := by rw [← hq]
          rw [this]
        · simp only [variant, hl, loopM, hlen, hcl]; omega
        · simp [hcl, hp, CPc.midCall]
      | some q =>
        have hm := passStep_measure s p q hq
        refine ⟨.loop, { (passStep s p).1 with loop := .pass q }, ?_, hlen, ?_, Or.inl ?_⟩
        · simp only [step, hl]
          have : passStep s p = ((passStep s p).1, some q) := by rw [← hq]
          rw [this]
        · simp only [variant, hl, loopM, hlen, hcl]; omega
        · simp [hcl, hp, CPc.midCall]

/-- from every state satisfying the control invariant in which the winner is inside `Close`, some
schedule makes it return -/
theorem can_complete (n : Nat) : ∀ (s : State), Ctl s → ∀ w, (s.closers w).midCall = true → variant s w ≤ n →
    ∃ es s' r, run s es = some s' ∧ s'.closers w = .returned r := by
  induction n with
  | zero =>
    intro s h w hmid hv
    obtain ⟨_, _, _, _, hlt, _⟩ := progress s h w hmid
    omega
  | succ n ih =>
    intro s h w hmid hv
    obtain ⟨e, s1, hs, _, hlt, hnext⟩ := progress s h w hmid
    rcases hnext with hmid1 | ⟨r, hr⟩
    · obtain ⟨es, s', r, hrun, hret⟩ := ih s1 (ctl_step s s1 e h hs) w hmid1 (by omega)
      exact ⟨e :: es, s', r, by simp only [run, hs]; exact hrun, hret⟩
    · exact ⟨[e], s1, r, by simp [run, hs], hr⟩

end Tally.RootClose
