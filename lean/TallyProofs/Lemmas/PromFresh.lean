import TallyProofs.Lemmas.PromCache
/-! Registry and caches only ever mention names that were first-used; hence the first use of a
fresh name always succeeds. -/
namespace Tally.Prom
open Tally

/-- every registered family and every cache entry of `r'` is one of `r` or is under `name` -/
structure NewOnly (r r' : Reporter) (name : Bytes) : Prop where
  reg : ∀ n f, findFamily r'.reg n = some f → (∃ f0, findFamily r.reg n = some f0) ∨ n = name
  counters : ∀ key a, lookupKey r'.counters key = some a → lookupKey r.counters key = some a ∨ key.1 = name
  gauges : ∀ key a, lookupKey r'.gauges key = some a → lookupKey r.gauges key = some a ∨ key.1 = name
  timers : ∀ key a, lookupKey r'.timers key = some a → lookupKey r.timers key = some a ∨ key.1 = name

theorem NewOnly.refl (r : Reporter) (name : Bytes) : NewOnly r r name :=
  ⟨fun _ f h => Or.inl ⟨f, h⟩, fun _ _ h => Or.inl h, fun _ _ h => Or.inl h, fun _ _ h => Or.inl h⟩

theorem NewOnly.of_static {a b : Reporter} (h : SameStatic b a) (name : Bytes) : NewOnly a b name :=
  ⟨by rw [h.reg]; exact fun _ f h => Or.inl ⟨f, h⟩, by rw [h.counters]; exact fun _ _ h => Or.inl h,
   by rw [h.gauges]; exact fun _ _ h => Or.inl h, by rw [h.timers]; exact fun _ _ h => Or.inl h⟩

theorem NewOnly.trans_static {a b c : Reporter} {name : Bytes} (h1 : NewOnly a b name) (h2 : SameStatic c b) : NewOnly a c name :=
  ⟨by rw [h2.reg]; exact h1.reg, by rw [h2.counters]; exact h1.counters, by rw [h2.gauges]; exact h1.gauges,
   by rw [h2.timers]; exact h1.timers⟩

theorem findFamily_append (reg : List Family) (f : Family) (n : Bytes) :
    findFamily (reg ++ [f]) n = match findFamily reg n with
      | some g => some g
      | none => if f.name = n then some f else none := by
  induction reg with
  | nil => simp [findFamily]
  | cons g t ih =>
    simp only [List.cons_append, findFamily]
    split
    · rfl
    · exact ih

theorem register_ok (reg reg' : List Family) (f : Family) (h : register reg f = .ok reg') :
    findFamily reg f.name = none ∧ reg' = reg ++ [f] := by
  unfold register at h
  split at h
  · next hn => injection h with h; exact ⟨hn, h.symm⟩
  · split at h <;> cases h

theorem register_reg_newOnly (reg reg' : List Family) (f : Family) (h : register reg f = .ok reg') :
    ∀ n g, findFamily reg' n = some g → (∃ g0, findFamily reg n = some g0) ∨ n = f.name := by
  obtain ⟨_, rfl⟩ := register_ok reg reg' f h
  intro n g hg
  rw [findFamily_append] at hg
  cases hf : findFamily reg n with
  | some g0 => exact Or.inl ⟨g0, rfl⟩
  | none =>
    rw [hf] at hg
    simp only at hg
    split at hg
    · next hn => exact Or.inr hn.symm
    · cases hg

theorem lookup_cons_newOnly (l : List (MetricKey × α)) (k0 : MetricKey) (a0 : α) (key : MetricKey) (a : α)
    (h : lookupKey ((k0, a0) :: l) key = some a) : lookupKey l key = some a ∨ key = k0 := by
  rw [lookupKey_cons] at h
  split at h
  · next hk => exact Or.inr hk.symm
  · exact Or.inl h

theorem counterVec_newOnly (r : Reporter) (name : Bytes) (keys : List Bytes) : NewOnly r (counterVec r name keys).1 name := by
  cases hl : lookupKey r.counters (name, keys) with
  | some f0 => simp only [counterVec, hl]; exact NewOnly.refl r name
  | none =>
    cases hr : register r.reg (mkFamily name keys .counter []) with
    | err e => simp only [counterVec, hl, hr]; exact NewOnly.refl r name
    | ok reg' =>
      simp only [counterVec, hl, hr]
      refine ⟨register_reg_newOnly _ _ _ hr, ?_, fun _ _ h => Or.inl h, fun _ _ h => Or.inl h⟩
      intro key a h
      rcases lookup_cons_newOnly _ _ _ _ _ h with h | h
      · exact Or.inl h
      · exact Or.inr (by rw [h])

theorem counterVecD_newOnly (r : Reporter) (name : Bytes) (keys : List Bytes) (desc : Bytes) :
    NewOnly r (counterVecD r name keys desc).1 name := by
  cases hl : lookupKey r.counters (name, keys) with
  | some f0 => simp only [counterVecD, hl]; exact NewOnly.refl r name
  | none =>
    cases hr : register r.reg (mkFamilyD name keys .counter [] desc) with
    | err e => simp only [counterVecD, hl, hr]; exact NewOnly.refl r name
    | ok reg' =>
      simp only [counterVecD, hl, hr]
      refine ⟨register_reg_newOnly _ _ _ hr, ?_, fun _ _ h => Or.inl h, fun _ _ h => Or.inl h⟩
      intro key a h
      rcases lookup_cons_newOnly _ _ _ _ _ h with h | h
      · exact Or.inl h
      · exact Or.inr (by rw [h])

theorem gaugeVec_newOnly (r : Reporter) (name : Bytes) (keys : List Bytes) : NewOnly r (gaugeVec r name keys).1 name := by
  cases hl : lookupKey r.gauges (name, keys) with
  | some f0 => simp only [gaugeVec, hl]; exact NewOnly.refl r name
  | none =>
    cases hr : register r.reg (mkFamily name keys .gauge []) with
    | err e => simp only [gaugeVec, hl, hr]; exact NewOnly.refl r name
    | ok reg' =>
      simp only [gaugeVec, hl, hr]
      refine ⟨register_reg_newOnly _ _ _ hr, fun _ _ h => Or.inl h, ?_, fun _ _ h => Or.inl h⟩
      intro key a h
      rcases lookup_cons_newOnly _ _ _ _ _ h with h | h
      · exact Or.inl h
      · exact Or.inr (by rw [h])

theorem gaugeVecD_newOnly (r : Reporter) (name : Bytes) (keys : List Bytes) (desc : Bytes) :
    NewOnly r (gaugeVecD r name keys desc).1 name := by
  cases hl : lookupKey r.gauges (name, keys) with
  | some f0 => simp only [gaugeVecD, hl]; exact NewOnly.refl r name
  | none =>
    cases hr : register r.reg (mkFamilyD name keys .gauge [] desc) with
    | err e => simp only [gaugeVecD, hl, hr]; exact NewOnly.refl r name
    | ok reg' =>
      simp only [gaugeVecD, hl, hr]
      refine ⟨register_reg_newOnly _ _ _ hr, fun _ _ h => Or.inl h, ?_, fun _ _ h => Or.inl h⟩
      intro key a h
      rcases lookup_cons_newOnly _ _ _ _ _ h with h | h
      · exact Or.inl h
      · exact Or.inr (by rw [h])

theorem summaryVec_newOnly (v : Variant) (r : Reporter) (name : Bytes) (keys : List Bytes) :
    NewOnly r (summaryVec v r name keys).1 name := by
  cases hl : lookupKey r.timers (name, keys) with
  | some f0 => simp only [summaryVec, hl]; exact NewOnly.refl r name
  | none =>
    cases hr : register r.reg (mkFamily name keys .summary []) with
    | err e => simp only [summaryVec, hl, hr]; exact NewOnly.refl r name
    | ok reg' =>
      simp only [summaryVec, hl, hr]
      refine ⟨register_reg_newOnly _ _ _ hr, fun _ _ h => Or.inl h, fun _ _ h => Or.inl h, ?_⟩
      intro key a h
      rcases lookup_cons_newOnly _ _ _ _ _ h with h | h
      · exact Or.inl h
      · exact Or.inr (by rw [h])

theorem histogramVec_newOnly (v : Variant) (r : Reporter) (name : Bytes) (keys : List Bytes) (bs : List F64) :
    NewOnly r (histogramVec v r name keys bs).1 name := by
  cases hl : lookupKey r.timers (name, keys) with
  | some f0 => simp only [histogramVec, hl]; exact NewOnly.refl r name
  | none =>
    cases hr : register r.reg (mkFamily name keys .histogram bs) with
    | err e => simp only [histogramVec, hl, hr]; exact NewOnly.refl r name
    | ok reg' =>
      simp only [histogramVec, hl, hr]
      refine ⟨register_reg_newOnly _ _ _ hr, fun _ _ h => Or.inl h, fun _ _ h => Or.inl h, ?_⟩
      intro key a h
      rcases lookup_cons_newOnly _ _ _ _ _ h with h | h
      · exact Or.inl h
      · exact Or.inr (by rw [h])

theorem vecFor_newOnly (cfg : Cfg) (r : Reporter) (kind : UseKind) (name : Bytes) (keys : List Bytes) :
    NewOnly r (vecFor cfg r kind name keys).1 name := by
  cases kind with
  | counter => exact counterVec_newOnly r name keys
  | gauge => exact gaugeVec_newOnly r name keys
  | timer =>
    simp only [vecFor]
    split
    · exact histogramVec_newOnly _ r name keys _
    · exact summaryVec_newOnly _ r name keys
  | timerAs h =>
    cases h
    · exact summaryVec_newOnly _ r name keys
    · exact histogramVec_newOnly _ r name keys _
  | histogram spec => exact histogramVec_newOnly _ r name keys _
  | counterAs => exact counterVec_newOnly r name keys
  | gaugeAs => exact gaugeVec_newOnly r name keys
  | counterAsD desc => exact counterVecD_newOnly r name keys desc
  | gaugeAsD desc => exact gaugeVecD_newOnly r name keys desc

theorem finishAlloc_static (cfg : Cfg) (p : Reporter × VecResult) (tags : Tags) :
    (finishAlloc cfg p tags).1.reg = p.1.reg ∧ (finishAlloc cfg p tags).1.counters = p.1.counters
      ∧ (finishAlloc cfg p tags).1.gauges = p.1.gauges ∧ (finishAlloc cfg p tags).1.timers = p.1.timers := by
  obtain ⟨r1, res⟩ := p
  cases res with
  | err e => exact ⟨rfl, rfl, rfl, rfl⟩
  | vec o =>
    cases o with
    | none => exact ⟨rfl, rfl, rfl, rfl⟩
    | some f =>
      have := withSeries_static r1 f tags
      exact ⟨this.reg, this.counters, this.gauges, this.timers⟩

theorem finishRegister_static (p : Reporter × VecResult) (tags : Tags) :
    (finishRegister p tags).1.reg = p.1.reg ∧ (finishRegister p tags).1.counters = p.1.counters
      ∧ (finishRegister p tags).1.gauges = p.1.gauges ∧ (finishRegister p tags).1.timers = p.1.timers := by
  obtain ⟨r1, res⟩ := p
  cases res with
  | err e => exact ⟨rfl, rfl, rfl, rfl⟩
  | vec o =>
    cases o with
    | none => exact ⟨rfl, rfl, rfl, rfl⟩
    | some f =>
      have := withSeries_static r1 f tags
      exact ⟨this.reg, this.counters, this.gauges, this.timers⟩

theorem useMetric_newOnly (cfg : Cfg) (r : Reporter) (kind : UseKind) (name : Bytes) (tags : Tags) :
    NewOnly r (useMetric cfg r kind name tags).1 name := by
  have h := vecFor_newOnly cfg r kind name (keysOf tags)
  rw [useMetric_eq]
  split
  · obtain ⟨h1, h2, h3, h4⟩ := finishRegister_static (vecFor cfg r kind name (keysOf tags)) tags
    exact ⟨by rw [h1]; exact h.reg, by rw [h2]; exact h.counters, by rw [h3]; exact h.gauges, by rw [h4]; exact h.timers⟩
  · obtain ⟨h1, h2, h3, h4⟩ := finishAlloc_static cfg (vecFor cfg r kind name (keysOf tags)) tags
    exact ⟨by rw [h1]; exact h.reg, by rw [h2]; exact h.counters, by rw [h3]; exact h.gauges, by rw [h4]; exact h.timers⟩

/-- registry and caches mention only names among `names` -/
structure NamesIn (names : List Bytes) (r : Reporter) : Prop where
  reg : ∀ n f, findFamily r.reg n = some f → n ∈ names
  counters : ∀ key a, lookupKey r.counters key = some a → key.1 ∈ names
  gauges : ∀ key a, lookupKey r.gauges key = some a → key.1 ∈ names
  timers : ∀ key a, lookupKey r.timers key = some a → key.1 ∈ names

theorem NamesIn.step {names : List Bytes} {r r' : Reporter} {name : Bytes} (h : NamesIn names r) (g : NewOnly r r' name) :
    NamesIn (names ++ [name]) r' := by
  refine ⟨?_, ?_, ?_, ?_⟩
  · intro n f hf
    rcases g.reg n f hf with ⟨f0, h0⟩ | h0
    · exact List.mem_append_left _ (h.reg n f0 h0)
    · simp [h0]
  · intro key a ha
    rcases g.counters key a ha with h0 | h0
    · exact List.mem_append_left _ (h.counters key a h0)
    · simp [h0]
  · intro key a ha
    rcases g.gauges key a ha with h0 | h0
    · exact List.mem_append_left _ (h.gauges key a h0)
    · simp [h0]
  · intro key a ha
    rcases g.timers key a ha with h0 | h0
    · exact List.mem_append_left _ (h.timers key a h0)
    · simp [h0]

theorem NamesIn.of_static {names : List Bytes} {a b : Reporter} (h : NamesIn names a) (s : SameStatic b a) : NamesIn names b :=
  ⟨by rw [s.reg]; exact h.reg, by rw [s.counters]; exact h.counters, by rw [s.gauges]; exact h.gauges,
   by rw [s.timers]; exact h.timers⟩

def stepNames : Ev → List Bytes
  | .use _ name _ => [name]
  | _ => []

theorem namesIn_foldl (cfg : Cfg) (evs : List Ev) : ∀ (names : List Bytes) (w : World), NamesIn names w.rep →
    NamesIn (names ++ (usesOf evs).map (·.2.1)) (evs.foldl (step cfg) w).rep := by
  induction evs with
  | nil => intro names w h; simpa [usesOf] using h
  | cons e t ih =>
    intro names w h
    simp only [List.foldl_cons]
    cases e with
    | op i e' =>
      have : NamesIn names (step cfg w (.op i e')).rep := by
        simp only [step]
        split
        · exact h
        · exact h.of_static (apply_static w i e')
      simpa [usesOf] using ih names _ this
    | pass =>
      have : NamesIn names (step cfg w .pass).rep := h.of_static (passFrom_static w _)
      simpa [usesOf] using ih names _ this
    | use kind name tags =>
      have : NamesIn (names ++ [name]) (step cfg w (.use kind name tags)).rep :=
        h.step (useMetric_newOnly cfg w.rep kind name tags)
      have := ih _ _ this
      simpa [usesOf, List.append_assoc] using this

theorem namesIn_run (cfg : Cfg) (evs : List Ev) : NamesIn ((usesOf evs).map (·.2.1)) (run cfg evs).rep := by
  have h0 : NamesIn [] ({} : World).rep := by
    refine ⟨?_, ?_, ?_, ?_⟩ <;> (intro _ _ h; cases h)
  have := namesIn_foldl cfg evs [] {} h0
  simpa [run] using this

/-- a name that appears nowhere in the reporter is accepted -/
theorem fresh_vec (cfg : Cfg) (r : Reporter) (kind : UseKind) (name : Bytes) (keys : List Bytes) (names : List Bytes)
    (h : NamesIn names r) (hn : name ∉ names) : ∃ f, (vecFor cfg r kind name keys).2 = .vec (some f) := by
  have hreg : findFamily r.reg name = none := by
    cases hf : findFamily r.reg name with
    | none => rfl
    | some f => exact absurd (h.reg _ _ hf) hn
  have hc : lookupKey r.counters (name, keys) = none := by
    cases hf : lookupKey r.counters (name, keys) with
    | none => rfl
    | some f => exact absurd (h.counters _ _ hf) hn
  have hg : lookupKey r.gauges (name, keys) = none := by
    cases hf : lookupKey r.gauges (name, keys) with
    | none => rfl
    | some f => exact absurd (h.gauges _ _ hf) hn
  have ht : lookupKey r.timers (name, keys) = none := by
    cases hf : lookupKey r.timers (name, keys) with
    | none => rfl
    | some f => exact absurd (h.timers _ _ hf) hn
  have hr : ∀ k bs, register r.reg (mkFamily name keys k bs) = .ok (r.reg ++ [mkFamily name keys k bs]) := by
    intro k bs
    simp [register, mkFamily, hreg]
  have hrD : ∀ k bs d, register r.reg (mkFamilyD name keys k bs d) = .ok (r.reg ++ [mkFamilyD name keys k bs d]) := by
    intro k bs d
    simp [register, mkFamilyD, hreg]
  cases kind with
  | counter => exact ⟨mkFamily name keys .counter [], by simp [vecFor, counterVec, hc, hr]⟩
  | gauge => exact ⟨mkFamily name keys .gauge [], by simp [vecFor, gaugeVec, hg, hr]⟩
  | timer =>
    cases hh : cfg.histTimers with
    | true => exact ⟨mkFamily name keys .histogram cfg.defaultBounds, by simp [vecFor, hh, histogramVec, ht, hr]⟩
    | false => exact ⟨mkFamily name keys .summary [], by simp [vecFor, hh, summaryVec, ht, hr]⟩
  | timerAs b =>
    cases b with
    | true => exact ⟨mkFamily name keys .histogram cfg.defaultBounds, by simp [vecFor, histogramVec, ht, hr]⟩
    | false => exact ⟨mkFamily name keys .summary [], by simp [vecFor, summaryVec, ht, hr]⟩
  | histogram spec => exact ⟨mkFamily name keys .histogram spec.promBounds, by simp [vecFor, histogramVec, ht, hr]⟩
  | counterAs => exact ⟨mkFamily name keys .counter [], by simp [vecFor, counterVec, hc, hr]⟩
  | gaugeAs => exact ⟨mkFamily name keys .gauge [], by simp [vecFor, gaugeVec, hg, hr]⟩
  | counterAsD desc => exact ⟨mkFamilyD name keys .counter [] desc, by simp [vecFor, counterVecD, hc, hrD]⟩
  | gaugeAsD desc => exact ⟨mkFamilyD name keys .gauge [] desc, by simp [vecFor, gaugeVecD, hg, hrD]⟩

theorem fresh_usable (cfg : Cfg) (pre : List Ev) (kind : UseKind) (name : Bytes) (tags : Tags)
    (hn : ∀ u ∈ usesOf pre, u.2.1 ≠ name) : ∃ k, (useMetric cfg (run cfg pre).rep kind name tags).2 = .usable k := by
  have hnames := namesIn_run cfg pre
  have hnot : name ∉ (usesOf pre).map (·.2.1) := by
    intro hm
    obtain ⟨u, hu, he⟩ := List.mem_map.mp hm
    exact hn u hu he
  obtain ⟨f, hf⟩ := fresh_vec cfg (run cfg pre).rep kind name (keysOf tags) _ hnames hnot
  rw [useMetric_eq]
  generalize vecFor cfg (run cfg pre).rep kind name (keysOf tags) = p at hf
  obtain ⟨r1, res⟩ := p
  simp only at hf
  subst hf
  split
  · exact ⟨_, rfl⟩
  · exact ⟨_, rfl⟩

/-! ### `RegisterCounter` / `RegisterGauge` with the caller's help text -/

theorem mkFamilyD_default (name : Bytes) (keys : List Bytes) (kind : Kind) (bounds : List F64) :
    mkFamilyD name keys kind bounds (name ++ helpSuffix kind) = mkFamily name keys kind bounds := rfl

/-- `counterVec` is `counterVecD` with tally's default help text -/
theorem counterVecD_default (r : Reporter) (name : Bytes) (keys : List Bytes) :
    counterVecD r name keys (name ++ helpSuffix .counter) = counterVec r name keys := rfl

theorem gaugeVecD_default (r : Reporter) (name : Bytes) (keys : List Bytes) :
    gaugeVecD r name keys (name ++ helpSuffix .gauge) = gaugeVec r name keys := rfl

/-- registering a second collector under the name of the family registered last: `already` exactly
when help and label names agree -/
theorem register_after (reg : List Family) (f g : Family) (hn : findFamily reg f.name = none) (hg : g.name = f.name) :
    register (reg ++ [f]) g = if f.help = g.help ∧ f.labels = g.labels then .err .already else .err .inconsistent := by
  unfold register
  rw [hg, findFamily_append, hn]
  simp

/-- a `counterVecD` that missed the cache and returned a vector registered the caller's family -/
theorem counterVecD_registered (r : Reporter) (name : Bytes) (keys : List Bytes) (desc : Bytes) (f : Family)
    (hc : lookupKey r.counters (name, keys) = none) (h : (counterVecD r name keys desc).2 = .vec (some f)) :
    findFamily r.reg name = none ∧ f = mkFamilyD name keys .counter [] desc
      ∧ (counterVecD r name keys desc).1.reg = r.reg ++ [f]
      ∧ (counterVecD r name keys desc).1.gauges = r.gauges := by
  cases hr : register r.reg (mkFamilyD name keys .counter [] desc) with
  | err e => simp [counterVecD, hc, hr] at h
  | ok reg' =>
    obtain ⟨h1, h2⟩ := register_ok _ _ _ hr
    simp only [counterVecD, hc, hr, VecResult.vec.injEq, Option.some.injEq] at h ⊢
    subst h
    exact ⟨h1, rfl, h2, trivial⟩

theorem gaugeVecD_registered (r : Reporter) (name : Bytes) (keys : List Bytes) (desc : Bytes) (f : Family)
    (hg : lookupKey r.gauges (name, keys) = none) (h : (gaugeVecD r name keys desc).2 = .vec (some f)) :
    findFamily r.reg name = none ∧ f = mkFamilyD name keys .gauge [] desc
      ∧ (gaugeVecD r name keys desc).1.reg = r.reg ++ [f]
      ∧ (gaugeVecD r name keys desc).1.counters = r.counters := by
  cases hr : register r.reg (mkFamilyD name keys .gauge [] desc) with
  | err e => simp [gaugeVecD, hg, hr] at h
  | ok reg' =>
    obtain ⟨h1, h2⟩ := register_ok _ _ _ hr
    simp only [gaugeVecD, hg, hr, VecResult.vec.injEq, Option.some.injEq] at h ⊢
    subst h
    exact ⟨h1, rfl, h2, trivial⟩

/-- `gaugeVecD` for the name and label names of the family registered last, with no gauge vector
cached: the client's answer comes back as the error, nothing changes -/
theorem gaugeVecD_conflict (r1 : Reporter) (reg : List Family) (f : Family) (name : Bytes) (keys : List Bytes) (desc : Bytes)
    (hreg : r1.reg = reg ++ [f]) (hn : findFamily reg name = none) (hfn : f.name = name) (hfl : f.labels = keys)
    (hg : lookupKey r1.gauges (name, keys) = none) :
    gaugeVecD r1 name keys desc = (r1, .err (if f.help = desc then .already else .inconsistent)) := by
  have hr := register_after reg f (mkFamilyD name keys .gauge [] desc) (by rw [hfn]; exact hn) (by rw [hfn]; rfl)
  simp only [gaugeVecD, hg, hreg, hr]
  by_cases hd : f.help = desc <;> simp [mkFamilyD, hd, hfl]

theorem counterVecD_conflict (r1 : Reporter) (reg : List Family) (f : Family) (name : Bytes) (keys : List Bytes) (desc : Bytes)
    (hreg : r1.reg = reg ++ [f]) (hn : findFamily reg name = none) (hfn : f.name = name) (hfl : f.labels = keys)
    (hc : lookupKey r1.counters (name, keys) = none) :
    counterVecD r1 name keys desc = (r1, .err (if f.help = desc then .already else .inconsistent)) := by
  have hr := register_after reg f (mkFamilyD name keys .counter [] desc) (by rw [hfn]; exact hn) (by rw [hfn]; rfl)
  simp only [counterVecD, hc, hreg, hr]
  by_cases hd : f.help = desc <;> simp [mkFamilyD, hd, hfl]

/-- a name no earlier first use mentions is in neither cache nor in the registry -/
theorem fresh_misses (cfg : Cfg) (pre : List Ev) (name : Bytes) (keys : List Bytes)
    (hn : ∀ u ∈ usesOf pre, u.2.1 ≠ name) :
    findFamily (run cfg pre).rep.reg name = none ∧ lookupKey (run cfg pre).rep.counters (name, keys) = none
      ∧ lookupKey (run cfg pre).rep.gauges (name, keys) = none := by
  have h := namesIn_run cfg pre
  have hnot : name ∉ (usesOf pre).map (·.2.1) := by
    intro hm
    obtain ⟨u, hu, he⟩ := List.mem_map.mp hm
    exact hn u hu he
  refine ⟨?_, ?_, ?_⟩
  · cases hf : findFamily (run cfg pre).rep.reg name with
    | none => rfl
    | some f => exact absurd (h.reg _ _ hf) hnot
  · cases hf : lookupKey (run cfg pre).rep.counters (name, keys) with
    | none => rfl
    | some f => exact absurd (h.counters _ _ hf) hnot
  · cases hf : lookupKey (run cfg pre).rep.gauges (name, keys) with
    | none => rfl
    | some f => exact absurd (h.gauges _ _ hf) hnot

end Tally.Prom
