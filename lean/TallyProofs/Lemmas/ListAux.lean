/-! Small list lemmas used across the proofs (core only). -/
namespace Tally.ListAux

theorem getD_eq_getElem (l : List α) (d : α) {i : Nat} (h : i < l.length) : l.getD i d = l[i] := by
  rw [List.getD_eq_getElem?_getD, List.getElem?_eq_getElem h]; rfl

theorem getD_eq_default (l : List α) (d : α) {i : Nat} (h : l.length ≤ i) : l.getD i d = d := by
  rw [List.getD_eq_getElem?_getD, List.getElem?_eq_none h]; rfl

end Tally.ListAux
