import TallyProofs.Lemmas.RootCloseLemmas
/-!
# Log-shape and token-accounting invariant of the root-Close model (C08)
-/
namespace Tally.RootClose

/-! ## list facts -/

theorem count_flatten_set {α : Type} [BEq α] (a : α) (l : List (List α)) (i : Nat) (x y : List α)
    (h : l[i]? = some x) :
    List.count a (l.set i y).flatten + List.count a x = List.count a l.flatten + List.count a y := by
  induction l generalizing i with
  | nil => simp at h
  | cons z l ih =>
    cases i with
    | zero =>
      simp only [List.getElem?_cons_zero, Option.some.injEq] at h; subst h
      simp only [List.set_cons_zero, List.flatten_cons, List.count_append]; omega
    | succ i =>
      simp only [List.getElem?_cons_succ] at h
      have := ih i h
      simp only [List.set_cons_succ, List.flatten_cons, List.count_append]; omega

theorem flatten_map_nil {α β : Type} (l : List β) : (l.map fun _ => ([] : List α)).flatten = [] := by
  induction l with
  | nil => rfl
  | cons z l ih => simp [ih]

def NoPre (l : List Token) : Prop := ∀ tok ∈ l, tok.pre = false

/-- the cells `0 … b-1` hold no token recorded before Close -/
def CleanBelow (cells : List (List Token)) (b : Nat) : Prop :=
  ∀ j c, j < b → cells[j]? = some c → NoPre c

theorem CleanBelow.mono {cells : List (List Token)} {b b' : Nat} (h : CleanBelow cells b) (hb : b' ≤ b) :
    CleanBelow cells b' := fun j c hj hc => h j c (by omega) hc

theorem CleanBelow.beyond {cells : List (List Token)} {b : Nat} (h : CleanBelow cells b) (hb : cells.length ≤ b)
    (b' : Nat) : CleanBelow cells b' := by
  intro j c _ hc
  have : j < cells.length := by
    apply Classical.byContradiction; intro hn
    have : cells[j]? = none := List.getElem?_eq_none (by omega)
    rw [this] at hc; cases hc
  exact h j c (by omega) hc

theorem CleanBelow.zero (cells : List (List Token)) : CleanBelow cells 0 := fun _ _ hj _ => by omega

theorem CleanBelow.set_nil {cells : List (List Token)} {b : Nat} (h : CleanBelow cells b) (i : Nat) :
    CleanBelow (cells.set i []) b := by
  intro j c hj hc
  rw [List.getElem?_set] at hc
  split at hc
  · split at hc
    · simp only [Option.some.injEq] at hc; subst hc; intro tok ht; cases ht
    · cases hc
  · exact h j c hj hc

theorem CleanBelow.set_nil_succ {cells : List (List Token)} {i : Nat} (h : CleanBelow cells i) :
    CleanBelow (cells.set i []) (i + 1) := by
  intro j c hj hc
  rw [List.getElem?_set] at hc
  split at hc
  · split at hc
    · simp only [Option.some.injEq] at hc; subst hc; intro tok ht; cases ht
    · cases hc
  · next hne => exact h j c (by omega) hc

theorem CleanBelow.succ_of_nil {cells : List (List Token)} {i : Nat} (h : CleanBelow cells i)
    (hi : cells[i]? = some []) : CleanBelow cells (i + 1) := by
  intro j c hj hc
  by_cases hji : j = i
  · subst hji; rw [hi] at hc; simp only [Option.some.injEq] at hc; subst hc; intro tok ht; cases ht
  · exact h j c (by omega) hc

theorem CleanBelow.set_cons {cells : List (List Token)} {b : Nat} (h : CleanBelow cells b) (i : Nat) (tok : Token)
    (x : List Token) (hi : cells[i]? = some x) (hp : 0 < b → tok.pre = false) :
    CleanBelow (cells.set i (tok :: x)) b := by
  intro j c hj hc
  rw [List.getElem?_set] at hc
  split at hc
  · next hij =>
    subst hij
    split at hc
    · simp only [Option.some.injEq] at hc; subst hc
      intro t ht
      simp only [List.mem_cons] at ht
      rcases ht with rfl | ht
      · exact hp (by omega)
      · exact h i x hj hi t ht
    · cases hc
  · exact h j c hj hc

theorem CleanBelow.map_nil (cells : List (List Token)) (b : Nat) : CleanBelow (cells.map fun _ => []) b := by
  intro j c _ hc
  simp only [List.getElem?_map, Option.map_eq_some_iff] at hc
  obtain ⟨_, _, rfl⟩ := hc
  intro tok ht; cases ht

theorem CleanBelow.flatten {cells : List (List Token)} (h : CleanBelow cells cells.length) : NoPre cells.flatten := by
  intro tok ht
  obtain ⟨c, hc, htc⟩ := List.mem_flatten.mp ht
  obtain ⟨j, hj, hjc⟩ := List.mem_iff_getElem.mp hc
  exact h j c hj (by rw [List.getElem?_eq_getElem hj, hjc]) tok htc

/-! ## classifiers -/

def PassPc.bound (K : Nat) : PassPc → Nat
  | .begin => 0
  | .swap i => i
  | .deliver i _ => i + 1
  | .flush => K

/-- how many leading cells are already free of `pre` tokens, by the winner's progress -/
def cleanBound (K : Nat) : CPc → Nat
  | .pass p => p.bound K
  | .purgePc => K
  | .reporterClose => K
  | .returned _ => K
  | _ => 0

def optPend : Option PassPc → List Token
  | some q => q.pend
  | none => []

def optBound (K : Nat) : Option PassPc → Nat
  | some q => q.bound K
  | none => K

def lastFlushed : List LogEv → Bool
  | .flush :: _ => true
  | _ => false

/-- the log ends with the final flush followed — iff the reporter is closable — by its close -/
def endsRight (closable : Bool) : List LogEv → Bool
  | .reporterClose :: .flush :: _ => closable
  | .flush :: _ => !closable
  | _ => false

theorem cleanBound_pos {K : Nat} {p : CPc} (h : 0 < cleanBound K p) : 3 ≤ ph p := by
  cases p <;> simp [cleanBound, ph] at h ⊢

/-! ## what one pass step does -/

theorem passStep_cons (s : State) (p : PassPc) (tok : Token) :
    List.count tok (delivered (passStep s p).1.log) + List.count tok (optPend (passStep s p).2)
      + List.count tok (passStep s p).1.cells.flatten
    = List.count tok (delivered s.log) + List.count tok p.pend + List.count tok s.cells.flatten := by
  cases p with
  | begin => simp [passStep, delivered, optPend, PassPc.pend]
  | swap i =>
    simp only [passStep]
    split
    · simp [optPend, PassPc.pend]
    · simp [optPend, PassPc.pend]
    · next x c hi =>
      have := count_flatten_set tok s.cells i (x :: c) [] hi
      simp only [optPend, PassPc.pend, List.count_nil] at this ⊢
      omega
  | deliver i pend => simp [passStep, delivered, optPend, PassPc.pend, List.count_append]; omega
  | flush => simp [passStep, delivered, optPend, PassPc.pend]

theorem passStep_countRC (s : State) (p : PassPc) : countRC (passStep s p).1.log = countRC s.log := by
  cases p with
  | begin => rfl
  | swap i => simp only [passStep]; split <;> rfl
  | deliver i pend => rfl
  | flush => rfl

theorem passStep_flushed (s : State) (p : PassPc) (h : (passStep s p).2 = none) :
    lastFlushed (passStep s p).1.log = true := by
  cases p with
  | begin => simp [passStep] at h
  | swap i => simp only [passStep] at h; split at h <;> simp at h
  | deliver i pend => simp [passStep] at h
  | flush => rfl

/-- a pass of another thread never puts a `pre` token back -/
theorem passStep_clean_frame (s : State) (p : PassPc) (b : Nat) (h : CleanBelow s.cells b) :
    CleanBelow (passStep s p).1.cells b := by
  cases p with
  | begin => exact h
  | swap i =>
    simp only [passStep]
    split
    · exact h
    · exact h
    · exact h.set_nil i
  | deliver i pend => exact h
  | flush => exact h

/-- the winner's final pass extends the clean prefix as it walks -/
theorem passStep_clean (s : State) (p : PassPc) (h : CleanBelow s.cells (p.bound s.cells.length)) :
    CleanBelow (passStep s p).1.cells (optBound s.cells.length (passStep s p).2) := by
  cases p with
  | begin => exact CleanBelow.zero _
  | swap i =>
    simp only [passStep]
    split
    · next hi =>
      have : s.cells.length ≤ i := by
        apply Classical.byContradiction; intro hn
        rw [List.getElem?_eq_getElem (by omega)] at hi; cases hi
      exact h.beyond this _
    · next hi => exact h.succ_of_nil hi
    · exact h.set_nil_succ
  | deliver i pend => exact h
  | flush => exact h

/-! ## the invariant -/

structure Tok (s : State) : Prop where
  rc : countRC s.log = if ph (wpc s) = 6 ∧ s.closable = true then 1 else 0
  tail45 : ph (wpc s) = 4 ∨ ph (wpc s) = 5 → lastFlushed s.log = true
  tail6 : ph (wpc s) = 6 → endsRight s.closable s.log = true
  dropNoPre : NoPre s.dropped
  clean : CleanBelow s.cells (cleanBound s.cells.length (wpc s))
  cons : ∀ tok, List.count tok (delivered s.log) + List.count tok s.loop.pend + List.count tok (wpc s).pend
      + List.count tok s.cells.flatten + List.count tok s.dropped = List.count tok s.issued
  fresh : ∀ tok ∈ s.issued, tok.id < s.nextId
  nodup : s.issued.Nodup

theorem tok_init (k : Nat) (hl cl : Bool) (er : Option Nat) : Tok (init k hl cl er) := by
  refine ⟨?_, ?_, ?_, ?_, ?_, ?_, ?_, ?_⟩
  · simp [init, wpc, ph, countRC]
  · simp [init, wpc, ph]
  · simp [init, wpc, ph]
  · intro tok h; simp [init] at h
  · simp [init, wpc, cleanBound]; exact CleanBelow.zero _
  · intro tok
    have : (List.replicate k ([] : List Token)).flatten = [] := by
      induction k with
      | zero => rfl
      | succ n ih => simp [List.replicate_succ, ih]
    simp [init, wpc, delivered, CPc.pend, this]
    cases hl <;> simp [LoopPc.pend]
  · intro tok h; simp [init] at h
  · simp [init]

theorem Ctl.closed_of_ph {s : State} (h : Ctl s) (hp : 1 ≤ ph (wpc s)) : s.closed = true := by
  rw [h.closed_iff]
  cases hw : s.winner with
  | none => simp [wpc, hw, ph] at hp
  | some w => rfl

theorem fresh_cons {issued : List Token} {n : Nat} (tok : Token) (hid : tok.id = n)
    (hf : ∀ t ∈ issued, t.id < n) : ∀ t ∈ tok :: issued, t.id < n + 1 := by
  intro t ht
  simp only [List.mem_cons] at ht
  rcases ht with rfl | ht
  · omega
  · have := hf t ht; omega

theorem nodup_cons_fresh {issued : List Token} {n : Nat} (tok : Token) (hid : tok.id = n)
    (hf : ∀ t ∈ issued, t.id < n) (hn : issued.Nodup) : (tok :: issued).Nodup := by
  refine List.nodup_cons.mpr ⟨?_, hn⟩
  intro hm; have := hf tok hm; omega

/-- steps that leave the winner's pc, the log, the cells and the token ghosts alone -/
theorem Tok.frame {s s' : State} (h : Tok s) (hw : wpc s' = wpc s) (hlog : s'.log = s.log)
    (hcl : s'.closable = s.closable) (hc : s'.cells = s.cells) (hd : s'.dropped = s.dropped)
    (hi : s'.issued = s.issued) (hn : s'.nextId = s.nextId) (hp : s'.loop.pend = s.loop.pend) : Tok s' := by
  refine ⟨?_, ?_, ?_, ?_, ?_, ?_, ?_, ?_⟩
  · rw [hw, hlog, hcl]; exact h.rc
  · rw [hw, hlog]; exact h.tail45
  · rw [hw, hlog, hcl]; exact h.tail6
  · rw [hd]; exact h.dropNoPre
  · rw [hw, hc]; exact h.clean
  · rw [hw, hlog, hc, hd, hi, hp]; exact h.cons
  · rw [hi, hn]; exact h.fresh
  · rw [hi]; exact h.nodup

theorem wpc_eq {s s' : State} (h1 : s'.winner = s.winner) (h2 : s'.closers = s.closers) : wpc s' = wpc s := by
  simp [wpc, h1, h2]

structure PassSame (s s1 : State) : Prop where
  winner : s1.winner = s.winner
  closers : s1.closers = s.closers
  dropped : s1.dropped = s.dropped
  issued : s1.issued = s.issued
  nextId : s1.nextId = s.nextId
  closable : s1.closable = s.closable
  loop : s1.loop = s.loop

theorem passStep_same (s : State) (p : PassPc) : PassSame s (passStep s p).1 := by
  obtain ⟨c, l, hf⟩ := passStep_frame s p
  rw [hf]; exact ⟨rfl, rfl, rfl, rfl, rfl, rfl, rfl⟩

/-- a step of a periodic pass (the loop has not exited, so the winner — if any — is still before its wait) -/
theorem Tok.loop_pass {s : State} (h : Ctl s) (h2 : Tok s) (p : PassPc) (hl : s.loop = .pass p) (lp : LoopPc)
    (hlp : lp.pend = optPend (passStep s p).2) : Tok { (passStep s p).1 with loop := lp } := by
  have hsame := passStep_same s p
  have hw : wpc { (passStep s p).1 with loop := lp } = wpc s := wpc_eq hsame.winner hsame.closers
  have hph : ph (wpc s) < 3 := by
    apply Classical.byContradiction; intro hn
    have := h.loopEx (by omega); rw [hl] at this; cases this
  refine ⟨?_, ?_, ?_, ?_, ?_, ?_, ?_, ?_⟩
  · rw [hw]
    show countRC (passStep s p).1.log = _
    rw [passStep_countRC, h2.rc]
    have : ¬ (ph (wpc s) = 6) := by omega
    simp [this]
  · rw [hw]; intro h45; omega
  · rw [hw]; intro h6; omega
  · show NoPre (passStep s p).1.dropped
    rw [hsame.dropped]; exact h2.dropNoPre
  · rw [hw]
    intro j c hj _
    have := cleanBound_pos (Nat.lt_of_le_of_lt (Nat.zero_le _) hj); omega
  · intro tok
    rw [hw]
    show List.count tok (delivered (passStep s p).1.log) + List.count tok lp.pend + List.count tok (wpc s).pend
      + List.count tok (passStep s p).1.cells.flatten + List.count tok (passStep s p).1.dropped
      = List.count tok (passStep s p).1.issued
    have h1 := h2.cons tok
    have h3 := passStep_cons s p tok
    rw [hl] at h1
    simp only [LoopPc.pend] at h1
    rw [hlp, hsame.dropped, hsame.issued]
    omega
  · show ∀ tok ∈ (passStep s p).1.issued, tok.id < (passStep s p).1.nextId
    rw [hsame.issued, hsame.nextId]; exact h2.fresh
  · show (passStep s p).1.issued.Nodup
    rw [hsame.issued]; exact h2.nodup

/-- the winner moves between pcs before its final pass -/
theorem Tok.wmove {s s' : State} (h : Tok s) (hlog : s'.log = s.log) (hc : s'.cells = s.cells) (hd : s'.dropped = s.dropped)
    (hi : s'.issued = s.issued) (hn : s'.nextId = s.nextId) (hp : s'.loop.pend = s.loop.pend)
    (hpend : (wpc s').pend = (wpc s).pend) (hph : ph (wpc s') < 4) (hph0 : ph (wpc s) < 6)
    (hb : cleanBound s.cells.length (wpc s') = 0) : Tok s' := by
  refine ⟨?_, ?_, ?_, ?_, ?_, ?_, ?_, ?_⟩
  · rw [hlog, h.rc]
    have a : ¬ (ph (wpc s) = 6) := by omega
    have b : ¬ (ph (wpc s') = 6) := by omega
    simp [a, b]
  · intro h45; omega
  · intro h6; omega
  · rw [hd]; exact h.dropNoPre
  · rw [hc, hb]; exact CleanBelow.zero _
  · rw [hpend, hlog, hc, hd, hi, hp]; exact h.cons
  · rw [hi, hn]; exact h.fresh
  · rw [hi]; exact h.nodup

/-- a step of the winner's final pass -/
theorem Tok.final_pass {s : State} (h : Ctl s) (h2 : Tok s) (t : Nat) (p : PassPc) (hw : s.winner = some t)
    (hpc : s.closers t = .pass p) (p' : CPc) (hpend : p'.pend = optPend (passStep s p).2)
    (hph : ph p' = 3 ∨ (ph p' = 4 ∧ (passStep s p).2 = none))
    (hb : cleanBound s.cells.length p' = optBound s.cells.length (passStep s p).2) :
    Tok (setC (passStep s p).1 t p') := by
  have hsame := passStep_same s p
  have hw0 : wpc s = .pass p := by rw [wpc_of_winner hw, hpc]
  have hw1 : wpc (setC (passStep s p).1 t p') = p' := by simp [wpc, setC, hsame.winner, hw]
  have hex : s.loop = .exited := h.loopEx (by rw [hw0]; simp [ph])
  refine ⟨?_, ?_, ?_, ?_, ?_, ?_, ?_, ?_⟩
  · rw [hw1]
    show countRC (passStep s p).1.log = _
    rw [passStep_countRC, h2.rc, hw0]
    have a : ¬ (ph (CPc.pass p) = 6) := by simp [ph]
    have b : ¬ (ph p' = 6) := by omega
    rw [if_neg (fun hh => a hh.1), if_neg (fun hh => b hh.1)]
  · rw [hw1]; intro h45
    rcases hph with h3 | ⟨_, hn⟩
    · omega
    · exact passStep_flushed s p hn
  · rw [hw1]; intro h6; omega
  · show NoPre (passStep s p).1.dropped
    rw [hsame.dropped]; exact h2.dropNoPre
  · rw [hw1]
    show CleanBelow (passStep s p).1.cells (cleanBound (passStep s p).1.cells.length p')
    rw [passStep_length, hb]
    apply passStep_clean
    have := h2.clean; rw [hw0] at this; exact this
  · intro tok
    rw [hw1]
    show List.count tok (delivered (passStep s p).1.log) + List.count tok (passStep s p).1.loop.pend
      + List.count tok p'.pend
      + List.count tok (passStep s p).1.cells.flatten + List.count tok (passStep s p).1.dropped
      = List.count tok (passStep s p).1.issued
    have h1 := h2.cons tok
    have h3 := passStep_cons s p tok
    rw [hw0] at h1
    simp only [CPc.pend] at h1
    rw [hpend, hsame.dropped, hsame.issued, hsame.loop]
    omega
  · show ∀ tok ∈ (passStep s p).1.issued, tok.id < (passStep s p).1.nextId
    rw [hsame.issued, hsame.nextId]; exact h2.fresh
  · show (passStep s p).1.issued.Nodup
    rw [hsame.issued]; exact h2.nodup

theorem tok_step (s s' : State) (e : Ev) (h : Ctl s) (h2 : Tok s) (hs : step s e = some s') : Tok s' := by
  cases e with
  | record c =>
    simp only [step] at hs
    split at hs
    · cases hs
    · next x hx =>
      split at hs <;> (simp only [Option.some.injEq] at hs; subst hs)
      · next hpg =>
        have hcl : s.closed = true := by
          apply h.closed_of_ph
          have := h.purged_iff; rw [hpg] at this; simp at this; omega
        refine ⟨h2.rc, h2.tail45, h2.tail6, ?_, h2.clean, ?_, fresh_cons _ rfl h2.fresh,
          nodup_cons_fresh _ rfl h2.fresh h2.nodup⟩
        · intro t ht
          simp only [List.mem_cons] at ht
          rcases ht with rfl | ht
          · simp [hcl]
          · exact h2.dropNoPre t ht
        · intro tok
          have := h2.cons tok
          show List.count tok (delivered s.log) + List.count tok s.loop.pend + List.count tok (wpc s).pend
            + List.count tok s.cells.flatten + List.count tok (_ :: s.dropped) = List.count tok (_ :: s.issued)
          simp only [List.count_cons] at this ⊢
          omega
      · next hpg =>
        refine ⟨h2.rc, h2.tail45, h2.tail6, h2.dropNoPre, ?_, ?_, fresh_cons _ rfl h2.fresh,
          nodup_cons_fresh _ rfl h2.fresh h2.nodup⟩
        · simp only [List.length_set]
          refine h2.clean.set_cons c _ x hx ?_
          intro hpos
          have := h.closed_of_ph (by have := cleanBound_pos hpos; omega)
          simp [this]
        · intro tok
          have h1 := h2.cons tok
          have h3 := count_flatten_set tok s.cells c x ({ id := s.nextId, cell := c, pre := !s.closed } :: x) hx
          show List.count tok (delivered s.log) + List.count tok s.loop.pend + List.count tok (wpc s).pend
            + List.count tok (s.cells.set c _).flatten + List.count tok s.dropped = List.count tok (_ :: s.issued)
          simp only [List.count_cons] at h1 h3 ⊢
          omega
  | obtain c =>
    simp only [step] at hs
    split at hs
    · simp only [Option.some.injEq] at hs; subst hs
      exact h2.frame rfl rfl rfl rfl rfl rfl rfl rfl
    · split at hs
      · simp only [Option.some.injEq] at hs; subst hs
        exact h2.frame rfl rfl rfl rfl rfl rfl rfl rfl
      · cases hs
  | tick =>
    simp only [step] at hs
    split at hs
    · next hl =>
      simp only [Option.some.injEq] at hs; subst hs
      exact h2.frame rfl rfl rfl rfl rfl rfl rfl (by simp [hl, LoopPc.pend])
    · cases hs
  | exit =>
    simp only [step] at hs
    split at hs
    · next hl =>
      split at hs
      · simp only [Option.some.injEq] at hs; subst hs
        exact h2.frame rfl rfl rfl rfl rfl rfl rfl (by simp [hl, LoopPc.pend])
      · cases hs
    · cases hs
  | loop =>
    simp only [step] at hs
    split at hs
    · next hl =>
      split at hs <;> (simp only [Option.some.injEq] at hs; subst hs)
      · exact h2.frame rfl rfl rfl rfl rfl rfl rfl (by simp [hl, LoopPc.pend])
      · exact h2.frame rfl rfl rfl rfl rfl rfl rfl (by simp [hl, LoopPc.pend, PassPc.pend])
    · next p hl =>
      split at hs
      · next s1 q hp =>
        simp only [Option.some.injEq] at hs; subst hs
        have e1 : s1 = (passStep s p).1 := by rw [hp]
        have e2 : (passStep s p).2 = some q := by rw [hp]
        subst e1
        exact Tok.loop_pass h h2 p hl (.pass q) (by rw [e2]; rfl)
      · next s1 hp =>
        simp only [Option.some.injEq] at hs; subst hs
        have e1 : s1 = (passStep s p).1 := by rw [hp]
        have e2 : (passStep s p).2 = none := by rw [hp]
        subst e1
        exact Tok.loop_pass h h2 p hl .waiting (by rw [e2]; rfl)
    · cases hs
  | closer t =>
    simp only [step] at hs
    split at hs
    · next hpc =>
      have hnw : s.winner ≠ some t := fun hw => by have := h.wne t hw; rw [hpc] at this; simp [ph] at this
      split at hs <;> (simp only [Option.some.injEq] at hs; subst hs)
      · have hwp : wpc { setC s t .returnedNil with returns := (t, none) :: s.returns } = wpc s := by
          simp only [wpc, setC]; split
          · rfl
          · next w hw => have : w ≠ t := fun e => hnw (e ▸ hw); simp [this]
        exact h2.frame hwp rfl rfl rfl rfl rfl rfl rfl
      · next hcl =>
        have hwn : s.winner = none := by
          have := h.closed_iff; cases hw : s.winner <;> simp_all
        have hw0 : wpc s = .start := by simp [wpc, hwn]
        have hw1 : wpc { setC s t .won with closed := true, winner := some t } = .won := by simp [wpc, setC]
        exact h2.wmove rfl rfl rfl rfl rfl rfl (by rw [hw0, hw1]; rfl) (by rw [hw1]; simp [ph])
          (by rw [hw0]; simp [ph]) (by rw [hw1]; rfl)
    · next hpc =>
      have hw := h.winner_of t (by rw [hpc]; simp [ph])
      simp only [Option.some.injEq] at hs; subst hs
      have hw0 : wpc s = .won := by rw [wpc_of_winner hw, hpc]
      have hw1 : wpc { setC s t .doneClosedPc with doneClosed := true } = .doneClosedPc := by simp [wpc, setC, hw]
      exact h2.wmove rfl rfl rfl rfl rfl rfl (by rw [hw0, hw1]; rfl) (by rw [hw1]; simp [ph])
        (by rw [hw0]; simp [ph]) (by rw [hw1]; rfl)
    · next hpc =>
      have hw := h.winner_of t (by rw [hpc]; simp [ph])
      split at hs
      · simp only [Option.some.injEq] at hs; subst hs
        have hw0 : wpc s = .doneClosedPc := by rw [wpc_of_winner hw, hpc]
        have hw1 : wpc (setC s t (.pass .begin)) = .pass .begin := by simp [wpc, setC, hw]
        exact h2.wmove rfl rfl rfl rfl rfl rfl (by rw [hw0, hw1]; rfl) (by rw [hw1]; simp [ph])
          (by rw [hw0]; simp [ph]) (by rw [hw1]; rfl)
      · cases hs
    · next p hpc =>
      have hw := h.winner_of t (by rw [hpc]; simp [ph])
      split at hs
      · next s1 q hp =>
        simp only [Option.some.injEq] at hs; subst hs
        have e1 : s1 = (passStep s p).1 := by rw [hp]
        have e2 : (passStep s p).2 = some q := by rw [hp]
        subst e1
        exact Tok.final_pass h h2 t p hw hpc (.pass q) (by rw [e2]; rfl) (Or.inl rfl) (by rw [e2]; rfl)
      · next s1 hp =>
        simp only [Option.some.injEq] at hs; subst hs
        have e1 : s1 = (passStep s p).1 := by rw [hp]
        have e2 : (passStep s p).2 = none := by rw [hp]
        subst e1
        exact Tok.final_pass h h2 t p hw hpc .purgePc (by rw [e2]; rfl) (Or.inr ⟨rfl, e2⟩) (by rw [e2]; rfl)
    · next hpc =>
      have hw := h.winner_of t (by rw [hpc]; simp [ph])
      simp only [Option.some.injEq] at hs; subst hs
      have hw0 : wpc s = .purgePc := by rw [wpc_of_winner hw, hpc]
      have hw1 : wpc (setC (purgeAll s) t .reporterClose) = .reporterClose := by simp [wpc, setC, purgeAll, hw]
      have hex : s.loop = .exited := h.loopEx (by rw [hw0]; simp [ph])
      have hclean := h2.clean; rw [hw0] at hclean; simp only [cleanBound] at hclean
      refine ⟨?_, ?_, ?_, ?_, ?_, ?_, h2.fresh, h2.nodup⟩
      · rw [hw1]; have := h2.rc; rw [hw0] at this; simp [ph] at this ⊢; exact this
      · intro _; exact h2.tail45 (by rw [hw0]; simp [ph])
      · rw [hw1]; intro h6; simp [ph] at h6
      · show NoPre (s.cells.flatten ++ s.dropped)
        intro tok ht
        rcases List.mem_append.mp ht with ht | ht
        · exact hclean.flatten tok ht
        · exact h2.dropNoPre tok ht
      · exact CleanBelow.map_nil _ _
      · intro tok
        rw [hw1]
        show List.count tok (delivered s.log) + List.count tok s.loop.pend + List.count tok CPc.reporterClose.pend
          + List.count tok (s.cells.map fun _ => []).flatten + List.count tok (s.cells.flatten ++ s.dropped)
          = List.count tok s.issued
        have h1 := h2.cons tok
        rw [hw0] at h1
        rw [flatten_map_nil, List.count_append]
        simp only [CPc.pend, List.count_nil] at h1 ⊢
        omega
    · next hpc =>
      have hw := h.winner_of t (by rw [hpc]; simp [ph])
      have hw0 : wpc s = .reporterClose := by rw [wpc_of_winner hw, hpc]
      have hfl := h2.tail45 (by rw [hw0]; simp [ph])
      have hrc := h2.rc; rw [hw0] at hrc; simp [ph] at hrc
      have hclean := h2.clean; rw [hw0] at hclean
      have hcons := h2.cons; rw [hw0] at hcons
      split at hs
      · next hcl =>
        simp only [Option.some.injEq] at hs; subst hs
        have hw1 : wpc { setC s t (.returned s.err) with log := .reporterClose :: s.log, returns := (t, s.err) :: s.returns } = .returned s.err := by
          simp [wpc, setC, hw]
        refine ⟨?_, ?_, ?_, h2.dropNoPre, ?_, ?_, h2.fresh, h2.nodup⟩
        · rw [hw1]
          show countRC (.reporterClose :: s.log) = if ph (.returned s.err) = 6 ∧ s.closable = true then 1 else 0
          simp [countRC, hrc, ph, hcl]
        · rw [hw1]; intro h45; simp [ph] at h45
        · intro _
          show endsRight s.closable (.reporterClose :: s.log) = true
          cases hlog : s.log with
          | nil => rw [hlog] at hfl; simp [lastFlushed] at hfl
          | cons a l => rw [hlog] at hfl; cases a <;> simp [lastFlushed] at hfl; simp [endsRight, hcl]
        · rw [hw1]; exact hclean
        · rw [hw1]; exact hcons
      · next hcl =>
        simp only [Option.some.injEq] at hs; subst hs
        have hw1 : wpc { setC s t (.returned none) with returns := (t, none) :: s.returns } = .returned none := by
          simp [wpc, setC, hw]
        refine ⟨?_, ?_, ?_, h2.dropNoPre, ?_, ?_, h2.fresh, h2.nodup⟩
        · rw [hw1]
          show countRC s.log = if ph (.returned none) = 6 ∧ s.closable = true then 1 else 0
          simp [hrc, hcl]
        · rw [hw1]; intro h45; simp [ph] at h45
        · intro _
          show endsRight s.closable s.log = true
          cases hlog : s.log with
          | nil => rw [hlog] at hfl; simp [lastFlushed] at hfl
          | cons a l => rw [hlog] at hfl; cases a <;> simp [lastFlushed] at hfl; simp [endsRight, hcl]
        · rw [hw1]; exact hclean
        · rw [hw1]; exact hcons
    · cases hs
    · cases hs

theorem tok_run (s s' : State) (es : List Ev) (h : Ctl s) (h2 : Tok s) (hr : run s es = some s') : Tok s' := by
  induction es generalizing s with
  | nil => simp only [run, Option.some.injEq] at hr; subst hr; exact h2
  | cons e es ih =>
    simp only [run] at hr
    split at hr
    · cases hr
    · next s1 h1 => exact ih s1 (ctl_step s s1 e h h1) (tok_step s s1 e h h2 h1) hr

end Tally.RootClose
